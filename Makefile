# /verif build: recompiles libTMCG from /repo/src on every invocation (dependency tracked)
REPO ?= /repo
B    ?= build
F    ?= plain
GUARD = -DHEIKOSTAMER_LIBTMCG_VERIF
COMMON = -g -w -pthread -DHAVE_CONFIG_H -I$(REPO) -I$(REPO)/src -I/repo $(GUARD)
FLAGS_plain = -O2
# enum loads of wire octets are reported by -fsanitize=enum; they are not among the failures C12 names (see DESIGN.md section 7)
FLAGS_asan  = -O1 -fsanitize=address,undefined -fno-sanitize=enum -fno-sanitize-recover=undefined -fno-omit-frame-pointer
# /repo/libTMCG_config.h defines the NIZK stage counts unconditionally, so the tiny flavour compiles against a patched copy
FLAGS_tiny  = -O2 -UHAVE_CONFIG_H -include $(B)/tiny/cfg/libTMCG_config.h
CXX = g++
CXXF = $(COMMON) $(FLAGS_$(F))
LIBS = -lgcrypt -lgmp -lgpg-error -ldl

LIBSRC := $(filter-out $(REPO)/src/gen_primes.cc,$(wildcard $(REPO)/src/*.cc))
LIBOBJ := $(patsubst $(REPO)/src/%.cc,$(B)/$(F)/lib/%.o,$(LIBSRC))
MCSRC  := $(wildcard mc/*.cc)
MCOBJ  := $(patsubst mc/%.cc,$(B)/$(F)/mc/%.o,$(MCSRC))
DRVSRC := $(wildcard drivers/*.cc)
DRVBIN := $(patsubst drivers/%.cc,$(B)/$(F)/%,$(DRVSRC))

.PHONY: lib all setup clean drivers
.SECONDARY: $(patsubst drivers/%.cc,$(B)/$(F)/drv/%.o,$(DRVSRC))
lib: $(B)/$(F)/libtmcg.a $(MCOBJ)
all: $(DRVBIN)

setup:
	$(MAKE) F=plain lib
	$(MAKE) F=asan lib

CFGDEP_plain =
CFGDEP_asan =
CFGDEP_tiny = $(B)/tiny/cfg/libTMCG_config.h

$(B)/tiny/cfg/libTMCG_config.h: $(firstword $(wildcard $(REPO)/libTMCG_config.h /repo/libTMCG_config.h))
	@mkdir -p $(dir $@)
	@sed -E 's/^#define TMCG_KEY_NIZK_STAGE1 .*/#define TMCG_KEY_NIZK_STAGE1 4/; s/^#define TMCG_KEY_NIZK_STAGE2 .*/#define TMCG_KEY_NIZK_STAGE2 8/; s/^#define TMCG_KEY_NIZK_STAGE3 .*/#define TMCG_KEY_NIZK_STAGE3 8/' $< > $@

$(B)/$(F)/lib/%.o: $(REPO)/src/%.cc $(CFGDEP_$(F))
	@mkdir -p $(dir $@)
	@echo CXX $<
	@$(CXX) $(CXXF) -MMD -MP -c $< -o $@

$(B)/$(F)/mc/%.o: mc/%.cc $(CFGDEP_$(F))
	@mkdir -p $(dir $@)
	@echo CXX $<
	@$(CXX) $(CXXF) -fno-access-control -Imc -MMD -MP -c $< -o $@

$(B)/$(F)/drv/%.o: drivers/%.cc $(CFGDEP_$(F))
	@mkdir -p $(dir $@)
	@echo CXX $<
	@$(CXX) $(CXXF) -fno-access-control -Imc -I. -MMD -MP -c $< -o $@

$(B)/$(F)/libtmcg.a: $(LIBOBJ)
	@rm -f $@
	@ar rcs $@ $(LIBOBJ)

$(B)/$(F)/%: $(B)/$(F)/drv/%.o $(B)/$(F)/libtmcg.a $(MCOBJ)
	@echo LINK $@
	@$(CXX) $(CXXF) -o $@ $< $(MCOBJ) $(B)/$(F)/libtmcg.a $(LIBS)

clean:
	rm -rf $(B)

-include $(wildcard $(B)/$(F)/lib/*.d $(B)/$(F)/mc/*.d $(B)/$(F)/drv/*.d)
