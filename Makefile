# /verif build: recompiles libTMCG from /repo/src on every invocation (dependency tracked)
REPO ?= /repo
B    ?= build
F    ?= plain
GUARD = -DHEIKOSTAMER_LIBTMCG_VERIF
COMMON = -g -w -pthread -DHAVE_CONFIG_H -I$(REPO) -I$(REPO)/src -I/repo $(GUARD)
FLAGS_plain = -O2
FLAGS_asan  = -O1 -fsanitize=address,undefined -fno-sanitize-recover=undefined -fno-omit-frame-pointer
FLAGS_tiny  = -O2 -DTMCG_KEY_NIZK_STAGE1=4 -DTMCG_KEY_NIZK_STAGE2=8 -DTMCG_KEY_NIZK_STAGE3=8
CXX = g++
CXXF = $(COMMON) $(FLAGS_$(F))
LIBS = -lgcrypt -lgmp -lgpg-error -ldl

LIBSRC := $(filter-out $(REPO)/src/gen_primes.cc,$(wildcard $(REPO)/src/*.cc))
LIBOBJ := $(patsubst $(REPO)/src/%.cc,$(B)/$(F)/lib/%.o,$(LIBSRC))
MCSRC  := $(wildcard mc/*.cc)
MCOBJ  := $(patsubst mc/%.cc,$(B)/$(F)/mc/%.o,$(MCSRC))
DRVSRC := $(wildcard drivers/*.cc)
DRVBIN := $(patsubst drivers/%.cc,$(B)/$(F)/%,$(DRVSRC))

.PHONY: lib all setup clean drivers
.SECONDARY:
lib: $(B)/$(F)/libtmcg.a $(MCOBJ)
all: $(DRVBIN)

setup:
	$(MAKE) F=plain lib
	$(MAKE) F=asan lib

$(B)/$(F)/lib/%.o: $(REPO)/src/%.cc
	@mkdir -p $(dir $@)
	@echo CXX $<
	@$(CXX) $(CXXF) -MMD -MP -c $< -o $@

$(B)/$(F)/mc/%.o: mc/%.cc
	@mkdir -p $(dir $@)
	@echo CXX $<
	@$(CXX) $(CXXF) -fno-access-control -Imc -MMD -MP -c $< -o $@

$(B)/$(F)/drv/%.o: drivers/%.cc
	@mkdir -p $(dir $@)
	@echo CXX $<
	@$(CXX) $(CXXF) -fno-access-control -Imc -I. -MMD -MP -c $< -o $@

$(B)/$(F)/libtmcg.a: $(LIBOBJ)
	@rm -f $@
	@ar rcs $@ $(LIBOBJ)

$(B)/$(F)/%: $(B)/$(F)/drv/%.o $(B)/$(F)/libtmcg.a $(MCOBJ)
	@echo LINK $@
	@$(CXX) $(CXXF) -o $@ $< $(MCOBJ) $(B)/$(F)/libtmcg.a $(LIBS)

clean:
	rm -rf $(B)

-include $(wildcard $(B)/$(F)/lib/*.d $(B)/$(F)/mc/*.d $(B)/$(F)/drv/*.d)
