#!/usr/bin/env python3
"""Assembles /verif/DESIGN.md from design_parts/*.md (kept in parts so that sections can be regenerated independently)."""
import os, glob
here = os.path.dirname(os.path.abspath(__file__))
order = ['00_header.md', '01_technique.md', '02_machinery.md', '03_regimes.md', '04_asbuilt_a.md', '04_asbuilt_b.md',
         '05_model.md', '06_defects.md', '07_false_alarms.md', '08_rest.md', '10_seeded.md']
out = []
for f in order:
    p = os.path.join(here, f)
    if os.path.exists(p):
        out.append(open(p).read().rstrip() + '\n')
sep = '\n---------------------------------------------------------------------------\n\n'
open(os.path.join(here, '..', 'DESIGN.md'), 'w').write(sep.join(out))
print('DESIGN.md written from', len(out), 'parts')
