// drivers/c01_game.hh — shared by the C01 and C02 drivers: a k-player game in either card encoding,
// set up through the library's own key-generation protocol, plus an independent reference decryption
// that uses the secret keys directly (read through -fno-access-control).
//
//   DlogGame : k BarnettSmartVTMF_dlog / _GroupQR instances over one freshly generated group
//              (player 0 generates, the others import the published group), keys exchanged with
//              PublishKey / UpdateKey / Finalize.  Reference: m' = c_2 / prod_{j in I} c_1^{x_j},
//              type = least t < 2^w with g^t = m' (plain mpz_powm by the harness), else 2^w.
//   QrGame   : k Rabin keys taken from a process-wide pool (generated once), a public key ring.
//              Reference: bit[j][w] = (z_jw is a non-residue mod p_j or mod q_j) by mpz_legendre,
//              type = XOR over the players.
#ifndef C01_GAME_HH
#define C01_GAME_HH
#include "drv.hh"
#include <libTMCG.hh>
#include <gmp.h>
#include <sstream>
#include <vector>
#include <string>
#include <algorithm>

namespace game {

inline uint64_t hash_str(const std::string &s)
{
	uint64_t h = 1469598103934665603ULL;
	for (size_t i = 0; i < s.size(); i++)
		h = (h ^ (unsigned char)s[i]) * 1099511628211ULL;
	return h;
}

// ---------------------------------------------------------------------------- discrete-log encoding
enum GroupKind { SCHNORR_RANDOM_G = 0, SCHNORR_CANONICAL_G = 1, QR_SHORT_EXP = 2, QR_FULL_EXP = 3 };

struct GroupCfg {
	const char *name;
	int kind;
	unsigned long fsize;   // |p|
	unsigned long ssize;   // Schnorr: |q| ; QR group: exponent size E (E < |p| shortened, E = |p| full)
	const char *regime;    // tiny | small-admissible | default
};

struct DlogGame {
	GroupCfg cfg;
	size_t k;
	std::vector<BarnettSmartVTMF_dlog *> v;
	std::vector<mcenv::CoinSource> coins;   // one per player, index k = group generation
	std::vector<std::string> pk;            // published keys (h_i, c, r) in player order
	std::string err;                        // non-empty: set-up failed (what)
	bool harness_err;                       // the failure is the harness' (unsuitable parameters), not the library's

	DlogGame() : k(0), harness_err(false) {}
	~DlogGame() { clear(); }
	void clear()
	{
		mcenv::cur = nullptr;
		for (size_t i = 0; i < v.size(); i++)
			delete v[i];
		v.clear();
	}
	void as(size_t j) { mcenv::cur = &coins[j]; }

	BarnettSmartVTMF_dlog *make_first()
	{
		switch (cfg.kind)
		{
			case SCHNORR_RANDOM_G: return new BarnettSmartVTMF_dlog(cfg.fsize, cfg.ssize, false, true);
			case SCHNORR_CANONICAL_G: return new BarnettSmartVTMF_dlog(cfg.fsize, cfg.ssize, true, true);
			default: return new BarnettSmartVTMF_dlog_GroupQR(cfg.fsize, cfg.ssize);
		}
	}
	BarnettSmartVTMF_dlog *make_other(std::istream &in)
	{
		switch (cfg.kind)
		{
			case SCHNORR_RANDOM_G: return new BarnettSmartVTMF_dlog(in, cfg.fsize, cfg.ssize, false, true);
			case SCHNORR_CANONICAL_G: return new BarnettSmartVTMF_dlog(in, cfg.fsize, cfg.ssize, true, true);
			default: return new BarnettSmartVTMF_dlog_GroupQR(in, cfg.fsize, cfg.ssize);
		}
	}

	// builds group + keys.  seed selects the coin streams.  min_types: the group must have q > min_types
	// (otherwise g^0..g^{2^w-1} are not distinct and "the type" is not defined) — harness precondition.
	bool setup(const GroupCfg &c, size_t players, uint64_t seed, unsigned long min_types)
	{
		clear();
		cfg = c, k = players, err.clear(), harness_err = false;
		coins.clear();
		for (size_t j = 0; j <= k; j++)
			coins.push_back(mcenv::CoinSource(seed, 10 + j));
		try
		{
			// The safe-prime generator searches upwards from a random start and may overshoot the requested
			// size by a bit (likely only for toy sizes).  "Full exponents" means E = |p| exactly (E > |p| is
			// refused by the class), so such a group is discarded and generation repeated with further coins.
			for (unsigned attempt = 0; ; attempt++)
			{
				coins[k] = mcenv::CoinSource(seed, 10 + k + 1000 * attempt);
				mcenv::cur = &coins[k];
				BarnettSmartVTMF_dlog *first = make_first();
				if (cfg.kind == QR_FULL_EXP && mpz_sizeinbase(first->p, 2) != cfg.fsize && attempt < 64)
				{
					delete first;
					continue;
				}
				v.push_back(first);
				break;
			}
			std::stringstream grp;
			v[0]->PublishGroup(grp);
			for (size_t j = 1; j < k; j++)
			{
				std::stringstream g2(grp.str());
				as(j);
				v.push_back(make_other(g2));
			}
			if (mpz_cmp_ui(v[0]->q, min_types) <= 0)
			{
				err = "group order not larger than the number of types", harness_err = true;
				return false;
			}
			if (cfg.kind == QR_FULL_EXP && mpz_sizeinbase(v[0]->p, 2) != cfg.fsize)
			{
				err = "generated safe prime does not have the requested size", harness_err = true;
				return false;
			}
			for (size_t j = 0; j < k; j++)
			{
				if (mpz_cmp(v[j]->p, v[0]->p) || mpz_cmp(v[j]->q, v[0]->q) || mpz_cmp(v[j]->g, v[0]->g))
				{
					err = "imported group differs from the published one (player " + drv::str(j) + ")";
					return false;
				}
				if (!v[j]->CheckGroup())
				{
					err = "CheckGroup() rejects the library's own freshly generated group (player " + drv::str(j) + ")";
					return false;
				}
			}
			pk.assign(k, std::string());
			for (size_t j = 0; j < k; j++)
			{
				as(j);
				v[j]->KeyGenerationProtocol_GenerateKey();
				std::stringstream o;
				v[j]->KeyGenerationProtocol_PublishKey(o);
				pk[j] = o.str();
			}
			for (size_t i = 0; i < k; i++)
			{
				as(i);
				for (size_t j = 0; j < k; j++)
				{
					if (i == j)
						continue;
					std::stringstream in(pk[j]);
					if (!v[i]->KeyGenerationProtocol_UpdateKey(in))
					{
						err = "KeyGenerationProtocol_UpdateKey rejects an honest key (verifier " + drv::str(i) + ", key " + drv::str(j) + ")";
						return false;
					}
				}
				v[i]->KeyGenerationProtocol_Finalize();
			}
			// all players must hold the same common key h = g^{sum x_j}
			mpz_t sx, hh;
			mpz_init(sx), mpz_init(hh);
			for (size_t j = 0; j < k; j++)
				mpz_add(sx, sx, v[j]->x_i);
			mpz_powm(hh, v[0]->g, sx, v[0]->p);
			bool same = true;
			for (size_t j = 0; j < k; j++)
				same = same && !mpz_cmp(v[j]->h, hh);
			mpz_clear(sx), mpz_clear(hh);
			if (!same)
			{
				err = "common key h differs from g^(sum of secret exponents)";
				return false;
			}
		}
		catch (std::exception &e)
		{
			err = std::string("exception during group/key set-up: ") + e.what();
			mcenv::cur = nullptr;
			return false;
		}
		mcenv::cur = nullptr;
		return true;
	}

	// all public keys h_i pairwise distinct?  (In a toy group two players may draw the same secret exponent; the class
	// indexes the other players' keys by fingerprint, so removing the key of one of them would also drop the other's.
	// Membership-change cells are therefore run on key sets with distinct public keys only.)
	bool keys_distinct() const
	{
		for (size_t i = 0; i < k; i++)
			for (size_t j = i + 1; j < k; j++)
				if (!mpz_cmp(v[i]->h_i, v[j]->h_i))
					return false;
		return true;
	}

	// Membership change after key generation: player L leaves — every remaining player calls
	// KeyGenerationProtocol_RemoveKey(L's published key) and KeyGenerationProtocol_Finalize().  With rejoin, L comes back as
	// a fresh instance over the published group with a fresh key, and everybody runs UpdateKey / Finalize again.
	// Afterwards the active players are renumbered 0..k-1 (the instance of a player that left for good is kept behind
	// index k only to be released).  Returns false with err set if a protocol step is refused / throws.
	bool change_membership(size_t L, bool rejoin)
	{
		try
		{
			for (size_t i = 0; i < k; i++)
			{
				if (i == L)
					continue;
				as(i);
				std::stringstream in(pk[L]);
				if (!v[i]->KeyGenerationProtocol_RemoveKey(in))
				{
					err = "KeyGenerationProtocol_RemoveKey refuses the key of the leaving player " + drv::str(L) + " (at player " + drv::str(i) + ")";
					mcenv::cur = nullptr;
					return false;
				}
				v[i]->KeyGenerationProtocol_Finalize();
			}
			if (rejoin)
			{
				std::stringstream grp;
				v[0 == L ? 1 : 0]->PublishGroup(grp);
				as(L);
				delete v[L];
				v[L] = nullptr;
				v[L] = make_other(grp);
				v[L]->KeyGenerationProtocol_GenerateKey();
				std::stringstream o;
				v[L]->KeyGenerationProtocol_PublishKey(o);
				pk[L] = o.str();
				for (size_t j = 0; j < k; j++)
				{
					if (j == L)
						continue;
					std::stringstream in(pk[j]);
					if (!v[L]->KeyGenerationProtocol_UpdateKey(in))
					{
						err = "re-joining player " + drv::str(L) + ": KeyGenerationProtocol_UpdateKey rejects the honest key of player " + drv::str(j);
						mcenv::cur = nullptr;
						return false;
					}
				}
				v[L]->KeyGenerationProtocol_Finalize();
				for (size_t i = 0; i < k; i++)
				{
					if (i == L)
						continue;
					as(i);
					std::stringstream in(pk[L]);
					if (!v[i]->KeyGenerationProtocol_UpdateKey(in))
					{
						err = "player " + drv::str(i) + ": KeyGenerationProtocol_UpdateKey rejects the honest fresh key of the re-joining player " + drv::str(L);
						mcenv::cur = nullptr;
						return false;
					}
					v[i]->KeyGenerationProtocol_Finalize();
				}
			}
			else
			{
				// renumber: move L behind the active players
				BarnettSmartVTMF_dlog *gone = v[L];
				v.erase(v.begin() + L);
				v.push_back(gone);
				mcenv::CoinSource cgone = coins[L];
				coins.erase(coins.begin() + L);
				coins.push_back(cgone);
				pk.erase(pk.begin() + L);
				k = k - 1;
			}
		}
		catch (std::exception &e)
		{
			err = std::string("exception during membership change: ") + e.what();
			mcenv::cur = nullptr;
			return false;
		}
		mcenv::cur = nullptr;
		return true;
	}

	// reference decryption with the shares of the players in `included` (bit j = player j contributes)
	void ref_plain(mpz_ptr m, const VTMF_Card &c, unsigned included) const
	{
		mpz_t d, t;
		mpz_init_set_ui(d, 1), mpz_init(t);
		for (size_t j = 0; j < k; j++)
		{
			if (!((included >> j) & 1))
				continue;
			mpz_powm(t, c.c_1, v[j]->x_i, v[0]->p);
			mpz_mul(d, d, t);
			mpz_mod(d, d, v[0]->p);
		}
		if (!mpz_invert(t, d, v[0]->p))
			mpz_set_ui(t, 0);
		mpz_mul(m, c.c_2, t);
		mpz_mod(m, m, v[0]->p);
		mpz_clear(d), mpz_clear(t);
	}
	// least t < ntypes with g^t = m, else ntypes (the sentinel)
	size_t ref_index(mpz_srcptr m, size_t ntypes) const
	{
		mpz_t e;
		mpz_init_set_ui(e, 1);
		size_t r = ntypes;
		for (size_t t = 0; t < ntypes; t++)
		{
			if (!mpz_cmp(e, m))
			{
				r = t;
				break;
			}
			mpz_mul(e, e, v[0]->g);
			mpz_mod(e, e, v[0]->p);
		}
		mpz_clear(e);
		return r;
	}
	size_t ref_type(const VTMF_Card &c, unsigned included, size_t ntypes) const
	{
		mpz_t m;
		mpz_init(m);
		ref_plain(m, c, included);
		size_t r = ref_index(m, ntypes);
		mpz_clear(m);
		return r;
	}
	unsigned all() const { return (1u << k) - 1; }
	std::string describe() const
	{
		std::ostringstream o;
		o << cfg.name << " |p|=" << mpz_sizeinbase(v[0]->p, 2) << " |q|=" << mpz_sizeinbase(v[0]->q, 2);
		if (mpz_sizeinbase(v[0]->p, 2) <= 64)
			o << " p=" << v[0]->p << " q=" << v[0]->q << " g=" << v[0]->g;
		return o.str();
	}
};

// ---------------------------------------------------------------------------- quadratic-residue encoding
struct KeyPool {
	std::vector<TMCG_SecretKey *> sec;
	std::vector<TMCG_PublicKey *> pub;
	std::vector<unsigned long> bits;
	~KeyPool()
	{
		for (size_t i = 0; i < sec.size(); i++)
			delete sec[i], delete pub[i];
	}
	// generates count keys of the given size (without the expensive validity proof), deterministic in seed
	void add(unsigned long keybits, size_t count, uint64_t seed)
	{
		for (size_t i = 0; i < count; i++)
		{
			mcenv::CoinSource cs(seed, 5000 + 16 * keybits + sec.size());
			mcenv::cur = &cs;
			std::string nm = "P" + drv::str(sec.size());
			TMCG_SecretKey *s = new TMCG_SecretKey(nm, nm + "@verif.invalid", keybits, false);
			mcenv::cur = nullptr;
			sec.push_back(s);
			pub.push_back(new TMCG_PublicKey(*s));
			bits.push_back(keybits);
		}
	}
};

struct QrGame {
	size_t k;
	std::vector<const TMCG_SecretKey *> sec;
	std::vector<const TMCG_PublicKey *> pub;
	TMCG_PublicKeyRing *ring;
	std::vector<mcenv::CoinSource> coins;
	QrGame() : k(0), ring(nullptr) {}
	~QrGame() { delete ring; }
	void as(size_t j) { mcenv::cur = &coins[j]; }
	// players use pool keys first, first+1, ... (mod pool size of that key length is the caller's business)
	void setup(const KeyPool &pool, const std::vector<size_t> &which, uint64_t seed)
	{
		delete ring;
		k = which.size();
		sec.clear(), pub.clear(), coins.clear();
		ring = new TMCG_PublicKeyRing(k);
		for (size_t j = 0; j < k; j++)
		{
			sec.push_back(pool.sec[which[j]]);
			pub.push_back(pool.pub[which[j]]);
			ring->keys[j] = *pool.pub[which[j]];
			coins.push_back(mcenv::CoinSource(seed, 10 + j));
		}
	}
	// reference: is z a quadratic non-residue modulo m_j = p_j q_j (z coprime to m_j assumed)
	bool ref_bit(mpz_srcptr z, size_t j) const
	{
		return !(mpz_legendre(z, sec[j]->p) == 1 && mpz_legendre(z, sec[j]->q) == 1);
	}
	size_t ref_type(const TMCG_Card &c) const
	{
		size_t type = 0;
		for (size_t w = 0; w < c.z[0].size(); w++)
		{
			bool bit = false;
			for (size_t j = 0; j < c.z.size(); j++)
				if (ref_bit(&c.z[j][w], j))
					bit = !bit;
			if (bit)
				type |= ((size_t)1 << w);
		}
		return type;
	}
};

// ---------------------------------------------------------------------------- permutations
inline bool is_bijection(const std::vector<size_t> &v)
{
	std::vector<char> seen(v.size(), 0);
	for (size_t i = 0; i < v.size(); i++)
	{
		if (v[i] >= v.size() || seen[v[i]])
			return false;
		seen[v[i]] = 1;
	}
	return true;
}

inline std::string vec_str(const std::vector<size_t> &v)
{
	std::string s;
	for (size_t i = 0; i < v.size(); i++)
		s += (i ? "," : "") + drv::str(v[i]);
	return s;
}

}
#endif
