// C01 (quadratic-residue encoding, TMCG_Card over Rabin keys) — opening a masked card returns the type it was created with.
//
// Keys: a small pool of Rabin keys is generated once per process (TMCG_SecretKey(name, email, bits, false), coins from
//   VERIF_SEED): 448 bit (quick and thorough), 672 and 704 bit (thorough).  Players of a cell use consecutive pool keys.
// Enumerated completely (nothing is sampled):
//   --family small : k in 1..3, w in 1..3, every type 0..2^w-1 (thorough, 448-bit keys: k in 1..4, chains one step longer)
//   --family wide  : k = 2, w = 10, every type 0..1023 (448-bit keys; thorough also 704 bit)
//   --family session: k in {2,3}, w = 2, chains 0..1 / private 0, every opening in the real two-thread duplex session
//   creation : CreateOpenCard followed by a chain of (CreateCardSecret(index = masking player), MaskCard) steps, chain in
//              k^len, len 0..2 (wide: 0..1); or CreatePrivateCard(index = creator p, p in 0..k-1) followed by a chain of
//              length 0..1 (wide: 0)
//   TimingAttackProtection of the MaskCard steps on / off (only where a public MaskCard step exists)
//   opener   : every player o in turn: TMCG_SelfCardSecret for o, and for every other player j the real interactive proof
//              TMCG_ProveCardSecret (j's secret key) <-> TMCG_VerifyCardSecret (o, j's public key) over an in-memory
//              stream, then TMCG_TypeOfCard.  The interaction is executed single-threaded with the verifier's challenge
//              bits fixed in advance through coin steering and checked afterwards against what the verifier really sent
//              (see run_cell); whenever that run is not a faithful, accepting execution the card is re-run in a real
//              duplex session (wire::run2, two threads: all provers on one side, all openers on the other), which decides.
//              --threads forces the duplex session for every card.
// Oracle: every honest proof verifies and TMCG_TypeOfCard == T.  Independently, the harness decrypts the card with the
//   secret primes (Legendre symbols) and requires the same T (this also pins down a masking error when the proof path and
//   the type computation would agree with each other on a wrong type).
// The zero-knowledge proofs use security level 4 (cut-and-choose rounds); completeness is exact (error < 2^-400: the prover
//   asserts s != 1 for a random 448-bit s), soundness is not needed here.
// One evaluation = one opening (one opener, all contributions).  Non-trivial: the card was masked at least once.
// The "missing contribution" clause of C01 concerns the discrete-log encoding only (see c01_vtmf.cc).
#include "drv.hh"
#include "wire.hh"
#include "c01_game.hh"
using namespace drv;
using namespace game;

static Report *R;
static bool force_threads = false;
static uint64_t printed_viols = 0;
static void viol(const std::string &key, const std::string &what, const std::string &cid)
{
	if (printed_viols++ < 40)
		R->viol(key, what, cid);
	else
		R->violations++;
}

struct Plan {
	bool priv;
	size_t creator;
	std::vector<size_t> chain;
	std::string str() const
	{
		std::string s = priv ? "private(index=" + drv::str(creator) + ")" : "open";
		for (size_t i = 0; i < chain.size(); i++)
			s += ">" + drv::str(chain[i]);
		return s;
	}
};

static void chains(size_t k, size_t maxlen, std::vector<std::vector<size_t> > &out)
{
	out.clear();
	out.push_back(std::vector<size_t>());
	size_t from = 0;
	for (size_t len = 1; len <= maxlen; len++)
	{
		size_t to = out.size();
		for (size_t i = from; i < to; i++)
			for (size_t p = 0; p < k; p++)
			{
				std::vector<size_t> c = out[i];
				c.push_back(p);
				out.push_back(c);
			}
		from = to;
	}
}

static void plans(size_t k, size_t Lopen, size_t Lpriv, bool with_priv, std::vector<Plan> &out)
{
	out.clear();
	std::vector<std::vector<size_t> > ch;
	chains(k, Lopen, ch);
	for (size_t i = 0; i < ch.size(); i++)
	{
		Plan p;
		p.priv = false, p.creator = 0, p.chain = ch[i];
		out.push_back(p);
	}
	if (!with_priv)
		return;
	chains(k, Lpriv, ch);
	for (size_t c = 0; c < k; c++)
		for (size_t i = 0; i < ch.size(); i++)
		{
			Plan p;
			p.priv = true, p.creator = c, p.chain = ch[i];
			out.push_back(p);
		}
}

static void run_cell(const KeyPool &pool, size_t first_key, unsigned long keybits, size_t k, size_t w, size_t Lopen, size_t Lpriv,
	const std::string &cid, uint64_t seed, long only_plan = -1)
{
	QrGame G;
	std::vector<size_t> which;
	for (size_t j = 0; j < k; j++)
		which.push_back(first_key + j);
	G.setup(pool, which, seed ^ hash_str(cid));
	std::vector<SchindelhauerTMCG *> tm;
	for (size_t j = 0; j < k; j++)
		tm.push_back(new SchindelhauerTMCG(4, k, w));
	size_t ntypes = (size_t)1 << w;
	std::vector<Plan> pls;
	plans(k, Lopen, Lpriv, true, pls);
	uint64_t openings = 0;
	uint64_t chal_state = seed ^ hash_str(cid) ^ 0x5bd1e995;   // the verifier's challenge bits of the single-threaded runs
	for (size_t pi = 0; pi < pls.size(); pi++)
	{
		const Plan &pl = pls[pi];
		if (only_plan >= 0 && (size_t)only_plan != pi)
			continue;
		for (int tap = 1; tap >= 0; tap--)
		{
			if (!tap && pl.chain.empty())
				continue;
			bool masked = pl.priv || !pl.chain.empty();
			for (size_t T = 0; T < ntypes; T++)
			{
				std::string ctx = "rabin" + str(keybits) + " k=" + str(k) + " w=" + str(w) + " plan=" + pl.str() + " tap=" + str(tap) + " type=" + str(T);
				TMCG_Card c(k, w);
				try
				{
					if (pl.priv)
					{
						TMCG_CardSecret cs(k, w);
						G.as(pl.creator);
						tm[pl.creator]->TMCG_CreatePrivateCard(c, cs, *G.ring, pl.creator, T);
					}
					else
					{
						size_t p0 = pl.chain.empty() ? 0 : pl.chain[0];
						G.as(p0);
						tm[p0]->TMCG_CreateOpenCard(c, *G.ring, T);
					}
					for (size_t i = 0; i < pl.chain.size(); i++)
					{
						size_t p = pl.chain[i];
						TMCG_CardSecret cs(k, w);
						TMCG_Card cc(k, w);
						G.as(p);
						tm[p]->TMCG_CreateCardSecret(cs, *G.ring, p);
						tm[p]->TMCG_MaskCard(c, cc, cs, *G.ring, tap);
						c = cc;
					}
				}
				catch (std::exception &e)
				{
					mcenv::cur = nullptr;
					R->ok(masked);
					viol("c01/qr/exception/create", ctx + " threw " + e.what(), cid);
					continue;
				}
				mcenv::cur = nullptr;
				size_t ref = G.ref_type(c);
				if (ref != T)
					viol("c01/qr/card_encodes_wrong_type", ctx + ": decryption with the secret primes gives type " + str(ref), cid);
				// Fast path (no threads): the verifier's messages are only its security level and its challenge bits, and
				// these are coin draws the harness owns.  The harness fixes the challenge bits in advance, lets the prover
				// run to completion against them, then lets the verifier run on the prover's transcript with its one-byte
				// coin draws steered to the same bits, and finally checks that what the verifier actually sent is
				// byte-for-byte what the prover was given.  Only then is the run a faithful execution of the interactive
				// protocol; in every other case (mismatch, rejection, exception) the card is re-run in a real two-thread
				// duplex session below, which alone decides.
				bool need_session = force_threads;
				std::vector<size_t> fast_got(k, ntypes + 7);
				for (size_t o = 0; o < k && !need_session; o++)
				{
					try
					{
						TMCG_CardSecret csx(k, w);
						G.as(o);
						tm[o]->TMCG_SelfCardSecret(c, csx, *G.sec[o], o);
						for (size_t j = 0; j < k && !need_session; j++)
						{
							if (j == o)
								continue;
							std::vector<unsigned char> bits;
							std::string feed;
							for (size_t wi = 0; wi < w; wi++)
							{
								feed += str(tm[o]->TMCG_SecurityLevel) + "\n";
								for (unsigned long r = 0; r < tm[o]->TMCG_SecurityLevel; r++)
								{
									unsigned char bit = (unsigned char)(mcenv::splitmix(chal_state) & 1);
									bits.push_back(bit);
									feed += bit ? "1\n" : "0\n";
								}
							}
							std::istringstream pin(feed);
							std::ostringstream pout, vout;
							G.as(j);
							tm[j]->TMCG_ProveCardSecret(c, *G.sec[j], j, pin, pout);
							size_t used = 0;
							G.coins[o].steer = [&](unsigned char *buf, size_t len, int, uint64_t) -> bool {
								if (len != 1 || used >= bits.size())
									return false;
								buf[0] = bits[used++];
								return true;
							};
							G.as(o);
							std::istringstream vin(pout.str());
							bool ok = tm[o]->TMCG_VerifyCardSecret(c, csx, *G.pub[j], j, vin, vout);
							G.coins[o].steer = nullptr;
							if (!ok || used != bits.size() || vout.str() != feed)
								need_session = true;
						}
						if (!need_session)
							fast_got[o] = tm[o]->TMCG_TypeOfCard(csx);
					}
					catch (std::exception &e)
					{
						need_session = true;
					}
					G.coins[o].steer = nullptr;
					mcenv::cur = nullptr;
				}
				if (!need_session)
				{
					for (size_t o = 0; o < k; o++)
					{
						R->ok(masked);
						openings++;
						if (fast_got[o] != T)
							viol("c01/qr/full_opening_wrong_type", ctx + " opener=" + str(o) + " TMCG_TypeOfCard=" + str(fast_got[o]) + " (reference decryption " + str(ref) + ")", cid);
					}
					R->counters["cards_opened_single_threaded"]++;
					continue;
				}
				R->counters["cards_opened_in_threaded_session"]++;
				// One duplex session per card: the "provers" thread plays TMCG_ProveCardSecret of player j for every
				// (opener o, j != o) in a fixed order, the "openers" thread plays TMCG_SelfCardSecret / TMCG_VerifyCardSecret /
				// TMCG_TypeOfCard of every opener o in the same order.  Every player keeps its own coin source.
				std::vector<size_t> got(k, ntypes + 7);
				std::vector<int> state(k, 0);   // 0 not reached, 1 opened, 2 a share was rejected
				std::vector<size_t> rejected(k, 0);
				wire::Outcome out;
				out.a_threw = out.b_threw = out.timeout = false;
				auto openers = [&](std::iostream &s) {
					for (size_t o = 0; o < k; o++)
					{
						TMCG_CardSecret csx(k, w);
						G.as(o);
						tm[o]->TMCG_SelfCardSecret(c, csx, *G.sec[o], o);
						for (size_t j = 0; j < k; j++)
						{
							if (j == o)
								continue;
							if (!tm[o]->TMCG_VerifyCardSecret(c, csx, *G.pub[j], j, s, s))
							{
								state[o] = 2, rejected[o] = j;
								return false;   // the stream is out of step now: end the session
							}
						}
						got[o] = tm[o]->TMCG_TypeOfCard(csx);
						state[o] = 1;
					}
					return true;
				};
				if (k == 1)
				{
					std::stringstream unused;
					try { openers(unused); }
					catch (std::exception &e) { out.b_threw = true, out.b_what = e.what(); }
					mcenv::cur = nullptr;
				}
				else
				{
					wire::Duplex d;
					d.sh.logging = false;
					out = wire::run2(d,
						[&](std::iostream &s) {
							for (size_t o = 0; o < k; o++)
								for (size_t j = 0; j < k; j++)
								{
									if (j == o)
										continue;
									G.as(j);
									tm[j]->TMCG_ProveCardSecret(c, *G.sec[j], j, s, s);
								}
							return true;
						},
						openers, seed);
				}
				for (size_t o = 0; o < k; o++)
				{
					R->ok(masked);
					openings++;
					if (state[o] == 1)
					{
						if (got[o] != T)
							viol("c01/qr/full_opening_wrong_type", ctx + " opener=" + str(o) + " TMCG_TypeOfCard=" + str(got[o]) + " (reference decryption " + str(ref) + ")", cid);
					}
					else if (state[o] == 2)
						viol("c01/qr/honest_share_rejected", ctx + " opener=" + str(o) + ": TMCG_VerifyCardSecret rejects the honest proof of player " + str(rejected[o]), cid);
					else if (out.a_threw || out.b_threw || out.timeout)
					{
						viol("c01/qr/exception/proof", ctx + " opener=" + str(o) + " prover side: " + out.a_what + " opener side: " + out.b_what + (out.timeout ? " (stream timeout)" : ""), cid);
						break;
					}
					else
						break;   // not reached because an earlier opener of this card failed (already reported)
				}
			}
		}
	}
	for (size_t j = 0; j < tm.size(); j++)
		delete tm[j];
	R->counters["openings"] += openings;
	R->sample(cid, str(keybits) + "-bit Rabin keys, " + (only_plan >= 0 ? "plan " + pls[only_plan].str() : str(pls.size()) + " creation plans") + " x " + str(ntypes) + " types x every opener, all proofs interactive (security level 4)");
}

int main(int argc, char **argv)
{
	Args A = parse(argc, argv);
	Report rep(A);
	R = &rep;
	if (!init_libTMCG())
		return 2;
	MuteCerr mute;
	uint64_t seed = mcenv::env_seed();
	std::string family = A.get("family", "small");
	force_threads = A.has("threads");
	bool thorough = (A.tier == "thorough") && !A.has("quickbounds");   // --quickbounds: quick alphabet inside a thorough run (ASan pass)

	KeyPool pool;
	std::vector<unsigned long> sizes;
	sizes.push_back(448);
	if (thorough)
		sizes.push_back(672), sizes.push_back(704);
	for (size_t i = 0; i < sizes.size(); i++)
		pool.add(sizes[i], 4, seed);

	if (family == "small")
	{
		for (size_t si = 0; si < sizes.size(); si++)
			for (size_t k = 1; k <= ((thorough && si == 0) ? 4u : 3u); k++)
				for (size_t w = 1; w <= 3; w++)
				{
					std::string cid = "qr:small:rabin" + str(sizes[si]) + ":k" + str(k) + ":w" + str(w);
					if (!R->mine() || !R->selected(cid))
						continue;
					if (R->out_of_time())
						goto done;
					printf("{\"t\":\"at\",\"case\":\"%s\"}\n", cid.c_str());
					fflush(stdout);
					bool deep = thorough && si == 0;   // 448-bit keys in thorough: k <= 4, chains <= 3 (open) / <= 2 (private)
					run_cell(pool, 4 * si, sizes[si], k, w, deep ? 3 : 2, deep ? 2 : 1, cid, seed);
				}
	}
	else if (family == "session")
	{
		// the same openings through the real two-thread duplex session only (small: thread hand-offs are slow on a busy machine)
		force_threads = true;
		for (size_t k = 2; k <= 3; k++)
		{
			std::string cid = "qr:session:rabin448:k" + str(k) + ":w2";
			if (!R->mine() || !R->selected(cid))
				continue;
			if (R->out_of_time())
				goto done;
			printf("{\"t\":\"at\",\"case\":\"%s\"}\n", cid.c_str());
			fflush(stdout);
			run_cell(pool, 0, 448, k, 2, 1, 0, cid, seed);
		}
	}
	else if (family == "wide")
	{
		// w = TMCG_MAX_TYPEBITS; one cell per (key size, creation plan): plans are open, open>0, open>1, private(0), private(1)
		for (size_t si = 0; si < sizes.size(); si++)
		for (long plan = 0; plan < 5; plan++)
		{
			if (sizes[si] == 672)
				continue;
			std::string cid = "qr:wide:rabin" + str(sizes[si]) + ":k2:w10:plan" + str(plan);
			if (!R->mine() || !R->selected(cid))
				continue;
			if (R->out_of_time())
				goto done;
			printf("{\"t\":\"at\",\"case\":\"%s\"}\n", cid.c_str());
			fflush(stdout);
			run_cell(pool, 4 * si, sizes[si], 2, 10, 1, 0, cid, seed, plan);
		}
	}
	else
	{
		fprintf(stderr, "unknown family %s\n", family.c_str());
		return 2;
	}
done:
	mcenv::cur = nullptr;
	rep.bound = family == "small" ? (thorough ? "448 bit: k<=4, w<=3, chains<=3 (open) / <=2 (private); 672/704 bit: k<=3, chains<=2/1" : "k<=3, w<=3, chains<=2 (open) / <=1 (private)") : family == "session" ? "k in {2,3}, w=2, chains<=1 (open) / 0 (private), threaded duplex session" : "k=2, w=10, chains<=1 (open) / 0 (private)";
	rep.finish();
	return 0;
}
