// C01 (discrete-log encoding) — opening a masked card returns the type it was created with; an opening with a
// missing contribution returns exactly what the algebra says (the "invalid type" sentinel 2^w unless the wrongly
// decrypted element happens to be one of g^0..g^{2^w-1}, which the harness computes itself from the secret exponents).
//
// Enumerated (everything listed is enumerated completely, nothing is sampled):
//   group     : Schnorr group with random generator, Schnorr group with canonical generator, QR group with shortened
//               exponents (E < |p|), QR group with full exponents (E = |p|); a fresh group and fresh keys per cell
//               (coins from VERIF_SEED and the cell id)
//   regime    : --family tiny    |p| 16..20 bit, w in 1..4, k in 1..4 (thorough: k = 5 too)
//               --family wide    |p| 16..32 bit, w in {7,10} (all 2^w types), k in {1,2,3} (quick: k = 3 only with w = 7)
//               --family adm     |p| 160..320 bit (|q| >= 128 or safe prime), w in {1,3}, k in {2,3}
//               --family member  membership change: k0 in {3} (thorough {3,4}) players generate keys, then every choice of
//                                leaving player (RemoveKey + Finalize at the remaining players) and the variant where it
//                                re-joins as a fresh instance with a fresh key (UpdateKey + Finalize again); the four toy
//                                and the four small-admissible groups; w in {1,2}, all types, chains <= 2 among the
//                                active players, every opener, every subset of contributions (keys c01/dlog/after-leave/...,
//                                c01/dlog/after-rejoin/...); key sets with two equal public keys (toy groups) are re-drawn
//               --family default thorough only: 2048/256 canonical Schnorr group, 1024 bit QR group, k=2, w in {2,4} / 10
//   players k, type bits w, every type 0..2^w-1
//   creation  : CreateOpenCard (by the first masking player) followed by a chain of MaskCard steps, chain in k^len,
//               len 0..L; or CreatePrivateCard by creator p in 0..k-1 followed by a chain of length 0..L-1
//               (L = 2 quick / 3 thorough for tiny with k <= 4; L = 2 for k = 5; L = 1 wide/default; L = 2 adm)
//   TimingAttackProtection of every MaskCard step on / off (only where a MaskCard step exists)
//   order of first use of the lazily filled message_space table (fresh SchindelhauerTMCG instances per
//               creation plan): ascending create+open, descending create+open, create all (outside-in) then open all
//   opener    : every player o in turn; every subset S of the other players' contributions (S = all: full opening;
//               otherwise: missing-share direction), each contribution going through the real proof path
//               TMCG_ProveCardSecret -> TMCG_VerifyCardSecret after TMCG_SelfCardSecret.
// Oracle: full opening -> TMCG_TypeOfCard == T exactly.  Missing shares -> TMCG_TypeOfCard == least t with
//   g^t = c_2 / prod_{j in S+{o}} c_1^{x_j} (mod p), else 2^w; computed with plain mpz_powm from the secret exponents
//   x_j read from the instances.  Honest proofs must verify (algebraic identity, exact in every group).
// One evaluation = one TMCG_TypeOfCard call compared with the oracle.  Non-trivial: the card was masked at least once
//   (c_1 != 1); evaluations on a never-masked open card are counted as trivial.
#include "drv.hh"
#include "c01_game.hh"
using namespace drv;
using namespace game;

static Report *R;
static uint64_t printed_viols = 0;
static void viol(const std::string &key, const std::string &what, const std::string &cid)
{
	if (printed_viols++ < 40)
		R->viol(key, what, cid);
	else
		R->violations++;
}

struct Plan {
	bool priv;                  // CreatePrivateCard (true) or CreateOpenCard (false)
	size_t creator;             // private: the creating player
	std::vector<size_t> chain;  // players that re-mask, in order
	std::string str() const
	{
		std::string s = priv ? "private(" + drv::str(creator) + ")" : "open";
		for (size_t i = 0; i < chain.size(); i++)
			s += ">" + drv::str(chain[i]);
		return s;
	}
};

static void chains(size_t k, size_t maxlen, std::vector<std::vector<size_t> > &out)
{
	out.clear();
	out.push_back(std::vector<size_t>());
	size_t from = 0;
	for (size_t len = 1; len <= maxlen; len++)
	{
		size_t to = out.size();
		for (size_t i = from; i < to; i++)
			for (size_t p = 0; p < k; p++)
			{
				std::vector<size_t> c = out[i];
				c.push_back(p);
				out.push_back(c);
			}
		from = to;
	}
}

static void plans(size_t k, size_t L, std::vector<Plan> &out)
{
	out.clear();
	std::vector<std::vector<size_t> > ch;
	chains(k, L, ch);
	for (size_t i = 0; i < ch.size(); i++)
	{
		Plan p;
		p.priv = false, p.creator = 0, p.chain = ch[i];
		out.push_back(p);
	}
	if (L == 0)
		return;
	chains(k, L - 1, ch);
	for (size_t c = 0; c < k; c++)
		for (size_t i = 0; i < ch.size(); i++)
		{
			Plan p;
			p.priv = true, p.creator = c, p.chain = ch[i];
			out.push_back(p);
		}
}

struct Cell {
	DlogGame G;
	size_t k, w, ntypes;
	std::string cid, keyp;
	std::vector<SchindelhauerTMCG *> tm;
	uint64_t sentinel, coincidence;
	void fresh_tmcg()
	{
		for (size_t j = 0; j < tm.size(); j++)
			delete tm[j];
		tm.clear();
		for (size_t j = 0; j < k; j++)
			tm.push_back(new SchindelhauerTMCG(16, k, w));
	}
	~Cell()
	{
		for (size_t j = 0; j < tm.size(); j++)
			delete tm[j];
	}

	// builds the card of type T according to the plan; returns false (after reporting) on an exception
	bool create(VTMF_Card &c, size_t T, const Plan &pl, bool tap, const std::string &ctx)
	{
		try
		{
			if (pl.priv)
			{
				VTMF_CardSecret cs;
				G.as(pl.creator);
				tm[pl.creator]->TMCG_CreatePrivateCard(c, cs, G.v[pl.creator], T);
			}
			else
			{
				size_t p0 = pl.chain.empty() ? 0 : pl.chain[0];
				G.as(p0);
				tm[p0]->TMCG_CreateOpenCard(c, G.v[p0], T);
			}
			for (size_t i = 0; i < pl.chain.size(); i++)
			{
				size_t p = pl.chain[i];
				VTMF_CardSecret cs;
				VTMF_Card cc;
				G.as(p);
				tm[p]->TMCG_CreateCardSecret(cs, G.v[p]);
				tm[p]->TMCG_MaskCard(c, cc, cs, G.v[p], tap);
				c = cc;
			}
		}
		catch (std::exception &e)
		{
			viol(keyp + "/exception/create", ctx + " threw " + e.what(), cid);
			mcenv::cur = nullptr;
			return false;
		}
		mcenv::cur = nullptr;
		return true;
	}

	// every opener x every subset of the other players' contributions
	void open(const VTMF_Card &c, size_t T, bool masked, const std::string &ctx)
	{
		std::vector<std::string> proof(k);
		try
		{
			for (size_t j = 0; j < k; j++)
			{
				std::stringstream dummy_in, out;
				G.as(j);
				tm[j]->TMCG_ProveCardSecret(c, G.v[j], dummy_in, out);
				proof[j] = out.str();
			}
		}
		catch (std::exception &e)
		{
			viol(keyp + "/exception/prove", ctx + " threw " + e.what(), cid);
			mcenv::cur = nullptr;
			return;
		}
		for (size_t o = 0; o < k; o++)
		{
			for (unsigned S = 0; S < (1u << k); S++)
			{
				if (!((S >> o) & 1))
					continue;   // the opener's own share is always present (SelfCardSecret)
				size_t got = ntypes + 7;
				bool shares_ok = true;
				try
				{
					G.as(o);
					tm[o]->TMCG_SelfCardSecret(c, G.v[o]);
					for (size_t j = 0; j < k && shares_ok; j++)
					{
						if (j == o || !((S >> j) & 1))
							continue;
						std::stringstream in(proof[j]), out;
						if (!tm[o]->TMCG_VerifyCardSecret(c, G.v[o], in, out))
						{
							shares_ok = false;
							viol(keyp + "/honest_share_rejected", ctx + " opener=" + str(o) + " share of player " + str(j) +
								" (honest TMCG_ProveCardSecret output) rejected by TMCG_VerifyCardSecret", cid);
						}
					}
					if (shares_ok)
						got = tm[o]->TMCG_TypeOfCard(c, G.v[o]);
				}
				catch (std::exception &e)
				{
					viol(keyp + "/exception/open", ctx + " opener=" + str(o) + " threw " + e.what(), cid);
					shares_ok = false;
				}
				mcenv::cur = nullptr;
				if (!shares_ok)
				{
					R->ok(masked);
					continue;
				}
				bool full = (S == G.all());
				size_t want = full ? T : G.ref_type(c, S, ntypes);
				R->ok(masked);
				if (full)
				{
					R->counters["full_openings"]++;
					if (got != T)
						viol(keyp + "/full_opening_wrong_type", ctx + " opener=" + str(o) + " TMCG_TypeOfCard=" + str(got) +
							" created with type " + str(T) + " (reference decryption gives " + str(G.ref_type(c, S, ntypes)) + ")", cid);
				}
				else
				{
					R->counters["partial_openings"]++;
					if (!masked)
						R->counters["partial_openings_of_unmasked_card"]++;   // c_1 = 1: every subset decrypts correctly
					else if (want == ntypes)
						sentinel++;
					else
						coincidence++;
					if (got != want)
						viol(want == ntypes ? keyp + "/missing_share_not_sentinel" : keyp + "/missing_share_wrong_type",
							ctx + " opener=" + str(o) + " contributions=" + str(S) + "(bitmask) TMCG_TypeOfCard=" + str(got) +
							" exact expectation " + str(want) + " (sentinel=" + str(ntypes) + ", created type " + str(T) + ")", cid);
				}
			}
		}
	}

	// leaver >= 0: membership change after key generation (k_ players generate keys, player `leaver` leaves, with
	// rejoin it comes back with a fresh key); the cards are then created / masked / opened by the active players only.
	void run(const GroupCfg &cfg, size_t k_, size_t w_, int order, size_t L, uint64_t seed, int leaver = -1, bool rejoin = false)
	{
		k = k_, w = w_, ntypes = (size_t)1 << w, sentinel = coincidence = 0;
		keyp = leaver < 0 ? "c01/vtmf" : (rejoin ? "c01/dlog/after-rejoin" : "c01/dlog/after-leave");
		bool ready = false;
		for (unsigned attempt = 0; attempt < 64 && !ready; attempt++)
		{
			if (!G.setup(cfg, k, (seed ^ hash_str(cid)) + 0x9e3779b97f4a7c15ULL * attempt, ntypes))
			{
				if (G.harness_err)
				{
					printf("{\"t\":\"error\",\"what\":\"%s: %s\"}\n", jesc(cid).c_str(), jesc(G.err).c_str());
					return;
				}
				R->ok(false);
				viol("c01/vtmf/setup", G.err, cid);
				return;
			}
			// membership cells need pairwise distinct public keys (toy groups: equal secret exponents happen), see c01_game.hh
			ready = leaver < 0 || G.keys_distinct();
		}
		if (!ready)
		{
			printf("{\"t\":\"error\",\"what\":\"%s: no key set with distinct public keys in 64 attempts\"}\n", jesc(cid).c_str());
			return;
		}
		if (leaver >= 0)
		{
			if (!G.change_membership((size_t)leaver, rejoin))
			{
				R->ok(false);
				viol(keyp + "/membership_step_refused", G.err, cid);
				return;
			}
			k = G.k;
		}
		std::vector<Plan> pls;
		plans(k, L, pls);
		for (size_t pi = 0; pi < pls.size(); pi++)
		{
			const Plan &pl = pls[pi];
			for (int tap = 1; tap >= 0; tap--)
			{
				if (!tap && pl.chain.empty())
					continue;   // no MaskCard step: the flag is not an input
				fresh_tmcg();
				bool masked = pl.priv || !pl.chain.empty();
				std::string pctx = G.cfg.name + std::string(" k=") + str(k) + " w=" + str(w) + " plan=" + pl.str() + " tap=" + str(tap) + " order=" + str(order);
				if (order == 0 || order == 1)
				{
					for (size_t i = 0; i < ntypes; i++)
					{
						size_t T = order == 0 ? i : ntypes - 1 - i;
						VTMF_Card c;
						std::string ctx = pctx + " type=" + str(T);
						if (create(c, T, pl, tap, ctx))
							open(c, T, masked, ctx);
					}
				}
				else
				{
					// create all cards first (types outside-in: 0, N-1, 1, N-2, ...), then open them in reverse order
					std::vector<size_t> ts;
					for (size_t lo = 0, hi = ntypes - 1; lo <= hi && hi < ntypes; lo++, hi--)
					{
						ts.push_back(lo);
						if (hi != lo)
							ts.push_back(hi);
					}
					std::vector<VTMF_Card> cards(ts.size());
					std::vector<char> okc(ts.size(), 0);
					for (size_t i = 0; i < ts.size(); i++)
						okc[i] = create(cards[i], ts[i], pl, tap, pctx + " type=" + str(ts[i]));
					for (size_t i = ts.size(); i-- > 0;)
						if (okc[i])
							open(cards[i], ts[i], masked, pctx + " type=" + str(ts[i]));
				}
			}
		}
		R->counters["missing_share_sentinel"] += sentinel;
		R->counters["missing_share_coincidence"] += coincidence;
		R->sample(cid, G.describe() + "; " + str(pls.size()) + " creation plans x " + str(ntypes) + " types x every opener x every subset of contributions; missing-share outcomes: sentinel " +
			str(sentinel) + ", coincidental hit " + str(coincidence));
	}
};

int main(int argc, char **argv)
{
	Args A = parse(argc, argv);
	Report rep(A);
	R = &rep;
	if (!init_libTMCG())
		return 2;
	MuteCerr mute;
	uint64_t seed = mcenv::env_seed();
	std::string family = A.get("family", "tiny");
	bool thorough = (A.tier == "thorough") && !A.has("quickbounds");   // --quickbounds: quick alphabet inside a thorough run (ASan pass)

	static const GroupCfg TINY[] = {
		{"schnorr-rand-16/6", SCHNORR_RANDOM_G, 16, 6, "tiny"},
		{"schnorr-canon-20/8", SCHNORR_CANONICAL_G, 20, 8, "tiny"},
		{"qr-short-16/8", QR_SHORT_EXP, 16, 8, "tiny"},
		{"qr-full-16/16", QR_FULL_EXP, 16, 16, "tiny"},
	};
	static const GroupCfg WIDE[] = {
		{"schnorr-rand-24/12", SCHNORR_RANDOM_G, 24, 12, "tiny"},
		{"schnorr-canon-32/12", SCHNORR_CANONICAL_G, 32, 12, "tiny"},
		{"qr-short-16/11", QR_SHORT_EXP, 16, 11, "tiny"},
		{"qr-full-18/18", QR_FULL_EXP, 18, 18, "tiny"},
	};
	static const GroupCfg ADM[] = {
		{"schnorr-rand-256/128", SCHNORR_RANDOM_G, 256, 128, "small-admissible"},
		{"schnorr-canon-320/192", SCHNORR_CANONICAL_G, 320, 192, "small-admissible"},
		{"qr-short-192/96", QR_SHORT_EXP, 192, 96, "small-admissible"},
		{"qr-full-160/160", QR_FULL_EXP, 160, 160, "small-admissible"},
	};
	static const GroupCfg DEF[] = {
		{"schnorr-canon-2048/256", SCHNORR_CANONICAL_G, 2048, 256, "default"},
		{"schnorr-rand-1024/160", SCHNORR_RANDOM_G, 1024, 160, "default"},
		{"qr-short-1024/160", QR_SHORT_EXP, 1024, 160, "default"},
	};

	const GroupCfg *cfgs = TINY;
	size_t ncfg = 4;
	std::vector<size_t> ks, ws;
	if (family == "tiny")
	{
		for (size_t k = 1; k <= (thorough ? 5u : 4u); k++) ks.push_back(k);
		for (size_t w = 1; w <= 4; w++) ws.push_back(w);
	}
	else if (family == "wide")
	{
		cfgs = WIDE;
		ks = {1, 2, 3};
		ws = {7, 10};
	}
	else if (family == "adm")
	{
		cfgs = ADM;
		ks = {2, 3};
		ws = {1, 3};
	}
	else if (family == "default")
	{
		cfgs = DEF, ncfg = 3;
		ks = {2};
		ws = {2, 4, 10};
	}
	else if (family == "member")
	{
		// membership change: k0 players generate keys, then one leaves (or leaves and re-joins with a fresh key)
		for (int regime = 0; regime < 2; regime++)
			for (size_t ci = 0; ci < 4; ci++)
				for (size_t k0 = 3; k0 <= (thorough ? 4u : 3u); k0++)
					for (size_t leaver = 0; leaver < k0; leaver++)
						for (int rejoin = 0; rejoin <= 1; rejoin++)
							for (size_t w = 1; w <= 2; w++)
							{
								const GroupCfg &cfg = regime ? ADM[ci] : TINY[ci];
								std::string cid = std::string("vtmf:member:") + cfg.name + ":k" + str(k0) + ":leaver" + str(leaver) + (rejoin ? ":rejoin" : ":leave") + ":w" + str(w);
								if (!R->mine() || !R->selected(cid))
									continue;
								if (R->out_of_time())
									goto done;
								printf("{\"t\":\"at\",\"case\":\"%s\"}\n", cid.c_str());
								fflush(stdout);
								Cell cell;
								cell.cid = cid;
								cell.run(cfg, k0, w, 0, 2, seed, (int)leaver, rejoin);
								R->counters[rejoin ? "membership_cells_rejoin" : "membership_cells_leave"]++;
							}
		goto done;
	}
	else
	{
		fprintf(stderr, "unknown family %s\n", family.c_str());
		return 2;
	}
	for (size_t ci = 0; ci < ncfg; ci++)
		for (size_t ki = 0; ki < ks.size(); ki++)
			for (size_t wi = 0; wi < ws.size(); wi++)
				for (int order = 0; order < 3; order++)
				{
					size_t k = ks[ki], w = ws[wi];
					if (family == "default" && ((w == 10) != (ci == 1)))
						continue;   // w=10 only on the 1024/160 group; w in {2,4} on the other two
					if (family == "wide" && !thorough && k == 3 && w == 10)
						continue;   // quick tier: k = 3 only with w = 7
					std::string cid = "vtmf:" + family + ":" + cfgs[ci].name + ":k" + str(k) + ":w" + str(w) + ":o" + str(order);
					if (!R->mine() || !R->selected(cid))
						continue;
					if (R->out_of_time())
						goto done;
					size_t L = 2;
					if (family == "tiny")
						L = (thorough && k <= 4) ? 3 : 2;
					else if (family == "wide" || family == "default")
						L = 1;
					printf("{\"t\":\"at\",\"case\":\"%s\"}\n", cid.c_str());
					fflush(stdout);
					Cell cell;
					cell.cid = cid;
					cell.run(cfgs[ci], k, w, order, L, seed);
				}
done:
	mcenv::cur = nullptr;
	rep.bound = family + ": " + (family == "tiny" ? std::string("k<=") + (thorough ? "5" : "4") + ", w<=4, chains<=" + (thorough ? "3 (2 for k=5)" : "2") :
		family == "wide" ? (thorough ? "k<=3, w in {7,10}, chains<=1" : "k<=3 (k=3 only w=7), w in {7,10}, chains<=1") : family == "adm" ? "k in {2,3}, w in {1,3}, chains<=2" : family == "member" ? std::string("k0 in {3") + (thorough ? ",4" : "") + "}, every leaving player, leave / leave+rejoin, w<=2, chains<=2, toy + small-admissible groups" : "k=2, w in {2,4,10}, chains<=1");
	rep.finish();
	return 0;
}
