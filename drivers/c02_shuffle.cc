// C02 — a shuffle is exactly a permutation plus re-masking; generated stack secrets contain bijections (cyclic shifts by
// the reported offset for rotations); the importer refuses index vectors that are not bijections.
//
// Families (--family), everything listed is enumerated completely unless marked "sampled"; bounds quick / thorough:
//  mixv   discrete-log encoding.  Fresh toy group + keys per cell (4 group kinds: Schnorr random g 20/8, Schnorr canonical g
//         24/10, QR group shortened exponents 16/8, QR group full exponents 16/16; k in {2,3}) and one small-admissible group
//         (256/128, k = 2, n <= 5 / 6).  TMCG_MixStack with EVERY permutation pi in S_n, n in 1..6 / 1..7 (n = 8 on the Schnorr
//         toy group in thorough), secrets from the pi-taking TMCG_CreateStackSecret, shuffling player = permutation counter mod k,
//         TimingAttackProtection on and off for n <= 4 (on beyond); type patterns: all distinct, all equal, one pair equal
//         (the latter two on a stack that is already masked).  Every rotation of every n in 2..16 / 2..40.
//         Chains: all (pi1,pi2,pi3) in S_n^3 for n <= 3, all (pi1,pi2) in S_4^2, by players 0,1,2 (mod k).
//  mixq   quadratic-residue encoding (448-bit Rabin keys from a pool; thorough adds 672 bit with k = 2, n <= 4): every pi in S_n,
//         n in 1..5 / 1..6, k in {2,3}, patterns as above, TimingAttackProtection on/off, masking index = shuffling player;
//         chains (pi1,pi2) in S_n^2 for n <= 3; every rotation for n in 2..8.
//  big    n in {52, 512} with three permutations (identity, reversal, the derangement i -> 7i+3 mod n), both encodings
//         (discrete-log: toy Schnorr group and a 256/128 bit group; thorough adds 2048/256), every output card opened.
//  gen    the random generators under coin steering: all n! answer sequences of the draws of random_permutation_fast for
//         n in 1..7 / 1..8 and all n answers of random_rotation for n in 2..16 / 2..64 and 512, through
//         TMCG_CreateStackSecret(ss, cyclic, ...) of both encodings (QR encoding: n <= 5, rotations <= 8).
//         SAMPLED in addition (default coins, 20 calls each): n in {8, 13, 52, 100, 511, 512}.
//  import all (n+1)^n index vectors over {0..n} for n in 1..4, all n^n vectors over {0..n-1} for n in 5..6 / 5..7 (TMCG_CardSecret
//         payload: (n+1)^n for n <= 3, n^n for n = 4 / 4..5), every single-entry overwrite (a <- b, a != b) of {identity,
//         reversal, rotation by 1, i -> 7i+3} for n in {7, 8, 16, 52} (and for n = 512 with a in {0, 255, 511}), serialised as
//         stack-secret text with real exported card secrets of both kinds, through import() (and operator>> for n <= 3);
//         wrong counts: declared size in {0, m-1, m, m+1, TMCG_MAX_CARDS+1} for m in {1,2,3,5,512,513} pairs.
//  glue   TMCG_GlueStackSecret (private, reached through -fno-access-control): all (sigma, pi) in S_n^2, n in 1..4 / 1..5,
//         both encodings; also the private TMCG_MixOpenStack for all pi, n <= 4, both encodings.
//
// Oracles.  Types are obtained by opening EVERY output card: discrete-log encoding through the real path
//   (SelfCardSecret, ProveCardSecret -> VerifyCardSecret of every other player, TypeOfCard) with the opener rotating over
//   the players, and cross-checked against the reference decryption from the secret exponents; QR encoding through
//   TMCG_SelfCardSecret with every player's secret key + TMCG_TypeOfCard, cross-checked against Legendre symbols.
//   mix:    size preserved; ss[i].first == pi[i]; type(out[i]) == type(in[pi[i]]) for every i.
//   gen:    index vector is a bijection on 0..n-1; for a rotation ss[i].first == (ss[0].first + i) mod n, the returned
//           offset r < n, and the input card j ends at output position (j + r) mod n (ss[(j+r) mod n].first == j).
//   import: for well-formed text, accepted <=> the vector is a bijection on 0..n-1; whenever accepted the object holds
//           exactly the declared number (<= TMCG_MAX_CARDS) of pairs with the given indices (a bijection).
//   glue:   glued index i == sigma(pi(i)); mixing with the glued secret gives card-for-card the stack obtained by mixing
//           with sigma and then with pi (this is what the cut-and-choose verifier recomputes), and its types are right.
// One evaluation = one mixed stack completely opened / one generator call / one import / one glue.  Non-trivial: n >= 2.
#include "drv.hh"
#include "c01_game.hh"
#include <numeric>
using namespace drv;
using namespace game;

static Report *R;
static uint64_t printed_viols = 0;
static bool thorough = false;
static uint64_t seed = 1;
static void viol(const std::string &key, const std::string &what, const std::string &cid)
{
	if (printed_viols++ < 40)
		R->viol(key, what, cid);
	else
		R->violations++;
}
static bool begin_cell(const std::string &cid)
{
	if (!R->mine() || !R->selected(cid))
		return false;
	if (R->out_of_time())
		return false;
	printf("{\"t\":\"at\",\"case\":\"%s\"}\n", cid.c_str());
	fflush(stdout);
	return true;
}

static std::vector<size_t> identity(size_t n)
{
	std::vector<size_t> v(n);
	for (size_t i = 0; i < n; i++) v[i] = i;
	return v;
}
static std::vector<size_t> rotation(size_t n, size_t r)
{
	std::vector<size_t> v(n);
	for (size_t i = 0; i < n; i++) v[i] = (i + r) % n;
	return v;
}
static std::vector<size_t> reversal(size_t n)
{
	std::vector<size_t> v(n);
	for (size_t i = 0; i < n; i++) v[i] = n - 1 - i;
	return v;
}
static std::vector<size_t> affine73(size_t n)   // a bijection whenever gcd(7, n) = 1
{
	std::vector<size_t> v(n);
	for (size_t i = 0; i < n; i++) v[i] = (7 * i + 3) % n;
	return v;
}
static size_t bits_for(size_t ntypes)
{
	size_t w = 1;
	while (((size_t)1 << w) < ntypes) w++;
	return w;
}
// pattern 0: all distinct, 1: all equal, 2: one pair equal (last = first)
static std::vector<size_t> pattern_types(size_t n, int pat)
{
	std::vector<size_t> t(n);
	for (size_t i = 0; i < n; i++)
		t[i] = pat == 0 ? i : (pat == 1 ? 1 : (i == n - 1 ? 0 : i));
	return t;
}

// ================================================================================================ discrete-log side
struct VGame {
	DlogGame G;
	std::vector<SchindelhauerTMCG *> tm;
	size_t k, w, ntypes;
	std::string cid;
	uint64_t opened;
	VGame() : k(0), w(0), ntypes(0), opened(0) {}
	~VGame() { for (size_t j = 0; j < tm.size(); j++) delete tm[j]; }
	bool setup(const GroupCfg &cfg, size_t k_, size_t w_, const std::string &cid_)
	{
		k = k_, w = w_, ntypes = (size_t)1 << w, cid = cid_;
		if (!G.setup(cfg, k, seed ^ hash_str(cid), ntypes))
		{
			if (G.harness_err)
				printf("{\"t\":\"error\",\"what\":\"%s: %s\"}\n", jesc(cid).c_str(), jesc(G.err).c_str());
			else
			{
				R->ok(false);
				viol("c02/vtmf/setup", G.err, cid);
			}
			return false;
		}
		for (size_t j = 0; j < k; j++)
			tm.push_back(new SchindelhauerTMCG(16, k, w));
		return true;
	}
	// input stack through TMCG_OpenStack -> TMCG_Stack::push(open stack); premask: cards are private cards of player k-1
	void make_stack(TMCG_Stack<VTMF_Card> &s, const std::vector<size_t> &types, bool premask)
	{
		TMCG_OpenStack<VTMF_Card> os;
		for (size_t i = 0; i < types.size(); i++)
		{
			VTMF_Card c;
			if (premask)
			{
				VTMF_CardSecret cs;
				G.as(k - 1);
				tm[k - 1]->TMCG_CreatePrivateCard(c, cs, G.v[k - 1], types[i]);
			}
			else
			{
				G.as(0);
				tm[0]->TMCG_CreateOpenCard(c, G.v[0], types[i]);
			}
			os.push(types[i], c);
		}
		mcenv::cur = nullptr;
		s.clear();
		s.push(os);
	}
	// opens one card through the real proof path with player o as opener; returns the library's answer
	// (ntypes+1 if a share was rejected / an exception occurred; reported)
	size_t open(const VTMF_Card &c, size_t o, const std::string &ctx)
	{
		size_t got = ntypes + 1;
		try
		{
			G.as(o);
			tm[o]->TMCG_SelfCardSecret(c, G.v[o]);
			for (size_t j = 0; j < k; j++)
			{
				if (j == o)
					continue;
				std::stringstream dummy, proof, out;
				G.as(j);
				tm[j]->TMCG_ProveCardSecret(c, G.v[j], dummy, proof);
				G.as(o);
				if (!tm[o]->TMCG_VerifyCardSecret(c, G.v[o], proof, out))
				{
					viol("c02/vtmf/honest_share_rejected", ctx + " opener=" + str(o) + " prover=" + str(j), cid);
					mcenv::cur = nullptr;
					return got;
				}
			}
			got = tm[o]->TMCG_TypeOfCard(c, G.v[o]);
		}
		catch (std::exception &e)
		{
			viol("c02/vtmf/exception/open", ctx + " threw " + e.what(), cid);
		}
		mcenv::cur = nullptr;
		opened++;
		size_t ref = G.ref_type(c, G.all(), ntypes);
		if (got != ref)
			viol("c02/vtmf/open_disagrees_with_reference", ctx + " TMCG_TypeOfCard=" + str(got) + " reference decryption=" + str(ref), cid);
		return got;
	}
	// mixes s with pi by player p; verifies size, recorded indices and all opened types.  returns false on a violation
	bool mix_and_check(const TMCG_Stack<VTMF_Card> &s, const std::vector<size_t> &types, const std::vector<size_t> &pi, size_t p, bool tap,
		TMCG_Stack<VTMF_Card> &s2, TMCG_StackSecret<VTMF_CardSecret> &ss, const std::string &ctx, const char *keyprefix = "c02/vtmf/mix")
	{
		size_t n = s.size();
		try
		{
			G.as(p);
			ss.clear();
			tm[p]->TMCG_CreateStackSecret(ss, pi, n, G.v[p]);
			tm[p]->TMCG_MixStack(s, s2, ss, G.v[p], tap);
		}
		catch (std::exception &e)
		{
			mcenv::cur = nullptr;
			viol(std::string(keyprefix) + "/exception", ctx + " threw " + e.what(), cid);
			return false;
		}
		mcenv::cur = nullptr;
		return check_mixed(s, types, pi, s2, ss, ctx, keyprefix);
	}
	bool check_mixed(const TMCG_Stack<VTMF_Card> &s, const std::vector<size_t> &types, const std::vector<size_t> &pi,
		const TMCG_Stack<VTMF_Card> &s2, const TMCG_StackSecret<VTMF_CardSecret> &ss, const std::string &ctx, const char *keyprefix)
	{
		size_t n = s.size();
		bool good = true;
		if (s2.size() != n || ss.size() != n)
		{
			viol(std::string(keyprefix) + "/size", ctx + " input size " + str(n) + " output size " + str(s2.size()) + " secret size " + str(ss.size()), cid);
			return false;
		}
		for (size_t i = 0; i < n; i++)
			if (ss[i].first != pi[i])
			{
				viol(std::string(keyprefix) + "/secret_index", ctx + " secret index " + str(i) + " is " + str(ss[i].first) + ", requested " + str(pi[i]), cid);
				good = false;
			}
		std::vector<size_t> got(n);
		for (size_t i = 0; i < n; i++)
		{
			got[i] = open(s2[i], i % k, ctx + " position=" + str(i));
			if (got[i] != types[pi[i]])
				good = false;
		}
		if (!good)
		{
			std::vector<size_t> want(n);
			for (size_t i = 0; i < n; i++) want[i] = types[pi[i]];
			viol(std::string(keyprefix) + "/wrong_types", ctx + " input types [" + vec_str(types) + "] pi=[" + vec_str(pi) + "] opened [" + vec_str(got) +
				"] expected [" + vec_str(want) + "]", cid);
		}
		return good;
	}
};

static const GroupCfg VT_TINY[] = {
	{"schnorr-rand-20/8", SCHNORR_RANDOM_G, 20, 8, "tiny"},
	{"schnorr-canon-24/10", SCHNORR_CANONICAL_G, 24, 10, "tiny"},
	{"qr-short-16/8", QR_SHORT_EXP, 16, 8, "tiny"},
	{"qr-full-16/16", QR_FULL_EXP, 16, 16, "tiny"},
};
static const GroupCfg VT_ADM = {"schnorr-canon-256/128", SCHNORR_CANONICAL_G, 256, 128, "small-admissible"};
static const GroupCfg VT_DEF = {"schnorr-canon-2048/256", SCHNORR_CANONICAL_G, 2048, 256, "default"};

static void fam_mixv()
{
	size_t nmax = thorough ? 7 : 6;
	// (a) every permutation
	for (size_t ci = 0; ci < 5; ci++)
		for (size_t k = 2; k <= 3; k++)
			for (size_t n = 1; n <= (ci == 0 && thorough ? 8u : nmax); n++)
				for (int pat = 0; pat < 3; pat++)
				{
					const GroupCfg &cfg = ci < 4 ? VT_TINY[ci] : VT_ADM;
					if (ci == 4 && (k == 3 || n > (thorough ? 6u : 5u)))
						continue;
					if ((pat == 2 && n < 3) || (pat == 1 && n < 2))
						continue;   // would repeat another pattern
					std::string cid = std::string("mixv:perm:") + cfg.name + ":k" + str(k) + ":n" + str(n) + ":pat" + str(pat);
					if (!begin_cell(cid))
						continue;
					VGame V;
					if (!V.setup(cfg, k, std::max<size_t>(3, bits_for(n)), cid))
						continue;
					std::vector<size_t> types = pattern_types(n, pat);
					TMCG_Stack<VTMF_Card> s;
					V.make_stack(s, types, pat != 0);
					std::vector<size_t> pi = identity(n);
					uint64_t cnt = 0;
					do
					{
						for (int tap = 1; tap >= (n <= 4 ? 0 : 1); tap--)
						{
							TMCG_Stack<VTMF_Card> s2;
							TMCG_StackSecret<VTMF_CardSecret> ss;
							R->ok(n >= 2);
							V.mix_and_check(s, types, pi, cnt % k, tap, s2, ss, "pi=[" + vec_str(pi) + "] tap=" + str(tap));
						}
						cnt++;
					}
					while (std::next_permutation(pi.begin(), pi.end()));
					R->counters["permutations_mixed"] += cnt;
					R->counters["cards_opened"] += V.opened;
					R->sample(cid, V.G.describe() + ": all " + str(cnt) + " permutations of a " + str(n) + "-card stack with types [" + vec_str(types) + "], every output card opened");
				}
	// (b) every rotation, n beyond the exhaustive range too
	for (size_t ci = 0; ci < 4; ci++)
	{
		std::string cid = std::string("mixv:rot:") + VT_TINY[ci].name;
		if (!begin_cell(cid))
			continue;
		VGame V;
		size_t nrot = thorough ? 40 : 16;
		if (!V.setup(VT_TINY[ci], 2, bits_for(nrot), cid))
			continue;
		uint64_t cnt = 0;
		for (size_t n = 2; n <= nrot; n++)
		{
			std::vector<size_t> types = pattern_types(n, 0);
			TMCG_Stack<VTMF_Card> s;
			V.make_stack(s, types, n % 2 == 1);
			for (size_t r = 0; r < n; r++)
			{
				TMCG_Stack<VTMF_Card> s2;
				TMCG_StackSecret<VTMF_CardSecret> ss;
				R->ok(true);
				V.mix_and_check(s, types, rotation(n, r), r % 2, true, s2, ss, "n=" + str(n) + " rotation r=" + str(r));
				cnt++;
			}
		}
		R->counters["rotations_mixed"] += cnt;
		R->counters["cards_opened"] += V.opened;
		R->sample(cid, V.G.describe() + ": every rotation of every stack size 2.." + str(nrot));
	}
	// (c) chains of shuffles by different players
	for (size_t ci = 0; ci < 4; ci++)
		for (size_t k = 2; k <= 3; k++)
			for (size_t n = 2; n <= 4; n++)
			{
				size_t len = n <= 3 ? 3 : 2;
				std::string cid = std::string("mixv:chain:") + VT_TINY[ci].name + ":k" + str(k) + ":n" + str(n) + ":len" + str(len);
				if (!begin_cell(cid))
					continue;
				VGame V;
				if (!V.setup(VT_TINY[ci], k, 3, cid))
					continue;
				std::vector<size_t> types = pattern_types(n, 0);
				TMCG_Stack<VTMF_Card> s0;
				V.make_stack(s0, types, false);
				std::vector<size_t> p1 = identity(n);
				uint64_t cnt = 0;
				do
				{
					TMCG_Stack<VTMF_Card> s1;
					TMCG_StackSecret<VTMF_CardSecret> ss1;
					std::vector<size_t> t1(n);
					for (size_t i = 0; i < n; i++) t1[i] = types[p1[i]];
					R->ok(true);
					if (!V.mix_and_check(s0, types, p1, 0, true, s1, ss1, "step1 pi1=[" + vec_str(p1) + "]", "c02/vtmf/chain"))
						continue;
					std::vector<size_t> p2 = identity(n);
					do
					{
						TMCG_Stack<VTMF_Card> s2;
						TMCG_StackSecret<VTMF_CardSecret> ss2;
						std::vector<size_t> t2(n);
						for (size_t i = 0; i < n; i++) t2[i] = t1[p2[i]];
						R->ok(true);
						cnt++;
						if (!V.mix_and_check(s1, t1, p2, 1 % k, true, s2, ss2, "step2 pi1=[" + vec_str(p1) + "] pi2=[" + vec_str(p2) + "]", "c02/vtmf/chain"))
							continue;
						if (len < 3)
							continue;
						std::vector<size_t> p3 = identity(n);
						do
						{
							TMCG_Stack<VTMF_Card> s3;
							TMCG_StackSecret<VTMF_CardSecret> ss3;
							R->ok(true);
							cnt++;
							V.mix_and_check(s2, t2, p3, 2 % k, false, s3, ss3, "step3 pi1=[" + vec_str(p1) + "] pi2=[" + vec_str(p2) + "] pi3=[" + vec_str(p3) + "]", "c02/vtmf/chain");
						}
						while (std::next_permutation(p3.begin(), p3.end()));
					}
					while (std::next_permutation(p2.begin(), p2.end()));
				}
				while (std::next_permutation(p1.begin(), p1.end()));
				R->counters["chain_steps_mixed"] += cnt;
				R->counters["cards_opened"] += V.opened;
				R->sample(cid, V.G.describe() + ": all chains of " + str(len) + " shuffles of a " + str(n) + "-card stack by successive players");
			}
}

// ================================================================================================ QR side
struct QGame {
	QrGame G;
	std::vector<SchindelhauerTMCG *> tm;
	size_t k, w, ntypes;
	std::string cid;
	uint64_t opened;
	QGame() : k(0), w(0), ntypes(0), opened(0) {}
	~QGame() { for (size_t j = 0; j < tm.size(); j++) delete tm[j]; }
	void setup(const KeyPool &pool, size_t first, size_t k_, size_t w_, const std::string &cid_)
	{
		k = k_, w = w_, ntypes = (size_t)1 << w, cid = cid_;
		std::vector<size_t> which;
		for (size_t j = 0; j < k; j++) which.push_back(first + j);
		G.setup(pool, which, seed ^ hash_str(cid));
		for (size_t j = 0; j < k; j++)
			tm.push_back(new SchindelhauerTMCG(4, k, w));
	}
	void make_stack(TMCG_Stack<TMCG_Card> &s, const std::vector<size_t> &types, bool premask)
	{
		TMCG_OpenStack<TMCG_Card> os;
		for (size_t i = 0; i < types.size(); i++)
		{
			TMCG_Card c(k, w);
			if (premask)
			{
				TMCG_CardSecret cs(k, w);
				G.as(k - 1);
				tm[k - 1]->TMCG_CreatePrivateCard(c, cs, *G.ring, k - 1, types[i]);
			}
			else
				tm[0]->TMCG_CreateOpenCard(c, *G.ring, types[i]);
			os.push(types[i], c);
		}
		mcenv::cur = nullptr;
		s.clear();
		s.push(os);
	}
	size_t open(const TMCG_Card &c, size_t o, const std::string &ctx)
	{
		size_t got = ntypes + 1;
		try
		{
			TMCG_CardSecret cs(k, w);
			for (size_t j = 0; j < k; j++)
				tm[o]->TMCG_SelfCardSecret(c, cs, *G.sec[j], j);
			got = tm[o]->TMCG_TypeOfCard(cs);
		}
		catch (std::exception &e)
		{
			viol("c02/qr/exception/open", ctx + " threw " + e.what(), cid);
		}
		opened++;
		size_t ref = G.ref_type(c);
		if (got != ref)
			viol("c02/qr/open_disagrees_with_reference", ctx + " TMCG_TypeOfCard=" + str(got) + " reference decryption=" + str(ref), cid);
		return got;
	}
	bool check_mixed(const TMCG_Stack<TMCG_Card> &s, const std::vector<size_t> &types, const std::vector<size_t> &pi,
		const TMCG_Stack<TMCG_Card> &s2, const TMCG_StackSecret<TMCG_CardSecret> &ss, const std::string &ctx, const char *keyprefix)
	{
		size_t n = s.size();
		bool good = true;
		if (s2.size() != n || ss.size() != n)
		{
			viol(std::string(keyprefix) + "/size", ctx + " input size " + str(n) + " output size " + str(s2.size()) + " secret size " + str(ss.size()), cid);
			return false;
		}
		for (size_t i = 0; i < n; i++)
			if (ss[i].first != pi[i])
			{
				viol(std::string(keyprefix) + "/secret_index", ctx + " secret index " + str(i) + " is " + str(ss[i].first) + ", requested " + str(pi[i]), cid);
				good = false;
			}
		std::vector<size_t> got(n);
		for (size_t i = 0; i < n; i++)
		{
			got[i] = open(s2[i], i % k, ctx + " position=" + str(i));
			if (got[i] != types[pi[i]])
				good = false;
		}
		if (!good)
		{
			std::vector<size_t> want(n);
			for (size_t i = 0; i < n; i++) want[i] = types[pi[i]];
			viol(std::string(keyprefix) + "/wrong_types", ctx + " input types [" + vec_str(types) + "] pi=[" + vec_str(pi) + "] opened [" + vec_str(got) +
				"] expected [" + vec_str(want) + "]", cid);
		}
		return good;
	}
	bool mix_and_check(const TMCG_Stack<TMCG_Card> &s, const std::vector<size_t> &types, const std::vector<size_t> &pi, size_t p, bool tap,
		TMCG_Stack<TMCG_Card> &s2, TMCG_StackSecret<TMCG_CardSecret> &ss, const std::string &ctx, const char *keyprefix = "c02/qr/mix")
	{
		size_t n = s.size();
		try
		{
			G.as(p);
			ss.clear();
			tm[p]->TMCG_CreateStackSecret(ss, pi, *G.ring, p, n);
			tm[p]->TMCG_MixStack(s, s2, ss, *G.ring, tap);
		}
		catch (std::exception &e)
		{
			mcenv::cur = nullptr;
			viol(std::string(keyprefix) + "/exception", ctx + " threw " + e.what(), cid);
			return false;
		}
		mcenv::cur = nullptr;
		return check_mixed(s, types, pi, s2, ss, ctx, keyprefix);
	}
};

static KeyPool *POOL = nullptr;
static std::vector<unsigned long> POOL_SIZES;
static void need_pool()
{
	if (POOL)
		return;
	POOL = new KeyPool;
	POOL_SIZES.push_back(448);
	if (thorough)
		POOL_SIZES.push_back(672);
	for (size_t i = 0; i < POOL_SIZES.size(); i++)
		POOL->add(POOL_SIZES[i], 3, seed);
}

static void fam_mixq()
{
	need_pool();
	size_t nmax = thorough ? 6 : 5;
	for (size_t si = 0; si < POOL_SIZES.size(); si++)
		for (size_t k = 2; k <= 3; k++)
			for (size_t n = 1; n <= nmax; n++)
				for (int pat = 0; pat < 3; pat++)
				{
					if ((pat == 2 && n < 3) || (pat == 1 && n < 2))
						continue;
					if (si > 0 && (k == 3 || n > 4))
						continue;
					std::string cid = "mixq:perm:rabin" + str(POOL_SIZES[si]) + ":k" + str(k) + ":n" + str(n) + ":pat" + str(pat);
					if (!begin_cell(cid))
						continue;
					QGame Q;
					Q.setup(*POOL, 3 * si, k, 3, cid);
					std::vector<size_t> types = pattern_types(n, pat);
					TMCG_Stack<TMCG_Card> s;
					Q.make_stack(s, types, pat != 0);
					std::vector<size_t> pi = identity(n);
					uint64_t cnt = 0;
					do
					{
						for (int tap = 1; tap >= 0; tap--)
						{
							TMCG_Stack<TMCG_Card> s2;
							TMCG_StackSecret<TMCG_CardSecret> ss;
							R->ok(n >= 2);
							Q.mix_and_check(s, types, pi, cnt % k, tap, s2, ss, "pi=[" + vec_str(pi) + "] tap=" + str(tap));
						}
						cnt++;
					}
					while (std::next_permutation(pi.begin(), pi.end()));
					R->counters["permutations_mixed"] += cnt;
					R->counters["cards_opened"] += Q.opened;
					R->sample(cid, str(POOL_SIZES[si]) + "-bit Rabin keys: all " + str(cnt) + " permutations of a " + str(n) + "-card stack with types [" + vec_str(types) + "]");
				}
	{
		std::string cid = "mixq:rot:rabin448";
		if (begin_cell(cid))
		{
			QGame Q;
			Q.setup(*POOL, 0, 2, 3, cid);
			uint64_t cnt = 0;
			for (size_t n = 2; n <= 8; n++)
			{
				std::vector<size_t> types = pattern_types(n, 0);
				TMCG_Stack<TMCG_Card> s;
				Q.make_stack(s, types, n % 2 == 1);
				for (size_t r = 0; r < n; r++)
				{
					TMCG_Stack<TMCG_Card> s2;
					TMCG_StackSecret<TMCG_CardSecret> ss;
					R->ok(true);
					Q.mix_and_check(s, types, rotation(n, r), r % 2, true, s2, ss, "n=" + str(n) + " rotation r=" + str(r));
					cnt++;
				}
			}
			R->counters["rotations_mixed"] += cnt;
			R->counters["cards_opened"] += Q.opened;
			R->sample(cid, "every rotation of every stack size 2..8");
		}
	}
	for (size_t k = 2; k <= 3; k++)
		for (size_t n = 2; n <= 3; n++)
		{
			std::string cid = "mixq:chain:rabin448:k" + str(k) + ":n" + str(n) + ":len2";
			if (!begin_cell(cid))
				continue;
			QGame Q;
			Q.setup(*POOL, 0, k, 2, cid);
			std::vector<size_t> types = pattern_types(n, 0);
			TMCG_Stack<TMCG_Card> s0;
			Q.make_stack(s0, types, false);
			std::vector<size_t> p1 = identity(n);
			uint64_t cnt = 0;
			do
			{
				TMCG_Stack<TMCG_Card> s1;
				TMCG_StackSecret<TMCG_CardSecret> ss1;
				std::vector<size_t> t1(n);
				for (size_t i = 0; i < n; i++) t1[i] = types[p1[i]];
				R->ok(true);
				if (!Q.mix_and_check(s0, types, p1, 0, true, s1, ss1, "step1 pi1=[" + vec_str(p1) + "]", "c02/qr/chain"))
					continue;
				std::vector<size_t> p2 = identity(n);
				do
				{
					TMCG_Stack<TMCG_Card> s2;
					TMCG_StackSecret<TMCG_CardSecret> ss2;
					R->ok(true);
					cnt++;
					Q.mix_and_check(s1, t1, p2, k - 1, false, s2, ss2, "step2 pi1=[" + vec_str(p1) + "] pi2=[" + vec_str(p2) + "]", "c02/qr/chain");
				}
				while (std::next_permutation(p2.begin(), p2.end()));
			}
			while (std::next_permutation(p1.begin(), p1.end()));
			R->counters["chain_steps_mixed"] += cnt;
			R->counters["cards_opened"] += Q.opened;
			R->sample(cid, "all chains of 2 shuffles of a " + str(n) + "-card stack");
		}
}

// ================================================================================================ big stacks
static void fam_big()
{
	std::vector<GroupCfg> cfgs;
	cfgs.push_back(VT_TINY[0]);
	cfgs.push_back(VT_ADM);
	if (thorough)
		cfgs.push_back(VT_DEF);
	const size_t ns[2] = {52, 512};
	for (size_t ci = 0; ci < cfgs.size(); ci++)
		for (size_t ni = 0; ni < 2; ni++)
		{
			size_t n = ns[ni];
			std::string cid = std::string("big:vtmf:") + cfgs[ci].name + ":n" + str(n);
			if (!begin_cell(cid))
				continue;
			VGame V;
			// the toy group has |q| = 8 bit: only 52 distinct types fit below q there, so the 512-card stack repeats types mod 128
			size_t w = (ci == 0) ? 7 : bits_for(n);
			if (!V.setup(cfgs[ci], 2, w, cid))
				continue;
			std::vector<size_t> types(n);
			for (size_t i = 0; i < n; i++) types[i] = i % V.ntypes;
			TMCG_Stack<VTMF_Card> s;
			V.make_stack(s, types, false);
			std::vector<std::vector<size_t> > pis;
			pis.push_back(identity(n)), pis.push_back(reversal(n)), pis.push_back(affine73(n));
			for (size_t i = 0; i < pis.size(); i++)
			{
				TMCG_Stack<VTMF_Card> s2;
				TMCG_StackSecret<VTMF_CardSecret> ss;
				R->ok(true);
				V.mix_and_check(s, types, pis[i], i % 2, true, s2, ss, "n=" + str(n) + " permutation #" + str(i) + " (0 identity, 1 reversal, 2 i->7i+3)", "c02/vtmf/mix");
			}
			R->counters["cards_opened"] += V.opened;
			R->sample(cid, V.G.describe() + ": " + str(n) + "-card stack, identity / reversal / i->7i+3 mod n, every card opened");
		}
	need_pool();
	for (size_t ni = 0; ni < 2; ni++)
	{
		size_t n = ns[ni];
		std::string cid = "big:qr:rabin448:n" + str(n);
		if (!begin_cell(cid))
			continue;
		QGame Q;
		Q.setup(*POOL, 0, 2, bits_for(n), cid);
		std::vector<size_t> types = identity(n);
		TMCG_Stack<TMCG_Card> s;
		Q.make_stack(s, types, false);
		std::vector<std::vector<size_t> > pis;
		pis.push_back(identity(n)), pis.push_back(reversal(n)), pis.push_back(affine73(n));
		for (size_t i = 0; i < pis.size(); i++)
		{
			TMCG_Stack<TMCG_Card> s2;
			TMCG_StackSecret<TMCG_CardSecret> ss;
			R->ok(true);
			Q.mix_and_check(s, types, pis[i], i % 2, true, s2, ss, "n=" + str(n) + " permutation #" + str(i) + " (0 identity, 1 reversal, 2 i->7i+3)", "c02/qr/mix");
		}
		R->counters["cards_opened"] += Q.opened;
		R->sample(cid, "448-bit Rabin keys, k=2, w=" + str(Q.w) + ": " + str(n) + "-card stack, identity / reversal / i->7i+3 mod n, every card opened");
	}
}

// ================================================================================================ generators under coin steering
// The generators draw with tmcg_mpz_srandom_mod(m): 8 bytes, read as a host-order unsigned long, reduced mod m (values
// below m are never rejected).  The steering function answers the first draws of length 8 with the chosen small integers.
struct Steer {
	std::vector<unsigned long> answers;
	size_t used;
	void install(mcenv::CoinSource &cs)
	{
		used = 0;
		cs.steer = [this](unsigned char *buf, size_t len, int, uint64_t) -> bool {
			if (len != sizeof(unsigned long) || used >= answers.size())
				return false;
			unsigned long v = answers[used++];
			memcpy(buf, &v, sizeof v);
			return true;
		};
	}
};

template<class SS> static std::vector<size_t> index_vector(const SS &ss)
{
	std::vector<size_t> v(ss.size());
	for (size_t i = 0; i < ss.size(); i++) v[i] = ss[i].first;
	return v;
}

static void check_generated(bool cyclic, size_t n, size_t ret, const std::vector<size_t> &iv, const std::string &ctx, const std::string &cid)
{
	if (iv.size() != n)
	{
		viol("c02/gen/size", ctx + " secret has " + str(iv.size()) + " entries", cid);
		return;
	}
	if (!is_bijection(iv))
	{
		viol(cyclic ? "c02/gen/rotation_not_bijective" : "c02/gen/permutation_not_bijective", ctx + " index vector [" + vec_str(iv) + "]", cid);
		return;
	}
	if (!cyclic)
	{
		if (ret != 0)
			viol("c02/gen/permutation_returns_offset", ctx + " returned " + str(ret) + " for a full permutation", cid);
		return;
	}
	for (size_t i = 0; i < n; i++)
		if (iv[i] != (iv[0] + i) % n)
		{
			viol("c02/gen/rotation_not_cyclic", ctx + " index vector [" + vec_str(iv) + "]", cid);
			return;
		}
	bool off_ok = ret < n;
	for (size_t j = 0; j < n && off_ok; j++)
		off_ok = (iv[(j + ret) % n] == j);
	if (!off_ok)
		viol("c02/gen/rotation_offset", ctx + " reported offset " + str(ret) + " but index vector [" + vec_str(iv) + "] moves input card j to position (j+" +
			str((n - iv[0]) % n) + ") mod n", cid);
}

// enumerates all answer sequences (a_0 < n, a_1 < n-1, ..., a_{n-2} < 2) / (a_0 < n) and calls gen(answers)
template<class F> static uint64_t all_answers(bool cyclic, size_t n, F gen)
{
	std::vector<unsigned long> a(cyclic ? 1 : (n ? n - 1 : 0), 0);
	uint64_t cnt = 0;
	for (;;)
	{
		gen(a);
		cnt++;
		size_t i = a.size();
		while (i-- > 0)
		{
			unsigned long lim = cyclic ? n : n - i;
			if (++a[i] < lim)
				break;
			a[i] = 0;
		}
		if (i == (size_t)-1)
			break;
	}
	return cnt;
}

static void fam_gen()
{
	// discrete-log encoding
	{
		size_t pmax = thorough ? 8 : 7, rmax = thorough ? 64 : 16;
		std::vector<std::pair<int, size_t> > todo;   // (cyclic, n)
		for (size_t n = 1; n <= pmax; n++) todo.push_back(std::make_pair(0, n));
		for (size_t n = 2; n <= rmax; n++) todo.push_back(std::make_pair(1, n));
		if (thorough) todo.push_back(std::make_pair(1, (size_t)512));
		for (size_t ti = 0; ti < todo.size(); ti++)
			{
				int cyclic = todo[ti].first;
				size_t n = todo[ti].second;
				std::string cid = std::string("gen:vtmf:") + (cyclic ? "rot" : "perm") + ":n" + str(n);
				if (begin_cell(cid))
				{
					VGame V;
					if (V.setup(VT_TINY[n % 4], 1, 1, cid))
					{
						std::set<std::vector<size_t> > distinct;
						std::set<size_t> offsets;
						Steer st;
						uint64_t unconsumed = 0;
						uint64_t cnt = all_answers(cyclic, n, [&](const std::vector<unsigned long> &a) {
							st.answers = a;
							st.install(V.G.coins[0]);
							V.G.as(0);
							TMCG_StackSecret<VTMF_CardSecret> ss;
							std::string ctx = std::string(cyclic ? "rotation" : "permutation") + " n=" + str(n) + " steered draws=[";
							for (size_t i = 0; i < a.size(); i++) ctx += (i ? "," : "") + str(a[i]);
							ctx += "]";
							R->ok(n >= 2);
							try
							{
								size_t ret = V.tm[0]->TMCG_CreateStackSecret(ss, cyclic, n, V.G.v[0]);
								mcenv::cur = nullptr;
								std::vector<size_t> iv = index_vector(ss);
								check_generated(cyclic, n, ret, iv, ctx, cid);
								distinct.insert(iv);
								offsets.insert(ret);
							}
							catch (std::exception &e)
							{
								mcenv::cur = nullptr;
								viol("c02/gen/exception", ctx + " threw " + e.what(), cid);
							}
							if (st.used != a.size())
								unconsumed++;
						});
						V.G.coins[0].steer = nullptr;
						R->counters[cyclic ? "rotation_outcomes" : "permutation_outcomes"] += cnt;
						R->counters["distinct_index_vectors"] += distinct.size();
						R->counters["steered_answers_not_consumed"] += unconsumed;
						R->sample(cid, str(cnt) + " answer sequences -> " + str(distinct.size()) + " distinct index vectors" + (cyclic ? ", " + str(offsets.size()) + " distinct offsets" : ""));
					}
				}
			}
	}
	// QR encoding (same generators, other overload)
	need_pool();
	for (int cyclic = 0; cyclic <= 1; cyclic++)
		for (size_t n = cyclic ? 2 : 1; n <= (cyclic ? 8u : 5u); n++)
		{
			std::string cid = std::string("gen:qr:") + (cyclic ? "rot" : "perm") + ":n" + str(n);
			if (!begin_cell(cid))
				continue;
			QGame Q;
			Q.setup(*POOL, 0, 2, 1, cid);
			Steer st;
			std::set<std::vector<size_t> > distinct;
			uint64_t cnt = all_answers(cyclic, n, [&](const std::vector<unsigned long> &a) {
				st.answers = a;
				st.install(Q.G.coins[1]);
				Q.G.as(1);
				TMCG_StackSecret<TMCG_CardSecret> ss;
				std::string ctx = std::string(cyclic ? "rotation" : "permutation") + " n=" + str(n) + " steered draws=[";
				for (size_t i = 0; i < a.size(); i++) ctx += (i ? "," : "") + str(a[i]);
				ctx += "]";
				R->ok(n >= 2);
				try
				{
					size_t ret = Q.tm[1]->TMCG_CreateStackSecret(ss, cyclic, *Q.G.ring, 1, n);
					mcenv::cur = nullptr;
					std::vector<size_t> iv = index_vector(ss);
					check_generated(cyclic, n, ret, iv, ctx, cid);
					distinct.insert(iv);
				}
				catch (std::exception &e)
				{
					mcenv::cur = nullptr;
					viol("c02/gen/exception", ctx + " threw " + e.what(), cid);
				}
			});
			Q.G.coins[1].steer = nullptr;
			R->counters[cyclic ? "rotation_outcomes" : "permutation_outcomes"] += cnt;
			R->counters["distinct_index_vectors"] += distinct.size();
			R->sample(cid, str(cnt) + " answer sequences -> " + str(distinct.size()) + " distinct index vectors (QR encoding overload)");
		}
	// sampled beyond the exhaustive range (default coins)
	{
		std::string cid = "gen:vtmf:sampled";
		if (begin_cell(cid))
		{
			VGame V;
			if (V.setup(VT_TINY[1], 1, 1, cid))
			{
				const size_t ns[] = {8, 13, 52, 100, 511, 512};
				uint64_t cnt = 0;
				for (size_t ni = 0; ni < 6; ni++)
					for (int cyclic = 0; cyclic <= 1; cyclic++)
						for (int rep = 0; rep < 20; rep++)
						{
							size_t n = ns[ni];
							V.G.as(0);
							TMCG_StackSecret<VTMF_CardSecret> ss;
							R->ok(true);
							cnt++;
							std::string ctx = std::string(cyclic ? "rotation" : "permutation") + " n=" + str(n) + " default coins, call #" + str(rep);
							try
							{
								size_t ret = V.tm[0]->TMCG_CreateStackSecret(ss, cyclic, n, V.G.v[0]);
								mcenv::cur = nullptr;
								check_generated(cyclic, n, ret, index_vector(ss), ctx, cid);
							}
							catch (std::exception &e)
							{
								mcenv::cur = nullptr;
								viol("c02/gen/exception", ctx + " threw " + e.what(), cid);
							}
						}
				R->counters["sampled_generator_calls"] += cnt;
				R->sample(cid, "SAMPLED: 20 unsteered calls each for n in {8,13,52,100,511,512}, permutation and rotation");
			}
		}
	}
}

// ================================================================================================ importer
template<class CS> struct ImportCheck {
	std::vector<std::string> secret_text;   // real exported card secrets, reused cyclically
	std::string kind, cid;
	uint64_t accepted, refused;
	ImportCheck() : accepted(0), refused(0) {}
	std::string text(size_t declared, const std::vector<size_t> &vec) const
	{
		std::ostringstream o;
		o << "sts^" << declared << "^";
		for (size_t i = 0; i < vec.size(); i++)
			o << vec[i] << "^" << secret_text[i % secret_text.size()] << "^";
		return o.str();
	}
	// well_formed: declared == number of pairs
	void one(size_t declared, const std::vector<size_t> &vec, bool via_stream, const std::string &ctx)
	{
		std::string t = text(declared, vec);
		TMCG_StackSecret<CS> ss;
		bool ok = false;
		try
		{
			if (via_stream)
			{
				std::istringstream in(t + "\n");
				in >> ss;
				ok = !in.fail();
			}
			else
				ok = ss.import(t);
		}
		catch (std::exception &e)
		{
			viol("c02/import/exception", kind + " " + ctx + " threw " + e.what(), cid);
			return;
		}
		(ok ? accepted : refused)++;
		bool well_formed = (declared == vec.size());
		bool bij = is_bijection(vec);
		R->ok(vec.size() >= 2);
		if (well_formed && declared >= 1 && declared <= TMCG_MAX_CARDS)
		{
			if (ok && !bij)
				viol("c02/import/accepts_non_bijection", kind + " " + ctx + " index vector [" + vec_str(vec) + "] accepted", cid);
			else if (!ok && bij)
				viol("c02/import/refuses_bijection", kind + " " + ctx + " index vector [" + vec_str(vec) + "] refused", cid);
		}
		if (ok)
		{
			std::vector<size_t> iv = index_vector(ss);
			std::vector<size_t> pre(vec.begin(), vec.begin() + std::min(vec.size(), declared));
			if (ss.size() != declared || ss.size() > TMCG_MAX_CARDS || iv != pre || !is_bijection(iv))
				viol("c02/import/accepted_object_inconsistent", kind + " " + ctx + " declared " + str(declared) + ", " + str(vec.size()) + " pairs [" +
					(vec.size() <= 16 ? vec_str(vec) : std::string("...")) + "]; object holds " + str(ss.size()) + " entries [" + (iv.size() <= 16 ? vec_str(iv) : std::string("...")) + "]", cid);
		}
	}
};

template<class CS> static void import_cells(ImportCheck<CS> &IC, const std::string &tag, size_t full_max, size_t ext_max)
{
	// all vectors over {0..n} (n <= ext_max) resp. {0..n-1} (n <= full_max)
	for (size_t n = 1; n <= full_max; n++)
	{
		size_t alpha = n <= ext_max ? n + 1 : n;
		std::string cid = "import:" + tag + ":all:n" + str(n) + ":alphabet" + str(alpha);
		if (!begin_cell(cid))
			continue;
		IC.cid = cid;
		IC.accepted = IC.refused = 0;
		std::vector<size_t> v(n, 0);
		for (;;)
		{
			IC.one(n, v, false, "n=" + str(n));
			if (n <= 3)
				IC.one(n, v, true, "n=" + str(n) + " (operator>>)");
			size_t i = n;
			while (i-- > 0)
			{
				if (++v[i] < alpha)
					break;
				v[i] = 0;
			}
			if (i == (size_t)-1)
				break;
		}
		R->counters["imports_accepted"] += IC.accepted;
		R->counters["imports_refused"] += IC.refused;
		R->sample(cid, "all " + str(alpha) + "^" + str(n) + " index vectors: accepted " + str(IC.accepted) + ", refused " + str(IC.refused));
	}
}

template<class CS> static void import_overwrites(ImportCheck<CS> &IC, const std::string &tag, const std::vector<size_t> &ns)
{
	for (size_t ni = 0; ni < ns.size(); ni++)
	{
		size_t n = ns[ni];
		std::string cid = "import:" + tag + ":overwrite:n" + str(n);
		if (!begin_cell(cid))
			continue;
		IC.cid = cid;
		IC.accepted = IC.refused = 0;
		std::vector<std::vector<size_t> > bases;
		bases.push_back(identity(n)), bases.push_back(reversal(n)), bases.push_back(rotation(n, 1));
		if (n % 7)
			bases.push_back(affine73(n));
		for (size_t b = 0; b < bases.size(); b++)
		{
			IC.one(n, bases[b], false, "n=" + str(n) + " base #" + str(b));
			for (size_t a = 0; a < n; a++)
			{
				if (n > 64 && a != 0 && a != n / 2 - 1 && a != n - 1)
					continue;
				for (size_t val = 0; val < n; val++)
				{
					if (bases[b][a] == val)
						continue;
					std::vector<size_t> v = bases[b];
					v[a] = val;
					IC.one(n, v, false, "n=" + str(n) + " base #" + str(b) + " entry " + str(a) + " overwritten with " + str(val));
				}
			}
		}
		R->counters["imports_accepted"] += IC.accepted;
		R->counters["imports_refused"] += IC.refused;
		R->sample(cid, "single-entry overwrites of identity/reversal/rotation/affine bijections: accepted " + str(IC.accepted) + ", refused " + str(IC.refused));
	}
}

template<class CS> static void import_counts(ImportCheck<CS> &IC, const std::string &tag)
{
	std::string cid = "import:" + tag + ":counts";
	if (!begin_cell(cid))
		return;
	IC.cid = cid;
	IC.accepted = IC.refused = 0;
	const size_t ms[] = {1, 2, 3, 5, TMCG_MAX_CARDS, TMCG_MAX_CARDS + 1};
	for (size_t mi = 0; mi < 6; mi++)
	{
		size_t m = ms[mi];
		std::vector<std::vector<size_t> > bases;
		bases.push_back(identity(m));
		bases.push_back(reversal(m));
		for (size_t b = 0; b < bases.size(); b++)
		{
			std::set<size_t> ds;
			ds.insert(0), ds.insert(m - 1), ds.insert(m), ds.insert(m + 1), ds.insert(TMCG_MAX_CARDS + 1);
			for (std::set<size_t>::iterator d = ds.begin(); d != ds.end(); ++d)
				IC.one(*d, bases[b], false, "m=" + str(m) + " pairs, declared size " + str(*d) + ", base #" + str(b));
		}
	}
	R->counters["imports_accepted"] += IC.accepted;
	R->counters["imports_refused"] += IC.refused;
	R->sample(cid, "declared size vs number of pairs (0, m-1, m, m+1, MAX+1): accepted " + str(IC.accepted) + ", refused " + str(IC.refused));
}

static void fam_import()
{
	{
		ImportCheck<VTMF_CardSecret> IC;
		IC.kind = "VTMF_CardSecret";
		VGame V;
		if (V.setup(VT_ADM, 1, 1, "import:vtmf"))
		{
			for (int i = 0; i < 7; i++)
			{
				VTMF_CardSecret cs;
				V.G.as(0);
				V.tm[0]->TMCG_CreateCardSecret(cs, V.G.v[0]);
				std::ostringstream o;
				o << cs;
				IC.secret_text.push_back(o.str());
			}
			mcenv::cur = nullptr;
			import_cells(IC, "vtmf", thorough ? 7 : 6, 4);
			std::vector<size_t> ns;
			ns.push_back(7), ns.push_back(8), ns.push_back(16), ns.push_back(52), ns.push_back(512);
			import_overwrites(IC, "vtmf", ns);
			import_counts(IC, "vtmf");
		}
	}
	{
		need_pool();
		ImportCheck<TMCG_CardSecret> IC;
		IC.kind = "TMCG_CardSecret";
		QGame Q;
		Q.setup(*POOL, 0, 2, 2, "import:qr");
		for (int i = 0; i < 5; i++)
		{
			TMCG_CardSecret cs(2, 2);
			Q.G.as(i % 2);
			Q.tm[0]->TMCG_CreateCardSecret(cs, *Q.G.ring, i % 2);
			std::ostringstream o;
			o << cs;
			IC.secret_text.push_back(o.str());
		}
		mcenv::cur = nullptr;
		import_cells(IC, "qr", thorough ? 5 : 4, 3);
		std::vector<size_t> ns;
		ns.push_back(7), ns.push_back(16);
		import_overwrites(IC, "qr", ns);
		import_counts(IC, "qr");
	}
}

// ================================================================================================ glue + open-stack mix
static void fam_glue()
{
	size_t nv = thorough ? 5 : 4;
	for (size_t ci = 0; ci < 4; ci++)
		for (size_t n = 1; n <= nv; n++)
		{
			std::string cid = std::string("glue:vtmf:") + VT_TINY[ci].name + ":n" + str(n);
			if (!begin_cell(cid))
				continue;
			VGame V;
			if (!V.setup(VT_TINY[ci], 2, 3, cid))
				continue;
			std::vector<size_t> types = pattern_types(n, 0);
			TMCG_Stack<VTMF_Card> s;
			V.make_stack(s, types, ci % 2 == 1);
			std::vector<size_t> sg = identity(n);
			uint64_t cnt = 0;
			do
			{
				TMCG_Stack<VTMF_Card> s2;
				TMCG_StackSecret<VTMF_CardSecret> sig;
				V.G.as(0);
				V.tm[0]->TMCG_CreateStackSecret(sig, sg, n, V.G.v[0]);
				V.tm[0]->TMCG_MixStack(s, s2, sig, V.G.v[0]);
				std::vector<size_t> pi = identity(n);
				do
				{
					std::string ctx = "n=" + str(n) + " sigma=[" + vec_str(sg) + "] pi=[" + vec_str(pi) + "]";
					R->ok(n >= 2);
					cnt++;
					try
					{
						TMCG_Stack<VTMF_Card> s3, s3g;
						TMCG_StackSecret<VTMF_CardSecret> ps;
						V.G.as(0);
						V.tm[0]->TMCG_CreateStackSecret(ps, pi, n, V.G.v[0]);
						V.tm[0]->TMCG_MixStack(s2, s3, ps, V.G.v[0]);
						V.tm[0]->TMCG_GlueStackSecret(sig, ps, V.G.v[0]);   // ps := sigma glued with pi
						V.tm[0]->TMCG_MixStack(s, s3g, ps, V.G.v[0]);
						mcenv::cur = nullptr;
						std::vector<size_t> comp(n), iv = index_vector(ps);
						for (size_t i = 0; i < n; i++) comp[i] = sg[pi[i]];
						if (iv != comp)
							viol("c02/glue/vtmf/wrong_composition", ctx + " glued indices [" + vec_str(iv) + "] expected sigma(pi(i)) = [" + vec_str(comp) + "]", cid);
						else
						{
							if (s3g != s3)
								viol("c02/glue/vtmf/cards_differ", ctx + ": mixing with the glued secret does not reproduce the twice-mixed stack", cid);
							V.check_mixed(s, types, comp, s3g, ps, ctx + " (stack mixed with the glued secret)", "c02/glue/vtmf");
						}
					}
					catch (std::exception &e)
					{
						mcenv::cur = nullptr;
						viol("c02/glue/vtmf/exception", ctx + " threw " + e.what(), cid);
					}
				}
				while (std::next_permutation(pi.begin(), pi.end()));
			}
			while (std::next_permutation(sg.begin(), sg.end()));
			R->counters["glue_pairs"] += cnt;
			R->counters["cards_opened"] += V.opened;
			R->sample(cid, V.G.describe() + ": all " + str(cnt) + " pairs (sigma, pi) of permutations of " + str(n) + " cards");
		}
	need_pool();
	for (size_t k = 2; k <= 3; k++)
		for (size_t n = 1; n <= (thorough ? 5u : 4u); n++)
		{
			std::string cid = "glue:qr:rabin448:k" + str(k) + ":n" + str(n);
			if (!begin_cell(cid))
				continue;
			QGame Q;
			Q.setup(*POOL, 0, k, 3, cid);
			std::vector<size_t> types = pattern_types(n, 0);
			TMCG_Stack<TMCG_Card> s;
			Q.make_stack(s, types, k == 3);
			std::vector<size_t> sg = identity(n);
			uint64_t cnt = 0;
			do
			{
				TMCG_Stack<TMCG_Card> s2;
				TMCG_StackSecret<TMCG_CardSecret> sig;
				Q.G.as(0);
				Q.tm[0]->TMCG_CreateStackSecret(sig, sg, *Q.G.ring, 0, n);
				Q.tm[0]->TMCG_MixStack(s, s2, sig, *Q.G.ring);
				std::vector<size_t> pi = identity(n);
				do
				{
					std::string ctx = "n=" + str(n) + " sigma=[" + vec_str(sg) + "] pi=[" + vec_str(pi) + "]";
					R->ok(n >= 2);
					cnt++;
					try
					{
						TMCG_Stack<TMCG_Card> s3, s3g;
						TMCG_StackSecret<TMCG_CardSecret> ps;
						Q.G.as(0);
						Q.tm[0]->TMCG_CreateStackSecret(ps, pi, *Q.G.ring, 0, n);
						Q.tm[0]->TMCG_MixStack(s2, s3, ps, *Q.G.ring);
						Q.tm[0]->TMCG_GlueStackSecret(sig, ps, *Q.G.ring);
						Q.tm[0]->TMCG_MixStack(s, s3g, ps, *Q.G.ring);
						mcenv::cur = nullptr;
						std::vector<size_t> comp(n), iv = index_vector(ps);
						for (size_t i = 0; i < n; i++) comp[i] = sg[pi[i]];
						if (iv != comp)
							viol("c02/glue/qr/wrong_composition", ctx + " glued indices [" + vec_str(iv) + "] expected sigma(pi(i)) = [" + vec_str(comp) + "]", cid);
						else
						{
							if (s3g != s3)
								viol("c02/glue/qr/cards_differ", ctx + ": mixing with the glued secret does not reproduce the twice-mixed stack", cid);
							Q.check_mixed(s, types, comp, s3g, ps, ctx + " (stack mixed with the glued secret)", "c02/glue/qr");
						}
					}
					catch (std::exception &e)
					{
						mcenv::cur = nullptr;
						viol("c02/glue/qr/exception", ctx + " threw " + e.what(), cid);
					}
				}
				while (std::next_permutation(pi.begin(), pi.end()));
			}
			while (std::next_permutation(sg.begin(), sg.end()));
			R->counters["glue_pairs"] += cnt;
			R->counters["cards_opened"] += Q.opened;
			R->sample(cid, "448-bit Rabin keys, k=" + str(k) + ": all " + str(cnt) + " pairs (sigma, pi) of permutations of " + str(n) + " cards");
		}
	// TMCG_MixOpenStack (private): the type tag travels with the card
	for (size_t n = 1; n <= 4; n++)
	{
		std::string cid = "glue:openstack:n" + str(n);
		if (!begin_cell(cid))
			continue;
		VGame V;
		if (!V.setup(VT_TINY[1], 2, 3, cid))
			continue;
		QGame Q;
		Q.setup(*POOL, 0, 2, 3, cid);
		std::vector<size_t> types = pattern_types(n, 0);
		TMCG_OpenStack<VTMF_Card> osv;
		TMCG_OpenStack<TMCG_Card> osq;
		for (size_t i = 0; i < n; i++)
		{
			VTMF_Card c;
			V.tm[0]->TMCG_CreateOpenCard(c, V.G.v[0], types[i]);
			osv.push(types[i], c);
			TMCG_Card cq(2, 3);
			Q.tm[0]->TMCG_CreateOpenCard(cq, *Q.G.ring, types[i]);
			osq.push(types[i], cq);
		}
		std::vector<size_t> pi = identity(n);
		uint64_t cnt = 0;
		do
		{
			std::string ctx = "n=" + str(n) + " pi=[" + vec_str(pi) + "]";
			R->ok(n >= 2);
			cnt++;
			try
			{
				TMCG_StackSecret<VTMF_CardSecret> ssv;
				TMCG_OpenStack<VTMF_Card> osv2;
				V.G.as(1);
				V.tm[1]->TMCG_CreateStackSecret(ssv, pi, n, V.G.v[1]);
				V.tm[1]->TMCG_MixOpenStack(osv, osv2, ssv, V.G.v[1]);
				mcenv::cur = nullptr;
				bool good = osv2.size() == n;
				for (size_t i = 0; i < n && good; i++)
					good = osv2[i].first == types[pi[i]] && V.open(osv2[i].second, i % 2, ctx + " position=" + str(i)) == types[pi[i]];
				if (!good)
					viol("c02/openstack/vtmf", ctx + ": type tags or opened types of the mixed open stack are wrong", cid);
				TMCG_StackSecret<TMCG_CardSecret> ssq;
				TMCG_OpenStack<TMCG_Card> osq2;
				Q.G.as(1);
				Q.tm[1]->TMCG_CreateStackSecret(ssq, pi, *Q.G.ring, 1, n);
				Q.tm[1]->TMCG_MixOpenStack(osq, osq2, ssq, *Q.G.ring);
				mcenv::cur = nullptr;
				good = osq2.size() == n;
				for (size_t i = 0; i < n && good; i++)
					good = osq2[i].first == types[pi[i]] && Q.open(osq2[i].second, i % 2, ctx + " position=" + str(i)) == types[pi[i]];
				if (!good)
					viol("c02/openstack/qr", ctx + ": type tags or opened types of the mixed open stack are wrong", cid);
			}
			catch (std::exception &e)
			{
				mcenv::cur = nullptr;
				viol("c02/openstack/exception", ctx + " threw " + e.what(), cid);
			}
		}
		while (std::next_permutation(pi.begin(), pi.end()));
		R->counters["openstack_mixes"] += cnt;
		R->sample(cid, "TMCG_MixOpenStack with all " + str(cnt) + " permutations, both encodings");
	}
}

int main(int argc, char **argv)
{
	Args A = parse(argc, argv);
	Report rep(A);
	R = &rep;
	if (!init_libTMCG())
		return 2;
	MuteCerr mute;
	seed = mcenv::env_seed();
	thorough = (A.tier == "thorough") && !A.has("quickbounds");   // --quickbounds: quick alphabet inside a thorough run (ASan pass)
	std::string family = A.get("family", "mixv");
	if (family == "mixv") fam_mixv();
	else if (family == "mixq") fam_mixq();
	else if (family == "big") fam_big();
	else if (family == "gen") fam_gen();
	else if (family == "import") fam_import();
	else if (family == "glue") fam_glue();
	else
	{
		fprintf(stderr, "unknown family %s\n", family.c_str());
		return 2;
	}
	mcenv::cur = nullptr;
	rep.bound = family + (thorough ? " (thorough bounds, see header)" : " (quick bounds, see header)");
	rep.finish();
	delete POOL;
	return 0;
}
