// drivers/c03_bigalloc.hh — include in exactly one translation unit of a driver executable.
//
// TMCG_StackSecret's stream operator allocates a line buffer of TMCG_MAX_STACK_CHARS (about 670 MB) for every stack
// secret it reads, i.e. once per cut-and-choose round.  glibc serves that with mmap/munmap, and unmapping such a region
// costs 0.3-0.6 ms of kernel time here (TLB shoot-down across the harness threads), which dominated the cut-and-choose
// families.  This replaces the global array new/delete so that requests >= 64 MB are served from a small pool of
// regions that are kept for the life of the process.  Nothing observable changes for the library: a fresh `new char[n]`
// is uninitialised memory either way (the first byte is cleared on reuse for good measure).
#ifndef C03_BIGALLOC_HH
#define C03_BIGALLOC_HH
#if !defined(__SANITIZE_ADDRESS__)
#include <cstdlib>
#include <new>
#include <mutex>
#include <vector>
namespace c3big {
struct Block { void *p; size_t n; bool used; };
inline std::mutex &mu() { static std::mutex m; return m; }
inline std::vector<Block> &pool() { static std::vector<Block> v; return v; }
const size_t BIG = 64UL << 20;
inline void *get(size_t n)
{
	std::lock_guard<std::mutex> lk(mu());
	std::vector<Block> &P = pool();
	for (size_t i = 0; i < P.size(); i++)
		if (!P[i].used && P[i].n >= n) { P[i].used = true; *(char *)P[i].p = 0; return P[i].p; }
	void *p = malloc(n);
	if (!p) throw std::bad_alloc();
	Block b = {p, n, true};
	P.push_back(b);
	return p;
}
inline bool put(void *p)
{
	std::lock_guard<std::mutex> lk(mu());
	std::vector<Block> &P = pool();
	for (size_t i = 0; i < P.size(); i++)
		if (P[i].p == p) { P[i].used = false; return true; }
	return false;
}
}
void *operator new[](size_t n)
{
	if (n >= c3big::BIG) return c3big::get(n);
	void *p = malloc(n ? n : 1);
	if (!p) throw std::bad_alloc();
	return p;
}
void operator delete[](void *p) noexcept { if (p && !c3big::put(p)) free(p); }
void operator delete[](void *p, size_t) noexcept { if (p && !c3big::put(p)) free(p); }
#endif
#endif
