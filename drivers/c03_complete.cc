// C03 — completeness: an honest proof is always accepted.
//
// Enumerated (catalogue: drivers/c03_protocols.hh, specs(3, tier, family)): every verifiable operation of the public API
//   key share (NIZK / interactive / public coin), masking, re-masking, decryption share (VTMF level and through
//   SchindelhauerTMCG), CP and OR proofs directly, the quadratic-residue encoding (mask card, card secret),
//   stack equality by cut-and-choose (both encodings, permutation and cyclic, kappa in {0,1,2,8,16}; 80 once in thorough),
//   Groth SKC / VSSHE and Hoogh et al. VRHE in interactive, public-coin and non-interactive form, directly and through
//   the TMCG_*Groth*/TMCG_*Hoogh* wrappers, Pedersen and trapdoor commitments, the two-party coin flip, Rabin keys
// x groups {Schnorr 256/160, Schnorr 512/192, QR (safe prime) 256; the library default 2048/256 once in thorough}
// x l_e in {8,16,32,64} with |q| >= 2 l_e + 64 (public coin: 64, non-interactive: 32,64 — see le_ok in the catalogue),
//   commitment size n and n+1, default l_e = 80 at 2048/256 once in thorough
// x stack size n in 2..4 with every permutation, every rotation (n <= 6 for cut-and-choose and VRHE-NI), card types
// x coin seeds per cell: quick 4-16, thorough 16-128 (1 for the default-size and kappa = 80 cells).
// Bound per tier: quick ~7 500 protocol runs, thorough ~70 000.  Coins come from mcenv coin sources (replayable).
//
// Interactive variants: prover and verifier as two coroutines on one thread (c03_core.hh run_inter_co; the same
// execution as two threads over mc/wire.hh, which C3_TRANSPORT=threads and the ASan build select); non-interactive
// ones through a std::stringstream.  Oracle: the verifier returns true, neither side throws, no stall, and the
// protocol-specific post-condition holds (common key updated to h_i*h_j, decryption recovers the message,
// TMCG_TypeOfCard returns the type, the revealed QR bits equal the owner's, both parties of the coin flip hold the
// same coin, the imported Rabin key passes check() and verifies the owner's signature but not another message).
// Every accepted transcript is hashed; distinct_nontrivial = number of distinct accepted transcripts with >= 1 line.
#include "c03_protocols.hh"
#include "c03_bigalloc.hh"
using namespace drv;
using namespace c3;

int main(int argc, char **argv)
{
	Args A = parse(argc, argv);
	Report R(A);
	if (!init_libTMCG()) return 2;
	MuteCerr mute;
	std::string fam = A.get("family", "");
	if (A.has("as")) A.tier = A.get("as");      // run the (smaller) catalogue of another tier, e.g. the ASan pass of the thorough tier
	std::vector<Spec> S;
	try { S = specs(3, A.tier, fam); }
	catch (std::exception &e) { printf("{\"t\":\"error\",\"what\":\"%s\"}\n", jesc(e.what()).c_str()); return 2; }
	R.bound = "family=" + fam + " cells=" + str(S.size());
	R.max_samples = 3;
	std::set<uint64_t> seen;
	uint64_t runs = 0, lines = 0, mycells = 0;
	for (size_t si = 0; si < S.size(); si++)
	{
		bool mine = R.mine();
		if (!mine || !R.selected(S[si].id)) continue;
		if (R.out_of_time()) break;
		printf("{\"t\":\"at\",\"case\":\"%s\"}\n", jesc(S[si].id).c_str());
		fflush(stdout);
		mycells++;
		CellP c;
		try { c = S[si].make(); }
		catch (std::exception &e) { printf("{\"t\":\"error\",\"what\":\"make %s: %s\"}\n", jesc(S[si].id).c_str(), jesc(e.what()).c_str()); continue; }
		for (unsigned s = 0; s < S[si].seeds; s++)
		{
			uint64_t seed = cell_seed(S[si].id, s);
			std::string caseid = S[si].id;
			RunOut o;
			std::string why;
			try
			{
				c->prepare(seed);
				if (c->reset) c->reset();
				if (c->inter)
					o = run_inter(c->prover, c->verifier, seed, NULL);
				else
				{
					std::vector<std::string> proof;
					std::string what;
					bool pok = run_ni_prove(c->prover, seed, proof, what);
					o = run_ni_verify(c->verifier, proof, seed, NULL);
					o.p_ok = pok;
					if (!what.empty()) { o.p_std = true; o.p_what = what; }
				}
			}
			catch (std::exception &e)
			{
				R.viol("c03/" + c->family + "/setup-exception", std::string("building the true statement threw: ") + e.what() + " seed#" + str(s), caseid);
				R.ok(false);
				continue;
			}
			if (o.timeout && !o.deadlock)
			{	// a reader waited longer than the real-time guard although the peer was not blocked: machine load, not a verdict
				printf("{\"t\":\"error\",\"what\":\"real-time guard fired in %s (machine too slow?)\"}\n", jesc(caseid).c_str());
				continue;
			}
			runs++;
			lines += o.pv.size() + o.vp.size();
			bool ok = o.accept && !o.v_std && !o.v_other && !o.p_std && !o.p_other && o.p_ok && !o.timeout && !o.deadlock;
			if (ok && c->post && !c->post(why)) ok = false;
			std::string tr;
			for (size_t i = 0; i < o.pv.size(); i++) tr += o.pv[i] + "\n";
			tr += "#";
			for (size_t i = 0; i < o.vp.size(); i++) tr += o.vp[i] + "\n";
			bool fresh = seen.insert(fnv(tr) ^ fnv(c->family)).second;
			R.ok(ok && fresh && !o.pv.empty());
			if (!ok)
				R.viol("c03/" + c->family + "/honest-rejected", "honest proof not accepted: " + o.brief() + (why.empty() ? "" : " post: " + why) + " seed#" + str(s), caseid);
			if (s == 0)
				R.sample(caseid, c->family + ": " + o.brief() + (o.pv.empty() ? "" : " first line " + o.pv[0].substr(0, 24)));
		}
	}
	R.counters["protocol_runs"] = runs;
	R.counters["transcript_lines"] = lines;
	R.counters["cells"] = mycells;
	R.finish();
	return 0;
}
