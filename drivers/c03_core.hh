// drivers/c03_core.hh — shared core of the C03 (completeness) and C05 (binding) drivers.
//
//  * Z            : RAII mpz value
//  * Kind / Tag   : what a transmitted line (or a token of a structured line, or a public input) *is* for the protocol
//                   (group element mod p, exponent mod q, hash value, bit, ...).  Tags are assigned by the protocol
//                   catalogue (c03_protocols.hh) in the order the prover code writes the lines.
//  * catalogue()  : the fixed mutation catalogue per position kind (v+1, 2v+3, 0, 1, p-1, p, q, v+q, v+p, p-v, -v, v-q,
//                   2^4096, oversized digit string) and expect(): the exact, deliberately asymmetric C05 oracle
//                       non-equivalent value                           -> verifier must not accept   (REJECT)
//                       equivalent but outside the range the protocol prescribes (v+p, v+q) -> must be refused (REFUSE)
//                       equivalent representation the protocol does not range-restrict     -> unconstrained (FREE)
//  * run_inter()  : prover <-> verifier on two threads over wire::Duplex, with a man-in-the-middle relay that applies
//                   one mutation (replace / swap with next / truncate after) to one line of one direction, and a
//                   watchdog that turns a mutual wait (both parties blocked reading, nothing in flight) into EOF at
//                   once instead of waiting for the 20 s guard of wire.hh.
//  * run_ni()     : non-interactive proofs through std::stringstream; the verifier alone is replayed on mutated text.
#ifndef C03_CORE_HH
#define C03_CORE_HH
#include "drv.hh"
#include "wire.hh"
#include <libTMCG.hh>
#include <atomic>
#include <ucontext.h>
#include <memory>
#include <algorithm>

namespace c3 {

// ------------------------------------------------------------------------------------------------ values
struct Z {
	mpz_t v;
	Z() { mpz_init(v); }
	Z(const Z &o) { mpz_init_set(v, o.v); }
	explicit Z(unsigned long u) { mpz_init_set_ui(v, u); }
	explicit Z(mpz_srcptr s) { mpz_init_set(v, s); }
	~Z() { mpz_clear(v); }
	Z &operator=(const Z &o) { if (this != &o) mpz_set(v, o.v); return *this; }
	operator mpz_ptr() { return v; }
	operator mpz_srcptr() const { return v; }
	std::string str(int base = TMCG_MPZ_IO_BASE) const
	{
		char *s = mpz_get_str(NULL, base, v);
		std::string r(s);
		void (*freefunc)(void *, size_t);
		mp_get_memory_functions(NULL, NULL, &freefunc);
		freefunc(s, strlen(s) + 1);
		return r;
	}
	bool parse(const std::string &s, int base = TMCG_MPZ_IO_BASE)
	{
		if (s.empty()) return false;
		for (size_t i = 0; i < s.size(); i++)
			if (isspace((unsigned char)s[i])) return false;
		return mpz_set_str(v, s.c_str(), base) == 0;
	}
};

inline std::string zs(mpz_srcptr a) { Z t(a); return t.str(); }

// ------------------------------------------------------------------------------------------------ kinds and tags
enum Kind {
	K_ELEM,    // element of the order-q subgroup mod p; the protocol requires 0 < v < p and membership
	K_COM,     // Pedersen-type commitment: element mod p, the protocol requires c in C_ck (the group); range 0 < c < p
	K_EXP,     // exponent, meaningful mod q; the protocol does not range-restrict it
	K_EXPR,    // exponent mod q that the protocol requires to lie below q (v+q must be refused; v-q unconstrained)
	K_EXACT,   // hash value / anything that is compared or hashed as the literal integer: no equivalent representation
	K_CHLE,    // challenge that both sides reduce to l_e bits (mpz_tdiv_r_2exp) before use
	K_BIT,     // only the parity is used (mpz_get_ui(x) & 1)
	K_CNT,     // decimal counter inside structured text (sizes, indices): literal
	K_KAPPA,   // the verifier's security parameter as sent to the prover: the verifier performs its own kappa rounds,
	           // so a larger value on the prover's side is not noticed; a smaller one starves the verifier
	K_ROOT,    // root modulo a Rabin modulus m: only v^2 mod m matters (v = 1 is refused on top)
	K_MODM,    // residue modulo a Rabin modulus m (checked with mpz_congruent_p)
	K_TEXT,    // opaque literal text (magic strings, names, key ids)
	K_STRUCT   // structured text: '^' / '|' separated tokens, each with its own tag
};

inline const char *kind_name(Kind k)
{
	static const char *n[] = {"elem", "com", "exp", "expr", "exact", "chle", "bit", "cnt", "kappa", "root", "modm", "text", "struct"};
	return n[k];
}

struct Tag {
	Kind k;
	std::string what;         // stable label of the position ("c_d", "f", "z", "flip.a" ...)
	const Z *P, *Q;           // moduli the kind refers to (p and q of the group; P = Rabin modulus for K_ROOT/K_MODM)
	unsigned le;              // K_CHLE: number of bits
	bool covered;             // false: a non-equivalent change is not certain to be noticed (cut-and-choose round
	                          // whose challenge does not look at this position) -> nothing is asserted
	std::vector<Tag> toks;    // K_STRUCT
	std::string weak;         // root-cause label for finding keys: positions whose membership ("order2"), range
	                          // ("norange") or sign ("negexp") handling is a distinct library mechanism
	Tag() : k(K_EXACT), P(NULL), Q(NULL), le(0), covered(true) {}
	Tag(Kind kk, const std::string &w, const Z *p = NULL, const Z *q = NULL, unsigned l = 0)
		: k(kk), what(w), P(p), Q(q), le(l), covered(true) {}
};

// tokens of a structured line: split at '^' and '|', delimiters kept so that join() reproduces the line
struct Toks {
	std::vector<std::string> tok;
	std::vector<char> delim;   // delimiter after tok[i] (0 = end of line)
	explicit Toks(const std::string &s)
	{
		std::string cur;
		for (size_t i = 0; i < s.size(); i++)
		{
			if (s[i] == '^' || s[i] == '|') { tok.push_back(cur); delim.push_back(s[i]); cur.clear(); }
			else cur += s[i];
		}
		if (!cur.empty()) { tok.push_back(cur); delim.push_back(0); }
	}
	std::string join() const
	{
		std::string r;
		for (size_t i = 0; i < tok.size(); i++) { r += tok[i]; if (delim[i]) r += delim[i]; }
		return r;
	}
};

// ------------------------------------------------------------------------------------------------ mutation catalogue
enum Expect { X_REJECT, X_REFUSE, X_FREE, X_SKIP };

struct MutV { std::string name, text; Expect ex; std::string cls; };

// x_eff of a challenge that is reduced with mpz_tdiv_r_2exp (truncating: keeps the sign)
inline void chle_eff(Z &r, const Z &v, unsigned le) { mpz_tdiv_r_2exp(r, v, le); }

// exact oracle: what must happen when the value v at a position tagged t is replaced by w
inline Expect expect(const Tag &t, const Z &v, const Z &w, std::string &cls)
{
	cls = "nonequiv";
	if (!mpz_cmp(v, w)) return X_SKIP;
	Z a, b;
	bool eq = false;
	switch (t.k)
	{
		case K_ELEM: case K_COM:
			eq = mpz_congruent_p(v, w, *t.P) != 0;
			break;
		case K_EXP: case K_EXPR:
			eq = mpz_congruent_p(v, w, *t.Q) != 0;
			break;
		case K_CHLE:
			chle_eff(a, v, t.le), chle_eff(b, w, t.le);
			eq = mpz_congruent_p(a, b, *t.Q) != 0;
			break;
		case K_BIT:
			eq = (mpz_get_ui(v) & 1UL) == (mpz_get_ui(w) & 1UL);
			break;
		case K_ROOT:
			mpz_mul(a, v, v), mpz_mul(b, w, w);
			eq = mpz_congruent_p(a, b, *t.P) != 0;
			break;
		case K_MODM:
			eq = mpz_congruent_p(v, w, *t.P) != 0;
			break;
		default:
			eq = false;
	}
	if (!eq)
	{
		if (!t.covered) return X_FREE;
		if ((t.k == K_ELEM || t.k == K_COM) && mpz_sgn(w.v) > 0 && mpz_cmp(w, *t.P) < 0)
		{
			// in range: is it a member of the order-q subgroup?
			mpz_powm(a, w, *t.Q, *t.P);
			if (mpz_cmp_ui(a.v, 1UL)) cls = "nonmember";
		}
		return X_REJECT;
	}
	// equivalent representation, different integer
	if (t.k == K_ELEM || t.k == K_COM) { cls = "range"; return X_REFUSE; }   // v in [1,p-1], w == v mod p, w != v  =>  w outside
	if (t.k == K_EXPR && mpz_cmp(w, *t.Q) >= 0) { cls = "range"; return X_REFUSE; }
	return X_FREE;
}

// the catalogue for one numeric position.  p, q: the moduli used to build p-1, p, q, v+q, v+p, p-v, v-q
inline void catalogue(const Tag &t, const std::string &orig, const Z &cp, const Z &cq, std::vector<MutV> &out)
{
	int base = (t.k == K_CNT || t.k == K_KAPPA) ? 10 : TMCG_MPZ_IO_BASE;
	Z v;
	if (!v.parse(orig, base)) return;
	const Z &p = (t.P ? *t.P : cp), &q = (t.Q ? *t.Q : cq);
	struct { const char *n; Z w; } c[14];
	int k = 0;
	c[k].n = "v+1"; mpz_add_ui(c[k].w, v, 1); k++;
	c[k].n = "2v+3"; mpz_mul_2exp(c[k].w, v, 1); mpz_add_ui(c[k].w, c[k].w, 3); k++;
	c[k].n = "0"; mpz_set_ui(c[k].w, 0); k++;
	c[k].n = "1"; mpz_set_ui(c[k].w, 1); k++;
	c[k].n = "p-1"; mpz_sub_ui(c[k].w, p, 1); k++;
	c[k].n = "p"; mpz_set(c[k].w, p); k++;
	c[k].n = "q"; mpz_set(c[k].w, q); k++;
	c[k].n = "v+q"; mpz_add(c[k].w, v, q); k++;
	c[k].n = "v+p"; mpz_add(c[k].w, v, p); k++;
	c[k].n = "p-v"; mpz_sub(c[k].w, p, v); k++;
	c[k].n = "-v"; mpz_neg(c[k].w, v); k++;
	c[k].n = "v-q"; mpz_sub(c[k].w, v, q); k++;
	c[k].n = "2^4096"; mpz_set_ui(c[k].w, 1); mpz_mul_2exp(c[k].w, c[k].w, 4096); k++;
	for (int i = 0; i < k; i++)
	{
		MutV m;
		m.name = c[i].n;
		m.text = c[i].w.str(base);
		m.ex = expect(t, v, c[i].w, m.cls);
		if (t.k == K_CNT || t.k == K_EXACT) { if (mpz_cmp(v, c[i].w)) m.ex = t.covered ? X_REJECT : X_FREE; }
		if (t.k == K_KAPPA && m.ex != X_SKIP)
			m.ex = (t.covered && mpz_sgn(c[i].w.v) >= 0 && mpz_cmp(c[i].w, v) < 0) ? X_REJECT : X_FREE;   // strtoul semantics for the rest
		if (m.ex != X_SKIP) out.push_back(m);
	}
	// a digit string longer than the library's line buffer (TMCG_MAX_VALUE_CHARS): cannot be a value of the protocol
	MutV h;
	h.name = "oversized";
	h.text = std::string(TMCG_MAX_VALUE_CHARS + 64, '7');
	// asserted only where every huge value is out of range or compared literally; where only a residue / parity is
	// used the (truncated) digit string may well be an equivalent value
	bool strict = (t.k == K_ELEM || t.k == K_COM || t.k == K_EXPR || t.k == K_EXACT || t.k == K_CNT);
	h.ex = (t.covered && strict) ? X_REJECT : X_FREE;
	h.cls = "oversized";
	out.push_back(h);
}

inline void catalogue_text(const Tag &t, const std::string &orig, std::vector<MutV> &out)
{
	const char *names[3] = {"text+x", "text-empty", "text-x"};
	std::string v[3] = {orig + "x", "", "x"};
	for (int i = 0; i < 3; i++)
	{
		if (v[i] == orig) continue;
		MutV m;
		m.name = names[i], m.text = v[i], m.ex = t.covered ? X_REJECT : X_FREE, m.cls = "nonequiv";
		out.push_back(m);
	}
}

// ------------------------------------------------------------------------------------------------ runs
enum MutOp { M_NONE, M_REPLACE, M_SWAP_NEXT, M_TRUNC_AFTER };
struct Mut {
	MutOp op; int dir; size_t idx; std::string text;
	Mut() : op(M_NONE), dir(0), idx(0) {}
};

struct RunOut {
	bool accept;                    // the verifier role returned true
	bool v_std, v_other, p_ok, p_std, p_other, timeout, deadlock;
	std::string v_what, p_what;
	std::vector<std::string> pv, vp;    // lines as written by prover / verifier (before the relay)
	RunOut() : accept(false), v_std(false), v_other(false), p_ok(false), p_std(false), p_other(false), timeout(false), deadlock(false) {}
	std::string brief() const
	{
		std::ostringstream o;
		o << "accept=" << accept << " v_std=" << v_std << "(" << v_what << ") v_other=" << v_other << " p_ok=" << p_ok
			<< " p_std=" << p_std << "(" << p_what << ") p_other=" << p_other << " timeout=" << timeout << " deadlock=" << deadlock
			<< " lines=" << pv.size() << "/" << vp.size();
		return o.str();
	}
};

typedef std::function<bool(std::iostream &)> Role;

// A streambuf in front of a Duplex end that publishes, exactly, "this party is blocked reading":
// under the pipe lock it notes that its inbound pipe is empty (and how many lines had been forwarded so far) before it
// calls the blocking read.  The party is blocked  <=>  flag set, no line forwarded since, buffer empty, pipe open.
struct WaitState { std::atomic<int> waiting; std::atomic<size_t> fwd; WaitState() : waiting(0), fwd(0) {} };
class FlagBuf : public std::streambuf {
	std::streambuf *inner;
	wire::Pipe *in;
	WaitState *ws;
	char ch;
public:
	FlagBuf(std::streambuf *i, wire::Pipe *p, WaitState *w) : inner(i), in(p), ws(w), ch(0) { setg(&ch, &ch, &ch); }
protected:
	int_type underflow() override
	{
		if (gptr() < egptr()) return traits_type::to_int_type(*gptr());
		{
			std::unique_lock<std::mutex> lk(in->sh->mu);
			if (in->buf.empty() && !in->closed) { ws->fwd.store(in->forwarded.size()); ws->waiting.store(1); }
		}
		int_type c = inner->sbumpc();
		ws->waiting.store(0);
		if (traits_type::eq_int_type(c, traits_type::eof())) return c;
		ch = traits_type::to_char_type(c);
		setg(&ch, &ch, &ch + 1);
		return c;
	}
	int_type overflow(int_type c) override { return traits_type::eq_int_type(c, traits_type::eof()) ? c : inner->sputc(traits_type::to_char_type(c)); }
	std::streamsize xsputn(const char *s, std::streamsize n) override { return inner->sputn(s, n); }
	int sync() override { return 0; }
};

inline bool blocked_locked(const WaitState &w, const wire::Pipe &p)
{
	return w.waiting.load() && p.forwarded.size() == w.fwd.load() && p.buf.empty() && !p.closed;
}

// prover = side A (direction 0 = prover -> verifier), verifier = side B (direction 1)
inline RunOut run_inter_threads(const Role &prover, const Role &verifier, uint64_t seed, const Mut *mut)
{
	RunOut r;
	wire::Duplex d;
	d.sh.logging = false;
	WaitState wa, wb;
	std::atomic<int> done(0), dead(0);
	struct MS { bool holding; std::string held; bool cut; } ms = {false, "", false};
	if (mut && mut->op != M_NONE)
	{
		Mut m = *mut;
		wire::Duplex *dp = &d;
		MS *msp = &ms;
		d.set_relay([m, dp, msp](int dir, size_t idx, const std::string &line) -> std::vector<std::string> {
			std::vector<std::string> out;
			if (dir != m.dir) { out.push_back(line); return out; }
			switch (m.op)
			{
				case M_REPLACE:
					out.push_back(idx == m.idx ? m.text : line);
					break;
				case M_SWAP_NEXT:
					if (idx == m.idx) { msp->holding = true; msp->held = line; }
					else if (idx == m.idx + 1) { out.push_back(line); out.push_back(msp->held); msp->holding = false; }
					else out.push_back(line);
					break;
				case M_TRUNC_AFTER:
					if (idx <= m.idx) out.push_back(line);
					else if (!msp->cut) { msp->cut = true; (dir == 0 ? dp->ab : dp->ba).close(); }
					break;
				default:
					out.push_back(line);
			}
			return out;
		});
	}
	std::thread wd([&]() {
		while (!done.load())
		{
			bool dl = false;
			{
				std::unique_lock<std::mutex> lk(d.sh.mu);
				// A (prover) reads pipe ba, B (verifier) reads pipe ab
				dl = blocked_locked(wa, d.ba) && blocked_locked(wb, d.ab);
			}
			if (dl) { dead.store(1); d.ab.close(); d.ba.close(); }
			std::this_thread::sleep_for(std::chrono::microseconds(100));
		}
	});
	wire::Outcome o = wire::run2(d,
		[&](std::iostream &s) { FlagBuf fb(s.rdbuf(), &d.ba, &wa); std::iostream fs(&fb); return prover(fs); },
		[&](std::iostream &s) { FlagBuf fb(s.rdbuf(), &d.ab, &wb); std::iostream fs(&fb); return verifier(fs); },
		seed);
	done.store(1);
	wd.join();
	r.accept = o.b_ok && !o.b_threw;
	r.v_std = o.b_threw && o.b_what != "non-std exception";
	r.v_other = o.b_threw && o.b_what == "non-std exception";
	r.v_what = o.b_what;
	r.p_ok = o.a_ok;
	r.p_std = o.a_threw && o.a_what != "non-std exception";
	r.p_other = o.a_threw && o.a_what == "non-std exception";
	r.p_what = o.a_what;
	r.timeout = o.timeout;
	r.deadlock = dead.load() != 0;
	r.pv = d.ab.sent, r.vp = d.ba.sent;
	return r;
}

// ------------------------------------------------------------------------------------------------ coroutine transport
// The same two-party run on ONE thread: prover and verifier are coroutines (ucontext); a read on an empty pipe switches
// to the peer.  A two-party blocking message-passing program is confluent, so this is the same execution as the
// two-thread one of wire.hh, but it does not depend on the kernel scheduler (the box is shared and loaded), is ~10x
// faster, and detects a mutual wait exactly and immediately.  Default transport; C3_TRANSPORT=threads selects wire.hh.
struct CoRun;
class CoBuf : public std::streambuf {
	CoRun *R;
	int side;
	char ibuf[1];
public:
	CoBuf(CoRun *r, int s) : R(r), side(s) { setg(ibuf, ibuf, ibuf); }
protected:
	int_type underflow() override;
	int_type overflow(int_type c) override;
	std::streamsize xsputn(const char *s, std::streamsize n) override;
	int sync() override { return 0; }
};

struct CoPipe {
	std::deque<char> buf;
	std::string partial;
	bool closed;
	size_t nlines;
	std::vector<std::string> sent;
	CoPipe() : closed(false), nlines(0) {}
};

struct CoRun {
	ucontext_t mainctx, ctx[2];
	char *stack[2];
	bool started[2], finished[2], waiting[2], deadlock;
	CoPipe pipe[2];                 // pipe[0]: A -> B, pipe[1]: B -> A
	const Role *role[2];
	bool ok[2], threw[2];
	std::string what[2];
	mcenv::CoinSource *cs[2];
	const Mut *mut;
	bool holding, cut;
	std::string held;
	CoBuf bufA, bufB;
	std::iostream sA, sB;
	static const size_t STACK = 1 << 20;
	CoRun() : deadlock(false), mut(NULL), holding(false), cut(false), bufA(this, 0), bufB(this, 1), sA(&bufA), sB(&bufB)
	{
		for (int i = 0; i < 2; i++) started[i] = finished[i] = waiting[i] = ok[i] = threw[i] = false, stack[i] = NULL;
	}
	void push(int dir, const std::string &l) { CoPipe &p = pipe[dir]; for (size_t i = 0; i < l.size(); i++) p.buf.push_back(l[i]); p.buf.push_back('\n'); }
	void line(int dir, const std::string &l)
	{
		CoPipe &p = pipe[dir];
		p.sent.push_back(l);
		size_t idx = p.nlines++;
		if (!mut || mut->op == M_NONE || mut->dir != dir) { push(dir, l); return; }
		switch (mut->op)
		{
			case M_REPLACE: push(dir, idx == mut->idx ? mut->text : l); break;
			case M_SWAP_NEXT:
				if (idx == mut->idx) { holding = true; held = l; }
				else if (idx == mut->idx + 1) { push(dir, l); push(dir, held); holding = false; }
				else push(dir, l);
				break;
			case M_TRUNC_AFTER:
				if (idx <= mut->idx) push(dir, l);
				else p.closed = true;
				break;
			default: push(dir, l);
		}
	}
	void write(int side, const char *s, size_t n)
	{
		CoPipe &p = pipe[side];   // side 0 writes pipe[0]
		for (size_t i = 0; i < n; i++)
		{
			if (s[i] != '\n') { p.partial += s[i]; continue; }
			std::string l = p.partial;
			p.partial.clear();
			line(side, l);
		}
	}
	void switch_to(int from, int to)   // from/to: 0,1 or -1 = main
	{
		ucontext_t *f = from < 0 ? &mainctx : &ctx[from], *t = to < 0 ? &mainctx : &ctx[to];
		if (to >= 0) mcenv::cur = cs[to];
		swapcontext(f, t);
		if (from >= 0) mcenv::cur = cs[from];
	}
	// blocking read of one char for `side`; returns false on EOF
	bool read1(int side, char &c)
	{
		CoPipe &in = pipe[1 - side];
		int peer = 1 - side;
		while (in.buf.empty() && !in.closed)
		{
			waiting[side] = true;
			if (finished[peer]) { in.closed = true; break; }
			if (waiting[peer] && pipe[side].buf.empty() && !pipe[side].closed && started[peer])
			{
				// the peer is blocked reading from us and nothing is in flight: mutual wait
				deadlock = true;
				pipe[0].closed = pipe[1].closed = true;
				break;
			}
			switch_to(side, peer);
		}
		waiting[side] = false;
		if (in.buf.empty()) return false;
		c = in.buf.front();
		in.buf.pop_front();
		return true;
	}
	void body(int side)
	{
		try { ok[side] = (*role[side])(side == 0 ? sA : sB); }
		catch (std::exception &e) { threw[side] = true; what[side] = e.what(); }
		catch (...) { threw[side] = true; what[side] = "non-std exception"; }
		finished[side] = true;
		CoPipe &out = pipe[side];
		if (!out.partial.empty()) { for (size_t i = 0; i < out.partial.size(); i++) out.buf.push_back(out.partial[i]); out.partial.clear(); }
		out.closed = true;
		int peer = 1 - side;
		if (!finished[peer]) switch_to(side, peer);   // never resumed again
		switch_to(side, -1);
	}
};

inline CoBuf::int_type CoBuf::underflow()
{
	if (gptr() < egptr()) return traits_type::to_int_type(*gptr());
	char c;
	if (!R->read1(side, c)) return traits_type::eof();
	ibuf[0] = c;
	setg(ibuf, ibuf, ibuf + 1);
	return traits_type::to_int_type(c);
}
inline CoBuf::int_type CoBuf::overflow(int_type c)
{
	if (!traits_type::eq_int_type(c, traits_type::eof())) { char ch = traits_type::to_char_type(c); R->write(side, &ch, 1); }
	return c;
}
inline std::streamsize CoBuf::xsputn(const char *s, std::streamsize n) { R->write(side, s, (size_t)n); return n; }

static thread_local CoRun *co_current = NULL;
static void co_entry(int side) { co_current->body(side); }

inline char *co_stack(int i)
{
	static thread_local char *st[2] = {NULL, NULL};
	if (!st[i]) st[i] = (char *)malloc(CoRun::STACK);
	return st[i];
}

inline RunOut run_inter_co(const Role &prover, const Role &verifier, uint64_t seed, const Mut *mut)
{
	RunOut r;
	CoRun R;
	mcenv::CoinSource csA(seed, 101), csB(seed, 202);
	R.cs[0] = &csA, R.cs[1] = &csB;
	R.role[0] = &prover, R.role[1] = &verifier;
	R.mut = mut;
	mcenv::CoinSource *old = mcenv::cur;
	co_current = &R;
	for (int i = 0; i < 2; i++)
	{
		getcontext(&R.ctx[i]);
		R.ctx[i].uc_stack.ss_sp = co_stack(i);
		R.ctx[i].uc_stack.ss_size = CoRun::STACK;
		R.ctx[i].uc_link = &R.mainctx;
		makecontext(&R.ctx[i], (void (*)())co_entry, 1, i);
	}
	R.started[0] = R.started[1] = true;
	R.switch_to(-1, 0);
	// back in main: a side finished while the other one had finished already, or (defensive) both are stuck
	for (int guard = 0; guard < 4 && !(R.finished[0] && R.finished[1]); guard++)
	{
		R.pipe[0].closed = R.pipe[1].closed = true;
		R.deadlock = true;
		int s = R.finished[0] ? 1 : 0;
		R.switch_to(-1, s);
	}
	mcenv::cur = old;
	co_current = NULL;
	r.accept = R.ok[1] && !R.threw[1];
	r.v_std = R.threw[1] && R.what[1] != "non-std exception";
	r.v_other = R.threw[1] && R.what[1] == "non-std exception";
	r.v_what = R.what[1];
	r.p_ok = R.ok[0];
	r.p_std = R.threw[0] && R.what[0] != "non-std exception";
	r.p_other = R.threw[0] && R.what[0] == "non-std exception";
	r.p_what = R.what[0];
	r.deadlock = R.deadlock;
	r.pv = R.pipe[0].sent, r.vp = R.pipe[1].sent;
	return r;
}

inline RunOut run_inter(const Role &prover, const Role &verifier, uint64_t seed, const Mut *mut)
{
	static int threads = -1;
	if (threads < 0) { const char *e = getenv("C3_TRANSPORT"); threads = (e && !strcmp(e, "threads")) ? 1 : 0; }
#if defined(__SANITIZE_ADDRESS__)
	threads = 1;   // ASan does not follow ucontext stack switches (exceptions on a coroutine stack give false reports)
#endif
	return threads ? run_inter_threads(prover, verifier, seed, mut) : run_inter_co(prover, verifier, seed, mut);
}

inline std::vector<std::string> split_lines(const std::string &s)
{
	std::vector<std::string> v;
	std::string cur;
	for (size_t i = 0; i < s.size(); i++)
	{
		if (s[i] == '\n') { v.push_back(cur); cur.clear(); }
		else cur += s[i];
	}
	if (!cur.empty()) v.push_back(cur);
	return v;
}

inline std::string apply_ni(const std::vector<std::string> &lines, const Mut *mut)
{
	std::vector<std::string> l = lines;
	if (mut)
	{
		switch (mut->op)
		{
			case M_REPLACE: l[mut->idx] = mut->text; break;
			case M_SWAP_NEXT: std::swap(l[mut->idx], l[mut->idx + 1]); break;
			case M_TRUNC_AFTER: l.resize(mut->idx + 1); break;
			default: break;
		}
	}
	std::string s;
	for (size_t i = 0; i < l.size(); i++) s += l[i] + "\n";
	return s;
}

// non-interactive: `proof` = the lines the prover wrote; run the verifier alone on the (mutated) text
inline RunOut run_ni_verify(const Role &verifier, const std::vector<std::string> &proof, uint64_t seed, const Mut *mut)
{
	RunOut r;
	r.pv = proof;
	std::stringstream in(apply_ni(proof, mut));
	mcenv::CoinSource cs(seed, 202);
	mcenv::CoinSource *old = mcenv::cur;
	mcenv::cur = &cs;
	try { r.accept = verifier(in); }
	catch (std::exception &e) { r.v_std = true; r.v_what = e.what(); }
	catch (...) { r.v_other = true; r.v_what = "non-std exception"; }
	mcenv::cur = old;
	return r;
}

inline bool run_ni_prove(const Role &prover, uint64_t seed, std::vector<std::string> &proof, std::string &what)
{
	std::stringstream out;
	mcenv::CoinSource cs(seed, 101);
	mcenv::CoinSource *old = mcenv::cur;
	mcenv::cur = &cs;
	bool ok = false;
	try { ok = prover(out); }
	catch (std::exception &e) { what = std::string("std: ") + e.what(); }
	catch (...) { what = "non-std exception"; }
	mcenv::cur = old;
	proof = split_lines(out.str());
	return ok;
}

// fnv hash for counting distinct transcripts
inline uint64_t fnv(const std::string &s, uint64_t h = 1469598103934665603ULL)
{
	for (size_t i = 0; i < s.size(); i++) { h ^= (unsigned char)s[i]; h *= 1099511628211ULL; }
	return h;
}

}
#endif
