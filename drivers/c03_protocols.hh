// drivers/c03_protocols.hh — the protocol catalogue shared by C03 (completeness) and C05 (binding).
//
// A Cell is one (protocol variant, parameters, statement) instance: it knows how to build a true statement with the
// real library code (prepare), how to run the honest prover and the verifier entry points (roles), how to undo the
// verifier's state (reset), which extra facts must hold after acceptance (post), what every transmitted line *is*
// (tags: derived from the prover code, in the order the lines are written) and which public inputs the verifier is
// called with (pubins: pointers into the *verifier's own copies*, never shared with the prover).
//
// Families (every verifiable operation the public API offers):
//   key-nizk / key-int / key-pc        BarnettSmartVTMF_dlog key share: PublishKey->UpdateKey, interactive, public-coin
//   mask / remask / maskcard-vtmf      VerifiableMasking/Remasking protocol, TMCG_ProveMaskCard(VTMF) (CP with fpowm)
//   decrypt / cardsecret-vtmf          VerifiableDecryptionProtocol, TMCG_ProveCardSecret(VTMF)
//   cp / or1 / or2                     CP_Prove/CP_Verify and OR_ProveFirst/Second/OR_Verify directly
//   maskcard-qr / cardsecret-qr        the quadratic-residue encoding (cut-and-choose, interactive)
//   stack-cc-vtmf / stack-cc-qr        TMCG_ProveStackEquality/VerifyStackEquality (permutation and cyclic)
//   skc-{int,pc,ni}                    GrothSKC (batch verification on/off)
//   vsshe-{int,pc,ni}                  GrothVSSHE directly;  groth-{pc,ni}: through TMCG_*StackEquality_Groth*
//   vrhe-{int,pc,ni}                   HooghSchoenmakersSkoricVillegasVRHE directly; hoogh-{pc,ni}: TMCG_*_Hoogh*
//   pedersen / trapdoor                PedersenCommitmentScheme / PedersenTrapdoorCommitmentScheme Commit -> Verify
//   flip                               JareckiLysyanskayaEDCF::Flip_twoparty, both roles
//   rabin                              TMCG_SecretKey generate -> TMCG_PublicKey import + check (with/without NIZK)
#ifndef C03_PROTOCOLS_HH
#define C03_PROTOCOLS_HH
#include "c03_core.hh"

namespace c3 {

// ------------------------------------------------------------------------------------------------ cells
struct PubIn {
	std::string name;
	mpz_ptr target;            // verifier-side value that is overwritten for the run and restored afterwards (or NULL)
	std::function<void()> sync;                // re-derive dependent state (exponentiation tables) after target changed
	std::function<Z()> getv;                   // custom inputs (the verifier object is rebuilt from a mutated group text)
	std::function<void(const Z &)> setv;
	std::function<void()> restore;
	Tag tag;                   // kind (for the catalogue) and coverage
	std::vector<Z> neighbours; // "neighbour's value": another valid value of the same sort
	int stack, card, comp;     // stack component: stack 1 = s, 2 = s2 (0: not a card component), card index, component 1/2
	bool bound;                // the verifier entry tests this input for group membership itself (CheckElement, which includes the
	                           // range 0 < v < p) or hashes it literally: out-of-range representations (v+p, v+3p, v-p) and order-2
	                           // twists of it must be refused, alone and in pairs
	PubIn() : target(NULL), stack(0), card(0), comp(0), bound(false) {}
	Z get() const { return target ? Z(target) : getv(); }
	void set(const Z &w) { if (target) { mpz_set(target, w); if (sync) sync(); } else setv(w); }
	void undo(const Z &orig) { if (target) { mpz_set(target, orig); if (sync) sync(); } else restore(); }
};

struct Cell {
	std::string id, family;
	bool inter;
	bool symmetric;            // both sides verify (coin flip): side A's verdict is RunOut::p_ok
	Z p, q;                    // group of the cell (defaults of the catalogue)
	unsigned le;
	std::function<void(uint64_t)> prepare;
	Role prover, verifier;
	std::function<void()> reset;
	std::function<bool(std::string &)> post;
	std::function<bool(const RunOut &, std::vector<Tag> &, std::vector<Tag> &)> tags;
	std::function<void(const RunOut &, std::vector<PubIn> &)> pubins;
	std::shared_ptr<void> keep;
	Cell() : inter(false), symmetric(false), le(0) {}
	Tag T(Kind k, const std::string &w) const { return Tag(k, w, &p, &q, le); }
};
typedef std::shared_ptr<Cell> CellP;

inline void with_coins(uint64_t seed, uint64_t party, const std::function<void()> &f)
{
	mcenv::CoinSource cs(seed, party);
	mcenv::CoinSource *old = mcenv::cur;
	mcenv::cur = &cs;
	try { f(); } catch (...) { mcenv::cur = old; throw; }
	mcenv::cur = old;
}

// ------------------------------------------------------------------------------------------------ worlds (cached per process)
struct World {
	unsigned psize, qsize;
	bool qr;
	BarnettSmartVTMF_dlog *A, *B;   // A: prover (player 0), B: verifier (player 1); keys exchanged, common key h
	std::string group_text;
	// life 0: the prover's instance is the one that generated the group, the verifier's is built from PublishGroup;
	// life 1: both instances are stream-constructed from the published text of a third, generating instance
	World(uint64_t seed, unsigned ps, unsigned qs, bool qrgroup, unsigned life = 0) : psize(ps), qsize(qs), qr(qrgroup), A(NULL), B(NULL)
	{
		with_coins(seed, 7000 + ps + qs + (qr ? 1 : 0), [&]() {
			std::stringstream grp, grp2, ka, kb;
			if (qr)
			{
				A = new BarnettSmartVTMF_dlog_GroupQR(ps, qs);
				A->PublishGroup(grp);
				group_text = grp.str();
				B = new BarnettSmartVTMF_dlog_GroupQR(grp, ps, qs);
			}
			else
			{
				A = new BarnettSmartVTMF_dlog(ps, qs, true, true);
				A->PublishGroup(grp);
				group_text = grp.str();
				B = new BarnettSmartVTMF_dlog(grp, ps, qs, true);
			}
			if (life == 1) { delete A; A = fresh(); }
			if (!A->CheckGroup() || !B->CheckGroup()) throw std::runtime_error("harness: CheckGroup failed");
			A->KeyGenerationProtocol_GenerateKey();
			B->KeyGenerationProtocol_GenerateKey();
			A->KeyGenerationProtocol_PublishKey(ka);
			B->KeyGenerationProtocol_PublishKey(kb);
			if (!A->KeyGenerationProtocol_UpdateKey(kb) || !B->KeyGenerationProtocol_UpdateKey(ka))
				throw std::runtime_error("harness: key exchange failed");
			A->KeyGenerationProtocol_Finalize();
			B->KeyGenerationProtocol_Finalize();
			if (mpz_cmp(A->h, B->h)) throw std::runtime_error("harness: common keys differ");
		});
	}
	BarnettSmartVTMF_dlog *fresh() const   // a new instance on the same group (no keys yet)
	{
		std::stringstream grp(group_text);
		if (qr) return new BarnettSmartVTMF_dlog_GroupQR(grp, psize, qsize);
		return new BarnettSmartVTMF_dlog(grp, psize, qsize, true);
	}
};

// Object lifecycle of the Rabin keys every QR-encoding prover and verifier uses:
//   0 as generated (public key: constructed from the secret key)     1 exported to text and imported again
//   2 copy-constructed        3 copy-assigned over a default-constructed object
//   4 copy-assigned over another, unrelated key                     5 copy-assigned, then the source object destroyed
struct QRWorld {
	unsigned keysize, life;
	TMCG_SecretKey *sec[2];
	TMCG_PublicKey *pub[2];
	TMCG_PublicKeyRing *ringP, *ringV;
	QRWorld(uint64_t seed, unsigned ks, unsigned lf = 0) : keysize(ks), life(lf)
	{
		with_coins(seed, 8000 + ks, [&]() {
			const char *nm[2] = {"Alice", "Bob"}, *em[2] = {"alice@example.org", "bob@example.org"};
			for (int i = 0; i < 2; i++)
			{
				TMCG_SecretKey *bs = new TMCG_SecretKey(nm[i], em[i], ks, false);
				TMCG_PublicKey *bp = new TMCG_PublicKey(*bs);
				std::ostringstream os, op;
				switch (life)
				{
					case 0: sec[i] = bs, pub[i] = bp; bs = NULL, bp = NULL; break;
					case 1: os << *bs; op << *bp; sec[i] = new TMCG_SecretKey(os.str()), pub[i] = new TMCG_PublicKey(op.str()); break;
					case 2: sec[i] = new TMCG_SecretKey(*bs), pub[i] = new TMCG_PublicKey(*bp); break;
					case 3: sec[i] = new TMCG_SecretKey(), pub[i] = new TMCG_PublicKey(); *sec[i] = *bs, *pub[i] = *bp; break;
					case 4:
					{
						TMCG_SecretKey other("Carol", "carol@example.org", ks, false);
						sec[i] = new TMCG_SecretKey(other), pub[i] = new TMCG_PublicKey(other);
						*sec[i] = *bs, *pub[i] = *bp;
						break;
					}
					default: sec[i] = new TMCG_SecretKey(), pub[i] = new TMCG_PublicKey(); *sec[i] = *bs, *pub[i] = *bp; break;
				}
				if (life == 5) { delete bs; delete bp; bs = NULL, bp = NULL; }   // the assigned objects must not depend on their source
				base_s[i] = bs, base_p[i] = bp;
			}
			ringP = new TMCG_PublicKeyRing(2), ringV = new TMCG_PublicKeyRing(2);
			for (int i = 0; i < 2; i++) ringP->keys[i] = *pub[i], ringV->keys[i] = *pub[i];
		});
	}
	TMCG_SecretKey *base_s[2];
	TMCG_PublicKey *base_p[2];
};

inline uint64_t wkey(unsigned a, unsigned b, unsigned c) { return ((uint64_t)a << 40) | ((uint64_t)b << 20) | c; }

inline World &world(unsigned ps, unsigned qs, bool qr = false, unsigned life = 0)
{
	static std::map<uint64_t, World *> cache;
	uint64_t k = wkey(ps, qs, (qr ? 1 : 0) + 2 * life);
	if (!cache.count(k)) cache[k] = new World(mcenv::env_seed(), ps, qs, qr, life);
	return *cache[k];
}
inline QRWorld &qrworld(unsigned ks, unsigned life = 0)
{
	static std::map<unsigned, QRWorld *> cache;
	unsigned k = ks * 8 + life;
	if (!cache.count(k)) cache[k] = new QRWorld(mcenv::env_seed(), ks, life);
	return *cache[k];
}

// ------------------------------------------------------------------------------------------------ tag helpers
inline void add_flip(const Cell &c, std::vector<Tag> &v)
{
	v.push_back(c.T(K_ELEM, "flip.C")), v.push_back(c.T(K_EXPR, "flip.a")), v.push_back(c.T(K_EXPR, "flip.hata"));
}
inline void add_n(std::vector<Tag> &v, size_t n, const Tag &t) { for (size_t i = 0; i < n; i++) v.push_back(t); }

inline bool bit_of(const std::string &s) { Z t; if (!t.parse(s)) return false; return mpz_get_ui(t) & 1UL; }

inline std::vector<size_t> perm_of(size_t n, size_t idx)   // idx-th permutation of 0..n-1 in lexicographic order
{
	std::vector<size_t> p(n);
	for (size_t i = 0; i < n; i++) p[i] = i;
	for (size_t i = 0; i < idx; i++) std::next_permutation(p.begin(), p.end());
	return p;
}
inline size_t fact(size_t n) { size_t f = 1; for (size_t i = 2; i <= n; i++) f *= i; return f; }
inline std::vector<size_t> rot_of(size_t n, size_t r) { std::vector<size_t> p(n); for (size_t i = 0; i < n; i++) p[i] = (r + i) % n; return p; }
inline std::string perm_str(const std::vector<size_t> &p) { std::string s; for (size_t i = 0; i < p.size(); i++) s += (char)('0' + p[i]); return s; }

inline Tag weak(Tag t, const char *w) { t.weak = w; return t; }

// the verifier instance "as if constructed with these parameters": the fixed-base tables follow g, h, p
inline void vtmf_sync(BarnettSmartVTMF_dlog *V)
{
	if (!mpz_sgn(V->p)) return;
	tmcg_mpz_fpowm_precompute(V->fpowm_table_g, V->g, V->p, mpz_sizeinbase(V->q, 2L));
	tmcg_mpz_fpowm_precompute(V->fpowm_table_h, V->h, V->p, mpz_sizeinbase(V->q, 2L));
}
inline void group_pubins(const Cell &c, BarnettSmartVTMF_dlog *V, std::vector<PubIn> &out, bool with_h = true)
{
	std::function<void()> sy = [V]() { vtmf_sync(V); };
	PubIn a; a.name = "group.p", a.target = V->p, a.sync = sy, a.tag = c.T(K_EXACT, "group.p"); out.push_back(a);
	PubIn b; b.name = "group.q", b.target = V->q, b.sync = sy, b.tag = c.T(K_EXACT, "group.q"); out.push_back(b);
	// generators and keys are raised to transmitted exponents: the non-member -g in place of g goes unnoticed whenever
	// that exponent is even unless the value is hashed; membership of group parameters is CheckGroup's business
	// ("order2-input": recorded, not judged)
	PubIn g; g.name = "group.g", g.target = V->g, g.sync = sy, g.tag = weak(c.T(K_ELEM, "group.g"), "order2-input"); out.push_back(g);
	if (with_h) { PubIn h; h.name = "key.h", h.target = V->h, h.sync = sy, h.tag = weak(c.T(K_ELEM, "key.h"), "order2-input"); out.push_back(h); }
	// the same two inputs changed *without* re-deriving the tables: the fixed-base power must refuse the foreign base
	// (or the value is hashed), for every variant including -g
	PubIn tg; tg.name = "foreign-base.g", tg.target = V->g, tg.tag = c.T(K_ELEM, "foreign-base.g"); out.push_back(tg);
	if (with_h) { PubIn th; th.name = "foreign-base.h", th.target = V->h, th.tag = c.T(K_ELEM, "foreign-base.h"); out.push_back(th); }
}
inline PubIn pub_elem(const Cell &c, const std::string &name, mpz_ptr t, Kind k = K_ELEM)
{
	PubIn a; a.name = name, a.target = t, a.tag = c.T(k, name); return a;
}
inline PubIn weak_pub(PubIn a, const char *w) { a.tag.weak = w; return a; }

// replace the given lines of a published group text by one value (inputs that occur more than once are changed jointly)
inline std::string replace_lines(const std::string &text, const std::vector<size_t> &idx, const Z &w)
{
	std::vector<std::string> l = split_lines(text);
	for (size_t i = 0; i < idx.size(); i++) l[idx[i]] = w.str();
	std::string r;
	for (size_t i = 0; i < l.size(); i++) r += l[i] + "\n";
	return r;
}
inline Z line_value(const std::string &text, size_t idx) { Z v; v.parse(split_lines(text)[idx]); return v; }
inline std::vector<size_t> ix(size_t a) { std::vector<size_t> v; v.push_back(a); return v; }
inline std::vector<size_t> ix(size_t a, size_t b) { std::vector<size_t> v; v.push_back(a), v.push_back(b); return v; }

// ================================================================================================ VTMF: key share
struct KeySt { World *W; BarnettSmartVTMF_dlog *V; JareckiLysyanskayaEDCF *eP, *eV; Z key; int mode; uint64_t seed;
	KeySt() : W(NULL), V(NULL), eP(NULL), eV(NULL), mode(0), seed(0) {}
	~KeySt() { delete V; delete eP; delete eV; } };

inline CellP make_key(World &W, int mode /*0 nizk, 1 interactive, 2 public coin*/)
{
	CellP c(new Cell);
	std::shared_ptr<KeySt> st(new KeySt);
	st->W = &W, st->mode = mode;
	c->keep = st;
	c->family = mode == 0 ? "key-nizk" : (mode == 1 ? "key-int" : "key-pc");
	c->inter = mode != 0;
	c->p = Z(W.A->p), c->q = Z(W.A->q);
	Cell *cp = c.get();
	auto rebuild = [st]() {
		delete st->V;
		st->V = st->W->fresh();
		with_coins(st->seed, 3, [&]() { st->V->KeyGenerationProtocol_GenerateKey(); });
	};
	c->prepare = [st, rebuild](uint64_t seed) {
		st->seed = seed;
		rebuild();
		st->key = Z(st->W->A->h_i);
		if (st->mode == 2 && !st->eP)
		{
			st->eP = new JareckiLysyanskayaEDCF(2, 0, st->W->A->p, st->W->A->q, st->W->A->g, st->W->A->h);
			st->eV = new JareckiLysyanskayaEDCF(2, 0, st->W->B->p, st->W->B->q, st->W->B->g, st->W->B->h);
		}
	};
	c->reset = [st, rebuild]() { if (st->V->h_j.size() > 0) rebuild(); };
	c->prover = [st](std::iostream &s) {
		if (st->mode == 0) { st->W->A->KeyGenerationProtocol_PublishKey(s); return true; }
		if (st->mode == 1) return st->W->A->KeyGenerationProtocol_ProveKey_interactive(s, s);
		return st->W->A->KeyGenerationProtocol_ProveKey_interactive_publiccoin(st->eP, s, s);
	};
	c->verifier = [st](std::iostream &s) {
		if (st->mode == 0) return st->V->KeyGenerationProtocol_UpdateKey(s);
		if (st->mode == 1) return st->V->KeyGenerationProtocol_VerifyKey_interactive(st->key, s, s);
		return st->V->KeyGenerationProtocol_VerifyKey_interactive_publiccoin(st->key, st->eV, s, s);
	};
	c->post = [st](std::string &why) {
		if (st->mode != 0) return true;
		Z t;
		mpz_mul(t, st->V->h_i, st->W->A->h_i), mpz_mod(t, t, st->V->p);
		if (st->V->KeyGenerationProtocol_NumberOfKeys() != 1 || mpz_cmp(t, st->V->h)) { why = "common key not updated to h_i*h_j"; return false; }
		return true;
	};
	c->tags = [cp, st](const RunOut &, std::vector<Tag> &pv, std::vector<Tag> &vp) {
		if (st->mode == 0) { pv.push_back(cp->T(K_ELEM, "h_i")), pv.push_back(cp->T(K_EXACT, "c")), pv.push_back(cp->T(K_EXPR, "r")); }
		else if (st->mode == 1) { pv.push_back(cp->T(K_ELEM, "m_1")), pv.push_back(weak(cp->T(K_EXPR, "m_2"), "negexp")); vp.push_back(cp->T(K_EXP, "c")); }
		else { pv.push_back(cp->T(K_ELEM, "m_1")); add_flip(*cp, pv); pv.push_back(weak(cp->T(K_EXPR, "m_2"), "negexp")); add_flip(*cp, vp); }
		return true;
	};
	c->pubins = [cp, st](const RunOut &, std::vector<PubIn> &out) {
		group_pubins(*cp, st->V, out, false);
		// interactive Schnorr proof in the safe-prime group: q is used only as the bound of the response (membership is a
		// Legendre symbol there), so a larger q is not noticed and nothing is asserted for it
		if (st->mode != 0 && st->W->qr) for (size_t i = 0; i < out.size(); i++) if (out[i].name == "group.q") out[i].tag.covered = false;
		if (st->mode != 0) { PubIn k = weak_pub(pub_elem(*cp, "key", st->key), "order2-input"); k.neighbours.push_back(Z(st->W->B->h_i)); out.push_back(k); }
	};
	return c;
}

// ================================================================================================ VTMF: CP based card proofs
struct CardSt { World *W; SchindelhauerTMCG *tP, *tV; int mode; size_t type;
	Z m, c1, c2, r, d1, d2, r2;            // prover side: message, card, masking value, remasked card
	Z mV, c1V, c2V, d1V, d2V;              // verifier copies
	VTMF_Card oc, cc, ocV, ccV; VTMF_CardSecret cs;
	CardSt() : W(NULL), tP(NULL), tV(NULL), mode(0), type(0) {}
	~CardSt() { delete tP; delete tV; } };

// mode: 0 mask, 1 remask, 2 maskcard through SchindelhauerTMCG (open card), 3 decrypt, 4 cardsecret through SchindelhauerTMCG
inline CellP make_card(World &W, int mode, size_t type)
{
	CellP c(new Cell);
	std::shared_ptr<CardSt> st(new CardSt);
	st->W = &W, st->mode = mode, st->type = type;
	st->tP = new SchindelhauerTMCG(8, 2, 3), st->tV = new SchindelhauerTMCG(8, 2, 3);
	c->keep = st;
	static const char *fam[] = {"mask", "remask", "maskcard-vtmf", "decrypt", "cardsecret-vtmf"};
	c->family = fam[mode];
	c->inter = false;
	c->p = Z(W.A->p), c->q = Z(W.A->q);
	Cell *cp = c.get();
	c->prepare = [st](uint64_t seed) {
		with_coins(seed, 4, [&]() {
			BarnettSmartVTMF_dlog *A = st->W->A;
			A->IndexElement(st->m, st->type);
			A->VerifiableMaskingProtocol_Mask(st->m, st->c1, st->c2, st->r);
			if (st->mode == 1) A->VerifiableRemaskingProtocol_Mask(st->c1, st->c2, st->d1, st->d2, st->r2);
			if (st->mode == 2)
			{
				st->tP->TMCG_CreateOpenCard(st->oc, A, st->type);
				st->tP->TMCG_CreateCardSecret(st->cs, A);
				st->tP->TMCG_MaskCard(st->oc, st->cc, st->cs, A);
				st->ocV = st->oc, st->ccV = st->cc;
			}
			if (st->mode == 4)
			{
				VTMF_CardSecret tmp;
				st->tP->TMCG_CreatePrivateCard(st->cc, tmp, A, st->type);
				st->ccV = st->cc;
			}
			st->mV = st->m, st->c1V = st->c1, st->c2V = st->c2, st->d1V = st->d1, st->d2V = st->d2;
		});
	};
	c->reset = [st]() {
		if (st->mode == 3) st->W->B->VerifiableDecryptionProtocol_Verify_Initialize(st->c1);
		if (st->mode == 4) st->tV->TMCG_SelfCardSecret(st->cc, st->W->B);
	};
	c->prover = [st](std::iostream &s) {
		BarnettSmartVTMF_dlog *A = st->W->A;
		switch (st->mode)
		{
			case 0: A->VerifiableMaskingProtocol_Prove(st->m, st->c1, st->c2, st->r, s); break;
			case 1: A->VerifiableRemaskingProtocol_Prove(st->c1, st->c2, st->d1, st->d2, st->r2, s); break;
			case 2: st->tP->TMCG_ProveMaskCard(st->oc, st->cc, st->cs, A, s, s); break;
			case 3: A->VerifiableDecryptionProtocol_Prove(st->c1, s); break;
			case 4: st->tP->TMCG_ProveCardSecret(st->cc, A, s, s); break;
		}
		return true;
	};
	c->verifier = [st](std::iostream &s) {
		BarnettSmartVTMF_dlog *B = st->W->B;
		switch (st->mode)
		{
			case 0: return B->VerifiableMaskingProtocol_Verify(st->mV, st->c1V, st->c2V, s);
			case 1: return B->VerifiableRemaskingProtocol_Verify(st->c1V, st->c2V, st->d1V, st->d2V, s);
			case 2: return st->tV->TMCG_VerifyMaskCard(st->ocV, st->ccV, B, s, s);
			case 3: return B->VerifiableDecryptionProtocol_Verify_Update(st->c1V, s);
			case 4: return st->tV->TMCG_VerifyCardSecret(st->ccV, B, s, s);
		}
		return false;
	};
	c->post = [st](std::string &why) {
		if (st->mode == 3)
		{
			Z m;
			st->W->B->VerifiableDecryptionProtocol_Verify_Finalize(st->c2, m);
			if (mpz_cmp(m, st->m)) { why = "decryption does not recover the message"; return false; }
		}
		if (st->mode == 4)
		{
			size_t t = st->tV->TMCG_TypeOfCard(st->cc, st->W->B);
			if (t != st->type) { why = "TMCG_TypeOfCard returned " + drv::str(t) + " for type " + drv::str(st->type); return false; }
		}
		return true;
	};
	c->tags = [cp, st](const RunOut &, std::vector<Tag> &pv, std::vector<Tag> &) {
		if (st->mode >= 3) { pv.push_back(cp->T(K_ELEM, "d_i")), pv.push_back(cp->T(K_EXACT, "h_i_fp")); }
		pv.push_back(cp->T(K_EXACT, "c")), pv.push_back(cp->T(K_EXPR, "r"));
		return true;
	};
	c->pubins = [cp, st](const RunOut &, std::vector<PubIn> &out) {
		BarnettSmartVTMF_dlog *B = st->W->B;
		group_pubins(*cp, B, out);
		Z other;
		mpz_mul(other, st->c1, B->g), mpz_mod(other, other, B->p);   // another group element
		auto add = [&](const std::string &n, mpz_ptr t) { PubIn a = pub_elem(*cp, n, t); a.neighbours.push_back(other); out.push_back(a); };
		switch (st->mode)
		{
			case 0: add("m", st->mV), add("c_1", st->c1V), add("c_2", st->c2V); break;
			case 1: add("c_1", st->c1V), add("c_2", st->c2V), add("c'_1", st->d1V), add("c'_2", st->d2V); break;
			case 2: add("c.c_1", st->ocV.c_1), add("c.c_2", st->ocV.c_2), add("cc.c_1", st->ccV.c_1), add("cc.c_2", st->ccV.c_2); break;
			case 3: add("c_1", st->c1V); break;
			case 4: add("c.c_1", st->ccV.c_1); break;
		}
		if (st->mode >= 3)
			for (std::map<std::string, mpz_ptr>::iterator i = B->h_j.begin(); i != B->h_j.end(); ++i)
				add("key.h_j", i->second);
	};
	return c;
}

// ================================================================================================ VTMF: CP / OR directly
struct SigmaSt { World *W; int mode; Z x, y, gg, hh, alpha, xV, yV, ggV, hhV; SigmaSt() : W(NULL), mode(0) {} };

// mode 0: CP (x = gg^a, y = hh^a);  1: OR first branch true;  2: OR second branch true   (x=y_1,y=y_2,gg=g_1,hh=g_2)
inline CellP make_sigma(World &W, int mode)
{
	CellP c(new Cell);
	std::shared_ptr<SigmaSt> st(new SigmaSt);
	st->W = &W, st->mode = mode;
	c->keep = st;
	c->family = mode == 0 ? "cp" : (mode == 1 ? "or1" : "or2");
	c->inter = false;
	c->p = Z(W.A->p), c->q = Z(W.A->q);
	Cell *cp = c.get();
	c->prepare = [st](uint64_t seed) {
		with_coins(seed, 5, [&]() {
			BarnettSmartVTMF_dlog *A = st->W->A;
			A->RandomElement(st->gg), A->RandomElement(st->hh);
			tmcg_mpz_srandomm(st->alpha, A->q);
			if (st->mode == 0) { mpz_powm(st->x, st->gg, st->alpha, A->p), mpz_powm(st->y, st->hh, st->alpha, A->p); }
			if (st->mode == 1) { mpz_powm(st->x, st->gg, st->alpha, A->p), A->RandomElement(st->y); }
			if (st->mode == 2) { A->RandomElement(st->x), mpz_powm(st->y, st->hh, st->alpha, A->p); }
			st->xV = st->x, st->yV = st->y, st->ggV = st->gg, st->hhV = st->hh;
		});
	};
	c->prover = [st](std::iostream &s) {
		BarnettSmartVTMF_dlog *A = st->W->A;
		if (st->mode == 0) A->CP_Prove(st->x, st->y, st->gg, st->hh, st->alpha, s, false);
		if (st->mode == 1) A->OR_ProveFirst(st->x, st->y, st->gg, st->hh, st->alpha, s);
		if (st->mode == 2) A->OR_ProveSecond(st->x, st->y, st->gg, st->hh, st->alpha, s);
		return true;
	};
	c->verifier = [st](std::iostream &s) {
		BarnettSmartVTMF_dlog *B = st->W->B;
		if (st->mode == 0) return B->CP_Verify(st->xV, st->yV, st->ggV, st->hhV, s, false);
		return B->OR_Verify(st->xV, st->yV, st->ggV, st->hhV, s);
	};
	c->tags = [cp, st](const RunOut &, std::vector<Tag> &pv, std::vector<Tag> &) {
		if (st->mode == 0) { pv.push_back(cp->T(K_EXACT, "c")), pv.push_back(cp->T(K_EXPR, "r")); }
		else { pv.push_back(cp->T(K_EXP, "c_1")), pv.push_back(cp->T(K_EXP, "c_2")), pv.push_back(cp->T(K_EXPR, "r_1")), pv.push_back(cp->T(K_EXPR, "r_2")); }
		return true;
	};
	c->pubins = [cp, st](const RunOut &, std::vector<PubIn> &out) {
		group_pubins(*cp, st->W->B, out);
		Z other;
		mpz_mul(other, st->x, st->W->B->g), mpz_mod(other, other, st->W->B->p);
		const char *n0[] = {"x", "y", "gg", "hh"}, *n1[] = {"y_1", "y_2", "g_1", "g_2"};
		mpz_ptr t[] = {st->xV, st->yV, st->ggV, st->hhV};
		for (int i = 0; i < 4; i++) { PubIn a = pub_elem(*cp, st->mode == 0 ? n0[i] : n1[i], t[i]); a.neighbours.push_back(other); out.push_back(a); }
	};
	return c;
}

// ================================================================================================ QR encoding: cards
struct QRCardSt { QRWorld *Q; SchindelhauerTMCG *tP, *tV; int mode; size_t type, w; unsigned kappa;
	TMCG_Card oc, cc, ocV, ccV; TMCG_CardSecret cs, csV, csSelf;
	QRCardSt(size_t ww) : Q(NULL), tP(NULL), tV(NULL), mode(0), type(0), w(ww), kappa(0), oc(2, ww), cc(2, ww), ocV(2, ww), ccV(2, ww), cs(2, ww), csV(2, ww), csSelf(2, ww) {}
	~QRCardSt() { delete tP; delete tV; } };

// tags of one TMCG_ProveQuadraticResidue / VerifyQuadraticResidue run starting at pv[i], vp[j]; returns false on mismatch
inline bool tag_qrproof(const Cell &c, const Z *m, unsigned kappa, const RunOut &h, size_t &i, size_t &j, std::vector<Tag> &pv, std::vector<Tag> &vp)
{
	Tag cnt(K_KAPPA, "kappa", m, m); vp.push_back(cnt); j++;
	size_t rs = i;          // R_1,S_1,...,R_k,S_k
	i += 2 * kappa;
	std::vector<bool> bits;
	for (unsigned r = 0; r < kappa; r++)
	{
		if (j >= h.vp.size()) return false;
		bits.push_back(bit_of(h.vp[j]));
		Tag b(K_BIT, "qr.challenge", m, m); vp.push_back(b); j++;
	}
	for (unsigned r = 0; r < kappa; r++)
	{
		// the challenged one of (R,S) is compared as an integer, the other only through R*S = t (mod m)
		pv.push_back(Tag(bits[r] ? K_EXACT : K_MODM, "qr.R", m, m));
		pv.push_back(Tag(bits[r] ? K_MODM : K_EXACT, "qr.S", m, m));
	}
	(void)rs;
	for (unsigned r = 0; r < kappa; r++) { pv.push_back(Tag(K_ROOT, "qr.root", m, m)); i++; }
	(void)c;
	return true;
}

// mode 0: TMCG_ProveMaskCard / VerifyMaskCard;  mode 1: TMCG_ProveCardSecret / VerifyCardSecret (prover = player `who`)
inline CellP make_qrcard(QRWorld &Q, int mode, size_t type, unsigned kappa, size_t who = 0)
{
	const size_t w = 2;
	CellP c(new Cell);
	std::shared_ptr<QRCardSt> st(new QRCardSt(w));
	st->Q = &Q, st->mode = mode, st->type = type, st->kappa = kappa;
	st->tP = new SchindelhauerTMCG(kappa, 2, w), st->tV = new SchindelhauerTMCG(kappa, 2, w);
	c->keep = st;
	c->family = mode == 0 ? "maskcard-qr" : "cardsecret-qr";
	c->inter = true;
	c->p = Z(Q.pub[0]->m), c->q = Z(Q.pub[1]->m);
	std::shared_ptr<std::vector<Z> > mods(new std::vector<Z>());
	mods->push_back(Z(Q.pub[0]->m)), mods->push_back(Z(Q.pub[1]->m));
	c->prepare = [st](uint64_t seed) {
		with_coins(seed, 6, [&]() {
			st->tP->TMCG_CreateOpenCard(st->oc, *st->Q->ringP, st->type);
			st->tP->TMCG_CreateCardSecret(st->cs, *st->Q->ringP, 0);
			st->tP->TMCG_MaskCard(st->oc, st->cc, st->cs, *st->Q->ringP);
			st->ocV = st->oc, st->ccV = st->cc;
		});
	};
	c->reset = [st]() { };
	c->prover = [st, who](std::iostream &s) {
		if (st->mode == 0) st->tP->TMCG_ProveMaskCard(st->oc, st->cc, st->cs, *st->Q->ringP, s, s);
		else st->tP->TMCG_ProveCardSecret(st->cc, *st->Q->sec[who], who, s, s);
		return true;
	};
	c->verifier = [st, who](std::iostream &s) {
		if (st->mode == 0) return st->tV->TMCG_VerifyMaskCard(st->ocV, st->ccV, *st->Q->ringV, s, s);
		return st->tV->TMCG_VerifyCardSecret(st->ccV, st->csV, st->Q->ringV->keys[who], who, s, s);
	};
	c->post = [st, who](std::string &why) {
		if (st->mode == 1)
		{
			st->tP->TMCG_SelfCardSecret(st->cc, st->csSelf, *st->Q->sec[who], who);
			for (size_t j = 0; j < st->w; j++)
				if ((mpz_get_ui(&st->csV.b[who][j]) & 1) != (mpz_get_ui(&st->csSelf.b[who][j]) & 1)) { why = "revealed bit differs from the owner's"; return false; }
		}
		return true;
	};
	Cell *cp = c.get();
	c->tags = [cp, st, mods, who, w](const RunOut &h, std::vector<Tag> &pv, std::vector<Tag> &vp) {
		size_t i = 0, j = 0;
		unsigned K = st->kappa;
		if (st->mode == 0)
		{
			for (size_t k = 0; k < 2; k++)
				for (size_t b = 0; b < w; b++)
				{
					const Z *m = &(*mods)[k];
					vp.push_back(Tag(K_KAPPA, "kappa", m, m)); j++;
					for (unsigned r = 0; r < K; r++) { pv.push_back(Tag(K_EXACT, "mask.T", m, m)); i++; }
					for (unsigned r = 0; r < K; r++)
					{
						vp.push_back(Tag(K_BIT, "mask.challenge", m, m)); j++;
						pv.push_back(Tag(K_ROOT, "mask.r", m, m)), pv.push_back(Tag(K_BIT, "mask.b", m, m)); i += 2;
					}
				}
		}
		else
		{
			const Z *m = &(*mods)[who];
			for (size_t b = 0; b < w; b++)
			{
				if (i >= h.pv.size()) return false;
				bool nqr = bit_of(h.pv[i]);
				pv.push_back(Tag(K_BIT, "secret.flag", m, m)); i++;
				if (nqr) { pv.push_back(Tag(K_MODM, "nqr.bar", m, m)); i++; }
				if (!tag_qrproof(*cp, m, K, h, i, j, pv, vp)) return false;
			}
		}
		return true;
	};
	c->pubins = [cp, st, mods, who, w](const RunOut &h, std::vector<PubIn> &out) {
		// which rounds looked at z (challenge 0) / zz (challenge 1): parse the verifier's challenge lines
		if (st->mode == 0)
		{
			size_t j = 0;
			for (size_t k = 0; k < 2; k++)
				for (size_t b = 0; b < w; b++)
				{
					j++;   // kappa line
					bool any0 = false, any1 = false;
					for (unsigned r = 0; r < st->kappa; r++, j++) { if (j < h.vp.size()) { if (bit_of(h.vp[j])) any1 = true; else any0 = true; } }
					const Z *m = &(*mods)[k];
					PubIn a; a.name = "c.z", a.target = &st->ocV.z[k][b], a.tag = Tag(K_MODM, "c.z", m, m); a.tag.covered = any0; out.push_back(a);
					PubIn d; d.name = "cc.z", d.target = &st->ccV.z[k][b], d.tag = Tag(K_MODM, "cc.z", m, m); d.tag.covered = any1; out.push_back(d);
				}
			for (size_t k = 0; k < 2; k++)
			{
				const Z *m = &(*mods)[k];
				PubIn a; a.name = "key.m", a.target = st->Q->ringV->keys[k].m, a.tag = Tag(K_EXACT, "key.m", m, m); a.tag.covered = st->kappa > 0; out.push_back(a);
			}
		}
		else
		{
			const Z *m = &(*mods)[who];
			for (size_t b = 0; b < w; b++)
			{
				PubIn a; a.name = "c.z", a.target = &st->ccV.z[who][b], a.tag = Tag(K_MODM, "c.z", m, m); a.tag.covered = st->kappa > 0; out.push_back(a);
			}
			PubIn a; a.name = "key.m", a.target = st->Q->ringV->keys[who].m, a.tag = Tag(K_EXACT, "key.m", m, m); a.tag.covered = st->kappa > 0; out.push_back(a);
		}
	};
	return c;
}

// ================================================================================================ stacks
struct VStackSt { World *W; SchindelhauerTMCG *tP, *tV; size_t n; std::vector<size_t> pi; bool cyclic; unsigned kappa;
	TMCG_Stack<VTMF_Card> s, s2, sV, s2V; TMCG_StackSecret<VTMF_CardSecret> ss;
	GrothVSSHE *vsP, *vsV; HooghSchoenmakersSkoricVillegasVRHE *vrP, *vrV; JareckiLysyanskayaEDCF *eP, *eV;
	std::vector<size_t> gpi; std::vector<mpz_ptr> R; std::vector<std::pair<mpz_ptr, mpz_ptr> > e, E, eV_, EV_;
	size_t rot;
	VStackSt() : W(NULL), tP(NULL), tV(NULL), n(0), cyclic(false), kappa(0), vsP(NULL), vsV(NULL), vrP(NULL), vrV(NULL), eP(NULL), eV(NULL), rot(0) {}
	void release()
	{
		if (tP && !R.empty()) tP->TMCG_ReleaseStackEquality_Groth(gpi, R, e, E);
		if (tP && !eV_.empty()) tP->TMCG_ReleaseStackEquality_Groth(eV_, EV_);
	}
	~VStackSt() { release(); delete tP; delete tV; delete vsP; delete vsV; delete vrP; delete vrV; delete eP; delete eV; } };

inline void build_vstack(VStackSt &st, uint64_t seed)
{
	with_coins(seed, 9, [&]() {
		BarnettSmartVTMF_dlog *A = st.W->A;
		TMCG_Stack<VTMF_Card> s;
		for (size_t i = 0; i < st.n; i++)
		{
			VTMF_Card c;
			VTMF_CardSecret cs;
			st.tP->TMCG_CreatePrivateCard(c, cs, A, i % 8);
			s.push(c);
		}
		st.s = s;
		st.ss.clear();
		st.tP->TMCG_CreateStackSecret(st.ss, st.pi, st.n, A);
		st.tP->TMCG_MixStack(st.s, st.s2, st.ss, A);
		st.sV = st.s, st.s2V = st.s2;
		st.release();
		st.tP->TMCG_InitializeStackEquality_Groth(st.gpi, st.R, st.e, st.E, st.s, st.s2, st.ss);
		st.tP->TMCG_InitializeStackEquality_Groth(st.eV_, st.EV_, st.sV, st.s2V);
		st.rot = (st.ss.size() - st.ss[0].first) % st.ss.size();
	});
}

inline bool tag_sts_vtmf(const Cell &c, const std::string &line, size_t n, Tag &t)
{
	Toks tk(line);
	t = c.T(K_STRUCT, "sts");
	if (tk.tok.size() != 2 + 4 * n) return false;
	t.toks.push_back(c.T(K_TEXT, "sts.magic")), t.toks.push_back(c.T(K_CNT, "sts.size"));
	for (size_t i = 0; i < n; i++)
	{
		t.toks.push_back(c.T(K_CNT, "sts.index")), t.toks.push_back(c.T(K_TEXT, "crs.magic"));
		t.toks.push_back(c.T(K_EXP, "crs.r"));
		Tag sep = c.T(K_TEXT, ""); sep.covered = false; t.toks.push_back(sep);
	}
	return true;
}

// cut-and-choose stack equality, VTMF encoding
inline CellP make_stack_cc_vtmf(World &W, size_t n, const std::vector<size_t> &pi, bool cyclic, unsigned kappa)
{
	CellP c(new Cell);
	std::shared_ptr<VStackSt> st(new VStackSt);
	st->W = &W, st->n = n, st->pi = pi, st->cyclic = cyclic, st->kappa = kappa;
	st->tP = new SchindelhauerTMCG(kappa, 2, 3), st->tV = new SchindelhauerTMCG(kappa, 2, 3);
	c->keep = st;
	c->family = "stack-cc-vtmf";
	c->inter = true;
	c->p = Z(W.A->p), c->q = Z(W.A->q);
	Cell *cp = c.get();
	c->prepare = [st](uint64_t seed) { build_vstack(*st, seed); };
	c->prover = [st](std::iostream &s) { st->tP->TMCG_ProveStackEquality(st->s, st->s2, st->ss, st->cyclic, st->W->A, s, s); return true; };
	c->verifier = [st](std::iostream &s) { return st->tV->TMCG_VerifyStackEquality(st->sV, st->s2V, st->cyclic, st->W->B, s, s); };
	c->tags = [cp, st](const RunOut &h, std::vector<Tag> &pv, std::vector<Tag> &vp) {
		vp.push_back(cp->T(K_KAPPA, "kappa"));
		for (unsigned r = 0; r < st->kappa; r++)
		{
			pv.push_back(cp->T(K_EXACT, "cc.commit")), vp.push_back(cp->T(K_BIT, "cc.challenge"));
			Tag t;
			if (2 * r + 1 >= h.pv.size() || !tag_sts_vtmf(*cp, h.pv[2 * r + 1], st->n, t)) return false;
			pv.push_back(t);
		}
		return true;
	};
	c->pubins = [cp, st](const RunOut &h, std::vector<PubIn> &out) {
		bool any0 = false, any1 = false;
		for (size_t j = 1; j < h.vp.size(); j++) { if (bit_of(h.vp[j])) any1 = true; else any0 = true; }
		for (size_t i = 0; i < st->n; i++)
		{
			size_t o = (i + 1) % st->n;
			std::string I = "[" + drv::str(i) + "]";
			// s2 is tested with CheckElement before the first round; s only enters through the re-mixed stack that is hashed
			PubIn a = pub_elem(*cp, "s" + I + ".c_1", st->sV[i].c_1); a.tag.covered = any0; a.neighbours.push_back(Z(st->s[o].c_1)); a.stack = 1, a.card = i, a.comp = 1; out.push_back(a);
			PubIn b = pub_elem(*cp, "s" + I + ".c_2", st->sV[i].c_2); b.tag.covered = any0; b.neighbours.push_back(Z(st->s[o].c_2)); b.stack = 1, b.card = i, b.comp = 2; out.push_back(b);
			PubIn d = pub_elem(*cp, "s2" + I + ".c_1", st->s2V[i].c_1); d.tag.covered = any1; d.neighbours.push_back(Z(st->s2[o].c_1)); d.stack = 2, d.card = i, d.comp = 1, d.bound = true; out.push_back(d);
			PubIn e = pub_elem(*cp, "s2" + I + ".c_2", st->s2V[i].c_2); e.tag.covered = any1; e.neighbours.push_back(Z(st->s2[o].c_2)); e.stack = 2, e.card = i, e.comp = 2, e.bound = true; out.push_back(e);
		}
		size_t before = out.size();
		group_pubins(*cp, st->W->B, out);
		for (size_t i = before; i < out.size(); i++) out[i].tag.covered = st->kappa > 0;
	};
	return c;
}

// cut-and-choose stack equality, QR encoding
struct QStackSt { QRWorld *Q; SchindelhauerTMCG *tP, *tV; size_t n, w; std::vector<size_t> pi; bool cyclic; unsigned kappa;
	TMCG_Stack<TMCG_Card> s, s2, sV, s2V; TMCG_StackSecret<TMCG_CardSecret> ss;
	QStackSt() : Q(NULL), tP(NULL), tV(NULL), n(0), w(2), cyclic(false), kappa(0) {}
	~QStackSt() { delete tP; delete tV; } };

inline bool tag_sts_qr(const std::vector<Z> &mods, const std::string &line, size_t n, size_t w, Tag &t)
{
	Toks tk(line);
	const Z *m0 = &mods[0];
	t = Tag(K_STRUCT, "sts", m0, m0);
	size_t per = 1 + 3 + 2 * 2 * w + 1;     // index, crs, k, w, (r,b)*2*w, separator
	if (tk.tok.size() != 2 + per * n) return false;
	t.toks.push_back(Tag(K_TEXT, "sts.magic", m0, m0)), t.toks.push_back(Tag(K_CNT, "sts.size", m0, m0));
	for (size_t i = 0; i < n; i++)
	{
		t.toks.push_back(Tag(K_CNT, "sts.index", m0, m0)), t.toks.push_back(Tag(K_TEXT, "crs.magic", m0, m0));
		t.toks.push_back(Tag(K_CNT, "crs.k", m0, m0)), t.toks.push_back(Tag(K_CNT, "crs.w", m0, m0));
		for (size_t k = 0; k < 2; k++)
			for (size_t b = 0; b < w; b++)
				t.toks.push_back(Tag(K_ROOT, "crs.r", &mods[k], &mods[k])), t.toks.push_back(Tag(K_BIT, "crs.b", &mods[k], &mods[k]));
		Tag sep(K_TEXT, "", m0, m0); sep.covered = false; t.toks.push_back(sep);
	}
	return true;
}

inline CellP make_stack_cc_qr(QRWorld &Q, size_t n, const std::vector<size_t> &pi, bool cyclic, unsigned kappa)
{
	CellP c(new Cell);
	std::shared_ptr<QStackSt> st(new QStackSt);
	st->Q = &Q, st->n = n, st->pi = pi, st->cyclic = cyclic, st->kappa = kappa;
	st->tP = new SchindelhauerTMCG(kappa, 2, st->w), st->tV = new SchindelhauerTMCG(kappa, 2, st->w);
	c->keep = st;
	c->family = "stack-cc-qr";
	c->inter = true;
	c->p = Z(Q.pub[0]->m), c->q = Z(Q.pub[1]->m);
	std::shared_ptr<std::vector<Z> > mods(new std::vector<Z>());
	mods->push_back(Z(Q.pub[0]->m)), mods->push_back(Z(Q.pub[1]->m));
	c->prepare = [st](uint64_t seed) {
		with_coins(seed, 10, [&]() {
			TMCG_Stack<TMCG_Card> s;
			for (size_t i = 0; i < st->n; i++)
			{
				TMCG_Card cd(2, st->w);
				TMCG_CardSecret cs(2, st->w);
				st->tP->TMCG_CreatePrivateCard(cd, cs, *st->Q->ringP, 0, i % 4);
				s.push(cd);
			}
			st->s = s;
			st->ss.clear();
			st->tP->TMCG_CreateStackSecret(st->ss, st->pi, *st->Q->ringP, 0, st->n);
			st->tP->TMCG_MixStack(st->s, st->s2, st->ss, *st->Q->ringP);
			st->sV = st->s, st->s2V = st->s2;
		});
	};
	c->prover = [st](std::iostream &s) { st->tP->TMCG_ProveStackEquality(st->s, st->s2, st->ss, st->cyclic, *st->Q->ringP, 0, s, s); return true; };
	c->verifier = [st](std::iostream &s) { return st->tV->TMCG_VerifyStackEquality(st->sV, st->s2V, st->cyclic, *st->Q->ringV, s, s); };
	Cell *cp = c.get();
	c->tags = [cp, st, mods](const RunOut &h, std::vector<Tag> &pv, std::vector<Tag> &vp) {
		const Z *m0 = &(*mods)[0];
		vp.push_back(Tag(K_KAPPA, "kappa", m0, m0));
		for (unsigned r = 0; r < st->kappa; r++)
		{
			pv.push_back(Tag(K_EXACT, "cc.commit", m0, m0)), vp.push_back(Tag(K_BIT, "cc.challenge", m0, m0));
			Tag t;
			if (2 * r + 1 >= h.pv.size() || !tag_sts_qr(*mods, h.pv[2 * r + 1], st->n, st->w, t)) return false;
			pv.push_back(t);
		}
		(void)cp;
		return true;
	};
	c->pubins = [st, mods](const RunOut &h, std::vector<PubIn> &out) {
		bool any0 = false, any1 = false;
		for (size_t j = 1; j < h.vp.size(); j++) { if (bit_of(h.vp[j])) any1 = true; else any0 = true; }
		for (size_t i = 0; i < st->n; i++)
			for (size_t k = 0; k < 2; k++)
				for (size_t b = 0; b < st->w; b++)
				{
					const Z *m = &(*mods)[k];
					size_t o = (i + 1) % st->n;
					PubIn a; a.name = "s.z", a.target = &st->sV[i].z[k][b], a.tag = Tag(K_MODM, "s.z", m, m); a.tag.covered = any0; a.neighbours.push_back(Z(&st->s[o].z[k][b])); out.push_back(a);
					PubIn d; d.name = "s2.z", d.target = &st->s2V[i].z[k][b], d.tag = Tag(K_MODM, "s2.z", m, m); d.tag.covered = any1; d.neighbours.push_back(Z(&st->s2[o].z[k][b])); out.push_back(d);
				}
		for (size_t k = 0; k < 2; k++)
		{
			const Z *m = &(*mods)[k];
			PubIn a; a.name = "key.m", a.target = st->Q->ringV->keys[k].m, a.tag = Tag(K_EXACT, "key.m", m, m); a.tag.covered = st->kappa > 0; out.push_back(a);
		}
	};
	return c;
}

// The public coin a of the local generator re-derivation X::SetupGenerators_publiccoin(a): acoin 0 = keep the
// constructor's generators, 1 = a small value, 2 = a value of the size of the group order.  Both sides re-derive with
// the same a after construction (the multi-step sequence construct -> SetupGenerators_publiccoin(a) -> prove/verify).
inline Z coin_a(unsigned acoin)
{
	Z a(42UL);
	if (acoin == 2) { uint64_t x = mcenv::env_seed() ^ 0xa5a5a5a5ULL; mpz_set_ui(a, 1); for (int i = 0; i < 3; i++) { mpz_mul_2exp(a, a, 53); mpz_add_ui(a, a, mcenv::splitmix(x) >> 11); } }
	return a;
}

// ================================================================================================ Groth: SKC alone
struct SKCWorld { GrothSKC *P, *V; size_t nmax; unsigned le, ps, qs, acoin; Z a; std::string ctor_text;
	SKCWorld(uint64_t seed, size_t n, unsigned l, unsigned p_, unsigned q_, unsigned ac) : P(NULL), V(NULL), nmax(n), le(l), ps(p_), qs(q_), acoin(ac)
	{
		with_coins(seed, 11000 + n * 97 + l, [&]() {
			P = new GrothSKC(n, l, p_, q_);
			std::stringstream g;
			P->PublishGroup(g);
			ctor_text = g.str();
			V = new GrothSKC(n, g, l, p_, q_);
			if (acoin) { a = coin_a(acoin); P->SetupGenerators_publiccoin(a); V->SetupGenerators_publiccoin(a); }
			if (!P->CheckGroup() || !V->CheckGroup()) throw std::runtime_error("harness: SKC CheckGroup failed");
		});
	} };
inline SKCWorld &skcworld(size_t nmax, unsigned le, unsigned ps, unsigned qs, unsigned acoin = 0)
{
	static std::map<std::string, SKCWorld *> cache;
	std::string k = drv::str(nmax) + "/" + drv::str(le) + "/" + drv::str(ps) + "/" + drv::str(qs) + "/" + drv::str(acoin);
	if (!cache.count(k)) cache[k] = new SKCWorld(mcenv::env_seed(), nmax, le, ps, qs, acoin);
	return *cache[k];
}

inline void add_skc_tags(const Cell &c, size_t n, int mode, std::vector<Tag> &pv, std::vector<Tag> &vp)
{
	if (mode == 0) vp.push_back(c.T(K_CHLE, "skc.x"));
	if (mode == 1) add_flip(c, pv), add_flip(c, vp);
	pv.push_back(weak(c.T(K_COM, "skc.c_d"), "order2-commitment")), pv.push_back(weak(c.T(K_COM, "skc.c_Delta"), "order2-commitment")),
		pv.push_back(weak(c.T(K_COM, "skc.c_a"), "order2-commitment"));
	if (mode == 0) vp.push_back(c.T(K_CHLE, "skc.e"));
	if (mode == 1) add_flip(c, pv), add_flip(c, vp);
	add_n(pv, n, c.T(K_EXPR, "skc.f"));
	pv.push_back(c.T(K_EXPR, "skc.z"));
	add_n(pv, n - 1, c.T(K_EXPR, "skc.f_Delta"));
	pv.push_back(c.T(K_EXPR, "skc.z_Delta"));
}

struct SKCSt { SKCWorld *S; JareckiLysyanskayaEDCF *eP, *eV; size_t n; std::vector<size_t> pi; int mode; bool opt;
	std::vector<mpz_ptr> m, mpi, mV; Z c, r, cV; GrothSKC *alt; std::string gtext;
	SKCSt() : S(NULL), eP(NULL), eV(NULL), n(0), mode(0), opt(true), alt(NULL) {}
	GrothSKC *V() { return alt ? alt : S->V; }
	~SKCSt() { delete alt; for (size_t i = 0; i < m.size(); i++) { mpz_clear(m[i]), mpz_clear(mpi[i]), mpz_clear(mV[i]); delete [] m[i]; delete [] mpi[i]; delete [] mV[i]; } delete eP; delete eV; } };

// mode 0 interactive, 1 public coin, 2 non-interactive
inline CellP make_skc(SKCWorld &S, size_t n, const std::vector<size_t> &pi, int mode, bool opt)
{
	CellP c(new Cell);
	std::shared_ptr<SKCSt> st(new SKCSt);
	st->S = &S, st->n = n, st->pi = pi, st->mode = mode, st->opt = opt;
	for (size_t i = 0; i < n; i++)
	{
		mpz_ptr a = new mpz_t(), b = new mpz_t(), d = new mpz_t();
		mpz_init(a), mpz_init(b), mpz_init(d);
		st->m.push_back(a), st->mpi.push_back(b), st->mV.push_back(d);
	}
	c->keep = st;
	c->family = mode == 0 ? "skc-int" : (mode == 1 ? "skc-pc" : "skc-ni");
	c->inter = mode != 2;
	c->p = Z(S.P->com->p), c->q = Z(S.P->com->q);
	c->le = S.le;
	Cell *cp = c.get();
	c->prepare = [st](uint64_t seed) {
		with_coins(seed, 12, [&]() {
			PedersenCommitmentScheme *com = st->S->P->com;
			for (size_t i = 0; i < st->n; i++)
			{
				tmcg_mpz_srandomm(st->m[i], com->q);
				mpz_set(st->mV[i], st->m[i]);
			}
			for (size_t i = 0; i < st->n; i++) mpz_set(st->mpi[i], st->m[st->pi[i]]);
			com->Commit(st->c, st->r, st->mpi);
			st->cV = st->c;
			if (st->mode == 1 && !st->eP)
			{
				st->eP = new JareckiLysyanskayaEDCF(2, 0, com->p, com->q, com->g[0], com->h);
				st->eV = new JareckiLysyanskayaEDCF(2, 0, st->S->V->com->p, st->S->V->com->q, st->S->V->com->g[0], st->S->V->com->h);
			}
		});
	};
	c->prover = [st](std::iostream &s) {
		if (st->mode == 0) st->S->P->Prove_interactive(st->pi, st->r, st->m, s, s);
		if (st->mode == 1) st->S->P->Prove_interactive_publiccoin(st->pi, st->r, st->m, st->eP, s, s);
		if (st->mode == 2) st->S->P->Prove_noninteractive(st->pi, st->r, st->m, s);
		return true;
	};
	c->verifier = [st](std::iostream &s) {
		if (st->mode == 0) return st->V()->Verify_interactive(st->cV, st->mV, s, s, st->opt);
		if (st->mode == 1) return st->V()->Verify_interactive_publiccoin(st->cV, st->mV, st->eV, s, s, st->opt);
		return st->V()->Verify_noninteractive(st->cV, st->mV, s, st->opt);
	};
	c->tags = [cp, st](const RunOut &, std::vector<Tag> &pv, std::vector<Tag> &vp) { add_skc_tags(*cp, st->n, st->mode, pv, vp); return true; };
	c->pubins = [cp, st](const RunOut &, std::vector<PubIn> &out) {
		// the commitment scheme the verifier was constructed with: p, q, k, h, g_1..g_N  (rebuilt from a mutated text)
		if (st->gtext.empty()) { std::stringstream g; st->S->V->PublishGroup(g); st->gtext = g.str(); }
		std::shared_ptr<SKCSt> s2 = st;
		auto rebuilt = [s2, cp](const std::string &name, const std::vector<size_t> &lines, Kind k, const char *wk) {
			PubIn a;
			a.name = name, a.tag = cp->T(k, name), a.tag.weak = wk;
			a.getv = [s2, lines]() { return line_value(s2->gtext, lines[0]); };
			a.setv = [s2, lines](const Z &w) { std::stringstream g(replace_lines(s2->gtext, lines, w)); delete s2->alt; s2->alt = new GrothSKC(s2->S->nmax, g, s2->S->le, s2->S->ps, s2->S->qs); };
			a.restore = [s2]() { delete s2->alt; s2->alt = NULL; };
			return a;
		};
		out.push_back(weak_pub(pub_elem(*cp, "c", st->cV, K_COM), "order2-input"));
		for (size_t i = 0; i < st->n; i++)
		{
			PubIn a = pub_elem(*cp, "m", st->mV[i], K_EXP); a.neighbours.push_back(Z(st->m[(i + 1) % st->n])); out.push_back(a);
			PubIn g = rebuilt("com.g", ix(4 + i), K_ELEM, "order2-input"); g.neighbours.push_back(line_value(st->gtext, 4 + (i + 1) % st->n)); out.push_back(g);
		}
		out.push_back(rebuilt("com.h", ix(3), K_ELEM, "order2-input"));
		out.push_back(rebuilt("com.p", ix(0), K_EXACT, ""));
		if (st->S->acoin)
		{
			// the public coin of SetupGenerators_publiccoin(a): the verifier alone re-derives its generators from another a
			PubIn a;
			a.name = "coin.a", a.tag = cp->T(K_EXACT, "coin.a");
			a.getv = [s2]() { return s2->S->a; };
			a.setv = [s2](const Z &w) { std::stringstream g(s2->S->ctor_text); delete s2->alt; s2->alt = new GrothSKC(s2->S->nmax, g, s2->S->le, s2->S->ps, s2->S->qs); s2->alt->SetupGenerators_publiccoin(w); };
			a.restore = [s2]() { delete s2->alt; s2->alt = NULL; };
			out.push_back(a);
		}
		// com.q is not mutated: the SKC verifiers assert() that the challenge e is invertible modulo q, so a caller who
		// passes a composite q makes the library abort; CheckGroup() is the documented precondition (C06's subject)
	};
	return c;
}

// ================================================================================================ Groth VSSHE / Hoogh VRHE on VTMF stacks
// sep: the commitment group of the GrothVSSHE instances.  0: the ElGamal group itself (constructor taking p_ENC,...);
// 1: an independently generated PedersenCommitmentScheme of the same sizes (another q), 2: of larger sizes, 3: of smaller
// sizes; for sep > 0 both instances are stream-constructed from "p q g h" of the ElGamal group followed by the published
// commitment scheme (the only constructor that admits a separate commitment group).
struct ShWorld { World *W; GrothVSSHE *vsP, *vsV; HooghSchoenmakersSkoricVillegasVRHE *vrP, *vrV; size_t nmax; unsigned le, acoin, sep; Z a; std::string ctor_text;
	ShWorld(uint64_t seed, World &w, size_t n, unsigned l, unsigned ac, unsigned sp) : W(&w), vsP(NULL), vsV(NULL), vrP(NULL), vrV(NULL), nmax(n), le(l), acoin(ac), sep(sp)
	{
		with_coins(seed, 13000 + n * 89 + l + 7919 * sp, [&]() {
			BarnettSmartVTMF_dlog *A = w.A;
			if (sep == 0 || sep == 4)
			{
				vsP = new GrothVSSHE(n, A->p, A->q, A->k, A->g, A->h, l, w.psize, w.qsize);
				std::stringstream g;
				vsP->PublishGroup(g);
				ctor_text = g.str();
				if (sep == 0)
					vsV = new GrothVSSHE(n, g, l, w.psize, w.qsize);
				else
				{
					// sep 4: the verifier's instance is constructed INDEPENDENTLY over the same group (its own random generators);
					// only the common SetupGenerators_publiccoin(a) below makes the two commitment keys equal (needs acoin != 0)
					if (!acoin) throw std::runtime_error("harness: independent construction needs the public coin");
					vsV = new GrothVSSHE(n, A->p, A->q, A->k, A->g, A->h, l, w.psize, w.qsize);
				}
			}
			else
			{
				unsigned ps2 = w.psize, qs2 = w.qsize;
				if (sep == 2) ps2 += 64, qs2 += 32;
				if (sep == 3) qs2 -= 32;
				PedersenCommitmentScheme pc(n, ps2, qs2);
				if (!mpz_cmp(pc.q, A->q)) throw std::runtime_error("harness: separate commitment group has the same order");
				std::stringstream g;
				g << A->p << std::endl << A->q << std::endl << A->g << std::endl << A->h << std::endl;
				pc.PublishGroup(g);
				ctor_text = g.str();
				std::stringstream g1(ctor_text), g2(ctor_text);
				// the size arguments are lower bounds checked by CheckGroup for the commitment group: declare the smaller one
				vsP = new GrothVSSHE(n, g1, l, w.psize, qs2 < w.qsize ? qs2 : w.qsize);
				vsV = new GrothVSSHE(n, g2, l, w.psize, qs2 < w.qsize ? qs2 : w.qsize);
			}
			if (acoin) { a = coin_a(acoin); vsP->SetupGenerators_publiccoin(a); vsV->SetupGenerators_publiccoin(a); }
			if (!vsP->CheckGroup() || !vsV->CheckGroup()) throw std::runtime_error("harness: VSSHE CheckGroup failed");
			vrP = new HooghSchoenmakersSkoricVillegasVRHE(A->p, A->q, A->g, A->h, w.psize, w.qsize);
			std::stringstream g2;
			vrP->PublishGroup(g2);
			vrV = new HooghSchoenmakersSkoricVillegasVRHE(g2, w.psize, w.qsize);
			if (sep > 0) { delete vrP; std::stringstream g3(g2.str()); vrP = new HooghSchoenmakersSkoricVillegasVRHE(g3, w.psize, w.qsize); }   // prover instance from the stream as well
			if (!vrP->CheckGroup() || !vrV->CheckGroup()) throw std::runtime_error("harness: VRHE CheckGroup failed");
		});
	} };
inline ShWorld &shworld(World &W, size_t nmax, unsigned le, unsigned acoin = 0, unsigned sep = 0)
{
	static std::map<std::string, ShWorld *> cache;
	std::string k = drv::str(W.psize) + "/" + drv::str(W.qsize) + "/" + drv::str(nmax) + "/" + drv::str(le) + "/" + drv::str(acoin) + "/" + drv::str(sep) + "/" + drv::str((size_t)&W);
	if (!cache.count(k)) cache[k] = new ShWorld(mcenv::env_seed(), W, nmax, le, acoin, sep);
	return *cache[k];
}

struct ShSt : VStackSt { ShWorld *S; int proto, mode; GrothVSSHE *vsAlt; HooghSchoenmakersSkoricVillegasVRHE *vrAlt; std::string vstext, vrtext; bool foreign_edcf;
	ShSt() : S(NULL), proto(0), mode(0), vsAlt(NULL), vrAlt(NULL), foreign_edcf(false) {}
	~ShSt() { delete vsAlt; delete vrAlt; } };

// proto 0: GrothVSSHE directly, 1: through TMCG_*StackEquality_Groth*, 2: VRHE directly, 3: through TMCG_*_Hoogh*
// mode  0: interactive (direct only), 1: public coin, 2: non-interactive
// foreign_edcf: the coin-flipping instance of the public-coin forms lives in ANOTHER group with a longer subgroup order (the
// caller supplies it separately), so the jointly flipped coins have to be reduced modulo the order of the proof's own group
inline CellP make_shuffle(ShWorld &S, int proto, int mode, size_t n, const std::vector<size_t> &pi, bool foreign_edcf = false)
{
	CellP c(new Cell);
	std::shared_ptr<ShSt> st(new ShSt);
	World &W = *S.W;
	st->W = &W, st->S = &S, st->n = n, st->pi = pi, st->proto = proto, st->mode = mode, st->foreign_edcf = foreign_edcf;
	st->tP = new SchindelhauerTMCG(8, 2, 3), st->tV = new SchindelhauerTMCG(8, 2, 3);
	c->keep = st;
	static const char *pn[] = {"vsshe", "groth", "vrhe", "hoogh"}, *mn[] = {"int", "pc", "ni"};
	c->family = std::string(pn[proto]) + "-" + mn[mode];
	c->inter = mode != 2;
	c->p = Z(W.A->p), c->q = Z(W.A->q);
	c->le = S.le;
	Cell *cp = c.get();
	c->prepare = [st](uint64_t seed) {
		build_vstack(*st, seed);
		if (st->mode == 1 && !st->eP)
		{
			BarnettSmartVTMF_dlog *A = st->W->A, *B = st->W->B;
			if (st->foreign_edcf)
			{
				World &F = world(st->W->psize + 64, st->W->qsize + 64);
				A = F.A, B = F.B;
			}
			st->eP = new JareckiLysyanskayaEDCF(2, 0, A->p, A->q, A->g, A->h);
			st->eV = new JareckiLysyanskayaEDCF(2, 0, B->p, B->q, B->g, B->h);
		}
	};
	c->prover = [st](std::iostream &s) {
		GrothVSSHE *vs = st->S->vsP;
		HooghSchoenmakersSkoricVillegasVRHE *vr = st->S->vrP;
		BarnettSmartVTMF_dlog *A = st->W->A;
		switch (st->proto * 3 + st->mode)
		{
			case 0: vs->Prove_interactive(st->gpi, st->R, st->e, st->E, s, s); break;
			case 1: vs->Prove_interactive_publiccoin(st->gpi, st->R, st->e, st->E, st->eP, s, s); break;
			case 2: vs->Prove_noninteractive(st->gpi, st->R, st->e, st->E, s); break;
			case 4: st->tP->TMCG_ProveStackEquality_Groth(st->s, st->s2, st->ss, A, vs, s, s); break;
			case 5: st->tP->TMCG_ProveStackEquality_Groth_noninteractive(st->s, st->s2, st->ss, A, vs, s); break;
			case 6: vr->Prove_interactive(st->rot, st->R, st->e, st->E, s, s); break;
			case 7: vr->Prove_interactive_publiccoin(st->rot, st->R, st->e, st->E, st->eP, s, s); break;
			case 8: vr->Prove_noninteractive(st->rot, st->R, st->e, st->E, s); break;
			case 10: st->tP->TMCG_ProveStackEquality_Hoogh(st->s, st->s2, st->ss, A, vr, s, s); break;
			case 11: st->tP->TMCG_ProveStackEquality_Hoogh_noninteractive(st->s, st->s2, st->ss, A, vr, s); break;
			default: throw std::runtime_error("harness: no such variant");
		}
		return true;
	};
	c->verifier = [st](std::iostream &s) {
		GrothVSSHE *vs = st->vsAlt ? st->vsAlt : st->S->vsV;
		HooghSchoenmakersSkoricVillegasVRHE *vr = st->vrAlt ? st->vrAlt : st->S->vrV;
		BarnettSmartVTMF_dlog *B = st->W->B;
		switch (st->proto * 3 + st->mode)
		{
			case 0: return vs->Verify_interactive(st->eV_, st->EV_, s, s);
			case 1: return vs->Verify_interactive_publiccoin(st->eV_, st->EV_, st->eV, s, s);
			case 2: return vs->Verify_noninteractive(st->eV_, st->EV_, s);
			case 4: return st->tV->TMCG_VerifyStackEquality_Groth(st->sV, st->s2V, B, vs, s, s);
			case 5: return st->tV->TMCG_VerifyStackEquality_Groth_noninteractive(st->sV, st->s2V, B, vs, s);
			case 6: return vr->Verify_interactive(st->eV_, st->EV_, s, s);
			case 7: return vr->Verify_interactive_publiccoin(st->eV_, st->EV_, st->eV, s, s);
			case 8: return vr->Verify_noninteractive(st->eV_, st->EV_, s);
			case 10: return st->tV->TMCG_VerifyStackEquality_Hoogh(st->sV, st->s2V, B, vr, s, s);
			case 11: return st->tV->TMCG_VerifyStackEquality_Hoogh_noninteractive(st->sV, st->s2V, B, vr, s);
		}
		throw std::runtime_error("harness: no such variant");
	};
	c->tags = [cp, st](const RunOut &, std::vector<Tag> &pv, std::vector<Tag> &vp) {
		size_t n = st->n;
		int mode = st->mode;
		if (st->proto < 2)
		{
			pv.push_back(weak(cp->T(K_COM, "c"), "order2-commitment")), pv.push_back(weak(cp->T(K_COM, "c_d"), "order2-commitment"));
			pv.push_back(weak(cp->T(K_ELEM, "E_d.1"), "norange")), pv.push_back(weak(cp->T(K_ELEM, "E_d.2"), "norange"));
			if (mode == 0) add_n(vp, n, cp->T(K_CHLE, "t"));
			if (mode == 1) for (size_t i = 0; i < n; i++) add_flip(*cp, pv), add_flip(*cp, vp);
			add_n(pv, n, cp->T(K_EXPR, "f"));
			pv.push_back(cp->T(K_EXPR, "Z"));
			if (mode == 0) vp.push_back(cp->T(K_CHLE, "lambda"));
			if (mode == 1) add_flip(*cp, pv), add_flip(*cp, vp);
			add_skc_tags(*cp, n, mode, pv, vp);
		}
		else
		{
			if (mode == 0) add_n(vp, n, cp->T(K_EXP, "alpha"));
			if (mode == 1) for (size_t i = 0; i < n; i++) add_flip(*cp, pv), add_flip(*cp, vp);
			add_n(pv, n, cp->T(K_ELEM, "h_k"));
			add_n(pv, 2 * n, cp->T(K_ELEM, "A_k"));
			pv.push_back(cp->T(K_EXPR, "v"));
			add_n(pv, n, cp->T(K_ELEM, "f_k"));
			add_n(pv, 2 * n, cp->T(K_ELEM, "F_k"));
			if (mode == 0) vp.push_back(cp->T(K_EXP, "lambda"));
			if (mode == 1) add_flip(*cp, pv), add_flip(*cp, vp);
			add_n(pv, n, cp->T(K_EXPR, "tau")), add_n(pv, n, cp->T(K_EXPR, "rho")), add_n(pv, n, cp->T(K_EXPR, "mu"));
			// PUB-ROT-ZK
			if (mode == 0) add_n(vp, n, cp->T(K_EXP, "rot.beta"));
			if (mode == 1) for (size_t i = 0; i < n; i++) add_flip(*cp, pv), add_flip(*cp, vp);
			add_n(pv, n, cp->T(K_ELEM, "rot.f"));
			if (mode == 0) vp.push_back(cp->T(K_EXP, "rot.lambda"));
			if (mode == 1) add_flip(*cp, pv), add_flip(*cp, vp);
			add_n(pv, n, cp->T(K_EXPR, "rot.lambda_k")), add_n(pv, n, cp->T(K_EXPR, "rot.t_k"));
		}
		return true;
	};
	c->pubins = [cp, st](const RunOut &, std::vector<PubIn> &out) {
		bool wrapper = (st->proto == 1 || st->proto == 3);
		for (size_t i = 0; i < st->n; i++)
		{
			size_t o = (i + 1) % st->n;
			mpz_ptr t[4];
			if (wrapper) { t[0] = st->sV[i].c_1, t[1] = st->sV[i].c_2, t[2] = st->s2V[i].c_1, t[3] = st->s2V[i].c_2; }
			else { t[0] = st->eV_[i].first, t[1] = st->eV_[i].second, t[2] = st->EV_[i].first, t[3] = st->EV_[i].second; }
			mpz_srcptr nb[4] = {st->s[o].c_1, st->s[o].c_2, st->s2[o].c_1, st->s2[o].c_2};
			const char *nm[4] = {"s", "s", "s2", "s2"};
			// the class-level verifiers do not test the caller's cards for membership; the wrappers test the shuffled stack only;
			// the non-interactive variants hash every component of both stacks literally
			for (int k = 0; k < 4; k++)
			{
				PubIn a = pub_elem(*cp, std::string(nm[k]) + "[" + drv::str(i) + "].c_" + drv::str(k % 2 + 1), t[k]);
				a.neighbours.push_back(Z(nb[k]));
				if (!wrapper || k < 2) a.tag.weak = "order2-input";
				a.stack = k / 2 + 1, a.card = i, a.comp = k % 2 + 1;
				a.bound = (st->mode == 2) || (wrapper && k >= 2);
				out.push_back(a);
			}
		}
		std::shared_ptr<ShSt> s2 = st;
		if (st->proto < 2)
		{
			// GrothVSSHE group text: p, q, g, h, then the commitment scheme p, q, k, h, g_1..g_N
			if (st->vstext.empty()) { std::stringstream g; st->S->vsV->PublishGroup(g); st->vstext = g.str(); }
			auto rebuilt = [s2, cp](const std::string &name, const std::vector<size_t> &lines, Kind k, const char *wk) {
				PubIn a;
				a.name = name, a.tag = cp->T(k, name), a.tag.weak = wk;
				a.getv = [s2, lines]() { return line_value(s2->vstext, lines[0]); };
				a.setv = [s2, lines](const Z &w) { std::stringstream g(replace_lines(s2->vstext, lines, w)); delete s2->vsAlt; s2->vsAlt = new GrothVSSHE(s2->S->nmax, g, s2->S->le, s2->W->psize, s2->W->qsize); };
				a.restore = [s2]() { delete s2->vsAlt; s2->vsAlt = NULL; };
				return a;
			};
			out.push_back(rebuilt("vsshe.p", ix(0, 4), K_EXACT, "")), out.push_back(rebuilt("vsshe.q", ix(1, 5), K_EXACT, ""));
			out.push_back(rebuilt("vsshe.g", ix(2), K_ELEM, "order2-input")), out.push_back(rebuilt("vsshe.h", ix(3, 7), K_ELEM, "order2-input"));
			for (size_t i = 0; i < st->n; i++)
			{
				PubIn g = rebuilt("com.g", ix(8 + i), K_ELEM, "order2-input");
				g.neighbours.push_back(line_value(st->vstext, 8 + (i + 1) % st->n));
				out.push_back(g);
			}
			if (st->S->acoin)
			{
				// the public coin of GrothVSSHE::SetupGenerators_publiccoin(a): the verifier alone re-derives from another a
				PubIn a;
				a.name = "coin.a", a.tag = cp->T(K_EXACT, "coin.a");
				a.getv = [s2]() { return s2->S->a; };
				a.setv = [s2](const Z &w) { std::stringstream g(s2->S->ctor_text); delete s2->vsAlt; s2->vsAlt = new GrothVSSHE(s2->S->nmax, g, s2->S->le, s2->W->psize, s2->W->qsize); s2->vsAlt->SetupGenerators_publiccoin(w); };
				a.restore = [s2]() { delete s2->vsAlt; s2->vsAlt = NULL; };
				out.push_back(a);
			}
		}
		else
		{
			if (st->vrtext.empty()) { std::stringstream g; st->S->vrV->PublishGroup(g); st->vrtext = g.str(); }
			auto rebuilt = [s2, cp](const std::string &name, const std::vector<size_t> &lines, Kind k, const char *wk) {
				PubIn a;
				a.name = name, a.tag = cp->T(k, name), a.tag.weak = wk;
				a.getv = [s2, lines]() { return line_value(s2->vrtext, lines[0]); };
				a.setv = [s2, lines](const Z &w) { std::stringstream g(replace_lines(s2->vrtext, lines, w)); delete s2->vrAlt; s2->vrAlt = new HooghSchoenmakersSkoricVillegasVRHE(g, s2->W->psize, s2->W->qsize); };
				a.restore = [s2]() { delete s2->vrAlt; s2->vrAlt = NULL; };
				return a;
			};
			out.push_back(rebuilt("vrhe.p", ix(0), K_EXACT, "")), out.push_back(rebuilt("vrhe.q", ix(1), K_EXACT, ""));
			out.push_back(rebuilt("vrhe.g", ix(2), K_ELEM, "order2-input")), out.push_back(rebuilt("vrhe.h", ix(3), K_ELEM, "order2-input"));
		}
		if (wrapper) group_pubins(*cp, st->W->B, out);
	};
	return c;
}

// ================================================================================================ commitments
struct ComSt { int mode; size_t n; PedersenCommitmentScheme *P, *V; PedersenTrapdoorCommitmentScheme *tP, *tV;
	std::vector<mpz_ptr> m, mV; Z c, r, tm; PedersenCommitmentScheme *alt; PedersenTrapdoorCommitmentScheme *talt; std::string gtext, ctor_text; size_t nmax; unsigned ps, qs, acoin; bool without_h; Z a;
	ComSt() : mode(0), n(0), P(NULL), V(NULL), tP(NULL), tV(NULL), alt(NULL), talt(NULL), nmax(0), ps(0), qs(0), acoin(0), without_h(true) {}
	~ComSt() { delete alt; delete talt; for (size_t i = 0; i < m.size(); i++) { mpz_clear(m[i]), mpz_clear(mV[i]); delete [] m[i]; delete [] mV[i]; } delete P; delete V; delete tP; delete tV; } };

// The "transcript" of a commitment opening is (c, r, m_1..m_n): one line each; the verifier is Verify(c, r, m).
inline CellP make_commit(int mode /*0 Pedersen, 1 trapdoor*/, size_t nmax, size_t n, unsigned ps, unsigned qs, unsigned acoin = 0, bool without_h = true, unsigned life = 0)
{
	CellP c(new Cell);
	std::shared_ptr<ComSt> st(new ComSt);
	st->mode = mode, st->n = n, st->nmax = nmax, st->ps = ps, st->qs = qs, st->acoin = acoin, st->without_h = without_h;
	with_coins(mcenv::env_seed(), 14000 + nmax * 7 + mode, [&]() {
		std::stringstream g;
		if (mode == 0) { st->P = new PedersenCommitmentScheme(nmax, ps, qs); st->P->PublishGroup(g); st->ctor_text = g.str(); st->V = new PedersenCommitmentScheme(nmax, g, ps, qs);
			if (life) { delete st->P; std::stringstream g1(st->ctor_text); st->P = new PedersenCommitmentScheme(nmax, g1, ps, qs); }   // the committing side from the stream too
			if (acoin) { st->a = coin_a(acoin); st->P->SetupGenerators_publiccoin(st->a, without_h); st->V->SetupGenerators_publiccoin(st->a, without_h); }
			if (!st->P->CheckGroup() || !st->V->CheckGroup()) throw std::runtime_error("harness: Pedersen CheckGroup failed"); }
		else { st->tP = new PedersenTrapdoorCommitmentScheme(ps, qs); st->tP->PublishGroup(g); std::string tt = g.str(); st->tV = new PedersenTrapdoorCommitmentScheme(g, ps, qs);
			if (life) { delete st->tP; std::stringstream g1(tt); st->tP = new PedersenTrapdoorCommitmentScheme(g1, ps, qs); }
			if (!st->tP->CheckGroup() || !st->tV->CheckGroup()) throw std::runtime_error("harness: trapdoor CheckGroup failed"); }
	});
	for (size_t i = 0; i < n; i++)
	{
		mpz_ptr a = new mpz_t(), b = new mpz_t();
		mpz_init(a), mpz_init(b);
		st->m.push_back(a), st->mV.push_back(b);
	}
	c->keep = st;
	c->family = mode == 0 ? "pedersen" : "trapdoor";
	c->inter = false;
	c->p = Z(mode == 0 ? st->P->p : st->tP->p), c->q = Z(mode == 0 ? st->P->q : st->tP->q);
	Cell *cp = c.get();
	c->prepare = [st](uint64_t seed) {
		with_coins(seed, 15, [&]() {
			if (st->mode == 0)
			{
				for (size_t i = 0; i < st->n; i++) tmcg_mpz_srandomm(st->m[i], st->P->q);
				st->P->Commit(st->c, st->r, st->m);
			}
			else
			{
				tmcg_mpz_srandomm(st->tm, st->tP->p);
				st->tP->Commit(st->c, st->r, st->tm);
			}
		});
	};
	c->prover = [st](std::iostream &s) {
		s << st->c << std::endl << st->r << std::endl;
		if (st->mode == 0) for (size_t i = 0; i < st->n; i++) s << st->m[i] << std::endl;
		else s << st->tm << std::endl;
		return true;
	};
	c->verifier = [st](std::iostream &s) {
		Z cc, rr, mm;
		s >> cc >> rr;
		if (st->mode == 0)
		{
			for (size_t i = 0; i < st->n; i++) s >> st->mV[i];
			if (!s.good()) return false;
			return (st->alt ? st->alt : st->V)->Verify(cc, rr, st->mV);
		}
		s >> mm;
		if (!s.good()) return false;
		return (st->talt ? st->talt : st->tV)->Verify(cc, rr, mm);
	};
	c->tags = [cp, st](const RunOut &, std::vector<Tag> &pv, std::vector<Tag> &) {
		pv.push_back(cp->T(K_ELEM, "c")), pv.push_back(cp->T(K_EXPR, "r"));
		if (st->mode == 0) add_n(pv, st->n, cp->T(K_EXP, "m"));
		else pv.push_back(cp->T(K_EXACT, "m"));
		return true;
	};
	c->pubins = [cp, st](const RunOut &, std::vector<PubIn> &out) {
		// Pedersen: p, q, k, h, g_1..g_N ; trapdoor: p, q, k, g, h   (the verifier object is rebuilt from a mutated text)
		if (st->gtext.empty()) { std::stringstream g; if (st->mode == 0) st->V->PublishGroup(g); else st->tV->PublishGroup(g); st->gtext = g.str(); }
		std::shared_ptr<ComSt> s2 = st;
		auto rebuilt = [s2, cp](const std::string &name, size_t line, Kind k, const char *wk) {
			PubIn a;
			a.name = name, a.tag = cp->T(k, name), a.tag.weak = wk;
			a.getv = [s2, line]() { return line_value(s2->gtext, line); };
			a.setv = [s2, line](const Z &w) {
				std::stringstream g(replace_lines(s2->gtext, ix(line), w));
				delete s2->alt; delete s2->talt; s2->alt = NULL; s2->talt = NULL;
				if (s2->mode == 0) s2->alt = new PedersenCommitmentScheme(s2->nmax, g, s2->ps, s2->qs);
				else s2->talt = new PedersenTrapdoorCommitmentScheme(g, s2->ps, s2->qs);
			};
			a.restore = [s2]() { delete s2->alt; delete s2->talt; s2->alt = NULL; s2->talt = NULL; };
			return a;
		};
		if (st->mode == 0)
		{
			for (size_t i = 0; i < st->n; i++) out.push_back(rebuilt("com.g", 4 + i, K_ELEM, "order2-input"));
			out.push_back(rebuilt("com.h", 3, K_ELEM, "order2-input")), out.push_back(rebuilt("com.p", 0, K_EXACT, ""));
			if (st->acoin)
			{
				PubIn a;
				a.name = "coin.a", a.tag = cp->T(K_EXACT, "coin.a");
				a.getv = [s2]() { return s2->a; };
				a.setv = [s2](const Z &w) { std::stringstream g(s2->ctor_text); delete s2->alt; s2->alt = new PedersenCommitmentScheme(s2->nmax, g, s2->ps, s2->qs); s2->alt->SetupGenerators_publiccoin(w, s2->without_h); };
				a.restore = [s2]() { delete s2->alt; s2->alt = NULL; };
				out.push_back(a);
			}
		}
		else
		{
			out.push_back(rebuilt("com.g", 3, K_ELEM, "order2-input")), out.push_back(rebuilt("com.h", 4, K_ELEM, "order2-input"));
			out.push_back(rebuilt("com.p", 0, K_EXACT, ""));
		}
	};
	return c;
}

// ================================================================================================ two-party coin flip
struct FlipSt { World *W; JareckiLysyanskayaEDCF *e0, *e1, *alt; Z a0, a1; Z crs[4]; FlipSt() : W(NULL), e0(NULL), e1(NULL), alt(NULL) {} ~FlipSt() { delete e0; delete e1; delete alt; } };

// side A = party 0, side B = party 1.  "accept" of the cell = party 1 returned true; party 0's verdict is in p_ok.
inline CellP make_flip(World &W)
{
	CellP c(new Cell);
	std::shared_ptr<FlipSt> st(new FlipSt);
	st->W = &W;
	st->e0 = new JareckiLysyanskayaEDCF(2, 0, W.A->p, W.A->q, W.A->g, W.A->h);
	st->e1 = new JareckiLysyanskayaEDCF(2, 0, W.B->p, W.B->q, W.B->g, W.B->h);
	c->keep = st;
	c->family = "flip";
	c->inter = true;
	c->symmetric = true;
	c->p = Z(W.A->p), c->q = Z(W.A->q);
	Cell *cp = c.get();
	c->prepare = [](uint64_t) { };
	c->prover = [st](std::iostream &s) { std::stringstream err; mpz_set_ui(st->a0, 0); return st->e0->Flip_twoparty(0, st->a0, s, s, err); };
	c->verifier = [st](std::iostream &s) { std::stringstream err; mpz_set_ui(st->a1, 0); return (st->alt ? st->alt : st->e1)->Flip_twoparty(1, st->a1, s, s, err); };
	c->post = [st](std::string &why) { if (mpz_cmp(st->a0, st->a1)) { why = "parties disagree on the coin"; return false; } return true; };
	c->tags = [cp](const RunOut &, std::vector<Tag> &pv, std::vector<Tag> &vp) { add_flip(*cp, pv), add_flip(*cp, vp); return true; };
	c->pubins = [cp, st](const RunOut &, std::vector<PubIn> &out) {
		// party 1 constructed with another common reference string (p, q, g, h)
		st->crs[0] = Z(st->e1->p), st->crs[1] = Z(st->e1->q), st->crs[2] = Z(st->e1->g), st->crs[3] = Z(st->e1->h);
		std::shared_ptr<FlipSt> s2 = st;
		const char *nm[4] = {"crs.p", "crs.q", "crs.g", "crs.h"};
		for (int i = 0; i < 4; i++)
		{
			PubIn a;
			a.name = nm[i], a.tag = cp->T(i < 2 ? K_EXACT : K_ELEM, nm[i]);
			if (i >= 2) a.tag.weak = "order2-input";
			a.getv = [s2, i]() { return s2->crs[i]; };
			a.setv = [s2, i](const Z &w) { Z v[4]; for (int k = 0; k < 4; k++) v[k] = s2->crs[k]; v[i] = w; delete s2->alt; s2->alt = new JareckiLysyanskayaEDCF(2, 0, v[0], v[1], v[2], v[3]); };
			a.restore = [s2]() { delete s2->alt; s2->alt = NULL; };
			out.push_back(a);
		}
	};
	return c;
}

// ================================================================================================ Rabin keys
struct RabinSt { unsigned ks; bool nizk; TMCG_SecretKey *sec; std::string keystr; TMCG_PublicKey *imported; Z m;
	RabinSt() : ks(0), nizk(false), sec(NULL), imported(NULL) {} ~RabinSt() { delete sec; delete imported; } };

inline CellP make_rabin(unsigned keysize, bool nizk)
{
	CellP c(new Cell);
	std::shared_ptr<RabinSt> st(new RabinSt);
	st->ks = keysize, st->nizk = nizk;
	c->keep = st;
	c->family = nizk ? "rabin-nizk" : "rabin";
	c->inter = false;
	Cell *cp = c.get();
	c->prepare = [cp, st](uint64_t seed) {
		with_coins(seed, 16, [&]() {
			delete st->sec;
			st->sec = new TMCG_SecretKey("Alice", "alice@example.org", st->ks, st->nizk);
			TMCG_PublicKey pub(*st->sec);
			std::ostringstream o;
			o << pub;
			st->keystr = o.str();
			st->m = Z(st->sec->m);
			cp->p = st->m;
			mpz_fdiv_q_2exp(cp->q, st->m, 1);
		});
	};
	c->prover = [st](std::iostream &s) { s << st->keystr << std::endl; return true; };
	c->verifier = [st](std::iostream &s) {
		delete st->imported;
		st->imported = new TMCG_PublicKey();
		s >> *st->imported;
		if (!s.good()) return false;
		return st->imported->check();
	};
	c->post = [st](std::string &why) {
		if (!st->sec->check()) { why = "TMCG_SecretKey::check failed"; return false; }
		std::string sig = st->sec->sign("message");
		if (!st->imported->verify("message", sig)) { why = "signature of the key owner rejected"; return false; }
		if (st->imported->verify("massage", sig)) { why = "signature accepted for another message"; return false; }
		return true;
	};
	c->tags = [cp, st](const RunOut &h, std::vector<Tag> &pv, std::vector<Tag> &) {
		if (h.pv.size() != 1) return false;
		Toks tk(h.pv[0]);
		Tag t = cp->T(K_STRUCT, "key");
		// pub|name|email|type|m|y|nzk^s1^..^|sig|keyid|value|
		int bar = 0;
		size_t nz = 0;
		for (size_t i = 0; i < tk.tok.size(); i++)
		{
			Tag x = cp->T(K_TEXT, "key.text");
			if (bar == 4) x = cp->T(K_EXACT, "key.m");
			else if (bar == 5) x = cp->T(K_EXACT, "key.y");
			else if (bar == 6)
			{
				if (tk.tok[i].empty()) { x = cp->T(K_TEXT, ""); x.covered = false; }
				else if (nz == 0) x = cp->T(K_TEXT, "nizk.magic");
				else
				{
					Z v;
					bool small = v.parse(tk.tok[i], 10) && mpz_cmp_ui(v.v, 100000) < 0 && tk.tok[i].size() <= 6;
					x = small ? cp->T(K_CNT, "nizk.size") : cp->T(K_EXACT, "nizk.value");
				}
				nz++;
			}
			else if (bar == 9) { x = cp->T(K_ROOT, "sig.value"); }
			if (bar == 6 && !st->nizk && tk.tok[i].empty()) { x = cp->T(K_TEXT, ""); x.covered = false; }
			t.toks.push_back(x);
			if (tk.delim[i] == '|') bar++;
		}
		pv.push_back(t);
		return true;
	};
	return c;
}


// ================================================================================================ the catalogue
// A Spec is a lazily built cell plus the number of coin seeds it is run with.  `purpose` 3 = completeness (C03: many
// parameter sets and seeds), 5 = binding (C05: small-admissible regime only, l_e = 64 / |q| = 192 for the Groth family so
// that every rejection verdict has error < 2^-54, kappa <= 8, one seed per cell).
struct Spec { std::string id; std::function<CellP()> make; unsigned seeds; };

inline void add_spec(std::vector<Spec> &v, const std::string &id, unsigned seeds, const std::function<CellP()> &mk)
{
	Spec s; s.id = id, s.make = mk, s.seeds = seeds; v.push_back(s);
}

struct GroupCfg { unsigned ps, qs; bool qr; const char *name; };

inline std::vector<Spec> specs(int purpose, const std::string &tier, const std::string &fam)
{
	std::vector<Spec> v;
	bool thorough = tier == "thorough", c5 = purpose == 5;
	auto want = [&](const char *f) { return fam.empty() || ("," + fam + ",").find(std::string(",") + f + ",") != std::string::npos; };
	unsigned sd = c5 ? 1 : (thorough ? 64 : 8);          // coin seeds per cell
	std::vector<GroupCfg> groups;
	{
		GroupCfg a = {256, 160, false, "s256"}, b = {512, 192, false, "s512"}, q = {256, 160, true, "qr256"}, d = {2048, 256, false, "default"};
		groups.push_back(a);
		if (!c5 || thorough) groups.push_back(q);
		if (!c5) groups.push_back(b);
		if (!c5 && thorough) groups.push_back(d);
	}
	// ---- VTMF level
	if (want("vtmf"))
		for (size_t gi = 0; gi < groups.size(); gi++)
		{
			GroupCfg G = groups[gi];
			unsigned s2 = (G.ps >= 2048) ? 1 : sd;
			for (int mode = 0; mode < 3; mode++)
				add_spec(v, std::string("key") + drv::str(mode) + ":" + G.name, s2 * (c5 ? 1 : 2), [G, mode]() { return make_key(world(G.ps, G.qs, G.qr), mode); });
			for (int mode = 0; mode < 5; mode++)
				for (size_t type = 0; type < 8; type += (c5 ? 5 : (thorough ? 1 : 3)))
					add_spec(v, std::string("card") + drv::str(mode) + ":t" + drv::str(type) + ":" + G.name, s2, [G, mode, type]() { return make_card(world(G.ps, G.qs, G.qr), mode, type); });
			for (int mode = 0; mode < 3; mode++)
				add_spec(v, std::string("sigma") + drv::str(mode) + ":" + G.name, s2 * (c5 ? 1 : 2), [G, mode]() { return make_sigma(world(G.ps, G.qs, G.qr), mode); });
			if (G.ps < 2048)
				add_spec(v, std::string("flip:") + G.name, s2 * (c5 ? 1 : 2), [G]() { return make_flip(world(G.ps, G.qs, G.qr)); });
		}
	// ---- QR encoding
	if (want("qr"))
	{
		std::vector<unsigned> kap;
		if (c5) { kap.push_back(2); kap.push_back(8); }
		else { kap.push_back(0), kap.push_back(1), kap.push_back(2), kap.push_back(8), kap.push_back(16); if (thorough) kap.push_back(80); }
		std::vector<unsigned> ksz;
		ksz.push_back(448);
		if (!c5 && thorough) ksz.push_back(704);
		for (size_t zi = 0; zi < ksz.size(); zi++)
			for (size_t ki = 0; ki < kap.size(); ki++)
			{
				unsigned K = kap[ki], ks = ksz[zi];
				unsigned s2 = (K >= 80) ? 1 : (c5 ? 1 : (thorough ? 16 : 4));
				for (size_t type = 0; type < 4; type += (c5 ? 3 : 1))
				{
					if (K >= 80 && type != 2) continue;
					add_spec(v, "qrmask:k" + drv::str(K) + ":t" + drv::str(type) + ":m" + drv::str(ks), s2, [ks, type, K]() { return make_qrcard(qrworld(ks), 0, type, K); });
					for (size_t who = 0; who < 2; who++)
						add_spec(v, "qrsecret:k" + drv::str(K) + ":t" + drv::str(type) + ":w" + drv::str(who) + ":m" + drv::str(ks), s2, [ks, type, K, who]() { return make_qrcard(qrworld(ks), 1, type, K, who); });
				}
				size_t nmax = c5 ? (thorough ? 3 : 2) : (thorough ? 4 : 3);
				if (K >= 80) nmax = 2;
				if (c5 && K != 8 && !thorough) continue;
				for (size_t n = 2; n <= nmax; n++)
				{
					for (size_t pi = 0; pi < fact(n); pi++)
					{
						if (c5 && !thorough && n == 3 && pi != 3) continue;
						std::vector<size_t> p = perm_of(n, pi);
						add_spec(v, "qrstack:k" + drv::str(K) + ":n" + drv::str(n) + ":p" + perm_str(p) + ":m" + drv::str(ks), s2, [ks, n, p, K]() { return make_stack_cc_qr(qrworld(ks), n, p, false, K); });
					}
					for (size_t r = 0; r < n; r++)
					{
						if (c5 && !thorough && r != 1) continue;
						std::vector<size_t> p = rot_of(n, r);
						add_spec(v, "qrstack:k" + drv::str(K) + ":n" + drv::str(n) + ":r" + drv::str(r) + ":m" + drv::str(ks), s2, [ks, n, p, K]() { return make_stack_cc_qr(qrworld(ks), n, p, true, K); });
					}
				}
			}
	}
	// ---- cut-and-choose on VTMF stacks
	if (want("stackcc"))
	{
		std::vector<unsigned> kap;
		if (c5) { kap.push_back(8); if (thorough) kap.push_back(2); }
		else { kap.push_back(0), kap.push_back(1), kap.push_back(2), kap.push_back(8), kap.push_back(16); if (thorough) kap.push_back(80); }
		for (size_t gi = 0; gi < groups.size(); gi++)
		{
			GroupCfg G = groups[gi];
			if (G.ps >= 2048 || (c5 && G.qr)) continue;
			for (size_t ki = 0; ki < kap.size(); ki++)
			{
				unsigned K = kap[ki];
				unsigned s2 = (K >= 80) ? 1 : (c5 ? 1 : (thorough ? 16 : 4));
				size_t nperm = c5 ? (thorough ? 4 : 3) : 4, nrot = c5 ? (thorough ? 4 : 3) : 6;
				if (K >= 80) nperm = nrot = 2;
				if (gi > 0 && !thorough) nperm = nrot = 3;
				for (size_t n = 2; n <= nperm; n++)
					for (size_t pi = 0; pi < fact(n); pi++)
					{
						if (c5 && n == 4 && (pi % 5) != 3) continue;
						std::vector<size_t> p = perm_of(n, pi);
						add_spec(v, std::string("vstack:k") + drv::str(K) + ":n" + drv::str(n) + ":p" + perm_str(p) + ":" + G.name, s2, [G, n, p, K]() { return make_stack_cc_vtmf(world(G.ps, G.qs, G.qr), n, p, false, K); });
					}
				for (size_t n = 2; n <= nrot; n++)
					for (size_t r = 0; r < n; r++)
					{
						std::vector<size_t> p = rot_of(n, r);
						add_spec(v, std::string("vstack:k") + drv::str(K) + ":n" + drv::str(n) + ":r" + drv::str(r) + ":" + G.name, s2, [G, n, p, K]() { return make_stack_cc_vtmf(world(G.ps, G.qs, G.qr), n, p, true, K); });
					}
			}
		}
	}
	// ---- Groth / Hoogh
	// The public-coin and non-interactive SKC verifiers divide by the challenge e without excluding e = 0 (the interactive
	// verifier re-draws e until it is non-zero): an honest run dies in assert(mpz_invert(bar, e, q)) with probability
	// 2^-l_e (public coin: e = coin mod 2^l_e) resp. 2^-2l_e (Fiat-Shamir, l_e_nizk = 2 l_e).  To keep every verdict's
	// error below 2^-40 those variants are exercised with l_e >= 64 resp. >= 32 only; the interactive one with all l_e.
	auto le_ok = [](unsigned le, int mode) { return mode == 0 || (mode == 1 && le >= 64) || (mode == 2 && le >= 32); };
	struct LeCfg { unsigned le, ps, qs; };
	std::vector<LeCfg> les;
	if (c5) { LeCfg a = {64, 320, 192}; les.push_back(a); }
	else { LeCfg a = {8, 256, 160}, b = {16, 256, 160}, d = {32, 384, 160}, e = {64, 512, 192}; les.push_back(a), les.push_back(b), les.push_back(d), les.push_back(e); }
	if (!c5 && thorough && (want("groth") || want("hoogh") || want("skc")))
	{
		// the library's default sizes once (2048/256 bit, l_e = 80): n = 3, one permutation / rotation, one seed
		std::vector<size_t> p3 = perm_of(3, 4), r3 = rot_of(3, 1);
		for (int mode = 0; mode < 3; mode++)
		{
			if (want("skc")) add_spec(v, "skc" + drv::str(mode) + ":default", 1, [p3, mode]() { return make_skc(skcworld(3, 80, 2048, 256), 3, p3, mode, true); });
			if (want("groth")) add_spec(v, "vsshe" + drv::str(mode) + ":default", 1, [p3, mode]() { return make_shuffle(shworld(world(2048, 256), 3, 80), 0, mode, 3, p3); });
			if (want("groth") && mode > 0) add_spec(v, "groth" + drv::str(mode) + ":default", 1, [p3, mode]() { return make_shuffle(shworld(world(2048, 256), 3, 80), 1, mode, 3, p3); });
			if (want("hoogh")) add_spec(v, "vrhe" + drv::str(mode) + ":default", 1, [r3, mode]() { return make_shuffle(shworld(world(2048, 256), 3, 80), 2, mode, 3, r3); });
			if (want("hoogh") && mode > 0) add_spec(v, "hoogh" + drv::str(mode) + ":default", 1, [r3, mode]() { return make_shuffle(shworld(world(2048, 256), 3, 80), 3, mode, 3, r3); });
		}
	}
	if (want("skc"))
		for (size_t li = 0; li < les.size(); li++)
		{
			LeCfg L = les[li];
			size_t nmaxn = c5 ? (thorough ? 4 : 3) : 4;
			for (size_t n = 2; n <= nmaxn; n++)
				for (size_t extra = 0; extra < 2; extra++)
					for (size_t pi = 0; pi < fact(n); pi++)
					{
						if (extra == 1 && (pi % 3) != 1) continue;                 // commitment size n+1: a third of the permutations
						if (c5 && n == 4 && (pi % 7) != 3) continue;
						if (c5 && !thorough && n == 3 && pi != 3 && !(extra == 1 && pi == 1)) continue;
						std::vector<size_t> p = perm_of(n, pi);
						for (int mode = 0; mode < 3; mode++)
							for (int opt = 0; opt < 2; opt++)
							{
								if (!le_ok(L.le, mode)) continue;
								if (c5 && extra == 1 && opt == 0) continue;
								add_spec(v, "skc" + drv::str(mode) + ":o" + drv::str(opt) + ":le" + drv::str(L.le) + ":N" + drv::str(n + extra) + ":n" + drv::str(n) + ":p" + perm_str(p),
									c5 ? 1 : (thorough ? 32 : 4), [L, n, extra, p, mode, opt]() { return make_skc(skcworld(n + extra, L.le, L.ps, L.qs), n, p, mode, opt != 0); });
							}
					}
		}
	if (want("groth") || want("hoogh"))
		for (size_t li = 0; li < les.size(); li++)
		{
			LeCfg L = les[li];
			size_t nmaxn = c5 ? (thorough ? 4 : 3) : 4;
			for (size_t n = 2; n <= nmaxn; n++)
				for (size_t extra = 0; extra < 2; extra++)
				{
					if (want("groth"))
						for (size_t pi = 0; pi < fact(n); pi++)
						{
							if (extra == 1 && (pi % 3) != 1) continue;
							if (c5 && n == 4 && (pi % 7) != 3) continue;
							if (c5 && !thorough && n == 3 && (pi != 3 || extra == 1)) continue;
							std::vector<size_t> p = perm_of(n, pi);
							for (int proto = 0; proto < 2; proto++)
								for (int mode = (proto == 1 ? 1 : 0); mode < 3; mode++)
								{
									if (!le_ok(L.le, mode)) continue;
									if (c5 && extra == 1 && proto == 1) continue;
									add_spec(v, std::string(proto == 0 ? "vsshe" : "groth") + drv::str(mode) + ":le" + drv::str(L.le) + ":N" + drv::str(n + extra) + ":n" + drv::str(n) + ":p" + perm_str(p),
										c5 ? 1 : (thorough ? 32 : 4), [L, n, extra, p, proto, mode]() { return make_shuffle(shworld(world(L.ps, L.qs), n + extra, L.le), proto, mode, n, p); });
								}
						}
					if (want("hoogh") && extra == 0 && li != 1)       // VRHE has no l_e: one run per distinct group
						for (size_t r = 0; r < n; r++)
						{
							if (c5 && !thorough && n == 3 && r != 1) continue;
							std::vector<size_t> p = rot_of(n, r);
							LeCfg H = L;
							if (c5) { H.ps = 256, H.qs = 160; }      // the rotation argument has no l_e: the 256/160 group suffices for C05
							for (int proto = 2; proto < 4; proto++)
								for (int mode = (proto == 3 ? 1 : 0); mode < 3; mode++)
									add_spec(v, std::string(proto == 2 ? "vrhe" : "hoogh") + drv::str(mode) + ":g" + drv::str(H.ps) + ":n" + drv::str(n) + ":r" + drv::str(r),
										c5 ? 1 : (thorough ? 32 : 4), [H, n, p, proto, mode]() { return make_shuffle(shworld(world(H.ps, H.qs), n, H.le), proto, mode, n, p); });
						}
				}
			if (want("hoogh") && !c5 && li != 1)
				for (size_t n = 5; n <= 6; n++)       // all rotations up to n = 6
					for (size_t r = 0; r < n; r++)
					{
						std::vector<size_t> p = rot_of(n, r);
						add_spec(v, "vrhe2:le" + drv::str(L.le) + ":n" + drv::str(n) + ":r" + drv::str(r), 1, [L, n, p]() { return make_shuffle(shworld(world(L.ps, L.qs), n, L.le), 2, 2, n, p); });
					}
		}
	// ---- object lifecycle (C03 only): the Rabin keys of all QR-encoding families taken through export/import, copy
	//      construction, copy assignment (over a default object / over another key) and assignment + destruction of the
	//      source; VTMF, commitment, VRHE instances with the prover's side stream-constructed as well
	if (!c5 && want("qr"))
		for (unsigned life = 1; life <= 5; life++)
		{
			unsigned s2 = thorough ? 8 : 2;
			std::string L = ":life" + drv::str(life);
			for (size_t type = 0; type < 4; type++)
			{
				add_spec(v, "qrmask:k2:t" + drv::str(type) + ":m448" + L, s2, [type, life]() { return make_qrcard(qrworld(448, life), 0, type, 2); });
				for (size_t who = 0; who < 2; who++)
					add_spec(v, "qrsecret:k2:t" + drv::str(type) + ":w" + drv::str(who) + ":m448" + L, s2, [type, who, life]() { return make_qrcard(qrworld(448, life), 1, type, 2, who); });
			}
			for (size_t n = 2; n <= (thorough ? 3 : 2); n++)
			{
				std::vector<size_t> pp = perm_of(n, fact(n) - 1), rr = rot_of(n, 1);
				add_spec(v, "qrstack:k2:n" + drv::str(n) + ":p" + perm_str(pp) + ":m448" + L, s2, [n, pp, life]() { return make_stack_cc_qr(qrworld(448, life), n, pp, false, 2); });
				add_spec(v, "qrstack:k2:n" + drv::str(n) + ":r1:m448" + L, s2, [n, rr, life]() { return make_stack_cc_qr(qrworld(448, life), n, rr, true, 2); });
			}
		}
	if (!c5 && want("vtmf"))
	{
		for (int mode = 0; mode < 3; mode++)
			add_spec(v, std::string("key") + drv::str(mode) + ":s256:stream", sd, [mode]() { return make_key(world(256, 160, false, 1), mode); });
		for (int mode = 0; mode < 5; mode++)
			add_spec(v, std::string("card") + drv::str(mode) + ":t3:s256:stream", sd, [mode]() { return make_card(world(256, 160, false, 1), mode, 3); });
		for (int mode = 0; mode < 3; mode++)
			add_spec(v, std::string("sigma") + drv::str(mode) + ":s256:stream", sd, [mode]() { return make_sigma(world(256, 160, false, 1), mode); });
		add_spec(v, "flip:s256:stream", sd, []() { return make_flip(world(256, 160, false, 1)); });
	}
	if (!c5 && want("commit"))
	{
		add_spec(v, "pedersen:N3:n3:stream", sd, []() { return make_commit(0, 3, 3, 256, 160, 0, true, 1); });
		add_spec(v, "pedersen:N3:n2:a1:stream", sd, []() { return make_commit(0, 3, 2, 256, 160, 1, true, 1); });
		add_spec(v, "trapdoor:stream", sd, []() { return make_commit(1, 1, 1, 256, 160, 0, true, 1); });
	}
	// ---- GrothVSSHE with a commitment group that differs from the ElGamal group (C03 only; the TMCG_ wrappers demand
	//      equal orders, so class level only), and the stream-constructed VRHE prover
	if (!c5 && (want("groth") || want("hoogh")))
		for (size_t li = 0; li < les.size(); li++)
		{
			LeCfg L = les[li];
			for (unsigned sep = 1; sep <= 3; sep++)
			{
				if (sep == 3 && L.qs < 2 * L.le + 64 + 32) continue;     // a smaller commitment group must still satisfy |q| >= 2 l_e + 64
				for (size_t n = 2; n <= 3; n++)
					for (size_t extra = 0; extra < 2; extra++)
					{
						if (extra == 1 && n == 3 && !thorough) continue;
						std::vector<size_t> pp = perm_of(n, n == 2 ? 1 : 3), rr = rot_of(n, 1);
						unsigned sds = thorough ? 16 : 3;
						for (int mode = 0; mode < 3; mode++)
						{
							if (want("groth") && le_ok(L.le, mode))
								for (unsigned ac = 0; ac <= 1; ac++)
								{
									if (ac == 1 && (extra == 1 || sep == 3)) continue;
									add_spec(v, "vsshe" + drv::str(mode) + ":le" + drv::str(L.le) + ":N" + drv::str(n + extra) + ":n" + drv::str(n) + ":p" + perm_str(pp) + ":sep" + drv::str(sep) + (ac ? ":a1" : ""), sds,
										[L, n, extra, pp, mode, sep, ac]() { return make_shuffle(shworld(world(L.ps, L.qs), n + extra, L.le, ac, sep), 0, mode, n, pp); });
								}
							if (want("hoogh") && sep == 1 && extra == 0 && li != 1)
								add_spec(v, "vrhe" + drv::str(mode) + ":g" + drv::str(L.ps) + ":n" + drv::str(n) + ":r1:stream", sds,
									[L, n, rr, mode]() { return make_shuffle(shworld(world(L.ps, L.qs), n, L.le, 0, 1), 2, mode, n, rr); });
						}
					}
			}
		}
	// ---- generators re-derived from a public coin: construct on both sides, both call SetupGenerators_publiccoin(a)
	//      with the same a (two values of a), then the honest proof in all three forms, directly and through the wrappers
	for (size_t li = 0; li < les.size(); li++)
	{
		LeCfg L = les[li];
		if (!c5 && !thorough && (li == 1)) continue;
		for (unsigned ac = 1; ac <= 2; ac++)
			for (size_t n = 2; n <= 3; n++)
				for (size_t extra = 0; extra < 2; extra++)
				{
					if (c5 && (extra == 1 || (n == 3 && !thorough) || (ac == 2 && !thorough))) continue;
					std::vector<size_t> p = perm_of(n, n == 2 ? 1 : 4);
					unsigned sds = c5 ? 1 : (thorough ? 16 : 3);
					for (int mode = 0; mode < 3; mode++)
					{
						if (!le_ok(L.le, mode)) continue;
						if (want("skc"))
							add_spec(v, "skc" + drv::str(mode) + ":o1:le" + drv::str(L.le) + ":N" + drv::str(n + extra) + ":n" + drv::str(n) + ":p" + perm_str(p) + ":a" + drv::str(ac), sds,
								[L, n, extra, p, mode, ac]() { return make_skc(skcworld(n + extra, L.le, L.ps, L.qs, ac), n, p, mode, true); });
						if (want("groth"))
							for (int proto = 0; proto < 2; proto++)
							{
								if (proto == 1 && mode == 0) continue;
								add_spec(v, std::string(proto == 0 ? "vsshe" : "groth") + drv::str(mode) + ":le" + drv::str(L.le) + ":N" + drv::str(n + extra) + ":n" + drv::str(n) + ":p" + perm_str(p) + ":a" + drv::str(ac), sds,
									[L, n, extra, p, proto, mode, ac]() { return make_shuffle(shworld(world(L.ps, L.qs), n + extra, L.le, ac), proto, mode, n, p); });
							}
					}
				}
	}
	// ---- public-coin forms with a coin-flipping instance over a foreign group whose subgroup order is 64 bits longer
	//      (added after seeded change C03-6): VSSHE / Groth wrapper / VRHE / Hoogh wrapper, n = 2 and 3
	if (!c5)
	{
		LeCfg L = les[3];   // l_e = 64, 512/192: the public-coin and non-interactive forms need l_e >= 64 resp. 32
		for (size_t n = 2; n <= 3; n++)
			for (int proto = 0; proto < 4; proto++)
			{
				if ((proto < 2 && !want("groth")) || (proto >= 2 && !want("hoogh"))) continue;
				if (!le_ok(L.le, 1)) continue;
				std::vector<size_t> p = proto < 2 ? perm_of(n, n == 2 ? 1 : 4) : rot_of(n, 1);
				static const char *pn4[] = {"vsshe", "groth", "vrhe", "hoogh"};
				add_spec(v, std::string(pn4[proto]) + "1:foreign-edcf:g" + drv::str(L.ps) + ":n" + drv::str(n), thorough ? 8 : 3,
					[L, n, p, proto]() { return make_shuffle(shworld(world(L.ps, L.qs), n, L.le), proto, 1, n, p, true); });
			}
	}
	// ---- independent construction on both sides + public coin, with MORE generators than the fast-exponentiation tables hold
	//      (TMCG_MAX_FPOWM_N = 256): N = 257 and 260, stacks of 2 cards (quick) and of N cards (thorough); all three proof forms
	//      (added after seeded change C03-5: generators beyond the 256th were not re-derived from the coin)
	if (want("groth") && !c5)
	{
		LeCfg L = les[3];   // l_e = 64, 512/192: the public-coin and non-interactive forms need l_e >= 64 resp. 32
		for (size_t N = 257; N <= 260; N += 3)
			for (int full = 0; full < (thorough ? 2 : 1); full++)
				for (int mode = 0; mode < 3; mode++)
				{
					if (!le_ok(L.le, mode)) continue;
					if (!thorough && mode == 1) continue;
					size_t n = full ? N : 2;
					std::vector<size_t> p = perm_of(n, 1);
					add_spec(v, std::string("vsshe") + drv::str(mode) + ":indep:le" + drv::str(L.le) + ":N" + drv::str(N) + ":n" + drv::str(n) + ":a1", 1,
						[L, N, n, p, mode]() { return make_shuffle(shworld(world(L.ps, L.qs), N, L.le, 1, 4), 0, mode, n, p); });
				}
	}
	if (want("commit"))
		for (unsigned ac = 1; ac <= 2; ac++)
			for (int wh = 0; wh < 2; wh++)
				for (size_t n = 1; n <= 3; n += 2)
					add_spec(v, "pedersen:N3:n" + drv::str(n) + ":a" + drv::str(ac) + (wh ? ":keep-h" : ":new-h"), c5 ? 1 : sd, [n, ac, wh]() { return make_commit(0, 3, n, 256, 160, ac, wh != 0); });
	// ---- commitments
	if (want("commit"))
	{
		for (size_t nmax = 1; nmax <= 4; nmax++)
			for (size_t n = (nmax > 1 ? nmax - 1 : 1); n <= nmax; n++)
				add_spec(v, "pedersen:N" + drv::str(nmax) + ":n" + drv::str(n), c5 ? 1 : sd, [nmax, n]() { return make_commit(0, nmax, n, 256, 160); });
		add_spec(v, "trapdoor", c5 ? 1 : sd, []() { return make_commit(1, 1, 1, 256, 160); });
	}
	// ---- Rabin keys (the NIZK flavour is cheap only with -DTMCG_KEY_NIZK_STAGE*: props select the `tiny` build for it)
	if (want("rabin"))
	{
		add_spec(v, "rabin:448", c5 ? 1 : (thorough ? 8 : 3), []() { return make_rabin(448, false); });
		if (!c5) add_spec(v, "rabin:672", thorough ? 4 : 1, []() { return make_rabin(672, false); });
		if (!c5 && thorough) add_spec(v, "rabin:704", 2, []() { return make_rabin(704, false); });
	}
	if (want("rabinnizk"))
		add_spec(v, "rabinnizk:448", c5 ? 1 : (thorough ? 4 : 2), []() { return make_rabin(448, true); });
	return v;
}

inline uint64_t cell_seed(const std::string &id, unsigned s)
{
	uint64_t x = fnv(id) ^ (mcenv::env_seed() * 0x9e3779b97f4a7c15ULL) ^ ((uint64_t)s << 48);
	return mcenv::splitmix(x);
}
}
#endif
