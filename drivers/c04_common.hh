// C04 — shared pieces of the soundness drivers (c04_sound.cc, c04_guess.cc).
//
// * VWorld: three players P (prover), V (verifier), Q (bystander) of the discrete-log encoding with a common
//   key h = g^(x_P+x_V+x_Q); the harness reads the x_i (private members, -fno-access-control) so that it can
//   *open* every card itself and decide whether a statement is true.
// * QWorld: two players with Rabin keys (quadratic-residue encoding); the harness holds both secret keys.
// * run_inter(): prover and verifier roles on two threads over mc/wire.hh, coins per (seed, case id, role).
#ifndef C04_COMMON_HH
#define C04_COMMON_HH
#include "drv.hh"
#include "wire.hh"
#include <libTMCG.hh>
#include <gmp.h>
#include <algorithm>
#include <functional>
#include <sstream>

namespace c04 {
using namespace drv;

inline uint64_t fnv(const std::string &s)
{
	uint64_t h = 0xcbf29ce484222325ULL;
	for (size_t i = 0; i < s.size(); i++)
		h ^= (unsigned char)s[i], h *= 0x100000001b3ULL;
	return h;
}

inline void harness_error(const std::string &what)
{
	printf("{\"t\":\"error\",\"what\":\"%s\"}\n", jesc(what).c_str());
	fflush(stdout);
	exit(2);
}

struct Z {   // RAII mpz
	mpz_t v;
	Z() { mpz_init(v); }
	Z(const Z &o) { mpz_init_set(v, o.v); }
	Z &operator=(const Z &o) { mpz_set(v, o.v); return *this; }
	~Z() { mpz_clear(v); }
	operator mpz_ptr() { return v; }
	operator mpz_srcptr() const { return v; }
};
inline std::string zs(mpz_srcptr z) { char *s = mpz_get_str(NULL, 16, z); std::string r(s); free(s); return r; }

// scoped coin source for harness-side randomness on the calling thread
struct UseCoins {
	mcenv::CoinSource cs, *old;
	UseCoins(uint64_t seed, uint64_t party) : cs(seed, party), old(mcenv::cur) { mcenv::cur = &cs; }
	~UseCoins() { mcenv::cur = old; }
};

// all permutations of 0..n-1 in lexicographic order
inline std::vector<std::vector<size_t> > all_perms(size_t n)
{
	std::vector<std::vector<size_t> > r;
	std::vector<size_t> p(n);
	for (size_t i = 0; i < n; i++) p[i] = i;
	do r.push_back(p); while (std::next_permutation(p.begin(), p.end()));
	return r;
}
// pi(i) = (r0 + i) mod n for some r0  (this is what random_rotation() in SchindelhauerTMCG.cc produces)
inline bool is_cyclic(const std::vector<size_t> &pi)
{
	size_t n = pi.size();
	for (size_t i = 0; i < n; i++)
		if (pi[i] != (pi[0] + i) % n) return false;
	return true;
}
inline std::string perm_str(const std::vector<size_t> &pi)
{
	std::string s;
	for (size_t i = 0; i < pi.size(); i++) s += (char)('0' + pi[i]);
	return s;
}

// ------------------------------------------------------------------------------------------------ two-party run
struct RunRes {
	bool accept;              // verifier returned true
	bool vthrew, pthrew, timeout;
	std::vector<std::string> vlines;   // lines the verifier sent
	std::vector<std::string> plines;   // lines the prover sent
};

inline RunRes run_inter(const std::function<bool(std::iostream &)> &prover, const std::function<bool(std::iostream &)> &verifier,
	uint64_t seed, mcenv::CoinSource *csP = nullptr, mcenv::CoinSource *csV = nullptr)
{
	wire::Duplex d;
	d.sh.logging = false;
	d.sh.wait_limit = 300.0;
	mcenv::CoinSource a(seed, 101), b(seed, 202);
	wire::Outcome o = wire::run2(d, prover, verifier, seed, csP ? csP : &a, csV ? csV : &b);
	RunRes r;
	r.accept = o.b_ok && !o.b_threw;
	r.vthrew = o.b_threw, r.pthrew = o.a_threw, r.timeout = o.timeout;
	r.vlines = d.ba.sent, r.plines = d.ab.sent;
	if (r.timeout)
		harness_error("two-party run dead-locked (reader waited > 30 s)");
	return r;
}

// prover writes a non-interactive proof, verifier reads it
inline RunRes run_nizk(const std::function<void(std::ostream &)> &prover, const std::function<bool(std::istream &)> &verifier, uint64_t seed)
{
	RunRes r;
	r.accept = r.vthrew = r.pthrew = r.timeout = false;
	std::stringstream proof;
	{
		UseCoins u(seed, 101);
		try { prover(proof); } catch (...) { r.pthrew = true; }
	}
	{
		UseCoins u(seed, 202);
		try { r.accept = verifier(proof); } catch (...) { r.vthrew = true, r.accept = false; }
	}
	return r;
}

// ------------------------------------------------------------------------------------------------ discrete-log world
typedef TMCG_Stack<VTMF_Card> VStack;
typedef TMCG_StackSecret<VTMF_CardSecret> VSecret;

struct VWorld {
	unsigned long psize, qsize, le;
	size_t nmax;
	BarnettSmartVTMF_dlog *P, *V, *Q;
	GrothVSSHE *gP, *gV;
	HooghSchoenmakersSkoricVillegasVRHE *hP, *hV;
	mpz_t x;   // x_P + x_V + x_Q mod q
	VWorld(uint64_t seed, unsigned long ps, unsigned long qs, unsigned long le_, size_t nmax_) : psize(ps), qsize(qs), le(le_), nmax(nmax_)
	{
		UseCoins u(seed, 11);
		P = new BarnettSmartVTMF_dlog(ps, qs, true, true);
		std::stringstream g1, g2;
		P->PublishGroup(g1), P->PublishGroup(g2);
		V = new BarnettSmartVTMF_dlog(g1, ps, qs, true, true);
		Q = new BarnettSmartVTMF_dlog(g2, ps, qs, true, true);
		if (!P->CheckGroup() || !V->CheckGroup() || !Q->CheckGroup())
			harness_error("VWorld: CheckGroup failed");
		BarnettSmartVTMF_dlog *all[3] = { P, V, Q };
		for (int a = 0; a < 3; a++)
			all[a]->KeyGenerationProtocol_GenerateKey();
		for (int a = 0; a < 3; a++)
			for (int b = 0; b < 3; b++)
			{
				if (a == b) continue;
				std::stringstream k;
				all[a]->KeyGenerationProtocol_PublishKey(k);
				if (!all[b]->KeyGenerationProtocol_UpdateKey(k))
					harness_error("VWorld: UpdateKey rejected an honest key");
			}
		for (int a = 0; a < 3; a++)
			all[a]->KeyGenerationProtocol_Finalize();
		if (mpz_cmp(P->h, V->h) || mpz_cmp(P->h, Q->h))
			harness_error("VWorld: common keys differ");
		mpz_init(x);
		mpz_add(x, P->x_i, V->x_i), mpz_add(x, x, Q->x_i), mpz_mod(x, x, P->q);
		Z chk;
		mpz_powm(chk, P->g, x, P->p);
		if (mpz_cmp(chk, P->h))
			harness_error("VWorld: h != g^x");
		gP = new GrothVSSHE(nmax, P->p, P->q, P->k, P->g, P->h, le, ps, qs);
		std::stringstream gg;
		gP->PublishGroup(gg);
		gV = new GrothVSSHE(nmax, gg, le, ps, qs);
		if (!gP->CheckGroup() || !gV->CheckGroup())
			harness_error("VWorld: GrothVSSHE::CheckGroup failed");
		hP = new HooghSchoenmakersSkoricVillegasVRHE(P->p, P->q, P->g, P->h, ps, qs);
		std::stringstream hh;
		hP->PublishGroup(hh);
		hV = new HooghSchoenmakersSkoricVillegasVRHE(hh, ps, qs);
		if (!hP->CheckGroup() || !hV->CheckGroup())
			harness_error("VWorld: VRHE::CheckGroup failed");
	}
	bool in_group(mpz_srcptr a) const
	{
		if (mpz_cmp_ui(a, 0) <= 0 || mpz_cmp(a, P->p) >= 0) return false;
		Z t;
		mpz_powm(t, a, P->q, P->p);
		return mpz_cmp_ui(t.v, 1) == 0;
	}
	bool valid(const VTMF_Card &c) const { return in_group(c.c_1) && in_group(c.c_2); }
	// the harness opens a card with the sum of all secret keys: m = c_2 / c_1^x
	std::string plain(const VTMF_Card &c) const
	{
		Z t;
		mpz_powm(t, c.c_1, x, P->p);
		if (!mpz_invert(t, t, P->p)) return "noninvertible";
		mpz_mul(t, t, c.c_2), mpz_mod(t, t, P->p);
		return zs(t);
	}
	// "s2 is a shuffle of s": every card of s2 is a pair of group elements and the multisets of plaintexts agree
	bool is_shuffle(const VStack &s, const VStack &s2) const
	{
		if (s.size() != s2.size()) return false;
		std::vector<std::string> a, b;
		for (size_t i = 0; i < s2.size(); i++)
		{
			if (!valid(s2[i])) return false;
			a.push_back(plain(s[i])), b.push_back(plain(s2[i]));
		}
		std::sort(a.begin(), a.end()), std::sort(b.begin(), b.end());
		return a == b;
	}
	// "s2 is a rotation of s": plaintext(s2[i]) = plaintext(s[(i + r) mod n]) for one r and all i
	bool is_rotation(const VStack &s, const VStack &s2) const
	{
		if (s.size() != s2.size()) return false;
		size_t n = s.size();
		std::vector<std::string> a, b;
		for (size_t i = 0; i < n; i++)
		{
			if (!valid(s2[i])) return false;
			a.push_back(plain(s[i])), b.push_back(plain(s2[i]));
		}
		for (size_t r = 0; r < n; r++)
		{
			bool ok = true;
			for (size_t i = 0; i < n && ok; i++)
				ok = (b[i] == a[(i + r) % n]);
			if (ok) return true;
		}
		return false;
	}
};

// ------------------------------------------------------------------------------------------------ quadratic-residue world
typedef TMCG_Stack<TMCG_Card> QStack;
typedef TMCG_StackSecret<TMCG_CardSecret> QSecret;

struct QWorld {
	size_t K, W;
	std::vector<TMCG_SecretKey *> sec;
	std::vector<TMCG_PublicKey *> pub;
	TMCG_PublicKeyRing ring;
	QWorld(uint64_t seed, size_t players, size_t typebits, unsigned long keysize) : K(players), W(typebits), ring(players)
	{
		UseCoins u(seed, 13 + keysize);
		for (size_t k = 0; k < K; k++)
		{
			sec.push_back(new TMCG_SecretKey("P" + str(k), "p" + str(k) + "@verif", keysize, false));
			pub.push_back(new TMCG_PublicKey(*sec[k]));
			ring.keys[k] = *pub[k];
		}
	}
	// type of a card as decided by the secret keys; false if some component is not in Z°_m (Jacobi symbol != 1)
	bool type_of(const TMCG_Card &c, size_t &type) const
	{
		type = 0;
		if (c.z.size() != K) return false;
		for (size_t w = 0; w < W; w++)
		{
			bool bit = false;
			for (size_t k = 0; k < K; k++)
			{
				if (c.z[k].size() != W) return false;
				if (mpz_sgn(&c.z[k][w]) <= 0 || mpz_cmp(&c.z[k][w], sec[k]->m) >= 0) return false;
				if (mpz_jacobi(&c.z[k][w], sec[k]->m) != 1) return false;
				if (!tmcg_mpz_qrmn_p(&c.z[k][w], sec[k]->p, sec[k]->q)) bit = !bit;
			}
			if (bit) type |= ((size_t)1 << w);
		}
		return true;
	}
	bool types_of(const QStack &s, std::vector<size_t> &t) const
	{
		t.clear();
		for (size_t i = 0; i < s.size(); i++)
		{
			size_t ty;
			if (!type_of(s[i], ty)) return false;
			t.push_back(ty);
		}
		return true;
	}
	bool is_shuffle(const QStack &s, const QStack &s2) const
	{
		std::vector<size_t> a, b;
		if (s.size() != s2.size() || !types_of(s, a) || !types_of(s2, b)) return false;
		std::sort(a.begin(), a.end()), std::sort(b.begin(), b.end());
		return a == b;
	}
	bool is_rotation(const QStack &s, const QStack &s2) const
	{
		std::vector<size_t> a, b;
		if (s.size() != s2.size() || !types_of(s, a) || !types_of(s2, b)) return false;
		size_t n = a.size();
		for (size_t r = 0; r < n; r++)
		{
			bool ok = true;
			for (size_t i = 0; i < n && ok; i++)
				ok = (b[i] == a[(i + r) % n]);
			if (ok) return true;
		}
		return false;
	}
};

// challenge bits a cut-and-choose verifier sent: vlines[0] is the security level line, then one line per round
inline std::vector<int> challenge_bits(const std::vector<std::string> &vlines, size_t from = 1)
{
	std::vector<int> c;
	for (size_t i = from; i < vlines.size(); i++)
	{
		const std::string &l = vlines[i];
		if (l.empty()) { c.push_back(-1); continue; }
		char last = l[l.size() - 1];
		// base 62 digits: 0-9 A-Z a-z; parity of the value = parity of the last digit only if the base is even
		int d = (last >= '0' && last <= '9') ? last - '0' : (last >= 'A' && last <= 'Z') ? last - 'A' + 10 : (last >= 'a' && last <= 'z') ? last - 'a' + 36 : -1;
		c.push_back(d < 0 ? -1 : (d & 1));
	}
	return c;
}

}
#endif
