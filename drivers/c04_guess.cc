// C04 (b) — cut-and-choose: a prover who prepares for ONE guessed challenge string is accepted for exactly that
// one of the 2^kappa verifier coin strings.
//
// Real code under test: SchindelhauerTMCG::TMCG_VerifyStackEquality, both encodings (VTMF_Card / TMCG_Card),
// cyclic = false (shuffle) and cyclic = true (rotation); and the value-level cut-and-choose verifiers of the QR
// encoding: TMCG_VerifyQuadraticResidue (false statement: a non-residue with Jacobi symbol +1),
// TMCG_VerifyNonQuadraticResidue (a residue), TMCG_VerifyMaskValue (zz/z with Jacobi symbol -1) and, end to end,
// TMCG_VerifyCardSecret with a false decryption share for a one-bit card of type 0 and of type 1 (--enc qrvalue;
// provers qr_guess_prover / nqr_guess_prover / maskvalue_guess_prover below, same enumeration and oracle).
//
// Harness-side prover (public operations only: TMCG_CreateStackSecret, TMCG_MixStack, tmcg_mpz_shash, stream
// operators): for a FALSE statement (s, s2) and a guess b in {0,1}^kappa it commits in round i to the hash of a
// re-mix of s2 if b_i = 1 and of s if b_i = 0, and answers with the secret of that re-mix whatever the challenge is.
//
// Enumerated: encodings {vtmf, qr} x modes {perm, cyclic} x false statements {retype, sub, (cyclic:) noncyc}, n = 3;
//   quick:    kappa in 1..3, every guess, every challenge string            (sum 4^kappa = 84 pairs per statement)
//   thorough: kappa in 1..4, every guess, every challenge string (340 pairs) and kappa = 8, 4 guesses x 256 strings
// The verifier draws each challenge with tmcg_mpz_srandomb(foo, 1) = one 1-byte request to the coin source; the
// harness answers the k-th 1-byte request of the verifier thread with 0x00 / 0xFF according to the string under
// enumeration.  The steering is NOT trusted: the challenge bits are read from the lines the verifier wrote.
//
// Oracle (exact, no probability involved besides SHA-256 collisions):
//   verdict = accept  <=>  the verifier sent kappa challenges and every one equals the guess bit;
//   a rejecting verifier must have sent a challenge that differs from the guess;
//   every challenge bit on the wire equals the coin byte the verifier consumed for it;
//   per (statement, guess): if all randomness the verifier consumed consisted of the steered one-byte draws (coin log
//   of the verifier thread; otherwise cap steering-lost, exhaustive=false), its verdict is a function of the
//   enumerated string alone and exactly one of the 2^kappa strings must be accepted.
#include "c04_common.hh"
using namespace c04;

static Report *R;
static const unsigned long PS = 384, QS = 192, LE = 56;

template<class StackT, class SecretT> struct Ops {
	std::function<void(SecretT &, bool, size_t)> create;                    // random stack secret (cyclic?, size)
	std::function<void(const StackT &, StackT &, const SecretT &)> mix;
	std::function<bool(const StackT &, const StackT &, bool, std::iostream &)> verify;
};

// the guessing prover; returns true if it got through all rounds
template<class StackT, class SecretT> static bool guess_prover(std::iostream &io, const StackT &s, const StackT &s2, bool cyclic,
	const std::vector<int> &guess, const Ops<StackT, SecretT> &ops)
{
	std::string line;
	if (!std::getline(io, line)) return false;            // security level line
	unsigned long kappa = strtoul(line.c_str(), NULL, 10);
	if (kappa != guess.size()) return false;
	Z foo;
	for (unsigned long i = 0; i < kappa; i++)
	{
		SecretT ss2;
		StackT s3;
		ops.create(ss2, cyclic, s.size());
		ops.mix(guess[i] ? s2 : s, s3, ss2);
		std::ostringstream ost;
		ost << s3 << std::endl;
		tmcg_mpz_shash(foo, ost.str());
		io << (mpz_srcptr)foo << std::endl;                 // commitment (TMCG_HASH_COMMITMENT)
		if (!std::getline(io, line)) return false;         // challenge: ignored, this prover can only answer its guess
		io << ss2 << std::endl;
	}
	return true;
}

typedef std::function<bool(std::iostream &, const std::vector<int> &)> GuessProver;
typedef std::function<bool(std::iostream &)> VerifierRole;

// all (guess, verifier coin string) pairs for one false statement, one kappa and the given guesses
static void explore_roles(const std::string &prefix, unsigned kappa, const std::vector<unsigned> &guesses,
	const GuessProver &prover, const VerifierRole &verifier, uint64_t seed)
{
	for (size_t gi = 0; gi < guesses.size(); gi++)
	{
		unsigned g = guesses[gi];
		std::string gs;
		for (unsigned i = 0; i < kappa; i++) gs += ((g >> i) & 1) ? '1' : '0';
		std::string cid = prefix + ":k" + str(kappa) + ":g" + gs;
		if (!R->mine() || !R->selected(cid)) continue;
		if (R->out_of_time()) return;
		printf("{\"t\":\"at\",\"case\":\"%s\"}\n", jesc(cid).c_str());
		fflush(stdout);
		std::vector<int> guess(kappa);
		for (unsigned i = 0; i < kappa; i++) guess[i] = (g >> i) & 1;
		std::set<unsigned> observed;
		unsigned accepted = 0;
		bool steering_lost = false;
		for (unsigned c = 0; c < (1u << kappa); c++)
		{
			std::string cs_;
			for (unsigned i = 0; i < kappa; i++) cs_ += ((c >> i) & 1) ? '1' : '0';
			uint64_t rs = seed ^ fnv(cid + "/" + cs_);
			mcenv::CoinSource csP(rs, 101), csV(rs, 202);
			unsigned draws = 0;
			csV.logging = true;
			csV.steer = [&](unsigned char *buf, size_t len, int, uint64_t) -> bool {
				if (len != 1) return false;
				unsigned k = draws++;
				buf[0] = (k < kappa && ((c >> k) & 1)) ? 0xFF : 0x00;
				return true;
			};
			RunRes r = run_inter([&](std::iostream &io) { return prover(io, guess); }, verifier, rs, &csP, &csV);
			R->counters["runs"]++;
			// fully steered: every random request of the verifier thread was a one-byte request answered by the harness,
			// i.e. the verifier's behaviour in this run is a function of the enumerated string alone
			bool fully_steered = true;
			for (size_t i = 0; i < csV.log.size(); i++) if (csV.log[i].len != 1) fully_steered = false;
			if (!fully_steered) steering_lost = true;
			std::vector<int> ch = challenge_bits(r.vlines);
			bool level_ok = !r.vlines.empty() && r.vlines[0] == str(kappa);
			size_t L = ch.size();
			bool all_match = (L == kappa), wire_is_coin = true;
			for (size_t i = 0; i < L && i < kappa; i++)
			{
				if (ch[i] != guess[i]) all_match = false;
				if (i < draws && ch[i] != (int)((c >> i) & 1)) wire_is_coin = false;
			}
			std::string what = "guess=" + gs + " coins=" + cs_ + " wire=";
			for (size_t i = 0; i < L; i++) what += (char)('0' + (ch[i] < 0 ? 9 : ch[i]));
			what += " verdict=" + str(r.accept) + " vthrew=" + str(r.vthrew) + " onebyte_draws=" + str(draws);
			R->ok(L > 0);
			if (!level_ok || L > kappa)
				R->viol("guess/protocol-shape", "verifier did not send the security level line followed by at most kappa challenges: " + what, cid);
			else if (r.accept && !all_match)
				R->viol("guess/accepted-wrong-guess", "cut-and-choose verifier accepted a prover that had not prepared for the challenges it sent: " + what, cid);
			else if (!r.accept && all_match)
				R->viol("guess/rejected-right-guess", "verifier rejected although it sent kappa challenges that all equal the guess (accepted for exactly that string fails): " + what, cid);
			if (fully_steered && !wire_is_coin)
				R->viol("guess/challenge-not-from-coins", "a challenge bit on the wire differs from the coin byte (0x00/0xFF) the verifier drew for it: " + what, cid);
			if (r.accept) accepted++;
			if (fully_steered) observed.insert(c);
			if (c == g) R->sample(cid, what);
		}
		R->counters["coin_strings_observed"] += observed.size();
		R->counters["guesses"]++;
		if (observed.size() != (1u << kappa))
		{
			R->exhaustive = false;
			R->caps.insert("steering-lost");   // the verifier drew randomness other than one byte per challenge: its coin strings were not enumerated
		}
		else if (accepted != 1)
			R->viol("guess/accept-count", "guess " + gs + " accepted for " + str(accepted) + " of the " + str(1u << kappa) + " verifier coin strings (all of the verifier's randomness was enumerated; expected exactly 1)", cid);
	}
}

template<class StackT, class SecretT> static void explore(const std::string &prefix, const StackT &s, const StackT &s2, bool cyclic,
	unsigned kappa, const std::vector<unsigned> &guesses, const Ops<StackT, SecretT> &ops, uint64_t seed)
{
	explore_roles(prefix, kappa, guesses,
		[&](std::iostream &io, const std::vector<int> &guess) { return guess_prover<StackT, SecretT>(io, s, s2, cyclic, guess, ops); },
		[&](std::iostream &io) { return ops.verify(s, s2, cyclic, io); }, seed);
}

// ---------------------------------------------------------------- quadratic-residue value proofs (QR encoding)
// TMCG_VerifyQuadraticResidue(key, t): level line; jacobi(t) == 1; kappa pairs (R_i, S_i) with R_i S_i = t; then per
// round one challenge (tmcg_mpz_srandomb(foo, 1) = one 1-byte draw) and one answer: a root of R_i (challenge 1) or of
// S_i (challenge 0), answer != 1.  Guessing prover for a NON-residue t (public operations only, no secret key):
// guess 1: R_i = r^2, S_i = t / R_i;  guess 0: S_i = s^2, R_i = t / S_i;  it always answers with the one root it has.
// The other value of the pair is a non-residue, so no answer exists for the other challenge.
static bool qr_guess_prover(std::iostream &io, const TMCG_PublicKey &key, mpz_srcptr t, const std::vector<int> &guess)
{
	std::string line;
	if (!std::getline(io, line)) return false;
	if (strtoul(line.c_str(), NULL, 10) != guess.size()) return false;
	std::vector<Z> root(guess.size());
	Z sq, other, g;
	for (size_t i = 0; i < guess.size(); i++)
	{
		do
		{
			tmcg_mpz_srandomm(root[i], key.m);
			mpz_gcd(g, root[i], key.m);
		}
		while (mpz_cmp_ui(g.v, 1) || mpz_cmp_ui(root[i].v, 1) <= 0);
		mpz_mul(sq, root[i], root[i]), mpz_mod(sq, sq, key.m);
		if (!mpz_invert(other, sq, key.m)) return false;
		mpz_mul(other, other, t), mpz_mod(other, other, key.m);
		if (guess[i]) io << (mpz_srcptr)sq << std::endl << (mpz_srcptr)other << std::endl;     // R_i, S_i
		else io << (mpz_srcptr)other << std::endl << (mpz_srcptr)sq << std::endl;
	}
	for (size_t i = 0; i < guess.size(); i++)
	{
		if (!std::getline(io, line)) return false;      // challenge, ignored
		io << (mpz_srcptr)root[i] << std::endl;
	}
	return true;
}
// TMCG_VerifyNonQuadraticResidue(key, t): first bar with bar * y = t, then the residue proof for bar.
// Guessing prover for a RESIDUE t: bar = t / y is a non-residue with Jacobi symbol +1.
static bool nqr_guess_prover(std::iostream &io, const TMCG_PublicKey &key, mpz_srcptr t, const std::vector<int> &guess)
{
	Z bar;
	if (!mpz_invert(bar, key.y, key.m)) return false;
	mpz_mul(bar, bar, t), mpz_mod(bar, bar, key.m);
	io << (mpz_srcptr)bar << std::endl;
	return qr_guess_prover(io, key, bar, guess);
}
// TMCG_VerifyMaskValue(key, z, zz): level line; kappa values t_i; per round one challenge and an answer (r, b):
// challenge 1: t_i = zz r^2 y^b, challenge 0: t_i = z r^2 y^b, r != 1.  Guessing prover: t_i is a masking of zz
// (guess 1) or of z (guess 0) and the answer is that (r, b).
static bool maskvalue_guess_prover(std::iostream &io, const TMCG_PublicKey &key, mpz_srcptr z, mpz_srcptr zz, const std::vector<int> &guess)
{
	std::string line;
	if (!std::getline(io, line)) return false;
	if (strtoul(line.c_str(), NULL, 10) != guess.size()) return false;
	std::vector<Z> r(guess.size()), b(guess.size());
	Z t, g;
	for (size_t i = 0; i < guess.size(); i++)
	{
		do
		{
			tmcg_mpz_srandomm(r[i], key.m);
			mpz_gcd(g, r[i], key.m);
		}
		while (mpz_cmp_ui(g.v, 1) || mpz_cmp_ui(r[i].v, 1) <= 0);
		tmcg_mpz_srandomb(b[i], 1);
		mpz_mul(t, r[i], r[i]), mpz_mod(t, t, key.m);
		mpz_mul(t, t, guess[i] ? zz : z), mpz_mod(t, t, key.m);
		if (mpz_get_ui(b[i]) & 1) mpz_mul(t, t, key.y), mpz_mod(t, t, key.m);
		io << (mpz_srcptr)t << std::endl;
	}
	for (size_t i = 0; i < guess.size(); i++)
	{
		if (!std::getline(io, line)) return false;
		io << (mpz_srcptr)r[i] << std::endl << (mpz_srcptr)b[i] << std::endl;
	}
	return true;
}

static std::vector<unsigned> guesses_for(unsigned kappa)
{
	std::vector<unsigned> g;
	if (kappa <= 4) for (unsigned x = 0; x < (1u << kappa); x++) g.push_back(x);
	else { g.push_back(0), g.push_back((1u << kappa) - 1), g.push_back(0x4D), g.push_back(0xB2); }
	return g;
}

static void fam_qrvalue(QWorld &QW, const std::vector<unsigned> &kappas, uint64_t seed)
{
	const TMCG_PublicKey &pk = *QW.pub[0];
	const TMCG_SecretKey &sk = *QW.sec[0];
	UseCoins u(seed ^ fnv("qrvalue"), 35);
	// u^2: a residue; y u^2: a non-residue with Jacobi symbol +1; j: Jacobi symbol -1
	Z uu, res, nres, jm, z, zzbad, g;
	do { tmcg_mpz_srandomm(uu, pk.m); mpz_gcd(g, uu, pk.m); } while (mpz_cmp_ui(g.v, 1) || mpz_cmp_ui(uu.v, 1) <= 0);
	mpz_mul(res, uu, uu), mpz_mod(res, res, pk.m);
	mpz_mul(nres, res, pk.y), mpz_mod(nres, nres, pk.m);
	mpz_set_ui(jm, 2);
	while (mpz_jacobi(jm, pk.m) != -1) mpz_add_ui(jm, jm, 1);
	mpz_set(z, nres);
	mpz_mul(zzbad, z, jm), mpz_mod(zzbad, zzbad, pk.m);          // zz / z has Jacobi symbol -1: zz is no masking of z
	// the harness decides the truth with the secret key
	if (!tmcg_mpz_qrmn_p(res, sk.p, sk.q) || tmcg_mpz_qrmn_p(nres, sk.p, sk.q) || mpz_jacobi(nres, sk.m) != 1)
		harness_error("qrvalue: residuosity of the test values is not as constructed");
	{ Z q; if (!mpz_invert(q, z, pk.m)) harness_error("qrvalue: z not invertible"); mpz_mul(q, q, zzbad); mpz_mod(q, q, pk.m);
	  if (mpz_jacobi(q, pk.m) != -1) harness_error("qrvalue: zz/z should have Jacobi symbol -1"); }
	for (size_t kk = 0; kk < kappas.size(); kk++)
	{
		unsigned kappa = kappas[kk];
		std::vector<unsigned> guesses = guesses_for(kappa);
		SchindelhauerTMCG tV(kappa, 2, 1), tB(kappa, 2, 1);   // 2 players, ONE type bit (card types 0 and 1)
		// "nres is a quadratic residue"
		explore_roles("guess:qr:value:qr", kappa, guesses,
			[&](std::iostream &io, const std::vector<int> &gu) { return qr_guess_prover(io, pk, nres, gu); },
			[&](std::iostream &io) { return tV.TMCG_VerifyQuadraticResidue(pk, nres, io, io); }, seed);
		// "res is a quadratic non-residue"
		explore_roles("guess:qr:value:nqr", kappa, guesses,
			[&](std::iostream &io, const std::vector<int> &gu) { return nqr_guess_prover(io, pk, res, gu); },
			[&](std::iostream &io) { return tV.TMCG_VerifyNonQuadraticResidue(pk, res, io, io); }, seed);
		// "zzbad is a masking of z"
		explore_roles("guess:qr:value:maskvalue", kappa, guesses,
			[&](std::iostream &io, const std::vector<int> &gu) { return maskvalue_guess_prover(io, pk, z, zzbad, gu); },
			[&](std::iostream &io) { return tV.TMCG_VerifyMaskValue(pk, z, zzbad, io, io); }, seed);
		// end to end: a false decryption share for a one-bit card.  Player 0 (no secret key used) announces the wrong
		// residuosity bit of z[0][0]; if accepted, the verifier (player 1) opens the card as the other type.
		for (size_t type = 0; type < 2; type++)
		{
			TMCG_Card c(2, 1); TMCG_CardSecret cs0(2, 1);
			tB.TMCG_CreatePrivateCard(c, cs0, QW.ring, 1, type);
			bool nonres = !tmcg_mpz_qrmn_p(&c.z[0][0], sk.p, sk.q);
			// open the one-bit card with both secret keys
			size_t true_type = 0, opened_type = 99;
			for (size_t k = 0; k < 2; k++)
			{
				if (mpz_jacobi(&c.z[k][0], QW.sec[k]->m) != 1) harness_error("qrvalue: card component not in Z°");
				if (!tmcg_mpz_qrmn_p(&c.z[k][0], QW.sec[k]->p, QW.sec[k]->q)) true_type ^= 1;
			}
			if (true_type != type) harness_error("qrvalue: card type");
			bool opened_wrong = false, accepted_any = false;
			explore_roles("guess:qr:cardsecret:t" + str(type), kappa, guesses,
				[&](std::iostream &io, const std::vector<int> &gu) {
					io << (nonres ? "0" : "1") << std::endl;          // the false bit
					return nonres ? qr_guess_prover(io, pk, &c.z[0][0], gu) : nqr_guess_prover(io, pk, &c.z[0][0], gu); },
				[&](std::iostream &io) {
					TMCG_CardSecret cs(2, 1);
					tV.TMCG_SelfCardSecret(c, cs, *QW.sec[1], 1);
					bool ok = tV.TMCG_VerifyCardSecret(c, cs, pk, 0, io, io);
					if (ok) { accepted_any = true; opened_type = tV.TMCG_TypeOfCard(cs); if (opened_type != true_type) opened_wrong = true; }
					return ok; }, seed);
			if (accepted_any) R->counters[opened_wrong ? "cardsecret_opened_as_other_type_when_guess_hit" : "cardsecret_opened_right"]++;
		}
	}
}

int main(int argc, char **argv)
{
	Args A = parse(argc, argv);
	Report rep(A);
	R = &rep;
	if (!init_libTMCG()) return 2;
	MuteCerr mute;
	uint64_t seed = mcenv::env_seed();
	bool thorough = (A.tier == "thorough");
	std::string only_enc = A.get("enc", "");
	const size_t n = 3, K = 2, W = 2;
	std::vector<unsigned> kappas;
	for (unsigned k = 1; k <= (thorough ? 4u : 3u); k++) kappas.push_back(k);
	if (thorough) kappas.push_back(8);
	if (A.has("kappa")) { kappas.clear(); kappas.push_back((unsigned)A.geti("kappa", 2)); }
	rep.bound = std::string("n=3; kappa<=") + (thorough ? "4 all (guess,challenge) pairs, kappa=8: 4 guesses x 256 challenges" : "3 all (guess,challenge) pairs");

	VWorld VW(seed, PS, QS, LE, 4);
	QWorld QW(seed, K, W, 448);
	SchindelhauerTMCG build(16, K, W);
	std::vector<std::vector<size_t> > perms = all_perms(n);

	if (only_enc.empty() || only_enc == "qrvalue")
		fam_qrvalue(QW, kappas, seed);
	for (int enc = 0; enc < 2; enc++)
	{
		std::string encn = enc == 0 ? "vtmf" : "qr";
		if (!only_enc.empty() && only_enc != encn) continue;
		for (int cyc = 0; cyc < 2; cyc++)
		{
			std::vector<std::string> kinds;
			kinds.push_back("retype"), kinds.push_back("sub");
			if (cyc) kinds.push_back("noncyc");
			for (size_t ki = 0; ki < kinds.size(); ki++)
			{
				std::string prefix = "guess:" + encn + ":" + (cyc ? "cyclic" : "perm") + ":" + kinds[ki];
				UseCoins u(seed ^ fnv(prefix), 31);
				// a true base statement: perm mode pi = (1,2,0)->any, cyclic mode a rotation; noncyc: transposition
				std::vector<size_t> pi = kinds[ki] == "noncyc" ? perms[1] /* 0 2 1 */ : (cyc ? perms[3] /* 1 2 0 */ : perms[4] /* 2 0 1 */);
				if (kinds[ki] == "noncyc" && is_cyclic(pi)) harness_error("noncyc permutation is cyclic");
				if (kinds[ki] != "noncyc" && cyc && !is_cyclic(pi)) harness_error("rotation is not cyclic");
				for (size_t kk = 0; kk < kappas.size(); kk++)
				{
					unsigned kappa = kappas[kk];
					std::vector<unsigned> guesses;
					if (kappa <= 4) for (unsigned g = 0; g < (1u << kappa); g++) guesses.push_back(g);
					else { guesses.push_back(0), guesses.push_back((1u << kappa) - 1), guesses.push_back(0x4D), guesses.push_back(0xB2); }
					SchindelhauerTMCG tP(kappa, K, W), tV(kappa, K, W);
					if (enc == 0)
					{
						VStack s, s2;
						for (size_t i = 0; i < n; i++)
						{
							VTMF_Card c; VTMF_CardSecret cs;
							build.TMCG_CreatePrivateCard(c, cs, VW.P, i);
							s.push(c);
						}
						VSecret ss;
						build.TMCG_CreateStackSecret(ss, pi, n, VW.P);
						build.TMCG_MixStack(s, s2, ss, VW.P);
						if (kinds[ki] == "retype")
							mpz_mul(s2[1].c_2, s2[1].c_2, VW.P->g), mpz_mod(s2[1].c_2, s2[1].c_2, VW.P->p);
						else if (kinds[ki] == "sub")
						{
							VTMF_CardSecret cs;
							build.TMCG_CreateCardSecret(cs, VW.P);
							build.TMCG_MaskCard(s[pi[0]], s2[1], cs, VW.P);   // output 1 := re-masked copy of the input of output 0
						}
						bool truth = cyc ? VW.is_rotation(s, s2) : VW.is_shuffle(s, s2);
						if (truth) harness_error("guess: base statement is true: " + prefix);
						Ops<VStack, VSecret> ops;
						ops.create = [&](VSecret &x, bool c, size_t sz) { tP.TMCG_CreateStackSecret(x, c, sz, VW.P); };
						ops.mix = [&](const VStack &a, VStack &b, const VSecret &x) { tP.TMCG_MixStack(a, b, x, VW.P); };
						ops.verify = [&](const VStack &a, const VStack &b, bool c, std::iostream &io) { return tV.TMCG_VerifyStackEquality(a, b, c, VW.V, io, io); };
						explore<VStack, VSecret>(prefix, s, s2, cyc != 0, kappa, guesses, ops, seed);
					}
					else
					{
						QStack s, s2;
						for (size_t i = 0; i < n; i++)
						{
							TMCG_Card c(K, W); TMCG_CardSecret cs(K, W);
							build.TMCG_CreatePrivateCard(c, cs, QW.ring, 0, i);
							s.push(c);
						}
						QSecret ss;
						build.TMCG_CreateStackSecret(ss, pi, QW.ring, 0, n);
						build.TMCG_MixStack(s, s2, ss, QW.ring);
						if (kinds[ki] == "retype")
							mpz_mul(&s2[1].z[0][0], &s2[1].z[0][0], QW.ring.keys[0].y), mpz_mod(&s2[1].z[0][0], &s2[1].z[0][0], QW.ring.keys[0].m);
						else if (kinds[ki] == "sub")
						{
							TMCG_CardSecret cs(K, W);
							build.TMCG_CreateCardSecret(cs, QW.ring, 0);
							build.TMCG_MaskCard(s[pi[0]], s2[1], cs, QW.ring);
						}
						bool truth = cyc ? QW.is_rotation(s, s2) : QW.is_shuffle(s, s2);
						if (truth) harness_error("guess: base statement is true: " + prefix);
						Ops<QStack, QSecret> ops;
						ops.create = [&](QSecret &x, bool c, size_t sz) { tP.TMCG_CreateStackSecret(x, c, QW.ring, 0, sz); };
						ops.mix = [&](const QStack &a, QStack &b, const QSecret &x) { tP.TMCG_MixStack(a, b, x, QW.ring); };
						ops.verify = [&](const QStack &a, const QStack &b, bool c, std::iostream &io) { return tV.TMCG_VerifyStackEquality(a, b, c, QW.ring, io, io); };
						explore<QStack, QSecret>(prefix, s, s2, cyc != 0, kappa, guesses, ops, seed);
					}
				}
			}
		}
	}
	rep.finish();
	return 0;
}
