// C04 (b) — cut-and-choose: a prover who prepares for ONE guessed challenge string is accepted for exactly that
// one of the 2^kappa verifier coin strings.
//
// Real code under test: SchindelhauerTMCG::TMCG_VerifyStackEquality, both encodings (VTMF_Card / TMCG_Card),
// cyclic = false (shuffle) and cyclic = true (rotation).
//
// Harness-side prover (public operations only: TMCG_CreateStackSecret, TMCG_MixStack, tmcg_mpz_shash, stream
// operators): for a FALSE statement (s, s2) and a guess b in {0,1}^kappa it commits in round i to the hash of a
// re-mix of s2 if b_i = 1 and of s if b_i = 0, and answers with the secret of that re-mix whatever the challenge is.
//
// Enumerated: encodings {vtmf, qr} x modes {perm, cyclic} x false statements {retype, sub, (cyclic:) noncyc}, n = 3;
//   quick:    kappa in 1..3, every guess, every challenge string            (sum 4^kappa = 84 pairs per statement)
//   thorough: kappa in 1..4, every guess, every challenge string (340 pairs) and kappa = 8, 4 guesses x 256 strings
// The verifier draws each challenge with tmcg_mpz_srandomb(foo, 1) = one 1-byte request to the coin source; the
// harness answers the k-th 1-byte request of the verifier thread with 0x00 / 0xFF according to the string under
// enumeration.  The steering is NOT trusted: the challenge bits are read from the lines the verifier wrote.
//
// Oracle (exact, no probability involved besides SHA-256 collisions):
//   verdict = accept  <=>  the verifier sent kappa challenges and every one equals the guess bit;
//   a rejecting verifier must have sent a challenge that differs from the guess;
//   every challenge bit on the wire equals the coin byte the verifier consumed for it;
//   per (statement, guess): if all randomness the verifier consumed consisted of the steered one-byte draws (coin log
//   of the verifier thread; otherwise cap steering-lost, exhaustive=false), its verdict is a function of the
//   enumerated string alone and exactly one of the 2^kappa strings must be accepted.
#include "c04_common.hh"
using namespace c04;

static Report *R;
static const unsigned long PS = 384, QS = 192, LE = 56;

template<class StackT, class SecretT> struct Ops {
	std::function<void(SecretT &, bool, size_t)> create;                    // random stack secret (cyclic?, size)
	std::function<void(const StackT &, StackT &, const SecretT &)> mix;
	std::function<bool(const StackT &, const StackT &, bool, std::iostream &)> verify;
};

// the guessing prover; returns true if it got through all rounds
template<class StackT, class SecretT> static bool guess_prover(std::iostream &io, const StackT &s, const StackT &s2, bool cyclic,
	const std::vector<int> &guess, const Ops<StackT, SecretT> &ops)
{
	std::string line;
	if (!std::getline(io, line)) return false;            // security level line
	unsigned long kappa = strtoul(line.c_str(), NULL, 10);
	if (kappa != guess.size()) return false;
	Z foo;
	for (unsigned long i = 0; i < kappa; i++)
	{
		SecretT ss2;
		StackT s3;
		ops.create(ss2, cyclic, s.size());
		ops.mix(guess[i] ? s2 : s, s3, ss2);
		std::ostringstream ost;
		ost << s3 << std::endl;
		tmcg_mpz_shash(foo, ost.str());
		io << (mpz_srcptr)foo << std::endl;                 // commitment (TMCG_HASH_COMMITMENT)
		if (!std::getline(io, line)) return false;         // challenge: ignored, this prover can only answer its guess
		io << ss2 << std::endl;
	}
	return true;
}

template<class StackT, class SecretT> static void explore(const std::string &prefix, const StackT &s, const StackT &s2, bool cyclic,
	unsigned kappa, const std::vector<unsigned> &guesses, const Ops<StackT, SecretT> &ops, uint64_t seed)
{
	for (size_t gi = 0; gi < guesses.size(); gi++)
	{
		unsigned g = guesses[gi];
		std::string gs;
		for (unsigned i = 0; i < kappa; i++) gs += ((g >> i) & 1) ? '1' : '0';
		std::string cid = prefix + ":k" + str(kappa) + ":g" + gs;
		if (!R->mine() || !R->selected(cid)) continue;
		if (R->out_of_time()) return;
		printf("{\"t\":\"at\",\"case\":\"%s\"}\n", jesc(cid).c_str());
		fflush(stdout);
		std::vector<int> guess(kappa);
		for (unsigned i = 0; i < kappa; i++) guess[i] = (g >> i) & 1;
		std::set<unsigned> observed;
		unsigned accepted = 0;
		bool steering_lost = false;
		for (unsigned c = 0; c < (1u << kappa); c++)
		{
			std::string cs_;
			for (unsigned i = 0; i < kappa; i++) cs_ += ((c >> i) & 1) ? '1' : '0';
			uint64_t rs = seed ^ fnv(cid + "/" + cs_);
			mcenv::CoinSource csP(rs, 101), csV(rs, 202);
			unsigned draws = 0;
			csV.logging = true;
			csV.steer = [&](unsigned char *buf, size_t len, int, uint64_t) -> bool {
				if (len != 1) return false;
				unsigned k = draws++;
				buf[0] = (k < kappa && ((c >> k) & 1)) ? 0xFF : 0x00;
				return true;
			};
			RunRes r = run_inter(
				[&](std::iostream &io) { return guess_prover<StackT, SecretT>(io, s, s2, cyclic, guess, ops); },
				[&](std::iostream &io) { return ops.verify(s, s2, cyclic, io); }, rs, &csP, &csV);
			R->counters["runs"]++;
			// fully steered: every random request of the verifier thread was a one-byte request answered by the harness,
			// i.e. the verifier's behaviour in this run is a function of the enumerated string alone
			bool fully_steered = true;
			for (size_t i = 0; i < csV.log.size(); i++) if (csV.log[i].len != 1) fully_steered = false;
			if (!fully_steered) steering_lost = true;
			std::vector<int> ch = challenge_bits(r.vlines);
			bool level_ok = !r.vlines.empty() && r.vlines[0] == str(kappa);
			size_t L = ch.size();
			bool all_match = (L == kappa), wire_is_coin = true;
			for (size_t i = 0; i < L && i < kappa; i++)
			{
				if (ch[i] != guess[i]) all_match = false;
				if (i < draws && ch[i] != (int)((c >> i) & 1)) wire_is_coin = false;
			}
			std::string what = "guess=" + gs + " coins=" + cs_ + " wire=";
			for (size_t i = 0; i < L; i++) what += (char)('0' + (ch[i] < 0 ? 9 : ch[i]));
			what += " verdict=" + str(r.accept) + " vthrew=" + str(r.vthrew) + " onebyte_draws=" + str(draws);
			R->ok(L > 0);
			if (!level_ok || L > kappa)
				R->viol("guess/protocol-shape", "verifier did not send the security level line followed by at most kappa challenges: " + what, cid);
			else if (r.accept && !all_match)
				R->viol("guess/accepted-wrong-guess", "cut-and-choose verifier accepted a prover that had not prepared for the challenges it sent: " + what, cid);
			else if (!r.accept && all_match)
				R->viol("guess/rejected-right-guess", "verifier rejected although it sent kappa challenges that all equal the guess (accepted for exactly that string fails): " + what, cid);
			if (fully_steered && !wire_is_coin)
				R->viol("guess/challenge-not-from-coins", "a challenge bit on the wire differs from the coin byte (0x00/0xFF) the verifier drew for it: " + what, cid);
			if (r.accept) accepted++;
			if (fully_steered) observed.insert(c);
			if (c == g) R->sample(cid, what);
		}
		R->counters["coin_strings_observed"] += observed.size();
		R->counters["guesses"]++;
		if (observed.size() != (1u << kappa))
		{
			R->exhaustive = false;
			R->caps.insert("steering-lost");   // the verifier drew randomness other than one byte per challenge: its coin strings were not enumerated
		}
		else if (accepted != 1)
			R->viol("guess/accept-count", "guess " + gs + " accepted for " + str(accepted) + " of the " + str(1u << kappa) + " verifier coin strings (all of the verifier's randomness was enumerated; expected exactly 1)", cid);
	}
}

int main(int argc, char **argv)
{
	Args A = parse(argc, argv);
	Report rep(A);
	R = &rep;
	if (!init_libTMCG()) return 2;
	MuteCerr mute;
	uint64_t seed = mcenv::env_seed();
	bool thorough = (A.tier == "thorough");
	std::string only_enc = A.get("enc", "");
	const size_t n = 3, K = 2, W = 2;
	std::vector<unsigned> kappas;
	for (unsigned k = 1; k <= (thorough ? 4u : 3u); k++) kappas.push_back(k);
	if (thorough) kappas.push_back(8);
	if (A.has("kappa")) { kappas.clear(); kappas.push_back((unsigned)A.geti("kappa", 2)); }
	rep.bound = std::string("n=3; kappa<=") + (thorough ? "4 all (guess,challenge) pairs, kappa=8: 4 guesses x 256 challenges" : "3 all (guess,challenge) pairs");

	VWorld VW(seed, PS, QS, LE, 4);
	QWorld QW(seed, K, W, 448);
	SchindelhauerTMCG build(16, K, W);
	std::vector<std::vector<size_t> > perms = all_perms(n);

	for (int enc = 0; enc < 2; enc++)
	{
		std::string encn = enc == 0 ? "vtmf" : "qr";
		if (!only_enc.empty() && only_enc != encn) continue;
		for (int cyc = 0; cyc < 2; cyc++)
		{
			std::vector<std::string> kinds;
			kinds.push_back("retype"), kinds.push_back("sub");
			if (cyc) kinds.push_back("noncyc");
			for (size_t ki = 0; ki < kinds.size(); ki++)
			{
				std::string prefix = "guess:" + encn + ":" + (cyc ? "cyclic" : "perm") + ":" + kinds[ki];
				UseCoins u(seed ^ fnv(prefix), 31);
				// a true base statement: perm mode pi = (1,2,0)->any, cyclic mode a rotation; noncyc: transposition
				std::vector<size_t> pi = kinds[ki] == "noncyc" ? perms[1] /* 0 2 1 */ : (cyc ? perms[3] /* 1 2 0 */ : perms[4] /* 2 0 1 */);
				if (kinds[ki] == "noncyc" && is_cyclic(pi)) harness_error("noncyc permutation is cyclic");
				if (kinds[ki] != "noncyc" && cyc && !is_cyclic(pi)) harness_error("rotation is not cyclic");
				for (size_t kk = 0; kk < kappas.size(); kk++)
				{
					unsigned kappa = kappas[kk];
					std::vector<unsigned> guesses;
					if (kappa <= 4) for (unsigned g = 0; g < (1u << kappa); g++) guesses.push_back(g);
					else { guesses.push_back(0), guesses.push_back((1u << kappa) - 1), guesses.push_back(0x4D), guesses.push_back(0xB2); }
					SchindelhauerTMCG tP(kappa, K, W), tV(kappa, K, W);
					if (enc == 0)
					{
						VStack s, s2;
						for (size_t i = 0; i < n; i++)
						{
							VTMF_Card c; VTMF_CardSecret cs;
							build.TMCG_CreatePrivateCard(c, cs, VW.P, i);
							s.push(c);
						}
						VSecret ss;
						build.TMCG_CreateStackSecret(ss, pi, n, VW.P);
						build.TMCG_MixStack(s, s2, ss, VW.P);
						if (kinds[ki] == "retype")
							mpz_mul(s2[1].c_2, s2[1].c_2, VW.P->g), mpz_mod(s2[1].c_2, s2[1].c_2, VW.P->p);
						else if (kinds[ki] == "sub")
						{
							VTMF_CardSecret cs;
							build.TMCG_CreateCardSecret(cs, VW.P);
							build.TMCG_MaskCard(s[pi[0]], s2[1], cs, VW.P);   // output 1 := re-masked copy of the input of output 0
						}
						bool truth = cyc ? VW.is_rotation(s, s2) : VW.is_shuffle(s, s2);
						if (truth) harness_error("guess: base statement is true: " + prefix);
						Ops<VStack, VSecret> ops;
						ops.create = [&](VSecret &x, bool c, size_t sz) { tP.TMCG_CreateStackSecret(x, c, sz, VW.P); };
						ops.mix = [&](const VStack &a, VStack &b, const VSecret &x) { tP.TMCG_MixStack(a, b, x, VW.P); };
						ops.verify = [&](const VStack &a, const VStack &b, bool c, std::iostream &io) { return tV.TMCG_VerifyStackEquality(a, b, c, VW.V, io, io); };
						explore<VStack, VSecret>(prefix, s, s2, cyc != 0, kappa, guesses, ops, seed);
					}
					else
					{
						QStack s, s2;
						for (size_t i = 0; i < n; i++)
						{
							TMCG_Card c(K, W); TMCG_CardSecret cs(K, W);
							build.TMCG_CreatePrivateCard(c, cs, QW.ring, 0, i);
							s.push(c);
						}
						QSecret ss;
						build.TMCG_CreateStackSecret(ss, pi, QW.ring, 0, n);
						build.TMCG_MixStack(s, s2, ss, QW.ring);
						if (kinds[ki] == "retype")
							mpz_mul(&s2[1].z[0][0], &s2[1].z[0][0], QW.ring.keys[0].y), mpz_mod(&s2[1].z[0][0], &s2[1].z[0][0], QW.ring.keys[0].m);
						else if (kinds[ki] == "sub")
						{
							TMCG_CardSecret cs(K, W);
							build.TMCG_CreateCardSecret(cs, QW.ring, 0);
							build.TMCG_MaskCard(s[pi[0]], s2[1], cs, QW.ring);
						}
						bool truth = cyc ? QW.is_rotation(s, s2) : QW.is_shuffle(s, s2);
						if (truth) harness_error("guess: base statement is true: " + prefix);
						Ops<QStack, QSecret> ops;
						ops.create = [&](QSecret &x, bool c, size_t sz) { tP.TMCG_CreateStackSecret(x, c, QW.ring, 0, sz); };
						ops.mix = [&](const QStack &a, QStack &b, const QSecret &x) { tP.TMCG_MixStack(a, b, x, QW.ring); };
						ops.verify = [&](const QStack &a, const QStack &b, bool c, std::iostream &io) { return tV.TMCG_VerifyStackEquality(a, b, c, QW.ring, io, io); };
						explore<QStack, QSecret>(prefix, s, s2, cyc != 0, kappa, guesses, ops, seed);
					}
				}
			}
		}
	}
	rep.finish();
	return 0;
}
