// C04 (a) — soundness against "honest code, non-fitting witness".
//
// For every TRUE statement of a small catalogue (stack shuffle, stack rotation, card masking, decryption share,
// key share, commitment opening and the two sub-arguments SKC / PUB-ROT-ZK) the harness applies every single edit of
// a fixed list to the STATEMENT, decides with the secret keys it holds that the edited statement is really FALSE
// (opening every card itself), and then runs the library's real *Prove* code with the ORIGINAL witness against the
// library's real *Verify* code (interactive variants on two threads over mc/wire.hh).  The verifier must reject.
//
// Families (--family):
//   vstack  discrete-log encoding, shuffle:  variants cc (TMCG_Prove/VerifyStackEquality, kappa=16), groth-i
//           (GrothVSSHE::Prove/Verify_interactive), groth-pc (TMCG_*_Groth, public coin), groth-ni (non-interactive);
//           n in 2..3 (quick) / 2..4 (thorough), EVERY permutation pi in S_n, every edit below.
//   vrot    discrete-log encoding, rotation: variants cc (cyclic=true), hoogh-i, hoogh-pc, hoogh-ni; every rotation
//           with every edit, and EVERY non-cyclic pi in S_n presented as a rotation (witness = the real secret of pi).
//   qstack  quadratic-residue encoding: cc with cyclic=false (all pi) and cyclic=true (all rotations + every
//           non-cyclic pi); 2 players, 2 type bits, Rabin keys 448 bit (quick) / 448+704 bit (thorough; 2048 bit in
//           the default-regime run); n in 2..3 (n = 4 as well for the 448 bit key in the thorough tier).
//   card    = vcard + qcard.  vcard: vremask/vmask (CP proofs), vdec (decryption share with another key / for another
//           card), keyshare (NIZK, interactive, public coin), com (Pedersen), skc, pubrot (the sub-arguments of the
//           shuffle / rotation proofs driven directly, n <= nmax, every pi / r).  qcard: qmask (TMCG_Prove/VerifyMaskCard,
//           k*w cut-and-choose sub-proofs), qdec (TMCG_Prove/VerifyCardSecret with another key / another card).
//   parity  quadratic-residue encoding, witness that FITS the computation but changes the type (odd parity of the
//           masking bits over the players in one type-bit column; with 4 type bits: every non-empty subset of columns,
//           i.e. 1, 2, 3 or 4 type bits of one card flipped): the statement is false and must be rejected as well.
// Edits of the output stack (every position i): sub:i:j (output i := re-masked copy of input j != pi(i)), fresh:i:t
//   (fresh card of every other type), dup:i:j (literal copy of output j), dropdup:i:j (output i dropped, re-masked
//   copy of output j appended), retype:i:d (c_2 * g^d, d = 1..3 | QR: flip:i:k:w = z[k][w] * y_k), c1g:i, neg1:i /
//   neg2:i (component replaced by p - component: not in the group | QR: jac:i = Jacobi symbol -1), short (one card
//   fewer; verifier only).
// Oracle:
//   * Fiat-Shamir / Groth / Hoogh / Schnorr style verifiers: reject.  Acceptance probability of honest prover code
//     on a false statement is <= n 2^-l_e (l_e = 56), 2/q (|q| = 192) or a SHA-256 collision, i.e. < 2^-40 per tier.
//   * cut-and-choose verifiers: exact — the challenges are read from the wire; honest prover code answers a
//     1-challenge correctly (it re-mixed the edited stack itself) and a 0-challenge wrongly, so "accept" is a
//     violation iff at least one 0-challenge was sent in a (sub-)proof whose witness does not fit.
//   A statement that is still TRUE after the edit (decided with the secret keys) is skipped, not judged.
//   If the unedited statement is not accepted the cell is not judged (cap baseline-rejected, exhaustive=false).
#include "c04_common.hh"
using namespace c04;

static Report *R;
static uint64_t SEED;
static bool THOROUGH;
static unsigned long PS = 384, QS = 192, LE = 56;   // --psize --qsize --le (default regime: 2048 256 80)
static const unsigned long KAPPA = 16;
static size_t NMIN = 2, NMAX = 3;                    // --nmin --nmax (stack sizes of the discrete-log families)
static std::string RTAG;                             // regime tag in case ids, empty for the standard small-admissible regime
static const size_t K = 2, W = 2, T = 4;   // QR: players, type bits; both encodings: 4 card types

static void at(const std::string &cid) { printf("{\"t\":\"at\",\"case\":\"%s\"}\n", jesc(cid).c_str()); fflush(stdout); }

// ---------------------------------------------------------------- verdict helpers
static std::string describe(const RunRes &r)
{
	std::string c;
	std::vector<int> ch = challenge_bits(r.vlines);
	for (size_t i = 0; i < ch.size() && i < 40; i++) c += (char)(ch[i] < 0 ? '?' : '0' + ch[i]);
	return "verdict=" + str(r.accept) + " vthrew=" + str(r.vthrew) + " pthrew=" + str(r.pthrew) + " vlines=" + str(r.vlines.size()) + " tail=" + c;
}
// verifier must reject
static void judge_reject(const std::string &key, const std::string &cid, const std::string &edit, const RunRes &r)
{
	R->ok(true);
	R->counters["judged"]++;
	if (r.accept)
		R->viol(key, "verifier accepted a FALSE statement (" + edit + ") proven by the honest prover code with the original witness; " + describe(r), cid);
	else
		R->counters["rejected"]++;
}
// cut-and-choose stack equality: vlines = level, challenge_1 .. challenge_k
static void judge_cutchoose(const std::string &key, const std::string &cid, const std::string &edit, const RunRes &r)
{
	std::vector<int> ch = challenge_bits(r.vlines);
	bool any_zero = false;
	for (size_t i = 0; i < ch.size(); i++) if (ch[i] == 0) any_zero = true;
	if (r.accept && !any_zero)
	{	// the legitimate 2^-kappa event: every challenge was 1
		R->ok(false);
		R->counters["all_ones_challenge"]++;
		return;
	}
	R->ok(true);
	R->counters["judged"]++;
	if (r.accept)
		R->viol(key, "cut-and-choose verifier accepted a FALSE statement (" + edit + ") although it sent a 0-challenge that the honest prover code cannot answer; " + describe(r), cid);
	else
		R->counters["rejected"]++;
}
static void baseline_failed(const std::string &cid, const std::string &variant, const RunRes &r)
{
	R->exhaustive = false;
	R->caps.insert("baseline-rejected:" + variant);
	R->counters["baseline_rejected"]++;
	R->sample(cid, "TRUE statement not accepted, cell not judged: " + describe(r));
}

// ================================================================ discrete-log encoding: stacks
struct VCtx {
	VWorld *W;
	SchindelhauerTMCG *tP, *tV, *tB;   // prover's, verifier's, harness' (building cards) instance
};

static void v_mulg(VWorld &VW, mpz_ptr a, unsigned long d)
{
	Z t;
	mpz_powm_ui(t, VW.P->g, d, VW.P->p);
	mpz_mul(a, a, t), mpz_mod(a, a, VW.P->p);
}
static void v_remask(VCtx &C, const VTMF_Card &in, VTMF_Card &out)
{
	VTMF_CardSecret cs;
	C.tB->TMCG_CreateCardSecret(cs, C.W->P);
	C.tB->TMCG_MaskCard(in, out, cs, C.W->P);
}
static VStack v_replace(const VStack &s2, size_t i, const VTMF_Card &c)
{
	VStack o;
	for (size_t j = 0; j < s2.size(); j++) o.push(j == i ? c : s2[j]);
	return o;
}

typedef std::function<void(const std::string &name, const std::string &cls, const VStack &s2e, bool verifier_only)> VEditFn;

static void v_edits(VCtx &C, const VStack &s, const VStack &s2, const std::vector<size_t> &pi, const std::vector<size_t> &types, const VEditFn &fn)
{
	size_t n = s.size();
	VWorld &VW = *C.W;
	for (size_t i = 0; i < n; i++)
	{
		for (size_t j = 0; j < n; j++)
		{
			if (j == pi[i]) continue;
			VTMF_Card c;
			v_remask(C, s[j], c);
			fn("sub:" + str(i) + ":" + str(j), "sub", v_replace(s2, i, c), false);
		}
		for (size_t t = 0; t < T; t++)
		{
			if (t == types[pi[i]]) continue;
			VTMF_Card c; VTMF_CardSecret cs;
			C.tB->TMCG_CreatePrivateCard(c, cs, VW.P, t);
			fn("fresh:" + str(i) + ":" + str(t), "fresh", v_replace(s2, i, c), false);
		}
		for (size_t j = 0; j < n; j++)
		{
			if (j == i) continue;
			fn("dup:" + str(i) + ":" + str(j), "dup", v_replace(s2, i, s2[j]), false);
		}
		for (size_t j = 0; j < n; j++)
		{
			if (j == i) continue;
			VStack o;
			for (size_t k = 0; k < n; k++) if (k != i) o.push(s2[k]);
			VTMF_Card c;
			v_remask(C, s2[j], c);
			o.push(c);
			fn("dropdup:" + str(i) + ":" + str(j), "dropdup", o, false);
		}
		for (unsigned long d = 1; d <= 3; d++)
		{
			VTMF_Card c(s2[i]);
			v_mulg(VW, c.c_2, d);
			fn("retype:" + str(i) + ":" + str(d), "retype", v_replace(s2, i, c), false);
		}
		{
			VTMF_Card c(s2[i]);
			v_mulg(VW, c.c_1, 1);
			fn("c1g:" + str(i), "c1g", v_replace(s2, i, c), false);
		}
		{
			VTMF_Card c(s2[i]);
			mpz_sub(c.c_1, VW.P->p, c.c_1);
			fn("neg1:" + str(i), "nongroup", v_replace(s2, i, c), false);
		}
		{
			VTMF_Card c(s2[i]);
			mpz_sub(c.c_2, VW.P->p, c.c_2);
			fn("neg2:" + str(i), "nongroup", v_replace(s2, i, c), false);
		}
	}
	{
		VStack o;
		for (size_t k = 0; k + 1 < n; k++) o.push(s2[k]);
		fn("short", "short", o, true);
	}
}

// one protocol run of a variant; ss is the prover's witness
static RunRes v_run(VCtx &C, const std::string &variant, bool rot, const VStack &s, const VStack &s2, const VSecret &ss, uint64_t seed, bool verifier_only)
{
	VWorld &VW = *C.W;
	std::function<bool(std::iostream &)> noprover = [](std::iostream &) { return true; };
	auto members = [&]() {
		for (size_t i = 0; i < s2.size(); i++)
			if (!VW.V->CheckElement(s2[i].c_1) || !VW.V->CheckElement(s2[i].c_2)) return false;
		return true;
	};
	if (variant == "cc")
		return run_inter(verifier_only ? noprover : [&](std::iostream &io) { C.tP->TMCG_ProveStackEquality(s, s2, ss, rot, VW.P, io, io); return true; },
			[&](std::iostream &io) { return C.tV->TMCG_VerifyStackEquality(s, s2, rot, VW.V, io, io); }, seed);
	if (variant == "groth-pc")
		return run_inter(verifier_only ? noprover : [&](std::iostream &io) { C.tP->TMCG_ProveStackEquality_Groth(s, s2, ss, VW.P, VW.gP, io, io); return true; },
			[&](std::iostream &io) { return C.tV->TMCG_VerifyStackEquality_Groth(s, s2, VW.V, VW.gV, io, io); }, seed);
	if (variant == "hoogh-pc")
		return run_inter(verifier_only ? noprover : [&](std::iostream &io) { C.tP->TMCG_ProveStackEquality_Hoogh(s, s2, ss, VW.P, VW.hP, io, io); return true; },
			[&](std::iostream &io) { return C.tV->TMCG_VerifyStackEquality_Hoogh(s, s2, VW.V, VW.hV, io, io); }, seed);
	if (variant == "groth-ni")
		return run_nizk([&](std::ostream &o) { if (!verifier_only) C.tP->TMCG_ProveStackEquality_Groth_noninteractive(s, s2, ss, VW.P, VW.gP, o); },
			[&](std::istream &in) { return C.tV->TMCG_VerifyStackEquality_Groth_noninteractive(s, s2, VW.V, VW.gV, in); }, seed);
	if (variant == "hoogh-ni")
		return run_nizk([&](std::ostream &o) { if (!verifier_only) C.tP->TMCG_ProveStackEquality_Hoogh_noninteractive(s, s2, ss, VW.P, VW.hP, o); },
			[&](std::istream &in) { return C.tV->TMCG_VerifyStackEquality_Hoogh_noninteractive(s, s2, VW.V, VW.hV, in); }, seed);
	if (variant == "groth-i" || variant == "hoogh-i")
	{	// class level, private coins; the membership test of the TMCG_* wrappers is done by the caller here as well
		std::vector<size_t> pi;
		std::vector<mpz_ptr> Rr;
		std::vector<std::pair<mpz_ptr, mpz_ptr> > e, E, ev, Ev;
		C.tP->TMCG_InitializeStackEquality_Groth(pi, Rr, e, E, s, s2, ss);
		C.tV->TMCG_InitializeStackEquality_Groth(ev, Ev, s, s2);
		size_t r0 = (ss.size() - ss[0].first) % ss.size();
		RunRes r;
		if (variant == "groth-i")
			r = run_inter([&](std::iostream &io) { VW.gP->Prove_interactive(pi, Rr, e, E, io, io); return true; },
				[&](std::iostream &io) { return members() && VW.gV->Verify_interactive(ev, Ev, io, io); }, seed);
		else
			r = run_inter([&](std::iostream &io) { VW.hP->Prove_interactive(r0, Rr, e, E, io, io); return true; },
				[&](std::iostream &io) { return members() && VW.hV->Verify_interactive(ev, Ev, io, io); }, seed);
		C.tP->TMCG_ReleaseStackEquality_Groth(pi, Rr, e, E);
		C.tV->TMCG_ReleaseStackEquality_Groth(ev, Ev);
		return r;
	}
	harness_error("unknown variant " + variant);
	return RunRes();
}

static void fam_vtmf_stack(VCtx &C, bool rot)
{
	VWorld &VW = *C.W;
	const char *fam = rot ? "vrot" : "vstack";
	std::vector<std::string> variants;
	variants.push_back("cc");
	variants.push_back(rot ? "hoogh-i" : "groth-i"), variants.push_back(rot ? "hoogh-pc" : "groth-pc"), variants.push_back(rot ? "hoogh-ni" : "groth-ni");
	for (size_t n = NMIN; n <= NMAX; n++)
	{
		std::vector<std::vector<size_t> > perms = all_perms(n);
		// bases: distinct types 0..n-1; thorough adds one base with a repeated type (some edits then keep the statement true)
		std::vector<std::vector<size_t> > bases;
		{ std::vector<size_t> b; for (size_t i = 0; i < n; i++) b.push_back(i); bases.push_back(b); }
		if (THOROUGH && n == 3 && RTAG.empty()) { std::vector<size_t> b; b.push_back(1), b.push_back(1), b.push_back(2); bases.push_back(b); }
		for (size_t bi = 0; bi < bases.size(); bi++)
		for (size_t vi = 0; vi < variants.size(); vi++)
		for (size_t pidx = 0; pidx < perms.size(); pidx++)
		{
			const std::vector<size_t> &pi = perms[pidx];
			const std::string &variant = variants[vi];
			std::string cid = std::string(fam) + RTAG + ":" + variant + ":n" + str(n) + ":b" + str(bi) + ":p" + perm_str(pi);
			if (!R->mine() || !R->selected(cid)) continue;
			if (R->out_of_time()) return;
			at(cid);
			UseCoins u(SEED ^ fnv(cid), 21);
			const std::vector<size_t> &types = bases[bi];
			VStack s, s2;
			for (size_t i = 0; i < n; i++)
			{
				VTMF_Card c; VTMF_CardSecret cs;
				C.tB->TMCG_CreatePrivateCard(c, cs, VW.P, types[i]);
				s.push(c);
			}
			VSecret ss;
			C.tB->TMCG_CreateStackSecret(ss, pi, n, VW.P);
			C.tB->TMCG_MixStack(s, s2, ss, VW.P);
			std::string key = std::string(fam) + "/" + variant + "/";
			uint64_t rs = SEED ^ fnv(cid);
			if (rot && !is_cyclic(pi))
			{	// a non-cyclic permutation presented as a rotation, proven with its real secret
				if (VW.is_rotation(s, s2)) { R->ok(false); R->counters["skipped_true_statement"]++; continue; }
				if (!VW.is_shuffle(s, s2)) harness_error("mix is not a shuffle: " + cid);
				RunRes r = v_run(C, variant, true, s, s2, ss, rs ^ fnv("noncyclic"), false);
				R->counters["runs"]++;
				if (variant == "cc") judge_cutchoose(key + "noncyclic", cid, "noncyclic pi=" + perm_str(pi), r);
				else judge_reject(key + "noncyclic", cid, "noncyclic pi=" + perm_str(pi), r);
				R->sample(cid, "noncyclic: " + describe(r));
				continue;
			}
			if (!(rot ? VW.is_rotation(s, s2) : VW.is_shuffle(s, s2))) harness_error("base statement not true: " + cid);
			RunRes b = v_run(C, variant, rot, s, s2, ss, rs ^ fnv("baseline"), false);
			R->counters["runs"]++;
			if (!b.accept) { baseline_failed(cid, std::string(fam) + "/" + variant, b); continue; }
			v_edits(C, s, s2, pi, types, [&](const std::string &name, const std::string &cls, const VStack &s2e, bool vonly) {
				if (vonly && (variant == "groth-i" || variant == "hoogh-i")) return;   // class level API asserts equal sizes; the wrappers check them
				bool truth = rot ? VW.is_rotation(s, s2e) : VW.is_shuffle(s, s2e);
				if (truth) { R->ok(false); R->counters["skipped_true_statement"]++; return; }
				RunRes r = v_run(C, variant, rot, s, s2e, ss, rs ^ fnv(name), vonly);
				R->counters["runs"]++;
				if (variant == "cc") judge_cutchoose(key + cls, cid, name, r);
				else judge_reject(key + cls, cid, name, r);
				if (name == "retype:0:1") R->sample(cid, name + ": " + describe(r));
			});
		}
	}
}

// ================================================================ quadratic-residue encoding: stacks
struct QCtx {
	QWorld *W;
	SchindelhauerTMCG *tP, *tV, *tB;
};
static void q_remask(QCtx &C, const TMCG_Card &in, TMCG_Card &out)
{
	TMCG_CardSecret cs(K, W);
	C.tB->TMCG_CreateCardSecret(cs, C.W->ring, 0);
	C.tB->TMCG_MaskCard(in, out, cs, C.W->ring);
}
static QStack q_replace(const QStack &s2, size_t i, const TMCG_Card &c)
{
	QStack o;
	for (size_t j = 0; j < s2.size(); j++) o.push(j == i ? c : s2[j]);
	return o;
}
// an element of Z_m with Jacobi symbol -1
static void q_jacobi_minus(QWorld &QW, size_t k, mpz_ptr out)
{
	mpz_set_ui(out, 2);
	while (mpz_jacobi(out, QW.sec[k]->m) != -1) mpz_add_ui(out, out, 1);
}
typedef std::function<void(const std::string &name, const std::string &cls, const QStack &s2e, bool verifier_only)> QEditFn;
static void q_edits(QCtx &C, const QStack &s, const QStack &s2, const std::vector<size_t> &pi, const std::vector<size_t> &types, const QEditFn &fn)
{
	QWorld &QW = *C.W;
	size_t n = s.size();
	for (size_t i = 0; i < n; i++)
	{
		for (size_t j = 0; j < n; j++)
		{
			if (j == pi[i]) continue;
			TMCG_Card c(K, W);
			q_remask(C, s[j], c);
			fn("sub:" + str(i) + ":" + str(j), "sub", q_replace(s2, i, c), false);
		}
		for (size_t t = 0; t < T; t++)
		{
			if (t == types[pi[i]]) continue;
			TMCG_Card c(K, W); TMCG_CardSecret cs(K, W);
			C.tB->TMCG_CreatePrivateCard(c, cs, QW.ring, 0, t);
			fn("fresh:" + str(i) + ":" + str(t), "fresh", q_replace(s2, i, c), false);
		}
		for (size_t j = 0; j < n; j++)
		{
			if (j == i) continue;
			fn("dup:" + str(i) + ":" + str(j), "dup", q_replace(s2, i, s2[j]), false);
		}
		for (size_t j = 0; j < n; j++)
		{
			if (j == i) continue;
			QStack o;
			for (size_t k = 0; k < n; k++) if (k != i) o.push(s2[k]);
			TMCG_Card c(K, W);
			q_remask(C, s2[j], c);
			o.push(c);
			fn("dropdup:" + str(i) + ":" + str(j), "dropdup", o, false);
		}
		for (size_t k = 0; k < K; k++)
			for (size_t w = 0; w < W; w++)
			{
				TMCG_Card c(s2[i]);
				mpz_mul(&c.z[k][w], &c.z[k][w], QW.ring.keys[k].y), mpz_mod(&c.z[k][w], &c.z[k][w], QW.ring.keys[k].m);
				fn("flip:" + str(i) + ":" + str(k) + ":" + str(w), "retype", q_replace(s2, i, c), false);
			}
		{
			TMCG_Card c(s2[i]);
			Z j;
			q_jacobi_minus(QW, 0, j);
			mpz_mul(&c.z[0][0], &c.z[0][0], j), mpz_mod(&c.z[0][0], &c.z[0][0], QW.ring.keys[0].m);
			fn("jac:" + str(i), "nongroup", q_replace(s2, i, c), false);
		}
	}
	{
		QStack o;
		for (size_t k = 0; k + 1 < n; k++) o.push(s2[k]);
		fn("short", "short", o, true);
	}
}
static RunRes q_run(QCtx &C, bool rot, const QStack &s, const QStack &s2, const QSecret &ss, uint64_t seed, bool verifier_only)
{
	QWorld &QW = *C.W;
	std::function<bool(std::iostream &)> noprover = [](std::iostream &) { return true; };
	return run_inter(verifier_only ? noprover : [&](std::iostream &io) { C.tP->TMCG_ProveStackEquality(s, s2, ss, rot, QW.ring, 0, io, io); return true; },
		[&](std::iostream &io) { return C.tV->TMCG_VerifyStackEquality(s, s2, rot, QW.ring, io, io); }, seed);
}
static void q_make(QCtx &C, const std::vector<size_t> &types, const std::vector<size_t> &pi, QStack &s, QStack &s2, QSecret &ss)
{
	for (size_t i = 0; i < types.size(); i++)
	{
		TMCG_Card c(K, W); TMCG_CardSecret cs(K, W);
		C.tB->TMCG_CreatePrivateCard(c, cs, C.W->ring, 0, types[i]);
		s.push(c);
	}
	C.tB->TMCG_CreateStackSecret(ss, pi, C.W->ring, 0, types.size());
	C.tB->TMCG_MixStack(s, s2, ss, C.W->ring);
}

static void fam_qstack(QCtx &C, const std::string &keytag)
{
	QWorld &QW = *C.W;
	size_t qnmax = (THOROUGH && keytag == "m448") ? 4 : 3;
	for (int rot = 0; rot < 2; rot++)
	for (size_t n = 2; n <= qnmax; n++)
	{
		std::vector<std::vector<size_t> > perms = all_perms(n);
		std::vector<std::vector<size_t> > bases;
		{ std::vector<size_t> b; for (size_t i = 0; i < n; i++) b.push_back(i + (n == 2 ? 1 : 0)); bases.push_back(b); }
		if (THOROUGH && n == 3) { std::vector<size_t> b; b.push_back(3), b.push_back(0), b.push_back(3); bases.push_back(b); }
		for (size_t bi = 0; bi < bases.size(); bi++)
		for (size_t pidx = 0; pidx < perms.size(); pidx++)
		{
			const std::vector<size_t> &pi = perms[pidx];
			std::string cid = "qstack:" + keytag + ":" + (rot ? "cyclic" : "perm") + ":n" + str(n) + ":b" + str(bi) + ":p" + perm_str(pi);
			if (!R->mine() || !R->selected(cid)) continue;
			if (R->out_of_time()) return;
			at(cid);
			UseCoins u(SEED ^ fnv(cid), 22);
			const std::vector<size_t> &types = bases[bi];
			QStack s, s2;
			QSecret ss;
			q_make(C, types, pi, s, s2, ss);
			std::string key = std::string("qstack/") + (rot ? "cyclic" : "perm") + "/";
			uint64_t rs = SEED ^ fnv(cid);
			if (rot && !is_cyclic(pi))
			{
				if (QW.is_rotation(s, s2)) { R->ok(false); R->counters["skipped_true_statement"]++; continue; }
				if (!QW.is_shuffle(s, s2)) harness_error("mix is not a shuffle: " + cid);
				RunRes r = q_run(C, true, s, s2, ss, rs ^ fnv("noncyclic"), false);
				R->counters["runs"]++;
				judge_cutchoose(key + "noncyclic", cid, "noncyclic pi=" + perm_str(pi), r);
				R->sample(cid, "noncyclic: " + describe(r));
				continue;
			}
			if (!(rot ? QW.is_rotation(s, s2) : QW.is_shuffle(s, s2))) harness_error("base statement not true: " + cid);
			RunRes b = q_run(C, rot != 0, s, s2, ss, rs ^ fnv("baseline"), false);
			R->counters["runs"]++;
			if (!b.accept) { baseline_failed(cid, std::string("qstack/") + (rot ? "cyclic" : "perm"), b); continue; }
			q_edits(C, s, s2, pi, types, [&](const std::string &name, const std::string &cls, const QStack &s2e, bool vonly) {
				bool truth = rot ? QW.is_rotation(s, s2e) : QW.is_shuffle(s, s2e);
				if (truth) { R->ok(false); R->counters["skipped_true_statement"]++; return; }
				RunRes r = q_run(C, rot != 0, s, s2e, ss, rs ^ fnv(name), vonly);
				R->counters["runs"]++;
				judge_cutchoose(key + cls, cid, name, r);
				if (name == "flip:0:0:0") R->sample(cid, name + ": " + describe(r));
			});
		}
	}
}

// ================================================================ card level
// ---- discrete-log: re-masking proof (TMCG_ProveMaskCard / TMCG_VerifyMaskCard) and masking proof of a known message
static void fam_vmask(VCtx &C)
{
	VWorld &VW = *C.W;
	for (size_t t = 0; t < T; t++)
	{
		std::string cid = "card" + RTAG + ":vremask:t" + str(t);
		if (R->mine() && R->selected(cid) && !R->out_of_time())
		{
			at(cid);
			UseCoins u(SEED ^ fnv(cid), 23);
			uint64_t rs = SEED ^ fnv(cid);
			VTMF_Card c, cc; VTMF_CardSecret cs0, cs;
			C.tB->TMCG_CreatePrivateCard(c, cs0, VW.P, t);
			C.tB->TMCG_CreateCardSecret(cs, VW.P);
			C.tB->TMCG_MaskCard(c, cc, cs, VW.P);
			auto run = [&](const VTMF_Card &src, const VTMF_Card &dst, const std::string &name) {
				return run_nizk([&](std::ostream &o) { std::stringstream dummy; C.tP->TMCG_ProveMaskCard(src, dst, cs, VW.P, dummy, o); },
					[&](std::istream &in) { std::stringstream dummy; return C.tV->TMCG_VerifyMaskCard(src, dst, VW.V, in, dummy); }, rs ^ fnv(name));
			};
			RunRes b = run(c, cc, "baseline");
			R->counters["runs"]++;
			if (!b.accept) baseline_failed(cid, "card/vremask", b);
			else
			{
				auto test = [&](const VTMF_Card &src, const VTMF_Card &dst, const std::string &name, const std::string &cls) {
					bool truth = VW.valid(dst) && VW.plain(src) == VW.plain(dst);
					if (truth) { R->ok(false); R->counters["skipped_true_statement"]++; return; }
					RunRes r = run(src, dst, name);
					R->counters["runs"]++;
					judge_reject("card/vremask/" + cls, cid, name, r);
					if (name == "retype:1") R->sample(cid, name + ": " + describe(r));
				};
				for (unsigned long d = 1; d <= 3; d++) { VTMF_Card e(cc); v_mulg(VW, e.c_2, d); test(c, e, "retype:" + str(d), "retype"); }
				{ VTMF_Card e(cc); v_mulg(VW, e.c_1, 1); test(c, e, "c1g", "c1g"); }
				{ VTMF_Card e(cc); mpz_sub(e.c_1, VW.P->p, e.c_1); test(c, e, "neg1", "nongroup"); }
				{ VTMF_Card e(cc); mpz_sub(e.c_2, VW.P->p, e.c_2); test(c, e, "neg2", "nongroup"); }
				for (size_t t2 = 0; t2 < T; t2++)
				{
					if (t2 == t) continue;
					VTMF_Card o, e; VTMF_CardSecret os;
					C.tB->TMCG_CreatePrivateCard(o, os, VW.P, t2);
					test(c, o, "fresh:" + str(t2), "fresh");                 // claimed result is a fresh card of another type
					C.tB->TMCG_MaskCard(o, e, cs, VW.P);
					test(c, e, "other:" + str(t2), "sub");                    // result is the masking (same r) of another card
					test(o, cc, "source:" + str(t2), "source");               // cc claimed to be a masking of another source card
				}
			}
		}
		cid = "card" + RTAG + ":vmask:t" + str(t);
		if (R->mine() && R->selected(cid) && !R->out_of_time())
		{
			at(cid);
			UseCoins u(SEED ^ fnv(cid), 23);
			uint64_t rs = SEED ^ fnv(cid);
			Z m, c1, c2, r;
			VW.P->IndexElement(m, t);
			VW.P->VerifiableMaskingProtocol_Mask(m, c1, c2, r);
			auto run = [&](mpz_srcptr mm, mpz_srcptr a, mpz_srcptr b, const std::string &name) {
				return run_nizk([&](std::ostream &o) { VW.P->VerifiableMaskingProtocol_Prove(mm, a, b, r, o); },
					[&](std::istream &in) { return VW.V->VerifiableMaskingProtocol_Verify(mm, a, b, in); }, rs ^ fnv(name));
			};
			RunRes b = run(m, c1, c2, "baseline");
			R->counters["runs"]++;
			if (!b.accept) baseline_failed(cid, "card/vmask", b);
			else
			{
				auto test = [&](mpz_srcptr mm, mpz_srcptr a, mpz_srcptr bb, const std::string &name, const std::string &cls) {
					VTMF_Card tmp;
					mpz_set(tmp.c_1, a), mpz_set(tmp.c_2, bb);
					bool truth = VW.valid(tmp) && VW.plain(tmp) == zs(mm);
					if (truth) { R->ok(false); R->counters["skipped_true_statement"]++; return; }
					RunRes rr = run(mm, a, bb, name);
					R->counters["runs"]++;
					judge_reject("card/vmask/" + cls, cid, name, rr);
				};
				for (size_t t2 = 0; t2 < T; t2++)
				{
					if (t2 == t) continue;
					Z m2;
					VW.P->IndexElement(m2, t2);
					test(m2, c1, c2, "claim:" + str(t2), "retype");           // the ciphertext is claimed to hide another type
				}
				{ Z e(c2); v_mulg(VW, e, 1); test(m, c1, e, "c2g", "retype"); }
				{ Z e(c1); v_mulg(VW, e, 1); test(m, e, c2, "c1g", "c1g"); }
				{ Z e; mpz_sub(e, VW.P->p, c2); test(m, c1, e, "neg2", "nongroup"); }
				{ Z e; mpz_sub(e, VW.P->p, c1); test(m, e, c2, "neg1", "nongroup"); }
			}
		}
	}
}

// ---- quadratic-residue: TMCG_ProveMaskCard / TMCG_VerifyMaskCard (k*w cut-and-choose sub-proofs of kappa rounds each)
// vlines = for each sub-proof reached: level line, then its challenges.  "fits[f]" says whether the prover's (r,b)
// really maps z to zz' in sub-proof f.  Expected: accept <=> every non-fitting sub-proof got only 1-challenges.
static void judge_qmask(const std::string &key, const std::string &cid, const std::string &edit, const RunRes &r, const std::vector<bool> &fits)
{
	size_t idx = 0;
	bool zero_in_nonfitting = false;
	for (size_t f = 0; f < fits.size() && idx < r.vlines.size(); f++)
	{
		idx++;   // level line
		for (unsigned long k = 0; k < KAPPA && idx < r.vlines.size(); k++, idx++)
		{
			std::vector<std::string> one(1, r.vlines[idx]);
			std::vector<int> c = challenge_bits(one, 0);
			if (!fits[f] && c[0] == 0) zero_in_nonfitting = true;
		}
	}
	if (r.accept && !zero_in_nonfitting) { R->ok(false); R->counters["all_ones_challenge"]++; return; }
	R->ok(true);
	R->counters["judged"]++;
	if (r.accept)
		R->viol(key, "TMCG_VerifyMaskCard accepted a FALSE statement (" + edit + ") although a sub-proof whose witness does not fit got a 0-challenge; " + describe(r), cid);
	else
		R->counters["rejected"]++;
}
static void fam_qmask(QCtx &C, const std::string &keytag)
{
	QWorld &QW = *C.W;
	for (size_t t = 0; t < T; t++)
	{
		std::string cid = "card:qmask:" + keytag + ":t" + str(t);
		if (!R->mine() || !R->selected(cid)) continue;
		if (R->out_of_time()) return;
		at(cid);
		UseCoins u(SEED ^ fnv(cid), 24);
		uint64_t rs = SEED ^ fnv(cid);
		TMCG_Card c(K, W), cc(K, W);
		TMCG_CardSecret cs0(K, W), cs(K, W);
		C.tB->TMCG_CreatePrivateCard(c, cs0, QW.ring, 0, t);
		C.tB->TMCG_CreateCardSecret(cs, QW.ring, 0);
		C.tB->TMCG_MaskCard(c, cc, cs, QW.ring);
		auto run = [&](const TMCG_Card &src, const TMCG_Card &dst, const std::string &name) {
			return run_inter([&](std::iostream &io) { C.tP->TMCG_ProveMaskCard(src, dst, cs, QW.ring, io, io); return true; },
				[&](std::iostream &io) { return C.tV->TMCG_VerifyMaskCard(src, dst, QW.ring, io, io); }, rs ^ fnv(name));
		};
		RunRes b = run(c, cc, "baseline");
		R->counters["runs"]++;
		if (!b.accept) { baseline_failed(cid, "card/qmask", b); continue; }
		auto test = [&](const TMCG_Card &src, const TMCG_Card &dst, const std::string &name, const std::string &cls) {
			size_t ta, tb;
			bool va = QW.type_of(src, ta), vb = QW.type_of(dst, tb);
			if (va && vb && ta == tb) { R->ok(false); R->counters["skipped_true_statement"]++; return; }
			std::vector<bool> fits;
			bool prover_asserts = false;
			for (size_t k = 0; k < K; k++)
				for (size_t w = 0; w < W; w++)
				{
					Z zz;
					C.tB->TMCG_MaskValue(QW.ring.keys[k], &src.z[k][w], zz, &cs.r[k][w], &cs.b[k][w]);
					fits.push_back(mpz_cmp(zz, &dst.z[k][w]) == 0);
					if (!mpz_cmp(&src.z[k][w], &dst.z[k][w])) prover_asserts = true;   // TMCG_ProveMaskValue: assert(mpz_cmp(z, zz))
				}
			if (prover_asserts) { R->ok(false); R->counters["skipped_prover_assert"]++; return; }
			RunRes r = run(src, dst, name);
			R->counters["runs"]++;
			judge_qmask("card/qmask/" + cls, cid, name, r, fits);
			if (name == "flip:0:0") R->sample(cid, name + ": " + describe(r));
		};
		for (size_t k = 0; k < K; k++)
			for (size_t w = 0; w < W; w++)
			{
				TMCG_Card e(cc);
				mpz_mul(&e.z[k][w], &e.z[k][w], QW.ring.keys[k].y), mpz_mod(&e.z[k][w], &e.z[k][w], QW.ring.keys[k].m);
				test(c, e, "flip:" + str(k) + ":" + str(w), "retype");
			}
		{
			TMCG_Card e(cc);
			Z j;
			q_jacobi_minus(QW, 1, j);
			mpz_mul(&e.z[1][0], &e.z[1][0], j), mpz_mod(&e.z[1][0], &e.z[1][0], QW.ring.keys[1].m);
			test(c, e, "jac", "nongroup");
		}
		for (size_t t2 = 0; t2 < T; t2++)
		{
			if (t2 == t) continue;
			TMCG_Card o(K, W), e(K, W); TMCG_CardSecret os(K, W);
			C.tB->TMCG_CreatePrivateCard(o, os, QW.ring, 0, t2);
			test(c, o, "fresh:" + str(t2), "fresh");
			C.tB->TMCG_MaskCard(o, e, cs, QW.ring);
			test(c, e, "other:" + str(t2), "sub");
			test(o, cc, "source:" + str(t2), "source");
		}
	}
}

// ---- decryption shares
static void fam_vdec(VCtx &C)
{
	VWorld &VW = *C.W;
	for (size_t t = 0; t < T; t++)
	{
		std::string cid = "card" + RTAG + ":vdec:t" + str(t);
		if (!R->mine() || !R->selected(cid)) continue;
		if (R->out_of_time()) return;
		at(cid);
		UseCoins u(SEED ^ fnv(cid), 25);
		uint64_t rs = SEED ^ fnv(cid);
		VTMF_Card c, c2; VTMF_CardSecret cs;
		C.tB->TMCG_CreatePrivateCard(c, cs, VW.P, t);
		v_remask(C, c, c2);   // another card (different c_1) of the same type
		Z xorig;
		mpz_set(xorig, VW.P->x_i);
		// prover proves its share for card "pc" with secret exponent "x"; verifier checks it for card "vc" against P's registered key
		auto run = [&](const VTMF_Card &pc, const VTMF_Card &vc, mpz_srcptr x, const std::string &name) {
			mpz_set(VW.P->x_i, x);
			RunRes r = run_nizk([&](std::ostream &o) { std::stringstream dummy; C.tP->TMCG_ProveCardSecret(pc, VW.P, dummy, o); },
				[&](std::istream &in) { std::stringstream dummy; C.tV->TMCG_SelfCardSecret(vc, VW.V); return C.tV->TMCG_VerifyCardSecret(vc, VW.V, in, dummy); }, rs ^ fnv(name));
			mpz_set(VW.P->x_i, xorig);
			return r;
		};
		RunRes b = run(c, c, xorig, "baseline");
		R->counters["runs"]++;
		if (!b.accept) { baseline_failed(cid, "card/vdec", b); continue; }
		// truth of "d is c_1^{x_P}": the share sent is pc.c_1^x; it is the right share iff it equals vc.c_1^{x_P}
		auto test = [&](const VTMF_Card &pc, const VTMF_Card &vc, mpz_srcptr x, const std::string &name, const std::string &cls) {
			Z d1, d2;
			mpz_powm(d1, pc.c_1, x, VW.P->p), mpz_powm(d2, vc.c_1, xorig, VW.P->p);
			if (!mpz_cmp(d1, d2)) { R->ok(false); R->counters["skipped_true_statement"]++; return; }
			RunRes r = run(pc, vc, x, name);
			R->counters["runs"]++;
			judge_reject("card/vdec/" + cls, cid, name, r);
			if (name == "x+1") R->sample(cid, name + ": " + describe(r));
		};
		for (unsigned long d = 1; d <= 2; d++) { Z x; mpz_add_ui(x, xorig, d), mpz_mod(x, x, VW.P->q); test(c, c, x, "x+" + str(d), "shifted-key"); }
		{ Z x; mpz_sub(x, VW.P->q, xorig); test(c, c, x, "-x", "shifted-key"); }
		test(c, c, VW.Q->x_i, "xQ", "other-players-key");
		test(c, c, VW.V->x_i, "xV", "other-players-key");
		test(c2, c, xorig, "othercard", "other-card");
	}
}

static void fam_qdec(QCtx &C, const std::string &keytag)
{
	QWorld &QW = *C.W;
	for (size_t t = 0; t < T; t++)
	{
		std::string cid = "card:qdec:" + keytag + ":t" + str(t);
		if (!R->mine() || !R->selected(cid)) continue;
		if (R->out_of_time()) return;
		at(cid);
		UseCoins u(SEED ^ fnv(cid), 26);
		uint64_t rs = SEED ^ fnv(cid);
		// cards whose player-0 row has different residuosity patterns
		std::vector<TMCG_Card> cards;
		for (size_t i = 0; i < 4; i++)
		{
			TMCG_Card c(K, W); TMCG_CardSecret cs(K, W);
			C.tB->TMCG_CreatePrivateCard(c, cs, QW.ring, 1, (t + i) % T);
			cards.push_back(c);
		}
		// the prover (player 0, secret key 0) proves the residuosity bits of row 0 of card pc;
		// the verifier checks them for row 0 of card vc under public key vkey
		auto run = [&](const TMCG_Card &pc, const TMCG_Card &vc, size_t vkey, const std::string &name, std::vector<size_t> *claimed) {
			TMCG_CardSecret got(K, W);
			RunRes r = run_inter([&](std::iostream &io) { C.tP->TMCG_ProveCardSecret(pc, *QW.sec[0], 0, io, io); return true; },
				[&](std::iostream &io) { return C.tV->TMCG_VerifyCardSecret(vc, got, *QW.pub[vkey], 0, io, io); }, rs ^ fnv(name));
			if (claimed)
				for (size_t w = 0; w < W; w++) claimed->push_back(mpz_get_ui(&got.b[0][w]) & 1);
			return r;
		};
		RunRes b = run(cards[0], cards[0], 0, "baseline", NULL);
		R->counters["runs"]++;
		if (!b.accept) { baseline_failed(cid, "card/qdec", b); continue; }
		// statement: "the bits the prover announces are the residuosity bits of vc.z[0][*] under the modulus of key vkey"
		auto test = [&](const TMCG_Card &pc, const TMCG_Card &vc, size_t vkey, const std::string &name, const std::string &cls) {
			bool same = true;
			for (size_t w = 0; w < W; w++)
			{
				bool announced = !tmcg_mpz_qrmn_p(&pc.z[0][w], QW.sec[0]->p, QW.sec[0]->q);
				bool inz = mpz_jacobi(&vc.z[0][w], QW.sec[vkey]->m) == 1;
				bool actual = !tmcg_mpz_qrmn_p(&vc.z[0][w], QW.sec[vkey]->p, QW.sec[vkey]->q);
				if (!inz || announced != actual) same = false;
			}
			if (same) { R->ok(false); R->counters["skipped_true_statement"]++; return; }
			RunRes r = run(pc, vc, vkey, name, NULL);
			R->counters["runs"]++;
			judge_reject("card/qdec/" + cls, cid, name, r);
			if (name == "otherkey:0") R->sample(cid, name + ": " + describe(r));
		};
		for (size_t i = 0; i < cards.size(); i++)
		{
			test(cards[i], cards[i], 1, "otherkey:" + str(i), "other-players-key");   // share made with key 0, verifier expects key 1
			for (size_t j = 0; j < cards.size(); j++)
				if (i != j) test(cards[i], cards[j], 0, "othercard:" + str(i) + ":" + str(j), "other-card");
		}
	}
}

// ---- key shares: the prover runs the proof of knowledge with x_P, the claimed share is not g^{x_P}
static void fam_keyshare(VCtx &C)
{
	VWorld &VW = *C.W;
	const char *variants[3] = { "nizk", "interactive", "publiccoin" };
	for (int vi = 0; vi < 3; vi++)
	{
		std::string variant = variants[vi];
		std::string cid = "card" + RTAG + ":keyshare:" + variant;
		if (!R->mine() || !R->selected(cid)) continue;
		if (R->out_of_time()) return;
		at(cid);
		UseCoins u(SEED ^ fnv(cid), 27);
		uint64_t rs = SEED ^ fnv(cid);
		Z horig;
		mpz_set(horig, VW.P->h_i);
		auto run = [&](mpz_srcptr hclaimed, const std::string &name) {
			RunRes r;
			if (variant == "nizk")
			{
				// a fresh verifier that does not know P yet
				std::stringstream grp;
				VW.P->PublishGroup(grp);
				BarnettSmartVTMF_dlog fresh(grp, PS, QS, true, true);
				{ UseCoins uu(rs ^ fnv(name), 303); fresh.KeyGenerationProtocol_GenerateKey(); }
				mpz_set(VW.P->h_i, hclaimed);
				r = run_nizk([&](std::ostream &o) { VW.P->KeyGenerationProtocol_PublishKey(o); },
					[&](std::istream &in) { return fresh.KeyGenerationProtocol_UpdateKey(in); }, rs ^ fnv(name));
				mpz_set(VW.P->h_i, horig);
			}
			else if (variant == "interactive")
				r = run_inter([&](std::iostream &io) { return VW.P->KeyGenerationProtocol_ProveKey_interactive(io, io); },
					[&](std::iostream &io) { return VW.V->KeyGenerationProtocol_VerifyKey_interactive(hclaimed, io, io); }, rs ^ fnv(name));
			else
			{
				JareckiLysyanskayaEDCF eP(2, 0, VW.P->p, VW.P->q, VW.P->g, VW.P->h), eV(2, 0, VW.V->p, VW.V->q, VW.V->g, VW.V->h);
				r = run_inter([&](std::iostream &io) { return VW.P->KeyGenerationProtocol_ProveKey_interactive_publiccoin(&eP, io, io); },
					[&](std::iostream &io) { return VW.V->KeyGenerationProtocol_VerifyKey_interactive_publiccoin(hclaimed, &eV, io, io); }, rs ^ fnv(name));
			}
			return r;
		};
		RunRes b = run(horig, "baseline");
		R->counters["runs"]++;
		if (!b.accept) { baseline_failed(cid, "card/keyshare/" + variant, b); continue; }
		auto test = [&](mpz_srcptr hc, const std::string &name, const std::string &cls) {
			if (!mpz_cmp(hc, horig)) { R->ok(false); R->counters["skipped_true_statement"]++; return; }
			RunRes r = run(hc, name);
			R->counters["runs"]++;
			judge_reject("card/keyshare/" + variant + "/" + cls, cid, name, r);
			if (name == "hg:1") R->sample(cid, name + ": " + describe(r));
		};
		for (unsigned long d = 1; d <= 3; d++) { Z h2(horig); v_mulg(VW, h2, d); test(h2, "hg:" + str(d), "shifted"); }
		for (int i = 0; i < 4; i++)
		{	// h * u for a random group element u (nobody uses log u)
			Z uel, h2;
			VW.P->RandomElement(uel);
			mpz_mul(h2, horig, uel), mpz_mod(h2, h2, VW.P->p);
			test(h2, "hu:" + str(i), "unknown-dlog");
			test(uel, "u:" + str(i), "unknown-dlog");
		}
		test(VW.Q->h_i, "hQ", "other-players-share");
		test(VW.P->h, "hcommon", "other-players-share");
		// a share outside the group generated by g (no discrete logarithm exists): 8 independent runs, because a verifier
		// that forgets the membership test accepts p - h with probability 1/2 per run
		for (int i = 0; i < 8; i++) { Z h2; mpz_sub(h2, VW.P->p, horig); test(h2, "neg:" + str(i), "nongroup"); }
	}
}

// ---- Pedersen commitments: opening with another message / randomizer / commitment
static std::vector<mpz_ptr> zvec(std::vector<Z> &v) { std::vector<mpz_ptr> r; for (size_t i = 0; i < v.size(); i++) r.push_back(v[i].v); return r; }
static void fam_com(VCtx &C)
{
	VWorld &VW = *C.W;
	for (size_t n = 1; n <= 4; n++)
	{
		std::string cid = "card" + RTAG + ":com:n" + str(n);
		if (!R->mine() || !R->selected(cid)) continue;
		if (R->out_of_time()) return;
		at(cid);
		UseCoins u(SEED ^ fnv(cid), 28);
		PedersenCommitmentScheme *cp = VW.gP->com, *cv = VW.gV->com;
		std::vector<Z> m(n);
		for (size_t i = 0; i < n; i++) tmcg_mpz_srandomm(m[i], cp->q);
		Z c, r;
		std::vector<mpz_ptr> mp = zvec(m);
		cp->Commit(c, r, mp);
		R->counters["runs"]++;
		if (!cv->Verify(c, r, mp)) { RunRes b; b.accept = false, b.vthrew = b.pthrew = b.timeout = false; baseline_failed(cid, "card/com", b); continue; }
		auto test = [&](mpz_srcptr cc, mpz_srcptr rr, std::vector<Z> &mm, const std::string &name, const std::string &cls) {
			// reference: recompute the commitment with plain GMP
			Z ref, t;
			mpz_powm(ref, cv->h, rr, cv->p);
			for (size_t i = 0; i < mm.size(); i++) mpz_powm(t, cv->g[i], mm[i], cv->p), mpz_mul(ref, ref, t), mpz_mod(ref, ref, cv->p);
			if (!mpz_cmp(ref, cc) && mpz_cmp(rr, cv->q) < 0) { R->ok(false); R->counters["skipped_true_statement"]++; return; }
			RunRes rr_;
			rr_.vthrew = rr_.pthrew = rr_.timeout = false;
			std::vector<mpz_ptr> mmp = zvec(mm);
			rr_.accept = cv->Verify(cc, rr, mmp);
			R->counters["runs"]++;
			judge_reject("card/com/" + cls, cid, name, rr_);
		};
		for (size_t i = 0; i < n; i++)
		{
			std::vector<Z> m2(m);
			mpz_add_ui(m2[i], m2[i], 1), mpz_mod(m2[i], m2[i], cp->q);
			test(c, r, m2, "m+1:" + str(i), "message");
			Z c2;
			mpz_mul(c2, c, cp->g[i]), mpz_mod(c2, c2, cp->p);
			test(c2, r, m, "cg:" + str(i), "commitment");
			for (size_t j = 0; j < n; j++)
				if (j != i && mpz_cmp(m[i], m[j])) { std::vector<Z> m3(m); mpz_set(m3[i], m[j]), mpz_set(m3[j], m[i]); test(c, r, m3, "swap:" + str(i) + ":" + str(j), "message"); }
		}
		{ Z r2; mpz_add_ui(r2, r, 1), mpz_mod(r2, r2, cp->q); test(c, r2, m, "r+1", "randomizer"); }
		{ Z c2; mpz_mul(c2, c, cp->h), mpz_mod(c2, c2, cp->p); test(c2, r, m, "ch", "commitment"); }
		{ Z c2; mpz_sub(c2, cp->p, c); test(c2, r, m, "neg", "commitment"); }
	}
}

// ---- Groth's shuffle of known content (sub-argument of the shuffle proof), driven directly.
// Statement: "c is a commitment to a permutation of m_1..m_n" for which the prover knows (pi, r).  Edits change the
// verifier's message list or the commitment, the prover runs with the original (pi, r, m).
static void fam_skc(VCtx &C)
{
	VWorld &VW = *C.W;
	GrothSKC *sp = VW.gP->skc, *sv = VW.gV->skc;
	PedersenCommitmentScheme *cp = VW.gP->com;
	const char *variants[3] = { "interactive", "publiccoin", "noninteractive" };
	size_t nmax = NMAX;
	for (int vi = 0; vi < 3; vi++)
	for (size_t n = 2; n <= nmax; n++)
	{
		std::vector<std::vector<size_t> > perms = all_perms(n);
		for (size_t pidx = 0; pidx < perms.size(); pidx++)
		{
			const std::vector<size_t> &pi = perms[pidx];
			std::string variant = variants[vi];
			std::string cid = "card" + RTAG + ":skc:" + variant + ":n" + str(n) + ":p" + perm_str(pi);
			if (!R->mine() || !R->selected(cid)) continue;
			if (R->out_of_time()) return;
			at(cid);
			UseCoins u(SEED ^ fnv(cid), 29);
			uint64_t rs = SEED ^ fnv(cid);
			std::vector<Z> m(n), mperm(n);
			for (size_t i = 0; i < n; i++) mpz_set_ui(m[i], 1000 + 10 * i);
			for (size_t i = 0; i < n; i++) mpz_set(mperm[i], m[pi[i]]);
			Z c, r;
			tmcg_mpz_srandomm(r, cp->q);
			std::vector<mpz_ptr> mpp = zvec(mperm);
			cp->CommitBy(c, r, mpp);
			// pub = true: the prover code is given the verifier's (edited) message list, pub = false: it keeps its own list
			auto run = [&](mpz_srcptr cc, std::vector<Z> &mv, const std::string &name, bool pub) {
				std::vector<mpz_ptr> mvp = zvec(mv);
				std::vector<mpz_ptr> mp = pub ? zvec(mv) : zvec(m);
				if (variant == "interactive")
					return run_inter([&](std::iostream &io) { sp->Prove_interactive(pi, r, mp, io, io); return true; },
						[&](std::iostream &io) { return sv->Verify_interactive(cc, mvp, io, io); }, rs ^ fnv(name));
				if (variant == "publiccoin")
				{
					JareckiLysyanskayaEDCF eP(2, 0, VW.P->p, VW.P->q, VW.P->g, VW.P->h), eV(2, 0, VW.V->p, VW.V->q, VW.V->g, VW.V->h);
					return run_inter([&](std::iostream &io) { sp->Prove_interactive_publiccoin(pi, r, mp, &eP, io, io); return true; },
						[&](std::iostream &io) { return sv->Verify_interactive_publiccoin(cc, mvp, &eV, io, io); }, rs ^ fnv(name));
				}
				return run_nizk([&](std::ostream &o) { sp->Prove_noninteractive(pi, r, mp, o); },
					[&](std::istream &in) { return sv->Verify_noninteractive(cc, mvp, in); }, rs ^ fnv(name));
			};
			RunRes b = run(c, m, "baseline", false);
			R->counters["runs"]++;
			if (!b.accept) { baseline_failed(cid, "card/skc/" + variant, b); continue; }
			auto test = [&](mpz_srcptr cc, std::vector<Z> &mv, const std::string &name, const std::string &cls, bool pub) {
				// still true iff commitment unchanged and the verifier's list is a permutation of the committed values
				std::vector<std::string> a, bb;
				for (size_t i = 0; i < n; i++) a.push_back(zs(m[i])), bb.push_back(zs(mv[i]));
				std::sort(a.begin(), a.end()), std::sort(bb.begin(), bb.end());
				if (!mpz_cmp(cc, c) && a == bb) { R->ok(false); R->counters["skipped_true_statement"]++; return; }
				RunRes rr = run(cc, mv, name, pub);
				R->counters["runs"]++;
				judge_reject("card/skc/" + variant + "/" + cls, cid, name, rr);
				if (name == "m+1:0") R->sample(cid, name + ": " + describe(rr));
			};
			for (size_t i = 0; i < n; i++)
			{
				{ std::vector<Z> m2(m); mpz_add_ui(m2[i], m2[i], 1); test(c, m2, "m+1:" + str(i), "content", false); test(c, m2, "pub:m+1:" + str(i), "content-pub", true); }
				for (size_t j = 0; j < n; j++)
					if (j != i) { std::vector<Z> m2(m); mpz_set(m2[i], m[j]); test(c, m2, "mdup:" + str(i) + ":" + str(j), "content", false); test(c, m2, "pub:mdup:" + str(i) + ":" + str(j), "content-pub", true); }
				{ Z c2; mpz_mul(c2, c, cp->g[i]), mpz_mod(c2, c2, cp->p); test(c2, m, "cg:" + str(i), "commitment", false); }
			}
		}
	}
}

// ---- PUB-ROT-ZK (sub-argument of the rotation proof), driven directly.
// Statement: "c_k = g^{alpha_{k-r}} h^{s_k}" for which the prover knows (r, s).  Edits change the public alpha list
// or the commitments by a factor g^d, the prover runs with the original (r, s).
static void fam_pubrot(VCtx &C)
{
	VWorld &VW = *C.W;
	HooghSchoenmakersSkoricVillegasPUBROTZK *pp = VW.hP->pub_rot_zk, *pv = VW.hV->pub_rot_zk;
	const char *variants[3] = { "interactive", "publiccoin", "noninteractive" };
	size_t nmax = NMAX;
	for (int vi = 0; vi < 3; vi++)
	for (size_t n = 2; n <= nmax; n++)
	for (size_t rr0 = 0; rr0 < n; rr0++)
	{
		std::string variant = variants[vi];
		std::string cid = "card" + RTAG + ":pubrot:" + variant + ":n" + str(n) + ":r" + str(rr0);
		if (!R->mine() || !R->selected(cid)) continue;
		if (R->out_of_time()) return;
		at(cid);
		UseCoins u(SEED ^ fnv(cid), 30);
		uint64_t rs = SEED ^ fnv(cid);
		std::vector<Z> alpha(n), sv(n), c(n);
		for (size_t i = 0; i < n; i++) mpz_set_ui(alpha[i], 500 + 7 * i), tmcg_mpz_srandomm(sv[i], VW.P->q);
		for (size_t k = 0; k < n; k++)
		{
			size_t kr = (k >= rr0) ? k - rr0 : n - (rr0 - k);
			Z a, b;
			mpz_powm(a, VW.P->g, alpha[kr], VW.P->p), mpz_powm(b, VW.P->h, sv[k], VW.P->p);
			mpz_mul(c[k], a, b), mpz_mod(c[k], c[k], VW.P->p);
		}
		std::vector<mpz_ptr> sp = zvec(sv);
		// the prover is given the same public commitments as the verifier; pub = true: also the verifier's (edited) alpha list
		auto run = [&](std::vector<Z> &av, std::vector<Z> &cv, const std::string &name, bool pub) {
			std::vector<mpz_ptr> avp = zvec(av), cvp = zvec(cv);
			std::vector<mpz_ptr> ap = pub ? zvec(av) : zvec(alpha);
			if (variant == "interactive")
				return run_inter([&](std::iostream &io) { pp->Prove_interactive(rr0, sp, ap, cvp, io, io); return true; },
					[&](std::iostream &io) { return pv->Verify_interactive(avp, cvp, io, io); }, rs ^ fnv(name));
			if (variant == "publiccoin")
			{
				JareckiLysyanskayaEDCF eP(2, 0, VW.P->p, VW.P->q, VW.P->g, VW.P->h), eV(2, 0, VW.V->p, VW.V->q, VW.V->g, VW.V->h);
				return run_inter([&](std::iostream &io) { pp->Prove_interactive_publiccoin(rr0, sp, ap, cvp, &eP, io, io); return true; },
					[&](std::iostream &io) { return pv->Verify_interactive_publiccoin(avp, cvp, &eV, io, io); }, rs ^ fnv(name));
			}
			return run_nizk([&](std::ostream &o) { pp->Prove_noninteractive(rr0, sp, ap, cvp, o); },
				[&](std::istream &in) { return pv->Verify_noninteractive(avp, cvp, in); }, rs ^ fnv(name));
		};
		RunRes b = run(alpha, c, "baseline", false);
		R->counters["runs"]++;
		if (!b.accept) { baseline_failed(cid, "card/pubrot/" + variant, b); continue; }
		auto test = [&](std::vector<Z> &av, std::vector<Z> &cv, const std::string &name, const std::string &cls, bool pub) {
			// the prover's (r, s) is an opening iff every c_k equals g^{av_{k-r}} h^{s_k}
			bool fits = true;
			for (size_t k = 0; k < n; k++)
			{
				size_t kr = (k >= rr0) ? k - rr0 : n - (rr0 - k);
				Z a, bb;
				mpz_powm(a, VW.P->g, av[kr], VW.P->p), mpz_powm(bb, VW.P->h, sv[k], VW.P->p);
				mpz_mul(a, a, bb), mpz_mod(a, a, VW.P->p);
				if (mpz_cmp(a, cv[k])) fits = false;
			}
			if (fits) { R->ok(false); R->counters["skipped_true_statement"]++; return; }
			RunRes rr = run(av, cv, name, pub);
			R->counters["runs"]++;
			judge_reject("card/pubrot/" + variant + "/" + cls, cid, name, rr);
			if (name == "cg:0:1") R->sample(cid, name + ": " + describe(rr));
		};
		for (size_t k = 0; k < n; k++)
		{
			for (unsigned long d = 1; d <= 2; d++) { std::vector<Z> c2(c); v_mulg(VW, c2[k], d); test(alpha, c2, "cg:" + str(k) + ":" + str(d), "commitment", false); }
			{ std::vector<Z> a2(alpha); mpz_add_ui(a2[k], a2[k], 1); test(a2, c, "alpha+1:" + str(k), "alpha", false); test(a2, c, "pub:alpha+1:" + str(k), "alpha-pub", true); }
			for (size_t j = k + 1; j < n && n >= 3; j++)
			{	// two commitments exchanged: for n >= 3 and distinct alpha no rotation explains the new arrangement
				std::vector<Z> c2(c);
				mpz_set(c2[k], c[j]), mpz_set(c2[j], c[k]);
				test(alpha, c2, "swap:" + str(k) + ":" + str(j), "arrangement", false);
			}
		}
	}
}

// ================================================================ parity: type-changing witness in the QR encoding
// The masking bits b[k][w] of an honest card secret XOR to 0 over the players k; a secret of odd parity in column w
// flips type bit w.  The prover uses such a secret both to compute the output and as the witness of the library's
// prover code.  The statement ("same type" / "s2 is a shuffle of s") is false.
static void fam_parity(QCtx &C, const std::string &keytag)
{
	QWorld &QW = *C.W;
	for (size_t t = 0; t < T; t++)
	{
		std::string cid = "parity:maskcard:" + keytag + ":t" + str(t);
		if (!R->mine() || !R->selected(cid)) continue;
		if (R->out_of_time()) return;
		at(cid);
		UseCoins u(SEED ^ fnv(cid), 32);
		uint64_t rs = SEED ^ fnv(cid);
		for (size_t k = 0; k < K; k++)
			for (size_t w = 0; w < W; w++)
			{
				TMCG_Card c(K, W), cc(K, W);
				TMCG_CardSecret cs0(K, W), cs(K, W);
				C.tB->TMCG_CreatePrivateCard(c, cs0, QW.ring, 0, t);
				C.tB->TMCG_CreateCardSecret(cs, QW.ring, 0);
				mpz_set_ui(&cs.b[k][w], (mpz_get_ui(&cs.b[k][w]) & 1) ^ 1);
				C.tB->TMCG_MaskCard(c, cc, cs, QW.ring);
				size_t ta, tb;
				if (!QW.type_of(c, ta) || !QW.type_of(cc, tb) || ta != t || tb != (t ^ ((size_t)1 << w)))
					harness_error("parity: unexpected types " + cid);
				std::string name = "odd:" + str(k) + ":" + str(w);
				RunRes r = run_inter([&](std::iostream &io) { C.tP->TMCG_ProveMaskCard(c, cc, cs, QW.ring, io, io); return true; },
					[&](std::iostream &io) { return C.tV->TMCG_VerifyMaskCard(c, cc, QW.ring, io, io); }, rs ^ fnv(name));
				R->counters["runs"]++;
				R->ok(true);
				R->counters["judged"]++;
				if (r.accept)
					R->viol("qr/mask-parity-unchecked/maskcard", "TMCG_VerifyMaskCard accepted a masking that changes the card type " + str(ta) + " -> " + str(tb) +
						" (card secret with odd parity of b[*][" + str(w) + "], flipped at player " + str(k) + "); " + describe(r), cid);
				else
					R->counters["rejected"]++;
			}
	}
	for (int rot = 0; rot < 2; rot++)
	for (size_t n = 2; n <= 3; n++)
	{
		std::vector<std::vector<size_t> > perms = all_perms(n);
		for (size_t pidx = 0; pidx < perms.size(); pidx++)
		{
			const std::vector<size_t> &pi = perms[pidx];
			if (rot && !is_cyclic(pi)) continue;
			std::string cid = "parity:stack:" + keytag + ":" + (rot ? "cyclic" : "perm") + ":n" + str(n) + ":p" + perm_str(pi);
			if (!R->mine() || !R->selected(cid)) continue;
			if (R->out_of_time()) return;
			at(cid);
			UseCoins u(SEED ^ fnv(cid), 33);
			uint64_t rs = SEED ^ fnv(cid);
			std::vector<size_t> types;
			for (size_t i = 0; i < n; i++) types.push_back(i);
			for (size_t i = 0; i < n; i++)
				for (size_t k = 0; k < K; k++)
					for (size_t w = 0; w < W; w++)
					{
						QStack s, s2;
						QSecret ss;
						for (size_t j = 0; j < n; j++)
						{
							TMCG_Card c(K, W); TMCG_CardSecret cs(K, W);
							C.tB->TMCG_CreatePrivateCard(c, cs, QW.ring, 0, types[j]);
							s.push(c);
						}
						C.tB->TMCG_CreateStackSecret(ss, pi, QW.ring, 0, n);
						// TMCG_MixStack masks input card j with ss[j].second: make the secret of input card i odd
						mpz_set_ui(&ss[i].second.b[k][w], (mpz_get_ui(&ss[i].second.b[k][w]) & 1) ^ 1);
						C.tB->TMCG_MixStack(s, s2, ss, QW.ring);
						bool truth = rot ? QW.is_rotation(s, s2) : QW.is_shuffle(s, s2);
						if (truth) { R->ok(false); R->counters["skipped_true_statement"]++; continue; }
						std::string name = "odd:" + str(i) + ":" + str(k) + ":" + str(w);
						RunRes r = q_run(C, rot != 0, s, s2, ss, rs ^ fnv(name), false);
						R->counters["runs"]++;
						judge_cutchoose("qr/mask-parity-unchecked/stackequality", cid, name + " (type-changing stack secret used as witness)", r);
					}
		}
	}
}

// Same with FOUR type bits: secrets that flip every non-empty subset of the type bits of one card (1, 2, 3 or 4 bits;
// flipped at player 0, or alternating between the players), so that a verifier which only tests the parity of ALL
// mask bits of a card is caught as well.
static void fam_parity4(uint64_t keysize, const std::string &keytag)
{
	const size_t K4 = 2, W4 = 4;
	QWorld QW(SEED, K4, W4, keysize);
	SchindelhauerTMCG tP(KAPPA, K4, W4), tV(KAPPA, K4, W4), tB(KAPPA, K4, W4);
	for (int rot = 0; rot < 2; rot++)
	for (size_t n = 2; n <= 3; n++)
	{
		std::vector<std::vector<size_t> > perms = all_perms(n);
		for (size_t pidx = 0; pidx < perms.size(); pidx++)
		{
			const std::vector<size_t> &pi = perms[pidx];
			if (rot && !is_cyclic(pi)) continue;
			if (n == 3 && pidx != 3 && pidx != 1) continue;   // n = 3: one rotation (1 2 0) and one transposition (0 2 1)
			std::string cid = "parity:stack4:" + keytag + ":" + (rot ? "cyclic" : "perm") + ":n" + str(n) + ":p" + perm_str(pi);
			if (!R->mine() || !R->selected(cid)) continue;
			if (R->out_of_time()) return;
			at(cid);
			UseCoins u(SEED ^ fnv(cid), 34);
			uint64_t rs = SEED ^ fnv(cid);
			const size_t types[3] = { 5, 10, 12 };
			for (size_t i = 0; i < n; i++)
				for (unsigned subset = 1; subset < 16; subset++)
					for (int pattern = 0; pattern < 2; pattern++)
					{
						QStack s, s2;
						QSecret ss;
						for (size_t j = 0; j < n; j++)
						{
							TMCG_Card c(K4, W4); TMCG_CardSecret cs(K4, W4);
							tB.TMCG_CreatePrivateCard(c, cs, QW.ring, 0, types[j]);
							s.push(c);
						}
						tB.TMCG_CreateStackSecret(ss, pi, QW.ring, 0, n);
						unsigned nflip = 0;
						for (size_t w = 0; w < W4; w++)
						{
							if (!((subset >> w) & 1)) continue;
							size_t k = pattern ? (nflip % K4) : 0;
							mpz_set_ui(&ss[i].second.b[k][w], (mpz_get_ui(&ss[i].second.b[k][w]) & 1) ^ 1);
							nflip++;
						}
						tB.TMCG_MixStack(s, s2, ss, QW.ring);
						std::vector<size_t> ta, tb;
						if (!QW.types_of(s, ta) || !QW.types_of(s2, tb)) harness_error("parity4: cards not in Z°");
						bool truth = rot ? QW.is_rotation(s, s2) : QW.is_shuffle(s, s2);
						if (truth) { R->ok(false); R->counters["skipped_true_statement"]++; continue; }
						std::string name = "odd4:" + str(i) + ":s" + str(subset) + ":" + (pattern ? "alt" : "p0") + " (" + str(nflip) + " type bits of input card " + str(i) + " flipped)";
						RunRes r = run_inter([&](std::iostream &io) { tP.TMCG_ProveStackEquality(s, s2, ss, rot != 0, QW.ring, 0, io, io); return true; },
							[&](std::iostream &io) { return tV.TMCG_VerifyStackEquality(s, s2, rot != 0, QW.ring, io, io); }, rs ^ fnv(name));
						R->counters["runs"]++;
						judge_cutchoose("qr/mask-parity-unchecked/stackequality", cid, name + " (type-changing stack secret used as witness)", r);
						if (subset == 3 && i == 0 && !pattern) R->sample(cid, name + ": " + describe(r));
					}
		}
	}
}

int main(int argc, char **argv)
{
	Args A = parse(argc, argv);
	Report rep(A);
	R = &rep;
	if (!init_libTMCG()) return 2;
	MuteCerr mute;
	SEED = mcenv::env_seed();
	THOROUGH = (A.tier == "thorough");
	std::string family = A.get("family", "all");
	rep.max_samples = 6;
	NMAX = THOROUGH ? 4 : 3;
	PS = A.geti("psize", PS), QS = A.geti("qsize", QS), LE = A.geti("le", LE);
	NMIN = A.geti("nmin", NMIN), NMAX = A.geti("nmax", NMAX);
	if (PS != 384 || QS != 192 || LE != 56) RTAG = "@" + str(PS) + "-" + str(QS) + "-" + str(LE);
	rep.bound = "n in " + str(NMIN) + ".." + str(NMAX) + " (QR n<=3, thorough 448-bit key n<=4), all pi in S_n, all listed single edits; |p|=" + str(PS) + " |q|=" + str(QS) + " l_e=" + str(LE) + " kappa=16";

	bool vcard = (family == "all" || family == "card" || family == "vcard"), qcard = (family == "all" || family == "card" || family == "qcard");
	bool needV = (family == "all" || family == "vstack" || family == "vrot" || vcard);
	bool needQ = (family == "all" || family == "qstack" || qcard || family == "parity");
	VWorld *VW = NULL;
	SchindelhauerTMCG vP(KAPPA, 3, W), vV(KAPPA, 3, W), vB(KAPPA, 3, W);
	if (needV) VW = new VWorld(SEED, PS, QS, LE, 4);
	VCtx VC = { VW, &vP, &vV, &vB };
	std::vector<unsigned long> keysizes;
	if (A.has("keysize")) keysizes.push_back(A.geti("keysize", 448));
	else
	{
		keysizes.push_back(448);
		if (THOROUGH) keysizes.push_back(704);
	}
	SchindelhauerTMCG qP(KAPPA, K, W), qV(KAPPA, K, W), qB(KAPPA, K, W);

	if (family == "all" || family == "vstack") fam_vtmf_stack(VC, false);
	if (family == "all" || family == "vrot") fam_vtmf_stack(VC, true);
	if (vcard)
	{
		fam_vmask(VC), fam_vdec(VC), fam_keyshare(VC), fam_com(VC), fam_skc(VC), fam_pubrot(VC);
	}
	if (needQ)
		for (size_t ki = 0; ki < keysizes.size(); ki++)
		{
			QWorld QW(SEED, K, W, keysizes[ki]);
			QCtx QC = { &QW, &qP, &qV, &qB };
			std::string tag = "m" + str(keysizes[ki]);
			if (family == "all" || family == "qstack") fam_qstack(QC, tag);
			if (qcard) fam_qmask(QC, tag), fam_qdec(QC, tag);
			if (family == "all" || family == "parity") fam_parity(QC, tag), fam_parity4(keysizes[ki], tag);
		}
	rep.finish();
	return 0;
}
