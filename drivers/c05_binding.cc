// C05 — proofs bind every public input and every transmitted value (fault enumeration).
//
// For every cell of the protocol catalogue (drivers/c03_protocols.hh, specs(5, tier, family): small-admissible regime,
// |q| >= 160, l_e = 64 with |q| = 192 for the Groth family, cut-and-choose kappa in {2,8}, stack size n <= 3 (4 in
// thorough), one coin seed per cell in quick and two in thorough) the honest protocol is run once with the real code
// (C03's recorder) and must be accepted.  Then
//   (1) every line of the prover->verifier direction, and for interactive protocols every line of the
//       verifier->prover direction as well, is mutated in turn — one mutation of one line of one direction per run:
//         numeric positions : v+1, 2v+3, 0, 1, p-1, p, q, v+q, v+p, p-v, -v, v-q, 2^4096, an oversized digit string
//         structured text   : the same per numeric token, literal tokens replaced/extended/emptied
//         every line        : empty line, swap with the next line, truncation of the stream after the line
//       non-interactive proofs: the verifier alone is replayed on the mutated text (std::stringstream);
//       interactive ones: prover and verifier are re-run with the same coins and a man-in-the-middle applies the
//       mutation in the relay (c03_core.hh: coroutine transport by default, mc/wire.hh Duplex relay with
//       C3_TRANSPORT=threads / under ASan; both give the same executions).
//   (2) every public input the verifier is called with (card components of both stacks, keys, generators, p, q,
//       commitments, messages) is replaced by v+1, 2v+3, p-v, and a neighbour's valid value; the prover keeps the
//       true statement.  Group parameters are changed by rebuilding the verifier object from a mutated published
//       group text (or re-deriving its exponentiation tables), so that only the proof can notice.
// Oracle (exact, asymmetric; c03_core.hh expect()):
//   non-equivalent value (different residue mod q / element mod p / integer for hashes and counters / square mod m)
//       => the verifier must return false or throw std::exception   key c05/<family>/<position>/<class>/<mutation>
//   equivalent representation outside the prescribed range (v+p for elements, v+q for range-checked exponents)
//       => must be refused                                          class "range"
//   equivalent representation the protocol does not range-restrict (v-q, negated root, parity-equal bit, a larger
//   kappa on the prover's side)  => unconstrained, only counted (free_accepted / free_rejected)
//   cut-and-choose: a position is judged only if the challenge bits actually sent in this run make the verifier look
//   at it (coverage is computed from the recorded verifier lines), so no verdict has probability 1/2.
//   Non-member values (-x) that the *caller* passes to class-level verifiers are recorded, not judged (see PubIn).
//   Any exception that is not a std::exception counts as a violation (.../nonstd-exception).
//   Root-cause keys: c05/negated-exponent/..., c05/order2-commitment/..., c05/element-range-unchecked/... (Tag::weak).
// distinct_nontrivial = number of distinct (cell, direction, line, mutated text) / (cell, input, value) cases whose
// mutated value differs from the original and for which a verdict is asserted.
#include "c03_protocols.hh"
#include "c03_bigalloc.hh"
using namespace drv;
using namespace c3;

struct Todo { std::string first; MutV second; Tag tag; Todo(const std::string &f, const MutV &s, const Tag &t) : first(f), second(s), tag(t) {} };
struct Ctr { uint64_t runs, asserted, free_acc, free_rej, viol; Ctr() : runs(0), asserted(0), free_acc(0), free_rej(0), viol(0) {} };

static RunOut run_cell(Cell &c, const std::vector<std::string> &proof, uint64_t seed, const Mut *m, bool do_reset = true)
{
	if (do_reset && c.reset) c.reset();
	if (c.inter) return run_inter(c.prover, c.verifier, seed, m);
	return run_ni_verify(c.verifier, proof, seed, m);
}

// does replacing the text `v` at a position tagged `t` by the text `w` give a non-equivalent value?  (for swaps)
static Expect expect_text(const Tag &t, const std::string &v, const std::string &w)
{
	if (v == w) return X_SKIP;
	if (t.k == K_STRUCT || t.k == K_TEXT) return t.covered ? X_REJECT : X_FREE;
	if (t.k == K_KAPPA) return X_FREE;
	int base = (t.k == K_CNT) ? 10 : TMCG_MPZ_IO_BASE;
	Z a, b;
	if (!a.parse(v, base)) return X_FREE;
	if (!b.parse(w, base)) return t.covered ? X_REJECT : X_FREE;
	std::string cls;
	Expect e = expect(t, a, b, cls);
	if (t.k == K_CNT || t.k == K_EXACT) e = mpz_cmp(a, b) ? (t.covered ? X_REJECT : X_FREE) : X_SKIP;
	return e;
}

// The exponent the verifier raises component(s) of card `card` of the shuffled stack s2 to is a prover response that is
// part of the recorded transcript: f_i (Groth: tag "f") resp. tau_i (Hoogh: tag "tau").  A twisted component -x behaves
// like x exactly when that exponent is even.  card < 0: is any of them even?  Protocols without such lines: false.
static bool has_stack_exponents(const std::vector<Tag> &tags)
{
	for (size_t i = 0; i < tags.size(); i++) if (tags[i].what == "f" || tags[i].what == "tau") return true;
	return false;
}
static bool stack_exponent_even(const RunOut &H, const std::vector<Tag> &tags, int card)
{
	int k = 0;
	bool any = false;
	for (size_t i = 0; i < tags.size() && i < H.pv.size(); i++)
	{
		if (tags[i].what != "f" && tags[i].what != "tau") continue;
		Z v;
		bool even = v.parse(H.pv[i]) && !(mpz_get_ui(v) & 1UL);
		if (k == card) return even;
		any = any || even;
		k++;
	}
	return card < 0 ? any : false;
}

int main(int argc, char **argv)
{
	Args A = parse(argc, argv);
	Report R(A);
	if (!init_libTMCG()) return 2;
	MuteCerr mute;
	std::string fam = A.get("family", "");
	if (A.has("as")) A.tier = A.get("as");      // run the (smaller) catalogue of another tier, e.g. the ASan pass of the thorough tier
	std::vector<Spec> S;
	try { S = specs(5, A.tier, fam); }
	catch (std::exception &e) { printf("{\"t\":\"error\",\"what\":\"%s\"}\n", jesc(e.what()).c_str()); return 2; }
	R.bound = "family=" + fam + " cells=" + str(S.size()) + " seeds/cell=" + str((A.tier == "thorough") ? 2 : 1);
	R.max_samples = 3;
	Ctr T;
	uint64_t cells_done = 0, positions = 0, pubinputs = 0, order2_inputs_accepted = 0, pair_runs = 0, pair_even = 0, even_seed_searches = 0;
	std::set<std::string> reported;   // one violation line per (key) and cell
	const unsigned nseeds = (A.tier == "thorough") ? 2 : 1;     // baseline transcripts (coin seeds) per cell
	for (size_t sj = 0; sj < S.size() * nseeds; sj++)
	{
		size_t si = sj / nseeds;
		unsigned sidx = sj % nseeds;
		bool mine = R.mine();
		if (!mine || !R.selected(S[si].id)) continue;
		if (R.out_of_time()) break;
		const std::string caseid = S[si].id;
		printf("{\"t\":\"at\",\"case\":\"%s\"}\n", jesc(caseid).c_str());
		fflush(stdout);
		CellP c;
		uint64_t seed = cell_seed(caseid, sidx);
		RunOut H;
		std::vector<std::string> proof;
		try
		{
			c = S[si].make();
			c->prepare(seed);
			if (c->reset) c->reset();
			if (c->inter) H = run_inter(c->prover, c->verifier, seed, NULL);
			else
			{
				std::string what;
				bool pok = run_ni_prove(c->prover, seed, proof, what);
				H = run_ni_verify(c->verifier, proof, seed, NULL);
				H.p_ok = pok;
			}
		}
		catch (std::exception &e)
		{
			printf("{\"t\":\"error\",\"what\":\"setup %s: %s\"}\n", jesc(caseid).c_str(), jesc(e.what()).c_str());
			continue;
		}
		std::string why;
		if (H.timeout && !H.deadlock)
		{	// real-time guard of the transport fired although nobody was blocked: machine load, not a verdict
			printf("{\"t\":\"error\",\"what\":\"real-time guard fired in %s (machine too slow?)\"}\n", jesc(caseid).c_str());
			continue;
		}
		if (!H.accept || H.deadlock || H.timeout || (c->post && !c->post(why)))
		{
			R.viol("c05/" + c->family + "/baseline", "the unmodified transcript is not accepted (completeness): " + H.brief() + " " + why, caseid);
			R.ok(false);
			continue;
		}
		std::vector<Tag> tg[2];
		if (!c->tags(H, tg[0], tg[1]) || tg[0].size() != H.pv.size() || tg[1].size() != H.vp.size())
		{
			printf("{\"t\":\"error\",\"what\":\"tagging of %s does not match the transcript: %zu/%zu tags for %zu/%zu lines\"}\n",
				jesc(caseid).c_str(), tg[0].size(), tg[1].size(), H.pv.size(), H.vp.size());
			continue;
		}
		cells_done++;
		std::set<std::string> distinct;
		double tlast = now();
		auto judge = [&](const Tag &tag, const std::string &pos, const std::string &mname, const std::string &cls, Expect ex, RunOut o, const std::string &shown) {
			T.runs++;
			if (getenv("C5_PROF")) { double t1 = now(); if (t1 - tlast > 0.03) fprintf(stderr, "slow %.3fs %s %s %s\n", t1 - tlast, caseid.c_str(), pos.c_str(), mname.c_str()); tlast = t1; }
			// symmetric protocols (coin flip): the party that *receives* the mutated line is the one that must refuse
			if (c->symmetric && pos.substr(0, 3) == "vp.") o.accept = o.p_ok, o.v_other = o.p_other;
			bool fresh = distinct.insert(pos + "\x01" + shown).second;
			if (o.v_other)
			{
				std::string key = "c05/" + c->family + "/" + pos + "/nonstd-exception";
				if (reported.insert(key + caseid).second) R.viol(key, "verifier threw something that is not a std::exception on " + mname + " of " + pos, caseid);
				T.viol++;
			}
			if (ex == X_FREE)
			{
				if (o.accept) T.free_acc++; else T.free_rej++;
				R.ok(false);
				return;
			}
			T.asserted++;
			R.ok(fresh);
			if (o.accept)
			{
				// root-cause specific keys for positions whose handling is a distinct library mechanism (see Tag::weak)
				std::string key = "c05/" + c->family + "/" + pos + "/" + cls + "/" + mname;
				if (cls == "nonmember" && mname == "p-v" && tag.weak.substr(0, 6) == "order2") key = "c05/" + tag.weak + "/" + c->family + "/" + pos;
				if (cls == "range" && mname == "v+p" && tag.weak == "norange") key = "c05/element-range-unchecked/" + c->family + "/" + pos;
				if (mname == "-v" && tag.weak == "negexp") key = "c05/negated-exponent/" + c->family + "/" + pos;
				T.viol++;
				if (reported.insert(key + caseid).second)
					R.viol(key, "verifier ACCEPTED after mutation " + mname + " of " + pos + " (" + (ex == X_REFUSE ? "equivalent value outside the prescribed range must be refused" : "non-equivalent value")
						+ "); mutated text starts " + shown.substr(0, 40) + " ; " + o.brief(), caseid);
			}
		};
		// ---------------------------------------------------------------- (1) transmitted values
		for (int dir = 0; dir < (c->inter ? 2 : 1); dir++)
		{
			const std::vector<std::string> &L = dir == 0 ? H.pv : H.vp;
			for (size_t idx = 0; idx < L.size(); idx++)
			{
				const Tag &t = tg[dir][idx];
				positions++;
				std::string posname = std::string(dir == 0 ? "pv." : "vp.") + t.what;
				std::vector<Todo> todo;   // (position label, mutation with full line text, tag of the position / token)
				if (t.k == K_STRUCT)
				{
					Toks tk(L[idx]);
					if (tk.tok.size() != t.toks.size())
					{
						printf("{\"t\":\"error\",\"what\":\"token tagging of %s line %zu: %zu tags for %zu tokens\"}\n", jesc(caseid).c_str(), idx, t.toks.size(), tk.tok.size());
						continue;
					}
					for (size_t j = 0; j < tk.tok.size(); j++)
					{
						const Tag &tt = t.toks[j];
						if (tt.what.empty()) continue;
						std::vector<MutV> mv;
						if (tt.k == K_TEXT) catalogue_text(tt, tk.tok[j], mv);
						else catalogue(tt, tk.tok[j], c->p, c->q, mv);
						for (size_t m = 0; m < mv.size(); m++)
						{
							Toks t2 = tk;
							t2.tok[j] = mv[m].text;
							MutV x = mv[m];
							x.text = t2.join();
							todo.push_back(Todo(posname + "." + tt.what, x, tt));
						}
					}
				}
				else if (t.k == K_TEXT)
				{
					std::vector<MutV> mv;
					catalogue_text(t, L[idx], mv);
					for (size_t m = 0; m < mv.size(); m++) todo.push_back(Todo(posname, mv[m], t));
				}
				else
				{
					std::vector<MutV> mv;
					catalogue(t, L[idx], c->p, c->q, mv);
					for (size_t m = 0; m < mv.size(); m++) todo.push_back(Todo(posname, mv[m], t));
				}
				for (size_t m = 0; m < todo.size(); m++)
				{
					Mut mu;
					mu.op = M_REPLACE, mu.dir = dir, mu.idx = idx, mu.text = todo[m].second.text;
					RunOut o = run_cell(*c, proof, seed, &mu);
					judge(todo[m].tag, todo[m].first, todo[m].second.name, todo[m].second.cls, todo[m].second.ex, o, str(dir) + ":" + str(idx) + ":" + mu.text);
				}
				// whole-line mutations
				{
					Mut mu;
					mu.op = M_REPLACE, mu.dir = dir, mu.idx = idx, mu.text = "";
					if (!L[idx].empty())
					{
						RunOut o = run_cell(*c, proof, seed, &mu);
						judge(t, posname, "empty-line", "nonequiv", t.covered ? X_REJECT : X_FREE, o, str(dir) + ":" + str(idx) + ":<empty>");
					}
				}
				if (idx + 1 < L.size())
				{
					Expect e1 = expect_text(t, L[idx], L[idx + 1]), e2 = expect_text(tg[dir][idx + 1], L[idx + 1], L[idx]);
					if (!(e1 == X_SKIP && e2 == X_SKIP))
					{
						Expect ex = (e1 == X_REJECT || e1 == X_REFUSE || e2 == X_REJECT || e2 == X_REFUSE) ? X_REJECT : X_FREE;
						Mut mu;
						mu.op = M_SWAP_NEXT, mu.dir = dir, mu.idx = idx;
						RunOut o = run_cell(*c, proof, seed, &mu);
						judge(t, posname, "swap-with-next", "nonequiv", ex, o, str(dir) + ":" + str(idx) + ":<swap>");
					}
					Mut mu;
					mu.op = M_TRUNC_AFTER, mu.dir = dir, mu.idx = idx;
					RunOut o = run_cell(*c, proof, seed, &mu);
					judge(t, posname, "truncate-after", "nonequiv", X_REJECT, o, str(dir) + ":" + str(idx) + ":<trunc>");
				}
			}
		}
		// ---------------------------------------------------------------- (3) pair twists of stack components
		// two components of the same stack (every pair within a card and across cards) are both multiplied by the order-2
		// element p-1: each factor is a non-member, their product is a member.  Must be refused wherever the verifier
		// entry tests the stack for membership (or hashes it); recorded for the caller's own stack of class-level verifiers.
		auto pair_pass = [&](uint64_t seed_, const RunOut &H_, const std::vector<std::string> &proof_) {
			std::vector<PubIn> P0;
			if (c->reset) c->reset();
			c->pubins(H_, P0);
			bool even_any = stack_exponent_even(H_, tg[0], -1);
			for (size_t a = 0; a < P0.size(); a++)
				for (size_t b = a + 1; b < P0.size(); b++)
				{
					if (!P0[a].stack || P0[a].stack != P0[b].stack) continue;
					if (c->reset) c->reset();
					std::vector<PubIn> P;
					c->pubins(H_, P);
					PubIn &x = P[a], &y = P[b];
					Z ox = x.get(), oy = y.get(), wx, wy;
					const Z &pp = x.tag.P ? *x.tag.P : c->p;
					mpz_sub(wx, pp, ox), mpz_sub(wy, pp, oy);
					bool judged = x.bound && y.bound;
					RunOut o;
					try { x.set(wx); y.set(wy); o = run_cell(*c, proof_, seed_, NULL, false); }
					catch (...) { y.undo(oy); x.undo(ox); throw; }
					y.undo(oy), x.undo(ox);
					pair_runs++;
					if (x.stack == 2 && stack_exponent_even(H_, tg[0], x.card) && stack_exponent_even(H_, tg[0], y.card)) pair_even++;
					if (!judged && o.accept) order2_inputs_accepted++;
					judge(x.tag, "in." + x.name + "*" + y.name, "pair-twist", "nonmember", judged ? X_REJECT : X_FREE, o, "pair:" + str(a) + ":" + str(b) + ":" + str(seed_));
				}
			(void)even_any;
		};
		// ---------------------------------------------------------------- (2) public inputs
		if (c->pubins)
		{
			std::vector<PubIn> P0;
			if (c->reset) c->reset();
			c->pubins(H, P0);
			for (size_t pi = 0; pi < P0.size(); pi++)
			{
				pubinputs++;
				for (size_t k = 0; ; k++)
				{
					// the verifier's state is rebuilt first; the target pointers are taken afresh after that
					if (c->reset) c->reset();
					std::vector<PubIn> P;
					c->pubins(H, P);
					PubIn &in = P[pi];
					Z orig = in.get();
					const Z &pp = in.tag.P ? *in.tag.P : c->p;
					std::vector<std::pair<std::string, Z> > vals;
					{ Z w; mpz_add_ui(w, orig, 1); vals.push_back(std::make_pair("v+1", w)); }
					{ Z w; mpz_mul_2exp(w, orig, 1); mpz_add_ui(w, w, 3); vals.push_back(std::make_pair("2v+3", w)); }
					if (in.tag.k == K_ELEM || in.tag.k == K_COM) { Z w; mpz_sub(w, pp, orig); vals.push_back(std::make_pair("p-v", w)); }
					for (size_t j = 0; j < in.neighbours.size(); j++) vals.push_back(std::make_pair("neighbour", in.neighbours[j]));
					if ((in.stack || in.bound) && (in.tag.k == K_ELEM || in.tag.k == K_COM))
					{
						// equivalent representations outside 0 < v < p of a card component
						{ Z w; mpz_add(w, orig, pp); vals.push_back(std::make_pair("v+p", w)); }
						{ Z w; mpz_mul_ui(w, pp, 3); mpz_add(w, w, orig); vals.push_back(std::make_pair("v+3p", w)); }
						{ Z w; mpz_sub(w, orig, pp); vals.push_back(std::make_pair("v-p", w)); }
					}
					if (k >= vals.size()) break;
					std::string cls;
					Expect ex = expect(in.tag, orig, vals[k].second, cls);
					if (in.tag.k == K_EXACT) ex = mpz_cmp(orig, vals[k].second) ? (in.tag.covered ? X_REJECT : X_FREE) : X_SKIP;
					if (ex == X_SKIP) continue;
					// out-of-range but equivalent: judged where the verifier entry itself tests the input (the stack received from the
					// prover: CheckElement) or hashes it literally; elsewhere the refusal clause speaks about received values only
					if (ex == X_REFUSE && !in.bound) ex = X_FREE;
					if (in.bound && cls == "nonmember" && vals[k].first == "p-v") { /* judged below: bound inputs carry no order2 label */ }
					// class-level verifiers (GrothSKC / GrothVSSHE / VRHE / commitment schemes) leave the membership of the caller's
					// own inputs (cards, generators) to the caller (CheckGroup, CheckElement on receipt): a non-member -x in place
					// of x is recorded, not judged (it is accepted whenever the exponent it is raised to happens to be even)
					bool order2_input = (ex == X_REJECT && cls == "nonmember" && vals[k].first == "p-v" && in.tag.weak == "order2-input");
					if (order2_input) ex = X_FREE;
					RunOut o;
					try { in.set(vals[k].second); o = run_cell(*c, proof, seed, NULL, false); }
					catch (...) { in.undo(orig); throw; }
					in.undo(orig);
					if (order2_input && o.accept) order2_inputs_accepted++;
					judge(in.tag, "in." + in.name, vals[k].first, cls, ex, o, "in:" + str(pi) + ":" + vals[k].second.str());
				}
			}
			pair_pass(seed, H, proof);
			// the statement is restored: the unmodified proof must be accepted again
			RunOut o = run_cell(*c, proof, seed, NULL);
			if (!o.accept)
				printf("{\"t\":\"error\",\"what\":\"%s: honest re-run after public-input mutations rejected (%s)\"}\n", jesc(caseid).c_str(), jesc(o.brief()).c_str());
		}
		// A product-only membership test lets a within-card pair twist of s2 through exactly when that card's exponent
		// (f_i / tau_i) is even.  If this baseline has no even one, further coin seeds are tried (at most 64, each succeeds
		// with probability >= 1 - 2^-n) and the pair pass is repeated on the first baseline that has one, so that every
		// interactive Groth/Hoogh cell contributes a pair twist with even exponents.
		if (c->pubins && c->inter && sidx == 0 && has_stack_exponents(tg[0]) && !stack_exponent_even(H, tg[0], -1))
		{
			bool found = false;
			for (unsigned t = 1000; t < 1064 && !found; t++)
			{
				uint64_t seed2 = cell_seed(caseid, t);
				even_seed_searches++;
				c->prepare(seed2);
				if (c->reset) c->reset();
				RunOut H2 = run_inter(c->prover, c->verifier, seed2, NULL);
				std::vector<Tag> t0, t1;
				if (!H2.accept || !c->tags(H2, t0, t1) || t0.size() != H2.pv.size()) continue;
				if (!stack_exponent_even(H2, t0, -1)) continue;
				found = true;
				tg[0] = t0, tg[1] = t1;
				pair_pass(seed2, H2, proof);
			}
			if (!found) printf("{\"t\":\"error\",\"what\":\"%s: no baseline with an even stack exponent in 64 seeds\"}\n", jesc(caseid).c_str());
		}
		R.sample(caseid, c->family + ": " + str(H.pv.size()) + "+" + str(H.vp.size()) + " lines, e.g. line 0 '" + (H.pv.empty() ? std::string("") : H.pv[0].substr(0, 20)) + "' every catalogue mutation");
	}
	R.counters["verifier_runs"] = T.runs;
	R.counters["asserted"] = T.asserted;
	R.counters["free_accepted"] = T.free_acc;
	R.counters["free_rejected"] = T.free_rej;
	R.counters["accepted_mutations"] = T.viol;
	R.counters["cells"] = cells_done;
	R.counters["positions"] = positions;
	R.counters["public_inputs"] = pubinputs;
	R.counters["nonmember_caller_inputs_accepted"] = order2_inputs_accepted;
	R.counters["pair_twist_runs"] = pair_runs;
	R.counters["pair_twist_runs_with_even_exponents"] = pair_even;
	R.counters["even_exponent_seed_searches"] = even_seed_searches;
	R.finish();
	return 0;
}
