// C06 — parameter validation: CheckGroup() accepts exactly the well-formed parameter sets, CheckElement() exactly the members
// of the order-q subgroup in 1..p-1.  Fault enumeration on the real classes, reference predicate in c06_ref.hh.
//
// Subjects (c06_subjects.hh): BarnettSmartVTMF_dlog (random / canonical g), ..._GroupQR, PedersenCommitmentScheme (random and
// public-coin generators), PedersenTrapdoorCommitmentScheme, GrothSKC, GrothVSSHE, HooghSchoenmakersSkoricVillegasVRHE
// (+ PUBROTZK::CheckElement), NaorPinkasEOTP, PedersenVSS, GJKR DKG / NTS, CGJKR RVSS / ZVSS / DKG / DSS, JL RVSS / EDCF;
// classes with a canonical_g switch in both settings.  Nested objects whose CheckGroup() is called (NTS->dkg, DKG->x_rvss,
// DSS->dkg->x_rvss, EDCF->rvss, SKC->com, VSSHE->skc->com) are corrupted as well.
//
// Per subject and library-generated set ("cell" = class x regime x set number; case id grp:<class>:<regime>:<set>):
//  (a) the generated set itself;
//  (b) single-field writes into the public mpz members, one at a time, restored afterwards:
//        p,q,k:   0 1 2 p-1 p p+1 (resp. the field +-1, +-2, doubled), next composite of equal length, a prime one bit
//                 shorter than configured, next prime, -x (negative: executed, verdict not compared)
//        every generator x: 0 1 2 p-1 p p+1 -x p-x x+p x*zeta (zeta of order dividing k) zeta, a non-member, x^2, x^-1,
//                 x := every other generator, the SECOND verifiable generator / another member where g must be canonical
//  (c) multi-field sets that violate exactly ONE named condition with everything else consistent:
//        q | k (p' = q^2 j + 1 prime, generators of order q re-derived), q composite (q' = r1 r2, p' = k'q'+1 prime,
//        generators a^k'), p composite (p' = r s, r = s = 1 mod q, generators of order q by CRT; classes without canonical g),
//        k := k+2, QR group with a safe prime p = 3 mod 8
//  (d) the same values under other configured sizes (object re-created): F = |p|+1, G = |q|+1 (must refuse), F = |p|, G = |q|
//        and the original sizes (must accept); QR: F = |p|+1, E = |p|+1.
//  Oracle: CheckGroup() == "reference finds no violated condition" (c06_ref.hh).  Entries that are ill-formed by construction
//  are asserted to be ill-formed by the reference, single-condition sets to violate exactly that condition (else exit 2).
//  (e) element checks on the pristine object: p < 2^21: ALL integers -2..p+2 against 0 < a < p and a^q = 1 (128-bit modexp,
//      no GMP), and the number of accepted values must be q; larger p: boundary values, 64 members, 64 non-members.
//      PedersenCommitmentScheme::TestMembership is held to the same predicate (since /repo 4a28817 it tests the order too).
//
//  Negative p, q, k count as ill-formed (every CheckGroup refuses non-positive p, q since /repo c7a0fc0; before that the classes
//  deriving k = (p-1)/q accepted q := -q, findings/c06_checkgroup_negative_q.cc).  Not judged (executed only): members a class
//  does not validate by design (GroupQR::k, GrothVSSHE's own p,g,h and public com, EDCF's own p,q,g,h).
//  Many generators ("manygen" regime, 64/40-bit group): PedersenCommitmentScheme (random / public coin), GrothSKC and GrothVSSHE
//  with n = 255, 256, 257, 300 generators, i.e. on both sides of TMCG_MAX_FPOWM_N = 256, the only bound other than the container
//  size that the library uses in loops over generators (PedersenCOM.cc); the per-generator catalogue is applied to EVERY index,
//  "x := other generator" to the neighbours, the first three, the last and the indices around 256.
//  Generation runs under a coin budget (see generate()): tmcg_mpz_lprime can spin forever on an unlucky toy-size q.
//
// Regimes: tiny (F,G) = (16,8) [QR: 16, E=8] and (20,10); manygen (64,40); small (256,160); default (2048,256) / QR 512.
// Tiers: quick = tiny, 4 sets of (16,8) + 1 of (20,10);  thorough = tiny 16+4 sets, small 8 sets, default 1 set.
#include "drv.hh"
#include "c06_subjects.hh"
#include <signal.h>
#include <algorithm>

using namespace drv;

static Report *R;
static bool thorough;
static std::string cur_cid, cur_what;

// ------------------------------------------------------------------ watchdog: a CheckGroup() that does not return
static void on_alarm(int)
{
	char buf[1024];
	int n = snprintf(buf, sizeof buf, "{\"t\":\"viol\",\"key\":\"c06/checkgroup-hang\",\"what\":\"CheckGroup() did not return within 60 s: %s\",\"case\":\"%s\"}\n",
		jesc(cur_what).c_str(), jesc(cur_cid).c_str());
	if (n > 0) { ssize_t r = write(1, buf, (size_t)n); (void)r; }
	_exit(3);
}

// ------------------------------------------------------------------ number helpers (all deterministic, no coins)
static void zeta_of(mpz_ptr z, mpz_srcptr p, mpz_srcptr q)      // an element != 1 whose order divides (p-1)/q
{
	for (unsigned long a = 2;; a++)
	{
		mpz_set_ui(z, a);
		mpz_powm(z, z, q, p);
		if (mpz_cmp_ui(z, 1)) return;
	}
}
static void nonmember_of(mpz_ptr z, mpz_srcptr p, mpz_srcptr q)
{
	Z t;
	for (unsigned long a = 2;; a++)
	{
		mpz_set_ui(z, a);
		mpz_powm(t.v, z, q, p);
		if (mpz_cmp_ui(t.v, 1)) return;
	}
}
static void prime_below_pow2(mpz_ptr r, unsigned long bits)       // largest prime < 2^bits (bits >= 2)
{
	mpz_set_ui(r, 1), mpz_mul_2exp(r, r, bits), mpz_sub_ui(r, r, 1);
	while (!ref_prime(r)) mpz_sub_ui(r, r, 1);
}
static void next_prime_ref(mpz_ptr r, mpz_srcptr from)
{
	mpz_add_ui(r, from, 1);
	while (!ref_prime(r)) mpz_add_ui(r, r, 1);
}

struct Write { mpz_ptr dst; Z val; };
struct Entry {
	std::string name;
	std::vector<Write> w;
	bool must_ill;        // ill-formed by construction: the reference must agree (catalogue self-check)
	std::string only;     // non-empty: the reference must report exactly this condition (modulo the set prefix)
	bool unspec;          // outside the property text: executed, verdict not compared
	Entry() : must_ill(false), unspec(false) {}
};

static void add1(std::vector<Entry> &E, const std::string &name, mpz_ptr dst, mpz_srcptr val, bool must_ill, const std::string &only = "", bool unspec = false)
{
	if (!mpz_cmp(dst, val)) return;      // not a corruption
	for (size_t i = 0; i < E.size(); i++)   // the same value for the same field under another name (e.g. x*zeta = p-x in the QR group)
		if (E[i].w.size() == 1 && E[i].w[0].dst == dst && !mpz_cmp(E[i].w[0].val.v, val)) return;
	Entry e;
	e.name = name, e.must_ill = must_ill, e.only = only, e.unspec = unspec;
	Write w;
	w.dst = dst, w.val = Z(val);
	e.w.push_back(w);
	E.push_back(e);
}

// cofactor of a (pristine, well-formed) set
static bool cofactor(mpz_ptr k, const PSet &s)
{
	if (s.qr) { mpz_set_ui(k, 2); return true; }
	if (s.k) { mpz_set(k, s.k); return true; }
	Z pm1(s.p);
	mpz_sub_ui(pm1.v, pm1.v, 1);
	if (mpz_sgn(s.q) <= 0 || !mpz_divisible_p(pm1.v, s.q)) return false;
	mpz_divexact(k, pm1.v, s.q);
	return true;
}

// generators of order dividing q' modulo a prime p' = k' q' + 1: a^k' for a = start, start+1, ... (distinct, non-trivial)
static void fresh_gens(std::vector<Z> &out, size_t n, mpz_srcptr p, mpz_srcptr k, unsigned long start)
{
	Z pm1(p), x;
	mpz_sub_ui(pm1.v, pm1.v, 1);
	for (unsigned long a = start; out.size() < n; a++)
	{
		mpz_set_ui(x.v, a);
		mpz_powm(x.v, x.v, k, p);
		if (mpz_cmp_ui(x.v, 1) <= 0 || mpz_cmp(x.v, pm1.v) >= 0) continue;
		bool dup = false;
		for (size_t i = 0; i < out.size(); i++) if (!mpz_cmp(out[i].v, x.v)) dup = true;
		if (!dup) out.push_back(x);
	}
}

static void set_entry(Entry &e, const PSet &s, mpz_srcptr p, mpz_srcptr q, mpz_srcptr k, const std::vector<Z> &gens)
{
	Write w;
	w.dst = s.p, w.val = Z(p), e.w.push_back(w);
	w.dst = s.q, w.val = Z(q), e.w.push_back(w);
	if (s.k) { w.dst = s.k, w.val = Z(k), e.w.push_back(w); }
	for (size_t i = 0; i < s.gens.size(); i++) { w.dst = s.gens[i].second, w.val = gens[i], e.w.push_back(w); }
}

static void build_catalogue(std::vector<Entry> &E, const PSet &s)
{
	const std::string P = s.name;
	Z p(s.p), q(s.q), k, t, u, pm1(s.p), pp1(s.p), zero(0L), one(1L), two(2L);
	mpz_sub_ui(pm1.v, pm1.v, 1), mpz_add_ui(pp1.v, pp1.v, 1);
	bool havek = cofactor(k.v, s);
	// ---- p
	add1(E, P + "p:=0", s.p, zero.v, true), add1(E, P + "p:=1", s.p, one.v, true), add1(E, P + "p:=2", s.p, two.v, true);
	add1(E, P + "p:=p-1", s.p, pm1.v, true), add1(E, P + "p:=p+1", s.p, pp1.v, true);
	mpz_add_ui(t.v, p.v, 2), add1(E, P + "p:=p+2", s.p, t.v, true);
	mpz_sub_ui(t.v, p.v, 2), add1(E, P + "p:=p-2", s.p, t.v, true);
	mpz_add(t.v, p.v, q.v), mpz_add(t.v, t.v, q.v), add1(E, P + "p:=p+2q", s.p, t.v, false);
	mpz_set(t.v, p.v);
	do mpz_add_ui(t.v, t.v, 2); while (ref_prime(t.v));
	add1(E, P + "p:=next-composite", s.p, t.v, true);
	if (s.F >= 4) { prime_below_pow2(t.v, s.F - 1); add1(E, P + "p:=prime-one-bit-short", s.p, t.v, true); }
	next_prime_ref(t.v, p.v), add1(E, P + "p:=next-prime", s.p, t.v, false);
	mpz_neg(t.v, p.v), add1(E, P + "p:=-p", s.p, t.v, true);
	// ---- q
	add1(E, P + "q:=0", s.q, zero.v, true), add1(E, P + "q:=1", s.q, one.v, true), add1(E, P + "q:=2", s.q, two.v, true);
	add1(E, P + "q:=p-1", s.q, pm1.v, true), add1(E, P + "q:=p", s.q, p.v, true), add1(E, P + "q:=p+1", s.q, pp1.v, true);
	mpz_add_ui(t.v, q.v, 1), add1(E, P + "q:=q+1", s.q, t.v, true);
	mpz_sub_ui(t.v, q.v, 1), add1(E, P + "q:=q-1", s.q, t.v, true);
	mpz_add_ui(t.v, q.v, 2), add1(E, P + "q:=q+2", s.q, t.v, true);
	mpz_mul_2exp(t.v, q.v, 1), add1(E, P + "q:=2q", s.q, t.v, true);
	mpz_mul(t.v, q.v, q.v), add1(E, P + "q:=q^2", s.q, t.v, true);
	next_prime_ref(t.v, q.v), add1(E, P + "q:=next-prime", s.q, t.v, true);
	if (s.G >= 4) { prime_below_pow2(t.v, s.G - 1); add1(E, P + "q:=prime-one-bit-short", s.q, t.v, true); }
	if (havek) add1(E, P + "q:=k", s.q, k.v, true);
	mpz_neg(t.v, q.v), add1(E, P + "q:=-q", s.q, t.v, true);
	// ---- k (only where it is a member that CheckGroup reads)
	if (s.k)
	{
		add1(E, P + "k:=0", s.k, zero.v, true), add1(E, P + "k:=1", s.k, one.v, true), add1(E, P + "k:=2", s.k, two.v, true);
		mpz_add_ui(t.v, k.v, 1), add1(E, P + "k:=k+1", s.k, t.v, true);
		mpz_sub_ui(t.v, k.v, 1), add1(E, P + "k:=k-1", s.k, t.v, true);
		mpz_add_ui(t.v, k.v, 2);
		mpz_gcd(u.v, t.v, q.v);
		add1(E, P + "k:=k+2", s.k, t.v, true, (s.canon == 0 && !mpz_cmp_ui(u.v, 1)) ? "form" : "");
		mpz_sub_ui(t.v, k.v, 2), add1(E, P + "k:=k-2", s.k, t.v, true);
		mpz_mul_2exp(t.v, k.v, 1), add1(E, P + "k:=2k", s.k, t.v, true);
		add1(E, P + "k:=q", s.k, q.v, true), add1(E, P + "k:=p", s.k, p.v, true), add1(E, P + "k:=p-1", s.k, pm1.v, true);
		mpz_neg(t.v, k.v), add1(E, P + "k:=-k", s.k, t.v, true);
	}
	// ---- generators
	Z zeta, nonm;
	zeta_of(zeta.v, s.p, s.q), nonmember_of(nonm.v, s.p, s.q);
	for (size_t gi = 0; gi < s.gens.size(); gi++)
	{
		const std::string gn = s.gens[gi].first, N = P + gn;
		mpz_ptr d = s.gens[gi].second;
		Z x(d);
		bool iscanon = (s.canon != 0 && gi == 0);
		add1(E, N + ":=0", d, zero.v, true), add1(E, N + ":=1", d, one.v, true, iscanon ? "" : "range:" + gn);
		add1(E, N + ":=2", d, two.v, false);
		add1(E, N + ":=p-1", d, pm1.v, true), add1(E, N + ":=p", d, p.v, true), add1(E, N + ":=p+1", d, pp1.v, true);
		mpz_neg(t.v, x.v), add1(E, N + ":=-x", d, t.v, true);
		mpz_sub(t.v, p.v, x.v), add1(E, N + ":=p-x", d, t.v, true, iscanon ? "" : "order:" + gn);
		mpz_add(t.v, p.v, x.v), add1(E, N + ":=x+p", d, t.v, true, iscanon ? "" : "range:" + gn);
		mpz_mul(t.v, x.v, zeta.v), mpz_mod(t.v, t.v, p.v), add1(E, N + ":=x*zeta", d, t.v, true, iscanon ? "" : "order:" + gn);
		add1(E, N + ":=zeta", d, zeta.v, true), add1(E, N + ":=nonmember", d, nonm.v, true);
		mpz_mul(t.v, x.v, x.v), mpz_mod(t.v, t.v, p.v), add1(E, N + ":=x^2", d, t.v, iscanon, iscanon && !s.distinct ? "canon" : "");
		if (mpz_invert(t.v, x.v, p.v)) add1(E, N + ":=x^-1", d, t.v, iscanon);
		for (size_t gj = 0; gj < s.gens.size(); gj++)
			if (gj != gi && (s.gens.size() <= 16 || gj <= 2 || gj + 1 == s.gens.size() || gi + 1 == gj || gj + 1 == gi
				|| (gj >= TMCG_MAX_FPOWM_N - 1 && gj <= TMCG_MAX_FPOWM_N + 2)))   // many generators: x := neighbours, first, last, table-bound indices
				add1(E, N + ":=" + s.gens[gj].first, d, s.gens[gj].second, s.distinct || iscanon,
					(s.distinct && !iscanon) ? "distinct:" + s.gens[std::min(gi, gj)].first + "=" + s.gens[std::max(gi, gj)].first : "");
		if (s.canon == 1 && gi == 0 && havek)
		{
			ref_canonical_g(t.v, s.p, s.q, k.v, 1);
			add1(E, N + ":=second-verifiable-generator", d, t.v, true, (s.gens.size() > 1 && !mpz_cmp(t.v, s.gens[1].second)) ? "" : "canon");
		}
	}
	// ---- single-condition sets
	size_t ng = s.gens.size();
	if (!s.qr && havek)
	{
		// q | k
		{
			Z p2, k2, j;
			long jb = (long)s.F - 2 * (long)q.bits();
			mpz_set_ui(j.v, 1);
			if (jb + 1 > 0) mpz_mul_2exp(j.v, j.v, (unsigned long)(jb + 1));   // |q^2 j| >= 2|q|-1 + jb+1 = F
			if (mpz_odd_p(j.v)) mpz_add_ui(j.v, j.v, 1);
			for (;; mpz_add_ui(j.v, j.v, 2))
			{
				mpz_mul(k2.v, q.v, j.v);
				mpz_mul(p2.v, k2.v, q.v), mpz_add_ui(p2.v, p2.v, 1);
				if (p2.bits() >= s.F && ref_prime(p2.v)) break;
			}
			std::vector<Z> gens;
			if (s.canon == 1) { ref_canonical_g(t.v, p2.v, q.v, k2.v, 0); gens.push_back(t); }
			fresh_gens(gens, ng, p2.v, k2.v, 2);
			Entry e;
			e.name = P + "set:q-divides-k", e.must_ill = true, e.only = "coprime";
			set_entry(e, s, p2.v, q.v, k2.v, gens);
			E.push_back(e);
		}
		// q composite
		{
			Z r1, r2, q2, p2, k2;
			mpz_set_ui(r1.v, 1), mpz_mul_2exp(r1.v, r1.v, (s.G + 1) / 2);
			next_prime_ref(r1.v, r1.v), next_prime_ref(r2.v, r1.v);
			mpz_mul(q2.v, r1.v, r2.v);
			long kb = (long)s.F - (long)q2.bits();
			mpz_set_ui(k2.v, 2);
			if (kb > 1) mpz_set_ui(k2.v, 1), mpz_mul_2exp(k2.v, k2.v, (unsigned long)kb);
			for (;; mpz_add_ui(k2.v, k2.v, 2))
			{
				mpz_gcd(t.v, k2.v, q2.v);
				if (mpz_cmp_ui(t.v, 1)) continue;
				mpz_mul(p2.v, k2.v, q2.v), mpz_add_ui(p2.v, p2.v, 1);
				if (p2.bits() >= s.F && ref_prime(p2.v)) break;
			}
			std::vector<Z> gens;
			if (s.canon == 1) { ref_canonical_g(t.v, p2.v, q2.v, k2.v, 0); gens.push_back(t); }
			fresh_gens(gens, ng, p2.v, k2.v, 2);
			Entry e;
			e.name = P + "set:q-composite", e.must_ill = true, e.only = "prime-q";
			set_entry(e, s, p2.v, q2.v, k2.v, gens);
			E.push_back(e);
		}
		// p composite = r s, r = s = 1 (mod q); generators of order q modulo r and trivial modulo s
		if (s.canon == 0)
		{
			Z r, sp, a, b, p2, k2, sinv;
			unsigned long hb = (s.F + 1) / 2 + 1;
			mpz_set_ui(a.v, 2);
			if (hb > q.bits()) mpz_set_ui(a.v, 1), mpz_mul_2exp(a.v, a.v, hb - q.bits());
			for (;; mpz_add_ui(a.v, a.v, 2)) { mpz_mul(r.v, q.v, a.v), mpz_add_ui(r.v, r.v, 1); if (ref_prime(r.v)) break; }
			mpz_add_ui(b.v, a.v, 2);
			for (;; mpz_add_ui(b.v, b.v, 2))
			{
				mpz_mul(sp.v, q.v, b.v), mpz_add_ui(sp.v, sp.v, 1);
				if (!ref_prime(sp.v)) continue;
				mpz_mul(p2.v, r.v, sp.v), mpz_sub_ui(t.v, p2.v, 1), mpz_divexact(k2.v, t.v, q.v);
				mpz_gcd(t.v, k2.v, q.v);
				if (!mpz_cmp_ui(t.v, 1)) break;
			}
			mpz_invert(sinv.v, sp.v, r.v);
			std::vector<Z> gens;
			for (unsigned long base = 2; gens.size() < ng; base++)
			{
				Z x;
				mpz_set_ui(x.v, base), mpz_powm(x.v, x.v, a.v, r.v);     // order divides q modulo r
				if (!mpz_cmp_ui(x.v, 1)) continue;
				mpz_sub_ui(x.v, x.v, 1), mpz_mul(x.v, x.v, sinv.v), mpz_mod(x.v, x.v, r.v), mpz_mul(x.v, x.v, sp.v), mpz_add_ui(x.v, x.v, 1);   // CRT: = 1 mod s
				bool dup = false;
				for (size_t i = 0; i < gens.size(); i++) if (!mpz_cmp(gens[i].v, x.v)) dup = true;
				if (!dup) gens.push_back(x);
			}
			Entry e;
			e.name = P + "set:p-composite", e.must_ill = true, e.only = "prime-p";
			set_entry(e, s, p2.v, q.v, k2.v, gens);
			E.push_back(e);
		}
	}
	if (s.qr && p.bits() > s.E && p.bits() <= 300)
	{
		// safe prime p' = 2q'+1 = 3 (mod 8) of the same length; g' = 2^(2^(|p'|-E)) is a square, hence of order q'
		Z q2(q), p2;
		for (;;)
		{
			next_prime_ref(q2.v, q2.v);
			mpz_mul_2exp(p2.v, q2.v, 1), mpz_add_ui(p2.v, p2.v, 1);
			if (mpz_congruent_ui_p(p2.v, 3, 8) && ref_prime(p2.v)) break;
		}
		std::vector<Z> gens;
		ref_qr_g(t.v, p2.v, s.E);
		gens.push_back(t);
		Entry e;
		e.name = P + "set:safe-prime-3-mod-8", e.must_ill = true, e.only = "mod8";
		set_entry(e, s, p2.v, q2.v, two.v, gens);
		E.push_back(e);
	}
}

// ------------------------------------------------------------------ evaluation
static std::vector<std::string> all_failing(const Subject &S)
{
	std::vector<std::string> f;
	for (size_t i = 0; i < S.sets.size(); i++)
	{
		std::vector<std::string> g = ref_failing(S.sets[i]);
		f.insert(f.end(), g.begin(), g.end());
	}
	return f;
}
static std::string join(const std::vector<std::string> &v)
{
	std::string s;
	for (size_t i = 0; i < v.size(); i++) s += (i ? "," : "") + v[i];
	return s;
}
static std::string kind_of(const std::string &cond)     // "dkg.range:h" -> "range"
{
	std::string c = cond;
	size_t dot = c.rfind('.');
	if (dot != std::string::npos) c = c.substr(dot + 1);
	size_t col = c.find(':');
	return col == std::string::npos ? c : c.substr(0, col);
}
static std::string strip_prefix(const std::string &cond)
{
	size_t dot = cond.rfind('.');
	return dot == std::string::npos ? cond : cond.substr(dot + 1);
}

static int harness_errors = 0;
static void harness_error(const std::string &what)
{
	harness_errors++;
	printf("{\"t\":\"error\",\"what\":\"%s\"}\n", jesc(what).c_str());
}

static bool guarded_check(const Subject &S, const std::string &what)
{
	cur_what = S.cls + " " + what;
	alarm(60);
	bool r = S.check();
	alarm(0);
	return r;
}

static std::string describe(const Subject &S)
{
	std::string d;
	for (size_t i = 0; i < S.sets.size(); i++)
	{
		const PSet &s = S.sets[i];
		d += " " + s.name + "p=" + Z(s.p).str().substr(0, 48) + " " + s.name + "q=" + Z(s.q).str().substr(0, 48);
		if (s.k) d += " " + s.name + "k=" + Z(s.k).str().substr(0, 48);
		for (size_t g = 0; g < s.gens.size() && g < 6; g++) d += " " + s.name + s.gens[g].first + "=" + Z(s.gens[g].second).str().substr(0, 48);
		if (s.gens.size() > 6) d += " ... (" + str(s.gens.size()) + " generators)";
	}
	return d;
}

// compare CheckGroup() with the reference on the current state of S
static void judge(const Subject &S, const std::string &ename, bool must_ill, const std::string &only, bool unspec, const std::string &cid)
{
	std::vector<std::string> f = all_failing(S);
	bool neg = false;
	for (size_t i = 0; i < f.size(); i++) if (kind_of(f[i]) == "negative") neg = true;
	bool got = guarded_check(S, ename);
	(void)neg;      // a negative p, q or k is ill-formed (condition "negative"); /repo c7a0fc0 made every CheckGroup refuse them
	if (unspec)
	{
		R->ok(false);
		R->counters[got ? "unspecified_accepted" : "unspecified_refused"]++;
		if (got && R->args.has("list-unspec"))
			printf("{\"t\":\"note\",\"unspec-accepted\":\"%s %s\"}\n", S.cls.c_str(), jesc(ename).c_str());
		return;
	}
	bool well = f.empty();
	R->ok(true);
	R->counters[well ? "well_formed_cases" : "ill_formed_cases"]++;
	if (must_ill && well)
		harness_error("catalogue degenerate: " + S.cls + " entry " + ename + " is well-formed by the reference (" + cid + ")");
	if (!only.empty())
	{
		bool exact = !f.empty();
		for (size_t i = 0; i < f.size(); i++) if (strip_prefix(f[i]) != only) exact = false;
		if (!exact)
			harness_error("catalogue not isolating: " + S.cls + " entry " + ename + " should violate only " + only + " but the reference reports [" + join(f) + "] (" + cid + ")");
		else
			R->counters["single_condition_cases"]++;
	}
	if (got != well)
	{
		if (got)
			R->viol("c06/" + S.cls + "/accepts-ill-formed/" + kind_of(f[0]), S.cls + ": CheckGroup() accepts " + ename + " although [" + join(f) + "] is violated;" + describe(S), cid);
		else
			R->viol("c06/" + S.cls + "/refuses-well-formed", S.cls + ": CheckGroup() refuses " + ename + " although the reference finds no violated condition;" + describe(S), cid);
	}
}

static void run_groupcheck(Subject &S, const std::string &cid)
{
	// (a) the generated set
	std::vector<std::string> f0 = all_failing(S);
	if (!f0.empty()) R->counters["generated_sets_degenerate"]++;   // e.g. h = g^0, coinciding random generators in a tiny group
	else R->counters["generated_sets_well_formed"]++;
	judge(S, "generated-set", false, "", false, cid);
	if (!f0.empty())
		return;       // corruptions of an already ill-formed set say nothing
	// (b) + (c)
	for (size_t si = 0; si < S.sets.size(); si++)
	{
		std::vector<Entry> E;
		build_catalogue(E, S.sets[si]);
		for (size_t ei = 0; ei < E.size(); ei++)
		{
			Entry &e = E[ei];
			std::vector<Z> saved;
			for (size_t w = 0; w < e.w.size(); w++) saved.push_back(Z(e.w[w].dst));
			for (size_t w = 0; w < e.w.size(); w++) mpz_set(e.w[w].dst, e.w[w].val.v);
			judge(S, e.name, e.must_ill, e.only, e.unspec, cid);
			for (size_t w = 0; w < e.w.size(); w++) mpz_set(e.w[w].dst, saved[w].v);
		}
	}
	// members CheckGroup() does not look at by design: executed only (no crash, no verdict)
	for (size_t u = 0; u < S.unspec.size(); u++)
	{
		Z saved(S.unspec[u].second), v;
		long vals[4] = { 0, 1, 2, -1 };
		for (int i = 0; i < 5; i++)
		{
			if (i < 4) mpz_set_si(v.v, vals[i]); else mpz_add_ui(v.v, saved.v, 2);
			mpz_set(S.unspec[u].second, v.v);
			judge(S, "unchecked-member " + S.unspec[u].first + ":=" + v.str().substr(0, 20), false, "", true, cid);
			mpz_set(S.unspec[u].second, saved.v);
		}
	}
	std::vector<std::string> f1 = all_failing(S);
	if (!f1.empty()) harness_error("restore failed for " + S.cls + " (" + cid + "): " + join(f1));
	// (d) other configured sizes
	if (S.remake)
	{
		const PSet &s0 = S.sets[0];
		unsigned long pb = mpz_sizeinbase(s0.p, 2), qb = mpz_sizeinbase(s0.q, 2);
		struct Cfg { unsigned long F, G; const char *name; const char *only; } cfgs[5];
		int nc = 0;
		if (s0.qr)
		{
			Cfg a = { s0.F, s0.E, "config:same", "" }, b = { pb, s0.E, "config:F=|p|", "" }, c = { pb + 1, s0.E, "config:F=|p|+1", "size" }, d = { s0.F, pb + 1, "config:E=|p|+1", "ill" };
			cfgs[nc++] = a, cfgs[nc++] = b, cfgs[nc++] = c, cfgs[nc++] = d;
		}
		else
		{
			Cfg a = { s0.F, s0.G, "config:same", "" }, b = { pb, qb, "config:F=|p|,G=|q|", "" }, c = { pb + 1, qb, "config:F=|p|+1", "size-p" }, d = { pb, qb + 1, "config:G=|q|+1", "size-q" };
			cfgs[nc++] = a, cfgs[nc++] = b, cfgs[nc++] = c, cfgs[nc++] = d;
		}
		for (int ci = 0; ci < nc; ci++)
		{
			Subject *S2 = S.remake(cfgs[ci].F, cfgs[ci].G);
			std::string only = cfgs[ci].only;
			bool must_ill = !only.empty();
			if (only == "size" || only == "ill") only = "";       // several conditions fail together (QR: G = F-1; E > |p| leaves g = 0)
			if (S2->cls == "groth_vsshe") only = "";              // its commitment generators are drawn afresh (may coincide in a tiny group)
			std::vector<std::string> f = all_failing(*S2);
			if (!must_ill && !f.empty() && S2->cls != "groth_vsshe")
				harness_error("re-created object is ill-formed: " + S2->cls + " " + cfgs[ci].name + " [" + join(f) + "]");
			judge(*S2, cfgs[ci].name, must_ill, only, false, cid);
			delete S2;
		}
	}
}

// ------------------------------------------------------------------ element checks
static void run_elements(Subject &S, const std::string &cid)
{
	if (S.elems.empty() || S.sets.empty()) return;
	if (!all_failing(S).empty()) return;
	const PSet &s = S.sets[0];
	for (size_t ei = 0; ei < S.elems.size(); ei++)
	{
		const std::string key = "c06/" + S.cls + "/" + S.elems[ei].first;
		uint64_t bad = 0;
		if (mpz_sizeinbase(s.p, 2) <= 21)
		{
			unsigned long p = mpz_get_ui(s.p), q = mpz_get_ui(s.q), accepted = 0;
			Z a;
			for (long v = -2; v <= (long)p + 2; v++)
			{
				mpz_set_si(a.v, v);
				bool want = S.elem_range_only ? (v > 0 && (unsigned long)v < p) : ref_member_small(v, p, q);
				bool got = S.elems[ei].second(a.v);
				R->ok(v > 0 && (unsigned long)v < p);
				if (got) accepted++;
				if (got != want && bad++ < 5)
					R->viol(key + (got ? "/accepts-non-member" : "/refuses-member"), S.cls + "::" + S.elems[ei].first + "(" + str(v) + ") = " + str(got) + " for p=" + str(p) + " q=" + str(q), cid);
			}
			R->ok(true);
			unsigned long want_cnt = S.elem_range_only ? p - 1 : q;
			if (!bad && accepted != want_cnt)
				R->viol(key + "/count", S.cls + ": " + str(accepted) + " of the integers -2..p+2 accepted, expected " + str(want_cnt), cid);
			R->counters["element_values_exhaustive"] += p + 5;
		}
		else
		{
			std::vector<std::pair<Z, int> > vals;    // value, expected (1 member, 0 not, 2 in range but not member)
			Z t, zeta, nonm, p(s.p), g(s.gens[0].second);
			zeta_of(zeta.v, s.p, s.q), nonmember_of(nonm.v, s.p, s.q);
			long small[] = { -2, -1, 0 };
			for (int i = 0; i < 3; i++) { mpz_set_si(t.v, small[i]); vals.push_back(std::make_pair(t, 0)); }
			mpz_set_ui(t.v, 1), vals.push_back(std::make_pair(t, 1));
			for (int i = 0; i <= 2; i++) { mpz_add_ui(t.v, p.v, i); vals.push_back(std::make_pair(t, 0)); }
			mpz_sub_ui(t.v, p.v, 1), vals.push_back(std::make_pair(t, 2));      // order 2
			mpz_add(t.v, p.v, g.v), vals.push_back(std::make_pair(t, 0));
			mpz_neg(t.v, g.v), vals.push_back(std::make_pair(t, 0));
			mpz_sub(t.v, p.v, g.v), vals.push_back(std::make_pair(t, 2));
			vals.push_back(std::make_pair(zeta, 2)), vals.push_back(std::make_pair(nonm, 2));
			Z x(g);
			for (int i = 0; i < 64; i++)
			{
				vals.push_back(std::make_pair(x, 1));
				mpz_mul(t.v, x.v, zeta.v), mpz_mod(t.v, t.v, p.v), vals.push_back(std::make_pair(t, 2));
				mpz_mul(x.v, x.v, g.v), mpz_mod(x.v, x.v, p.v);
				if (i % 2) mpz_mul(x.v, x.v, x.v), mpz_mod(x.v, x.v, p.v);
			}
			for (size_t i = 0; i < vals.size(); i++)
			{
				mpz_srcptr a = vals[i].first.v;
				bool inrange = mpz_sgn(a) > 0 && mpz_cmp(a, s.p) < 0;
				mpz_powm(t.v, a, s.q, s.p);
				bool member = inrange && !mpz_cmp_ui(t.v, 1);
				if ((vals[i].second == 1) != member) harness_error("element catalogue inconsistent for " + S.cls);
				bool want = S.elem_range_only ? inrange : member;
				bool got = S.elems[ei].second(a);
				R->ok(inrange);
				if (got != want && bad++ < 5)
					R->viol(key + (got ? "/accepts-non-member" : "/refuses-member"), S.cls + "::" + S.elems[ei].first + "(" + vals[i].first.str().substr(0, 60) + ") = " + str(got) + ";" + describe(S), cid);
			}
			R->counters["element_values_catalogue"] += vals.size();
		}
	}
}

// ------------------------------------------------------------------ generation under a coin budget
// tmcg_mpz_lprime draws q once and then searches k with q*k+1 prime of the requested length; in the toy regimes an unlucky q has
// no such k and the library generator spins forever.  That is an artefact of toy sizes, not C06's subject: the coin shim counts
// the requests of one construction and aborts it (exception through the constructor) when the budget is exhausted; the cell is
// then generated from the next coin stream.  Deterministic for a given VERIF_SEED.
struct GenStuck {};
static uint64_t gen_budget = 0;
static bool budget_steer(unsigned char *, size_t, int, uint64_t)
{
	if (gen_budget && --gen_budget == 0)
		throw GenStuck();
	return false;
}
static Subject *generate(mcenv::CoinSource &cs, uint64_t party, unsigned long F, const std::function<Subject *()> &make)
{
	for (uint64_t attempt = 0; attempt < 200; attempt++)
	{
		cs.reset(mcenv::env_seed(), party + (attempt << 24));
		cs.steer = budget_steer;
		gen_budget = F <= 64 ? 4000 : 200000;
		try
		{
			Subject *S = make();
			gen_budget = 0;
			return S;
		}
		catch (GenStuck &) { R->counters["generator_restarts"]++; }
	}
	gen_budget = 0;
	return NULL;
}

// ------------------------------------------------------------------ subjects per regime
struct Regime { const char *name; unsigned long F, G, Fqr, Eqr; int sets; };

typedef Subject *(*CtxMaker)(const Ctx &, unsigned long, unsigned long);
struct CtxClass { const char *name; CtxMaker mk; int canon; /* 0 only random g, 1 only canonical, 2 both */ };
static const CtxClass CTX_CLASSES[] = {
	{ "pedersen_vss", mk_pedvss, 1 }, { "gjkr_dkg", mk_gjkr_dkg, 2 }, { "gjkr_nts", mk_gjkr_nts, 2 },
	{ "cgjkr_rvss", mk_cgjkr_rvss, 2 }, { "cgjkr_zvss", mk_cgjkr_zvss, 2 }, { "cgjkr_dkg", mk_cgjkr_dkg, 2 }, { "cgjkr_dss", mk_cgjkr_dss, 2 },
	{ "jl_rvss", mk_jl_rvss, 0 }, { "jl_edcf", mk_jl_edcf, 0 },
};

static void run_cell(Subject *S, const std::string &cid, const std::string &what)
{
	cur_cid = cid;
	printf("{\"t\":\"at\",\"case\":\"%s\"}\n", jesc(cid).c_str());
	fflush(stdout);
	if (what != "elem") run_groupcheck(*S, cid);
	if (what != "group") run_elements(*S, cid);
	R->sample(cid, S->cls + ":" + describe(*S).substr(0, 160));
	delete S;
}

static void emit_ref_ggen(const Subject &S, const std::string &cid)
{
	for (size_t i = 0; i < S.sets.size() && i < 1; i++)
	{
		const PSet &s = S.sets[i];
		Z k;
		if (s.canon == 1 && cofactor(k.v, s) && ref_failing(s).empty())
			printf("{\"t\":\"ref\",\"kind\":\"c06.ggen\",\"a\":[\"%s\",\"%s\",\"%s\"],\"got\":\"%s\",\"case\":\"%s\"}\n",
				Z(s.p).str().c_str(), Z(s.q).str().c_str(), k.str().c_str(), Z(s.gens[0].second).str().c_str(), jesc(cid).c_str());
		if (s.canon == 2 && ref_failing(s).empty())
			printf("{\"t\":\"ref\",\"kind\":\"c06.qrgen\",\"a\":[\"%s\",\"%lu\"],\"got\":\"%s\",\"case\":\"%s\"}\n",
				Z(s.p).str().c_str(), s.E, Z(s.gens[0].second).str().c_str(), jesc(cid).c_str());
	}
}

int main(int argc, char **argv)
{
	Args A = parse(argc, argv);
	Report rep(A);
	R = &rep;
	thorough = (A.tier == "thorough");
	if (!init_libTMCG()) { fprintf(stderr, "init_libTMCG failed\n"); return 2; }
	MuteCerr mute;
	signal(SIGALRM, on_alarm);
	rep.max_samples = 6;
	std::string regsel = A.get("regime", "all"), what = A.get("what", "all"), clssel = A.get("class", "");
	long setsarg = A.geti("sets", 0);
	std::vector<Regime> regs;
	{
		Regime t16 = { "tiny16", 16, 8, 16, 8, thorough ? 16 : 4 }, t20 = { "tiny20", 20, 10, 20, 12, thorough ? 4 : 1 };
		Regime sm = { "small", 256, 160, 256, 160, 8 }, df = { "default", 2048, 256, 512, 256, 1 };
		regs.push_back(t16), regs.push_back(t20);
		if (thorough || regsel == "small") regs.push_back(sm);
		if (thorough || regsel == "default") regs.push_back(df);
	}
	rep.bound = "regimes=" + regsel + (thorough ? ":thorough" : ":quick");
	for (size_t ri = 0; ri < regs.size(); ri++)
	{
		const Regime &rg = regs[ri];
		if (regsel != "all" && regsel != rg.name && !(regsel == "tiny" && !strncmp(rg.name, "tiny", 4))) continue;
		int nsets = setsarg > 0 ? (int)setsarg : rg.sets;
		unsigned long le = rg.G / 2 > 32 ? 32 : rg.G / 2;
		for (int set = 0; set < nsets; set++)
		{
			// ---- self-generating classes: 0 vtmf, 1 vtmf canonical, 2 qr, 3 pedcom, 4 pedcom publiccoin, 5 trapdoor, 6 vrhe, 7 eotp, 8 skc, 9 vsshe
			static const char *SELF[] = { "vtmf_dlog", "vtmf_dlog_canonical", "vtmf_qr", "pedersen_com", "pedersen_com_publiccoin", "pedersen_trapdoor_com", "vrhe", "naor_pinkas_eotp", "groth_skc", "groth_vsshe" };
			for (int c = 0; c < 10; c++)
			{
				std::string cid = std::string("grp:") + SELF[c] + ":" + rg.name + ":" + str(set);
				if (!R->mine() || !R->selected(cid)) continue;
				if (!clssel.empty() && clssel != SELF[c]) continue;
				if (R->out_of_time()) goto done;
				mcenv::CoinSource cs(mcenv::env_seed(), 0);
				mcenv::cur = &cs;
				Subject *S = generate(cs, 0x60000 + ri * 4096 + set * 64 + c, rg.F, [&]() -> Subject * {
					switch (c)
					{
						case 0: return mk_vtmf(rg.F, rg.G, false);
						case 1: return mk_vtmf(rg.F, rg.G, true);
						case 2: return mk_qr(rg.Fqr, rg.Eqr);
						case 3: return mk_pedcom(3, rg.F, rg.G, false);
						case 4: return mk_pedcom(3, rg.F, rg.G, true);
						case 5: return mk_trapdoor(rg.F, rg.G);
						case 6: return mk_vrhe(rg.F, rg.G);
						case 7: return mk_eotp(rg.F, rg.G);
						case 8: return mk_skc(3, le, rg.F, rg.G);
						default: { Ctx ctx = make_ctx(rg.F, rg.G, false); return mk_vsshe(ctx, 3, le, rg.F, rg.G); }
					}
				});
				if (!S) { harness_error("could not generate " + cid); mcenv::cur = nullptr; continue; }
				emit_ref_ggen(*S, cid);
				run_cell(S, cid, what);
				mcenv::cur = nullptr;
			}
			// ---- classes initialised from a common reference string (group from the VTMF generator)
			for (size_t c = 0; c < sizeof(CTX_CLASSES) / sizeof(CTX_CLASSES[0]); c++)
				for (int canon = 0; canon < 2; canon++)
				{
					const CtxClass &cc = CTX_CLASSES[c];
					if ((cc.canon == 0 && canon) || (cc.canon == 1 && !canon)) continue;
					std::string cname = std::string(cc.name) + (canon && cc.canon == 2 ? "_canonical" : "");
					std::string cid = "grp:" + cname + ":" + rg.name + ":" + str(set);
					if (!R->mine() || !R->selected(cid)) continue;
					if (!clssel.empty() && clssel != cname) continue;
					if (R->out_of_time()) goto done;
					mcenv::CoinSource cs(mcenv::env_seed(), 0);
					mcenv::cur = &cs;
					Subject *S = generate(cs, 0x68000 + ri * 4096 + set * 64 + c * 2 + canon, rg.F, [&]() -> Subject * {
						Ctx ctx = make_ctx(rg.F, rg.G, canon != 0);
						return cc.mk(ctx, rg.F, rg.G);
					});
					if (!S) { harness_error("could not generate " + cid); mcenv::cur = nullptr; continue; }
					emit_ref_ggen(*S, cid);
					run_cell(S, cid, what);
					mcenv::cur = nullptr;
				}
		}
	}
	// ---- many generators: both sides of TMCG_MAX_FPOWM_N
	if (regsel == "all" || regsel == "manygen")
	{
		static const size_t NS[] = { TMCG_MAX_FPOWM_N - 1, TMCG_MAX_FPOWM_N, TMCG_MAX_FPOWM_N + 1, 300 };
		static const char *MANY[] = { "pedersen_com", "pedersen_com_publiccoin", "groth_skc", "groth_vsshe" };
		const unsigned long F = 64, G = 40, le = 20;
		int nsets = setsarg > 0 ? (int)setsarg : (thorough ? 2 : 1);
		for (int set = 0; set < nsets; set++)
			for (size_t ni = 0; ni < 4; ni++)
				for (int c = 0; c < 4; c++)
				{
					size_t n = NS[ni];
					std::string cname = std::string(MANY[c]) + "_n" + str(n);
					std::string cid = "grp:" + cname + ":manygen:" + str(set);
					if (!R->mine() || !R->selected(cid)) continue;
					if (!clssel.empty() && clssel != cname) continue;
					if (R->out_of_time()) goto done;
					mcenv::CoinSource cs(mcenv::env_seed(), 0);
					mcenv::cur = &cs;
					Subject *S = generate(cs, 0x6c000 + set * 64 + ni * 8 + c, F, [&]() -> Subject * {
						switch (c)
						{
							case 0: return mk_pedcom(n, F, G, false);
							case 1: return mk_pedcom(n, F, G, true);
							case 2: return mk_skc(n, le, F, G);
							default: { Ctx ctx = make_ctx(F, G, false); return mk_vsshe(ctx, n, le, F, G); }
						}
					});
					if (!S) { harness_error("could not generate " + cid); mcenv::cur = nullptr; continue; }
					S->cls += "/n=" + str(n);
					run_cell(S, cid, what);
					mcenv::cur = nullptr;
				}
	}
	// ---- canonical generator with re-derivation (regime "canonretry", added after seeded change C06-5): the verifiable generator
	// is H(seed)^k, and when that candidate is trivial the seed is extended by the candidate and hashed again.  The second round
	// is reached with probability ~ 1/q, i.e. never in the other regimes: here |q| = 5 (4 in thorough as well), 200 (600)
	// library-generated groups per size; each must pass CheckGroup() on the generating object and on an object built from the
	// published group, and the generator is re-derived by the independent Python reference (which also counts the rounds).
	if (regsel == "all" || regsel == "canonretry")
	{
		const unsigned long GS[] = { 5, 4 };
		for (int gi = 0; gi < (thorough ? 2 : 1); gi++)
			for (int set = 0; set < (thorough ? 600 : 200); set++)
			{
				std::string cid = std::string("grp:vtmf_dlog_canonical:canonretry") + str(GS[gi]) + ":" + str(set);
				if (!R->mine() || !R->selected(cid)) continue;
				if (R->out_of_time()) goto done;
				mcenv::CoinSource cs(mcenv::env_seed(), 0);
				mcenv::cur = &cs;
				BarnettSmartVTMF_dlog *v = NULL;
				const unsigned long F = 16, G = GS[gi];
				for (uint64_t attempt = 0; attempt < 200 && !v; attempt++)
				{
					cs.reset(mcenv::env_seed(), 0x7a0000 + gi * 65536 + set + (attempt << 24));
					cs.steer = budget_steer;
					gen_budget = 4000;
					try { v = new BarnettSmartVTMF_dlog(F, G, true, true); }
					catch (GenStuck &) { R->counters["generator_restarts"]++; }
					gen_budget = 0;
				}
				cs.steer = nullptr;
				if (!v) { harness_error("could not generate " + cid); mcenv::cur = nullptr; continue; }
				cur_cid = cid;
				R->ok(true);
				R->counters["canonretry_groups"]++;
				std::stringstream pub;
				v->PublishGroup(pub);
				bool c1 = v->CheckGroup();
				BarnettSmartVTMF_dlog *w = new BarnettSmartVTMF_dlog(pub, F, G, true, true);
				bool c2 = w->CheckGroup();
				if (!c1 || !c2)
					R->viol("group/generated-set-refused/vtmf_dlog_canonical", "CheckGroup() = " + str(c1) + " on the generating object, " + str(c2) + " on an object built from the published group, for the library-generated group p=" +
						Z(v->p).str() + " q=" + Z(v->q).str() + " g=" + Z(v->g).str() + " (canonical generator)", cid);
				printf("{\"t\":\"ref\",\"kind\":\"c06.ggen\",\"a\":[\"%s\",\"%s\",\"%s\"],\"got\":\"%s\",\"case\":\"%s\"}\n",
					Z(v->p).str().c_str(), Z(v->q).str().c_str(), Z(v->k).str().c_str(), Z(v->g).str().c_str(), jesc(cid).c_str());
				if (set == 0) R->sample(cid, "p=" + Z(v->p).str() + " q=" + Z(v->q).str() + " g=" + Z(v->g).str());
				delete w;
				delete v;
				mcenv::cur = nullptr;
			}
	}
done:
	mcenv::cur = nullptr;
	rep.finish();
	return harness_errors ? 2 : 0;
}
