// C06 reference: what "well-formed group parameters" means, written from the property text (not from the library code).
//
// A parameter set (PSet) is what one CheckGroup() is meant to validate: primes p, q, cofactor k (a member, or implied
// k = (p-1)/q), a list of generators, the configured sizes, and the class' documented extras (pairwise distinct generators,
// verifiably derived first generator, QR group form p = 2q+1, p = 7 mod 8).  failing() lists EVERY violated condition:
//   size-p size-q       |p| < F, |q| < G (configured)
//   prime-p prime-q     composite (trial division below 2^32, else 50 Miller-Rabin rounds after trial division)
//   form                p != k*q + 1  (k member) / q does not divide p-1 (k implied) / p != 2q+1 (QR)
//   coprime             gcd(k, q) != 1
//   mod8                QR group: p != 7 mod 8
//   range:<g>           not 1 < g < p-1     (0, 1, p-1, out of range)
//   order:<g>           g^q != 1 mod p
//   distinct:<a>=<b>    two generators that must differ coincide
//   canon               the generator that must be derived verifiably is not the derived one
//   negative            p, q or k below zero: outside the property text -> the verdict is not compared (UNSPEC)
#ifndef C06_REF_HH
#define C06_REF_HH
#include <gmp.h>
#include <string>
#include <vector>
#include <map>
#include <cstdlib>
#include <mpz_shash.hh>

struct Z {
	mpz_t v;
	Z() { mpz_init(v); }
	Z(const Z &o) { mpz_init_set(v, o.v); }
	Z(mpz_srcptr s) { mpz_init_set(v, s); }
	explicit Z(long x) { mpz_init_set_si(v, x); }
	Z &operator=(const Z &o) { if (this != &o) mpz_set(v, o.v); return *this; }
	~Z() { mpz_clear(v); }
	std::string str(int base = 10) const { char *s = mpz_get_str(NULL, base, v); std::string r(s); free(s); return r; }
	size_t bits() const { return mpz_sizeinbase(v, 2); }
};

static inline bool ref_prime(mpz_srcptr n)
{
	if (mpz_cmp_ui(n, 2) < 0) return false;
	if (mpz_cmp_ui(n, 4) < 0) return true;
	if (mpz_even_p(n)) return false;
	if (mpz_sizeinbase(n, 2) <= 32)
	{
		unsigned long x = mpz_get_ui(n);
		for (unsigned long d = 3; d * d <= x; d += 2)
			if (x % d == 0) return false;
		return true;
	}
	static std::map<std::string, bool> cache;
	char *s = mpz_get_str(NULL, 62, n);
	std::string key(s);
	free(s);
	std::map<std::string, bool>::iterator it = cache.find(key);
	if (it != cache.end()) return it->second;
	bool r = true;
	for (unsigned long d = 3; d < (1UL << 16) && r; d += 2)
		if (mpz_divisible_ui_p(n, d)) r = false;
	if (r) r = mpz_probab_prime_p(n, 50) != 0;
	if (cache.size() > 20000) cache.clear();
	cache[key] = r;
	return r;
}

// FIPS 186-3 A.2.3 style verifiable generator as the class documentation describes it:
// U = "LibTMCG|p|q|ggen|" (numbers in base 62), g = H(U)^k mod p, append "g|" and repeat until 1 < g < p-1 and g^q = 1.
// which = 0: first accepted value, 1: second accepted value.  Precondition: p, q prime, p = kq+1 (else this may not terminate).
static inline void ref_canonical_g(mpz_ptr out, mpz_srcptr p, mpz_srcptr q, mpz_srcptr k, int which = 0)
{
	Z pm1(p), h, t;
	mpz_sub_ui(pm1.v, p, 1);
	std::string U = "LibTMCG|" + Z(p).str(62) + "|" + Z(q).str(62) + "|ggen|";
	int found = -1;
	for (unsigned iter = 0; iter < 4096; iter++)
	{
		tmcg_mpz_shash(h.v, U);        // the hash itself is not C06's subject; ref/oracle_c06.py recomputes it with hashlib
		mpz_powm(out, h.v, k, p);
		U += Z(out).str(62) + "|";
		mpz_powm(t.v, out, q, p);
		if (mpz_cmp_ui(out, 1) > 0 && mpz_cmp(out, pm1.v) < 0 && mpz_cmp_ui(t.v, 1) == 0)
			if (++found == which) return;
	}
	mpz_set_ui(out, 0);
}

struct PSet {
	std::string name;                  // "" (own members) or "dkg." ... (nested object whose CheckGroup is called too)
	mpz_ptr p, q, k;                   // k == NULL: implied cofactor
	std::vector<std::pair<std::string, mpz_ptr> > gens;
	bool distinct;                     // generators must be pairwise different
	int canon;                         // 0 none, 1 gens[0] must be the first verifiable generator, 2 QR: gens[0] = 2^(2^(|p|-E))
	bool qr;                           // p = 2q+1, p = 7 mod 8
	unsigned long F, G, E;
	PSet() : p(NULL), q(NULL), k(NULL), distinct(false), canon(0), qr(false), F(0), G(0), E(0) {}
};

static inline void ref_qr_g(mpz_ptr out, mpz_srcptr p, unsigned long E)
{
	mpz_set_ui(out, 2);
	size_t bits = mpz_sizeinbase(p, 2);
	if (bits < E) { mpz_set_ui(out, 0); return; }
	for (size_t i = 0; i < bits - E; i++) { mpz_mul(out, out, out); mpz_mod(out, out, p); }
}

static inline std::vector<std::string> ref_failing(const PSet &s)
{
	std::vector<std::string> f;
	if (mpz_sgn(s.p) < 0 || mpz_sgn(s.q) < 0 || (s.k && mpz_sgn(s.k) < 0))
	{
		f.push_back(s.name + "negative");
		return f;
	}
	if (mpz_sizeinbase(s.p, 2) < s.F) f.push_back(s.name + "size-p");
	if (mpz_sizeinbase(s.q, 2) < s.G) f.push_back(s.name + "size-q");
	bool pp = ref_prime(s.p), qp = ref_prime(s.q);
	if (!pp) f.push_back(s.name + "prime-p");
	if (!qp) f.push_back(s.name + "prime-q");
	Z k, t, pm1(s.p);
	mpz_sub_ui(pm1.v, s.p, 1);
	bool form = true;
	if (s.qr)
	{
		mpz_mul_2exp(t.v, s.q, 1), mpz_add_ui(t.v, t.v, 1);
		form = mpz_cmp(t.v, s.p) == 0;
		mpz_set_ui(k.v, 2);
		if (!mpz_congruent_ui_p(s.p, 7, 8)) f.push_back(s.name + "mod8");
	}
	else if (s.k)
	{
		mpz_mul(t.v, s.q, s.k), mpz_add_ui(t.v, t.v, 1);
		form = mpz_cmp(t.v, s.p) == 0;
		mpz_set(k.v, s.k);
	}
	else
	{
		form = mpz_sgn(s.q) > 0 && mpz_sgn(pm1.v) > 0 && mpz_divisible_p(pm1.v, s.q);
		if (form) mpz_divexact(k.v, pm1.v, s.q);
	}
	if (!form) f.push_back(s.name + "form");
	bool cop = true;
	if (form && !s.qr)
	{
		mpz_gcd(t.v, k.v, s.q);
		cop = mpz_cmp_ui(t.v, 1) == 0;
		if (!cop) f.push_back(s.name + "coprime");
	}
	bool modok = mpz_cmp_ui(s.p, 2) > 0;
	for (size_t i = 0; i < s.gens.size(); i++)
	{
		mpz_srcptr g = s.gens[i].second;
		if (!(mpz_cmp_ui(g, 1) > 0 && mpz_cmp(g, pm1.v) < 0))
			f.push_back(s.name + "range:" + s.gens[i].first);
		bool ord = false;
		if (modok && mpz_sgn(s.q) > 0)
		{
			mpz_powm(t.v, g, s.q, s.p);
			ord = mpz_cmp_ui(t.v, 1) == 0;
		}
		if (!ord) f.push_back(s.name + "order:" + s.gens[i].first);
	}
	if (s.distinct)
		for (size_t i = 0; i < s.gens.size(); i++)
			for (size_t j = i + 1; j < s.gens.size(); j++)
				if (mpz_cmp(s.gens[i].second, s.gens[j].second) == 0)
					f.push_back(s.name + "distinct:" + s.gens[i].first + "=" + s.gens[j].first);
	// the derivation is only defined (and only terminates) on an otherwise well-formed set; an ill-formed set is ill-formed anyway
	if (s.canon == 1 && f.empty() && !s.gens.empty())
	{
		ref_canonical_g(t.v, s.p, s.q, k.v, 0);
		if (mpz_cmp(t.v, s.gens[0].second)) f.push_back(s.name + "canon");
	}
	if (s.canon == 2 && !s.gens.empty())
	{
		ref_qr_g(t.v, s.p, s.E);
		if (mpz_sizeinbase(s.p, 2) < s.E || mpz_cmp(t.v, s.gens[0].second)) f.push_back(s.name + "canon");
	}
	return f;
}

// exact membership for tiny groups, independent of GMP: 0 < a < p and a^q = 1 (mod p), p < 2^62
static inline bool ref_member_small(long a, unsigned long p, unsigned long q)
{
	if (a <= 0 || (unsigned long)a >= p) return false;
	unsigned __int128 r = 1, b = (unsigned long)a;
	unsigned long e = q;
	while (e)
	{
		if (e & 1) r = r * b % p;
		b = b * b % p;
		e >>= 1;
	}
	return r == 1;
}
#endif
