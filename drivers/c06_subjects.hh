// C06 subjects: one adapter per library class that carries group parameters.  An adapter exposes CheckGroup(), the element
// checks, the parameter sets CheckGroup is meant to validate (pointers to the live public mpz members, own and nested) and a
// way to re-create the object from the same values with other configured sizes.
#ifndef C06_SUBJECTS_HH
#define C06_SUBJECTS_HH
#include <libTMCG.hh>
#include <functional>
#include <sstream>
#include "c06_ref.hh"

struct Subject {
	std::string cls;
	std::function<bool()> check;
	std::vector<std::pair<std::string, std::function<bool(mpz_srcptr)> > > elems;
	bool elem_range_only;                       // an element check that is documented as the range test 0 < c < p only (none at present)
	std::vector<PSet> sets;                     // everything CheckGroup() is meant to validate
	std::vector<std::pair<std::string, mpz_ptr> > unspec;   // public group members CheckGroup() does not look at by design
	std::function<void()> destroy;
	std::function<Subject *(unsigned long, unsigned long)> remake;   // same values, other (F, G) resp. (F, E)
	Subject() : elem_range_only(false) {}
	~Subject() { if (destroy) destroy(); }
};

// a Schnorr group with a second element h, produced by the library's own generator (BarnettSmartVTMF_dlog + key generation)
struct Ctx {
	Z p, q, k, g, h;
	unsigned long F, G;
	bool canon;
};

static inline Ctx make_ctx(unsigned long F, unsigned long G, bool canon)
{
	Ctx c;
	BarnettSmartVTMF_dlog v(F, G, canon, true);
	v.KeyGenerationProtocol_GenerateKey();
	c.p = Z(v.p), c.q = Z(v.q), c.k = Z(v.k), c.g = Z(v.g), c.h = Z(v.h_i);
	c.F = F, c.G = G, c.canon = canon;
	return c;
}

static inline PSet pset4(const std::string &name, mpz_ptr p, mpz_ptr q, mpz_ptr k, mpz_ptr g, mpz_ptr h, unsigned long F, unsigned long G, bool canon)
{
	PSet s;
	s.name = name, s.p = p, s.q = q, s.k = k;
	s.gens.push_back(std::make_pair("g", g));
	if (h) s.gens.push_back(std::make_pair("h", h));
	s.distinct = (h != NULL);
	s.canon = canon ? 1 : 0;
	s.F = F, s.G = G;
	return s;
}

// ------------------------------------------------------------------ classes that generate their own group
static Subject *mk_vtmf_from(const std::string &pub, unsigned long F, unsigned long G, bool canon);
static inline Subject *mk_vtmf(unsigned long F, unsigned long G, bool canon, BarnettSmartVTMF_dlog *given = NULL)
{
	BarnettSmartVTMF_dlog *o = given ? given : new BarnettSmartVTMF_dlog(F, G, canon, true);
	Subject *s = new Subject;
	s->cls = canon ? "vtmf_dlog/canonical" : "vtmf_dlog";
	s->check = [o]() { return o->CheckGroup(); };
	s->elems.push_back(std::make_pair("CheckElement", [o](mpz_srcptr a) { return o->CheckElement(a); }));
	PSet ps = pset4("", o->p, o->q, o->k, o->g, NULL, F, G, canon);
	s->sets.push_back(ps);
	s->destroy = [o]() { delete o; };
	s->remake = [o, canon](unsigned long F2, unsigned long G2) { std::stringstream ss; o->PublishGroup(ss); return mk_vtmf_from(ss.str(), F2, G2, canon); };
	return s;
}
static Subject *mk_vtmf_from(const std::string &pub, unsigned long F, unsigned long G, bool canon)
{
	std::stringstream in(pub);
	return mk_vtmf(F, G, canon, new BarnettSmartVTMF_dlog(in, F, G, canon, true));
}

static Subject *mk_qr_from(const std::string &pub, unsigned long F, unsigned long E);
static inline Subject *mk_qr(unsigned long F, unsigned long E, BarnettSmartVTMF_dlog_GroupQR *given = NULL)
{
	BarnettSmartVTMF_dlog_GroupQR *o = given ? given : new BarnettSmartVTMF_dlog_GroupQR(F, E);
	Subject *s = new Subject;
	s->cls = "vtmf_qr";
	s->check = [o]() { return o->CheckGroup(); };
	s->elems.push_back(std::make_pair("CheckElement", [o](mpz_srcptr a) { return o->CheckElement(a); }));
	PSet ps;
	ps.p = o->p, ps.q = o->q, ps.k = NULL;
	ps.gens.push_back(std::make_pair("g", (mpz_ptr)o->g));
	ps.canon = 2, ps.qr = true, ps.F = F, ps.G = F - 1, ps.E = E;
	s->sets.push_back(ps);
	s->unspec.push_back(std::make_pair("k", (mpz_ptr)o->k));   // written by the constructor, never read again; p = 2q+1 is the relation
	s->destroy = [o]() { delete o; };
	s->remake = [o](unsigned long F2, unsigned long E2) { std::stringstream ss; o->PublishGroup(ss); return mk_qr_from(ss.str(), F2, E2); };
	return s;
}
static Subject *mk_qr_from(const std::string &pub, unsigned long F, unsigned long E)
{
	std::stringstream in(pub);
	return mk_qr(F, E, new BarnettSmartVTMF_dlog_GroupQR(in, F, E));
}

static inline PSet pset_com(const std::string &name, PedersenCommitmentScheme *c, unsigned long F, unsigned long G)
{
	PSet ps;
	ps.name = name, ps.p = c->p, ps.q = c->q, ps.k = c->k;
	ps.gens.push_back(std::make_pair("h", (mpz_ptr)c->h));
	for (size_t i = 0; i < c->g.size(); i++)
		ps.gens.push_back(std::make_pair("g" + std::to_string(i), c->g[i]));
	ps.distinct = true, ps.canon = 0, ps.F = F, ps.G = G;
	return ps;
}

static Subject *mk_pedcom_from(const std::string &pub, size_t n, unsigned long F, unsigned long G, const char *cls);
static inline Subject *mk_pedcom(size_t n, unsigned long F, unsigned long G, bool publiccoin, PedersenCommitmentScheme *given = NULL, const char *cls = NULL)
{
	PedersenCommitmentScheme *o = given ? given : new PedersenCommitmentScheme(n, F, G);
	if (!given && publiccoin)
	{
		Z a(424242L);
		o->SetupGenerators_publiccoin(a.v, false);
	}
	Subject *s = new Subject;
	s->cls = cls ? cls : (publiccoin ? "pedersen_com/publiccoin" : "pedersen_com");
	s->check = [o]() { return o->CheckGroup(); };
	s->elems.push_back(std::make_pair("TestMembership", [o](mpz_srcptr a) { return o->TestMembership(a); }));
	s->elem_range_only = false;     // since /repo 4a28817 TestMembership is the full membership test (range and order q)
	s->sets.push_back(pset_com("", o, F, G));
	s->destroy = [o]() { delete o; };
	std::string c = s->cls;
	s->remake = [o, n, c](unsigned long F2, unsigned long G2) { std::stringstream ss; o->PublishGroup(ss); return mk_pedcom_from(ss.str(), n, F2, G2, c.c_str()); };
	return s;
}
static Subject *mk_pedcom_from(const std::string &pub, size_t n, unsigned long F, unsigned long G, const char *cls)
{
	std::stringstream in(pub);
	return mk_pedcom(n, F, G, false, new PedersenCommitmentScheme(n, in, F, G), cls);
}

static Subject *mk_trapdoor_from(const std::string &pub, unsigned long F, unsigned long G);
static inline Subject *mk_trapdoor(unsigned long F, unsigned long G, PedersenTrapdoorCommitmentScheme *given = NULL)
{
	PedersenTrapdoorCommitmentScheme *o = given ? given : new PedersenTrapdoorCommitmentScheme(F, G);
	Subject *s = new Subject;
	s->cls = "pedersen_trapdoor_com";
	s->check = [o]() { return o->CheckGroup(); };
	s->sets.push_back(pset4("", o->p, o->q, o->k, o->g, o->h, F, G, false));
	s->destroy = [o]() { delete o; };
	s->remake = [o](unsigned long F2, unsigned long G2) { std::stringstream ss; o->PublishGroup(ss); return mk_trapdoor_from(ss.str(), F2, G2); };
	return s;
}
static Subject *mk_trapdoor_from(const std::string &pub, unsigned long F, unsigned long G)
{
	std::stringstream in(pub);
	return mk_trapdoor(F, G, new PedersenTrapdoorCommitmentScheme(in, F, G));
}

static inline Subject *mk_vrhe(unsigned long F, unsigned long G, HooghSchoenmakersSkoricVillegasVRHE *given = NULL)
{
	HooghSchoenmakersSkoricVillegasVRHE *o = given ? given : new HooghSchoenmakersSkoricVillegasVRHE(F, G);
	Subject *s = new Subject;
	s->cls = "vrhe";
	s->check = [o]() { return o->CheckGroup(); };
	s->elems.push_back(std::make_pair("CheckElement", [o](mpz_srcptr a) { return o->CheckElement(a); }));
	s->elems.push_back(std::make_pair("PUBROTZK::CheckElement", [o](mpz_srcptr a) { return o->pub_rot_zk->CheckElement(a); }));
	s->sets.push_back(pset4("", o->p, o->q, NULL, o->g, o->h, F, G, false));
	s->destroy = [o]() { delete o; };
	s->remake = [o](unsigned long F2, unsigned long G2) { return mk_vrhe(F2, G2, new HooghSchoenmakersSkoricVillegasVRHE(o->p, o->q, o->g, o->h, F2, G2)); };
	return s;
}

static inline Subject *mk_eotp(unsigned long F, unsigned long G, NaorPinkasEOTP *given = NULL)
{
	NaorPinkasEOTP *o = given ? given : new NaorPinkasEOTP(F, G);
	Subject *s = new Subject;
	s->cls = "naor_pinkas_eotp";
	s->check = [o]() { return o->CheckGroup(); };
	s->elems.push_back(std::make_pair("CheckElement", [o](mpz_srcptr a) { return o->CheckElement(a); }));
	s->sets.push_back(pset4("", o->p, o->q, NULL, o->g, NULL, F, G, false));
	s->destroy = [o]() { delete o; };
	s->remake = [o](unsigned long F2, unsigned long G2) { return mk_eotp(F2, G2, new NaorPinkasEOTP(o->p, o->q, o->g, F2, G2)); };
	return s;
}

static Subject *mk_skc_from(const std::string &pub, size_t n, unsigned long le, unsigned long F, unsigned long G);
static inline Subject *mk_skc(size_t n, unsigned long le, unsigned long F, unsigned long G, GrothSKC *given = NULL)
{
	GrothSKC *o = given ? given : new GrothSKC(n, le, F, G);
	Subject *s = new Subject;
	s->cls = "groth_skc";
	s->check = [o]() { return o->CheckGroup(); };
	s->sets.push_back(pset_com("com.", o->com, F, G));
	s->destroy = [o]() { delete o; };
	s->remake = [o, n, le](unsigned long F2, unsigned long G2) { std::stringstream ss; o->PublishGroup(ss); return mk_skc_from(ss.str(), n, le, F2, G2); };
	return s;
}
static Subject *mk_skc_from(const std::string &pub, size_t n, unsigned long le, unsigned long F, unsigned long G)
{
	std::stringstream in(pub);
	return mk_skc(n, le, F, G, new GrothSKC(n, in, le, F, G));
}

// ------------------------------------------------------------------ classes initialised from a common reference string
static inline Subject *mk_vsshe(const Ctx &c, size_t n, unsigned long le, unsigned long F, unsigned long G)
{
	GrothVSSHE *o = new GrothVSSHE(n, c.p.v, c.q.v, c.k.v, c.g.v, c.h.v, le, F, G);
	Subject *s = new Subject;
	s->cls = "groth_vsshe";
	s->check = [o]() { return o->CheckGroup(); };
	s->sets.push_back(pset_com("skc.com.", o->skc->com, F, G));
	// the encryption-scheme members and the public copy of the commitment scheme are compared with the VTMF instance by the
	// application (manual, "Initialization"), not by CheckGroup()
	s->unspec.push_back(std::make_pair("p", (mpz_ptr)o->p)), s->unspec.push_back(std::make_pair("g", (mpz_ptr)o->g)), s->unspec.push_back(std::make_pair("h", (mpz_ptr)o->h));
	s->unspec.push_back(std::make_pair("com.p", (mpz_ptr)o->com->p)), s->unspec.push_back(std::make_pair("com.q", (mpz_ptr)o->com->q));
	s->unspec.push_back(std::make_pair("com.k", (mpz_ptr)o->com->k)), s->unspec.push_back(std::make_pair("com.h", (mpz_ptr)o->com->h));
	s->unspec.push_back(std::make_pair("com.g0", o->com->g[0]));
	s->destroy = [o]() { delete o; };
	Ctx cc = c;
	s->remake = [cc, n, le](unsigned long F2, unsigned long G2) { return mk_vsshe(cc, n, le, F2, G2); };
	return s;
}

#define C06_N 4
#define C06_T 1
template <class T> static inline void add_elem(Subject *s, T *o)
{
	s->elems.push_back(std::make_pair("CheckElement", [o](mpz_srcptr a) { return o->CheckElement(a); }));
}

static inline Subject *mk_pedvss(const Ctx &c, unsigned long F, unsigned long G)
{
	PedersenVSS *o = new PedersenVSS(C06_N, C06_T, 0, c.p.v, c.q.v, c.g.v, c.h.v, F, G, false, "c06");
	Subject *s = new Subject;
	s->cls = "pedersen_vss";
	s->check = [o]() { return o->CheckGroup(); };
	add_elem(s, o);
	s->sets.push_back(pset4("", o->p, o->q, NULL, o->g, o->h, F, G, true));   // always canonical
	s->destroy = [o]() { delete o; };
	Ctx cc = c;
	s->remake = [cc](unsigned long F2, unsigned long G2) { return mk_pedvss(cc, F2, G2); };
	return s;
}

static inline Subject *mk_gjkr_dkg(const Ctx &c, unsigned long F, unsigned long G)
{
	GennaroJareckiKrawczykRabinDKG *o = new GennaroJareckiKrawczykRabinDKG(C06_N, C06_T, 0, c.p.v, c.q.v, c.g.v, c.h.v, F, G, c.canon, false, "c06");
	Subject *s = new Subject;
	s->cls = c.canon ? "gjkr_dkg/canonical" : "gjkr_dkg";
	s->check = [o]() { return o->CheckGroup(); };
	add_elem(s, o);
	s->sets.push_back(pset4("", o->p, o->q, NULL, o->g, o->h, F, G, c.canon));
	s->destroy = [o]() { delete o; };
	Ctx cc = c;
	s->remake = [cc](unsigned long F2, unsigned long G2) { return mk_gjkr_dkg(cc, F2, G2); };
	return s;
}

static inline Subject *mk_gjkr_nts(const Ctx &c, unsigned long F, unsigned long G)
{
	GennaroJareckiKrawczykRabinNTS *o = new GennaroJareckiKrawczykRabinNTS(C06_N, C06_T, 0, c.p.v, c.q.v, c.g.v, c.h.v, F, G, c.canon, false);
	Subject *s = new Subject;
	s->cls = c.canon ? "gjkr_nts/canonical" : "gjkr_nts";
	s->check = [o]() { return o->CheckGroup(); };
	s->sets.push_back(pset4("", o->p, o->q, NULL, o->g, o->h, F, G, c.canon));
	s->sets.push_back(pset4("dkg.", o->dkg->p, o->dkg->q, NULL, o->dkg->g, o->dkg->h, F, G, c.canon));
	s->destroy = [o]() { delete o; };
	Ctx cc = c;
	s->remake = [cc](unsigned long F2, unsigned long G2) { return mk_gjkr_nts(cc, F2, G2); };
	return s;
}

static inline Subject *mk_cgjkr_rvss(const Ctx &c, unsigned long F, unsigned long G)
{
	CanettiGennaroJareckiKrawczykRabinRVSS *o = new CanettiGennaroJareckiKrawczykRabinRVSS(C06_N, C06_T, 0, C06_T, c.p.v, c.q.v, c.g.v, c.h.v, F, G, c.canon, false, "c06");
	Subject *s = new Subject;
	s->cls = c.canon ? "cgjkr_rvss/canonical" : "cgjkr_rvss";
	s->check = [o]() { return o->CheckGroup(); };
	add_elem(s, o);
	s->sets.push_back(pset4("", o->p, o->q, NULL, o->g, o->h, F, G, c.canon));
	s->destroy = [o]() { delete o; };
	Ctx cc = c;
	s->remake = [cc](unsigned long F2, unsigned long G2) { return mk_cgjkr_rvss(cc, F2, G2); };
	return s;
}

static inline Subject *mk_cgjkr_zvss(const Ctx &c, unsigned long F, unsigned long G)
{
	CanettiGennaroJareckiKrawczykRabinZVSS *o = new CanettiGennaroJareckiKrawczykRabinZVSS(C06_N, C06_T, 0, C06_T, c.p.v, c.q.v, c.g.v, c.h.v, F, G, c.canon, false, "c06");
	Subject *s = new Subject;
	s->cls = c.canon ? "cgjkr_zvss/canonical" : "cgjkr_zvss";
	s->check = [o]() { return o->CheckGroup(); };
	add_elem(s, o);
	s->sets.push_back(pset4("", o->p, o->q, NULL, o->g, o->h, F, G, c.canon));
	s->destroy = [o]() { delete o; };
	Ctx cc = c;
	s->remake = [cc](unsigned long F2, unsigned long G2) { return mk_cgjkr_zvss(cc, F2, G2); };
	return s;
}

static inline Subject *mk_cgjkr_dkg(const Ctx &c, unsigned long F, unsigned long G)
{
	CanettiGennaroJareckiKrawczykRabinDKG *o = new CanettiGennaroJareckiKrawczykRabinDKG(C06_N, C06_T, 0, c.p.v, c.q.v, c.g.v, c.h.v, F, G, c.canon, false, "c06");
	Subject *s = new Subject;
	s->cls = c.canon ? "cgjkr_dkg/canonical" : "cgjkr_dkg";
	s->check = [o]() { return o->CheckGroup(); };
	add_elem(s, o);
	s->sets.push_back(pset4("", o->p, o->q, NULL, o->g, o->h, F, G, c.canon));
	s->sets.push_back(pset4("x_rvss.", o->x_rvss->p, o->x_rvss->q, NULL, o->x_rvss->g, o->x_rvss->h, F, G, c.canon));
	s->destroy = [o]() { delete o; };
	Ctx cc = c;
	s->remake = [cc](unsigned long F2, unsigned long G2) { return mk_cgjkr_dkg(cc, F2, G2); };
	return s;
}

static inline Subject *mk_cgjkr_dss(const Ctx &c, unsigned long F, unsigned long G)
{
	CanettiGennaroJareckiKrawczykRabinDSS *o = new CanettiGennaroJareckiKrawczykRabinDSS(C06_N, C06_T, 0, c.p.v, c.q.v, c.g.v, c.h.v, F, G, c.canon, false);
	Subject *s = new Subject;
	s->cls = c.canon ? "cgjkr_dss/canonical" : "cgjkr_dss";
	s->check = [o]() { return o->CheckGroup(); };
	add_elem(s, o);
	s->sets.push_back(pset4("", o->p, o->q, NULL, o->g, o->h, F, G, c.canon));
	s->sets.push_back(pset4("dkg.", o->dkg->p, o->dkg->q, NULL, o->dkg->g, o->dkg->h, F, G, c.canon));
	s->sets.push_back(pset4("dkg.x_rvss.", o->dkg->x_rvss->p, o->dkg->x_rvss->q, NULL, o->dkg->x_rvss->g, o->dkg->x_rvss->h, F, G, c.canon));
	s->destroy = [o]() { delete o; };
	Ctx cc = c;
	s->remake = [cc](unsigned long F2, unsigned long G2) { return mk_cgjkr_dss(cc, F2, G2); };
	return s;
}

static inline Subject *mk_jl_rvss(const Ctx &c, unsigned long F, unsigned long G)
{
	JareckiLysyanskayaRVSS *o = new JareckiLysyanskayaRVSS(C06_N, C06_T, c.p.v, c.q.v, c.g.v, c.h.v, F, G);
	Subject *s = new Subject;
	s->cls = "jl_rvss";
	s->check = [o]() { return o->CheckGroup(); };
	add_elem(s, o);
	s->sets.push_back(pset4("", o->p, o->q, NULL, o->g, o->h, F, G, false));
	s->destroy = [o]() { delete o; };
	Ctx cc = c;
	s->remake = [cc](unsigned long F2, unsigned long G2) { return mk_jl_rvss(cc, F2, G2); };
	return s;
}

static inline Subject *mk_jl_edcf(const Ctx &c, unsigned long F, unsigned long G)
{
	JareckiLysyanskayaEDCF *o = new JareckiLysyanskayaEDCF(C06_N, C06_T, c.p.v, c.q.v, c.g.v, c.h.v, F, G);
	Subject *s = new Subject;
	s->cls = "jl_edcf";
	s->check = [o]() { return o->CheckGroup(); };
	s->sets.push_back(pset4("rvss.", o->rvss->p, o->rvss->q, NULL, o->rvss->g, o->rvss->h, F, G, false));
	// EDCF's own copies are initialised from the same constructor arguments as rvss and are not looked at by CheckGroup()
	s->unspec.push_back(std::make_pair("p", (mpz_ptr)o->p)), s->unspec.push_back(std::make_pair("q", (mpz_ptr)o->q));
	s->unspec.push_back(std::make_pair("g", (mpz_ptr)o->g)), s->unspec.push_back(std::make_pair("h", (mpz_ptr)o->h));
	s->destroy = [o]() { delete o; };
	Ctx cc = c;
	s->remake = [cc](unsigned long F2, unsigned long G2) { return mk_jl_edcf(cc, F2, G2); };
	return s;
}
#endif
