// C07 — shuffle permutations, rotation offsets and random residues are uniform: decided STRUCTURALLY, no statistics.
//
// Uniformity of a sampler that is a deterministic function of fair coins is a counting statement about that function.
// The harness owns the coins (mcenv::CoinSource::steer), so it enumerates the function instead of sampling it.
//
// Families (--family):
//   perm  TMCG_CreateStackSecret(cyclic=false) for both overloads (VTMF card secrets / key-ring card secrets).
//         Enumerated: n = 1..N (quick N=7, thorough N=9), ALL choice sequences (c_0..c_{n-2}), c_i in [0, n-i)  => n! runs.
//         Every 8-byte coin request (= one bounded draw, tmcg_mpz_srandom_mod) is answered with the word c_i, and in a
//         second run with the word c_i + (n-i)*J_i (same residue for modulus n-i, a different one for any other modulus).
//         Oracle: exactly n-1 bounded draws; the index component is a permutation of 0..n-1; both runs agree (=> draw i
//         really is "mod n-i" and only the residue matters); the map sequence -> permutation is a BIJECTION onto S_n
//         (every Lehmer rank hit exactly once).  With `mod` below (each draw uniform on [0,n-i)) this is uniformity on S_n.
//   rot   TMCG_CreateStackSecret(cyclic=true), both overloads, n = 2..64 (quick) / 2..128 + {255,256,257,511,512} (thorough),
//         ALL offsets r in [0,n) (word r and word r + n*J).  Oracle: exactly one bounded draw; index component is a cyclic
//         shift; the n runs give n distinct shifts and n distinct return values; return value d satisfies pi[(i+d)%n]==i
//         (the card at old position i lands at position i+d: "returned as (n-r) mod n").
//   mod   tmcg_mpz_{ss,s,w}random_mod(m): for every m of the catalogue and every level the acceptance threshold T of the
//         rejection loop is located by binary search over the 64-bit coin word (acceptance of word w = "no second 8-byte
//         request"), then verified by scanning every word in [0,3m) and [T-2m,T+2m) (windows capped at 4096 words), the
//         words 2^k-1/2^k, and j*m-1, j*m, j*m+1 for several j.  Oracle: T > 0, T = 0 (mod m) [T = 2^64 allowed iff m | 2^64],
//         word accepted <=> w < T inside every window, output == w mod m for every accepted word, output < m always.
//         Catalogue: quick m = 2..128, thorough m = 2..4096; both: 2^k-1, 2^k, 2^k+1 (k = 2..63), 2^16..2^16+64,
//         values around ULONG_MAX/2, ULONG_MAX/3, ULONG_MAX.
//   resm  tmcg_mpz_{ss,s,w}randomm(r, m): for every m of a catalogue of 1..32768-bit moduli and every level: exactly one
//         coin request, of >= ceil((|m|+64)/8) bytes; for a set of steered buffers (all zero, all 0xFF, a single 0x01 /
//         0x80 at EVERY byte position, 8 pseudo-random fills, and for m <= 300 the values 0..4m+3) the result equals
//         (big-endian integer of ALL requested bytes) mod m, and is < m.  A sample is re-computed by Python.
//   edge  (opt-in, NOT in props/C07.json: outside the property's quantifier) sizes 0 and 1, each call in a forked child:
//         reports edge/<overload>/size<n>-<cyclic|perm>-crash|throws.  On the pinned tree size 0 non-cyclic dies with SIGSEGV
//         and cyclic sizes 0/1 throw std::invalid_argument (findings/c07_createstacksecret_size0_size1.cc).
//
// Cell (= shard unit = case id): perm:<variant>:n=<n> | rot:<variant>:n=<n> | mod:<level>:m=<m> | resm:<level>:<name>
#include "drv.hh"
#include <libTMCG.hh>
#include <gmp.h>
#include <algorithm>
#include <climits>
#include <sys/wait.h>

using namespace drv;

static Report *R;
static std::string family;
static bool thorough;

struct Runaway {};

static std::string zs(mpz_srcptr z) { char *s = mpz_get_str(NULL, 10, z); std::string r(s); free(s); return r; }

// ---------------------------------------------------------------- coin steering for 8-byte (bounded draw) requests
struct Script {
	std::vector<uint64_t> words;   // answers for the successive 8-byte requests
	size_t served;                 // number of 8-byte requests seen
	uint64_t fallback;             // answer once the script is exhausted
	size_t limit;                  // more 8-byte requests than this => Runaway
	std::vector<int> levels;
	Script() : served(0), fallback(0), limit(100000) {}
	void arm(const std::vector<uint64_t> &w) { words = w; served = 0; levels.clear(); }
};
static Script script;

static bool steer8(unsigned char *buf, size_t len, int level, uint64_t)
{
	if (len != sizeof(unsigned long))
		return false;
	uint64_t w = script.served < script.words.size() ? script.words[script.served] : script.fallback;
	script.served++;
	script.levels.push_back(level);
	if (script.served > script.limit)
		throw Runaway();
	memcpy(buf, &w, 8);   // host byte order: tmcg_mpz_grandom_ui reads the 8 bytes into an unsigned long
	return true;
}

// ---------------------------------------------------------------- subjects for perm / rot
struct Subject {
	SchindelhauerTMCG *tmcg;
	BarnettSmartVTMF_dlog *vtmf;
	TMCG_PublicKeyRing *ring;
	Subject() : tmcg(NULL), vtmf(NULL), ring(NULL) {}
};

static Subject make_subject(mcenv::CoinSource &cs)
{
	Subject s;
	cs.steer = nullptr;
	s.tmcg = new SchindelhauerTMCG(4, 2, 2);          // security 4, 2 players, 2 type bits (irrelevant for secrets)
	s.vtmf = new BarnettSmartVTMF_dlog(64, 24, false, true); // tiny group; srandomm(q) asks for 11 bytes, never 8
	s.vtmf->KeyGenerationProtocol_GenerateKey();
	s.vtmf->KeyGenerationProtocol_Finalize();
	s.ring = new TMCG_PublicKeyRing(2);
	mpz_set_ui(s.ring->keys[0].m, 7UL * 11UL * 1000003UL);   // only .m is read by TMCG_CreateCardSecret
	mpz_set_ui(s.ring->keys[1].m, 19UL * 23UL * 1000033UL);
	return s;
}

// runs one CreateStackSecret under the armed script; returns false on structural failure (already reported)
static bool run_css(Subject &S, int variant, bool cyclic, size_t n, std::vector<size_t> &pi, size_t &ret, std::string &err)
{
	pi.clear();
	try
	{
		if (variant == 0)
		{
			TMCG_StackSecret<VTMF_CardSecret> ss;
			ret = S.tmcg->TMCG_CreateStackSecret(ss, cyclic, n, S.vtmf);
			if (ss.size() != n) { err = "stack secret size " + str(ss.size()); return false; }
			for (size_t i = 0; i < n; i++) pi.push_back(ss[i].first);
		}
		else
		{
			TMCG_StackSecret<TMCG_CardSecret> ss;
			ret = S.tmcg->TMCG_CreateStackSecret(ss, cyclic, *S.ring, 0, n);
			if (ss.size() != n) { err = "stack secret size " + str(ss.size()); return false; }
			for (size_t i = 0; i < n; i++) pi.push_back(ss[i].first);
		}
	}
	catch (Runaway &) { err = "unbounded number of bounded draws"; return false; }
	catch (std::exception &e) { err = std::string("exception: ") + e.what(); return false; }
	return true;
}

static bool is_perm(const std::vector<size_t> &pi)
{
	std::vector<char> seen(pi.size(), 0);
	for (size_t i = 0; i < pi.size(); i++)
	{
		if (pi[i] >= pi.size() || seen[pi[i]]) return false;
		seen[pi[i]] = 1;
	}
	return true;
}

static uint64_t lehmer_rank(const std::vector<size_t> &pi)
{
	uint64_t r = 0;
	size_t n = pi.size();
	for (size_t i = 0; i < n; i++)
	{
		size_t c = 0;
		for (size_t j = i + 1; j < n; j++) if (pi[j] < pi[i]) c++;
		r = r * (n - i) + c;
	}
	return r;
}

static std::string pstr(const std::vector<size_t> &v)
{
	std::string s;
	for (size_t i = 0; i < v.size(); i++) s += (i ? "," : "") + str(v[i]);
	return s;
}
static std::string wstr(const std::vector<uint64_t> &v)
{
	std::string s;
	for (size_t i = 0; i < v.size(); i++) s += (i ? "," : "") + str(v[i]);
	return s;
}

static const char *VARIANT[2] = { "vtmf", "ring" };

// ---------------------------------------------------------------- perm
static void fam_perm()
{
	size_t N = thorough ? 9 : 7;
	N = (size_t)R->args.geti("nmax", (long)N);
	for (int variant = 0; variant < 2; variant++)
		for (size_t n = 1; n <= N; n++)
		{
			std::string cid = std::string("perm:") + VARIANT[variant] + ":n=" + str(n);
			if (!R->mine() || !R->selected(cid)) continue;
			if (R->out_of_time()) return;
			mcenv::CoinSource cs(mcenv::env_seed(), 0x700 + variant * 64 + n);
			mcenv::cur = &cs;
			Subject S = make_subject(cs);
			cs.steer = steer8;
			uint64_t fact = 1;
			for (size_t i = 2; i <= n; i++) fact *= i;
			std::vector<uint32_t> hits(fact, 0);
			std::vector<uint64_t> c(n > 0 ? n - 1 : 0, 0), lifted(c.size());
			uint64_t runs = 0, bad = 0;
			bool done = false;
			while (!done)
			{
				std::vector<size_t> pi, pi2;
				size_t ret = 0, ret2 = 0;
				std::string err;
				script.arm(c);
				script.limit = n + 8;
				bool ok = run_css(S, variant, false, n, pi, ret, err);
				size_t draws = script.served;
				for (size_t i = 0; i < c.size(); i++)
					lifted[i] = c[i] + (uint64_t)(n - i) * (1000003ULL + 7919ULL * i + 104729ULL * runs % 1000);
				script.arm(lifted);
				bool ok2 = ok && run_css(S, variant, false, n, pi2, ret2, err);
				size_t draws2 = script.served;
				runs++;
				R->ok(n >= 2);
				std::string ctx = "n=" + str(n) + " choices=[" + wstr(c) + "]";
				if (!ok || !ok2)
				{
					if (bad++ < 5) R->viol(std::string("perm/") + VARIANT[variant] + "/run", ctx + " " + err, cid);
				}
				else if (draws != n - 1 || draws2 != n - 1)
				{
					if (bad++ < 5) R->viol(std::string("perm/") + VARIANT[variant] + "/draw-count", ctx + " bounded draws=" + str(draws) + "/" + str(draws2) + " expected " + str(n - 1), cid);
				}
				else if (!is_perm(pi))
				{
					if (bad++ < 5) R->viol(std::string("perm/") + VARIANT[variant] + "/not-a-permutation", ctx + " pi=[" + pstr(pi) + "]", cid);
				}
				else if (pi != pi2)
				{
					if (bad++ < 5) R->viol(std::string("perm/") + VARIANT[variant] + "/draw-modulus", ctx + " words [" + wstr(lifted) + "] have the same residues mod n-i but give pi=[" + pstr(pi2) + "] instead of [" + pstr(pi) + "]", cid);
				}
				else if (ret != 0 || ret2 != 0)
				{
					if (bad++ < 5) R->viol(std::string("perm/") + VARIANT[variant] + "/return", ctx + " non-cyclic call returned " + str(ret), cid);
				}
				else
					hits[lehmer_rank(pi)]++;
				// next choice sequence (mixed radix: digit i ranges over [0, n-i))
				done = true;
				for (size_t i = c.size(); i-- > 0;)
				{
					if (c[i] + 1 < n - i) { c[i]++; done = false; break; }
					c[i] = 0;
				}
			}
			uint64_t missing = 0, multi = 0, firstmiss = fact;
			for (uint64_t k = 0; k < fact; k++)
			{
				if (hits[k] == 0) { missing++; if (firstmiss == fact) firstmiss = k; }
				else if (hits[k] > 1) multi++;
			}
			R->ok(n >= 2);
			if (runs != fact)
				R->viol(std::string("perm/") + VARIANT[variant] + "/enumeration", "n=" + str(n) + " runs=" + str(runs) + " != n!=" + str(fact), cid);
			if (!bad && (missing || multi))
				R->viol(std::string("perm/") + VARIANT[variant] + "/not-bijective", "n=" + str(n) + ": " + str(fact) + " choice sequences reach only " + str(fact - missing)
					+ " of n! permutations (" + str(multi) + " reached more than once; first unreachable Lehmer rank " + str(firstmiss) + ") => not uniform", cid);
			R->counters["perm_sequences"] += runs;
			R->sample(cid, str(runs) + " choice sequences -> " + str(fact - missing) + " distinct permutations of " + str(fact));
			mcenv::cur = nullptr;
			delete S.tmcg; delete S.vtmf; delete S.ring;
		}
}

// ---------------------------------------------------------------- rot
static void fam_rot()
{
	std::vector<size_t> ns;
	if (thorough)
	{
		for (size_t n = 2; n <= 128; n++) ns.push_back(n);
		ns.push_back(255), ns.push_back(256), ns.push_back(257), ns.push_back(511), ns.push_back(TMCG_MAX_CARDS);
	}
	else
		for (size_t n = 2; n <= 64; n++) ns.push_back(n);
	for (int variant = 0; variant < 2; variant++)
	{
		mcenv::CoinSource cs(mcenv::env_seed(), 0x7a0 + variant);
		Subject S;
		bool have = false;
		for (size_t ni = 0; ni < ns.size(); ni++)
		{
			size_t n = ns[ni];
			std::string cid = std::string("rot:") + VARIANT[variant] + ":n=" + str(n);
			if (!R->mine() || !R->selected(cid)) continue;
			if (R->out_of_time()) return;
			mcenv::cur = &cs;
			if (!have) { S = make_subject(cs); have = true; }
			cs.steer = steer8;
			std::set<std::vector<size_t> > shifts;
			std::set<size_t> rets;
			uint64_t bad = 0;
			for (size_t r = 0; r < n; r++)
			{
				std::vector<size_t> pi, pi2;
				size_t ret = 0, ret2 = 0;
				std::string err;
				std::vector<uint64_t> w(1, r), w2(1, r + (uint64_t)n * (999983ULL + r));
				script.arm(w);
				script.limit = 16;
				bool ok = run_css(S, variant, true, n, pi, ret, err);
				size_t draws = script.served;
				script.arm(w2);
				bool ok2 = ok && run_css(S, variant, true, n, pi2, ret2, err);
				size_t draws2 = script.served;
				R->ok(true);
				std::string ctx = "n=" + str(n) + " choice=" + str(r);
				std::string k = std::string("rot/") + VARIANT[variant];
				if (!ok || !ok2) { if (bad++ < 5) R->viol(k + "/run", ctx + " " + err, cid); continue; }
				if (draws != 1 || draws2 != 1) { if (bad++ < 5) R->viol(k + "/draw-count", ctx + " bounded draws=" + str(draws) + "/" + str(draws2) + " expected 1", cid); continue; }
				if (!is_perm(pi)) { if (bad++ < 5) R->viol(k + "/not-a-permutation", ctx + " pi=[" + pstr(pi) + "]", cid); continue; }
				bool cyc = true;
				for (size_t i = 0; i + 1 < n; i++) if (pi[i + 1] != (pi[i] + 1) % n) cyc = false;
				if (!cyc) { if (bad++ < 5) R->viol(k + "/not-a-rotation", ctx + " pi=[" + pstr(pi) + "]", cid); continue; }
				if (pi != pi2 || ret != ret2) { if (bad++ < 5) R->viol(k + "/draw-modulus", ctx + " word " + str(w2[0]) + " has the same residue mod n but gives a different rotation", cid); continue; }
				bool offs = ret < n;
				for (size_t i = 0; offs && i < n; i++) if (pi[(i + ret) % n] != i) offs = false;
				if (!offs) { if (bad++ < 5) R->viol(k + "/offset", ctx + " returned offset " + str(ret) + " does not describe pi=[" + pstr(pi) + "]", cid); continue; }
				shifts.insert(pi);
				rets.insert(ret);
			}
			R->ok(true);
			if (!bad && (shifts.size() != n || rets.size() != n))
				R->viol(std::string("rot/") + VARIANT[variant] + "/not-bijective", "n=" + str(n) + ": " + str(n) + " choices reach " + str(shifts.size()) + " rotations / " + str(rets.size()) + " offsets", cid);
			R->counters["rot_choices"] += n;
			R->sample(cid, str(n) + " choices -> " + str(shifts.size()) + " distinct rotations, " + str(rets.size()) + " distinct offsets");
		}
		mcenv::cur = nullptr;
		if (have) { delete S.tmcg; delete S.vtmf; delete S.ring; }
	}
}

// ---------------------------------------------------------------- edge (opt-in)
static void fam_edge()
{
	mcenv::CoinSource cs(mcenv::env_seed(), 0x7e0);
	mcenv::cur = &cs;
	Subject S = make_subject(cs);
	for (int variant = 0; variant < 2; variant++)
		for (int cyclic = 0; cyclic < 2; cyclic++)
			for (size_t n = 0; n < 2; n++)
			{
				std::string cid = std::string("edge:") + VARIANT[variant] + (cyclic ? ":cyclic" : ":perm") + ":n=" + str(n);
				if (!R->mine() || !R->selected(cid)) continue;
				fflush(stdout);
				pid_t pid = fork();
				if (pid == 0)
				{
					std::vector<size_t> pi; size_t ret = 0; std::string err;
					bool ok = run_css(S, variant, cyclic, n, pi, ret, err);
					_exit(ok ? 0 : 3);
				}
				int st = 0;
				waitpid(pid, &st, 0);
				R->ok(true);
				std::string k = std::string("edge/") + VARIANT[variant] + "/size" + str(n) + (cyclic ? "-cyclic" : "-perm");
				if (WIFSIGNALED(st)) R->viol(k + "-crash", "TMCG_CreateStackSecret(size=" + str(n) + ", cyclic=" + str(cyclic) + ") killed by signal " + str(WTERMSIG(st)), cid);
				else if (WEXITSTATUS(st) != 0) R->viol(k + "-throws", "TMCG_CreateStackSecret(size=" + str(n) + ", cyclic=" + str(cyclic) + ") throws", cid);
			}
	mcenv::cur = nullptr;
}

// ---------------------------------------------------------------- mod (bounded sampler)
static const char *LEVEL[3] = { "ss", "s", "w" };
static unsigned long call_mod(int level, unsigned long m)
{
	switch (level)
	{
		case 0: return tmcg_mpz_ssrandom_mod(m);
		case 1: return tmcg_mpz_srandom_mod(m);
		default: return tmcg_mpz_wrandom_mod(m);
	}
}

struct Probe { bool accepted; unsigned long out; bool failed; std::string err; };
static Probe probe(int level, unsigned long m, uint64_t w)
{
	Probe p;
	p.failed = false, p.accepted = false, p.out = 0;
	std::vector<uint64_t> ws(1, w);
	script.arm(ws);
	script.fallback = 0;
	script.limit = 8;
	try { p.out = call_mod(level, m); }
	catch (Runaway &) { p.failed = true; p.err = "keeps rejecting the word 0"; return p; }
	catch (std::exception &e) { p.failed = true; p.err = std::string("exception: ") + e.what(); return p; }
	p.accepted = (script.served == 1);
	if (script.served == 0) { p.failed = true; p.err = "no 8-byte coin request"; }
	return p;
}

static void mod_cell(int level, unsigned long m, const std::string &cid)
{
	std::string key = std::string("mod/") + LEVEL[level];
	std::string ctx = "m=" + str(m) + " level=" + LEVEL[level];
	uint64_t bad = 0;
	// 1. threshold by binary search (assumes acceptance is monotone in the word; verified on the windows below)
	Probe p0 = probe(level, m, 0), pmax = probe(level, m, ULONG_MAX);
	R->ok(false);
	if (p0.failed || pmax.failed) { R->viol(key + "/run", ctx + " " + (p0.failed ? p0.err : pmax.err), cid); return; }
	if (!p0.accepted) { R->viol(key + "/rejects-zero", ctx + " coin word 0 is rejected", cid); return; }
	bool all = pmax.accepted;      // T = 2^64
	uint64_t T = 0;                // smallest rejected word (if !all)
	if (!all)
	{
		uint64_t lo = 0, hi = ULONG_MAX;   // lo accepted, hi rejected
		while (hi - lo > 1)
		{
			uint64_t mid = lo + (hi - lo) / 2;
			Probe pm = probe(level, m, mid);
			if (pm.failed) { R->viol(key + "/run", ctx + " word=" + str(mid) + " " + pm.err, cid); return; }
			if (pm.accepted) lo = mid; else hi = mid;
		}
		T = hi;
	}
	R->ok(true);
	bool multiple = all ? ((m & (m - 1)) == 0) : (T % m == 0);
	if (!multiple)
	{
		unsigned long excess = all ? (unsigned long)(((ULONG_MAX % m) + 1) % m) : (unsigned long)(T % m);
		R->viol(key + "/modulo-bias", ctx + ": accepted coin words are [0," + (all ? std::string("2^64") : str(T)) + "), not a multiple of m => residues below "
			+ str(excess) + " are more likely than the others", cid);
		bad++;
	}
	// 2. windows
	std::vector<uint64_t> ws;
	uint64_t W = 4096;
	uint64_t up = (m <= W / 3) ? 3 * m : W;
	for (uint64_t w = 0; w < up; w++) ws.push_back(w);
	{
		uint64_t span = (m <= W / 4) ? 2 * m : W / 2;
		uint64_t c = all ? 0 : T;      // centre; for T = 2^64 scan the last words only
		uint64_t from = all ? (ULONG_MAX - span + 1) : (c > span ? c - span : 0);
		for (uint64_t k = 0; k < 2 * span; k++)
		{
			uint64_t w = from + k;
			if (w < from) break;       // wrapped
			ws.push_back(w);
			if (w == ULONG_MAX) break;
		}
	}
	for (int k = 1; k < 64; k++) { ws.push_back((1ULL << k) - 1); ws.push_back(1ULL << k); }
	ws.push_back(ULONG_MAX);
	{
		uint64_t cnt = all ? (m > 1 ? (ULONG_MAX / m) : 0) : T / m;    // number of full residue classes accepted (approx if all)
		uint64_t js[6] = { 1, 2, 3, cnt / 2, cnt > 1 ? cnt - 1 : 1, cnt };
		for (int i = 0; i < 6; i++)
		{
			if (js[i] == 0) continue;
			unsigned __int128 x = (unsigned __int128)js[i] * m;
			if (x - 1 <= ULONG_MAX) ws.push_back((uint64_t)(x - 1));
			if (x <= ULONG_MAX) ws.push_back((uint64_t)x);
			if (x + 1 <= ULONG_MAX) ws.push_back((uint64_t)(x + 1));
		}
	}
	std::sort(ws.begin(), ws.end());
	ws.erase(std::unique(ws.begin(), ws.end()), ws.end());
	for (size_t i = 0; i < ws.size(); i++)
	{
		uint64_t w = ws[i];
		Probe p = probe(level, m, w);
		R->ok(w >= m);
		if (p.failed) { if (bad++ < 5) R->viol(key + "/run", ctx + " word=" + str(w) + " " + p.err, cid); continue; }
		bool want_acc = all || w < T;
		if (p.out >= m) { if (bad++ < 5) R->viol(key + "/out-of-range", ctx + " word=" + str(w) + " output=" + str(p.out), cid); continue; }
		if (p.accepted != want_acc) { if (bad++ < 5) R->viol(key + "/threshold", ctx + " word=" + str(w) + (p.accepted ? " accepted" : " rejected") + " but threshold is " + (all ? std::string("2^64") : str(T)), cid); continue; }
		if (p.accepted && p.out != w % m) { if (bad++ < 5) R->viol(key + "/residue", ctx + " word=" + str(w) + " output=" + str(p.out) + " expected " + str(w % m), cid); continue; }
	}
	R->counters["mod_words"] += ws.size();
	R->sample(cid, "threshold T=" + (all ? std::string("2^64") : str(T)) + " = " + (all ? std::string("2^64/m") : str(T / m)) + "*m; " + str(ws.size()) + " words probed");
}

static void fam_mod()
{
	std::vector<unsigned long> ms;
	unsigned long top = thorough ? 4096 : 128;
	for (unsigned long m = 2; m <= top; m++) ms.push_back(m);
	for (int k = 2; k < 64; k++) { ms.push_back((1UL << k) - 1); ms.push_back(1UL << k); ms.push_back((1UL << k) + 1); }
	for (unsigned long m = 1UL << 16; m <= (1UL << 16) + 64; m++) ms.push_back(m);
	unsigned long half = ULONG_MAX / 2, third = ULONG_MAX / 3;
	unsigned long sp[] = { half - 1, half, half + 1, half + 2, half + 3, third - 1, third, third + 1, third + 2, 2 * third, 2 * third + 1, 2 * third + 2,
		ULONG_MAX - 2, ULONG_MAX - 1, ULONG_MAX, 3UL << 62, (3UL << 62) + 1, 0xAAAAAAAAAAAAAAABUL, 6148914691236517205UL, 10000000000000000000UL, 1000000007UL, 4294967291UL };
	for (size_t i = 0; i < sizeof(sp) / sizeof(sp[0]); i++) ms.push_back(sp[i]);
	std::sort(ms.begin(), ms.end());
	ms.erase(std::unique(ms.begin(), ms.end()), ms.end());
	mcenv::CoinSource cs(mcenv::env_seed(), 0x7b0);
	cs.steer = steer8;
	for (int level = 0; level < 3; level++)
		for (size_t i = 0; i < ms.size(); i++)
		{
			std::string cid = std::string("mod:") + LEVEL[level] + ":m=" + str(ms[i]);
			if (!R->mine() || !R->selected(cid)) continue;
			if (R->out_of_time()) return;
			mcenv::cur = &cs;
			mod_cell(level, ms[i], cid);
			mcenv::cur = nullptr;
		}
}

// ---------------------------------------------------------------- resm (residue sampler)
struct BufSteer {
	std::vector<unsigned char> fill;   // what to answer (resized/filled by mode)
	int mode;                          // 0 zero, 1 ones, 2 unit byte (pos,val), 3 prf, 4 small value
	size_t pos; unsigned char val; uint64_t small, prfseed;
	std::vector<size_t> lens;
	std::vector<unsigned char> last;
};
static BufSteer bs;

static bool steer_buf(unsigned char *buf, size_t len, int, uint64_t)
{
	bs.lens.push_back(len);
	if (bs.lens.size() > 64)
		throw Runaway();
	switch (bs.mode)
	{
		case 0: memset(buf, 0, len); break;
		case 1: memset(buf, 0xff, len); break;
		case 2: memset(buf, 0, len); if (bs.pos < len) buf[bs.pos] = bs.val; break;
		case 3: { uint64_t st = bs.prfseed; for (size_t i = 0; i < len; i++) buf[i] = (unsigned char)(mcenv::splitmix(st) >> 17); break; }
		default: memset(buf, 0, len); for (size_t i = 0; i < 8 && i < len; i++) buf[len - 1 - i] = (unsigned char)(bs.small >> (8 * i)); break;
	}
	bs.last.assign(buf, buf + len);
	return true;
}

static void call_randomm(int level, mpz_ptr r, mpz_srcptr m)
{
	switch (level)
	{
		case 0: tmcg_mpz_ssrandomm(r, m); break;
		case 1: tmcg_mpz_srandomm(r, m); break;
		default: tmcg_mpz_wrandomm(r, m); break;
	}
}

static uint64_t resm_refc = 0;
static std::set<std::vector<unsigned char> > resm_seen;   // distinct coin buffers of the current cell
static void resm_one(int level, mpz_srcptr m, const std::string &cid, const std::string &what, uint64_t &bad, bool nontriv)
{
	std::string key = std::string("resm/") + LEVEL[level];
	mpz_t r, want;
	mpz_init_set_si(r, -1), mpz_init(want);
	bs.lens.clear();
	bool threw = false;
	std::string err;
	try { call_randomm(level, r, m); }
	catch (Runaway &) { threw = true; err = "unbounded number of coin requests"; }
	catch (std::exception &e) { threw = true; err = e.what(); }
	R->ok(nontriv && !threw && resm_seen.insert(bs.last).second);   // non-trivial: a coin buffer not fed before in this cell
	size_t need = (mpz_sizeinbase(m, 2) + 64 + 7) / 8;
	std::string ctx = "|m|=" + str(mpz_sizeinbase(m, 2)) + " m=" + zs(m).substr(0, 40) + " level=" + LEVEL[level] + " " + what;
	if (threw) { if (bad++ < 5) R->viol(key + "/run", ctx + " " + err, cid); }
	else if (bs.lens.size() != 1) { if (bad++ < 5) R->viol(key + "/request-count", ctx + " coin requests=" + str(bs.lens.size()) + " expected 1", cid); }
	else if (bs.lens[0] < need) { if (bad++ < 5) R->viol(key + "/too-few-bits", ctx + " requested " + str(bs.lens[0] * 8) + " bits < |m|+64 = " + str(mpz_sizeinbase(m, 2) + 64), cid); }
	else
	{
		mpz_import(want, bs.last.size(), 1, 1, 1, 0, bs.last.data());
		mpz_mod(want, want, m);
		if (mpz_sgn(r) < 0 || mpz_cmp(r, m) >= 0) { if (bad++ < 5) R->viol(key + "/out-of-range", ctx + " result=" + zs(r), cid); }
		else if (mpz_cmp(r, want)) { if (bad++ < 5) R->viol(key + "/residue", ctx + " result=" + zs(r).substr(0, 60) + " expected (coins mod m)=" + zs(want).substr(0, 60), cid); }
		else if ((resm_refc++ % 211) == 0 && bs.last.size() <= 80)
		{
			std::string hex;
			char b[4];
			for (size_t i = 0; i < bs.last.size(); i++) { snprintf(b, sizeof b, "%02x", bs.last[i]); hex += b; }
			printf("{\"t\":\"ref\",\"kind\":\"c07.bemod\",\"a\":[\"%s\",\"%s\"],\"got\":\"%s\",\"case\":\"%s\"}\n", hex.c_str(), zs(m).c_str(), zs(r).c_str(), jesc(cid).c_str());
		}
	}
	mpz_clear(r), mpz_clear(want);
}

static void resm_cell(int level, mpz_srcptr m, const std::string &cid)
{
	uint64_t bad = 0, n0 = R->evaluations;
	size_t need = (mpz_sizeinbase(m, 2) + 64 + 7) / 8;
	resm_seen.clear();
	bs.mode = 0; resm_one(level, m, cid, "coins=all-zero", bad, false);
	bs.mode = 1; resm_one(level, m, cid, "coins=all-0xff", bad, true);
	for (size_t pos = 0; pos < need + 2; pos++)
		for (int v = 0; v < 2; v++)
		{
			bs.mode = 2, bs.pos = pos, bs.val = v ? 0x80 : 0x01;
			resm_one(level, m, cid, "coins=single byte " + str((int)bs.val) + " at position " + str(pos), bad, true);
		}
	for (int k = 0; k < 8; k++)
	{
		bs.mode = 3, bs.prfseed = mcenv::env_seed() * 1315423911ULL + k * 2654435761ULL + mpz_sizeinbase(m, 2);
		resm_one(level, m, cid, "coins=prf#" + str(k), bad, true);
	}
	if (mpz_cmp_ui(m, 300) <= 0)
	{
		unsigned long mu = mpz_get_ui(m);
		for (unsigned long v = 0; v <= 4 * mu + 3; v++)
		{
			bs.mode = 4, bs.small = v;
			resm_one(level, m, cid, "coins=" + str(v), bad, v >= mu);
		}
	}
	R->counters["resm_buffers"] += R->evaluations - n0;
	R->sample(cid, "|m|=" + str(mpz_sizeinbase(m, 2)) + " bits, request >= " + str(need) + " bytes, " + str(R->evaluations - n0) + " buffers");
}

static void fam_resm()
{
	std::vector<std::pair<std::string, std::string> > ms;   // name, decimal value
	mpz_t m, t;
	mpz_init(m), mpz_init(t);
	unsigned long small_top = thorough ? 300 : 64;
	for (unsigned long v = 1; v <= small_top; v++) ms.push_back(std::make_pair("m=" + str(v), str(v)));
	std::vector<unsigned> ks;
	for (unsigned k = 9; k <= 72; k++) if (thorough || k % 8 <= 1 || k % 8 == 7) ks.push_back(k);
	// the property asks for big moduli: up to and beyond TMCG_MAX_KEYBITS (16384), where a fixed-size buffer would clamp the extra 64 bits
	unsigned big[] = { 127, 128, 129, 160, 255, 256, 257, 511, 512, 513, 1023, 1024, 1025, 2047, 2048, 2049, 3072, 4095, 4096,
		8191, 8192, 8193, 16319, 16320, 16321, 16383, 16384, 16385, 16447, 16448, 20000, 32768 };
	for (size_t i = 0; i < sizeof(big) / sizeof(big[0]); i++) ks.push_back(big[i]);
	for (size_t i = 0; i < ks.size(); i++)
	{
		unsigned k = ks[i];
		mpz_set_ui(m, 1), mpz_mul_2exp(m, m, k);
		mpz_sub_ui(t, m, 1); ms.push_back(std::make_pair("2^" + str(k) + "-1", zs(t)));
		ms.push_back(std::make_pair("2^" + str(k), zs(m)));
		mpz_add_ui(t, m, 1); ms.push_back(std::make_pair("2^" + str(k) + "+1", zs(t)));
		// an odd "random looking" modulus of exactly k bits: floor(2^k / sqrt(2))-ish via repeated digits
		mpz_set_ui(t, 0);
		for (unsigned b = 0; b < k; b++) { mpz_mul_2exp(t, t, 1); if (b == 0 || b == k - 1 || ((b * 2654435761U) >> 7) % 3 == 0) mpz_add_ui(t, t, 1); }
		ms.push_back(std::make_pair("mix" + str(k), zs(t)));
	}
	mcenv::CoinSource cs(mcenv::env_seed(), 0x7c0);
	cs.steer = steer_buf;
	for (int level = 0; level < 3; level++)
		for (size_t i = 0; i < ms.size(); i++)
		{
			std::string cid = std::string("resm:") + LEVEL[level] + ":" + ms[i].first;
			if (!R->mine() || !R->selected(cid)) continue;
			if (R->out_of_time()) break;
			mpz_set_str(m, ms[i].second.c_str(), 10);
			mcenv::cur = &cs;
			resm_cell(level, m, cid);
			mcenv::cur = nullptr;
		}
	mpz_clear(m), mpz_clear(t);
}

int main(int argc, char **argv)
{
	Args A = parse(argc, argv);
	Report rep(A);
	R = &rep;
	family = A.get("family", "all");
	thorough = (A.tier == "thorough") && A.get("size", "") != "quick";   // --size quick: small alphabet under a slow flavour
	if (!init_libTMCG()) { fprintf(stderr, "init_libTMCG failed\n"); return 2; }
	MuteCerr mute;
	rep.max_samples = 6;
	rep.bound = family + (thorough ? ":thorough" : ":quick");
	if (family == "perm" || family == "all") fam_perm();
	if (family == "rot" || family == "all") fam_rot();
	if (family == "edge") fam_edge();
	if (family == "mod" || family == "all") fam_mod();
	if (family == "resm" || family == "all") fam_resm();
	mcenv::cur = nullptr;
	rep.finish();
	return 0;
}
