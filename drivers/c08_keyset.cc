// C08 — all players derive the same common card key.
//
// Explicit-state search on the real BarnettSmartVTMF_dlog object (the key-set machine): events
//   A j      KeyGenerationProtocol_UpdateKey with player j's honest contribution (only while j is absent)
//   X j m    UpdateKey with player j's contribution under mutation m (catalogue below)           -> must be refused
//   D j      UpdateKey with the contribution of a player whose key is already stored (duplicate delivery / replay; at most one
//            per history): either verdict; a refusal must change nothing, an acceptance must either change nothing or multiply
//            exactly that key in once more (the reference then carries the extra factor)
//   R j      KeyGenerationProtocol_RemoveKey with player j's contribution (present or absent)
//   U        RemoveKey of a never-seen key                                                        -> must be refused
//   F        KeyGenerationProtocol_Finalize followed by one mask/open round on the final key
// Breadth-first over ALL event sequences (state = history replayed on a fresh object, deduplicated by the canonical
// state: sorted fingerprints of accepted keys + h + finalized flag) up to a depth at which no new state appears.
// Oracle after every event: reference set of accepted players; h == h_own * prod(accepted) (computed with mpz_mul by the
// harness); return value == reference verdict; refused events leave the canonical state unchanged; removal restores the
// exact previous h (differential: state reached by add-then-remove == state never added, by canonical equality).
// Groups: Schnorr group with random g, with canonical g, and the QR group with shortened exponents; k = 2..4 others.
#include "drv.hh"
#include <libTMCG.hh>
#include <map>
#include <deque>
#include <algorithm>

using namespace drv;
static Report *R;

static std::string zs(mpz_srcptr z) { char *s = mpz_get_str(NULL, 62, z); std::string r(s); free(s); return r; }

struct Contribution { std::string key, c, r, x; mpz_t hj; };

struct Setup {
	int kind;                       // 0 Schnorr random g, 1 Schnorr canonical g, 2 QR group
	std::string group;              // published group
	std::vector<Contribution> others;
	std::string own_seed;
	unsigned long psize, qsize;
	mpz_t p, q, g;
};

static BarnettSmartVTMF_dlog *make_instance(const Setup &S, uint64_t seed)
{
	std::stringstream gs(S.group);
	mcenv::CoinSource cs(seed, 77);
	mcenv::cur = &cs;
	BarnettSmartVTMF_dlog *v;
	if (S.kind == 2)
		v = new BarnettSmartVTMF_dlog_GroupQR(gs, S.psize, S.qsize);
	else
		v = new BarnettSmartVTMF_dlog(gs, S.psize, S.qsize, S.kind == 1, true);
	v->KeyGenerationProtocol_GenerateKey();
	mcenv::cur = nullptr;
	return v;
}

// mutation catalogue for a contribution (key, c, r): returns the stream text; "equivalent" mutations are not in here
static const int NMUT = 18;
static const char *MUTNAME[NMUT] = {"key=0", "key=1", "key=p-1", "key=p", "key+p", "p-key (order 2q)", "key*g (proof of the original key)",
	"c+1", "c=0", "c+2^300", "r+1", "r+q (out of range)", "r=0", "proof missing", "c missing", "other player's key with this proof", "key-p (negative)",
	"crafted key p - g^x with an even-challenge proof made with x (satisfies the Schnorr equation, not in the group)"};
static std::string mutate(const Setup &S, size_t j, int m)
{
	const Contribution &C = S.others[j];
	mpz_t key, c, r, t;
	mpz_init_set_str(key, C.key.c_str(), 62), mpz_init_set_str(c, C.c.c_str(), 62), mpz_init_set_str(r, C.r.c_str(), 62), mpz_init(t);
	bool drop_proof = false, drop_r = false;
	switch (m)
	{
		case 0: mpz_set_ui(key, 0); break;
		case 1: mpz_set_ui(key, 1); break;
		case 2: mpz_sub_ui(key, S.p, 1); break;
		case 3: mpz_set(key, S.p); break;
		case 4: mpz_add(key, key, S.p); break;
		case 5: mpz_sub(key, S.p, key); break;
		case 6: mpz_mul(key, key, S.g), mpz_mod(key, key, S.p); break;
		case 7: mpz_add_ui(c, c, 1); break;
		case 8: mpz_set_ui(c, 0); break;
		case 9: mpz_set_ui(t, 1), mpz_mul_2exp(t, t, 300), mpz_add(c, c, t); break;
		case 10: mpz_add_ui(r, r, 1); break;
		case 11: mpz_add(r, r, S.q); break;
		case 12: mpz_set_ui(r, 0); break;
		case 13: drop_proof = true; break;
		case 14: drop_r = true; break;
		case 15: mpz_set_str(key, S.others[(j + 1) % S.others.size()].key.c_str(), 62); break;
		case 16: mpz_sub(key, key, S.p); break;
	}
	if (m == 17)
	{
		// key' = -g^x; t = g^v; c = H(p, q, g, key', t); r = v - c x mod q.  Verification computes g^r key'^c = g^v (-1)^c,
		// so the proof passes the equation exactly when c is even: retry v until it is.  Only membership can refuse this.
		mpz_t x, v, tt;
		mpz_init_set_str(x, C.x.c_str(), 62), mpz_init(v), mpz_init(tt);
		mpz_sub(key, S.p, key);
		for (unsigned long tries = 1; tries < 200; tries++)
		{
			mpz_set_ui(v, 1000 + tries);
			mpz_powm(tt, S.g, v, S.p);
			tmcg_mpz_shash(c, 5, S.p, S.q, S.g, key, tt);
			if (mpz_even_p(c)) break;
		}
		mpz_mul(r, c, x), mpz_neg(r, r), mpz_add(r, r, v), mpz_mod(r, r, S.q);
		mpz_clear(x), mpz_clear(v), mpz_clear(tt);
	}
	std::string out = zs(key) + "\n";
	if (!drop_proof)
	{
		out += zs(c) + "\n";
		if (!drop_r) out += zs(r) + "\n";
	}
	mpz_clear(key), mpz_clear(c), mpz_clear(r), mpz_clear(t);
	return out;
}

struct Ev { char k; int j, m; };
static std::string ev_str(const Ev &e) { char b[32]; snprintf(b, sizeof b, "%c%d.%d", e.k, e.j, e.m); return b; }
static std::string hist_str(const std::vector<Ev> &h) { std::string r; for (size_t i = 0; i < h.size(); i++) r += (i ? " " : "") + ev_str(h[i]); return r; }

struct Model { std::set<int> present; std::set<int> extra; bool finalized; bool own_echo; };   // extra: keys that are in h one more time than in the key map (accepted duplicate)

struct Live {
	BarnettSmartVTMF_dlog *v;
	Model ref;
	std::string fail;
};

static std::string canon(const Live &L)
{
	std::vector<std::string> fps;
	for (std::map<std::string, mpz_ptr>::const_iterator i = L.v->h_j.begin(); i != L.v->h_j.end(); ++i) fps.push_back(i->first + "=" + zs(i->second));
	std::sort(fps.begin(), fps.end());
	std::string o = zs(L.v->h) + "|" + zs(L.v->h_i) + "|";
	for (size_t i = 0; i < fps.size(); i++) o += fps[i] + ",";
	o += L.ref.finalized ? "|F" : "|-";
	return o;
}

static void expect_h(const Setup &S, Live &L, const std::string &when)
{
	mpz_t want;
	mpz_init_set(want, L.v->h_i);
	if (L.ref.own_echo) mpz_mul(want, want, L.v->h_i), mpz_mod(want, want, S.p);
	for (std::set<int>::iterator i = L.ref.present.begin(); i != L.ref.present.end(); ++i)
		mpz_mul(want, want, S.others[*i].hj), mpz_mod(want, want, S.p);
	for (std::set<int>::iterator i = L.ref.extra.begin(); i != L.ref.extra.end(); ++i)
		mpz_mul(want, want, S.others[*i].hj), mpz_mod(want, want, S.p);
	if (mpz_cmp(want, L.v->h) && L.fail.empty())
		L.fail = "common key h differs from h_own * product of accepted keys " + when;
	if (L.v->KeyGenerationProtocol_NumberOfKeys() != L.ref.present.size() + (L.ref.own_echo ? 1 : 0) && L.fail.empty())
		L.fail = "number of stored keys " + str(L.v->KeyGenerationProtocol_NumberOfKeys()) + " != reference " + str(L.ref.present.size() + (L.ref.own_echo ? 1 : 0)) + " " + when;
	mpz_clear(want);
}

static void apply(const Setup &S, Live &L, const Ev &e, uint64_t seed)
{
	std::string before = canon(L);
	bool ret = false, expect = false, threw = false;
	std::string what = ev_str(e);
	try
	{
		if (e.k == 'A')
		{
			std::stringstream in(S.others[e.j].key + "\n" + S.others[e.j].c + "\n" + S.others[e.j].r + "\n");
			expect = true;
			ret = L.v->KeyGenerationProtocol_UpdateKey(in);
			if (ret) L.ref.present.insert(e.j);
		}
		else if (e.k == 'D')
		{
			// the SAME valid contribution of a player whose key is already stored arrives once more (duplicate delivery, replay).
			// The property does not say whether it is accepted; three behaviours satisfy it and the reference follows the one it
			// sees: refused and nothing changes; accepted and nothing changes (idempotent); accepted and the key is multiplied in
			// once more (what the pinned library does - the key map still holds it once, a later removal divides once).
			std::stringstream in(S.others[e.j].key + "\n" + S.others[e.j].c + "\n" + S.others[e.j].r + "\n");
			ret = L.v->KeyGenerationProtocol_UpdateKey(in);
			expect = ret;
			if (ret && canon(L) != before) L.ref.extra.insert(e.j);
		}
		else if (e.k == 'O')
		{
			// the player's own published contribution comes back (self-delivery on a broadcast channel / replay): on this
			// library it is an ordinary valid contribution, accepted once and then part of the product
			std::stringstream pk;
			mcenv::CoinSource cs(seed, 123);
			mcenv::cur = &cs;
			L.v->KeyGenerationProtocol_PublishKey(pk);
			mcenv::cur = nullptr;
			ret = L.v->KeyGenerationProtocol_UpdateKey(pk);
			// the property does not say whether a player must accept its own key again: either verdict is fine, but a
			// refusal must leave the key set unchanged and an acceptance must multiply the key in (both checked below)
			expect = ret;
			if (ret) L.ref.own_echo = true;
		}
		else if (e.k == 'X')
		{
			std::stringstream in(mutate(S, e.j, e.m));
			expect = false;
			ret = L.v->KeyGenerationProtocol_UpdateKey(in);
			what += std::string(" [") + MUTNAME[e.m] + "]";
		}
		else if (e.k == 'R')
		{
			std::stringstream in(S.others[e.j].key + "\n" + S.others[e.j].c + "\n" + S.others[e.j].r + "\n");
			expect = L.ref.present.count(e.j) > 0;
			ret = L.v->KeyGenerationProtocol_RemoveKey(in);
			if (ret) L.ref.present.erase(e.j);
		}
		else if (e.k == 'U')
		{
			// a key nobody contributed: g^12345
			mpz_t t; mpz_init(t); mpz_powm_ui(t, S.g, 12345, S.p);
			std::stringstream in(zs(t) + "\n1\n1\n");
			mpz_clear(t);
			expect = false;
			ret = L.v->KeyGenerationProtocol_RemoveKey(in);
		}
		else if (e.k == 'F')
		{
			L.v->KeyGenerationProtocol_Finalize();
			L.ref.finalized = true;
			expect = ret = true;
			// masking after Finalize uses the final key: c_2 = m * h^r
			mcenv::CoinSource cs(seed, 99);
			mcenv::cur = &cs;
			mpz_t m, c1, c2, r, want;
			mpz_init(m), mpz_init(c1), mpz_init(c2), mpz_init(r), mpz_init(want);
			L.v->IndexElement(m, 5);
			L.v->VerifiableMaskingProtocol_Mask(m, c1, c2, r);
			mcenv::cur = nullptr;
			mpz_powm(want, L.v->h, r, S.p), mpz_mul(want, want, m), mpz_mod(want, want, S.p);
			if (mpz_cmp(want, c2) && L.fail.empty()) L.fail = "mask after Finalize does not use the final common key";
			mpz_powm(want, S.g, r, S.p);
			if (mpz_cmp(want, c1) && L.fail.empty()) L.fail = "mask after Finalize: c_1 != g^r";
			mpz_clear(m), mpz_clear(c1), mpz_clear(c2), mpz_clear(r), mpz_clear(want);
		}
	}
	catch (std::exception &ex)
	{
		// a std::exception is an acceptable way to refuse malformed input; for valid input it is a failure
		threw = true;
		ret = false;
		if (expect && L.fail.empty()) L.fail = what + " threw " + ex.what();
	}
	if (L.fail.empty() && ret != expect)
		L.fail = what + " returned " + str(ret) + " but the reference " + (expect ? "accepts" : "refuses") + " it";
	if (L.fail.empty() && !ret && e.k != 'F' && canon(L) != before)
		L.fail = what + " was refused but changed the state";
	(void)threw;
	expect_h(S, L, "after " + what);
}

static Live *build(const Setup &S, const std::vector<Ev> &h, uint64_t seed)
{
	Live *L = new Live();
	L->v = make_instance(S, seed);
	L->ref.finalized = false, L->ref.own_echo = false;
	for (size_t i = 0; i < h.size() && L->fail.empty(); i++) apply(S, *L, h[i], seed);
	return L;
}

static void explore(const Setup &S, const std::string &cell, uint64_t seed, size_t max_depth)
{
	std::set<std::string> seen;
	std::deque<std::vector<Ev> > frontier;
	std::map<std::string, std::string> state_of_set;   // reference set (+finalized) -> canonical state: must be a function
	{
		Live *L0 = build(S, std::vector<Ev>(), seed);
		seen.insert(canon(*L0));
		delete L0->v; delete L0;
	}
	frontier.push_back(std::vector<Ev>());
	uint64_t states = 1, transitions = 0, refused = 0;
	size_t k = S.others.size();
	while (!frontier.empty())
	{
		std::vector<Ev> h = frontier.front();
		frontier.pop_front();
		if (h.size() >= max_depth) continue;
		// enabled events
		Live *cur = build(S, h, seed);
		std::vector<Ev> en;
		for (size_t j = 0; j < k; j++)
		{
			if (!cur->ref.present.count(j)) en.push_back(Ev{'A', (int)j, 0});
			else if (cur->ref.extra.empty()) en.push_back(Ev{'D', (int)j, 0});   // at most one duplicate per history keeps the space finite
			en.push_back(Ev{'R', (int)j, 0});
			for (int m = 0; m < NMUT; m++) en.push_back(Ev{'X', (int)j, m});
		}
		en.push_back(Ev{'U', 0, 0});
		if (!cur->ref.own_echo) en.push_back(Ev{'O', 0, 0});
		en.push_back(Ev{'F', 0, 0});
		delete cur->v; delete cur;
		for (size_t i = 0; i < en.size(); i++)
		{
			std::vector<Ev> h2 = h;
			h2.push_back(en[i]);
			Live *L = build(S, h2, seed);
			transitions++;
			R->ok(en[i].k != 'U');
			if (en[i].k == 'X' || en[i].k == 'U') refused++;
			if (!L->fail.empty())
			{
				R->viol(std::string("keyset/") + (en[i].k == 'A' ? "add" : en[i].k == 'D' ? "duplicate" : en[i].k == 'O' ? "own-echo" : en[i].k == 'X' ? std::string("accepts-malformed/") + MUTNAME[en[i].m] : en[i].k == 'R' ? "remove" : en[i].k == 'U' ? "remove-unknown" : "finalize"),
					L->fail + " ; history: " + hist_str(h2), cell);
				delete L->v; delete L;
				R->counters["states"] += states, R->counters["transitions"] += transitions;
				return;
			}
			std::string c = canon(*L);
			// differential oracle: the state is a function of the accepted set (add-then-remove == never added)
			std::string skey;
			for (std::set<int>::iterator q = L->ref.present.begin(); q != L->ref.present.end(); ++q) skey += str(*q) + ",";
			skey += "x";
			for (std::set<int>::iterator q = L->ref.extra.begin(); q != L->ref.extra.end(); ++q) skey += str(*q) + ",";
			skey += L->ref.finalized ? "F" : "-";
			skey += L->ref.own_echo ? "O" : "-";
			if (state_of_set.count(skey) && state_of_set[skey] != c)
				R->viol("keyset/state-depends-on-history", "two histories with the same accepted set reach different states; history: " + hist_str(h2), cell);
			state_of_set[skey] = c;
			delete L->v; delete L;
			if (seen.insert(c).second)
			{
				states++;
				frontier.push_back(h2);
			}
		}
	}
	R->counters["states"] += states, R->counters["transitions"] += transitions;
	R->counters["traces_validated_against_impl"] += transitions;
	R->counters["refusals_checked"] += refused;
	R->sample(cell, "states=" + str(states) + " transitions=" + str(transitions) + " (every event from every reachable state)");
}

static void make_setup(Setup &S, int kind, size_t k, unsigned long psize, unsigned long qsize, uint64_t seed)
{
	S.kind = kind, S.psize = psize, S.qsize = qsize;
	mcenv::CoinSource cs(seed, 5 + kind);
	mcenv::cur = &cs;
	BarnettSmartVTMF_dlog *gen;
	if (kind == 2) gen = new BarnettSmartVTMF_dlog_GroupQR(psize, qsize);
	else gen = new BarnettSmartVTMF_dlog(psize, qsize, kind == 1, true);
	std::stringstream gs;
	gen->PublishGroup(gs);
	S.group = gs.str();
	mpz_init_set(S.p, gen->p), mpz_init_set(S.q, gen->q), mpz_init_set(S.g, gen->g);
	delete gen;
	for (size_t j = 0; j < k; j++)
	{
		std::stringstream g2(S.group);
		BarnettSmartVTMF_dlog *o;
		if (kind == 2) o = new BarnettSmartVTMF_dlog_GroupQR(g2, psize, qsize);
		else o = new BarnettSmartVTMF_dlog(g2, psize, qsize, kind == 1, true);
		o->KeyGenerationProtocol_GenerateKey();
		std::stringstream pk;
		o->KeyGenerationProtocol_PublishKey(pk);
		Contribution C;
		std::getline(pk, C.key), std::getline(pk, C.c), std::getline(pk, C.r);
		mpz_init_set(C.hj, o->h_i);
		C.x = zs(o->x_i);
		S.others.push_back(C);
		delete o;
	}
	mcenv::cur = nullptr;
}

// The largest admissible game: TMCG_MAX_PLAYERS - 1 other players.  No branching here (2^31 subsets): every ROTATION of the
// processing order and the reversed order; every contribution must be accepted, the key must equal the product after every
// step, and removing all keys again (in another rotation) must lead back to the own key.
static void maxplayers(const Setup &S, const std::string &cell, uint64_t seed)
{
	const size_t k = S.others.size();
	uint64_t transitions = 0;
	for (size_t rot = 0; rot <= k; rot++)
	{
		Live *L = new Live();
		L->v = make_instance(S, seed);
		L->ref.finalized = false, L->ref.own_echo = false;
		std::vector<Ev> h;
		for (size_t s = 0; s < k && L->fail.empty(); s++)
		{
			size_t j = rot == k ? k - 1 - s : (s + rot) % k;
			h.push_back(Ev{'A', (int)j, 0});
			apply(S, *L, h.back(), seed);
			transitions++;
			R->ok(true);
		}
		for (size_t s = 0; s < k && L->fail.empty(); s++)
		{
			size_t j = (s + 2 * rot + 7) % k;
			h.push_back(Ev{'R', (int)j, 0});
			apply(S, *L, h.back(), seed);
			transitions++;
			R->ok(true);
		}
		if (L->fail.empty() && mpz_cmp(L->v->h, L->v->h_i)) L->fail = "after removing every key the common key is not the own key";
		if (!L->fail.empty())
			R->viol("keyset/maxplayers", L->fail + " ; history: " + hist_str(h), cell);
		delete L->v; delete L;
	}
	R->counters["transitions"] += transitions, R->counters["traces_validated_against_impl"] += transitions;
	R->counters["states"] += (k + 1) * 2 * k;
	R->sample(cell, str(k) + " other players: " + str(k + 1) + " processing orders (every rotation and the reversed order), add all, remove all");
}

int main(int argc, char **argv)
{
	Args A = parse(argc, argv);
	Report rep(A);
	R = &rep;
	if (!init_libTMCG()) return 2;
	mcenv::hash_cache = true;
	MuteCerr mute;
	bool th = A.tier == "thorough";
	uint64_t seed = mcenv::env_seed();
	const char *KN[3] = {"schnorr-random-g", "schnorr-canonical-g", "qr-shortened-exponents"};
	for (int kind = 0; kind < 3; kind++)
		for (size_t k = 2; k <= (th ? 5u : 3u); k++)
			for (int sz = 0; sz < (th ? 2 : 1); sz++)
			{
				unsigned long psize = sz ? 1024 : 384, qsize = sz ? 256 : 192;
				std::string cell = std::string("keyset:") + KN[kind] + ",k=" + str(k) + ",p=" + str(psize);
				if (!rep.mine() || !rep.selected(cell)) continue;
				if (rep.out_of_time()) break;
				if (sz && k > 3) continue;
				Setup S;
				make_setup(S, kind, k, psize, kind == 2 ? qsize : qsize, seed);
				explore(S, cell, seed, k + 4);
			}
	for (int kind = 0; kind < 3; kind++)
	{
		std::string cell = std::string("maxplayers:") + KN[kind] + ",k=" + str(TMCG_MAX_PLAYERS - 1);
		if (!rep.mine() || !rep.selected(cell)) continue;
		if (rep.out_of_time()) break;
		Setup S;
		make_setup(S, kind, TMCG_MAX_PLAYERS - 1, 384, 192, seed);
		maxplayers(S, cell, seed);
	}
	rep.bound = th ? "k<=5 others, depth k+4, 18 mutations per contribution, one duplicate per history; 31 others: every rotation of the order" : "k<=3 others, depth k+4, 18 mutations per contribution, one duplicate per history; 31 others: every rotation of the order";
	rep.nontrivial = rep.counters["states"];
	rep.finish();
	return 0;
}
