// C09 — arithmetic primitives agree with their mathematical definition.
// Exhaustive enumeration over small moduli / primes / point sets / start values (DESIGN.md C09).
// Families: pow fpow sqrtp sqrtn interp conv primes bigint
#include "drv.hh"
#include <libTMCG.hh>
#include <gmp.h>
#include <algorithm>

using namespace drv;

static Report *R;
static std::string family;

static std::string zs(mpz_srcptr z) { char *s = mpz_get_str(NULL, 10, z); std::string r(s); free(s); return r; }
static void emit_ref(const char *kind, const std::vector<std::string> &a, const std::string &got)
{
	printf("{\"t\":\"ref\",\"kind\":\"%s\",\"a\":[", kind);
	for (size_t i = 0; i < a.size(); i++)
		printf("%s\"%s\"", i ? "," : "", a[i].c_str());
	printf("],\"got\":\"%s\"}\n", got.c_str());
}

// reference: plain modular exponentiation with explicit inversion for negative exponents
static bool ref_pow(mpz_ptr r, mpz_srcptr b, mpz_srcptr e, mpz_srcptr m)
{
	if (mpz_sgn(e) >= 0)
	{
		mpz_powm(r, b, e, m);
		return true;
	}
	mpz_t inv, ne;
	mpz_init(inv), mpz_init(ne);
	bool ok = mpz_invert(inv, b, m) != 0;
	if (ok)
	{
		mpz_neg(ne, e);
		mpz_powm(r, inv, ne, m);
	}
	mpz_clear(inv), mpz_clear(ne);
	return ok;
}

// ---------------------------------------------------------------- pow
static void fam_pow(unsigned long mmax)
{
	mpz_t m, b, e, r, want;
	mpz_init(m), mpz_init(b), mpz_init(e), mpz_init(r), mpz_init(want);
	uint64_t refc = 0;
	for (unsigned long mi = 3; mi < mmax; mi += 2)
	{
		std::string cid = "pow:m=" + str(mi);
		if (!R->mine() || !R->selected(cid))
			continue;
		if (R->out_of_time())
			break;
		mpz_set_ui(m, mi);
		for (unsigned long bi = 1; bi < mi; bi++)
		{
			mpz_set_ui(b, bi);
			if (mpz_gcd_ui(NULL, b, mi) != 1)
				continue;
			tmcg_mpz_spowm_init(b, m); // Kocher: fixed exponent := b (reuse loop var), several messages
			for (unsigned long k = 1; k < mi && k < 6; k++)
			{
				mpz_set_ui(e, k);
				if (mpz_gcd_ui(NULL, e, mi) != 1)
					continue;
				tmcg_mpz_spowm_calc(r, e);
				mpz_powm(want, e, b, m);
				R->ok();
				if (mpz_cmp(r, want))
					R->viol("pow/spowm_calc", "m=" + str(mi) + " x=" + str(bi) + " msg=" + str(k) + " got=" + zs(r) + " want=" + zs(want), cid);
			}
			tmcg_mpz_spowm_clear();
			for (long ei = -(long)(mi + 2); ei <= (long)(mi + 2); ei++)
			{
				mpz_set_si(e, ei);
				ref_pow(want, b, e, m);
				for (int v = 0; v < 2; v++)
				{
					const char *nm = v ? "spowm_baseblind" : "spowm";
					bool threw = false;
					try
					{
						if (v)
						{
							if (ei < 0)
								continue; // baseblind is documented through mpz_powm only; negative handled by GMP identically
							tmcg_mpz_spowm_baseblind(r, b, e, m);
						}
						else
							tmcg_mpz_spowm(r, b, e, m);
					}
					catch (std::exception &ex) { threw = true; }
					R->ok(bi != 1 && ei != 0 && ei != 1);
					if (threw || mpz_cmp(r, want))
						R->viol(std::string("pow/") + nm, "m=" + str(mi) + " b=" + str(bi) + " e=" + str(ei) + " got=" + (threw ? "exception" : zs(r)) + " want=" + zs(want), cid);
					else if ((refc++ % 997) == 0)
						emit_ref("powm", {zs(b), zs(e), zs(m)}, zs(r));
				}
			}
		}
		R->sample(cid, "all coprime bases x exponents -(m+2)..(m+2)");
	}
	mpz_clear(m), mpz_clear(b), mpz_clear(e), mpz_clear(r), mpz_clear(want);
}

// ---------------------------------------------------------------- fpow (table based)
static void fpow_check(mpz_t *tab, mpz_srcptr b, mpz_srcptr e, mpz_srcptr m, const std::string &cid, const std::string &ctx, bool expect_throw)
{
	mpz_t r, want;
	mpz_init(r), mpz_init(want);
	ref_pow(want, b, e, m);
	for (int v = 0; v < 4; v++)
	{
		bool threw = false;
		try
		{
			// v >= 2: result variable aliases the exponent (the library itself calls it that way)
			if (v >= 2) mpz_set(r, e);
			if (v == 1) tmcg_mpz_fspowm(tab, r, b, e, m); else if (v == 0) tmcg_mpz_fpowm(tab, r, b, e, m);
			else if (v == 3) tmcg_mpz_fspowm(tab, r, b, r, m); else tmcg_mpz_fpowm(tab, r, b, r, m);
		}
		catch (std::exception &ex) { threw = true; }
		R->ok();
		const char *nm = v == 1 ? "fpow/fspowm" : (v == 0 ? "fpow/fpowm" : (v == 3 ? "fpow/fspowm/aliased" : "fpow/fpowm/aliased"));
		if (expect_throw)
		{
			if (!threw)
				R->viol(std::string(nm) + "/nothrow", ctx + " e=" + zs(e) + " expected refusal (exponent beyond table limit)", cid);
		}
		else if (threw || mpz_cmp(r, want))
			R->viol(nm, ctx + " e=" + zs(e) + " got=" + (threw ? "exception" : zs(r)) + " want=" + zs(want), cid);
	}
	mpz_clear(r), mpz_clear(want);
}

static void fam_fpow(unsigned long mmax)
{
	mpz_t *tab = new mpz_t[TMCG_MAX_FPOWM_T];
	tmcg_mpz_fpowm_init(tab);
	mpz_t m, b, e, r, want, other;
	mpz_init(m), mpz_init(b), mpz_init(e), mpz_init(r), mpz_init(want), mpz_init(other);
	for (unsigned long mi = 3; mi < mmax; mi += 2)
	{
		std::string cid = "fpow:m=" + str(mi);
		if (!R->mine() || !R->selected(cid))
			continue;
		if (R->out_of_time())
			break;
		mpz_set_ui(m, mi);
		size_t bits = mpz_sizeinbase(m, 2);
		for (unsigned long bi = 1; bi < mi; bi++)
		{
			mpz_set_ui(b, bi);
			if (mpz_gcd_ui(NULL, b, mi) != 1)
				continue;
			// table long enough for all exponents used below: |m+2| <= bits+1
			tmcg_mpz_fpowm_precompute(tab, b, m, bits + 2);
			std::string ctx = "m=" + str(mi) + " b=" + str(bi);
			for (long ei = -(long)(mi + 2); ei <= (long)(mi + 2); ei++)
			{
				mpz_set_si(e, ei);
				fpow_check(tab, b, e, m, cid, ctx, false);
				if (ei >= 0)
				{
					bool threw = false;
					try { tmcg_mpz_fpowm_ui(tab, r, b, (unsigned long)ei, m); } catch (std::exception &ex) { threw = true; }
					ref_pow(want, b, e, m);
					R->ok();
					if (threw || mpz_cmp(r, want))
						R->viol("fpow/fpowm_ui", ctx + " e=" + str(ei) + " got=" + (threw ? "exception" : zs(r)), cid);
				}
			}
			// foreign base must be refused
			mpz_set_ui(other, (bi % (mi - 1)) + 1);
			if (mpz_cmp(other, b))
			{
				mpz_set_ui(e, 3);
				for (int v = 0; v < 3; v++)
				{
					bool threw = false;
					try
					{
						if (v == 0) tmcg_mpz_fpowm(tab, r, other, e, m);
						else if (v == 1) tmcg_mpz_fspowm(tab, r, other, e, m);
						else tmcg_mpz_fpowm_ui(tab, r, other, 3UL, m);
					}
					catch (std::exception &ex) { threw = true; }
					R->ok();
					if (!threw)
						R->viol("fpow/foreign-base", ctx + " other=" + zs(other) + " variant=" + str(v) + " not refused", cid);
				}
			}
		}
		R->sample(cid, "table t=|m|+2; all coprime bases x exponents; foreign base refused");
	}
	// table-limit cases: full table, exponents of exactly T-1, T, T+1 bits, bits set at both ends
	if (R->selected("fpow:limit") && R->mine())
	{
		std::string cid = "fpow:limit";
		const unsigned long mods[] = {1000003UL, 4294967291UL, 2147483659UL};
		for (unsigned mi = 0; mi < 3; mi++)
		{
			mpz_set_ui(m, mods[mi]);
			for (unsigned long bi = 2; bi < 6; bi++)
			{
				mpz_set_ui(b, bi);
				tmcg_mpz_fpowm_precompute(tab, b, m, TMCG_MAX_FPOWM_T);
				std::string ctx = "m=" + str(mods[mi]) + " b=" + str(bi) + " t=MAX";
				for (long db = -2; db <= 1; db++)
				{
					size_t nb = TMCG_MAX_FPOWM_T + db; // number of bits of the exponent
					for (int pat = 0; pat < 3; pat++)
					{
						mpz_set_ui(e, 1), mpz_mul_2exp(e, e, nb - 1); // top bit
						if (pat == 1) mpz_add_ui(e, e, 1);
						if (pat == 2) { mpz_mul_2exp(e, e, 1); mpz_sub_ui(e, e, 1); mpz_tdiv_q_2exp(e, e, 1); mpz_setbit(e, nb - 1); mpz_setbit(e, nb - 2); mpz_setbit(e, 0); }
						for (int sg = 0; sg < 2; sg++)
						{
							if (sg) mpz_neg(e, e);
							fpow_check(tab, b, e, m, cid, ctx + " bits=" + str(nb), nb > TMCG_MAX_FPOWM_T);
						}
						mpz_abs(e, e);
					}
				}
			}
		}
		// fpowm_ui with exponents over the whole unsigned long range (2^k-1, 2^k, 2^k+1 for k = 0..63, ULONG_MAX)
		for (unsigned mi = 0; mi < 3; mi++)
		{
			mpz_set_ui(m, mods[mi]);
			mpz_set_ui(b, 3 + mi);
			tmcg_mpz_fpowm_precompute(tab, b, m, TMCG_MAX_FPOWM_T);
			for (unsigned k = 0; k < 64; k++)
				for (int d = -1; d <= 1; d++)
				{
					unsigned long ex = (1UL << k) + (unsigned long)d;
					if (k == 0 && d < 0) ex = ~0UL;
					bool threw = false;
					try { tmcg_mpz_fpowm_ui(tab, r, b, ex, m); } catch (std::exception &x) { threw = true; }
					mpz_powm_ui(want, b, ex, m);
					R->ok();
					if (threw || mpz_cmp(r, want))
						R->viol("fpow/fpowm_ui/large-exponent", "m=" + str(mods[mi]) + " b=" + zs(b) + " e=" + str(ex) + " got=" + (threw ? "exception" : zs(r)) + " want=" + zs(want), cid);
				}
		}
		R->sample(cid, "exponents of T-2..T+1 bits on a full table (T=TMCG_MAX_FPOWM_T); fpowm_ui over the whole unsigned long range");
	}
	mpz_clear(m), mpz_clear(b), mpz_clear(e), mpz_clear(r), mpz_clear(want), mpz_clear(other);
	tmcg_mpz_fpowm_done(tab);
	delete [] tab;
}

// ---------------------------------------------------------------- square roots modulo primes
static bool is_prime_ul(unsigned long n)
{
	if (n < 2) return false;
	for (unsigned long d = 2; d * d <= n; d++)
		if (n % d == 0) return false;
	return true;
}

static void fam_sqrtp(unsigned long pmax)
{
	mpz_t p, a, r, sq, nqr, pa1d4, ps1d4, pa3d8, nqr_ps1d4;
	mpz_init(p), mpz_init(a), mpz_init(r), mpz_init(sq), mpz_init(nqr), mpz_init(pa1d4), mpz_init(ps1d4), mpz_init(pa3d8), mpz_init(nqr_ps1d4);
	uint64_t refc = 0;
	for (unsigned long pi = 3; pi < pmax; pi += 2)
	{
		if (!is_prime_ul(pi))
			continue;
		std::string cid = "sqrtp:p=" + str(pi);
		if (!R->mine() || !R->selected(cid))
			continue;
		if (R->out_of_time())
			break;
		mpz_set_ui(p, pi);
		// precomputation for the fast variant exactly as TMCG_SecretKey does it
		mpz_set_ui(nqr, 2);
		while (mpz_jacobi(nqr, p) != -1) mpz_add_ui(nqr, nqr, 1);
		mpz_add_ui(pa1d4, p, 1), mpz_fdiv_q_2exp(pa1d4, pa1d4, 2);
		mpz_sub_ui(ps1d4, p, 1), mpz_fdiv_q_2exp(ps1d4, ps1d4, 2);
		mpz_add_ui(pa3d8, p, 3), mpz_fdiv_q_2exp(pa3d8, pa3d8, 3);
		mpz_powm(nqr_ps1d4, nqr, ps1d4, p);
		// all non-residues as answers to the randomized non-residue search
		std::vector<unsigned long> nonres;
		for (unsigned long x = 2; x < pi && nonres.size() < 3; x++)
		{
			mpz_set_ui(a, x);
			if (mpz_jacobi(a, p) == -1) nonres.push_back(x);
		}
		if (pi > 3) { // also the largest non-residue
			for (unsigned long x = pi - 1; x > 1; x--) { mpz_set_ui(a, x); if (mpz_jacobi(a, p) == -1) { nonres.push_back(x); break; } }
		}
		for (unsigned long ai = 1; ai < pi; ai++)
		{
			mpz_set_ui(a, ai);
			if (mpz_jacobi(a, p) != 1)
				continue;
			for (int v = 0; v < 2 + (int)nonres.size(); v++)
			{
				const char *nm = v == 0 ? "sqrtmp" : (v == 1 ? "sqrtmp_fast" : "sqrtmp_r");
				mcenv::CoinSource cs(1, 0);
				if (v >= 2)
				{
					// steer the non-residue draw of the randomized variant: first answer = a residue (forces one retry), then the chosen non-residue
					unsigned long nr = nonres[v - 2];
					int *cnt = new int(0);
					cs.steer = [nr, cnt](unsigned char *buf, size_t len, int, uint64_t) {
						memset(buf, 0, len);
						unsigned long val = ((*cnt)++ == 0) ? 1UL : nr;
						for (size_t i = 0; i < 8 && i < len; i++) buf[len - 1 - i] = (unsigned char)(val >> (8 * i));
						return true;
					};
					mcenv::cur = &cs;
				}
				bool threw = false;
				try
				{
					if (v == 0) tmcg_mpz_sqrtmp(r, a, p);
					else if (v == 1) tmcg_mpz_sqrtmp_fast(r, a, p, nqr, pa1d4, ps1d4, pa3d8, nqr_ps1d4);
					else tmcg_mpz_sqrtmp_r(r, a, p);
				}
				catch (std::exception &ex) { threw = true; }
				mcenv::cur = nullptr;
				mpz_mul(sq, r, r), mpz_mod(sq, sq, p);
				R->ok();
				if (threw || mpz_cmp(sq, a))
					R->viol(std::string("sqrtp/") + nm, "p=" + str(pi) + " (p mod 8=" + str(pi % 8) + ") a=" + str(ai) + " root=" + (threw ? "exception" : zs(r)), cid);
				else if ((refc++ % 2003) == 0)
					emit_ref("sqrt", {zs(a), zs(p)}, zs(r));
			}
		}
		if (pi % 8 == 1 || pi < 20)
			R->sample(cid, "all quadratic residues; sqrtmp, sqrtmp_fast, sqrtmp_r with steered non-residue draws; p mod 8 = " + str(pi % 8));
	}
	mpz_clear(p), mpz_clear(a), mpz_clear(r), mpz_clear(sq), mpz_clear(nqr), mpz_clear(pa1d4), mpz_clear(ps1d4), mpz_clear(pa3d8), mpz_clear(nqr_ps1d4);
}

// ---------------------------------------------------------------- square roots modulo n = p q
static void fam_sqrtn(unsigned long pmax_any, unsigned long pmax_blum)
{
	mpz_t p, q, n, a, r, sq, r1, r2, r3, r4, g, u, v, up, vq, pa1d4, qa1d4;
	mpz_init(p), mpz_init(q), mpz_init(n), mpz_init(a), mpz_init(r), mpz_init(sq), mpz_init(r1), mpz_init(r2), mpz_init(r3), mpz_init(r4);
	mpz_init(g), mpz_init(u), mpz_init(v), mpz_init(up), mpz_init(vq), mpz_init(pa1d4), mpz_init(qa1d4);
	unsigned long lim = std::max(pmax_any, pmax_blum);
	for (unsigned long pi = 3; pi < lim; pi += 2)
	{
		if (!is_prime_ul(pi)) continue;
		for (unsigned long qi = pi + 2; qi < lim; qi += 2)
		{
			if (!is_prime_ul(qi)) continue;
			bool blum = (pi % 4 == 3) && (qi % 4 == 3);
			bool in_any = pi < pmax_any && qi < pmax_any;
			bool in_blum = blum && pi < pmax_blum && qi < pmax_blum;
			if (!in_any && !in_blum) continue;
			std::string cid = "sqrtn:p=" + str(pi) + ",q=" + str(qi);
			if (!R->mine() || !R->selected(cid)) continue;
			if (R->out_of_time()) goto done;
			mpz_set_ui(p, pi), mpz_set_ui(q, qi), mpz_mul(n, p, q);
			if (blum)
			{
				// precomputation as in TMCG_SecretKey
				mpz_gcdext(g, u, v, p, q);
				mpz_mul(up, u, p), mpz_mul(vq, v, q);
				mpz_add_ui(pa1d4, p, 1), mpz_fdiv_q_2exp(pa1d4, pa1d4, 2);
				mpz_add_ui(qa1d4, q, 1), mpz_fdiv_q_2exp(qa1d4, qa1d4, 2);
			}
			unsigned long ni = pi * qi;
			for (unsigned long ai = 1; ai < ni; ai++)
			{
				mpz_set_ui(a, ai);
				if (ai % pi == 0 || ai % qi == 0) continue;
				int isqr = (mpz_jacobi(a, p) == 1) && (mpz_jacobi(a, q) == 1);
				// brute-force free reference for residuosity: Euler criterion via mpz_powm
				R->ok();
				if (tmcg_mpz_qrmn_p(a, p, q) != isqr)
					R->viol("sqrtn/qrmn_p", cid + " a=" + str(ai), cid);
				if (!isqr) continue;
				for (int var = 0; var < 6; var++)
				{
					if (!blum && var >= 4) continue;
					bool threw = false, all = false;
					const char *nm = "";
					try
					{
						switch (var)
						{
							case 0: nm = "sqrtmn"; tmcg_mpz_sqrtmn(r, a, p, q, n); break;
							case 1: nm = "sqrtmn_r"; tmcg_mpz_sqrtmn_r(r, a, p, q, n); break;
							case 2: nm = "sqrtmn_all"; all = true; tmcg_mpz_sqrtmn_all(r1, r2, r3, r4, a, p, q, n); break;
							case 3: nm = "sqrtmn_r_all"; all = true; tmcg_mpz_sqrtmn_r_all(r1, r2, r3, r4, a, p, q, n); break;
							case 4: nm = "sqrtmn_fast"; tmcg_mpz_sqrtmn_fast(r, a, p, q, n, up, vq, pa1d4, qa1d4); break;
							case 5: nm = "sqrtmn_fast_all"; all = true; tmcg_mpz_sqrtmn_fast_all(r1, r2, r3, r4, a, p, q, n, up, vq, pa1d4, qa1d4); break;
						}
					}
					catch (std::exception &ex) { threw = true; }
					R->ok();
					bool bad = threw;
					std::string detail;
					if (!threw && !all)
					{
						mpz_mul(sq, r, r), mpz_mod(sq, sq, n);
						bad = mpz_cmp(sq, a) != 0 || mpz_sgn(r) < 0 || mpz_cmp(r, n) >= 0;
						detail = "root=" + zs(r);
					}
					else if (!threw)
					{
						mpz_ptr rs[4] = {r1, r2, r3, r4};
						std::set<std::string> distinct;
						for (int k = 0; k < 4; k++)
						{
							mpz_mul(sq, rs[k], rs[k]), mpz_mod(sq, sq, n);
							if (mpz_cmp(sq, a)) bad = true;
							mpz_mod(sq, rs[k], n);
							distinct.insert(zs(sq));
						}
						if (distinct.size() != 4) bad = true;
						detail = "roots=" + zs(r1) + "," + zs(r2) + "," + zs(r3) + "," + zs(r4);
					}
					if (bad)
						R->viol(std::string("sqrtn/") + nm, cid + " a=" + str(ai) + " " + (threw ? "exception" : detail), cid);
				}
			}
			if (pi < 8) R->sample(cid, blum ? "Blum modulus: all residues, 6 variants, four distinct roots" : "odd prime product: all residues, 4 variants");
		}
	}
done:
	mpz_clear(p), mpz_clear(q), mpz_clear(n), mpz_clear(a), mpz_clear(r), mpz_clear(sq), mpz_clear(r1), mpz_clear(r2), mpz_clear(r3), mpz_clear(r4);
	mpz_clear(g), mpz_clear(u), mpz_clear(v), mpz_clear(up), mpz_clear(vq), mpz_clear(pa1d4), mpz_clear(qa1d4);
}

// ---------------------------------------------------------------- interpolation
static void interp_one(const std::vector<unsigned long> &xs, const std::vector<unsigned long> &ys, unsigned long qi, const std::string &cid)
{
	size_t m = xs.size();
	std::vector<mpz_ptr> a, b, f;
	for (size_t i = 0; i < m; i++)
	{
		mpz_ptr t1 = new mpz_t(), t2 = new mpz_t(), t3 = new mpz_t();
		mpz_init_set_ui(t1, xs[i]), mpz_init_set_ui(t2, ys[i]), mpz_init_set_ui(t3, 424242);
		a.push_back(t1), b.push_back(t2), f.push_back(t3);
	}
	mpz_t q, acc, pw;
	mpz_init_set_ui(q, qi), mpz_init(acc), mpz_init(pw);
	bool collide = false;
	for (size_t i = 0; i < m; i++)
		for (size_t j = i + 1; j < m; j++)
			if (xs[i] % qi == xs[j] % qi) collide = true;
	bool threw = false, ret = false;
	try { ret = tmcg_interpolate_polynom(a, b, q, f); } catch (std::exception &ex) { threw = true; }
	R->ok();
	std::string ctx = "q=" + str(qi) + " pts=";
	for (size_t i = 0; i < m; i++) ctx += "(" + str(xs[i]) + "," + str(ys[i]) + ")";
	if (threw)
		R->viol("interp/exception", ctx, cid);
	else if (collide)
	{
		if (ret) R->viol("interp/collision-accepted", ctx, cid);
	}
	else if (!ret)
		R->viol("interp/refused", ctx, cid);
	else
	{
		for (size_t i = 0; i < m; i++)
		{
			// Horner evaluation of f at xs[i]
			mpz_set_ui(acc, 0);
			for (size_t k = m; k-- > 0;)
			{
				mpz_mul_ui(acc, acc, xs[i]);
				mpz_add(acc, acc, f[k]);
				mpz_mod(acc, acc, q);
			}
			if (mpz_cmp_ui(acc, ys[i] % qi))
			{
				R->viol("interp/value", ctx + " f(" + str(xs[i]) + ")=" + zs(acc), cid);
				break;
			}
		}
		for (size_t k = 0; k < m; k++)
			if (mpz_sgn(f[k]) < 0 || mpz_cmp(f[k], q) >= 0)
				R->viol("interp/range", ctx + " coefficient " + str(k) + "=" + zs(f[k]), cid);
	}
	for (size_t i = 0; i < m; i++)
	{
		mpz_clear(a[i]), mpz_clear(b[i]), mpz_clear(f[i]);
		delete a[i]; delete b[i]; delete f[i];
	}
	mpz_clear(q), mpz_clear(acc), mpz_clear(pw);
}

static void fam_interp(bool thorough)
{
	const unsigned long qs[] = {5, 7, 11, 13};
	int nq = thorough ? 4 : 3;
	// all point sets of size <= 3 over Z_q (abscissae and ordinates in 0..q-1), colliding ones included
	for (int qi = 0; qi < nq; qi++)
	{
		unsigned long q = qs[qi];
		for (size_t m = 1; m <= 3; m++)
		{
			std::string cid = "interp:q=" + str(q) + ",m=" + str(m);
			if (!R->mine() || !R->selected(cid)) continue;
			unsigned long total = 1;
			for (size_t i = 0; i < 2 * m; i++) total *= q;
			for (unsigned long code = 0; code < total; code++)
			{
				std::vector<unsigned long> xs(m), ys(m);
				unsigned long c = code;
				for (size_t i = 0; i < m; i++) { xs[i] = c % q; c /= q; ys[i] = c % q; c /= q; }
				interp_one(xs, ys, q, cid);
			}
			R->sample(cid, "all q^(2m) point sets incl. colliding abscissae");
		}
	}
	// all subsets (in every size 1..8... as ordered prefixes of permuted 1..8) with ordinates from {0,1,q-1}
	{
		unsigned long q = 11;
		for (size_t m = 4; m <= (thorough ? 8 : 6); m++)
		{
			std::string cid = "interp:q=11,abscissae=1..8,m=" + str(m);
			if (!R->mine() || !R->selected(cid)) continue;
			// every m-subset of {1..8} in ascending and descending order, every ordinate vector over {0,1,q-1}
			for (unsigned mask = 0; mask < 256; mask++)
			{
				if ((size_t)__builtin_popcount(mask) != m) continue;
				std::vector<unsigned long> xs;
				for (int i = 0; i < 8; i++) if (mask & (1 << i)) xs.push_back(i + 1);
				unsigned long total = 1;
				for (size_t i = 0; i < m; i++) total *= 3;
				for (unsigned long code = 0; code < total; code++)
				{
					std::vector<unsigned long> ys(m);
					unsigned long c = code;
					for (size_t i = 0; i < m; i++) { unsigned long d = c % 3; c /= 3; ys[i] = d == 2 ? q - 1 : d; }
					interp_one(xs, ys, q, cid);
					if (code % 7 == 0)
					{
						std::vector<unsigned long> rx(xs.rbegin(), xs.rend()), ry(ys.rbegin(), ys.rend());
						interp_one(rx, ry, q, cid);
					}
				}
			}
			R->sample(cid, "all m-subsets of abscissae 1..8 x ordinates {0,1,q-1}^m");
		}
	}
}

// ---------------------------------------------------------------- conversions mpz <-> gcry_mpi
static void fam_conv(bool thorough)
{
	std::string cid = "conv:all";
	if (!R->mine() || !R->selected(cid)) return;
	mpz_t v, back;
	mpz_init(v), mpz_init(back);
	unsigned long kmax = thorough ? 4096 : 1200;
	for (unsigned long k = 0; k <= kmax; k++)
	{
		// step 1 near limb boundaries, coarser elsewhere in quick
		if (!thorough && k > 200 && (k % 64) > 2 && (k % 64) < 62) continue;
		for (int d = -1; d <= 1; d++)
		{
			mpz_set_ui(v, 1), mpz_mul_2exp(v, v, k);
			if (d < 0) mpz_sub_ui(v, v, 1);
			if (d > 0) mpz_add_ui(v, v, 1);
			gcry_mpi_t g = gcry_mpi_new(8);
			bool ok1 = tmcg_mpz_get_gcry_mpi(g, v);
			bool ok2 = ok1 && tmcg_mpz_set_gcry_mpi(g, back);
			R->ok();
			if (!ok1 || !ok2 || mpz_cmp(v, back))
				R->viol("conv/roundtrip", "value=2^" + str(k) + (d < 0 ? "-1" : d > 0 ? "+1" : "") + " ok=" + str(ok1) + str(ok2), cid);
			else
			{
				// independent view of the gcry side: bit length must equal
				if (gcry_mpi_get_nbits(g) != (mpz_sgn(v) ? mpz_sizeinbase(v, 2) : 0))
					R->viol("conv/nbits", "value=2^" + str(k) + " d=" + str(d), cid);
				if (mpz_fits_ulong_p(v) && tmcg_get_gcry_mpi_ui(g) != mpz_get_ui(v))
					R->viol("conv/get_ui", "value=" + zs(v), cid);
			}
			// textual transport encoding
			std::stringstream ss;
			ss << v << std::endl;
			mpz_set_ui(back, 77);
			ss >> back;
			R->ok();
			if (mpz_cmp(v, back))
				R->viol("conv/stream", "value=2^" + str(k) + " d=" + str(d), cid);
			gcry_mpi_release(g);
		}
	}
	R->sample(cid, "0,1,2^k-1,2^k,2^k+1 for k<=" + str(kmax));
	mpz_clear(v), mpz_clear(back);
}

// ---------------------------------------------------------------- prime generators with every start value in a window
static bool ref_prime(mpz_srcptr n)
{
	if (mpz_cmp_ui(n, 2) < 0) return false;
	if (mpz_fits_ulong_p(n) && mpz_get_ui(n) < (1UL << 44))
	{
		unsigned long v = mpz_get_ui(n);
		for (unsigned long d = 2; d * d <= v; d++) if (v % d == 0) return false;
		return true;
	}
	return mpz_probab_prime_p(n, 50) != 0;
}

static void fam_primes(bool thorough)
{
	mpz_t p, q, k, t;
	mpz_init(p), mpz_init(q), mpz_init(k), mpz_init(t);
	struct Gen { const char *name; int kind; unsigned long size; };
	std::vector<Gen> gens;
	const unsigned long qsizes[] = {14, 15, 16};
	for (int i = 0; i < 3; i++)
	{
		gens.push_back(Gen{"sprime", 0, qsizes[i]});
		gens.push_back(Gen{"sprime_naive", 1, qsizes[i]});
		gens.push_back(Gen{"sprime_noninc", 2, qsizes[i]});
		gens.push_back(Gen{"sprime2g", 3, qsizes[i]});
		gens.push_back(Gen{"sprime3mod4", 4, qsizes[i] + 1});
		gens.push_back(Gen{"oprime", 5, qsizes[i]});
		gens.push_back(Gen{"oprime_noninc", 6, qsizes[i]});
	}
	unsigned long window = thorough ? 4096 : 512;
	for (size_t gi = 0; gi < gens.size(); gi++)
	{
		const Gen &G = gens[gi];
		unsigned long qsize = (G.kind == 4) ? G.size - 1 : G.size;
		unsigned long base = 1UL << (qsize - 1);
		for (unsigned long w0 = 0; w0 < window; w0 += 64)
		{
			std::string cid = std::string("primes:") + G.name + ",size=" + str(G.size) + ",w0=" + str(w0);
			if (!R->mine() || !R->selected(cid)) continue;
			if (R->out_of_time()) goto done;
			for (unsigned long w = w0; w < w0 + 64; w++)
			{
				// spread the start values over the whole admissible range [2^(s-1), 2^s)
				unsigned long start = base + (w * (base / window)) + (w % 7);
				if (start >= 2 * base) start = 2 * base - 1;
				mcenv::CoinSource cs(mcenv::env_seed(), 0);
				int *cnt = new int(0);
				unsigned long s0 = start, rng = base;
				cs.steer = [cnt, s0, rng, base](unsigned char *buf, size_t len, int, uint64_t) {
					// first draw = the chosen start value; later draws (non-incremental generators) walk on deterministically
					unsigned long val = base + ((s0 - base) + 2654435761UL * (unsigned long)(*cnt)) % rng;
					(*cnt)++;
					memset(buf, 0, len);
					for (size_t i = 0; i < 8 && i < len; i++) buf[len - 1 - i] = (unsigned char)(val >> (8 * i));
					return true;
				};
				mcenv::cur = &cs;
				bool threw = false;
				try
				{
					switch (G.kind)
					{
						case 0: tmcg_mpz_sprime(p, q, G.size, TMCG_MR_ITERATIONS); break;
						case 1: tmcg_mpz_sprime_naive(p, q, G.size, TMCG_MR_ITERATIONS); break;
						case 2: tmcg_mpz_sprime_noninc(p, q, G.size, TMCG_MR_ITERATIONS); break;
						case 3: tmcg_mpz_sprime2g(p, q, G.size, TMCG_MR_ITERATIONS); break;
						case 4: tmcg_mpz_sprime3mod4(p, G.size, TMCG_MR_ITERATIONS); break;
						case 5: tmcg_mpz_oprime(p, G.size, TMCG_MR_ITERATIONS); break;
						case 6: tmcg_mpz_oprime_noninc(p, G.size, TMCG_MR_ITERATIONS); break;
					}
				}
				catch (std::exception &ex) { threw = true; }
				mcenv::cur = nullptr;
				R->ok();
				std::string ctx = std::string(G.name) + " size=" + str(G.size) + " start=" + str(start);
				if (threw) { R->viol(std::string("primes/") + G.name, ctx + " exception", cid); continue; }
				bool bad = false;
				if (G.kind <= 3)
				{
					mpz_mul_2exp(t, q, 1), mpz_add_ui(t, t, 1);
					bad = !ref_prime(p) || !ref_prime(q) || mpz_cmp(t, p) || mpz_sizeinbase(q, 2) < G.size;
					if (G.kind == 3 && !mpz_congruent_ui_p(p, 7, 8)) bad = true;
					ctx += " p=" + zs(p) + " q=" + zs(q);
				}
				else if (G.kind == 4)
				{
					mpz_sub_ui(t, p, 1), mpz_tdiv_q_2exp(t, t, 1);
					bad = !ref_prime(p) || !ref_prime(t) || !mpz_congruent_ui_p(p, 3, 4) || mpz_sizeinbase(p, 2) < G.size;
					ctx += " p=" + zs(p);
				}
				else
				{
					bad = !ref_prime(p) || mpz_sizeinbase(p, 2) < G.size;
					ctx += " p=" + zs(p);
				}
				if (bad)
					R->viol(std::string("primes/") + G.name, ctx, cid);
			}
			if (w0 == 0 && G.size == 14) R->sample(cid, "every start value of the window steered through the coin shim");
		}
	}
	// lprime: p = kq+1
	{
		// the last five have a cofactor at least as long as q, so that q | k is a frequent draw (gcd(q, k) = 1 must hold)
		const unsigned long cfg[][2] = {{24, 10}, {32, 12}, {40, 16}, {48, 20}, {12, 3}, {16, 4}, {20, 5}, {24, 6}, {32, 8}};
		for (int ci = 0; ci < 9; ci++)
			for (unsigned long s = 0; s < (thorough ? (ci < 4 ? 256UL : 1024UL) : (ci < 4 ? 48UL : 128UL)); s++)
			{
				std::string cid = "primes:lprime," + str(cfg[ci][0]) + "/" + str(cfg[ci][1]) + ",seed=" + str(s);
				if (!R->mine() || !R->selected(cid)) continue;
				if (R->out_of_time()) goto done;
				mcenv::CoinSource cs(1000 + s, ci);
				mcenv::cur = &cs;
				bool threw = false;
				try { tmcg_mpz_lprime(p, q, k, cfg[ci][0], cfg[ci][1], TMCG_MR_ITERATIONS); } catch (std::exception &ex) { threw = true; }
				mcenv::cur = nullptr;
				R->ok();
				mpz_mul(t, q, k), mpz_add_ui(t, t, 1);
				mpz_t g; mpz_init(g); mpz_gcd(g, q, k);
				bool bad = threw || !ref_prime(p) || !ref_prime(q) || mpz_cmp(t, p) || mpz_cmp_ui(g, 1) ||
					mpz_sizeinbase(p, 2) < cfg[ci][0] || mpz_sizeinbase(q, 2) < cfg[ci][1];
				mpz_clear(g);
				if (bad)
					R->viol("primes/lprime", cid + " p=" + zs(p) + " q=" + zs(q) + " k=" + zs(k), cid);
				if (s == 0) R->sample(cid, "p=qk+1, gcd(q,k)=1, sizes");
			}
	}
done:
	mpz_clear(p), mpz_clear(q), mpz_clear(k), mpz_clear(t);
}

// ---------------------------------------------------------------- TMCG_Bigint: plain vs secure back end vs mpz_t, in lock-step
struct Tri {
	TMCG_Bigint a, s;   // plain, secure
	mpz_t z;            // reference
	Tri() : a(false, true), s(true, true) { mpz_init(z); }
	~Tri() { mpz_clear(z); }
};

static std::string big_str(TMCG_Bigint &b)
{
	if (!b.secret) return zs(b.bigint);
	mpz_t t; mpz_init(t);
	tmcg_mpz_set_gcry_mpi(b.secret_bigint, t);
	if (gcry_mpi_is_neg(b.secret_bigint) && mpz_sgn(t) > 0) mpz_neg(t, t);
	std::string r = zs(t); mpz_clear(t); return r;
}

static void fam_bigint(bool thorough)
{
	// operand alphabet
	std::vector<std::string> vals;
	vals.push_back("0"), vals.push_back("1"), vals.push_back("2");
	vals.push_back("18446744073709551615"), vals.push_back("18446744073709551616"), vals.push_back("18446744073709551617");
	vals.push_back("1606938044258990275541962092341162602522202993782792835301611"); // 2^200+235 (prime-ish size, 201 bit)
	const unsigned long uis[] = {0, 1, 2, 62, 4294967295UL, 18446744073709551615UL};
	// operations: 0 += big, 1 -= big (only if a>=b), 2 *= big, 3 /= big (b!=0), 4 %= big (b!=0),
	// 5 += ui, 6 -= ui (if a>=ui), 7 *= ui, 8 %= ui (ui!=0), 9 mul2exp, 10 div2exp, 11 powm(base=cur, exp=v, mod=v2 odd), 12 powm_ui, 13 abs, 14 = big
	const int NOPS = 15;
	int depth = thorough ? 3 : 2;
	size_t NV = vals.size();
	unsigned long per = NOPS * NV;     // (op, operand) choices per step
	unsigned long total = NV;          // initial value
	for (int d = 0; d < depth; d++) total *= per;
	for (unsigned long code = 0; code < total; code++)
	{
		unsigned long init = code % NV;
		std::string cid = "bigint:init=" + str(init) + ",step1=" + str((code / NV) % per);
		if (!R->selected(cid)) continue;
		if ((code % R->args.nshards) != R->args.shard) continue;
		Tri T;
		mpz_set_str(T.z, vals[init].c_str(), 10);
		T.a.set_str(vals[init], 10), T.s = T.a;
		unsigned long c = code / NV;
		std::string trace = "init=" + vals[init];
		bool stop = false;
		for (int d = 0; d < depth && !stop; d++)
		{
			unsigned long ch = c % per; c /= per;
			int op = ch % NOPS; size_t vi = ch / NOPS;
			mpz_t v; mpz_init_set_str(v, vals[vi].c_str(), 10);
			TMCG_Bigint va(false, true), vs(true, true);
			va.set_str(vals[vi], 10), vs = va;
			unsigned long ui = uis[vi % 6];
			trace += " op" + str(op) + "(" + (op >= 5 && op <= 8 ? str(ui) : vals[vi]) + ")";
			try
			{
				switch (op)
				{
					case 0: mpz_add(T.z, T.z, v); T.a += va; T.s += vs; break;
					case 1: if (mpz_cmp(T.z, v) < 0) { stop = true; break; } mpz_sub(T.z, T.z, v); T.a -= va; T.s -= vs; break;
					case 2: if (mpz_sizeinbase(T.z, 2) > 2000) { stop = true; break; } mpz_mul(T.z, T.z, v); T.a *= va; T.s *= vs; break;
					case 3: if (!mpz_sgn(v)) { stop = true; break; } mpz_tdiv_q(T.z, T.z, v); T.a /= va; T.s /= vs; break;
					case 4: if (!mpz_sgn(v)) { stop = true; break; } mpz_mod(T.z, T.z, v); T.a %= va; T.s %= vs; break;
					case 5: mpz_add_ui(T.z, T.z, ui); T.a += ui; T.s += ui; break;
					case 6: if (mpz_cmp_ui(T.z, ui) < 0) { stop = true; break; } mpz_sub_ui(T.z, T.z, ui); T.a -= ui; T.s -= ui; break;
					case 7: if (mpz_sizeinbase(T.z, 2) > 2000) { stop = true; break; } mpz_mul_ui(T.z, T.z, ui); T.a *= ui; T.s *= ui; break;
					case 8: if (!ui) { stop = true; break; } mpz_mod_ui(T.z, T.z, ui); T.a %= ui; T.s %= ui; break;
					case 9: { size_t e = (vi * 13) % 70; mpz_mul_2exp(T.z, T.z, e); T.a.mul2exp(e); T.s.mul2exp(e); break; }
					case 10: { size_t e = (vi * 13) % 70; mpz_tdiv_q_2exp(T.z, T.z, e); T.a.div2exp(e); T.s.div2exp(e); break; }
					case 11: {
						// cur := cur^v mod M with M odd > 1
						mpz_t M; mpz_init_set_str(M, vals[6].c_str(), 10);
						TMCG_Bigint Ma(false, true), Ms(true, true); Ma.set_str(vals[6], 10), Ms = Ma;
						TMCG_Bigint ba(T.a), bs(T.s);
						mpz_powm(T.z, T.z, v, M);
						T.a.powm(ba, va, Ma); T.s.powm(bs, vs, Ms);
						mpz_clear(M); break; }
					case 12: {
						mpz_t M; mpz_init_set_str(M, vals[6].c_str(), 10);
						TMCG_Bigint Ma(false, true), Ms(true, true); Ma.set_str(vals[6], 10), Ms = Ma;
						TMCG_Bigint ba(T.a), bs(T.s);
						mpz_powm_ui(T.z, T.z, ui % 1000, M);
						T.a.powm_ui(ba, ui % 1000, Ma); T.s.powm_ui(bs, ui % 1000, Ms);
						mpz_clear(M); break; }
					case 13: mpz_abs(T.z, T.z); T.a.abs(); T.s.abs(); break;
					case 14: mpz_set(T.z, v); T.a = va; T.s = vs; break;
				}
			}
			catch (std::exception &ex)
			{
				// the secure back end documents some operations as unavailable ("not supported"/"not allowed"):
				// that is an API restriction, not a disagreement of results
				std::string w = ex.what();
				if (w.find("not supported") == std::string::npos && w.find("not allowed") == std::string::npos)
					R->viol("bigint/exception", trace + " : " + w, cid);
				else
					R->counters["bigint_unsupported_on_secure"]++;
				stop = true;
			}
			mpz_clear(v);
			if (stop) break;
			R->ok();
			std::string sz = zs(T.z), sa = big_str(T.a), ss = big_str(T.s);
			if (sa != sz || ss != sz)
			{
				R->viol("bigint/lockstep", trace + " ref=" + sz + " plain=" + sa + " secure=" + ss, cid);
				break;
			}
			// comparisons and size must agree too
			TMCG_Bigint one(false, true), ones(true, true); one = 1UL, ones = 1UL; TMCG_Bigint zeros(true, true); zeros = 0UL;
			bool c1 = (T.a > one) && (T.a > 1UL), c2 = (T.s > ones) && (T.s > 1UL), c3 = mpz_cmp_ui(T.z, 1) > 0;
			c1 = c1 || ((T.a > one) != (T.a > 1UL) ? !c3 : false), c2 = c2 || ((T.s > ones) != (T.s > 1UL) ? !c3 : false);
			if (c1 != c3 || c2 != c3 || (T.a == 0UL) != (mpz_sgn(T.z) == 0) || (T.s == zeros) != (mpz_sgn(T.z) == 0) ||
				T.a.size(2) != T.s.size(2))
			{
				R->viol("bigint/compare", trace + " ref=" + sz, cid);
				break;
			}
		}
		if (code < 3) R->sample(cid, trace);
	}
}

int main(int argc, char **argv)
{
	Args A = parse(argc, argv);
	Report rep(A);
	R = &rep;
	family = A.get("family", "pow");
	if (!A.only.empty())
		family = A.only.substr(0, A.only.find(':'));
	if (!init_libTMCG())
	{
		fprintf(stderr, "init_libTMCG failed\n");
		return 2;
	}
	bool th = A.tier == "thorough";
	MuteCerr mute;
	if (family == "pow") { unsigned long mm = A.geti("mmax", th ? 384 : 128); fam_pow(mm); rep.bound = "odd moduli 3.." + str(mm) + ", all coprime bases, exponents -(m+2)..(m+2)"; }
	else if (family == "fpow") { unsigned long mm = A.geti("mmax", th ? 256 : 96); fam_fpow(mm); rep.bound = "odd moduli 3.." + str(mm) + " + table-limit cases"; }
	else if (family == "sqrtp") { unsigned long pm = A.geti("pmax", th ? 20000 : 2000); fam_sqrtp(pm); rep.bound = "all primes < " + str(pm) + ", all residues"; }
	else if (family == "sqrtn") { fam_sqrtn(th ? 100 : 60, th ? 300 : 120); rep.bound = th ? "prime pairs <100, Blum pairs <300" : "prime pairs <60, Blum pairs <120"; }
	else if (family == "interp") { fam_interp(th); rep.bound = "point sets of size <=3 over Z_q exhaustively; subsets of abscissae 1..8"; }
	else if (family == "conv") { fam_conv(th); rep.bound = "2^k-1,2^k,2^k+1"; }
	else if (family == "primes") { fam_primes(th); rep.bound = th ? "4096 start values per generator and size" : "512 start values per generator and size"; }
	else if (family == "bigint") { fam_bigint(th); rep.bound = std::string("all operation sequences of length ") + (th ? "3" : "2"); }
	else { fprintf(stderr, "unknown family %s\n", family.c_str()); return 2; }
	rep.finish();
	return 0;
}
