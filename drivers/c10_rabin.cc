// C10 — Rabin key operations are consistent and tamper-evident.
//
// Real code: TMCG_SecretKey::{generate,sign,decrypt,check}, TMCG_PublicKey::{verify,encrypt,check,import}.
// Keys come from a lazily generated, deterministic pool (coins: mcenv::CoinSource(VERIF_SEED, key spec)).
// The NIZK stage counts (S1/S2/S3) are read from a generated key at run time, so the driver is correct for the `tiny`
// flavour (4/8/8) and for the default counts (16/128/128).
//
// Families (--family)
// Key pool: 448 (sign only), 672, 704 bit x {with, without proof} x 1 seed (quick) / 4 seeds (thorough); thorough adds
// one 1024-bit key with proof and one 2048-bit key without.
//   roundtrip  every key x message lengths 0..130 and 4096 (quick: 0..40, 63..66, 130, 4096) x the "one of four roots" draw
//              steered to 0,1,2,3 on identical padding coins (the four signatures are the four roots of one square) x
//              first padding salt steered to {default, 00.., FF..}; verification under the public key / the secret key /
//              a re-imported public key; verification against altered data (append, drop last, flip first, empty) and
//              under another key.  Encryption (keys >= 672 bit): plaintext classes {00.., FF.., random} x salt classes;
//              decrypt returns the bytes; decryption under another key fails.  check() on every key.  Additionally, per key:
//              SAEP pads r chosen by the harness (tmcg_g(r) computed harness-side) so that the padded value starts with
//              1 (all three plaintext classes), 2, 3, 20 (chosen plaintext) zero octets; and a signature searched for whose
//              padded square starts with a zero octet.
//   tsig       signature text  "sig|<keyid>|<root>|"            every field x the mutation catalogue (see catalogue()).
//   tenc       ciphertext text "enc|<keyid>|<value>|"            every field x catalogue.
//   tkey       public key text "pub|name|email|type|m|y|nzk^S1^..^S2^..^S3^..^|sig|<keyid>|<root>|": every '|' field and
//              every '^' sub-field of the proof (every position when <= 40 elements, else first/second/middle/last of each
//              stage in quick and every 8th in thorough) x catalogue, imported and check()ed WITHOUT re-signing.
//   nizk       the adversary who owns the key: proofs are altered / recomputed by a harness-side prover (a copy of the
//              generate() loops with free stage counts) and the self-signature is re-made with the secret key, so only the
//              proof verification can refuse.  (a) every stage-count vector around the compiled minimum (tiny: the full
//              box 0..S+1 per stage; default counts: S-1,S,S+1 per stage) with a correct proof of that length;
//              (b) every proof element x numeric catalogue, swap with the next element; (c) counter text mutations with
//              unchanged elements; (d) replaced non-residue y' in {4y (valid), 4, y^2, m-y (squares / Jacobi +1 residues),
//              least Jacobi -1 value, y+m}, proof recomputed; least Jacobi -1 value on a key without proof.
//              tiny flavour: keys 704, 448 (quick) + 672, 704', 1024 (thorough); default counts: 448 (quick: S-1 vectors,
//              first/last element per stage, short catalogue) + 704 and 2048 (thorough).
//
//   forge      the key owner alters the PRab encoding: for every pool key + 1024 bit (thorough: + 2048) and message lengths
//              0, 16, 130 (thorough: + 1, 53, 4096): e = s^2 mod m of a genuine signature = w(32) | salt(20) | gamma; EVERY octet
//              x {xor 1, xor 0x80}, the same octet advanced until the value is a quadratic residue (secret primes), all four
//              roots turned into signature texts: verify() for the same data must refuse each (a changed w or salt changes
//              the hash input, a changed gamma octet differs from g(w)).  The four roots of the unaltered e: root and
//              negation must be accepted, the other pair is recorded.
//
// Oracle (exact up to SHA-256/SHA3 coincidences, for every VERIF_SEED)
//   * untampered: verify = true, decrypt = true and returns the plaintext, check() = true.
//   * tsig/tenc/tkey: the harness re-parses the altered text with its own splitter and decides with plain GMP whether it
//     is semantically different from the original: a different magic/name/email/type/proof string, a key id that is
//     not the key id of this key at the stated length, an integer m, y differing from the original, a root x with
//     x^2 != s^2 (mod m), a ciphertext c' != c (mod m), a missing separator or unparsable number.  Different => must be
//     refused (verify/decrypt false; import false or check() false).  Identical text and the negated root m-s => must be
//     accepted.  Every other equivalent representation (x+m, "-x", the other root pair of the same square, c+m, key id of
//     another length naming the same key incl. "ID0^", junk after the last separator) is recorded, not judged.
//   * nizk: stage 1 element x passes iff x = e (mod m) (x -> x^m is a bijection of Z_m^*); stage 2/3 element passes iff
//     x^2 = e^2 (mod m) (exactly one of +-f, +-2f resp. f, fy is a square).  check() must be false whenever some position
//     fails, a counter is below the compiled minimum, or the shape is broken; it must be true for a correct proof with
//     every counter >= minimum.  For y' the verdict is predicted from the factors: Jacobi(y')=1 and every stage-3 challenge
//     (or its product with y') is a square.
// Non-trivial: the altered text differs from the original text and was not produced before for the same original
// (std::set); roundtrip cases are distinct (key, length, root, salt class) tuples.
#include "drv.hh"
#include <libTMCG.hh>
#include <gmp.h>
#include <memory>
#include <set>
#include <map>

using namespace drv;

static Report *R;
static uint64_t SEED;
static bool thorough = false;
static bool machinery_error = false;

struct Z {
	mpz_t v;
	Z() { mpz_init(v); }
	Z(unsigned long u) { mpz_init_set_ui(v, u); }
	Z(const Z &o) { mpz_init_set(v, o.v); }
	Z &operator=(const Z &o) { mpz_set(v, o.v); return *this; }
	~Z() { mpz_clear(v); }
};
static const int BASE = TMCG_MPZ_IO_BASE;
static std::string zt(mpz_srcptr z) { char *s = mpz_get_str(NULL, BASE, z); std::string r(s); free(s); return r; }
static bool parsez(mpz_ptr z, const std::string &s) { return mpz_set_str(z, s.c_str(), BASE) == 0; }
static std::string shortened(const std::string &s, size_t n = 90) { return s.size() <= n ? s : s.substr(0, n / 2) + "..." + s.substr(s.size() - n / 2) + "(" + str(s.size()) + " chars)"; }

static void harness_error(const std::string &what, const std::string &cid)
{
	machinery_error = true;
	printf("{\"t\":\"error\",\"what\":\"%s\",\"case\":\"%s\"}\n", jesc(what).c_str(), jesc(cid).c_str());
	fflush(stdout);
}

static std::vector<std::string> split(const std::string &s, char sep)
{
	std::vector<std::string> v;
	size_t a = 0;
	for (;;)
	{
		size_t b = s.find(sep, a);
		if (b == s.npos) { v.push_back(s.substr(a)); break; }
		v.push_back(s.substr(a, b - a));
		a = b + 1;
	}
	return v;
}
static std::string join(const std::vector<std::string> &v, char sep)
{
	std::string s;
	for (size_t i = 0; i < v.size(); i++)
		s += (i ? std::string(1, sep) : std::string()) + v[i];
	return s;
}

// ---------------------------------------------------------------------------------------------- coin steering
struct Coins {
	mcenv::CoinSource cs;
	mcenv::CoinSource *old;
	// root: -1 default, else value of the 8-byte "one of four" draw; salt: 0 default, 1 = 00.., 2 = FF.. for the FIRST salt request
	Coins(uint64_t seed, uint64_t party, int root = -1, int salt = 0, size_t saltlen = TMCG_PRAB_K0) : cs(seed, party)
	{
		cs.logging = true;
		std::shared_ptr<bool> first(new bool(true));
		if (root >= 0 || salt > 0)
			cs.steer = [root, salt, saltlen, first](unsigned char *buf, size_t len, int, uint64_t) -> bool {
				if (len == sizeof(unsigned long) && root >= 0)
				{
					memset(buf, 0, len);
					buf[0] = (unsigned char)root;   // tmcg_mpz_*random_ui reads host (little-endian) order
					return true;
				}
				if (len == saltlen && salt > 0 && *first)
				{
					*first = false;
					memset(buf, salt == 1 ? 0x00 : 0xFF, len);
					return true;
				}
				return false;
			};
		old = mcenv::cur;
		mcenv::cur = &cs;
	}
	~Coins() { mcenv::cur = old; }
	size_t requests(size_t len) const { size_t n = 0; for (size_t i = 0; i < cs.log.size(); i++) if (cs.log[i].len == len) n++; return n; }
};

// the first request of exactly bytes.size() octets is answered with `bytes` (SAEP pad r chosen by the harness)
struct FixedCoins {
	mcenv::CoinSource cs;
	mcenv::CoinSource *old;
	FixedCoins(uint64_t seed, uint64_t party, const std::vector<unsigned char> &bytes) : cs(seed, party)
	{
		std::shared_ptr<bool> first(new bool(true));
		cs.steer = [bytes, first](unsigned char *buf, size_t len, int, uint64_t) -> bool {
			if (len != bytes.size() || !*first)
				return false;
			*first = false;
			memcpy(buf, bytes.data(), len);
			return true;
		};
		old = mcenv::cur;
		mcenv::cur = &cs;
	}
	~FixedCoins() { mcenv::cur = old; }
};

// ---------------------------------------------------------------------------------------------- key pool
struct KeySpec { unsigned long bits; bool nizk; unsigned idx; };
static std::string spec_id(const KeySpec &s) { return "k" + str(s.bits) + (s.nizk ? "n" : "p") + str(s.idx); }

struct Key {
	KeySpec spec;
	std::unique_ptr<TMCG_SecretKey> sk;
	std::unique_ptr<TMCG_PublicKey> pk, pk2;   // pk2: imported from the exported text
	std::string pubtext;
	size_t S[3];                                // stage counts found in the generated proof text
	std::string selfid;                         // root text of the self-signature
	bool can_encrypt;
};
static std::map<std::string, std::unique_ptr<Key> > pool;
static size_t MINS[3] = { TMCG_KEY_NIZK_STAGE1, TMCG_KEY_NIZK_STAGE2, TMCG_KEY_NIZK_STAGE3 };   // as compiled into this flavour

static Key &get_key(const KeySpec &s)
{
	std::string id = spec_id(s);
	std::map<std::string, std::unique_ptr<Key> >::iterator it = pool.find(id);
	if (it != pool.end())
		return *it->second;
	Key *k = new Key;
	k->spec = s;
	{
		Coins c(SEED, 100000 + s.bits * 16 + (s.nizk ? 8 : 0) + s.idx);
		k->sk.reset(new TMCG_SecretKey("Alice " + id, id + "@example.org", s.bits, s.nizk));
	}
	k->pk.reset(new TMCG_PublicKey(*k->sk));
	std::ostringstream o;
	o << *k->pk;
	k->pubtext = o.str();
	k->pk2.reset(new TMCG_PublicKey());
	if (!k->pk2->import(k->pubtext))
		R->viol("rabin/import-own-export", "TMCG_PublicKey::import refuses the text written by operator<< for " + id, "pool/" + id);
	std::vector<std::string> nz = split(k->sk->nizk, '^');
	k->S[0] = k->S[1] = k->S[2] = 0;
	if (nz.size() >= 2 && nz[0] == "nzk")
	{
		size_t pos = 1;
		for (int st = 0; st < 3 && pos < nz.size(); st++)
		{
			k->S[st] = strtoul(nz[pos].c_str(), NULL, 10);
			pos += 1 + (s.nizk ? k->S[st] : 0);
		}
	}
	if (k->S[0] != MINS[0] || k->S[1] != MINS[1] || k->S[2] != MINS[2])
		harness_error("stage counts in the generated proof (" + str(k->S[0]) + "/" + str(k->S[1]) + "/" + str(k->S[2]) + ") differ from the macros seen by the driver", id);
	std::vector<std::string> sg = split(k->sk->sig, '|');
	k->selfid = sg.size() > 2 ? sg[2] : "";
	k->can_encrypt = s.bits >= 672;
	pool[id].reset(k);
	return *k;
}

static std::vector<KeySpec> pool_specs(bool with_large)
{
	std::vector<KeySpec> v;
	unsigned long sizes[] = { 448, 672, 704 };
	unsigned seeds = thorough ? 4 : 1;
	for (unsigned i = 0; i < seeds; i++)
		for (size_t k = 0; k < 3; k++)
			for (int nz = 0; nz < 2; nz++)
				v.push_back(KeySpec{sizes[k], nz == 1, i});
	if (thorough && with_large)
	{
		v.push_back(KeySpec{1024, true, 0});
		v.push_back(KeySpec{2048, false, 0});
	}
	return v;
}
static Key &partner_of(const Key &k)
{
	if (k.spec.bits > 704)
		return get_key(KeySpec{704, true, 0});   // large keys are generated once; their "other key" is a pool key
	return get_key(KeySpec{k.spec.bits, !k.spec.nizk, k.spec.idx});
}

// key id text of key k at length n, exactly as keyid(n) builds it
static std::string keyid_n(const std::string &selfid, size_t n)
{
	size_t l = n < selfid.size() ? n : selfid.size();
	return "ID" + str(n) + "^" + selfid.substr(selfid.size() - l, l);
}
// does `kid` name the key with self-signature root text `selfid` (at the length it states)?
static bool keyid_names(const std::string &kid, const std::string &selfid)
{
	size_t n = 0;
	size_t hat = kid.find('^');
	if (kid.size() >= 4 && kid.substr(0, 2) == "ID" && hat != kid.npos)
	{
		std::string num = kid.substr(2, hat - 2);
		char *ec;
		size_t sz = strtoul(num.c_str(), &ec, 10);
		if (*ec == '\0' && sz == kid.size() - hat - 1)
			n = sz;
	}
	return kid == keyid_n(selfid, n);
}

// ---------------------------------------------------------------------------------------------- mutation catalogue
enum Kind { K_MAGIC, K_TEXT, K_NUM, K_KEYID, K_COUNTER };
struct Mut { std::string name, text; };

static void numeric_catalogue(const std::string &v, mpz_srcptr m, std::vector<Mut> &out)
{
	Z x, t;
	bool ok = parsez(x.v, v);
	if (ok)
	{
		mpz_add_ui(t.v, x.v, 1); out.push_back(Mut{"v+1", zt(t.v)});
		mpz_mul_2exp(t.v, x.v, 1), mpz_add_ui(t.v, t.v, 3); out.push_back(Mut{"2v+3", zt(t.v)});
		mpz_add(t.v, x.v, m); out.push_back(Mut{"v+m", zt(t.v)});
		mpz_sub(t.v, m, x.v); out.push_back(Mut{"m-v", zt(t.v)});
		mpz_neg(t.v, x.v); out.push_back(Mut{"-v", zt(t.v)});
	}
	out.push_back(Mut{"0", "0"});
	out.push_back(Mut{"1", "1"});
	mpz_sub_ui(t.v, m, 1); out.push_back(Mut{"m-1", zt(t.v)});
	out.push_back(Mut{"m", zt(m)});
	mpz_set_ui(t.v, 1), mpz_mul_2exp(t.v, t.v, 4096); out.push_back(Mut{"2^4096", zt(t.v)});
	out.push_back(Mut{"empty", ""});
	if (v.size() > 1) out.push_back(Mut{"droplast", v.substr(0, v.size() - 1)});
	out.push_back(Mut{"append0", v + "0"});
	out.push_back(Mut{"nondigit", v + "!"});
}

static void catalogue(Kind kind, const std::string &v, mpz_srcptr m, const std::string &other_keyid, std::vector<Mut> &out)
{
	switch (kind)
	{
		case K_MAGIC:
		case K_TEXT:
			out.push_back(Mut{"empty", ""});
			out.push_back(Mut{"append", v + "x"});
			if (!v.empty())
			{
				std::string w = v;
				w[0] = (char)(w[0] ^ 1);
				out.push_back(Mut{"flipfirst", w});
				out.push_back(Mut{"droplast", v.substr(0, v.size() - 1)});
				std::string u = v;
				for (size_t i = 0; i < u.size(); i++) u[i] = (char)toupper(u[i]);
				if (u != v) out.push_back(Mut{"upper", u});
				size_t nz = v.find("_NIZK");
				if (nz != v.npos) out.push_back(Mut{"stripNIZK", v.substr(0, nz)});
			}
			break;
		case K_NUM:
			numeric_catalogue(v, m, out);
			break;
		case K_KEYID:
		{
			size_t hat = v.find('^');
			std::string tail = hat == v.npos ? v : v.substr(hat + 1);
			out.push_back(Mut{"otherkey", other_keyid});
			if (!tail.empty())
			{
				std::string w = tail;
				w[0] = (w[0] == 'A') ? 'B' : 'A';
				out.push_back(Mut{"wrongchar", "ID" + str(tail.size()) + "^" + w});
				w = tail;
				w[w.size() - 1] = (w[w.size() - 1] == 'A') ? 'B' : 'A';
				out.push_back(Mut{"wronglast", "ID" + str(tail.size()) + "^" + w});
				out.push_back(Mut{"sizedown", "ID" + str(tail.size() - 1) + "^" + tail});
				out.push_back(Mut{"sizeup", "ID" + str(tail.size() + 1) + "^" + tail});
				out.push_back(Mut{"shorter-suffix", "ID" + str(tail.size() - 1) + "^" + tail.substr(1)});
				out.push_back(Mut{"longer-wrong", "ID" + str(tail.size() + 1) + "^!" + tail});
				out.push_back(Mut{"leadingzero", "ID0" + str(tail.size()) + "^" + tail});
				out.push_back(Mut{"nohat", "ID" + str(tail.size()) + tail});
				out.push_back(Mut{"lowercase-id", "id" + str(tail.size()) + "^" + tail});
			}
			out.push_back(Mut{"ID0", "ID0^"});
			out.push_back(Mut{"empty", ""});
			break;
		}
		case K_COUNTER:
		{
			unsigned long c = strtoul(v.c_str(), NULL, 10);
			if (c > 0) out.push_back(Mut{"c-1", str(c - 1)});
			out.push_back(Mut{"c+1", str(c + 1)});
			out.push_back(Mut{"0", "0"});
			out.push_back(Mut{"ulongmax", "18446744073709551615"});
			out.push_back(Mut{"overflow", "99999999999999999999999"});
			out.push_back(Mut{"-1", "-1"});
			out.push_back(Mut{"empty", ""});
			out.push_back(Mut{"nondigit", v + "x"});
			break;
		}
	}
}

// A structured text: top-level fields separated by '|'; one field (the proof) may be split further by '^'.
struct Slot { int field, sub; Kind kind; std::string label; };

struct Doc {
	std::vector<std::string> f;                 // '|' fields
	int nizk_field;                             // index of the '^'-structured field or -1
	std::vector<std::string> nz;                // its sub-fields
	std::string text() const
	{
		std::vector<std::string> g = f;
		if (nizk_field >= 0)
			g[nizk_field] = join(nz, '^');
		return join(g, '|');
	}
	std::string &at(const Slot &s) { return s.sub < 0 ? f[s.field] : nz[s.sub]; }
	void field_is_proof() const {}
};

// all single-slot alterations of a document: catalogue by kind + structural (drop / duplicate / swap with next / truncate)
static void mutate_doc(const Doc &d, const std::vector<Slot> &slots, mpz_srcptr m, const std::string &other_keyid,
	const std::function<void(const Slot &, const std::string &mutname, const std::string &text)> &cb)
{
	for (size_t si = 0; si < slots.size(); si++)
	{
		const Slot &s = slots[si];
		Doc e = d;
		std::vector<Mut> muts;
		catalogue(s.kind, e.at(s), m, other_keyid, muts);
		if (s.sub >= 0) e.field_is_proof();
		for (size_t i = 0; i < muts.size(); i++)
		{
			Doc x = d;
			x.at(s) = muts[i].text;
			cb(s, muts[i].name, x.text());
		}
		// structural: drop / duplicate / swap with next (same level), truncate the text after this slot
		{
			std::vector<std::string> F = d.f, NZ = d.nz;
			if (d.nizk_field >= 0)
				F[d.nizk_field] = join(d.nz, '^');
			auto render = [&](const std::vector<std::string> &f, const std::vector<std::string> &nz) {
				if (s.sub < 0)
					return join(f, '|');
				std::vector<std::string> g = f;
				g[d.nizk_field] = join(nz, '^');
				return join(g, '|');
			};
			std::vector<std::string> &v = s.sub < 0 ? F : NZ;
			size_t idx = s.sub < 0 ? (size_t)s.field : (size_t)s.sub;
			std::vector<std::string> keep = v;
			v.erase(v.begin() + idx);
			cb(s, "dropfield", render(F, NZ));
			v = keep;
			v.insert(v.begin() + idx, keep[idx]);
			cb(s, "dupfield", render(F, NZ));
			v = keep;
			if (idx + 1 < v.size())
			{
				std::swap(v[idx], v[idx + 1]);
				cb(s, "swapnext", render(F, NZ));
				v = keep;
			}
			std::string full = d.text();
			size_t pos = 0;
			if (s.sub < 0)
			{
				for (int k = 0; k <= s.field; k++)
					pos += F[k].size() + (k < s.field ? 1 : 0);
			}
			else
			{
				for (int k = 0; k < d.nizk_field; k++)
					pos += F[k].size() + 1;
				for (int k = 0; k <= s.sub; k++)
					pos += NZ[k].size() + (k < s.sub ? 1 : 0);
			}
			cb(s, "truncate", full.substr(0, pos));
			if (pos < full.size())
				cb(s, "truncate-after-sep", full.substr(0, pos + 1));
		}
	}
}

// ---------------------------------------------------------------------------------------------- semantic evaluators
enum Sem { SEM_DIFF, SEM_EQUIV, SEM_MUSTACCEPT };

// sequential reader mirroring the format: take the text up to the next separator, which must exist
struct Reader {
	std::string s;
	bool take(std::string &out, char sep = '|')
	{
		size_t e = s.find(sep);
		if (e == s.npos)
			return false;
		out = s.substr(0, e);
		s = s.substr(e + 1);
		return true;
	}
};

// signature text against (key m, self id, original root s)
static bool zero_square;   // set by sem_sig: the altered root squares to 0 mod m (finding F6: verify() then reads an unwritten buffer)
static Sem sem_sig(const std::string &text, const std::string &orig, mpz_srcptr m, const std::string &selfid, std::string *kid_out = nullptr)
{
	zero_square = false;
	Reader a{text}, b{orig};
	std::string magic, kid, val, omagic, okid, oval;
	if (!a.take(magic) || !a.take(kid) || !a.take(val))
		return SEM_DIFF;
	b.take(omagic), b.take(okid), b.take(oval);
	if (kid_out)
		*kid_out = kid;
	if (magic != "sig" || !keyid_names(kid, selfid))
		return SEM_DIFF;
	Z x, s, t, u;
	if (!parsez(x.v, val) || !parsez(s.v, oval))
		return SEM_DIFF;
	mpz_mul(t.v, x.v, x.v), mpz_mod(t.v, t.v, m);
	mpz_mul(u.v, s.v, s.v), mpz_mod(u.v, u.v, m);
	zero_square = mpz_sgn(t.v) == 0;
	if (mpz_cmp(t.v, u.v))
		return SEM_DIFF;
	if (text == orig)
		return SEM_MUSTACCEPT;
	mpz_sub(t.v, m, s.v);
	if (kid == okid && !mpz_cmp(x.v, t.v) && val == zt(t.v) && a.s.empty())
		return SEM_MUSTACCEPT;   // the negated root, canonical text
	return SEM_EQUIV;
}

static Sem sem_enc(const std::string &text, const std::string &orig, mpz_srcptr m, const std::string &selfid)
{
	Reader a{text}, b{orig};
	std::string magic, kid, val, omagic, okid, oval;
	if (!a.take(magic) || !a.take(kid) || !a.take(val))
		return SEM_DIFF;
	b.take(omagic), b.take(okid), b.take(oval);
	if (magic != "enc" || !keyid_names(kid, selfid))
		return SEM_DIFF;
	Z x, c;
	if (!parsez(x.v, val) || !parsez(c.v, oval))
		return SEM_DIFF;
	if (!mpz_congruent_p(x.v, c.v, m))
		return SEM_DIFF;
	return text == orig ? SEM_MUSTACCEPT : SEM_EQUIV;
}

static Sem sem_key(const std::string &text, const Key &k)
{
	Reader a{text};
	std::string magic, name, email, type, ms, ys, nizk;
	if (!a.take(magic) || !a.take(name) || !a.take(email) || !a.take(type) || !a.take(ms) || !a.take(ys) || !a.take(nizk))
		return SEM_DIFF;
	if (magic != "pub" || name != k.sk->name || email != k.sk->email || type != k.sk->type || nizk != k.sk->nizk)
		return SEM_DIFF;
	Z m, y;
	if (!parsez(m.v, ms) || !parsez(y.v, ys) || mpz_cmp(m.v, k.sk->m) || mpz_cmp(y.v, k.sk->y))
		return SEM_DIFF;
	// the rest is the self-signature; its key id refers to its own root text
	std::vector<std::string> sg = split(a.s, '|');
	if (sg.size() < 4)
		return SEM_DIFF;
	Sem s = sem_sig(a.s, k.sk->sig, k.sk->m, sg[2]);
	if (s == SEM_DIFF)
		return SEM_DIFF;
	return text == k.pubtext ? SEM_MUSTACCEPT : SEM_EQUIV;
}

struct Tally { uint64_t refused, equiv_accepted, equiv_refused, mustaccept; std::map<std::string, uint64_t> equiv_names; } tally;
static std::set<std::string> seen;   // distinct altered texts (hash keyed by original id)

static bool note_distinct(const std::string &origid, const std::string &text, const std::string &orig)
{
	if (text == orig)
		return false;
	std::string key = origid + "\x02" + (text.size() > 200 ? str(std::hash<std::string>()(text)) + ":" + str(text.size()) : text);
	return seen.insert(key).second;
}

static void judge(Sem sem, bool accepted, const std::string &area, const std::string &what, const std::string &mutname, const std::string &cid, const std::string &text)
{
	if (sem == SEM_DIFF)
	{
		if (accepted && zero_square && (area == "rabin/sig" || area == "rabin/key"))
			R->viol("rabin/verify/zero-square-stale-buffer", "signature value " + mutname + " (square 0 mod m) accepted: verify() compares a buffer mpz_export never wrote (findings/c10_rabin_verify_zero_root.cc): " + shortened(text, 120), cid);
		else if (accepted)
			R->viol(area + "/tamper-accepted/" + what, "altered " + what + " (" + mutname + ") was accepted: " + shortened(text, 160), cid);
		else
			tally.refused++;
	}
	else if (sem == SEM_MUSTACCEPT)
	{
		if (!accepted)
			R->viol(area + "/equivalent-refused/" + what, "unaltered text / negated root (" + mutname + ") was refused: " + shortened(text, 160), cid);
		else
			tally.mustaccept++;
	}
	else
	{
		(accepted ? tally.equiv_accepted : tally.equiv_refused)++;
		tally.equiv_names[what + ":" + mutname + (accepted ? ":accepted" : ":refused")]++;
	}
}

// ---------------------------------------------------------------------------------------------- roundtrip
static std::string message(size_t len, unsigned variant)
{
	std::string s(len, '\0');
	for (size_t i = 0; i < len; i++)
		s[i] = (char)((i * 7 + len * 13 + variant * 101) & 0xFF);   // contains NUL, '|', '^' and high bytes
	return s;
}

static std::vector<std::string> data_variants(const std::string &d)
{
	std::vector<std::string> v;
	v.push_back(d + "x");
	v.push_back(d + std::string(1, '\0'));
	if (!d.empty())
	{
		v.push_back(d.substr(0, d.size() - 1));
		std::string w = d; w[0] = (char)(w[0] ^ 1); v.push_back(w);
		w = d; w[w.size() - 1] = (char)(w[w.size() - 1] ^ 0x80); v.push_back(w);
		v.push_back("");
	}
	return v;
}

static std::string sig_value(const std::string &sig) { std::vector<std::string> p = split(sig, '|'); return p.size() > 2 ? p[2] : ""; }

static void fam_roundtrip()
{
	std::vector<KeySpec> specs = pool_specs(true);
	std::vector<size_t> lens;
	if (thorough) { for (size_t l = 0; l <= 130; l++) lens.push_back(l); }
	else { for (size_t l = 0; l <= 40; l++) lens.push_back(l); lens.push_back(63), lens.push_back(64), lens.push_back(65), lens.push_back(66), lens.push_back(130); }
	lens.push_back(4096);
	for (size_t ki = 0; ki < specs.size(); ki++)
	{
		std::string kid = spec_id(specs[ki]);
		// ---- key validation + sign/verify, one cell per (key, salt class)
		for (int salt = 0; salt < 3; salt++)
		{
			std::string cell = "rt/" + kid + "/sign/salt" + str(salt);
			if (!R->mine()) continue;
			if (R->out_of_time()) return;
			if (!R->selected(cell)) continue;
			Key &K = get_key(specs[ki]);
			Key &P = partner_of(K);
			if (salt == 0)
			{
				bool c1 = K.sk->check(), c2 = K.pk->check(), c3 = K.pk2->check();
				R->ok(true);
				if (!c1 || !c2 || !c3)
					R->viol("rabin/check-refuses-generated-key", "check() = " + str(c1) + str(c2) + str(c3) + " (secret, public, re-imported) for generated key " + kid + " type " + K.sk->type, cell);
				std::ostringstream so;
				so << *K.sk;
				TMCG_SecretKey sk2;
				if (!sk2.import(so.str()) || !sk2.check())
					R->viol("rabin/secret-import", "secret key text does not import/check: " + kid, cell);
				// ---- object lifecycle: every way a key object can come into being must behave like the generated one.  Secret key:
				// copy-constructed, copy-assigned into a default-constructed and into another GENERATED key (all members
				// overwritten), imported from the exported text, constructed from the exported text; public key: copy-constructed,
				// assigned (into an empty and into another key's object), made from the secret key, imported.  Each secret
				// variant signs (verified under the original public key) and decrypts a ciphertext made with the original public
				// key; each public variant verifies a signature of the original secret key and encrypts for it.
				{
					std::vector<std::pair<std::string, std::shared_ptr<TMCG_SecretKey> > > sv;
					sv.push_back(std::make_pair("copy-constructed", std::shared_ptr<TMCG_SecretKey>(new TMCG_SecretKey(*K.sk))));
					{ std::shared_ptr<TMCG_SecretKey> a(new TMCG_SecretKey()); *a = *K.sk; sv.push_back(std::make_pair("assigned-to-empty", a)); }
					{ std::shared_ptr<TMCG_SecretKey> a(new TMCG_SecretKey(*P.sk)); *a = *K.sk; sv.push_back(std::make_pair("assigned-over-other-key", a)); }
					{ std::shared_ptr<TMCG_SecretKey> a(new TMCG_SecretKey()); a->import(so.str()); sv.push_back(std::make_pair("imported", a)); }
					{ std::shared_ptr<TMCG_SecretKey> a(new TMCG_SecretKey(*P.sk)); a->import(so.str()); sv.push_back(std::make_pair("imported-over-other-key", a)); }
					sv.push_back(std::make_pair("constructed-from-text", std::shared_ptr<TMCG_SecretKey>(new TMCG_SecretKey(so.str()))));
					{ std::shared_ptr<TMCG_SecretKey> a(new TMCG_SecretKey(*K.sk)); std::shared_ptr<TMCG_SecretKey> b(new TMCG_SecretKey(*a)); a.reset(); sv.push_back(std::make_pair("copy-of-a-destroyed-copy", b)); }
					const bool can_encrypt = mpz_sizeinbase(K.sk->m, 2) >= 672;
					for (size_t vi = 0; vi < sv.size(); vi++)
					{
						TMCG_SecretKey &V = *sv[vi].second;
						R->ok(true);
						R->counters["lifecycle_cells"]++;
						if (!V.check())
							R->viol("rabin/lifecycle/check", "check() refuses the " + sv[vi].first + " secret key of " + kid, cell);
						std::string sg;
						{ Coins c(SEED * 6151 + ki * 31 + vi, 58); sg = V.sign("lifecycle"); }
						if (!K.pk->verify("lifecycle", sg))
							R->viol("rabin/lifecycle/sign", "signature made with the " + sv[vi].first + " secret key is refused by the original public key of " + kid, cell);
						if (can_encrypt)
						{
							tmcg_openpgp_secure_octets_t dummy; (void)dummy;
							unsigned char pt[TMCG_SAEP_S0], out[TMCG_SAEP_S0];
							for (size_t b = 0; b < TMCG_SAEP_S0; b++) pt[b] = (unsigned char)(17 * b + vi + 1);
							std::string ct;
							{ Coins c(SEED * 6173 + ki * 37 + vi, 59); ct = K.pk->encrypt(pt); }
							memset(out, 0, sizeof out);
							if (!V.decrypt(out, ct) || memcmp(out, pt, TMCG_SAEP_S0))
								R->viol("rabin/lifecycle/decrypt", "the " + sv[vi].first + " secret key does not decrypt a ciphertext made for " + kid, cell);
						}
					}
					std::vector<std::pair<std::string, std::shared_ptr<TMCG_PublicKey> > > pv;
					pv.push_back(std::make_pair("copy-constructed", std::shared_ptr<TMCG_PublicKey>(new TMCG_PublicKey(*K.pk))));
					{ std::shared_ptr<TMCG_PublicKey> a(new TMCG_PublicKey()); *a = *K.pk; pv.push_back(std::make_pair("assigned-to-empty", a)); }
					{ std::shared_ptr<TMCG_PublicKey> a(new TMCG_PublicKey(*P.pk)); *a = *K.pk; pv.push_back(std::make_pair("assigned-over-other-key", a)); }
					pv.push_back(std::make_pair("from-secret-key", std::shared_ptr<TMCG_PublicKey>(new TMCG_PublicKey(*K.sk))));
					pv.push_back(std::make_pair("from-copied-secret-key", std::shared_ptr<TMCG_PublicKey>(new TMCG_PublicKey(*sv[1].second))));
					{ std::shared_ptr<TMCG_PublicKey> a(new TMCG_PublicKey(*P.pk)); a->import(K.pubtext); pv.push_back(std::make_pair("imported-over-other-key", a)); }
					pv.push_back(std::make_pair("constructed-from-text", std::shared_ptr<TMCG_PublicKey>(new TMCG_PublicKey(K.pubtext))));
					std::string sg0;
					{ Coins c(SEED * 6197 + ki, 60); sg0 = K.sk->sign("lifecycle-pk"); }
					for (size_t vi = 0; vi < pv.size(); vi++)
					{
						TMCG_PublicKey &V = *pv[vi].second;
						R->ok(true);
						R->counters["lifecycle_cells"]++;
						if (!V.check())
							R->viol("rabin/lifecycle/check", "check() refuses the " + pv[vi].first + " public key of " + kid, cell);
						if (!V.verify("lifecycle-pk", sg0))
							R->viol("rabin/lifecycle/verify", "the " + pv[vi].first + " public key refuses a signature of the original secret key of " + kid, cell);
						if (V.verify("lifecycle-pk.", sg0))
							R->viol("rabin/lifecycle/verify", "the " + pv[vi].first + " public key accepts the signature for other data (" + kid + ")", cell);
						if (can_encrypt)
						{
							unsigned char pt[TMCG_SAEP_S0], out[TMCG_SAEP_S0];
							for (size_t b = 0; b < TMCG_SAEP_S0; b++) pt[b] = (unsigned char)(29 * b + vi + 3);
							std::string ct;
							{ Coins c(SEED * 6199 + ki * 41 + vi, 61); ct = V.encrypt(pt); }
							memset(out, 0, sizeof out);
							if (!K.sk->decrypt(out, ct) || memcmp(out, pt, TMCG_SAEP_S0))
								R->viol("rabin/lifecycle/encrypt", "a ciphertext made with the " + pv[vi].first + " public key is not decrypted by the original secret key of " + kid, cell);
						}
					}
				}
				// a signature whose square (the PRab-padded value w || r* || gamma) starts with a zero octet: verify() must still accept
				{
					size_t mnsize = mpz_sizeinbase(K.sk->m, 2) / 8;
					Z x, sq;
					bool found = false;
					for (unsigned tries = 0; tries < 20000 && !found; tries++)
					{
						std::string sg;
						{
							Coins c(SEED * 8191 + ki * 65537 + tries, 57);
							sg = K.sk->sign("leading zero octet");
						}
						parsez(x.v, sig_value(sg));
						mpz_mul(sq.v, x.v, x.v), mpz_mod(sq.v, sq.v, K.sk->m);
						if (mpz_sizeinbase(sq.v, 2) > 8 * (mnsize - 1))
							continue;
						found = true;
						R->ok(true);
						R->counters["signatures_with_leading_zero_octet"]++;
						if (!K.pk->verify("leading zero octet", sg))
							R->viol("rabin/valid-signature-refused", "signature whose padded value starts with a zero octet is refused: " + shortened(sg, 60), cell);
					}
				}
				R->sample(cell, "key " + K.sk->type + " m=" + shortened(zt(K.sk->m), 40) + " y=" + zt(K.sk->y) + " proof stages " + str(K.S[0]) + "/" + str(K.S[1]) + "/" + str(K.S[2]) + " sig=" + shortened(K.sk->sig, 50));
			}
			for (size_t li = 0; li < lens.size(); li++)
			{
				std::string data = message(lens[li], ki);
				std::string sigs[4];
				Z val[4], sq[4], t;
				size_t attempts = 0;
				for (int root = 0; root < 4; root++)
				{
					uint64_t seed = SEED * 1000003 + ki * 7919 + lens[li];
					{
						Coins c(seed, 55, root, salt);
						sigs[root] = K.sk->sign(data);
						attempts = c.requests(TMCG_PRAB_K0);
						if (c.requests(sizeof(unsigned long)) != 1)
							harness_error("sign() did not make exactly one 8-byte draw for the root choice", cell);
					}
					std::string ctx = "len=" + str(lens[li]) + " root=" + str(root) + " salt=" + str(salt) + " sig=" + shortened(sigs[root], 60);
					bool v1 = K.pk->verify(data, sigs[root]), v2 = K.sk->verify(data, sigs[root]), v3 = K.pk2->verify(data, sigs[root]);
					R->ok(true);
					R->counters["sign_attempts"] += attempts;
					if (!v1 || !v2 || !v3)
						R->viol("rabin/valid-signature-refused", "verify = " + str(v1) + str(v2) + str(v3) + " for a fresh signature; " + ctx, cell);
					std::vector<std::string> dv = data_variants(data);
					for (size_t i = 0; i < dv.size(); i++)
					{
						R->ok(true);
						if (K.pk->verify(dv[i], sigs[root]))
							R->viol("rabin/other-data-accepted", "signature verifies against different data (variant " + str(i) + "); " + ctx, cell);
					}
					R->ok(true);
					if (P.pk->verify(data, sigs[root]))
						R->viol("rabin/other-key-accepted", "signature verifies under another key; " + ctx, cell);
					// same signature relabelled with the other key's id must still fail there
					std::vector<std::string> sp = split(sigs[root], '|');
					if (sp.size() > 2)
					{
						sp[1] = P.pk->keyid();
						R->ok(true);
						if (P.pk->verify(data, join(sp, '|')))
							R->viol("rabin/other-key-accepted", "signature relabelled with the other key id verifies under that key; " + ctx, cell);
					}
					parsez(val[root].v, sig_value(sigs[root]));
					mpz_mul(sq[root].v, val[root].v, val[root].v), mpz_mod(sq[root].v, sq[root].v, K.sk->m);
				}
				// the four steered draws give the four roots of one square: two negation pairs, all distinct
				bool same_square = !mpz_cmp(sq[0].v, sq[1].v) && !mpz_cmp(sq[0].v, sq[2].v) && !mpz_cmp(sq[0].v, sq[3].v);
				bool distinct = true;
				for (int i = 0; i < 4; i++)
					for (int j = 0; j < i; j++)
						if (!mpz_cmp(val[i].v, val[j].v))
							distinct = false;
				int negpairs = 0;
				for (int i = 0; i < 4; i++)
					for (int j = 0; j < i; j++)
					{
						mpz_add(t.v, val[i].v, val[j].v);
						if (!mpz_cmp(t.v, K.sk->m))
							negpairs++;
					}
				R->ok(true);
				if (!same_square || !distinct || negpairs != 2)
					R->viol("rabin/four-roots", "root draw 0..3 on identical coins: same_square=" + str(same_square) + " distinct=" + str(distinct) + " negation pairs=" + str(negpairs) + " len=" + str(lens[li]), cell);
			}
		}
		// ---- encrypt/decrypt
		if (specs[ki].bits < 672)
			continue;
		std::string cell = "rt/" + kid + "/enc";
		if (!R->mine()) continue;
		if (R->out_of_time()) return;
		if (!R->selected(cell)) continue;
		Key &K = get_key(specs[ki]);
		Key &P = partner_of(K);
		size_t s1 = mpz_sizeinbase(K.sk->m, 2) / 8 - 2 * TMCG_SAEP_S0;
		unsigned nrandom = thorough ? 24 : 6;
		for (unsigned pc = 0; pc < 2 + nrandom; pc++)
			for (int salt = 0; salt < 3; salt++)
				for (int via = 0; via < 2; via++)
				{
					unsigned char pt[TMCG_SAEP_S0], out[TMCG_SAEP_S0];
					if (pc == 0) memset(pt, 0x00, sizeof pt);
					else if (pc == 1) memset(pt, 0xFF, sizeof pt);
					else { mcenv::CoinSource r(SEED, 777 + pc + 100 * ki); uint64_t st = r.seed * 31 + pc; for (size_t i = 0; i < sizeof pt; i++) pt[i] = (unsigned char)(mcenv::splitmix(st) >> 13); }
					std::string enc;
					{
						Coins c(SEED * 31 + ki * 101 + pc, 66, -1, salt, s1);
						enc = via ? K.sk->encrypt(pt) : K.pk->encrypt(pt);
					}
					memset(out, 0xA5, sizeof out);
					bool d = K.sk->decrypt(out, enc);
					R->ok(true);
					if (!d || memcmp(out, pt, sizeof pt))
						R->viol("rabin/decrypt-mismatch", "decrypt = " + str(d) + " plaintext class " + str(pc) + " salt " + str(salt) + " enc=" + shortened(enc, 60), cell);
					R->ok(true);
					if (P.sk->decrypt(out, enc))
						R->viol("rabin/other-key-decrypts", "another key decrypts enc=" + shortened(enc, 60), cell);
					std::vector<std::string> ep = split(enc, '|');
					if (ep.size() > 2)
					{
						ep[1] = P.pk->keyid();
						R->ok(true);
						if (P.sk->decrypt(out, join(ep, '|')))
							R->viol("rabin/other-key-decrypts", "another key decrypts the relabelled ciphertext " + shortened(enc, 60), cell);
					}
					if (pc == 2 && salt == 0 && via == 0)
						R->sample(cell, "enc=" + shortened(enc, 70) + " decrypt ok");
				}
		// SAEP-padded values with leading zero octets.  The padded value is the big-endian number Mt || r with
		// Mt = (plaintext || 0^20) xor g(r); the harness picks r (and for the "chosen" class the plaintext) so that the first
		// k octets of Mt are 0x00: the root that decrypt() has to recognise is k octets shorter than usual.
		for (int cls = 0; cls < 3; cls++)
			for (size_t k = 1; k <= TMCG_SAEP_S0; k = (k < 3 ? k + 1 : (k == 3 ? TMCG_SAEP_S0 : TMCG_SAEP_S0 + 1)))
			{
				if (cls < 2 && k > 1)
					break;
				std::vector<unsigned char> r(s1), g12(2 * TMCG_SAEP_S0);
				unsigned char pt[TMCG_SAEP_S0], out[TMCG_SAEP_S0];
				uint64_t st = SEED * 977 + ki * 131 + cls * 17 + k;
				for (unsigned tries = 0; tries < 100000; tries++)
				{
					for (size_t i = 0; i < s1; i++)
						r[i] = (unsigned char)(mcenv::splitmix(st) >> 11);
					tmcg_g(g12.data(), g12.size(), r.data(), s1);
					if (cls == 2 || g12[0] == (cls == 0 ? 0x00 : 0xFF))
						break;
				}
				if (cls == 0) memset(pt, 0x00, sizeof pt);
				else if (cls == 1) memset(pt, 0xFF, sizeof pt);
				else
					for (size_t i = 0; i < sizeof pt; i++)
						pt[i] = i < k ? g12[i] : (unsigned char)(g12[i] ^ (0x11 + i));   // exactly k leading zero octets
				for (int via = 0; via < 2; via++)
				{
					std::string enc;
					{
						FixedCoins c(SEED + ki, 68, r);
						enc = via ? K.sk->encrypt(pt) : K.pk->encrypt(pt);
					}
					// confirm with the harness' own SAEP computation that this ciphertext is the square of a value with k leading zero octets
					std::vector<unsigned char> yy(2 * TMCG_SAEP_S0 + s1);
					for (size_t i = 0; i < 2 * TMCG_SAEP_S0; i++)
						yy[i] = (unsigned char)((i < TMCG_SAEP_S0 ? pt[i] : 0) ^ g12[i]);
					memcpy(yy.data() + 2 * TMCG_SAEP_S0, r.data(), s1);
					Z v, c;
					mpz_import(v.v, yy.size(), 1, 1, 1, 0, yy.data());
					bool lead = mpz_sizeinbase(v.v, 2) <= 8 * (yy.size() - k);
					mpz_mul(v.v, v.v, v.v), mpz_mod(v.v, v.v, K.sk->m);
					std::vector<std::string> ep = split(enc, '|');
					bool confirmed = lead && ep.size() > 2 && parsez(c.v, ep[2]) && !mpz_cmp(c.v, v.v);
					R->counters[confirmed ? "saep_leading_zero_octets_confirmed" : "saep_leading_zero_octets_unconfirmed"]++;
					memset(out, 0xA5, sizeof out);
					bool d = K.sk->decrypt(out, enc);
					R->ok(true);
					if (!d || memcmp(out, pt, sizeof pt))
						R->viol("rabin/decrypt-mismatch", "decrypt = " + str(d) + " for a padded value with " + str(k) + " leading zero octet(s), plaintext class " + str(cls) + " enc=" + shortened(enc, 60), cell);
				}
			}
	}
}

// ---------------------------------------------------------------------------------------------- tsig / tenc
static void fam_tsig()
{
	std::vector<KeySpec> specs = pool_specs(true);
	size_t lens[] = { 0, 16, 130, 1, 53, 4096 };
	for (size_t ki = 0; ki < specs.size(); ki++)
		for (size_t li = 0; li < (thorough ? 6u : 3u); li++)
			for (int root = 0; root < 4; root++)
			{
				std::string cell = "tsig/" + spec_id(specs[ki]) + "/len" + str(lens[li]) + "/root" + str(root);
				if (!R->mine()) continue;
				if (R->out_of_time()) return;
				if (!R->selected(cell)) continue;
				Key &K = get_key(specs[ki]);
				Key &P = partner_of(K);
				std::string data = message(lens[li], ki), sig, sig_other;
				{
					Coins c(SEED * 77 + ki * 31 + li, 56, root, 0);
					sig = K.sk->sign(data);
				}
				{
					Coins c(SEED * 77 + ki * 31 + li, 56, (root + 2) % 4, 0);   // a root of the other negation pair of the same square
					sig_other = K.sk->sign(data);
				}
				Doc d;
				d.f = split(sig, '|');
				d.nizk_field = -1;
				if (d.f.size() != 4)
				{
					R->viol("rabin/signature-format", "signature text does not have 3 fields: " + shortened(sig), cell);
					continue;
				}
				std::vector<Slot> slots;
				slots.push_back(Slot{0, -1, K_MAGIC, "magic"});
				slots.push_back(Slot{1, -1, K_KEYID, "keyid"});
				slots.push_back(Slot{2, -1, K_NUM, "root"});
				auto run = [&](const std::string &what, const std::string &mutname, const std::string &text) {
					// the genuine signature is verified right before the altered one: a verifier must not depend on its history
					if (!K.pk->verify(data, sig))
						R->viol("rabin/valid-signature-refused", "genuine signature refused: " + shortened(sig, 60), cell);
					bool acc = K.pk->verify(data, text);
					Sem sem = sem_sig(text, sig, K.sk->m, K.selfid);
					R->ok(note_distinct(cell, text, sig));
					judge(sem, acc, "rabin/sig", what, mutname, cell, text);
				};
				run("none", "unaltered", sig);
				mutate_doc(d, slots, K.sk->m, P.pk->keyid(), [&](const Slot &s, const std::string &mn, const std::string &text) { run(s.label, mn, text); });
				// other root of the same square, junk behind the last separator, whitespace inside the number
				{
					Doc x = d; x.f[2] = sig_value(sig_other); run("root", "other-root-pair", x.text());
					run("tail", "junk-after-last-separator", sig + "junk");
					x = d; x.f[2] = " " + d.f[2]; run("root", "leading-space", x.text());
					x = d; x.f[2] = "0" + d.f[2]; run("root", "leading-zero", x.text());
				}
				if (root == 0 && li == 1)
					R->sample(cell, "sig=" + shortened(sig, 70) + " every field x catalogue");
			}
}

static void fam_tenc()
{
	std::vector<KeySpec> specs = pool_specs(true);
	for (size_t ki = 0; ki < specs.size(); ki++)
		for (unsigned pc = 0; pc < 3; pc++)
		{
			if (specs[ki].bits < 672)
				continue;
			std::string cell = "tenc/" + spec_id(specs[ki]) + "/pt" + str(pc);
			if (!R->mine()) continue;
			if (R->out_of_time()) return;
			if (!R->selected(cell)) continue;
			Key &K = get_key(specs[ki]);
			Key &P = partner_of(K);
			unsigned char pt[TMCG_SAEP_S0], out[TMCG_SAEP_S0];
			memset(pt, pc == 0 ? 0x00 : 0xFF, sizeof pt);
			if (pc == 2) for (size_t i = 0; i < sizeof pt; i++) pt[i] = (unsigned char)(i * 11 + ki);
			std::string enc;
			{
				Coins c(SEED * 13 + ki * 7 + pc, 67);
				enc = K.pk->encrypt(pt);
			}
			Doc d;
			d.f = split(enc, '|');
			d.nizk_field = -1;
			if (d.f.size() != 4)
			{
				R->viol("rabin/ciphertext-format", "ciphertext text does not have 3 fields: " + shortened(enc), cell);
				continue;
			}
			std::vector<Slot> slots;
			slots.push_back(Slot{0, -1, K_MAGIC, "magic"});
			slots.push_back(Slot{1, -1, K_KEYID, "keyid"});
			slots.push_back(Slot{2, -1, K_NUM, "value"});
			auto run = [&](const std::string &what, const std::string &mutname, const std::string &text) {
				zero_square = false;
				Sem sem = sem_enc(text, enc, K.sk->m, K.selfid);
				unsigned char tmp[TMCG_SAEP_S0];
				if (!K.sk->decrypt(tmp, enc))   // genuine ciphertext first: decrypt must not depend on its history
					R->viol("rabin/decrypt-mismatch", "genuine ciphertext refused", cell);
				memset(out, 0xA5, sizeof out);
				bool acc = K.sk->decrypt(out, text);
				R->ok(note_distinct(cell, text, enc));
				if (acc && sem != SEM_DIFF && memcmp(out, pt, sizeof pt))
					R->viol("rabin/decrypt-mismatch", "equivalent ciphertext (" + mutname + ") decrypts to other bytes", cell);
				judge(sem, acc, "rabin/enc", what, mutname, cell, text);
			};
			run("none", "unaltered", enc);
			mutate_doc(d, slots, K.sk->m, P.pk->keyid(), [&](const Slot &s, const std::string &mn, const std::string &text) { run(s.label, mn, text); });
			{
				// the squares of the other three roots' negations etc. are the same number; additionally try c * 4 (square of 2x: a valid
				// Rabin ciphertext of a different padded value) and -c
				Z c, t;
				parsez(c.v, d.f[2]);
				Doc x = d;
				mpz_mul_ui(t.v, c.v, 4), mpz_mod(t.v, t.v, K.sk->m); x.f[2] = zt(t.v); run("value", "4c (square of 2x)", x.text());
				mpz_sub(t.v, K.sk->m, c.v); x.f[2] = zt(t.v); run("value", "m-c", x.text());
				run("tail", "junk-after-last-separator", enc + "junk");
			}
			if (pc == 2)
				R->sample(cell, "enc=" + shortened(enc, 70) + " every field x catalogue");
		}
}

// ---------------------------------------------------------------------------------------------- tkey
// positions of the proof elements inside the '^' split: nz = ["nzk", S1, e.., S2, e.., S3, e.., ""]
struct NzLayout { size_t counter[3]; std::vector<size_t> elem[3]; };
static NzLayout layout(const Key &K)
{
	NzLayout L;
	size_t pos = 1;
	for (int st = 0; st < 3; st++)
	{
		L.counter[st] = pos++;
		if (K.spec.nizk)
			for (size_t i = 0; i < K.S[st]; i++)
				L.elem[st].push_back(pos++);
	}
	return L;
}
static std::vector<size_t> pick_positions(size_t n, bool all)
{
	std::vector<size_t> v;
	if (all || n <= 12)
	{
		for (size_t i = 0; i < n; i++) v.push_back(i);
		return v;
	}
	std::set<size_t> s;
	if (thorough) { for (size_t i = 0; i < n; i += 8) s.insert(i); }
	s.insert(0), s.insert(1), s.insert(n / 2), s.insert(n - 2), s.insert(n - 1);
	return std::vector<size_t>(s.begin(), s.end());
}

static void fam_tkey()
{
	std::vector<KeySpec> specs = pool_specs(true);
	for (size_t ki = 0; ki < specs.size(); ki++)
	{
		// one cell per key and part: 0 = '|' fields, 1..3 = proof stage
		for (int part = 0; part < 4; part++)
		{
			if (part > 0 && !specs[ki].nizk)
				continue;
			std::string cell = "tkey/" + spec_id(specs[ki]) + "/part" + str(part);
			if (!R->mine()) continue;
			if (R->out_of_time()) return;
			if (!R->selected(cell)) continue;
			Key &K = get_key(specs[ki]);
			Key &P = partner_of(K);
			Doc d;
			d.f = split(K.pubtext, '|');
			if (d.f.size() != 11)
			{
				R->viol("rabin/key-format", "public key text does not have 10 fields: " + shortened(K.pubtext), cell);
				continue;
			}
			d.nizk_field = 6;
			d.nz = split(d.f[6], '^');
			NzLayout L = layout(K);
			std::vector<Slot> slots;
			if (part == 0)
			{
				slots.push_back(Slot{0, -1, K_MAGIC, "magic"});
				slots.push_back(Slot{1, -1, K_TEXT, "name"});
				slots.push_back(Slot{2, -1, K_TEXT, "email"});
				slots.push_back(Slot{3, -1, K_TEXT, "type"});
				slots.push_back(Slot{4, -1, K_NUM, "modulus"});
				slots.push_back(Slot{5, -1, K_NUM, "y"});
				slots.push_back(Slot{6, 0, K_MAGIC, "proof-magic"});
				for (int st = 0; st < 3; st++)
					slots.push_back(Slot{6, (int)L.counter[st], K_COUNTER, "stage" + str(st + 1) + "-counter"});
				slots.push_back(Slot{7, -1, K_MAGIC, "selfsig-magic"});
				slots.push_back(Slot{8, -1, K_KEYID, "selfsig-keyid"});
				slots.push_back(Slot{9, -1, K_NUM, "selfsig-root"});
			}
			else
			{
				std::vector<size_t> pp = pick_positions(L.elem[part - 1].size(), L.elem[0].size() + L.elem[1].size() + L.elem[2].size() <= 40);
				for (size_t i = 0; i < pp.size(); i++)
					slots.push_back(Slot{6, (int)L.elem[part - 1][pp[i]], K_NUM, "stage" + str(part) + "-element"});
			}
			auto run = [&](const std::string &what, const std::string &mutname, const std::string &text) {
				TMCG_PublicKey pk;
				bool imp = pk.import(text);
				bool acc = imp && pk.check();
				Sem sem = sem_key(text, K);
				R->ok(note_distinct(cell, text, K.pubtext));
				judge(sem, acc, "rabin/key", what, mutname, cell, text);
			};
			if (part == 0)
			{
				run("none", "unaltered", K.pubtext);
				// the self-signature of another key / a signature by this key over other data in place of the self-signature
				Doc x = d;
				std::vector<std::string> ps = split(P.sk->sig, '|');
				x.f[7] = ps[0], x.f[8] = ps[1], x.f[9] = ps[2];
				run("selfsig", "selfsig-of-other-key", x.text());
				std::string s2;
				{
					Coins c(SEED + ki, 58);
					s2 = K.sk->sign("something else");
				}
				ps = split(s2, '|');
				x.f[7] = ps[0], x.f[8] = ps[1], x.f[9] = ps[2];
				run("selfsig", "own-signature-over-other-data", x.text());
				// negated self-signature root with the key id adjusted to the new root text
				Z r, t;
				parsez(r.v, d.f[9]);
				mpz_sub(t.v, K.sk->m, r.v);
				x = d, x.f[9] = zt(t.v), x.f[8] = keyid_n(x.f[9], TMCG_KEYID_SIZE);
				run("selfsig", "negated-root-with-matching-keyid", x.text());
			}
			mutate_doc(d, slots, K.sk->m, P.pk->keyid(), [&](const Slot &s, const std::string &mn, const std::string &text) { run(s.label, mn, text); });
			if (part == 0)
				R->sample(cell, "pub=" + shortened(K.pubtext, 80) + " every field x catalogue, no re-signing");
		}
	}
}

// ---------------------------------------------------------------------------------------------- nizk (key owner as adversary)
// copy of the proof loops of TMCG_SecretKey::generate() with free stage counts and a free y; `valid` tells whether every
// element could be computed (a square root existed)
static std::string prove(const TMCG_SecretKey &sk, mpz_srcptr y, const size_t cnt[3], bool &valid, std::vector<Z> *elems = nullptr)
{
	valid = true;
	mpz_srcptr m = sk.m, p = sk.p, q = sk.q;
	Z foo, bar;
	std::ostringstream nizk2, input;
	input << m << "^" << y, nizk2 << "nzk^";
	size_t mnsize = mpz_sizeinbase(m, 2UL) / 8;
	std::vector<unsigned char> mn(mnsize);
	nizk2 << cnt[0] << "^";
	for (size_t i = 0; i < cnt[0]; i++)
	{
		do
		{
			tmcg_g(mn.data(), mnsize, (unsigned char *)(input.str()).c_str(), (input.str()).length());
			mpz_import(foo.v, 1, -1, mnsize, 1, 0, mn.data());
			mpz_mod(foo.v, foo.v, m);
			mpz_gcd(bar.v, foo.v, m);
			input << foo.v;
		}
		while (mpz_cmp_ui(bar.v, 1UL));
		mpz_powm(bar.v, foo.v, sk.m1pq, m);
		nizk2 << bar.v << "^";
		if (elems) elems->push_back(bar);
	}
	nizk2 << cnt[1] << "^";
	for (size_t i = 0; i < cnt[1]; i++)
	{
		do
		{
			tmcg_g(mn.data(), mnsize, (unsigned char *)(input.str()).c_str(), (input.str()).length());
			mpz_import(foo.v, 1, -1, mnsize, 1, 0, mn.data());
			mpz_mod(foo.v, foo.v, m);
			mpz_gcd(bar.v, foo.v, m);
			input << foo.v;
		}
		while (mpz_cmp_ui(bar.v, 1UL));
		bool found = false;
		for (int k = 0; k < 4 && !found; k++)
		{
			// foo, -foo, -2foo... in the order of generate(): foo, -foo, -2foo (mul_2exp of the negated), 2foo
			if (k == 1) mpz_neg(foo.v, foo.v);
			if (k == 2) mpz_mul_2exp(foo.v, foo.v, 1UL);
			if (k == 3) mpz_neg(foo.v, foo.v);
			if (tmcg_mpz_qrmn_p(foo.v, p, q))
			{
				tmcg_mpz_sqrtmn_r(bar.v, foo.v, p, q, m);
				found = true;
			}
		}
		if (!found)
			mpz_set_ui(bar.v, 0UL), valid = false;
		nizk2 << bar.v << "^";
		if (elems) elems->push_back(bar);
	}
	nizk2 << cnt[2] << "^";
	for (size_t i = 0; i < cnt[2]; i++)
	{
		do
		{
			tmcg_g(mn.data(), mnsize, (unsigned char *)(input.str()).c_str(), (input.str()).length());
			mpz_import(foo.v, 1, -1, mnsize, 1, 0, mn.data());
			mpz_mod(foo.v, foo.v, m);
			input << foo.v;
		}
		while (mpz_jacobi(foo.v, m) != 1);
		if (!tmcg_mpz_qrmn_p(foo.v, p, q))
		{
			mpz_mul(foo.v, foo.v, y);
			mpz_mod(foo.v, foo.v, m);
		}
		if (tmcg_mpz_qrmn_p(foo.v, p, q))
			tmcg_mpz_sqrtmn_r(bar.v, foo.v, p, q, m);
		else
			mpz_set_ui(bar.v, 0UL), valid = false;
		nizk2 << bar.v << "^";
		if (elems) elems->push_back(bar);
	}
	return nizk2.str();
}

// re-make the self-signature exactly as generate() does and return the public key text
static std::string resign(const Key &K, const std::string &nizk, mpz_srcptr y, uint64_t coin)
{
	TMCG_SecretKey k(*K.sk);
	k.nizk = nizk;
	mpz_set(k.y, y);
	k.sig = "";
	std::ostringstream data, repl;
	data << k.name << "|" << k.email << "|" << k.type << "|" << k.m << "|" << k.y << "|" << k.nizk << "|";
	{
		Coins c(SEED * 5 + coin, 59);
		k.sig = k.sign(data.str());
	}
	repl << "ID" << TMCG_KEYID_SIZE << "^";
	k.sig.replace(k.sig.find(repl.str()), (repl.str()).length() + TMCG_KEYID_SIZE, k.keyid());
	TMCG_PublicKey pub(k);
	std::ostringstream o;
	o << pub;
	return o.str();
}

static bool import_check(const std::string &text)
{
	TMCG_PublicKey pk;
	return pk.import(text) && pk.check();
}

// what is explored per key: box 1 = {S-1,S} single deviations, 2 = {S-1,S,S+1} single deviations, 3 = {S-1,S,S+1}^3, 4 = {0..S+1}^3;
// elems 1 = first and last element of each stage, 2 = pick_positions(), 3 = every element; reduced = short catalogue
struct NizkPlan { KeySpec spec; int box; int elems; bool reduced; bool counters_y; };

static void fam_nizk()
{
	bool small_counts = MINS[0] + MINS[1] + MINS[2] <= 40;
	std::vector<NizkPlan> plans;
	if (small_counts)
	{
		plans.push_back(NizkPlan{KeySpec{704, true, 0}, 4, 3, false, true});
		plans.push_back(NizkPlan{KeySpec{448, true, 0}, thorough ? 4 : 3, 3, false, true});
		if (thorough)
		{
			plans.push_back(NizkPlan{KeySpec{672, true, 1}, 4, 3, false, true});
			plans.push_back(NizkPlan{KeySpec{704, true, 2}, 4, 3, false, true});
			plans.push_back(NizkPlan{KeySpec{1024, true, 0}, 3, 3, false, true});
		}
	}
	else
	{
		// default counts 16/128/128: proving and checking cost 0.2 - 3 s each
		plans.push_back(NizkPlan{KeySpec{448, true, 0}, thorough ? 3 : 1, thorough ? 2 : 1, true, true});
		if (thorough)
		{
			plans.push_back(NizkPlan{KeySpec{704, true, 0}, 2, 2, true, true});
			plans.push_back(NizkPlan{KeySpec{2048, true, 0}, 1, 1, true, false});
		}
	}
	// a key WITHOUT proof, y replaced by the least value of Jacobi symbol -1 and re-signed by the owner: only the Jacobi
	// sanity test of check() can refuse it (y' of Jacobi +1 cannot be judged for such a key: nothing proves y is a non-residue)
	{
		std::string cell = "nizk/k704p0/jacobi-minus-one";
		if (R->mine() && !R->out_of_time() && R->selected(cell))
		{
			Key &K = get_key(KeySpec{704, false, 0});
			Z y2;
			for (mpz_set_ui(y2.v, 2); mpz_jacobi(y2.v, K.sk->m) != -1; mpz_add_ui(y2.v, y2.v, 1)) ;
			R->ok(true);
			if (import_check(resign(K, K.sk->nizk, y2.v, 9300)))
				R->viol("rabin/key/jacobi-minus-one-y-accepted", "key without proof, y' = " + zt(y2.v) + " (Jacobi symbol -1), re-signed: check() = true", cell);
			else
				tally.refused++;
			R->ok(false);
			if (!import_check(resign(K, K.sk->nizk, K.sk->y, 9301)))
				R->viol("rabin/nizk/valid-proof-refused", "re-signed unaltered key without proof is refused", cell);
		}
	}
	for (size_t ki = 0; ki < plans.size(); ki++)
	{
		const NizkPlan &plan = plans[ki];
		const KeySpec spec = plan.spec;
		std::string kid = spec_id(spec);
		// ---- (a) stage-count vectors with correct proofs
		std::vector<std::vector<size_t> > range(3);
		for (int st = 0; st < 3; st++)
		{
			if (plan.box == 4)
				for (size_t c = 0; c <= MINS[st] + 1; c++) range[st].push_back(c);
			else
			{
				range[st].push_back(MINS[st] - 1), range[st].push_back(MINS[st]);
				if (plan.box >= 2) range[st].push_back(MINS[st] + 1);
			}
		}
		for (size_t i0 = 0; i0 < range[0].size(); i0++)
			for (size_t i1 = 0; i1 < range[1].size(); i1++)
			{
				if (plan.box <= 2 && range[0][i0] != MINS[0] && range[1][i1] != MINS[1])
					continue;   // single deviations only
				std::string cell = "nizk/" + kid + "/counts/" + str(range[0][i0]) + "," + str(range[1][i1]);
				if (!R->mine()) continue;
				if (R->out_of_time()) return;
				if (!R->selected(cell)) continue;
				Key &K = get_key(spec);
				for (size_t i2 = 0; i2 < range[2].size(); i2++)
				{
					size_t cnt[3] = { range[0][i0], range[1][i1], range[2][i2] };
					if (plan.box <= 2 && (cnt[0] != MINS[0]) + (cnt[1] != MINS[1]) + (cnt[2] != MINS[2]) > 1)
						continue;
					bool valid;
					std::string nz = prove(*K.sk, K.sk->y, cnt, valid);
					if (!valid)
					{
						harness_error("harness prover could not prove a generated key", cell);
						continue;
					}
					if (cnt[0] == MINS[0] && cnt[1] == MINS[1] && cnt[2] == MINS[2] && nz != K.sk->nizk)
					{
						harness_error("harness prover does not reproduce the library's proof text for the compiled counts", cell);
						continue;
					}
					std::string text = resign(K, nz, K.sk->y, ki * 1000 + cnt[0] * 100 + cnt[1] * 10 + cnt[2]);
					bool expect = cnt[0] >= MINS[0] && cnt[1] >= MINS[1] && cnt[2] >= MINS[2];
					bool got = import_check(text);
					std::string tag = str(cnt[0]) + "/" + str(cnt[1]) + "/" + str(cnt[2]);
					R->ok(!(cnt[0] == MINS[0] && cnt[1] == MINS[1] && cnt[2] == MINS[2]));
					if (got && !expect)
						R->viol("rabin/nizk/short-proof-accepted", "a correct, re-signed proof with stage counts " + tag + " (required " + str(MINS[0]) + "/" + str(MINS[1]) + "/" + str(MINS[2]) + ") passes check(), key " + kid, cell);
					else if (!got && expect)
						R->viol("rabin/nizk/valid-proof-refused", "a correct, re-signed proof with stage counts " + tag + " is refused, key " + kid, cell);
					R->counters[expect ? "count_vectors_accepted" : "count_vectors_refused"]++;
					if (cnt[0] == MINS[0] - 1 && cnt[1] == MINS[1] && cnt[2] == MINS[2])
						R->sample(cell, "counts " + tag + " with a correct proof and a fresh self-signature: check()=" + str(got));
				}
			}
		// ---- (b) element alterations, (c) counter text, re-signed
		{
			Key *Kp = nullptr;
			NzLayout L;
			std::vector<std::string> nz0;
			for (int st = 0; st < 3; st++)
			{
				size_t n = MINS[st];
				std::vector<size_t> pp = pick_positions(n, plan.elems == 3);
				if (plan.elems == 1) { pp.clear(); pp.push_back(0); pp.push_back(n - 1); }
				for (size_t pi = 0; pi < pp.size(); pi++)
				{
					std::string cell = "nizk/" + kid + "/elem/s" + str(st + 1) + "/" + str(pp[pi]);
					if (!R->mine()) continue;
					if (R->out_of_time()) return;
					if (!R->selected(cell)) continue;
					if (!Kp) { Kp = &get_key(spec); L = layout(*Kp); nz0 = split(Kp->sk->nizk, '^'); }
					Key &K = *Kp;
					size_t idx = L.elem[st][pp[pi]];
					Z e, t, u, x;
					parsez(e.v, nz0[idx]);
					std::vector<Mut> muts;
					numeric_catalogue(nz0[idx], K.sk->m, muts);
					// another square root of e^2: e * (vq - up) mod m
					mpz_sub(t.v, K.sk->gcdext_vq, K.sk->gcdext_up), mpz_mul(t.v, t.v, e.v), mpz_mod(t.v, t.v, K.sk->m);
					muts.push_back(Mut{"other-root", zt(t.v)});
					if (plan.reduced)
					{
						// default counts: reduced catalogue (each check() costs ~0.2-0.5 s)
						std::vector<Mut> red;
						for (size_t i = 0; i < muts.size(); i++)
							if (muts[i].name == "v+1" || muts[i].name == "m-v" || muts[i].name == "0" || muts[i].name == "droplast" || muts[i].name == "other-root" || (thorough && (muts[i].name == "v+m" || muts[i].name == "empty")))
								red.push_back(muts[i]);
						muts = red;
					}
					if (pp[pi] + 1 < n)
						muts.push_back(Mut{"swapnext", "\x01"});
					for (size_t mi = 0; mi < muts.size(); mi++)
					{
						std::vector<std::string> nz = nz0;
						bool pass;      // does the proof still verify according to the algebra?
						if (muts[mi].text == "\x01")
						{
							std::swap(nz[idx], nz[idx + 1]);
							Z f;
							parsez(f.v, nz0[idx + 1]);
							if (st == 0)
								pass = mpz_congruent_p(e.v, f.v, K.sk->m) != 0;
							else
							{
								mpz_mul(t.v, e.v, e.v), mpz_mul(u.v, f.v, f.v);
								pass = mpz_congruent_p(t.v, u.v, K.sk->m) != 0;
							}
						}
						else
						{
							nz[idx] = muts[mi].text;
							if (!parsez(x.v, muts[mi].text))
								pass = false;
							else if (st == 0)
								pass = mpz_congruent_p(x.v, e.v, K.sk->m) != 0;
							else
							{
								mpz_mul(t.v, e.v, e.v), mpz_mul(u.v, x.v, x.v);
								pass = mpz_congruent_p(t.v, u.v, K.sk->m) != 0;
							}
						}
						std::string text = resign(K, join(nz, '^'), K.sk->y, 7000 + idx * 50 + mi);
						bool got = import_check(text);
						R->ok(true);
						std::string ctx = "stage " + str(st + 1) + " element " + str(pp[pi]) + " -> " + muts[mi].name + " (re-signed), key " + kid;
						if (!pass && got)
							R->viol("rabin/nizk/altered-proof-accepted", ctx + ": check() = true", cell);
						else if (pass)
						{
							(got ? tally.equiv_accepted : tally.equiv_refused)++;
							tally.equiv_names["stage" + str(st + 1) + "-element:" + muts[mi].name + (got ? ":accepted" : ":refused")]++;
						}
						else
							tally.refused++;
					}
					if (pp[pi] == 0)
						R->sample(cell, "element " + shortened(nz0[idx], 50) + " x " + str(muts.size()) + " alterations, each re-signed with the secret key");
				}
			}
			// (c) counter text with unchanged elements + (d) y'
			std::string cell = "nizk/" + kid + "/counters+y";
			bool mine = R->mine();
			if (mine && !R->out_of_time() && R->selected(cell) && plan.counters_y)
			{
				Key &K = get_key(spec);
				NzLayout L2 = layout(K);
				std::vector<std::string> nzk = split(K.sk->nizk, '^');
				for (int st = 0; st < 3; st++)
				{
					std::vector<Mut> muts;
					catalogue(K_COUNTER, nzk[L2.counter[st]], K.sk->m, "", muts);
					for (size_t mi = 0; mi < muts.size(); mi++)
					{
						std::vector<std::string> nz = nzk;
						nz[L2.counter[st]] = muts[mi].text;
						std::string text = resign(K, join(nz, '^'), K.sk->y, 9000 + st * 20 + mi);
						bool got = import_check(text);
						R->ok(true);
						if (got)
							R->viol("rabin/nizk/counter-text-accepted", "stage " + str(st + 1) + " counter -> '" + muts[mi].text + "' with unchanged elements (re-signed): check() = true", cell);
						else
							tally.refused++;
					}
				}
				{
					std::vector<std::string> nz = nzk;
					nz[0] = "nzK";
					R->ok(true);
					if (import_check(resign(K, join(nz, '^'), K.sk->y, 9100)))
						R->viol("rabin/nizk/magic-accepted", "proof magic 'nzK' accepted", cell);
					R->ok(true);
					if (import_check(resign(K, "", K.sk->y, 9101)))
						R->viol("rabin/nizk/empty-proof-accepted", "empty proof accepted for a NIZK-type key", cell);
					R->ok(true);
					size_t zero[3] = {0, 0, 0};
					bool v;
					if (import_check(resign(K, prove(*K.sk, K.sk->y, zero, v), K.sk->y, 9102)))
						R->viol("rabin/nizk/short-proof-accepted", "proof 'nzk^0^0^0^' accepted for a NIZK-type key", cell);
				}
				// (d) y'
				Z y2, t;
				std::vector<std::pair<std::string, Z> > ys;
				mpz_mul_ui(y2.v, K.sk->y, 4); ys.push_back(std::make_pair("4y", y2));
				mpz_set_ui(y2.v, 4); ys.push_back(std::make_pair("4", y2));
				mpz_mul(y2.v, K.sk->y, K.sk->y); ys.push_back(std::make_pair("y^2", y2));
				mpz_sub(y2.v, K.sk->m, K.sk->y); ys.push_back(std::make_pair("m-y", y2));
				for (mpz_set_ui(y2.v, 2); mpz_jacobi(y2.v, K.sk->m) != -1; mpz_add_ui(y2.v, y2.v, 1)) ;
				ys.push_back(std::make_pair("jacobi-1", y2));
				mpz_add(y2.v, K.sk->y, K.sk->m); ys.push_back(std::make_pair("y+m", y2));
				for (size_t yi = 0; yi < ys.size(); yi++)
				{
					size_t cnt[3] = { MINS[0], MINS[1], MINS[2] };
					bool valid;
					std::string nz = prove(*K.sk, ys[yi].second.v, cnt, valid);
					bool expect = valid && mpz_jacobi(ys[yi].second.v, K.sk->m) == 1;
					bool got = import_check(resign(K, nz, ys[yi].second.v, 9200 + yi));
					R->ok(true);
					R->counters[expect ? "yprime_predicted_accept" : "yprime_predicted_refuse"]++;
					if (got != expect)
						R->viol(got ? "rabin/nizk/bad-y-accepted" : "rabin/nizk/good-y-refused", "y' = " + ys[yi].first + " with a proof recomputed by the key owner: check() = " + str(got) + ", predicted from the factors " + str(expect), cell);
				}
			}
		}
	}
}

// ---------------------------------------------------------------------------------------------- forge (key owner alters the padded encoding)
// The PRab encoding of a signature is the mnsize-octet big-endian number  w (32) || r* (20) || gamma (mnsize-52)  = s^2 mod m.
// Random text mutations of the root never produce an encoding that differs from a genuine one in a single octet; the owner
// of the primes can: alter one octet, adjust the same octet until the value is a quadratic residue, take the four roots.
static const char *forge_region(size_t pos, size_t mnsize)
{
	size_t mdsize = gcry_md_get_algo_dlen(TMCG_GCRY_MD_ALGO);
	if (pos < mdsize) return "w";
	if (pos < mdsize + TMCG_PRAB_K0) return "salt";
	if (pos == mnsize - 1) return "gamma-last";
	if (pos < 2 * mdsize + TMCG_PRAB_K0) return "gamma-head";
	return "gamma-tail";
}

static void fam_forge()
{
	std::vector<KeySpec> specs = pool_specs(false);
	specs.push_back(KeySpec{1024, false, 0});
	if (thorough)
	{
		specs.push_back(KeySpec{1024, true, 0});
		specs.push_back(KeySpec{2048, false, 0});
	}
	size_t lens[] = { 0, 16, 130, 1, 53, 4096 };
	for (size_t ki = 0; ki < specs.size(); ki++)
		for (size_t li = 0; li < (thorough ? 6u : 3u); li++)
		{
			std::string cell = "forge/" + spec_id(specs[ki]) + "/len" + str(lens[li]);
			if (!R->mine()) continue;
			if (R->out_of_time()) return;
			if (!R->selected(cell)) continue;
			Key &K = get_key(specs[ki]);
			mpz_srcptr m = K.sk->m;
			size_t mnsize = mpz_sizeinbase(m, 2) / 8;
			std::string data = message(lens[li], ki + 40), sig;
			{
				Coins c(SEED * 271 + ki * 37 + li, 60);
				sig = K.sk->sign(data);
			}
			std::vector<std::string> sp = split(sig, '|');
			Z s, e, t, u, unit;
			if (sp.size() != 4 || !parsez(s.v, sp[2]))
			{
				R->viol("rabin/signature-format", "signature text does not have 3 fields: " + shortened(sig), cell);
				continue;
			}
			mpz_mul(e.v, s.v, s.v), mpz_mod(e.v, e.v, m);
			// non-trivial square root of 1: 1 mod p, -1 mod q
			mpz_sub(unit.v, K.sk->gcdext_vq, K.sk->gcdext_up), mpz_mod(unit.v, unit.v, m);
			auto four_roots = [&](mpz_srcptr root, Z out[4]) {
				mpz_mod(out[0].v, root, m);
				mpz_sub(out[1].v, m, out[0].v);
				mpz_mul(out[2].v, out[0].v, unit.v), mpz_mod(out[2].v, out[2].v, m);
				mpz_sub(out[3].v, m, out[2].v);
			};
			auto sigtext = [&](mpz_srcptr root) { return sp[0] + "|" + sp[1] + "|" + zt(root) + "|"; };
			// converse sanity: the four roots of the unaltered encoding
			{
				Z rt[4];
				four_roots(s.v, rt);
				for (int k = 0; k < 4; k++)
				{
					bool acc = K.pk->verify(data, sigtext(rt[k].v));
					R->ok(k != 0);
					if (k < 2 && !acc)
						R->viol("rabin/sig/equivalent-refused/root", std::string(k ? "negated root" : "genuine root") + " of the unaltered encoding refused, key " + spec_id(specs[ki]), cell);
					else if (k < 2)
						tally.mustaccept++;
					else
					{
						(acc ? tally.equiv_accepted : tally.equiv_refused)++;
						tally.equiv_names[std::string("root:other-root-pair(forge)") + (acc ? ":accepted" : ":refused")]++;
					}
				}
			}
			std::vector<unsigned char> enc(mnsize, 0), alt;
			{
				// big-endian, left padded to mnsize octets
				size_t cnt = 0;
				std::vector<unsigned char> tmp(mnsize + 8, 0);
				mpz_export(tmp.data(), &cnt, 1, 1, 1, 0, e.v);
				if (cnt > mnsize)
				{
					harness_error("square of a genuine signature does not fit the encoding size", cell);
					continue;
				}
				memcpy(enc.data() + (mnsize - cnt), tmp.data(), cnt);
			}
			for (size_t pos = 0; pos < mnsize; pos++)
				for (int fl = 0; fl < 2; fl++)
				{
					const char *region = forge_region(pos, mnsize);
					unsigned char start = (unsigned char)(enc[pos] ^ (fl ? 0x80 : 0x01));
					bool found = false;
					unsigned char val = 0;
					Z ev;
					for (unsigned k = 0; k < 256 && !found; k++)
					{
						val = (unsigned char)(start + k);
						if (val == enc[pos])
							continue;
						alt = enc;
						alt[pos] = val;
						mpz_import(ev.v, mnsize, 1, 1, 1, 0, alt.data());
						if (mpz_sgn(ev.v) && tmcg_mpz_qrmn_p(ev.v, K.sk->p, K.sk->q))
							found = true;
					}
					if (!found)
					{
						R->counters[std::string("forge_no_residue_in_octet/") + region]++;
						continue;
					}
					Z root, rt[4];
					tmcg_mpz_sqrtmn_r(root.v, ev.v, K.sk->p, K.sk->q, m);
					four_roots(root.v, rt);
					for (int k = 0; k < 4; k++)
					{
						mpz_mul(t.v, rt[k].v, rt[k].v), mpz_mod(t.v, t.v, m);
						if (mpz_cmp(t.v, ev.v))
						{
							harness_error("harness square root does not square back", cell);
							continue;
						}
						// the genuine signature is verified right before (a verifier must not depend on its history)
						if (!K.pk->verify(data, sig))
							R->viol("rabin/valid-signature-refused", "genuine signature refused: " + shortened(sig, 60), cell);
						std::string forged = sigtext(rt[k].v);
						bool acc = K.pk->verify(data, forged);
						R->ok(true);
						if (acc)
							R->viol(std::string("rabin/forge/accepted-altered-encoding/") + region, "encoding of a genuine signature altered in octet " + str(pos) + " of " + str(mnsize) + " (region " + region + ", " + str((unsigned)enc[pos]) + " -> " + str((unsigned)val) + "), root " + str(k) + " taken with the secret primes: verify() = true for the same data, key " + spec_id(specs[ki]) + " sig=" + shortened(forged, 70), cell);
						else
							R->counters[std::string("forge_refused/") + region]++;
					}
				}
			if (li == 1)
				R->sample(cell, "encoding " + str(mnsize) + " octets (w 32 | salt 20 | gamma " + str(mnsize - 52) + "), every octet x {^1, ^0x80 -> next residue in the same octet} x 4 roots; sig=" + shortened(sig, 60));
		}
}

int main(int argc, char **argv)
{
	Args A = parse(argc, argv);
	Report rep(A);
	R = &rep;
	std::string family = A.get("family", "roundtrip");
	if (!init_libTMCG())
		return 2;
	MuteCerr mute;
	SEED = mcenv::env_seed();
	thorough = A.tier == "thorough" && A.get("bounds", "") != "quick";   // --bounds quick: quick-sized space in a thorough run
	if (family == "roundtrip") fam_roundtrip();
	else if (family == "tsig") fam_tsig();
	else if (family == "tenc") fam_tenc();
	else if (family == "tkey") fam_tkey();
	else if (family == "nizk") fam_nizk();
	else if (family == "forge") fam_forge();
	else { fprintf(stderr, "unknown family %s\n", family.c_str()); return 2; }
	rep.counters["refused_as_required"] = tally.refused;
	rep.counters["accepted_as_required"] = tally.mustaccept;
	rep.counters["equivalent_recorded_accepted"] = tally.equiv_accepted;
	rep.counters["equivalent_recorded_refused"] = tally.equiv_refused;
	rep.counters["key_generations"] = pool.size();   // per shard; summed over shards by check
	unsigned shown = 0;
	for (std::map<std::string, uint64_t>::iterator i = tally.equiv_names.begin(); i != tally.equiv_names.end() && shown < 40; ++i, ++shown)
		rep.counters["equiv/" + i->first] = i->second;
	rep.bound = family + (thorough ? " thorough" : " quick") + " stages " + str(MINS[0]) + "/" + str(MINS[1]) + "/" + str(MINS[2]);
	rep.finish();
	return machinery_error ? 2 : 0;
}
