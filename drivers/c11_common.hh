// C11 — shared pieces of the export/import round-trip drivers (c11_values.cc, c11_params.cc).
//
//  * Z            : RAII mpz_t that can live in std::vector
//  * alphabet()   : the boundary integers of the property (0, 1, -1, B-1, B, B^j+-1, 2^64+-1, maximal-length values of
//                   TMCG_MAX_VALUE_CHARS-2 characters, seeded values), B = TMCG_MPZ_IO_BASE.  Built numerically, the
//                   drivers never assume a digit alphabet.
//  * Filler       : deterministic, pairwise distinct cell values for filling objects (so that a swapped / dropped /
//                   duplicated field changes the object)
//  * Distinct     : measured count of distinct evaluated cases (hash of family, context and exported text)
//  * sanitizer bridge for mpz_get_str: GMP is not instrumented, so a write it makes past the end of a library-owned
//    buffer is invisible to ASan.  The executable interposes __gmpz_get_str, asks ASan whether the destination range is
//    addressable and turns an overrun into a reported outcome (c11::overruns) instead of silent heap corruption.
#ifndef C11_COMMON_HH
#define C11_COMMON_HH
#include "drv.hh"
#include <libTMCG.hh>
#include <gmp.h>
#include <dlfcn.h>
#include <string>
#include <vector>
#include <set>
#include <sstream>
#include <algorithm>

// ---------------------------------------------------------------- sanitizer bridge
extern "C" void *__asan_region_is_poisoned(void *beg, size_t size) __attribute__((weak));

namespace c11 {
static uint64_t overruns = 0;          // number of mpz_get_str calls that would have written into poisoned memory
static std::string overrun_note;
}

extern "C" char *__gmpz_get_str(char *str, int base, mpz_srcptr op)
{
	typedef char *(*fn_t)(char *, int, mpz_srcptr);
	static fn_t real = (fn_t)dlsym(RTLD_NEXT, "__gmpz_get_str");
	if (str == NULL || !__asan_region_is_poisoned)
		return real(str, base, op);
	char *tmp = real(NULL, base, op);
	size_t n = strlen(tmp) + 1;
	char *bad = (char *)__asan_region_is_poisoned(str, n);
	if (bad)
	{
		c11::overruns++;
		std::ostringstream o;
		o << "mpz_get_str writes " << n << " bytes, only " << (size_t)(bad - str) << " are addressable (base " << base << ")";
		c11::overrun_note = o.str();
		size_t m = (size_t)(bad - str);
		if (m > 0)
		{
			memcpy(str, tmp, m - 1);
			str[m - 1] = 0;
		}
	}
	else
		memcpy(str, tmp, n);
	void (*freefn)(void *, size_t);
	mp_get_memory_functions(NULL, NULL, &freefn);
	freefn(tmp, n);
	return str;
}

namespace c11 {
using namespace drv;

struct Z {
	mpz_t v;
	Z() { mpz_init(v); }
	Z(const Z &o) { mpz_init_set(v, o.v); }
	explicit Z(long x) { mpz_init_set_si(v, x); }
	Z &operator=(const Z &o) { if (this != &o) mpz_set(v, o.v); return *this; }
	~Z() { mpz_clear(v); }
};

inline std::string dec(mpz_srcptr z) { char *s = mpz_get_str(NULL, 10, z); std::string r(s); free(s); return r; }
// short printable description of a (possibly huge) value
inline std::string brief(mpz_srcptr z)
{
	std::string d = dec(z);
	if (d.size() <= 40) return d;
	return d.substr(0, 12) + "..(" + str(d.size()) + " dec digits).." + d.substr(d.size() - 8);
}

static const unsigned long BASE = TMCG_MPZ_IO_BASE;
static const size_t MAXLEN = TMCG_MAX_VALUE_CHARS - 2;   // longest line operator>>(istream&, mpz_ptr) accepts

// number of characters of the transport text of z (digits in base BASE plus sign), computed without the library
inline size_t text_len(mpz_srcptr z)
{
	Z t; mpz_abs(t.v, z);
	size_t n = 0;
	if (!mpz_sgn(t.v)) n = 1;
	else
	{
		// mpz_sizeinbase may overestimate by one for non powers of two: decide exactly
		n = mpz_sizeinbase(t.v, BASE);
		Z pw; mpz_ui_pow_ui(pw.v, BASE, n - 1);
		if (mpz_cmp(t.v, pw.v) < 0) n--;
	}
	return n + (mpz_sgn(z) < 0 ? 1 : 0);
}

struct Named { std::string name; Z z; };

inline void add(std::vector<Named> &A, const std::string &name, mpz_srcptr v, bool also_negative)
{
	Named x; x.name = name; mpz_set(x.z.v, v); A.push_back(x);
	if (also_negative && mpz_sgn(v))
	{
		Named y; y.name = "-(" + name + ")"; mpz_neg(y.z.v, v); A.push_back(y);
	}
}

// seeded pseudo random integer of exactly `bits` bits
inline void seeded(mpz_ptr r, uint64_t seed, uint64_t id, size_t bits)
{
	uint64_t st = seed * 0x9e3779b97f4a7c15ULL ^ (id + 1) * 0xc2b2ae3d27d4eb4fULL;
	mpz_set_ui(r, 1);
	size_t have = 1;
	while (have < bits)
	{
		uint64_t w = mcenv::splitmix(st);
		size_t take = std::min((size_t)32, bits - have);
		mpz_mul_2exp(r, r, take);
		mpz_add_ui(r, r, (unsigned long)(w & ((1ULL << take) - 1)));
		have += take;
	}
}

// The boundary alphabet.  long_values: include the values of (nearly) maximal length.
inline std::vector<Named> alphabet(bool long_values)
{
	std::vector<Named> A;
	Z t, u;
	mpz_set_ui(t.v, 0); add(A, "0", t.v, false);
	mpz_set_ui(t.v, 1); add(A, "1", t.v, true);
	mpz_set_ui(t.v, 2); add(A, "2", t.v, false);
	mpz_set_ui(t.v, BASE - 1); add(A, "B-1", t.v, true);
	mpz_set_ui(t.v, BASE); add(A, "B", t.v, true);
	mpz_set_ui(t.v, BASE + 1); add(A, "B+1", t.v, false);
	const unsigned long js[] = {2, 3, 10, 11, 43, 344};
	for (size_t k = 0; k < sizeof(js) / sizeof(js[0]); k++)
	{
		mpz_ui_pow_ui(t.v, BASE, js[k]);
		mpz_sub_ui(u.v, t.v, 1); add(A, "B^" + str(js[k]) + "-1", u.v, js[k] <= 11);
		add(A, "B^" + str(js[k]), t.v, false);
		mpz_add_ui(u.v, t.v, 1); add(A, "B^" + str(js[k]) + "+1", u.v, js[k] <= 11);
	}
	const unsigned long ks[] = {32, 63, 64, 128};
	for (size_t k = 0; k < sizeof(ks) / sizeof(ks[0]); k++)
	{
		mpz_set_ui(t.v, 1), mpz_mul_2exp(t.v, t.v, ks[k]);
		mpz_sub_ui(u.v, t.v, 1); add(A, "2^" + str(ks[k]) + "-1", u.v, ks[k] == 64);
		add(A, "2^" + str(ks[k]), t.v, ks[k] == 63);
		mpz_add_ui(u.v, t.v, 1); add(A, "2^" + str(ks[k]) + "+1", u.v, ks[k] == 64);
	}
	uint64_t seed = mcenv::env_seed();
	seeded(t.v, seed, 1, 64); add(A, "seeded64", t.v, false);
	seeded(t.v, seed, 2, 256); add(A, "seeded256", t.v, true);
	seeded(t.v, seed, 3, 2048); add(A, "seeded2048", t.v, false);
	if (long_values)
	{
		mpz_ui_pow_ui(t.v, BASE, MAXLEN); mpz_sub_ui(t.v, t.v, 1); add(A, "B^L-1 (max, L chars)", t.v, false);
		mpz_ui_pow_ui(t.v, BASE, MAXLEN - 1); add(A, "B^(L-1) (min with L chars)", t.v, false);
		mpz_ui_pow_ui(t.v, BASE, MAXLEN - 1); mpz_sub_ui(t.v, t.v, 1); mpz_neg(t.v, t.v); add(A, "-(B^(L-1)-1) (L chars with sign)", t.v, false);
		mpz_ui_pow_ui(t.v, BASE, MAXLEN - 1); mpz_add_ui(t.v, t.v, 1); add(A, "B^(L-1)+1", t.v, false);
		mpz_ui_pow_ui(t.v, BASE, MAXLEN - 2); mpz_neg(t.v, t.v); add(A, "-B^(L-2) (L chars with sign)", t.v, false);
	}
	return A;
}

// Deterministic cell values.  pattern: 0/1 boundary alphabet (two different rotations) followed by seeded signed values of
// varying length, 2 all zero, 3 all negative, 4 a few maximal-length cells between small ones, 5 every cell maximal length.
struct Filler {
	std::vector<Named> A, Along;
	uint64_t seed;
	Filler() : A(alphabet(false)), Along(alphabet(true)), seed(mcenv::env_seed()) {}
	static int npatterns() { return 6; }
	void get(mpz_ptr out, int pattern, size_t cell, size_t ncells, uint64_t salt) const
	{
		switch (pattern)
		{
			case 0: case 1:
			{
				size_t off = pattern ? 7 : 0;
				if (cell < A.size())
					mpz_set(out, A[(cell + off) % A.size()].z.v);
				else
				{
					seeded(out, seed ^ (salt * 0x2545F4914F6CDD1DULL), cell, 8 + (cell * 37 + salt) % 230);
					if ((cell + salt) % 3 == 0) mpz_neg(out, out);
				}
				break;
			}
			case 2: mpz_set_ui(out, 0); break;
			case 3:
				seeded(out, seed ^ salt, cell, 2 + (cell * 13) % 120);
				mpz_neg(out, out);
				break;
			case 4:
				if (cell == 0 || cell + 1 == ncells || cell == ncells / 2)
					mpz_set(out, Along[A.size() + (cell % 5)].z.v);
				else
					mpz_set_si(out, (long)cell - 3);
				break;
			default:
				mpz_set(out, Along[A.size() + (cell % 5)].z.v);
				if (cell % 5 >= 2) { mpz_abs(out, out); }   // keep lengths at the maximum, mix of patterns
				// make cells distinct without changing the length
				if (mpz_sgn(out) > 0 && cell >= 5) mpz_sub_ui(out, out, (unsigned long)cell);
				break;
		}
	}
};

// measured count of distinct evaluated cases
struct Distinct {
	std::set<uint64_t> seen;
	static uint64_t h(const std::string &s, uint64_t x = 1469598103934665603ULL)
	{
		for (size_t i = 0; i < s.size(); i++) { x ^= (unsigned char)s[i]; x *= 1099511628211ULL; }
		return x;
	}
	// returns true if (context, text) has not been evaluated before in this process
	bool fresh(const std::string &context, const std::string &text)
	{
		return seen.insert(h(text, h(context) * 31 + 7)).second;
	}
};

// report an overrun observed by the sanitizer bridge since the last call
inline void check_overrun(Report &R, const std::string &site, const std::string &cid)
{
	static uint64_t reported = 0;
	if (overruns > reported)
	{
		R.viol("overrun/" + site, overrun_note + " [" + str(overruns - reported) + " call(s)]", cid);
		reported = overruns;
	}
}

}
#endif
