// C11 — export/import round trip of integers, cards, card secrets, stacks, stack secrets and Rabin keys.
//
// What is enumerated (families, one per run entry of props/C11.json; every family is exhaustive over its stated grid):
//   mpz          integers through operator<< / operator>> (mpz_srcptr/mpz_ptr), TMCG_Bigint and the gcry_mpi_t printer:
//                for EVERY text length l = 1..TMCG_MAX_VALUE_CHARS-2 the smallest, the largest and a seeded value of that
//                length, positive and negative (sign counted in the length); 2^k-1, 2^k, 2^k+1 for all k <= 24400 at limb
//                boundaries (k mod 32 in {31,0,1}) (thorough: every k <= 2100 too); the boundary alphabet
//                (0, 1, -1, B-1, B, B^j+-1, 2^64+-1, maximal-length values ...) one by one, as one sequence on a
//                single stream, and into *used* targets.
//   qrcard       TMCG_Card:   all 320 shapes (players 1..32 x type bits 1..10) x 5 fill patterns, import(string) and
//   qrsecret     TMCG_CardSecret: operator>> into fresh objects and import into USED objects of every other shape
//                (--used all: all 320 used shapes; --used near: the 11 neighbouring / extreme shapes), plus
//                every-cell-maximal-length cards for the extreme shapes.
//   vtmf         VTMF_Card (all ordered pairs of the boundary alphabet), VTMF_CardSecret (all alphabet values), fresh + used.
//   stack        TMCG_Stack<VTMF_Card> and TMCG_Stack<TMCG_Card>: sizes 1..64, 511, 512 x card shapes {1x1, 2x8, 3x3, 32x10 (for
//                n <= 4, 64, 512), mixed (card i is (i mod 32 + 1) x (i mod 10 + 1))} (--shapes few); thorough adds all 320 card
//                shapes for the sizes 1..16, 32, 48, 64, 512 (--shapes all --sizes sparse),
//                TMCG_OpenStack -> TMCG_Stack -> text -> TMCG_Stack -> TMCG_OpenStack (the open stack has no exporter of its own)
//   stacksecret  TMCG_StackSecret<VTMF_CardSecret> and <TMCG_CardSecret>: sizes 1..64, 511, 512; ALL permutations for
//                sizes <= 5, identity / reversal / rotation / seeded permutation above.
//   keys         TMCG_PublicKey and TMCG_SecretKey: string-field variants x modulus/y variants, fresh + used targets,
//                import(), operator>> and the string constructors; genuine generated keys (with and without NIZK).
// Bound per tier: see main(); quick and thorough differ only where stated there (used-shape set under ASan, stack shapes,
// 2^k grid, key sizes).  No sampling: every grid point of a family is evaluated.
//
// Oracle (per case): export -> text T; import(T) / stream >> succeeds (true / stream not failed, nothing thrown); the imported
// object equals the original field by field (harness comparison with mpz_cmp) and by operator== / != where the type has
// them; a line written after T on the same stream is still there (framing); exporting the imported object gives a text
// byte-identical to T.  For *used* targets of the types that reset on import (cards, card secrets, keys) the same must hold
// whatever the target contained before.  Stacks / stack secrets are imported into fresh objects only (their import appends
// by design; the property does not ask for more).  Under the asan flavour a write of mpz_get_str beyond the library's
// buffer is reported through the sanitizer bridge in c11_common.hh; any other overrun ends the shard (reported as crash).
#include "c11_common.hh"

using namespace drv;
using namespace c11;

static Report *R;
static Distinct D;
static Filler *F;
static bool thorough = false;
static Args *AR;
// operator>> of cards / stacks / keys allocates TMCG_MAX_{CARD,STACK,KEY}_CHARS (1.3 MB / 671 MB / 4 MB) per call, which costs
// ~8 ms per MB under ASan.  --stream-every N runs the operator>> variant of a case only every N-th time (deterministic
// counter; N = 1: always).  import(string) is always run.
static unsigned stream_every = 1;
static uint64_t stream_ctr = 0;
static bool stream_now() { return stream_every && (stream_ctr++ % stream_every) == 0; }
// --lite 1 (used for the ASan passes): cases whose export is longer than 50 000 characters are left to the plain flavour.
// The library's field parser copies the remaining text once per field (quadratic), and ASan serves every copy above 256 KB
// with a fresh mmap, which makes megabyte texts ~100x slower there without adding anything ASan could see.
static bool lite = false;
static bool lite_skip(const std::string &Tx)
{
	if (lite && Tx.size() > 50000) { R->counters["lite_skipped_large_text"]++; return true; }
	return false;
}

static void at(const std::string &cid)
{
	printf("{\"t\":\"at\",\"case\":\"%s\"}\n", jesc(cid).c_str());
	fflush(stdout);
}

template<class T> static std::string exp_text(const T &o)
{
	std::ostringstream s;
	s << o;
	return s.str();
}

static const char *SENTINEL_LINE = "c11-sentinel-line";
static std::string excerpt(const std::string &Tx) { return " | e.g. export: " + Tx.substr(0, 80) + (Tx.size() > 80 ? "... (" + str(Tx.size()) + " chars)" : ""); }

// =================================================================== integers
static void int_roundtrip(mpz_srcptr v, const std::string &what, const std::string &cid, uint64_t &refc)
{
	size_t tl = text_len(v);
	if (tl > MAXLEN)
		return; // outside the documented transport range
	Z sentinel; mpz_set_si(sentinel.v, -4242424242L);
	std::stringstream ss;
	bool threw = false;
	std::string exc;
	try { ss << v << std::endl << sentinel.v << std::endl; } catch (std::exception &e) { threw = true; exc = e.what(); }
	check_overrun(*R, "mpz-operator<<", cid);
	if (threw) { R->ok(); R->viol("mpz/export-exception", what + ": " + exc, cid); return; }
	std::string all = ss.str();
	std::string T = all.substr(0, all.find('\n'));
	bool nontriv = mpz_cmpabs_ui(v, 1) > 0;
	R->ok(nontriv && D.fresh("mpz", T));
	Z r; mpz_set_str(r.v, "-987654321987654321987654321987654321", 10); // a used target
	try { ss >> r.v; } catch (std::exception &e) { threw = true; exc = e.what(); }
	if (threw) { R->viol("mpz/import-exception", what + " text length " + str(T.size()) + ": " + exc, cid); return; }
	if (ss.fail()) { R->viol("mpz/import-failbit", what + " text length " + str(T.size()), cid); return; }
	if (mpz_cmp(r.v, v)) { R->viol("mpz/value", what + " text length " + str(T.size()) + " came back as " + brief(r.v), cid); return; }
	Z s2;
	try { ss >> s2.v; } catch (std::exception &e) { threw = true; }
	if (threw || ss.fail() || mpz_cmp(s2.v, sentinel.v))
		R->viol("mpz/framing", what + ": the value following on the stream was damaged (got " + brief(s2.v) + ")", cid);
	std::ostringstream o2; o2 << r.v;
	if (o2.str() != T)
		R->viol("mpz/reexport", what + ": re-export differs, lengths " + str(T.size()) + " / " + str(o2.str().size()), cid);
	if (T.size() != tl)
		R->counters["mpz_text_length_differs_from_reference"]++;
	// TMCG_Bigint (plain back end) carries the same encoding
	{
		TMCG_Bigint b(v);
		std::stringstream bs;
		TMCG_Bigint c;
		c = 77UL;
		try { bs << b << std::endl; bs >> c; } catch (std::exception &e) { threw = true; exc = e.what(); }
		R->ok(false);
		if (threw || bs.fail() || !(c == b) || mpz_cmp(c.bigint, v))
			R->viol("mpz/bigint", what + (threw ? ": " + exc : ": TMCG_Bigint came back different"), cid);
		else if (bs.str() != T + "\n")
			R->viol("mpz/bigint-text", what + ": TMCG_Bigint text differs from the mpz text", cid);
	}
	// gcry_mpi_t printer: same text, readable by the mpz reader (the HEX buffer of the conversion limits the size)
	if (mpz_sizeinbase(v, 16) + 4 < TMCG_MAX_VALUE_CHARS)
	{
		gcry_mpi_t g = gcry_mpi_new(8);
		if (tmcg_mpz_get_gcry_mpi(g, v))
		{
			std::stringstream gs;
			Z back;
			try { gs << g << std::endl; gs >> back.v; } catch (std::exception &e) { threw = true; exc = e.what(); }
			R->ok(false);
			if (threw || gs.fail() || mpz_cmp(back.v, v))
				R->viol("mpz/gcry-printer", what + (threw ? ": " + exc : ": printed gcry_mpi_t reads back as " + brief(back.v)), cid);
		}
		else
			R->viol("mpz/gcry-convert", what + ": tmcg_mpz_get_gcry_mpi failed", cid);
		gcry_mpi_release(g);
	}
	// independent decoder (Python) on a sample
	if ((refc++ % 211) == 0 && T.size() <= 1200)
		printf("{\"t\":\"ref\",\"kind\":\"b62\",\"a\":[\"%s\",\"%lu\"],\"got\":\"%s\",\"case\":\"%s\"}\n", dec(v).c_str(), BASE, T.c_str(), jesc(cid).c_str());
}

static void fam_mpz()
{
	uint64_t refc = 0;
	uint64_t seed = mcenv::env_seed();
	Z lo, hi, mid, t;
	// every text length
	for (size_t l = 1; l <= MAXLEN; l++)
	{
		std::string cid = "mpz:len=" + str(l);
		if (!R->mine() || !R->selected(cid)) continue;
		if (R->out_of_time()) return;
		if (l % 64 == 1) at(cid);
		// positive values with l digits
		if (l == 1) mpz_set_ui(lo.v, 0); else mpz_ui_pow_ui(lo.v, BASE, l - 1);
		mpz_ui_pow_ui(hi.v, BASE, l); mpz_sub_ui(hi.v, hi.v, 1);
		seeded(mid.v, seed, l, mpz_sizeinbase(hi.v, 2) + 64); mpz_sub(t.v, hi.v, lo.v); mpz_add_ui(t.v, t.v, 1);
		mpz_mod(mid.v, mid.v, t.v); mpz_add(mid.v, mid.v, lo.v);
		int_roundtrip(lo.v, "smallest value with " + str(l) + " digits", cid, refc);
		int_roundtrip(hi.v, "largest value with " + str(l) + " digits", cid, refc);
		int_roundtrip(mid.v, "seeded value with " + str(l) + " digits", cid, refc);
		// negative values with l characters (l-1 digits)
		if (l >= 2)
		{
			if (l == 2) mpz_set_ui(lo.v, 1); else mpz_ui_pow_ui(lo.v, BASE, l - 2);
			mpz_ui_pow_ui(hi.v, BASE, l - 1); mpz_sub_ui(hi.v, hi.v, 1);
			seeded(mid.v, seed, l + 100000, mpz_sizeinbase(hi.v, 2) + 64); mpz_sub(t.v, hi.v, lo.v); mpz_add_ui(t.v, t.v, 1);
			mpz_mod(mid.v, mid.v, t.v); mpz_add(mid.v, mid.v, lo.v);
			mpz_neg(lo.v, lo.v), mpz_neg(hi.v, hi.v), mpz_neg(mid.v, mid.v);
			int_roundtrip(lo.v, "negative, " + str(l) + " characters, smallest magnitude", cid, refc);
			int_roundtrip(hi.v, "negative, " + str(l) + " characters, largest magnitude", cid, refc);
			int_roundtrip(mid.v, "negative, " + str(l) + " characters, seeded", cid, refc);
		}
		if (l == 1 || l == MAXLEN) R->sample(cid, "smallest / largest / seeded value of this text length, both signs");
	}
	// powers of two
	for (unsigned long k0 = 0; k0 <= 24400; k0 += 32)
	{
		std::string cid = "mpz:pow2=" + str(k0);
		if (!R->mine() || !R->selected(cid)) continue;
		if (R->out_of_time()) return;
		for (long dk = -1; dk <= (thorough && k0 <= 2100 ? 30 : 1); dk++)
		{
			if ((long)k0 + dk < 0) continue;
			unsigned long k = k0 + dk;
			for (int d = -1; d <= 1; d++)
				for (int sg = 0; sg < 2; sg++)
				{
					mpz_set_ui(t.v, 1), mpz_mul_2exp(t.v, t.v, k);
					if (d < 0) mpz_sub_ui(t.v, t.v, 1);
					if (d > 0) mpz_add_ui(t.v, t.v, 1);
					if (sg) mpz_neg(t.v, t.v);
					int_roundtrip(t.v, std::string(sg ? "-" : "") + "(2^" + str(k) + (d < 0 ? "-1" : d > 0 ? "+1" : "") + ")", cid, refc);
				}
		}
		if (k0 == 64) R->sample(cid, "2^k-1, 2^k, 2^k+1 and negatives around a limb boundary");
	}
	// the alphabet: one by one, then as a single sequence on one stream, forwards and backwards
	{
		std::string cid = "mpz:alphabet";
		if (R->mine() && R->selected(cid))
		{
			at(cid);
			const std::vector<Named> &A = F->Along;
			for (size_t i = 0; i < A.size(); i++)
				int_roundtrip(A[i].z.v, A[i].name, cid, refc);
			for (int dir = 0; dir < 2; dir++)
			{
				std::stringstream ss;
				for (size_t i = 0; i < A.size(); i++)
					ss << A[dir ? A.size() - 1 - i : i].z.v << std::endl;
				check_overrun(*R, "mpz-operator<<", cid);
				std::string before = ss.str();
				std::ostringstream again;
				bool bad = false;
				Z r; // the same target is reused: every read lands in a used integer
				for (size_t i = 0; i < A.size() && !bad; i++)
				{
					const Named &x = A[dir ? A.size() - 1 - i : i];
					bool threw = false;
					try { ss >> r.v; } catch (std::exception &e) { threw = true; }
					R->ok(false);
					if (threw || ss.fail() || mpz_cmp(r.v, x.z.v))
					{
						R->viol("mpz/sequence", "position " + str(i) + " (" + x.name + ") of a sequence on one stream came back as " + (threw ? "exception" : brief(r.v)), cid);
						bad = true;
					}
					again << r.v << std::endl;
				}
				if (!bad && again.str() != before)
					R->viol("mpz/sequence-reexport", "sequence re-export differs", cid);
			}
			R->sample(cid, str(A.size()) + " boundary values singly and as one sequence per direction");
		}
	}
}

// =================================================================== QR cards and card secrets (k x w matrices)
template<class T> struct QR;
template<> struct QR<TMCG_Card> {
	static const char *name() { return "qrcard"; }
	static size_t K(const TMCG_Card &c) { return c.z.size(); }
	static size_t W(const TMCG_Card &c) { return c.z.empty() ? 0 : c.z[0].size(); }
	static size_t cells(const TMCG_Card &c) { size_t n = 0; for (size_t i = 0; i < c.z.size(); i++) n += c.z[i].size(); return n; }
	static mpz_ptr cell(TMCG_Card &c, size_t idx) { size_t w = c.z[0].size(); return &c.z[idx / w][idx % w]; }
	static bool regular(const TMCG_Card &c) { for (size_t i = 0; i < c.z.size(); i++) if (c.z[i].size() != c.z[0].size()) return false; return !c.z.empty(); }
};
template<> struct QR<TMCG_CardSecret> {
	static const char *name() { return "qrsecret"; }
	static size_t K(const TMCG_CardSecret &c) { return c.r.size(); }
	static size_t W(const TMCG_CardSecret &c) { return c.r.empty() ? 0 : c.r[0].size(); }
	static size_t cells(const TMCG_CardSecret &c) { size_t n = 0; for (size_t i = 0; i < c.r.size(); i++) n += c.r[i].size(); for (size_t i = 0; i < c.b.size(); i++) n += c.b[i].size(); return n; }
	static mpz_ptr cell(TMCG_CardSecret &c, size_t idx) { size_t w = c.r[0].size(); size_t e = idx / 2; return (idx & 1) ? &c.b[e / w][e % w] : &c.r[e / w][e % w]; }
	static bool regular(const TMCG_CardSecret &c)
	{
		if (c.r.empty() || c.r.size() != c.b.size()) return false;
		for (size_t i = 0; i < c.r.size(); i++) if (c.r[i].size() != c.r[0].size() || c.b[i].size() != c.r[0].size()) return false;
		return true;
	}
};

template<class T> static void qr_fill(T &c, int pattern, uint64_t salt)
{
	size_t n = QR<T>::cells(c);
	for (size_t i = 0; i < n; i++)
		F->get(QR<T>::cell(c, i), pattern, i, n, salt);
}

// field-by-field comparison by the harness; "" if equal
template<class T> static std::string qr_diff(T &a, T &b)
{
	if (!QR<T>::regular(b)) return "imported object is not a regular matrix";
	if (QR<T>::K(a) != QR<T>::K(b) || QR<T>::W(a) != QR<T>::W(b))
		return "shape " + str(QR<T>::K(b)) + "x" + str(QR<T>::W(b)) + " instead of " + str(QR<T>::K(a)) + "x" + str(QR<T>::W(a));
	size_t n = QR<T>::cells(a);
	if (QR<T>::cells(b) != n) return "cell count differs";
	for (size_t i = 0; i < n; i++)
		if (mpz_cmp(QR<T>::cell(a, i), QR<T>::cell(b, i)))
			return "cell " + str(i) + " is " + brief(QR<T>::cell(b, i)) + " instead of " + brief(QR<T>::cell(a, i));
	return "";
}
static bool op_eq(const TMCG_Card &a, const TMCG_Card &b, bool &ne) { ne = (a != b); return a == b; }
static bool op_eq(const TMCG_CardSecret &, const TMCG_CardSecret &, bool &ne) { ne = false; return true; } // no operator==

// one import of text Tx (export of orig) into target; mode 0 import(string), 1 operator>>
template<class T> static void qr_import_check(T &orig, const std::string &Tx, T &target, int mode, const std::string &ctx, const std::string &cid)
{
	bool ok = false, threw = false, framing_ok = true;
	std::string exc;
	try
	{
		if (mode == 0)
			ok = target.import(Tx);
		else
		{
			std::stringstream ss;
			ss << Tx << std::endl << SENTINEL_LINE << std::endl;
			ss >> target;
			ok = !ss.fail();
			std::string rest;
			std::getline(ss, rest);
			framing_ok = (rest == SENTINEL_LINE);
		}
	}
	catch (std::exception &e) { threw = true; exc = e.what(); }
	std::string key = std::string(QR<T>::name()) + (mode ? "/stream" : "/import");
	if (threw) { R->viol(key + "-exception", ctx + ": " + exc, cid); return; }
	if (!ok) { R->viol(key + "-refused", ctx + ": import of the library's own export (" + str(Tx.size()) + " chars) failed", cid); return; }
	std::string d = qr_diff(orig, target);
	if (d != "") { R->viol(key + "-differs", ctx + ": " + d, cid); return; }
	bool ne = false;
	if (!op_eq(orig, target, ne) || ne) { R->viol(key + "-operator==", ctx + ": fields equal but operator== / != disagree", cid); return; }
	if (!framing_ok) { R->viol(key + "-framing", ctx + ": the line after the object was consumed or damaged", cid); return; }
	std::string T2 = exp_text(target);
	check_overrun(*R, "mpz-operator<<", cid);
	if (T2 != Tx) R->viol(key + "-reexport", ctx + ": re-export differs (" + str(Tx.size()) + " vs " + str(T2.size()) + " chars)", cid);
}

static std::vector<std::pair<size_t, size_t> > used_shapes(size_t k, size_t w, bool all)
{
	std::vector<std::pair<size_t, size_t> > U;
	if (all)
	{
		for (size_t a = 1; a <= TMCG_MAX_PLAYERS; a++)
			for (size_t b = 1; b <= TMCG_MAX_TYPEBITS; b++)
				U.push_back(std::make_pair(a, b));
		return U;
	}
	const long cand[][2] = {{1, 1}, {(long)k, (long)w}, {(long)k - 1, (long)w}, {(long)k + 1, (long)w}, {(long)k, (long)w - 1}, {(long)k, (long)w + 1},
		{TMCG_MAX_PLAYERS, TMCG_MAX_TYPEBITS}, {1, (long)w}, {TMCG_MAX_PLAYERS, (long)w}, {(long)k, 1}, {(long)k, TMCG_MAX_TYPEBITS}};
	for (size_t i = 0; i < sizeof(cand) / sizeof(cand[0]); i++)
	{
		if (cand[i][0] < 1 || cand[i][0] > (long)TMCG_MAX_PLAYERS || cand[i][1] < 1 || cand[i][1] > (long)TMCG_MAX_TYPEBITS) continue;
		std::pair<size_t, size_t> p((size_t)cand[i][0], (size_t)cand[i][1]);
		if (std::find(U.begin(), U.end(), p) == U.end()) U.push_back(p);
	}
	return U;
}

template<class T> static void fam_qr(bool used_all)
{
	std::string fam = QR<T>::name();
	for (size_t k = 1; k <= TMCG_MAX_PLAYERS; k++)
		for (size_t w = 1; w <= TMCG_MAX_TYPEBITS; w++)
		{
			std::string cid = fam + ":k=" + str(k) + ",w=" + str(w);
			if (!R->mine() || !R->selected(cid)) continue;
			if (R->out_of_time()) return;
			at(cid);
			bool extreme = (k == 1 || k == TMCG_MAX_PLAYERS) && (w == 1 || w == TMCG_MAX_TYPEBITS);
			std::string shown;
			for (int pattern = 0; pattern < Filler::npatterns(); pattern++)
			{
				if (pattern == 5 && !extreme) continue;
				T orig(k, w);
				qr_fill(orig, pattern, k * 100 + w);
				std::string Tx = exp_text(orig);
				check_overrun(*R, "mpz-operator<<", cid);
				std::string ctx = "shape " + str(k) + "x" + str(w) + " pattern " + str(pattern);
				if (lite_skip(Tx)) continue;
				if (pattern == 0) shown = Tx;
				R->ok(D.fresh(fam, Tx));
				// fresh targets
				{ T fresh; qr_import_check(orig, Tx, fresh, 0, ctx + " into a fresh object", cid); }
				if (Tx.size() + 2 > TMCG_MAX_CARD_CHARS)
					R->counters[fam + "_longer_than_TMCG_MAX_CARD_CHARS_import_only"]++;
				else if (stream_now())
				{ T fresh; qr_import_check(orig, Tx, fresh, 1, ctx + " operator>> into a fresh object", cid); }
				// used targets of other shapes (pattern 0: the whole set; other patterns: the default 1x1 and the largest)
				std::vector<std::pair<size_t, size_t> > U = used_shapes(k, w, used_all && pattern == 0);
				for (size_t u = 0; u < U.size(); u++)
				{
					if (pattern != 0 && u >= 4 && !(U[u].first == TMCG_MAX_PLAYERS && U[u].second == TMCG_MAX_TYPEBITS)) continue;
					T used(U[u].first, U[u].second);
					qr_fill(used, 1, 977 + u); // garbage that differs from every pattern-0 cell position
					R->ok(D.fresh(fam + "/used" + str(U[u].first) + "x" + str(U[u].second), Tx));
					qr_import_check(orig, Tx, used, (pattern == 0 && (u % 5) == 4 && Tx.size() + 2 <= TMCG_MAX_CARD_CHARS && stream_now()) ? 1 : 0,
						ctx + " into a used " + str(U[u].first) + "x" + str(U[u].second) + " object", cid);
				}
			}
			if ((k == 1 && w == 1) || (k == TMCG_MAX_PLAYERS && w == TMCG_MAX_TYPEBITS) || (k == 3 && w == 4))
				R->sample(cid, "5-6 fill patterns; fresh import + operator>>; used targets: " + std::string(used_all ? "all 320 shapes" : "neighbouring/extreme shapes") + excerpt(shown));
		}
}

// =================================================================== VTMF cards / secrets
static void fam_vtmf()
{
	const std::vector<Named> &A = F->Along;
	for (size_t i = 0; i < A.size(); i++)
	{
		std::string cid = "vtmf:c1=" + str(i);
		if (!R->mine() || !R->selected(cid)) continue;
		if (R->out_of_time()) return;
		at(cid);
		for (size_t j = 0; j < A.size(); j++)
		{
			VTMF_Card c;
			mpz_set(c.c_1, A[i].z.v), mpz_set(c.c_2, A[j].z.v);
			std::string Tx = exp_text(c);
			check_overrun(*R, "mpz-operator<<", cid);
			std::string ctx = "c_1=" + A[i].name + " c_2=" + A[j].name;
			for (int mode = 0; mode < 4; mode++) // 0 fresh import, 1 fresh stream, 2 used import, 3 used stream
			{
				if ((mode & 1) && !stream_now()) continue;
				VTMF_Card t;
				if (mode >= 2) { mpz_set(t.c_1, A[(j + 5) % A.size()].z.v); mpz_set(t.c_2, A[(i + 9) % A.size()].z.v); }
				bool ok = false, threw = false, framing = true;
				try
				{
					if ((mode & 1) == 0) ok = t.import(Tx);
					else
					{
						std::stringstream ss; ss << Tx << std::endl << SENTINEL_LINE << std::endl;
						ss >> t; ok = !ss.fail();
						std::string rest; std::getline(ss, rest); framing = (rest == SENTINEL_LINE);
					}
				}
				catch (std::exception &e) { threw = true; }
				R->ok(D.fresh("vtmfcard/" + str(mode), Tx));
				if (threw || !ok) R->viol("vtmfcard/refused", ctx + " mode " + str(mode) + (threw ? " exception" : " import failed"), cid);
				else if (mpz_cmp(t.c_1, c.c_1) || mpz_cmp(t.c_2, c.c_2)) R->viol("vtmfcard/differs", ctx + " mode " + str(mode) + " came back as (" + brief(t.c_1) + "," + brief(t.c_2) + ")", cid);
				else if (!(t == c) || (t != c)) R->viol("vtmfcard/operator==", ctx, cid);
				else if (!framing) R->viol("vtmfcard/framing", ctx, cid);
				else if (exp_text(t) != Tx) R->viol("vtmfcard/reexport", ctx, cid);
			}
		}
		// card secret with value i
		{
			VTMF_CardSecret s;
			mpz_set(s.r, A[i].z.v);
			std::string Tx = exp_text(s);
			for (int mode = 0; mode < 4; mode++)
			{
				if ((mode & 1) && !stream_now()) continue;
				VTMF_CardSecret t;
				if (mode >= 2) mpz_set(t.r, A[(i + 5) % A.size()].z.v);
				bool ok = false, threw = false, framing = true;
				try
				{
					if ((mode & 1) == 0) ok = t.import(Tx);
					else
					{
						std::stringstream ss; ss << Tx << std::endl << SENTINEL_LINE << std::endl;
						ss >> t; ok = !ss.fail();
						std::string rest; std::getline(ss, rest); framing = (rest == SENTINEL_LINE);
					}
				}
				catch (std::exception &e) { threw = true; }
				R->ok(D.fresh("vtmfsecret/" + str(mode), Tx));
				if (threw || !ok) R->viol("vtmfsecret/refused", "r=" + A[i].name + " mode " + str(mode), cid);
				else if (mpz_cmp(t.r, s.r)) R->viol("vtmfsecret/differs", "r=" + A[i].name + " came back as " + brief(t.r), cid);
				else if (!framing) R->viol("vtmfsecret/framing", "r=" + A[i].name, cid);
				else if (exp_text(t) != Tx) R->viol("vtmfsecret/reexport", "r=" + A[i].name, cid);
			}
		}
		check_overrun(*R, "mpz-operator<<", cid);
		if (i == 0) R->sample(cid, "c_1 fixed, c_2 over the whole alphabet (" + str(A.size()) + " values), 4 modes each; plus the card secret");
	}
}

// =================================================================== stacks
// --sizes full: 1..64, 511, 512;  --sizes sparse (used together with --shapes all): 1..16, 32, 48, 64, 512
static std::vector<size_t> stack_sizes()
{
	std::vector<size_t> S;
	if (AR->get("sizes", "full") == "sparse")
	{
		for (size_t n = 1; n <= 16; n++) S.push_back(n);
		S.push_back(32), S.push_back(48), S.push_back(64), S.push_back(TMCG_MAX_CARDS);
		return S;
	}
	for (size_t n = 1; n <= 64; n++) S.push_back(n);
	S.push_back(TMCG_MAX_CARDS - 1), S.push_back(TMCG_MAX_CARDS);
	return S;
}

// card shapes used inside QR stacks: --shapes few | all
static std::vector<std::pair<size_t, size_t> > stack_shapes(size_t n, const std::string &which)
{
	std::vector<std::pair<size_t, size_t> > S;
	if (which == "all")
	{
		for (size_t a = 1; a <= TMCG_MAX_PLAYERS; a++)
			for (size_t b = 1; b <= TMCG_MAX_TYPEBITS; b++)
				S.push_back(std::make_pair(a, b));
		return S;
	}
	S.push_back(std::make_pair((size_t)1, (size_t)1));
	S.push_back(std::make_pair((size_t)2, (size_t)8));
	S.push_back(std::make_pair((size_t)3, (size_t)3));
	if (n <= 4 || n == 64 || n == TMCG_MAX_CARDS)
		S.push_back(std::make_pair((size_t)TMCG_MAX_PLAYERS, (size_t)TMCG_MAX_TYPEBITS));
	S.push_back(std::make_pair((size_t)0, (size_t)0)); // mixed: card i has shape (i mod 32 + 1, i mod 10 + 1)
	return S;
}

static std::string card_diff(const VTMF_Card &a, const VTMF_Card &b) { return (mpz_cmp(a.c_1, b.c_1) || mpz_cmp(a.c_2, b.c_2)) ? "c_1/c_2 differ" : ""; }
static std::string card_diff(const TMCG_Card &a, const TMCG_Card &b) { return qr_diff(const_cast<TMCG_Card &>(a), const_cast<TMCG_Card &>(b)); }
static std::string secret_diff(const VTMF_CardSecret &a, const VTMF_CardSecret &b) { return mpz_cmp(a.r, b.r) ? "r differs" : ""; }
static std::string secret_diff(const TMCG_CardSecret &a, const TMCG_CardSecret &b) { return qr_diff(const_cast<TMCG_CardSecret &>(a), const_cast<TMCG_CardSecret &>(b)); }

static void make_card(VTMF_Card &c, size_t, size_t, int pattern, size_t i, size_t n)
{
	F->get(c.c_1, pattern, 2 * i, 2 * n, n), F->get(c.c_2, pattern, 2 * i + 1, 2 * n, n);
}
static void make_card(TMCG_Card &c, size_t k, size_t w, int pattern, size_t i, size_t n)
{
	if (k == 0) k = i % TMCG_MAX_PLAYERS + 1, w = i % TMCG_MAX_TYPEBITS + 1;
	c.resize(k, w);
	// patterns with long values only in the first card, to keep 512-card stacks of 320 cells within memory reason
	qr_fill(c, (pattern >= 4 && i > 0) ? 0 : pattern, i * 1000 + n);
}
static void make_secret(VTMF_CardSecret &c, size_t, size_t, int pattern, size_t i, size_t n) { F->get(c.r, pattern, i, n, n + 17); }
static void make_secret(TMCG_CardSecret &c, size_t k, size_t w, int pattern, size_t i, size_t n)
{
	if (k == 0) k = i % TMCG_MAX_PLAYERS + 1, w = i % TMCG_MAX_TYPEBITS + 1;
	c.resize(k, w);
	qr_fill(c, (pattern >= 4 && i > 0) ? 0 : pattern, i * 1000 + n + 5);
}

// import text into a fresh stack-like object: mode 0 import(), 1 operator>> (allocates TMCG_MAX_STACK_CHARS)
template<class S> static bool stack_import(S &t, const std::string &Tx, int mode, bool &framing, std::string &exc)
{
	framing = true;
	try
	{
		if (mode == 0) return t.import(Tx);
		std::stringstream ss; ss << Tx << std::endl << SENTINEL_LINE << std::endl;
		ss >> t;
		bool ok = !ss.fail();
		std::string rest; std::getline(ss, rest); framing = (rest == SENTINEL_LINE);
		return ok;
	}
	catch (std::exception &e) { exc = e.what(); return false; }
}

template<class CardT> static void fam_stack_of(const std::string &enc, const std::string &shapes)
{
	std::vector<size_t> sizes = stack_sizes();
	for (size_t si = 0; si < sizes.size(); si++)
	{
		size_t n = sizes[si];
		std::vector<std::pair<size_t, size_t> > SH;
		if (enc == "vtmf") SH.push_back(std::make_pair((size_t)1, (size_t)1)); else SH = stack_shapes(n, shapes);
		for (size_t sh = 0; sh < SH.size(); sh++)
		{
			std::string cid = "stack:" + enc + ",n=" + str(n) + (enc == "qr" ? ",k=" + str(SH[sh].first) + ",w=" + str(SH[sh].second) : "");
			if (!R->mine() || !R->selected(cid)) continue;
			if (R->out_of_time()) return;
			at(cid);
			bool big = SH[sh].first * SH[sh].second * n > 40000;
			for (int pattern = 0; pattern <= 4; pattern++)
			{
				if (big && pattern != 0 && pattern != 4) continue;
				if (shapes == "all" && pattern != 0 && pattern != 3) continue;
				TMCG_Stack<CardT> st;
				for (size_t i = 0; i < n; i++)
				{
					CardT c;
					make_card(c, SH[sh].first, SH[sh].second, pattern, i, n);
					st.push(c);
				}
				std::string ctx = "n=" + str(n) + " pattern " + str(pattern);
				if (st.size() != n) { R->viol("stack/push", ctx + ": push refused below TMCG_MAX_CARDS", cid); continue; }
				std::string Tx = exp_text(st);
				check_overrun(*R, "mpz-operator<<", cid);
				if (lite_skip(Tx)) continue;
				for (int mode = 0; mode < 2; mode++)
				{
					if (mode == 1 && (Tx.size() + 2 > TMCG_MAX_STACK_CHARS || !stream_now())) continue;
					TMCG_Stack<CardT> t;
					bool framing; std::string exc;
					bool ok = stack_import(t, Tx, mode, framing, exc);
					R->ok(D.fresh("stack/" + enc + str(mode), Tx));
					std::string key = "stack/" + enc + (mode ? "-stream" : "-import");
					if (!ok) { R->viol(key + "-refused", ctx + (exc.empty() ? "" : ": " + exc) + " (" + str(Tx.size()) + " chars)", cid); continue; }
					if (t.size() != n) { R->viol(key + "-size", ctx + ": size " + str(t.size()), cid); continue; }
					std::string d;
					for (size_t i = 0; i < n && d.empty(); i++)
					{
						d = card_diff(st[i], t[i]);
						if (!d.empty()) d = "card " + str(i) + ": " + d;
					}
					if (!d.empty()) { R->viol(key + "-differs", ctx + ": " + d, cid); continue; }
					if (!(t == st) || (t != st)) { R->viol(key + "-operator==", ctx, cid); continue; }
					if (!framing) { R->viol(key + "-framing", ctx, cid); continue; }
					if (exp_text(t) != Tx) R->viol(key + "-reexport", ctx, cid);
				}
				// open stack: types + the same cards; travels as a TMCG_Stack
				if (pattern == 0 && !big)
				{
					TMCG_OpenStack<CardT> os, os2;
					for (size_t i = 0; i < n; i++) os.push((i * 7 + 3) % 1024, st[i]);
					TMCG_Stack<CardT> carrier, back;
					carrier.push(os);
					std::string To = exp_text(carrier);
					bool ok = back.import(To);
					R->ok(false);
					if (!ok || back.size() != n) R->viol("openstack/import", ctx, cid);
					else
					{
						for (size_t i = 0; i < n; i++) os2.push(os[i].first, back[i]);
						if (!(os2 == os) || (os2 != os)) R->viol("openstack/differs", ctx + ": open stack rebuilt from the transported cards is not equal", cid);
						else if (To != Tx) R->viol("openstack/text", ctx + ": cards of the open stack export differently", cid);
					}
				}
			}
			if (n == 1 || n == TMCG_MAX_CARDS) R->sample(cid, "patterns 0-4; import() into a fresh stack, operator>> on every " + str(stream_every) + "th case; open stack via TMCG_Stack");
		}
	}
}

static void make_perm(std::vector<size_t> &pi, size_t n, int kind, uint64_t seed)
{
	pi.resize(n);
	for (size_t i = 0; i < n; i++) pi[i] = i;
	if (kind == 1) std::reverse(pi.begin(), pi.end());
	else if (kind == 2) std::rotate(pi.begin(), pi.begin() + (n > 1 ? 1 : 0), pi.end());
	else if (kind == 3)
	{
		uint64_t st = seed ^ (n * 0x9e3779b97f4a7c15ULL);
		for (size_t i = n; i > 1; i--) std::swap(pi[i - 1], pi[mcenv::splitmix(st) % i]);
	}
}

template<class SecT> static void fam_stacksecret_of(const std::string &enc, const std::string &shapes)
{
	std::vector<size_t> sizes = stack_sizes();
	for (size_t si = 0; si < sizes.size(); si++)
	{
		size_t n = sizes[si];
		std::vector<std::pair<size_t, size_t> > SH;
		if (enc == "vtmf") SH.push_back(std::make_pair((size_t)1, (size_t)1)); else SH = stack_shapes(n, shapes);
		for (size_t sh = 0; sh < SH.size(); sh++)
		{
			std::string cid = "stacksecret:" + enc + ",n=" + str(n) + (enc == "qr" ? ",k=" + str(SH[sh].first) + ",w=" + str(SH[sh].second) : "");
			if (!R->mine() || !R->selected(cid)) continue;
			if (R->out_of_time()) return;
			at(cid);
			bool big = SH[sh].first * SH[sh].second * n > 20000;
			// permutations: all of them for n <= 5, four kinds above
			std::vector<std::vector<size_t> > perms;
			if (n <= 5 && !(shapes == "all" && n > 3))
			{
				std::vector<size_t> pi(n);
				for (size_t i = 0; i < n; i++) pi[i] = i;
				do perms.push_back(pi); while (std::next_permutation(pi.begin(), pi.end()));
			}
			else
				for (int kind = 0; kind < 4; kind++)
				{
					std::vector<size_t> pi;
					make_perm(pi, n, kind, mcenv::env_seed());
					if (std::find(perms.begin(), perms.end(), pi) == perms.end()) perms.push_back(pi);
				}
			for (size_t pk = 0; pk < perms.size(); pk++)
				for (int pattern = 0; pattern <= 4; pattern++)
				{
					// one pattern per permutation when there are many / large ones (quick tier: for every size above 8; the
					// pattern rotates with the size so that every permutation kind meets every pattern)
					if ((big || perms.size() > 6 || shapes == "all" || (!thorough && n > 8)) && pattern != (int)((pk + n) % 5)) continue;
					TMCG_StackSecret<SecT> st;
					for (size_t i = 0; i < n; i++)
					{
						SecT c;
						make_secret(c, SH[sh].first, SH[sh].second, pattern, i, n);
						st.push(perms[pk][i], c);
					}
					std::string ctx = "n=" + str(n) + " permutation #" + str(pk) + " pattern " + str(pattern);
					if (st.size() != n) { R->viol("stacksecret/push", ctx, cid); continue; }
					std::string Tx = exp_text(st);
					check_overrun(*R, "mpz-operator<<", cid);
					if (lite_skip(Tx)) continue;
					for (int mode = 0; mode < 2; mode++)
					{
						if (mode == 1 && (Tx.size() + 2 > TMCG_MAX_STACK_CHARS || !stream_now())) continue;
						TMCG_StackSecret<SecT> t;
						bool framing; std::string exc;
						bool ok = stack_import(t, Tx, mode, framing, exc);
						R->ok(D.fresh("stacksecret/" + enc + str(mode), Tx));
						std::string key = "stacksecret/" + enc + (mode ? "-stream" : "-import");
						if (!ok) { R->viol(key + "-refused", ctx + (exc.empty() ? "" : ": " + exc), cid); continue; }
						if (t.size() != n) { R->viol(key + "-size", ctx + ": size " + str(t.size()), cid); continue; }
						std::string d;
						for (size_t i = 0; i < n && d.empty(); i++)
						{
							if (t[i].first != st[i].first) d = "index " + str(i) + ": permutation entry " + str(t[i].first) + " instead of " + str(st[i].first);
							else { d = secret_diff(st[i].second, t[i].second); if (!d.empty()) d = "secret " + str(i) + ": " + d; }
						}
						if (!d.empty()) { R->viol(key + "-differs", ctx + ": " + d, cid); continue; }
						if (!framing) { R->viol(key + "-framing", ctx, cid); continue; }
						if (exp_text(t) != Tx) R->viol(key + "-reexport", ctx, cid);
					}
				}
			if (n == 5 || n == TMCG_MAX_CARDS) R->sample(cid, str(perms.size()) + " permutations; import() into a fresh object, operator>> on every " + str(stream_every) + "th case");
		}
	}
}

// =================================================================== keys
struct KeyStrings { std::string name, email, type, nizk, sig; };
static std::vector<KeyStrings> key_strings()
{
	std::vector<KeyStrings> V;
	KeyStrings a = {"Alice", "alice@gaos.org", "TMCG/RABIN_2048_NIZK", "nzk^16^128^128^5^6^7^", "sig|6ZVPMQ4L|1R5mC8T9|"}; V.push_back(a);
	KeyStrings b = {"", "", "", "", ""}; V.push_back(b);
	KeyStrings c = {"Bob van der Example", " spaces kept ", "TMCG/RABIN_1024", "nzk^1^2^3^", "sig|AAAA|0|"}; V.push_back(c);
	KeyStrings d = {"caret^in^name", "tab\there", "t", "^", "|"}; V.push_back(d);
	KeyStrings e = {std::string(1000, 'n'), std::string(300, 'e') + "@x", "TMCG/RABIN_16384_NIZK", std::string(50000, '7') + "^", "sig|" + std::string(8, 'K') + "|" + std::string(3000, 'z') + "|"}; V.push_back(e);
	KeyStrings f = {"\xc3\x84lice \xe2\x99\xa0", "a@b", "TMCG/RABIN_2048_NIZK", "nzk^0^0^0^", "sig||||trailing|bars|"}; V.push_back(f);
	return V;
}

static std::string pub_diff(const TMCG_PublicKey &a, const TMCG_PublicKey &b)
{
	if (a.name != b.name) return "name";
	if (a.email != b.email) return "email";
	if (a.type != b.type) return "type";
	if (a.nizk != b.nizk) return "nizk";
	if (a.sig != b.sig) return "sig";
	if (mpz_cmp(a.m, b.m)) return "m";
	if (mpz_cmp(a.y, b.y)) return "y";
	return "";
}
static std::string sec_diff(const TMCG_SecretKey &a, const TMCG_SecretKey &b)
{
	if (a.name != b.name) return "name";
	if (a.email != b.email) return "email";
	if (a.type != b.type) return "type";
	if (a.nizk != b.nizk) return "nizk";
	if (a.sig != b.sig) return "sig";
	if (mpz_cmp(a.m, b.m)) return "m";
	if (mpz_cmp(a.y, b.y)) return "y";
	if (mpz_cmp(a.p, b.p)) return "p";
	if (mpz_cmp(a.q, b.q)) return "q";
	if (mpz_cmp(a.y1, b.y1)) return "y1 (precomputed)";
	if (mpz_cmp(a.m1pq, b.m1pq)) return "m1pq (precomputed)";
	if (mpz_cmp(a.gcdext_up, b.gcdext_up)) return "gcdext_up (precomputed)";
	if (mpz_cmp(a.gcdext_vq, b.gcdext_vq)) return "gcdext_vq (precomputed)";
	if (mpz_cmp(a.pa1d4, b.pa1d4)) return "pa1d4 (precomputed)";
	if (mpz_cmp(a.qa1d4, b.qa1d4)) return "qa1d4 (precomputed)";
	return "";
}

// modes: 0 import into fresh, 1 operator>> into fresh, 2 import into used, 3 operator>> into used, 4 string constructor
template<class KeyT, class DiffF> static void key_roundtrip(const KeyT &orig, const KeyT &garbage, DiffF diff, const std::string &kind, const std::string &ctx, const std::string &cid)
{
	std::string Tx = exp_text(orig);
	check_overrun(*R, "mpz-operator<<", cid);
	for (int mode = 0; mode < 5; mode++)
	{
		bool ok = false, threw = false, framing = true;
		std::string exc;
		KeyT *t = NULL;
		if ((mode == 1 || mode == 3) && !stream_now()) continue;
		try
		{
			if (mode == 4) { t = new KeyT(Tx); ok = true; }
			else
			{
				t = (mode >= 2) ? new KeyT(garbage) : new KeyT();
				if ((mode & 1) == 0) ok = t->import(Tx);
				else
				{
					std::stringstream ss; ss << Tx << std::endl << SENTINEL_LINE << std::endl;
					ss >> *t; ok = !ss.fail();
					std::string rest; std::getline(ss, rest); framing = (rest == SENTINEL_LINE);
				}
			}
		}
		catch (std::exception &e) { threw = true; exc = e.what(); }
		R->ok(D.fresh(kind + str(mode), Tx));
		std::string c2 = ctx + " mode " + str(mode);
		if (threw || !ok) R->viol(kind + "/refused", c2 + (threw ? ": " + exc : ": import of the library's own export failed"), cid);
		else
		{
			std::string d = diff(orig, *t);
			if (!d.empty()) R->viol(kind + "/differs", c2 + ": field " + d + " differs", cid);
			else if (!framing) R->viol(kind + "/framing", c2, cid);
			else if (exp_text(*t) != Tx) R->viol(kind + "/reexport", c2, cid);
		}
		delete t;
	}
}

static bool is_prime_ul(unsigned long n)
{
	if (n < 2) return false;
	for (unsigned long d = 2; d * d <= n; d++) if (n % d == 0) return false;
	return true;
}

static void fam_keys()
{
	std::vector<KeyStrings> KS = key_strings();
	const std::vector<Named> &A = F->Along;
	// --keygrid small (ASan quick pass): every 4th modulus value and Blum primes < 40 only; the plain run has the full grid
	bool small = AR->get("keygrid", "full") == "small";
	// ---- public keys: every string variant x (m, y) over the alphabet diagonal bands
	for (size_t s = 0; s < KS.size(); s++)
		for (size_t i = 0; i < A.size(); i++)
		{
			std::string cid = "keys:pub,s=" + str(s) + ",m=" + str(i);
			if (small && (i % 4) != 0) continue;
			if (!R->mine() || !R->selected(cid)) continue;
			if (R->out_of_time()) return;
			if (i == 0) at(cid);
			for (size_t dj = 0; dj < (s == 0 ? A.size() : 3); dj++)
			{
				size_t j = (i + dj) % A.size();
				TMCG_PublicKey k, g;
				k.name = KS[s].name, k.email = KS[s].email, k.type = KS[s].type, k.nizk = KS[s].nizk, k.sig = KS[s].sig;
				mpz_set(k.m, A[i].z.v), mpz_set(k.y, A[j].z.v);
				const KeyStrings &o = KS[(s + 1) % KS.size()];
				g.name = o.name + "x", g.email = o.email + "y", g.type = o.type + "z", g.nizk = o.nizk + "1^", g.sig = o.sig + "2|";
				mpz_set(g.m, A[(j + 3) % A.size()].z.v), mpz_set(g.y, A[(i + 11) % A.size()].z.v);
				key_roundtrip(k, g, pub_diff, "pubkey", "strings #" + str(s) + " m=" + A[i].name + " y=" + A[j].name, cid);
			}
			if (s == 0 && i == 0) R->sample(cid, "public key: string variants x (m,y) from the alphabet; 5 import modes");
		}
	// ---- secret keys built from small and seeded Blum primes (import recomputes the non-persistent members)
	std::vector<Z> primes;
	for (unsigned long c = 3; c < (small ? 40UL : 120UL); c += 4) if (is_prime_ul(c)) primes.push_back(Z((long)c));
	{
		mcenv::CoinSource cs(mcenv::env_seed(), 4711);
		mcenv::cur = &cs;
		const unsigned long sizes[] = {64, 65, 128, 512, 1024};
		for (size_t i = 0; i < sizeof(sizes) / sizeof(sizes[0]); i++)
		{
			Z p;
			do tmcg_mpz_wrandomb(p.v, sizes[i]), mpz_setbit(p.v, sizes[i] - 1), mpz_nextprime(p.v, p.v); while (!mpz_congruent_ui_p(p.v, 3, 4));
			primes.push_back(p);
		}
		mcenv::cur = nullptr;
	}
	for (size_t a = 0; a < primes.size(); a++)
		for (size_t b = a + 1; b < primes.size(); b++)
		{
			std::string cid = "keys:sec,p=" + str(a) + ",q=" + str(b);
			if (!R->mine() || !R->selected(cid)) continue;
			if (R->out_of_time()) return;
			Z m, phi, gg, y;
			mpz_mul(m.v, primes[a].v, primes[b].v);
			mpz_sub(phi.v, m.v, primes[a].v), mpz_sub(phi.v, phi.v, primes[b].v), mpz_add_ui(phi.v, phi.v, 1);
			mpz_gcd(gg.v, m.v, phi.v);
			if (mpz_cmp_ui(gg.v, 1)) { R->counters["seckey_pairs_skipped_gcd_m_phi"]++; continue; }
			for (size_t s = 0; s < KS.size(); s++)
			{
				// y: 2 values coprime to m
				for (unsigned long y0 = 2; y0 < 2 + 2 * 7; y0 += 7)
				{
					mpz_set_ui(y.v, y0);
					if (s & 1) { mpz_sub_ui(y.v, m.v, y0); }
					mpz_gcd(gg.v, y.v, m.v);
					if (mpz_cmp_ui(gg.v, 1)) continue;
					TMCG_SecretKey k, g;
					k.name = KS[s].name, k.email = KS[s].email, k.type = KS[s].type, k.nizk = KS[s].nizk, k.sig = KS[s].sig;
					mpz_set(k.m, m.v), mpz_set(k.y, y.v), mpz_set(k.p, primes[a].v), mpz_set(k.q, primes[b].v);
					if (!k.precompute()) { R->counters["seckey_precompute_refused_by_construction"]++; continue; }
					// used target: another valid key
					const KeyStrings &o = KS[(s + 1) % KS.size()];
					g.name = o.name + "x", g.email = o.email, g.type = o.type, g.nizk = o.nizk, g.sig = o.sig + "|";
					mpz_set_ui(g.p, 7), mpz_set_ui(g.q, 11), mpz_set_ui(g.m, 77), mpz_set_ui(g.y, 3);
					g.precompute();
					key_roundtrip(k, g, sec_diff, "seckey", "strings #" + str(s) + " p=" + brief(primes[a].v) + " q=" + brief(primes[b].v) + " y=" + brief(y.v), cid);
				}
			}
			if (a == 0 && b == 1) R->sample(cid, "secret key from primes p,q = 3 mod 4: string variants x y; 5 import modes; precomputed members compared");
		}
	// ---- genuine generated keys
	{
		const unsigned long ks_quick[] = {512, 768};
		const unsigned long ks_thorough[] = {512, 768, 1024, 2048};
		const unsigned long *ks = thorough ? ks_thorough : ks_quick;
		size_t nks = thorough ? 4 : 2;
		for (size_t i = 0; i < nks; i++)
			for (int nizk = 0; nizk < 2; nizk++)
			{
				std::string cid = "keys:generated,size=" + str(ks[i]) + ",nizk=" + str(nizk);
				if (!R->mine() || !R->selected(cid)) continue;
				if (R->out_of_time()) return;
				at(cid);
				mcenv::CoinSource cs(mcenv::env_seed(), 900 + i * 2 + nizk);
				mcenv::cur = &cs;
				TMCG_SecretKey sec("Alice Generated", "alice@example.org", ks[i], nizk != 0);
				TMCG_SecretKey other("Bob", "bob@example.org", 512, false);
				mcenv::cur = nullptr;
				TMCG_PublicKey pub(sec), opub(other);
				key_roundtrip(sec, other, sec_diff, "seckey", "generated " + str(ks[i]) + " bit key, nizk=" + str(nizk), cid);
				key_roundtrip(pub, opub, pub_diff, "pubkey", "generated " + str(ks[i]) + " bit key, nizk=" + str(nizk), cid);
				// the re-imported key is still the same key: check() verdict and a signature made by the original
				if (ks[i] <= 1024)
				{
					TMCG_PublicKey pub2;
					TMCG_SecretKey sec2;
					bool i1 = pub2.import(exp_text(pub)), i2 = sec2.import(exp_text(sec));
					mcenv::CoinSource cs2(mcenv::env_seed(), 950 + i);
					mcenv::cur = &cs2;
					std::string sg = sec.sign("c11 round trip"), sg2 = sec2.sign("signed by the imported key");
					mcenv::cur = nullptr;
					R->ok(false);
					if (!i1 || !i2 || pub.check() != pub2.check() || !pub2.verify("c11 round trip", sg) || !pub.verify("signed by the imported key", sg2))
						R->viol("keys/functional", "generated " + str(ks[i]) + " bit key behaves differently after the round trip", cid);
				}
				R->sample(cid, "genuine key: secret and public part, 5 import modes each");
			}
	}
}

int main(int argc, char **argv)
{
	Args A = parse(argc, argv);
	AR = &A;
	Report rep(A);
	R = &rep;
	std::string family = A.get("family", "mpz");
	if (!A.only.empty())
		family = A.only.substr(0, A.only.find(':'));
	if (!init_libTMCG()) { fprintf(stderr, "init_libTMCG failed\n"); return 2; }
	thorough = A.tier == "thorough";
	MuteCerr mute;
	Filler filler;
	F = &filler;
	std::string used = A.get("used", "all"), shapes = A.get("shapes", "few"), enc = A.get("enc", "");
	if (!A.only.empty() && (family == "stack" || family == "stacksecret"))
		enc = A.only.find(":qr") != std::string::npos ? "qr" : "vtmf";
	stream_every = (unsigned)A.geti("stream-every", 1);
	lite = A.geti("lite", 0) != 0;
	if (family == "mpz") { fam_mpz(); rep.bound = "every text length 1.." + str(MAXLEN) + " (min/max/seeded, both signs); 2^k+-1 at all limb boundaries up to 2^24400; boundary alphabet singly and in sequence"; }
	else if (family == "qrcard") { fam_qr<TMCG_Card>(used == "all"); rep.bound = "all 320 shapes x 5-6 patterns; used targets: " + used; }
	else if (family == "qrsecret") { fam_qr<TMCG_CardSecret>(used == "all"); rep.bound = "all 320 shapes x 5-6 patterns; used targets: " + used; }
	else if (family == "vtmf") { fam_vtmf(); rep.bound = "all ordered pairs of the " + str(F->Along.size()) + "-value boundary alphabet x 4 modes"; }
	else if (family == "stack")
	{
		if (enc == "" || enc == "vtmf") fam_stack_of<VTMF_Card>("vtmf", shapes);
		if (enc == "" || enc == "qr") fam_stack_of<TMCG_Card>("qr", shapes);
		rep.bound = std::string("sizes ") + (A.get("sizes", "full") == "sparse" ? "1..16, 32, 48, 64, 512" : "1..64, 511, 512") + "; QR card shapes: " + shapes;
	}
	else if (family == "stacksecret")
	{
		if (enc == "" || enc == "vtmf") fam_stacksecret_of<VTMF_CardSecret>("vtmf", shapes);
		if (enc == "" || enc == "qr") fam_stacksecret_of<TMCG_CardSecret>("qr", shapes);
		rep.bound = std::string("sizes ") + (A.get("sizes", "full") == "sparse" ? "1..16, 32, 48, 64, 512" : "1..64, 511, 512") + "; all permutations for n<=5 (n<=3 with all shapes); QR shapes: " + shapes;
	}
	else if (family == "keys")
	{
		fam_keys();
		rep.bound = A.get("keygrid", "full") == "small" ? "reduced key grid (every 4th modulus value, Blum primes < 40 and 5 seeded primes; generated keys) - second pass, the plain run has the full grid"
			: "6 string variants x alphabet moduli; all pairs of Blum primes < 120 and 5 seeded primes; generated keys";
	}
	else { fprintf(stderr, "unknown family %s\n", family.c_str()); return 2; }
	if (lite) // a second pass under ASan over grid points that the plain run of the same family covers completely: not a cap
		rep.bound += "; lite pass: exports above 50000 characters are skipped (covered by the plain runs)";
	if (family != "mpz" && stream_every != 1)
		rep.bound += "; operator>> variant of a case on every " + str(stream_every) + "th occasion only (import(string) always)";
	check_overrun(rep, "mpz-operator<<", "end-of-run");
	rep.counters["distinct_texts"] = D.seen.size();
	rep.finish();
	return 0;
}
