// C12 — shared machinery of the robustness drivers (c12_text.cc, c12_verify.cc, c12_pgp.cc).
//
//  * fork harness: library code only ever sees a mutated input inside a forked child; the parent never dies.
//    Fast path: a batch (<= 256 cases, 16 for the 671 MB targets) runs in ONE child; before every case the child re-arms a
//    CPU watchdog (ITIMER_PROF 15 s; 40 s for the 671 MB targets), a wall-clock alarm, resets the coin source / virtual
//    clock (prologue) and the live-heap baseline, and reports one outcome byte per finished case through a pipe.  When the
//    child ends abnormally the case it was running is re-run ALONE in its own child (exit code / signal / stderr of that
//    run decide and attribute the violation); after a finding key has been confirmed alone twice, later hits of the same
//    key are taken from the batch child's own report.  A watchdog hit is confirmed with a 10x limit before it is called a
//    hang ("slow-but-terminating" otherwise).  `--batch 1` = strict fork per case (a fork costs 5-150 ms on this VM,
//    which is why the batch path exists).  Peak RSS: wait4 of the isolated child (> 1 GiB = violation; a batch whose
//    peak exceeds it has every case re-run alone); live heap: sanitizer malloc hook (> 3 GiB above the case baseline).
//  * crash site: the child's stderr goes to a scratch file; the parent extracts the sanitizer error class, glibc's
//    assertion text and the stack (unsymbolized pcs, resolved lazily by one llvm-symbolizer/addr2line coprocess per driver
//    process with a cache) and keys the finding "c12/<target>/<kind>@<top library frame>".
//  * sanitizer bridge: GMP and libgcrypt are not instrumented, so writes they perform into library buffers are invisible
//    to ASan.  __gmpz_export, __gmpz_get_str and gcry_mpi_print are interposed here (the library objects are linked
//    statically into the driver, so their calls bind to these definitions); the exact number of bytes about to be written
//    is computed and checked with __asan_region_is_poisoned before forwarding (dlsym RTLD_NEXT).
//  * mutation engine: structure-aware catalogue for delimiter-separated text ('\n', '|', '^') and byte-level catalogue
//    for short / binary inputs, enumerated in a fixed order and de-duplicated by content.  A mutated input is a list of
//    pieces of the seed and literals; its content hash comes from prefix hashes, the string is built only for cases that
//    this shard runs (--stride k: every k-th distinct mutation; ids starting with "x" are never thinned).
#ifndef C12_COMMON_HH
#define C12_COMMON_HH
#include "drv.hh"
#include <gmp.h>
#include <gcrypt.h>
#include <dlfcn.h>
#include <fcntl.h>
#include <signal.h>
#include <sys/wait.h>
#include <sys/resource.h>
#include <sys/time.h>
#include <sys/mman.h>
#include <functional>
#include <unordered_set>
#include <unordered_map>
#include <stdexcept>
#include <algorithm>

#if defined(__SANITIZE_ADDRESS__)
#define C12_ASAN 1
extern "C" {
int __asan_region_is_poisoned(void *beg, size_t size) __attribute__((weak));
void *__asan_region_is_poisoned_ptr(void *beg, size_t size);
void __sanitizer_print_stack_trace(void);
void __asan_describe_address(void *addr);
size_t __sanitizer_get_current_allocated_bytes(void);
int __sanitizer_install_malloc_and_free_hooks(void (*malloc_hook)(const volatile void *, size_t),
	void (*free_hook)(const volatile void *));
}
#else
#define C12_ASAN 0
#endif

// defaults for a driver started by hand; ./check passes the same through the run's "env"
extern "C" const char *__asan_default_options()
{
	return "detect_leaks=0:abort_on_error=0:exitcode=97:handle_abort=1:symbolize=0:allocator_may_return_null=0:"
		"max_allocation_size_mb=3072:print_summary=0:detect_stack_use_after_return=0";
}
extern "C" const char *__ubsan_default_options()
{
	return "print_stacktrace=1:exitcode=96:symbolize=0";
}

namespace c12 {

enum { X_REFUSED = 40, X_ACCEPTED = 41, X_STDEXC = 42, X_NONSTD = 43, X_BRIDGE = 98, X_ALLOC = 99 };

// ------------------------------------------------------------------------------------------------ bridge
static const size_t HEAP_LIMIT = (size_t)3 << 30;    // live heap bytes a single case may add
static const long RSS_LIMIT_KB = 1L << 20;            // peak resident set of a child: 1 GiB
static bool in_child = false;
static size_t heap_base = 0;                          // live heap at the start of the running case

static void bridge_fail(const char *fn, void *dst, size_t n)
{
	char msg[256];
	int k = snprintf(msg, sizeof msg, "\nC12-BRIDGE: %s writes %zu bytes into poisoned memory at %p\n", fn, n, dst);
	if (write(2, msg, k) < 0) {}
#if C12_ASAN
	__sanitizer_print_stack_trace();
	__asan_describe_address(dst);
#endif
	_exit(X_BRIDGE);
}
static inline void bridge_check(const char *fn, void *dst, size_t n)
{
#if C12_ASAN
	if (dst && n && __asan_region_is_poisoned(dst, n))
		bridge_fail(fn, dst, n);
#endif
}
#if C12_ASAN
static volatile unsigned hook_calls = 0;
static void malloc_hook(const volatile void *, size_t size)
{
	if (!in_child)
		return;
	if (size >= (64u << 10) || ((++hook_calls) & 255u) == 0)
	{
		if (__sanitizer_get_current_allocated_bytes() > heap_base + HEAP_LIMIT)
		{
			const char msg[] = "\nC12-ALLOC: live heap above limit\n";
			if (write(2, msg, sizeof msg - 1) < 0) {}
			in_child = false;
			__sanitizer_print_stack_trace();
			_exit(X_ALLOC);
		}
	}
}
static void free_hook(const volatile void *) {}
#endif
}

extern "C" {
void *__gmpz_export(void *rop, size_t *countp, int order, size_t size, int endian, size_t nails, mpz_srcptr op)
{
	typedef void *(*fn_t)(void *, size_t *, int, size_t, int, size_t, mpz_srcptr);
	static fn_t real = (fn_t)dlsym(RTLD_NEXT, "__gmpz_export");
	if (rop && size && mpz_sgn(op) != 0)
	{
		size_t numb = 8 * size - nails;
		size_t count = (mpz_sizeinbase(op, 2) + numb - 1) / numb;
		c12::bridge_check("mpz_export", rop, count * size);
	}
	return real(rop, countp, order, size, endian, nails, op);
}
char *__gmpz_get_str(char *str, int base, mpz_srcptr op)
{
	typedef char *(*fn_t)(char *, int, mpz_srcptr);
	static fn_t real = (fn_t)dlsym(RTLD_NEXT, "__gmpz_get_str");
	if (!str)
		return real(str, base, op);
	char *tmp = real(NULL, base, op);
	if (!tmp)
		return NULL;
	size_t n = strlen(tmp) + 1;
	c12::bridge_check("mpz_get_str", str, n);
	memcpy(str, tmp, n);
	void (*freefunc)(void *, size_t);
	mp_get_memory_functions(NULL, NULL, &freefunc);
	freefunc(tmp, n);
	return str;
}
gcry_error_t gcry_mpi_print(enum gcry_mpi_format format, unsigned char *buffer, size_t buflen, size_t *nwritten, const gcry_mpi_t a)
{
	typedef gcry_error_t (*fn_t)(enum gcry_mpi_format, unsigned char *, size_t, size_t *, const gcry_mpi_t);
	static fn_t real = (fn_t)dlsym(RTLD_NEXT, "gcry_mpi_print");
	if (buffer && a)
	{
		size_t need = 0;
		if (!real(format, NULL, 0, &need, a) && need <= buflen)
			c12::bridge_check("gcry_mpi_print", buffer, need);
	}
	return real(format, buffer, buflen, nwritten, a);
}
}

namespace c12 {

// ------------------------------------------------------------------------------------------------ symbolizer
struct Symbolizer {
	pid_t pid;
	int to, from;
	bool llvm, dead;
	std::string exe;
	std::unordered_map<uint64_t, std::vector<std::pair<std::string, std::string> > > cache;   // offset -> [(function, file:line)]
	Symbolizer() : pid(-1), to(-1), from(-1), llvm(true), dead(false)
	{
		char buf[4096];
		ssize_t n = readlink("/proc/self/exe", buf, sizeof buf - 1);
		exe = n > 0 ? std::string(buf, n) : "";
	}
	void start()
	{
		if (pid > 0 || dead)
			return;
		llvm = access("/usr/bin/llvm-symbolizer", X_OK) == 0;
		int a[2], b[2];
		if (pipe(a) || pipe(b)) { dead = true; return; }
		fflush(stdout);
		pid = fork();
		if (pid == 0)
		{
			dup2(a[0], 0), dup2(b[1], 1);
			close(a[0]), close(a[1]), close(b[0]), close(b[1]);
			int dn = open("/dev/null", O_WRONLY);
			if (dn >= 0) dup2(dn, 2);
			signal(SIGPIPE, SIG_DFL);
			if (llvm)
				execl("/usr/bin/llvm-symbolizer", "llvm-symbolizer", "--demangle", "--inlines", "-e", exe.c_str(), (char *)NULL);
			else
				execlp("addr2line", "addr2line", "-f", "-C", "-i", "-e", exe.c_str(), (char *)NULL);
			_exit(127);
		}
		close(a[0]), close(b[1]);
		to = a[1], from = b[0];
		if (pid < 0) dead = true;
	}
	bool readline(std::string &l)
	{
		l.clear();
		char c;
		while (true)
		{
			ssize_t n = read(from, &c, 1);
			if (n <= 0) { dead = true; return false; }
			if (c == '\n') return true;
			l += c;
		}
	}
	const std::vector<std::pair<std::string, std::string> > &lookup(uint64_t off)
	{
		auto it = cache.find(off);
		if (it != cache.end())
			return it->second;
		std::vector<std::pair<std::string, std::string> > &v = cache[off];
		start();
		if (dead)
			return v;
		char q[64];
		int k;
		if (llvm)
			k = snprintf(q, sizeof q, "0x%llx\n", (unsigned long long)off);
		else
			k = snprintf(q, sizeof q, "0x%llx\n0x0\n", (unsigned long long)off);   // addr2line: sentinel query terminates the inline chain
		if (write(to, q, k) != k) { dead = true; return v; }
		std::string f, l;
		if (llvm)
		{
			while (readline(f) && !f.empty())
			{
				if (!readline(l)) break;
				v.push_back(std::make_pair(f, l));
			}
		}
		else
		{
			while (readline(f) && readline(l))
			{
				if (l.substr(0, 4) == "??:0" || l == "??:?")
				{
					if (v.empty()) continue;   // unknown first answer: wait for the sentinel
					break;
				}
				v.push_back(std::make_pair(f, l));
				if (v.size() > 64) break;
			}
		}
		return v;
	}
	void stop()
	{
		if (pid > 0)
		{
			close(to), close(from);
			kill(pid, SIGKILL);
			int st;
			waitpid(pid, &st, 0);
			pid = -1;
		}
	}
	~Symbolizer() { stop(); }
};

static Symbolizer &symbolizer() { static Symbolizer s; return s; }

static bool is_library_file(const std::string &fileline)
{
	if (fileline.empty() || fileline[0] == '?')
		return false;
	if (fileline.find("/usr/") == 0 || fileline.find("libsanitizer") != std::string::npos)
		return false;
	if (fileline.find("drivers/c12_") != std::string::npos || fileline.find("/mc/") != std::string::npos ||
		fileline.find("mc/env_shim") != std::string::npos)
		return false;
	if (fileline.find("/src/") == std::string::npos)
		return false;
	return true;
}

static std::string short_function(std::string f)
{
	// drop the argument list and template arguments, keep Class::method
	size_t p = f.find('(');
	if (p != std::string::npos && p > 0) f = f.substr(0, p);
	std::string o;
	int depth = 0;
	for (size_t i = 0; i < f.size(); i++)
	{
		if (f[i] == '<') depth++;
		else if (f[i] == '>') depth--;
		else if (!depth) o += f[i];
	}
	{
		const std::string longname = "CallasDonnerhackeFinneyShawThayerRFC4880::";
		size_t q;
		while ((q = o.find(longname)) != std::string::npos) o.replace(q, longname.size(), "RFC4880::");
	}
	// drop a leading return type ("bool X::y")
	size_t sp = o.rfind(' ');
	if (sp != std::string::npos) o = o.substr(sp + 1);
	return o;
}

// ------------------------------------------------------------------------------------------------ fork harness
struct Res {
	enum Kind { REFUSED, ACCEPTED, STDEXC, VIOLATION } kind;
	std::string vkind;    // for VIOLATION: nonstd-exception | signal-<n> | <asan class> | ubsan-<..> | assert | hang | rss | alloc | bridge-overflow | exit-<n>
	std::string site;     // top library frame (function) if known
	std::string detail;   // assertion text / first report line / frames
	long maxrss_kb;
	double secs;
	bool slow;            // exceeded the first watchdog but finished under the 10x limit
	Res() : kind(REFUSED), maxrss_kb(0), secs(0), slow(false) {}
	bool violation() const { return kind == VIOLATION; }
	std::string key(const std::string &target) const
	{
		return "c12/" + target + "/" + vkind + (site.empty() ? "" : "@" + site);
	}
};

struct Forker {
	int errfd;
	unsigned cpu_s, wall_s;
	std::function<void()> prologue;      // executed in the child before every case (coin source / clock reset)
	Forker() : errfd(-1), cpu_s(15), wall_s(3600)
	{
		char path[] = "/tmp/c12-err-XXXXXX";
		errfd = mkstemp(path);
		if (errfd >= 0) unlink(path);
#if C12_ASAN
		__sanitizer_install_malloc_and_free_hooks(malloc_hook, free_hook);
#endif
	}
	~Forker() { if (errfd >= 0) close(errfd); }

	void read_err(std::string &err)
	{
		err.clear();
		if (errfd < 0) return;
		char buf[16384];
		off_t off = 0;
		ssize_t n;
		while (err.size() < (1u << 18) && (n = pread(errfd, buf, sizeof buf, off)) > 0)
			err.append(buf, n), off += n;
	}
	void child_setup(unsigned cpu_hard)
	{
		in_child = true;
		int dn = open("/dev/null", O_RDWR);
		if (dn >= 0) { dup2(dn, 0); dup2(dn, 1); }
		if (errfd >= 0) dup2(errfd, 2);
		struct rlimit rl;
		rl.rlim_cur = rl.rlim_max = 0;
		setrlimit(RLIMIT_CORE, &rl);
#if !C12_ASAN
		rl.rlim_cur = rl.rlim_max = (rlim_t)16 << 30;   // no sanitizer allocator hook here: a safety net only
		setrlimit(RLIMIT_AS, &rl);
#endif
		if (cpu_hard)
		{
			rl.rlim_cur = cpu_hard, rl.rlim_max = cpu_hard + 2;
			setrlimit(RLIMIT_CPU, &rl);
		}
		std::cerr.rdbuf(nullptr), std::cout.rdbuf(nullptr), std::clog.rdbuf(nullptr);
	}
	void case_begin(unsigned cpu, unsigned wall)
	{
		// CPU watchdog for this case (SIGPROF, default action: terminate) and a wall-clock guard
		struct itimerval it;
		memset(&it, 0, sizeof it);
		it.it_value.tv_sec = cpu;
		setitimer(ITIMER_PROF, &it, NULL);
		alarm(wall);
#if C12_ASAN
		heap_base = __sanitizer_get_current_allocated_bytes();
#endif
		if (prologue) prologue();
	}
	static int run_body(const std::function<int()> &body)
	{
		try { return body() ? X_ACCEPTED : X_REFUSED; }
		catch (std::exception &) { return X_STDEXC; }
		catch (...) { return X_NONSTD; }
	}

	// isolated: run one case in its own child; returns wait status, fills rusage and stderr text
	int spawn(const std::function<int()> &body, unsigned cpu, unsigned wall, struct rusage &ru, std::string &err, double &secs)
	{
		double t0 = drv::now();
		if (errfd >= 0) { if (ftruncate(errfd, 0) < 0) {} lseek(errfd, 0, SEEK_SET); }
		fflush(stdout), fflush(stderr);
		pid_t pid = fork();
		if (pid < 0) { perror("fork"); exit(2); }
		if (pid == 0)
		{
			child_setup(cpu + 5);
			case_begin(cpu, wall);
			_exit(run_body(body));
		}
		int st = 0;
		while (wait4(pid, &st, 0, &ru) < 0 && errno == EINTR) {}
		read_err(err);
		secs = drv::now() - t0;
		return st;
	}

	// batch: run cases [from, to) sequentially in one child; one outcome byte per finished case comes back through a pipe.
	// Returns the wait status; codes.size() < to - from means the child died (or was killed) while running case from + codes.size().
	int spawn_batch(const std::function<int(size_t)> &body, size_t from, size_t to, std::vector<unsigned char> &codes, struct rusage &ru)
	{
		codes.clear();
		int pfd[2];
		if (pipe(pfd)) { perror("pipe"); exit(2); }
		if (errfd >= 0) { if (ftruncate(errfd, 0) < 0) {} lseek(errfd, 0, SEEK_SET); }
		fflush(stdout), fflush(stderr);
		pid_t pid = fork();
		if (pid < 0) { perror("fork"); exit(2); }
		if (pid == 0)
		{
			close(pfd[0]);
			child_setup(0);
			for (size_t i = from; i < to; i++)
			{
				case_begin(cpu_s, wall_s);
				unsigned char c = (unsigned char)run_body([&]() { return body(i); });
				if (write(pfd[1], &c, 1) != 1) _exit(3);
			}
			_exit(0);
		}
		close(pfd[1]);
		unsigned char buf[4096];
		ssize_t n;
		while ((n = read(pfd[0], buf, sizeof buf)) > 0 || (n < 0 && errno == EINTR))
			if (n > 0) codes.insert(codes.end(), buf, buf + n);
		close(pfd[0]);
		int st = 0;
		while (wait4(pid, &st, 0, &ru) < 0 && errno == EINTR) {}
		return st;
	}

	static void analyse_report(const std::string &err, Res &r)
	{
		// sanitizer class
		size_t p;
		std::string first;
		if ((p = err.find("C12-BRIDGE:")) != std::string::npos)
		{
			r.vkind = "bridge-overflow";
			first = err.substr(p, err.find('\n', p) - p);
		}
		else if ((p = err.find("C12-ALLOC:")) != std::string::npos)
		{
			r.vkind = "alloc";
			first = err.substr(p, err.find('\n', p) - p);
		}
		else if ((p = err.find("Assertion `")) != std::string::npos && err.find("' failed", p) != std::string::npos)
		{
			size_t e = err.find("' failed", p);
			std::string expr = err.substr(p + 11, e - p - 11), nows;
			for (size_t i = 0; i < expr.size() && nows.size() < 60; i++)
				if (expr[i] != ' ') nows += expr[i];
			r.vkind = "assert(" + nows + ")";
			size_t ls = err.rfind('\n', p);
			ls = (ls == std::string::npos) ? 0 : ls + 1;
			first = err.substr(ls, e + 8 - ls);
		}
		else if ((p = err.find("ERROR: AddressSanitizer: ")) != std::string::npos)
		{
			size_t s = p + 25, e = err.find_first_of(" \n", s);
			r.vkind = err.substr(s, e - s);
			while (!r.vkind.empty() && r.vkind[r.vkind.size() - 1] == ':') r.vkind.erase(r.vkind.size() - 1);
			if (r.vkind == "requested") r.vkind = "allocation-size-too-big";   // "requested allocation size 0x.. exceeds maximum supported size"
			first = err.substr(p + 7, err.find('\n', p) - p - 7);
			if (first.find(" (pc ") != std::string::npos) first = first.substr(0, first.find(" (pc "));
			if (first.find(" at pc ") != std::string::npos) first = first.substr(0, first.find(" at pc "));
			if (first.size() > 160) first = first.substr(0, 160);
		}
		else if ((p = err.find("runtime error: ")) != std::string::npos)
		{
			size_t s = p + 15, e = err.find('\n', s);
			std::string txt = err.substr(s, e - s), kind;
			std::istringstream ws(txt);
			std::string w;
			int nw = 0;
			while (ws >> w && nw < 4)
			{
				bool digit = false;
				for (size_t i = 0; i < w.size(); i++) if (isdigit((unsigned char)w[i]) || w[i] == '\'') digit = true;
				if (digit) break;
				if (!w.empty() && w[w.size() - 1] == ':') { kind += (nw ? "-" : "") + w.substr(0, w.size() - 1); nw++; break; }
				kind += (nw ? "-" : "") + w, nw++;
			}
			r.vkind = "ubsan-" + kind;
			size_t ls = err.rfind('\n', p);
			ls = (ls == std::string::npos) ? 0 : ls + 1;
			first = err.substr(ls, e - ls);
		}
		// stack: first block of "#n 0xpc (module+0xoff)" lines
		Symbolizer &S = symbolizer();
		std::string frames;
		size_t pos = 0;
		int nframes = 0, expect = 0;
		bool have_site = false;
		while ((pos = err.find("    #", pos)) != std::string::npos && nframes < 40)
		{
			size_t eol = err.find('\n', pos);
			std::string ln = err.substr(pos, eol == std::string::npos ? std::string::npos : eol - pos);
			pos = (eol == std::string::npos) ? err.size() : eol;
			int no = atoi(ln.c_str() + 5);
			if (no != expect) { if (no == 0 && expect > 0) break; else continue; }
			expect++;
			nframes++;
			size_t lp = ln.rfind('('), pl = ln.rfind("+0x");
			if (lp == std::string::npos || pl == std::string::npos || pl < lp) continue;
			std::string module = ln.substr(lp + 1, pl - lp - 1);
			uint64_t off = strtoull(ln.c_str() + pl + 3, NULL, 16);
			if (module != S.exe)
			{
				size_t sl = module.rfind('/');
				if (frames.size() < 600) frames += " <" + (sl == std::string::npos ? module : module.substr(sl + 1)) + ">";
				continue;
			}
			if (no > 0 && off > 0) off -= 1;
			const std::vector<std::pair<std::string, std::string> > &v = S.lookup(off);
			bool harness = false;
			for (size_t i = 0; i < v.size(); i++)
				if (v[i].second.find("drivers/c12_") != std::string::npos) harness = true;
			if (harness)
				break;
			for (size_t i = 0; i < v.size(); i++)
			{
				bool lib = is_library_file(v[i].second);
				std::string fn = short_function(v[i].first);
				if (frames.size() < 600)
				{
					size_t sl = v[i].second.rfind('/');
					frames += " " + fn + "[" + (sl == std::string::npos ? v[i].second : v[i].second.substr(sl + 1)) + "]";
				}
				if (lib && !have_site) { r.site = fn; have_site = true; }
			}
		}
		r.detail = first + (frames.empty() ? "" : " | stack:" + frames);
	}

	static bool is_timeout(int st)
	{
		return WIFSIGNALED(st) && (WTERMSIG(st) == SIGXCPU || WTERMSIG(st) == SIGALRM || WTERMSIG(st) == SIGKILL || WTERMSIG(st) == SIGPROF);
	}
	Res run(const std::function<int()> &body)
	{
		Res r;
		struct rusage ru;
		std::string err;
		int st = spawn(body, cpu_s, wall_s, ru, err, r.secs);
		bool timeout = is_timeout(st);
		if (timeout)
		{
			// confirm with a 10x limit before calling it non-termination
			double s2;
			int st2 = spawn(body, cpu_s * 10, wall_s * 10, ru, err, s2);
			r.secs += s2;
			bool timeout2 = is_timeout(st2);
			if (timeout2)
			{
				r.kind = Res::VIOLATION, r.vkind = "hang";
				r.detail = "no result after " + drv::str(cpu_s * 10) + " s of CPU time";
				r.maxrss_kb = ru.ru_maxrss;
				return r;
			}
			r.slow = true;
			st = st2;
		}
		r.maxrss_kb = ru.ru_maxrss;
		if (WIFEXITED(st))
		{
			int c = WEXITSTATUS(st);
			if (c == X_REFUSED || c == X_ACCEPTED || c == X_STDEXC)
			{
				r.kind = c == X_REFUSED ? Res::REFUSED : (c == X_ACCEPTED ? Res::ACCEPTED : Res::STDEXC);
				if (r.maxrss_kb > RSS_LIMIT_KB)
				{
					r.kind = Res::VIOLATION, r.vkind = "rss";
					r.detail = "peak resident set " + drv::str(r.maxrss_kb / 1024) + " MiB";
				}
				return r;
			}
			r.kind = Res::VIOLATION;
			if (c == X_NONSTD) { r.vkind = "nonstd-exception"; r.detail = "an exception not derived from std::exception escaped"; return r; }
			analyse_report(err, r);
			if (r.vkind.empty()) { r.vkind = "exit-" + drv::str(c); r.detail = err.substr(0, 300); }
			return r;
		}
		r.kind = Res::VIOLATION;
		int sig = WIFSIGNALED(st) ? WTERMSIG(st) : 0;
		analyse_report(err, r);
		if (r.vkind.empty())
		{
			const char *nm = sig == SIGSEGV ? "SEGV" : sig == SIGFPE ? "FPE" : sig == SIGABRT ? "ABRT" : sig == SIGBUS ? "BUS" : sig == SIGILL ? "ILL" : NULL;
			r.vkind = nm ? std::string(nm) : "signal-" + drv::str(sig);
			if (r.detail.empty()) r.detail = err.substr(0, 300);
		}
		return r;
	}
};

// ------------------------------------------------------------------------------------------------ mutation engine
static inline uint64_t fnv(const std::string &s)
{
	uint64_t h = 1469598103934665603ULL;
	for (size_t i = 0; i < s.size(); i++) h = (h ^ (unsigned char)s[i]) * 1099511628211ULL;
	return h ^ (s.size() * 0x9e3779b97f4a7c15ULL);
}

// A mutated input is described as a list of pieces (ranges of the seed and literals); its content hash is computed from
// prefix hashes of the seed without building the string, and the string itself is built only for the cases a shard runs.
struct Piece { bool lit; size_t a, b; std::string s; };
struct Mutation {
	std::string id, cls;
	const std::string *seed;
	std::vector<Piece> pieces;
	std::string ready;          // used when pieces is empty and have_ready is set
	bool have_ready;
	Mutation() : seed(NULL), have_ready(false) {}
	std::string data() const
	{
		if (have_ready) return ready;
		std::string o;
		size_t n = 0;
		for (size_t i = 0; i < pieces.size(); i++) n += pieces[i].lit ? pieces[i].s.size() : pieces[i].b - pieces[i].a;
		o.reserve(n);
		for (size_t i = 0; i < pieces.size(); i++)
			if (pieces[i].lit) o += pieces[i].s; else o.append(*seed, pieces[i].a, pieces[i].b - pieces[i].a);
		return o;
	}
};

struct SeedHash {
	static const uint64_t B = 0x9E3779B97F4A7C15ULL;
	const std::string &s;
	std::vector<uint64_t> P, W;
	explicit SeedHash(const std::string &seed) : s(seed), P(seed.size() + 1), W(seed.size() + 1)
	{
		P[0] = 0, W[0] = 1;
		for (size_t i = 0; i < seed.size(); i++)
			P[i + 1] = P[i] * B + (unsigned char)seed[i] + 1, W[i + 1] = W[i] * B;
	}
	uint64_t range(size_t a, size_t b) const { return P[b] - P[a] * W[b - a]; }
	static uint64_t of(const std::string &x) { uint64_t h = 0; for (size_t i = 0; i < x.size(); i++) h = h * B + (unsigned char)x[i] + 1; return h; }
	uint64_t hash(const std::vector<Piece> &pc) const
	{
		uint64_t h = 0;
		size_t n = 0;
		for (size_t i = 0; i < pc.size(); i++)
		{
			if (pc[i].lit) { for (size_t k = 0; k < pc[i].s.size(); k++) h = h * B + (unsigned char)pc[i].s[k] + 1; n += pc[i].s.size(); }
			else { h = h * W[pc[i].b - pc[i].a] + range(pc[i].a, pc[i].b); n += pc[i].b - pc[i].a; }
		}
		return h ^ (n * 0xff51afd7ed558ccdULL);
	}
	uint64_t whole() const { return range(0, s.size()) ^ (s.size() * 0xff51afd7ed558ccdULL); }
	static uint64_t hash_ready(const std::string &x) { return of(x) ^ (x.size() * 0xff51afd7ed558ccdULL); }
};

// piece list builder
struct PL {
	std::vector<Piece> v;
	PL &r(size_t a, size_t b) { if (b > a) { Piece p; p.lit = false, p.a = a, p.b = b; v.push_back(p); } return *this; }
	PL &l(const std::string &x) { if (!x.empty()) { Piece p; p.lit = true, p.a = p.b = 0, p.s = x; v.push_back(p); } return *this; }
};

struct Field { size_t beg, len; char delim; };   // delim: character following the field, 0 at end of input

static std::vector<Field> split_fields(const std::string &s, const std::string &delims)
{
	std::vector<Field> f;
	size_t b = 0;
	for (size_t i = 0; i <= s.size(); i++)
	{
		if (i == s.size() || delims.find(s[i]) != std::string::npos)
		{
			if (i == s.size() && b == i) break;
			Field x; x.beg = b, x.len = i - b, x.delim = i < s.size() ? s[i] : 0;
			f.push_back(x);
			b = i + 1;
		}
	}
	return f;
}

struct Catalogue {
	bool thorough;
	std::vector<std::string> specials;     // target-specific interesting values (p, q, p-1 ... in the wire encoding)
	size_t byte_limit;                      // inputs up to this size get the byte-level catalogue at every offset
	size_t field_limit;                     // mutate only the first field_limit flat fields (0 = all)
	size_t pair_window, pair_max_fields;    // two fields i < j <= i + pair_window set to {0, special 0, negated} each (inputs with <= pair_max_fields fields)
	Catalogue() : thorough(false), byte_limit(0), field_limit(0), pair_window(0), pair_max_fields(0) {}

	static std::string big(size_t bits)
	{
		// a number of the given bit length in base 62 ("z" = 61): 62^k > 2^bits
		size_t k = (size_t)(bits / 5.954196310386875) + 1;
		return "1" + std::string(k, 'z');
	}
	static bool looks_like_count(const std::string &f)
	{
		if (f.empty() || f.size() > 3) return false;
		for (size_t i = 0; i < f.size(); i++) if (!isdigit((unsigned char)f[i])) return false;
		return true;
	}
	// substitution catalogue for one field.  Every field: empty, non-digit, negated, 0, 1, the target's special values
	// (moduli ...), a 20000-bit number, an over-long token.  Count-like fields (<= 3 decimal digits; in the thorough tier: every
	// field): 0, 1, the dimension limits of the library (10, 32, 512) and limit+1, 2^31, 2^32, 2^64-1, 2^64.
	std::vector<std::pair<std::string, std::string> > values(const std::string &field) const
	{
		std::vector<std::pair<std::string, std::string> > v;
		v.push_back(std::make_pair("empty", ""));
		v.push_back(std::make_pair("nondigit", "!"));
		v.push_back(std::make_pair("neg", (!field.empty() && field[0] == '-') ? field.substr(1) : "-" + field));
		v.push_back(std::make_pair("v0", "0"));
		v.push_back(std::make_pair("v1", "1"));
		if (thorough || looks_like_count(field))
		{
			static const char *counts[] = { "2", "10", "11", "32", "33", "512", "513", "2147483648", "4294967296",
				"18446744073709551615", "18446744073709551616", NULL };
			for (int i = 0; counts[i]; i++)
				v.push_back(std::make_pair(std::string("n") + counts[i], counts[i]));
		}
		for (size_t i = 0; i < specials.size(); i++)
			v.push_back(std::make_pair("s" + drv::str(i), specials[i]));
		v.push_back(std::make_pair("big20000", big(20000)));
		v.push_back(std::make_pair("toolong", std::string(5000, 'z')));
		if (thorough)
		{
			v.push_back(std::make_pair("nondigit2", field + "!"));
			v.push_back(std::make_pair("space", " " + field));
			v.push_back(std::make_pair("minus", "-"));
			v.push_back(std::make_pair("plus", "+" + field));
			v.push_back(std::make_pair("nul", field + std::string(1, '\0') + "7"));
			v.push_back(std::make_pair("hibytes", "\x80\xff\xfe"));
			v.push_back(std::make_pair("v-1", "-1"));
			v.push_back(std::make_pair("n-2147483648", "-2147483648"));
			v.push_back(std::make_pair("negbig", "-" + big(20000)));
			v.push_back(std::make_pair("chars4094", std::string(4094, 'z')));
			v.push_back(std::make_pair("chars4095", std::string(4095, 'z')));
			v.push_back(std::make_pair("huge70000", std::string(70000, '9')));
		}
		return v;
	}

	// enumerate all mutations of `seed` (text), calling f(mutation) for each distinct mutated content
	void text(const std::string &seed, const std::function<void(const Mutation &)> &f, const std::string &delims = "\n|^") const
	{
		SeedHash H(seed);
		std::unordered_set<uint64_t> seen;
		seen.insert(H.whole());
		Mutation m;
		m.seed = &seed;
		const size_t N = seed.size();
		auto emit = [&](const std::string &id, const std::string &cls, const PL &pl) {
			if (!seen.insert(H.hash(pl.v)).second) return;
			m.id = id, m.cls = cls, m.pieces = pl.v;
			f(m);
		};
		// whole-input classes
		emit("w:empty", "empty-input", PL());
		emit("w:nl", "empty-input", PL().l("\n"));
		emit("w:dup", "dup-input", PL().r(0, N).r(0, N));
		// field level, at three granularities: flat fields, '^'-groups, lines
		const char *gran[] = { NULL, "\n^", "\n" };
		for (int g = 0; g < 3; g++)
		{
			std::string ds = g == 0 ? delims : gran[g];
			if (g > 0)
			{
				bool useful = false;
				for (size_t i = 0; i < delims.size(); i++) if (ds.find(delims[i]) == std::string::npos && seed.find(delims[i]) != std::string::npos) useful = true;
				if (!useful) continue;
			}
			std::vector<Field> F = split_fields(seed, ds);
			const char *gn = g == 0 ? "f" : (g == 1 ? "g" : "l");
			for (size_t i = 0; i < F.size(); i++)
			{
				if (field_limit && (g > 0 || i >= field_limit)) break;
				const Field &x = F[i];
				size_t beg = x.beg, fend = x.beg + x.len, end = fend + (x.delim ? 1 : 0);
				std::string fid = std::string(gn) + drv::str(i);
				emit(fid + ":del", "delete", PL().r(0, beg).r(end, N));
				emit(fid + ":dup", "duplicate", PL().r(0, end).r(beg, N));
				if (thorough && i + 1 < F.size())
				{
					const Field &y = F[i + 1];
					size_t yend = y.beg + y.len + (y.delim ? 1 : 0);
					if (x.delim && y.delim)
						emit(fid + ":swap", "swap", PL().r(0, beg).r(y.beg, yend).r(beg, end).r(yend, N));
				}
				emit(fid + ":trunc", "truncate", PL().r(0, beg));
				if (thorough)
				{
					emit(fid + ":trunc+", "truncate", PL().r(0, beg + (x.len ? 1 : 0)));
					emit(fid + ":eofnodelim", "truncate", PL().r(0, fend));
				}
				if (g > 0)
					continue;
				std::string field = seed.substr(beg, x.len);
				std::vector<std::pair<std::string, std::string> > V = values(field);
				for (size_t k = 0; k < V.size(); k++)
					emit(fid + ":" + V[k].first, V[k].first, PL().r(0, beg).l(V[k].second).r(fend, N));
				// the delimiter itself
				if (x.delim)
				{
					emit(fid + ":nodelim", "delimiter", PL().r(0, fend).r(end, N));
					for (size_t d = 0; thorough && d < delims.size(); d++)
						if (delims[d] != x.delim)
							emit(fid + ":delim" + drv::str(d), "delimiter", PL().r(0, fend).l(std::string(1, delims[d])).r(end, N));
				}
			}
		}
		// pairs of fields (a crash often needs two cooperating values: a zero base and a negative exponent, ...)
		if (pair_window)
		{
			std::vector<Field> F = split_fields(seed, delims);
			if (F.size() <= pair_max_fields)
			{
				// values: 0, 1, negated, every special value (moduli, p-1 ...).  The combinations (0 | 1 | special) x negated, in both
				// orders (a degenerate base / share together with a negative exponent / challenge), are never thinned (id prefix "x")
				std::vector<std::string> pn;
				pn.push_back("0"), pn.push_back("1"), pn.push_back("neg");
				for (size_t k = 0; k < specials.size(); k++) pn.push_back("s" + drv::str(k));
				auto pv = [&](size_t a, const std::string &fld) {
					if (a == 0) return std::string("0");
					if (a == 1) return std::string("1");
					if (a == 2) return (!fld.empty() && fld[0] == '-') ? fld.substr(1) : "-" + fld;
					return specials[a - 3];
				};
				for (size_t i = 0; i < F.size(); i++)
				for (size_t j = i + 1; j < F.size() && j <= i + pair_window; j++)
				for (size_t a = 0; a < pn.size(); a++)
				for (size_t b = 0; b < pn.size(); b++)
				{
					if (a >= 4 && b >= 4) continue;   // two "other" specials at once: not enumerated
					std::string fi = seed.substr(F[i].beg, F[i].len), fj = seed.substr(F[j].beg, F[j].len);
					bool core = ((a == 2) != (b == 2)) && F.size() <= 12;   // short transcripts only (CP / OR / NIZK / decryption proofs)
					emit(std::string(core ? "x" : "") + "p" + drv::str(i) + "." + drv::str(j) + ":" + pn[a] + "." + pn[b], "pair-" + pn[a] + "-" + pn[b],
						PL().r(0, F[i].beg).l(pv(a, fi)).r(F[i].beg + F[i].len, F[j].beg).l(pv(b, fj)).r(F[j].beg + F[j].len, N));
				}
			}
		}
		if (seed.size() <= byte_limit)
			bytes(seed, f, &seen, false);
	}

	// byte-level catalogue at every offset of the given ranges: truncate here, flip bit 0, flip bit 7 (+ byte values for binary)
	void bytes(const std::string &seed, const std::function<void(const Mutation &)> &f, std::unordered_set<uint64_t> *seenp, bool binary,
		const std::vector<std::pair<size_t, size_t> > *ranges = NULL) const
	{
		SeedHash H(seed);
		std::unordered_set<uint64_t> own;
		std::unordered_set<uint64_t> &seen = seenp ? *seenp : own;
		if (!seenp) seen.insert(H.whole());
		Mutation m;
		m.seed = &seed;
		const size_t N = seed.size();
		auto emit = [&](const std::string &id, const std::string &cls, const PL &pl) {
			if (!seen.insert(H.hash(pl.v)).second) return;
			m.id = id, m.cls = cls, m.pieces = pl.v;
			f(m);
		};
		auto setb = [&](size_t o, unsigned char v) { return PL().r(0, o).l(std::string(1, (char)v)).r(o + 1, N); };
		std::vector<std::pair<size_t, size_t> > all;
		if (!ranges) { all.push_back(std::make_pair((size_t)0, seed.size())); ranges = &all; }
		for (size_t ri = 0; ri < ranges->size(); ri++)
		{
			for (size_t o = (*ranges)[ri].first; o < (*ranges)[ri].second && o < seed.size(); o++)
			{
				std::string oid = "b" + drv::str(o);
				unsigned char c = (unsigned char)seed[o];
				emit(oid + ":trunc", "truncate", PL().r(0, o));
				emit(oid + ":flip0", "bitflip", setb(o, c ^ 0x01));
				emit(oid + ":flip7", "bitflip", setb(o, c ^ 0x80));
				if (binary)
				{
					emit(oid + ":set00", "byte-set", setb(o, 0));
					emit(oid + ":setff", "byte-set", setb(o, 0xff));
					if (!thorough) continue;
					emit(oid + ":set7f", "byte-set", setb(o, 0x7f));
					emit(oid + ":inc", "byte-set", setb(o, (unsigned char)(c + 1)));
					emit(oid + ":dec", "byte-set", setb(o, (unsigned char)(c - 1)));
					emit(oid + ":delbyte", "delete", PL().r(0, o).r(o + 1, N));
					emit(oid + ":dupbyte", "duplicate", PL().r(0, o + 1).r(o, N));
				}
			}
		}
	}
};

// ------------------------------------------------------------------------------------------------ target runner
struct Target {
	std::string name;                                   // target name (case ids, counters)
	std::string keyname;                                // finding keys: c12/<keyname or name>/<kind>@<site>
	std::string seedname;
	std::string seed;                                   // valid input (must be ACCEPTED unmutated unless expect_accept is false)
	bool expect_accept;
	std::function<int(const std::string &)> run;        // executed in the child: 1 accepted, 0 refused; may throw
	Catalogue cat;
	enum Mode { TEXT, BYTES_TEXT, BINARY } mode;
	std::vector<std::pair<size_t, size_t> > ranges;     // BINARY: offsets that get the byte catalogue (empty = all)
	std::string delims;
	size_t stride;                                      // use every stride-th mutation only (targets whose every call is very expensive)
	std::function<void(const std::function<void(const Mutation &)> &)> custom;   // own enumerator (OpenPGP packet catalogue)
	bool heavy;                                         // the library allocates TMCG_MAX_STACK_CHARS (671 MB) per call: under ASan each call costs seconds
	Target() : expect_accept(true), mode(TEXT), delims("\n|^"), stride(1), heavy(false) {}
};

struct Runner {
	drv::Report &R;
	Forker F;
	std::map<std::string, unsigned> viol_emitted;
	unsigned per_key;
	size_t batch_cases, batch_bytes;     // a batch is closed when either is reached (batch_cases == 1: strict fork per case)
	size_t batch_cases_now;
	uint64_t machinery_errors;
	std::string heavy_mode;              // "thin" (default under ASan): heavy targets use every heavy_stride-th mutation; "only": run only heavy
	size_t heavy_stride;                 // targets, full catalogue (the plain-flavour pass); "skip"; "full"
	size_t global_stride, stride_min_fields;
	Runner(drv::Report &r) : R(r), per_key(2), batch_cases(256), batch_bytes(8u << 20), machinery_errors(0)
	{
		heavy_mode = r.args.get("heavy", C12_ASAN ? "thin" : "full");
		heavy_stride = (size_t)r.args.geti("heavy-stride", r.args.tier == "thorough" ? 12 : 48);
		global_stride = (size_t)r.args.geti("stride", 1);      // --stride k: every k-th mutation of every target (quick-tier thinning)
		stride_min_fields = (size_t)r.args.geti("stride-min", 0); // ... only for seeds with at least this many bytes
		long b = r.args.geti("batch", 0);
		if (b > 0) batch_cases = (size_t)b;
		if (batch_cases > 4096) batch_cases = 4096;
	}

	static std::string printable(const std::string &s, size_t maxlen = 300)
	{
		std::string o;
		for (size_t i = 0; i < s.size() && o.size() < maxlen; i++)
		{
			unsigned char c = s[i];
			if (c == '\n') o += "\\n";
			else if (c == '\\') o += "\\\\";
			else if (c < 0x20 || c >= 0x7f) { char b[8]; snprintf(b, sizeof b, "\\x%02x", c); o += b; }
			else o += c;
		}
		if (s.size() > maxlen) o += "...(" + drv::str(s.size()) + " bytes)";
		return o;
	}
	static const char *outcome_name(const Res &r)
	{
		return r.violation() ? "VIOLATION" : r.kind == Res::REFUSED ? "refused" : r.kind == Res::ACCEPTED ? "accepted" : "std::exception";
	}

	void record(const Target &T, const std::string &caseid, const std::string &cls, const std::string &input, const Res &r)
	{
		R.ok(true);
		R.counters["cases:" + T.name]++;
		R.counters[std::string("outcome:") + outcome_name(r)]++;
		if (r.slow) R.counters["slow-but-terminating"]++;
		if (R.samples_emitted < R.max_samples && (R.evaluations % 1499) == 1)
			R.sample(caseid, "class=" + cls + " outcome=" + (r.violation() ? r.vkind : outcome_name(r)) + " input=" + printable(input, 120));
		if (!r.violation())
			return;
		std::string key = r.key(T.keyname.empty() ? T.name : T.keyname);
		R.counters["viol:" + key]++;
		unsigned &n = viol_emitted[key];
		if (n++ < per_key)
			R.viol(key, "mutation=" + cls + " seed=" + T.seedname + " " + r.detail + " | input=" + printable(input), caseid);
	}

	struct Pending { std::string id, cls, data; };

	static bool trace() { static int t = getenv("C12_TRACE") ? 1 : 0; return t != 0; }
	void flush(const Target &T, std::vector<Pending> &P)
	{
		size_t done = 0;
		if (trace()) fprintf(stderr, "[%.1f] flush %s/%s: %zu cases from %s\n", drv::now() - R.t0, T.name.c_str(), T.seedname.c_str(), P.size(), P.empty() ? "" : P[0].id.c_str());
		while (done < P.size())
		{
			if (P.size() - done == 1 || batch_cases_now <= 1)
			{
				const Pending &c = P[done];
				Res r = F.run([&]() { return T.run(c.data); });
				record(T, T.name + "/" + T.seedname + "/" + c.id, c.cls, c.data, r);
				done++;
				continue;
			}
			std::vector<unsigned char> codes;
			struct rusage ru;
			memset(&ru, 0, sizeof ru);
			size_t from = done;
			int st = F.spawn_batch([&](size_t i) { return T.run(P[i].data); }, from, P.size(), codes, ru);
			R.counters["batches"]++;
			bool rss_suspect = ru.ru_maxrss > RSS_LIMIT_KB;
			for (size_t j = 0; j < codes.size() && from + j < P.size(); j++)
			{
				const Pending &c = P[from + j];
				Res r;
				if (codes[j] == X_REFUSED) r.kind = Res::REFUSED;
				else if (codes[j] == X_ACCEPTED) r.kind = Res::ACCEPTED;
				else if (codes[j] == X_STDEXC) r.kind = Res::STDEXC;
				else { r.kind = Res::VIOLATION, r.vkind = "nonstd-exception", r.detail = "an exception not derived from std::exception escaped"; }
				if (rss_suspect)
					r = F.run([&]() { return T.run(c.data); });    // attribute the memory peak: every case of this batch alone
				record(T, T.name + "/" + T.seedname + "/" + c.id, c.cls, c.data, r);
			}
			done = from + std::min(codes.size(), P.size() - from);
			if (done < P.size() && !(WIFEXITED(st) && WEXITSTATUS(st) == 0 && codes.size() >= P.size() - from))
			{
				// the child died while running P[done]: decide and attribute by running that case alone
				const Pending &c = P[done];
				if (trace()) fprintf(stderr, "[%.1f] child ended (status %d) at %s; isolating\n", drv::now() - R.t0, st, c.id.c_str());
				// a site that was already confirmed in isolation per_key times: trust the report of the batch child (saves two forks)
				if (!Forker::is_timeout(st))
				{
					std::string err;
					F.read_err(err);
					Res rb;
					rb.kind = Res::VIOLATION;
					Forker::analyse_report(err, rb);
					if (!rb.vkind.empty())
					{
						std::string key = rb.key(T.keyname.empty() ? T.name : T.keyname);
						std::map<std::string, unsigned>::iterator it = viol_emitted.find(key);
						if (it != viol_emitted.end() && it->second >= per_key)
						{
							record(T, T.name + "/" + T.seedname + "/" + c.id, c.cls, c.data, rb);
							R.counters["violations-not-reisolated"]++;
							done++;
							continue;
						}
					}
				}
				Res r = F.run([&]() { return T.run(c.data); });
				if (!r.violation() && Forker::is_timeout(st))
					r.slow = true;      // the per-case watchdog fired inside the batch, alone the case terminates: slow, not a violation
				else if (!r.violation())
				{
					// not reproducible in isolation: depends on the cases before it in the same child
					std::string err;
					F.read_err(err);
					Res rb;
					rb.kind = Res::VIOLATION;
					rb.vkind = "batch-only-crash";
					rb.detail = "child ended abnormally (status " + drv::str(st) + ") in a batch starting at " + P[from].id + "; the case alone gives " + outcome_name(r);
					r = rb;
				}
				record(T, T.name + "/" + T.seedname + "/" + c.id, c.cls, c.data, r);
				done++;
			}
		}
		P.clear();
	}

	void run_target(const Target &T0)
	{
		if (T0.heavy && heavy_mode == "skip") return;
		if (!T0.heavy && heavy_mode == "only") return;
		Target T = T0;
		if (T.heavy && heavy_mode == "thin") T.stride = std::max(T.stride, heavy_stride);
		if ((!T.heavy || heavy_mode != "thin") && global_stride > 1 && T.seed.size() >= stride_min_fields) T.stride = std::max(T.stride, global_stride);
		if (T.heavy) batch_cases_now = 16; else batch_cases_now = batch_cases;
		F.cpu_s = (T.heavy && C12_ASAN) ? 40 : 15;
		// the seed itself (sanity: a valid export / transcript must be accepted, else the harness is wrong)
		std::string cid0 = T.name + "/" + T.seedname + "/seed";
		bool my_seed = R.args.only.empty() ? (fnv(cid0) % R.args.nshards) == R.args.shard : R.args.only == cid0;
		if (my_seed)
		{
			Res r0 = F.run([&]() { return T.run(T.seed); });
			bool good = T.expect_accept ? r0.kind == Res::ACCEPTED : !r0.violation();
			if (!good)
			{
				if (r0.violation())
				{
					// the valid input itself crashes the library: a violation, not a harness error
					record(T, cid0, "valid-seed", T.seed, r0);
				}
				else
				{
					printf("{\"t\":\"error\",\"what\":\"%s\"}\n", drv::jesc("seed of " + cid0 + " is not accepted (outcome " + outcome_name(r0) + "): harness bug").c_str());
					machinery_errors++;
				}
				return;
			}
			R.counters["seeds"]++;
		}
		std::vector<Pending> P;
		size_t bytes = 0, nth = 0;
		bool stop = false;
		double t_begin = drv::now();
		auto one = [&](const Mutation &m) {
			if (stop) return;
			if (T.stride > 1 && m.id[0] != 'x' && (nth++ % T.stride) != 0) return;   // ids "x..." = structure-aware extras, never thinned
			std::string cid = T.name + "/" + T.seedname + "/" + m.id;
			if (!R.mine() || !R.selected(cid))
				return;
			Pending p;
			p.id = m.id, p.cls = m.cls, p.data = m.data();
			bytes += p.data.size();
			P.push_back(p);
			if (P.size() >= batch_cases_now || bytes >= batch_bytes)
			{
				if (R.out_of_time()) { stop = true; P.clear(); return; }
				flush(T, P);
				bytes = 0;
			}
		};
		if (T.custom)
			T.custom(one);
		else if (T.mode == Target::TEXT)
			T.cat.text(T.seed, one, T.delims);
		else if (T.mode == Target::BYTES_TEXT)
			T.cat.bytes(T.seed, one, NULL, false);
		else
			T.cat.bytes(T.seed, one, NULL, true, T.ranges.empty() ? NULL : &T.ranges);
		if (!stop && !P.empty())
		{
			if (R.out_of_time()) P.clear();
			else flush(T, P);
		}
		R.counters["ms:" + T.name] += (uint64_t)((drv::now() - t_begin) * 1000);
	}
};

}
#endif
