// C12 (part 3 of 3) — OpenPGP (RFC 4880) armor / packet / key / signature / keyring / message parsers fed with mutated
// artefacts.  ASan+UBSan flavour, cases run in forked children (c12_common.hh).
//
// Seeds: binary artefacts produced by the library's own encoders (PacketPubEncode, PacketSecEncode, PacketUidEncode,
//   PacketSigEncode, PacketSubEncode, PacketSsbEncode, PacketPkeskEncode, PacketSeipdEncode, PacketLitEncode ... as in
//   tests/t-rfc4880.cc) from libgcrypt-generated DSA/ElGamal/RSA keys.  Because libgcrypt's key generation and DSA
//   signing draw from its internal (not interposable) RNG, they were generated once with `c12_pgp --gen-seeds` and are
//   frozen in c12_pgp_seeds.hh, so that case ids replay.  Plus the externally generated armored keys / signature that
//   tests/t-rfc4880.cc itself embeds (Ed25519, V5 secret key, attested certifications, EdDSA signature).
// Targets (families, --family):
//   armor  : ArmorDecode (+ Radix64Decode, CRC) on every armored artefact; the string overloads of the parsers
//   packet : the PacketDecode loop over every binary artefact (all three overloads), PacketContextRelease
//   key    : PublicKeyBlockParse (+CheckSelfSignatures, CheckSubkeys, Export, Weak), PrivateKeyBlockParse (right passphrase;
//            + RelinkPublicSubkeys / Export), PublicKeyringParse (+List/Check/Reduce/Find), SignatureParse (+Good,
//            CheckValidity, PrintInfo, VerifyData against the seed key), SignaturesParse
//   message: MessageParse, PKESK decryption with the seed private key, Message::Decrypt, nested MessageParse, CheckMDC
//   message also: AEAD encrypted data (tag 20, OCB) built with SymmetricEncryptAEAD / PacketAeadEncode and decrypted with the session
//            key the receiver has: chunk size octets 0 and 10 with the whole catalogue, and 5 MiB of AEAD data with the chunk size
//            octet set to 10, 16, 21, 255 (thorough: 13 values)
//   key / packet also: version 5 public key packets for every algorithm (seed packets rewritten to v5; EdDSA retagged as ECDSA), a key
//            block with an unknown-algorithm subkey followed by a second primary key, the key with 0x16 attestation signatures
// Mutations (binary): at every offset of every packet header and of the first 64 body bytes of every packet (thorough:
//   every offset of artefacts <= 8 KiB): truncate here, flip bit 0, flip bit 7, set 0x00 / 0xff (thorough: also 0x7f, +1, -1,
//   delete byte, duplicate byte); per packet: delete, duplicate, swap with next, and the length field rewritten to 0, 1, len-1, len+1,
//   191/192, 8383/8384, 2^16-1, 2^31, 2^32-1 in one-, two-, five-octet and partial-length encodings; the body cut to every length
//   0..64 under a consistent header; public-key / hash algorithm octets of key and signature packets set to 0,1,16..22,99,255.
//   Armored text: byte catalogue (truncate, flip bit 0/7) at every offset + line level delete/duplicate/empty.
// Oracle: outcome in {refused, accepted, std::exception}; anything else is a violation (see c12_common.hh).
#include "c12_common.hh"
#include <libTMCG.hh>
#include "c12_pgp_ext.hh"
#include <memory>
#include "c12_pgp_seeds.hh"
#include "c12_pgp_revseeds.hh"

using namespace drv;
using namespace c12;
typedef CallasDonnerhackeFinneyShawThayerRFC4880 PGP;

static bool thorough;

static std::string tohex(const tmcg_openpgp_octets_t &o)
{
	static const char *h = "0123456789abcdef";
	std::string s;
	for (size_t i = 0; i < o.size(); i++) s += h[o[i] >> 4], s += h[o[i] & 15];
	return s;
}
static std::string unhex(const char *h)
{
	std::string s;
	for (size_t i = 0; h[i] && h[i + 1]; i += 2)
	{
		unsigned v;
		sscanf(h + i, "%2x", &v);
		s += (char)v;
	}
	return s;
}
static tmcg_openpgp_octets_t oct(const std::string &s)
{
	tmcg_openpgp_octets_t o;
	for (size_t i = 0; i < s.size(); i++) o.push_back((tmcg_openpgp_byte_t)s[i]);
	return o;
}
static std::string strof(const tmcg_openpgp_octets_t &o) { return std::string(o.begin(), o.end()); }

// ------------------------------------------------------------------------------------------------ seed generator
#define CHK(x) do { if (x) { fprintf(stderr, "gen-seeds: failed at line %d\n", __LINE__); exit(2); } } while (0)
static void emit_seed(const char *name, const tmcg_openpgp_octets_t &o)
{
	std::string h = tohex(o);
	printf("static const char *%s =\n", name);
	for (size_t i = 0; i < h.size(); i += 120)
		printf("\t\"%s\"\n", h.substr(i, 120).c_str());
	printf("\t;\n");
}
static int gen_seeds()
{
	gcry_sexp_t parms, dsakey, dsakey2, elgkey, rsakey;
	size_t erroff;
	CHK(gcry_sexp_build(&parms, &erroff, "(genkey (dsa (nbits 4:2048)(qbits 3:256)))"));
	CHK(gcry_pk_genkey(&dsakey, parms));
	CHK(gcry_pk_genkey(&dsakey2, parms));
	gcry_sexp_release(parms);
	CHK(gcry_sexp_build(&parms, &erroff, "(genkey (elg (nbits 4:2048)))"));
	CHK(gcry_pk_genkey(&elgkey, parms));
	gcry_sexp_release(parms);
	CHK(gcry_sexp_build(&parms, &erroff, "(genkey (rsa (nbits 4:2048)))"));
	CHK(gcry_pk_genkey(&rsakey, parms));
	gcry_sexp_release(parms);
	time_t creation = 1699990000;   // a little before the harness' virtual "now" (1700000000)
	tmcg_openpgp_secure_string_t passphrase = "FCK!NSA";
	tmcg_openpgp_octets_t empty;

	auto build_block = [&](gcry_sexp_t dsa, gcry_sexp_t elg, bool secret, tmcg_openpgp_octets_t &all, tmcg_openpgp_octets_t &fpr_out) {
		gcry_mpi_t p, q, g, y, x, r, s;
		tmcg_openpgp_octets_t pub, sec, uid, uidsig, sub, ssb, subsig, pub_hashing, sub_hashing, keyid, issuer, hash, left, trailer, flags;
		CHK(gcry_sexp_extract_param(dsa, NULL, "pqgyx", &p, &q, &g, &y, &x, NULL));
		PGP::PacketPubEncode(creation, TMCG_OPENPGP_PKALGO_DSA, p, q, g, y, pub);
		PGP::PacketSecEncode(creation, TMCG_OPENPGP_PKALGO_DSA, p, q, g, y, x, passphrase, sec);
		PGP::PacketBodyExtract(pub, 0, pub_hashing);
		PGP::KeyidCompute(pub_hashing, keyid);
		PGP::FingerprintCompute(pub_hashing, issuer);
		fpr_out = issuer;
		std::string username = "Test Key <test@example.org>";
		PGP::PacketUidEncode(username, uid);
		flags.push_back(0x01 | 0x02);
		PGP::PacketSigPrepareSelfSignature(TMCG_OPENPGP_SIGNATURE_POSITIVE_CERTIFICATION, TMCG_OPENPGP_HASHALGO_SHA256,
			creation + 10, 0, flags, keyid, trailer);
		PGP::CertificationHash(pub_hashing, username, empty, trailer, TMCG_OPENPGP_HASHALGO_SHA256, hash, left);
		r = gcry_mpi_new(2048), s = gcry_mpi_new(2048);
		CHK(PGP::AsymmetricSignDSA(hash, dsa, r, s));
		PGP::PacketSigEncode(trailer, left, r, s, uidsig);
		gcry_mpi_release(p), gcry_mpi_release(g), gcry_mpi_release(y), gcry_mpi_release(x);
		CHK(gcry_sexp_extract_param(elg, NULL, "pgyx", &p, &g, &y, &x, NULL));
		PGP::PacketSubEncode(creation, TMCG_OPENPGP_PKALGO_ELGAMAL, p, q, g, y, sub);
		PGP::PacketSsbEncode(creation, TMCG_OPENPGP_PKALGO_ELGAMAL, p, q, g, y, x, passphrase, ssb);
		flags.clear(), flags.push_back(0x04 | 0x08);
		trailer.clear(), hash.clear(), left.clear();
		PGP::PacketSigPrepareSelfSignature(TMCG_OPENPGP_SIGNATURE_SUBKEY_BINDING, TMCG_OPENPGP_HASHALGO_SHA256,
			creation + 10, 0, flags, issuer, trailer);
		PGP::PacketBodyExtract(sub, 0, sub_hashing);
		PGP::KeyHash(pub_hashing, sub_hashing, trailer, TMCG_OPENPGP_HASHALGO_SHA256, hash, left);
		CHK(PGP::AsymmetricSignDSA(hash, dsa, r, s));
		PGP::PacketSigEncode(trailer, left, r, s, subsig);
		const tmcg_openpgp_octets_t &k1 = secret ? sec : pub, &k2 = secret ? ssb : sub;
		all.insert(all.end(), k1.begin(), k1.end());
		all.insert(all.end(), uid.begin(), uid.end());
		all.insert(all.end(), uidsig.begin(), uidsig.end());
		all.insert(all.end(), k2.begin(), k2.end());
		all.insert(all.end(), subsig.begin(), subsig.end());
		gcry_mpi_release(p), gcry_mpi_release(q), gcry_mpi_release(g), gcry_mpi_release(y), gcry_mpi_release(x);
		gcry_mpi_release(r), gcry_mpi_release(s);
	};
	tmcg_openpgp_octets_t pubblock, prvblock, pubblock2, ring, fpr, fpr2;
	build_block(dsakey, elgkey, false, pubblock, fpr);
	build_block(dsakey, elgkey, true, prvblock, fpr);
	build_block(dsakey2, elgkey, false, pubblock2, fpr2);
	ring = pubblock;
	ring.insert(ring.end(), pubblock2.begin(), pubblock2.end());

	// detached signature over fixed data
	std::string data = "This is a simple test message. Okay, let's start.";
	tmcg_openpgp_octets_t din = oct(data), trailer, hash, left, sig, keyid8(fpr.end() - 8, fpr.end());
	PGP::PacketSigPrepareDetachedSignature(TMCG_OPENPGP_SIGNATURE_BINARY_DOCUMENT, TMCG_OPENPGP_HASHALGO_SHA256, creation + 20, 0, "",
		keyid8, trailer);
	CHK(!PGP::BinaryDocumentHash(din, trailer, TMCG_OPENPGP_HASHALGO_SHA256, hash, left));
	gcry_mpi_t r = gcry_mpi_new(2048), s = gcry_mpi_new(2048);
	CHK(PGP::AsymmetricSignDSA(hash, dsakey, r, s));
	PGP::PacketSigEncode(trailer, left, r, s, sig);

	// message: PKESK (RSA) + PKESK (ElGamal) + SEIPD(literal + MDC); literal alone; SED variant
	tmcg_openpgp_octets_t lit, prefix, enc, mdc_hashing, mdc, litmdc, seipd, pkesk, msg, sed, msg_sed, wild;
	tmcg_openpgp_secure_octets_t seskey;
	PGP::PacketLitEncode(din, lit);
	CHK(PGP::SymmetricEncryptAES256(lit, seskey, prefix, true, enc));
	enc.clear();
	mdc_hashing.insert(mdc_hashing.end(), prefix.begin(), prefix.end());
	mdc_hashing.insert(mdc_hashing.end(), lit.begin(), lit.end());
	mdc_hashing.push_back(0xD3), mdc_hashing.push_back(0x14);
	hash.clear();
	PGP::HashCompute(TMCG_OPENPGP_HASHALGO_SHA1, mdc_hashing, hash);
	PGP::PacketMdcEncode(hash, mdc);
	litmdc = lit;
	litmdc.insert(litmdc.end(), mdc.begin(), mdc.end());
	seskey.clear();
	CHK(PGP::SymmetricEncryptAES256(litmdc, seskey, prefix, false, enc));
	PGP::PacketSeipdEncode(enc, seipd);
	for (int i = 0; i < 8; i++) wild.push_back(0x00);
	gcry_mpi_t me = gcry_mpi_new(2048), gk = gcry_mpi_new(2048), myk = gcry_mpi_new(2048);
	CHK(PGP::AsymmetricEncryptRSA(seskey, rsakey, me));
	PGP::PacketPkeskEncode(wild, me, pkesk);
	msg.insert(msg.end(), pkesk.begin(), pkesk.end());
	pkesk.clear();
	CHK(PGP::AsymmetricEncryptElgamal(seskey, elgkey, gk, myk));
	PGP::PacketPkeskEncode(wild, gk, myk, pkesk);
	msg.insert(msg.end(), pkesk.begin(), pkesk.end());
	msg_sed = msg;
	msg.insert(msg.end(), seipd.begin(), seipd.end());
	enc.clear();
	CHK(PGP::SymmetricEncryptAES256(lit, seskey, prefix, true, enc));
	PGP::PacketSedEncode(enc, sed);
	msg_sed.insert(msg_sed.end(), sed.begin(), sed.end());

	printf("// generated by `c12_pgp --gen-seeds` (library encoders on libgcrypt-generated keys); do not edit\n");
	emit_seed("SEED_PUBBLOCK", pubblock);
	emit_seed("SEED_PRVBLOCK", prvblock);
	emit_seed("SEED_RING", ring);
	emit_seed("SEED_SIG", sig);
	emit_seed("SEED_MSG", msg);
	emit_seed("SEED_MSG_SED", msg_sed);
	emit_seed("SEED_LIT", lit);
	printf("static const char *SEED_DATA = \"%s\";\n", data.c_str());
	printf("#define C12_HAVE_PGP_SEEDS 1\n");
	return 0;
}


// building blocks for the designated-revoker graphs (family key, target revoker-graph): three DSA keys K0..K2; per key the
// public key packet and a user ID with its certification; per ordered pair (x, y), x = y included, a direct-key signature
// of Kx that names Ky as designated revoker and a key revocation signature over Kx issued by Ky.  Frozen in
// c12_pgp_revseeds.hh (`c12_pgp --gen-revseeds`) for the same reason as the other seeds.
static int gen_revseeds()
{
	gcry_sexp_t parms, key[3];
	size_t erroff;
	CHK(gcry_sexp_build(&parms, &erroff, "(genkey (dsa (nbits 4:2048)(qbits 3:256)))"));
	for (int k = 0; k < 3; k++) CHK(gcry_pk_genkey(&key[k], parms));
	gcry_sexp_release(parms);
	time_t creation = 1699990000, sigtime = creation + 10;
	tmcg_openpgp_octets_t pub[3], hashing[3], fpr[3], empty, flags;
	flags.push_back(0x01 | 0x02);
	printf("// generated by `c12_pgp --gen-revseeds` (library encoders on libgcrypt-generated keys); do not edit\n");
	auto sign = [&](int k, const tmcg_openpgp_octets_t &trailer, const tmcg_openpgp_octets_t &hash, const tmcg_openpgp_octets_t &left, tmcg_openpgp_octets_t &out) {
		gcry_mpi_t r = gcry_mpi_new(2048), s = gcry_mpi_new(2048);
		CHK(PGP::AsymmetricSignDSA(hash, key[k], r, s));
		PGP::PacketSigEncode(trailer, left, r, s, out);
		gcry_mpi_release(r), gcry_mpi_release(s);
	};
	for (int k = 0; k < 3; k++)
	{
		gcry_mpi_t p, q, g, y;
		CHK(gcry_sexp_extract_param(key[k], NULL, "pqgy", &p, &q, &g, &y, NULL));
		PGP::PacketPubEncode(creation, TMCG_OPENPGP_PKALGO_DSA, p, q, g, y, pub[k]);
		PGP::PacketBodyExtract(pub[k], 0, hashing[k]);
		PGP::FingerprintCompute(hashing[k], fpr[k]);
		gcry_mpi_release(p), gcry_mpi_release(q), gcry_mpi_release(g), gcry_mpi_release(y);
		tmcg_openpgp_octets_t uid, trailer, hash, left, uidsig, both;
		std::string name = std::string("Key ") + (char)('A' + k) + " <k" + (char)('a' + k) + "@example.org>";
		PGP::PacketUidEncode(name, uid);
		PGP::PacketSigPrepareSelfSignature(TMCG_OPENPGP_SIGNATURE_POSITIVE_CERTIFICATION, TMCG_OPENPGP_HASHALGO_SHA256, sigtime, 0, flags, fpr[k], trailer);
		PGP::CertificationHash(hashing[k], name, empty, trailer, TMCG_OPENPGP_HASHALGO_SHA256, hash, left);
		sign(k, trailer, hash, left, uidsig);
		both = uid, both.insert(both.end(), uidsig.begin(), uidsig.end());
		emit_seed((std::string("REVSEED_PUB") + (char)('0' + k)).c_str(), pub[k]);
		emit_seed((std::string("REVSEED_UID") + (char)('0' + k)).c_str(), both);
	}
	for (int x = 0; x < 3; x++)
		for (int y = 0; y < 3; y++)
		{
			tmcg_openpgp_octets_t trailer, hash, left, dirsig, revsig;
			PGP::PacketSigPrepareDesignatedRevoker(TMCG_OPENPGP_HASHALGO_SHA256, sigtime, flags, fpr[x], TMCG_OPENPGP_PKALGO_DSA, fpr[y], trailer);
			PGP::KeyHash(hashing[x], trailer, TMCG_OPENPGP_HASHALGO_SHA256, hash, left);
			sign(x, trailer, hash, left, dirsig);
			trailer.clear(), hash.clear(), left.clear();
			PGP::PacketSigPrepareRevocationSignature(TMCG_OPENPGP_SIGNATURE_KEY_REVOCATION, TMCG_OPENPGP_HASHALGO_SHA256, sigtime + 5,
				TMCG_OPENPGP_REVCODE_KEY_COMPROMISED, "", fpr[y], trailer);
			PGP::KeyHash(hashing[x], trailer, TMCG_OPENPGP_HASHALGO_SHA256, hash, left);
			sign(y, trailer, hash, left, revsig);
			emit_seed((std::string("REVSEED_DIR") + (char)('0' + x) + (char)('0' + y)).c_str(), dirsig);
			emit_seed((std::string("REVSEED_REV") + (char)('0' + x) + (char)('0' + y)).c_str(), revsig);
		}
	printf("#define C12_HAVE_PGP_REVSEEDS 1\n");
	return 0;
}

// ------------------------------------------------------------------------------------------------ packet structure (own tiny parser)
struct Pkt { size_t hdr, body, len; bool newfmt; unsigned tag; };
static std::vector<Pkt> packets(const std::string &b)
{
	std::vector<Pkt> v;
	size_t i = 0;
	while (i < b.size())
	{
		unsigned char t = b[i];
		if (!(t & 0x80)) break;
		Pkt p;
		p.hdr = i;
		if (t & 0x40)
		{
			p.newfmt = true, p.tag = t & 0x3f;
			if (i + 1 >= b.size()) break;
			unsigned char l = b[i + 1];
			if (l < 192) p.len = l, p.body = i + 2;
			else if (l < 224) { if (i + 2 >= b.size()) break; p.len = ((l - 192) << 8) + (unsigned char)b[i + 2] + 192, p.body = i + 3; }
			else if (l == 255) { if (i + 5 >= b.size()) break; p.len = ((size_t)(unsigned char)b[i + 2] << 24) | ((unsigned char)b[i + 3] << 16) | ((unsigned char)b[i + 4] << 8) | (unsigned char)b[i + 5], p.body = i + 6; }
			else break;   // partial lengths do not occur in the seeds
		}
		else
		{
			p.newfmt = false, p.tag = (t >> 2) & 15;
			unsigned lt = t & 3;
			if (lt == 0) { if (i + 1 >= b.size()) break; p.len = (unsigned char)b[i + 1], p.body = i + 2; }
			else if (lt == 1) { if (i + 2 >= b.size()) break; p.len = ((unsigned char)b[i + 1] << 8) | (unsigned char)b[i + 2], p.body = i + 3; }
			else if (lt == 2) { if (i + 4 >= b.size()) break; p.len = ((size_t)(unsigned char)b[i + 1] << 24) | ((unsigned char)b[i + 2] << 16) | ((unsigned char)b[i + 3] << 8) | (unsigned char)b[i + 4], p.body = i + 5; }
			else break;
		}
		if (p.body + p.len > b.size()) break;
		v.push_back(p);
		i = p.body + p.len;
	}
	return v;
}
static std::string be(size_t v, int n) { std::string s; for (int i = n - 1; i >= 0; i--) s += (char)((v >> (8 * i)) & 0xff); return s; }

// structure-aware packet mutations, enumerated after the byte catalogue
static void packet_mutations(const std::string &seed, const std::function<void(const Mutation &)> &f, std::unordered_set<uint64_t> &seen)
{
	std::vector<Pkt> P = packets(seed);
	Mutation m;
	auto emit = [&](const std::string &id, const std::string &cls, const std::string &data) {
		if (!seen.insert(SeedHash::hash_ready(data)).second) return;
		m.id = id, m.cls = cls, m.ready = data, m.have_ready = true;
		f(m);
	};
	for (size_t i = 0; i < P.size(); i++)
	{
		const Pkt &p = P[i];
		std::string pre = seed.substr(0, p.hdr), self = seed.substr(p.hdr, p.body + p.len - p.hdr), post = seed.substr(p.body + p.len);
		std::string body = seed.substr(p.body, p.len), pid = "k" + str(i);
		emit(pid + ":del", "packet-delete", pre + post);
		emit(pid + ":dup", "packet-duplicate", pre + self + self + post);
		emit(pid + ":only", "packet-only", self);
		emit(pid + ":last", "packet-truncate-after", pre + self);
		if (i + 1 < P.size())
		{
			std::string nxt = seed.substr(P[i + 1].hdr, P[i + 1].body + P[i + 1].len - P[i + 1].hdr);
			emit(pid + ":swap", "packet-swap", pre + nxt + self + seed.substr(P[i + 1].body + P[i + 1].len));
		}
		emit(pid + ":emptybody", "packet-empty", pre + std::string(1, (char)(0xC0 | p.tag)) + std::string(1, '\0') + post);
		// the body cut to every length 0..64 with a CONSISTENT header (so the per-tag decoder sees exactly L octets); for key
		// packets these are never thinned (secret keys: all of 0..64, public keys: 0..24)
		{
			bool key = p.tag == 5 || p.tag == 6 || p.tag == 7 || p.tag == 14, sec = p.tag == 5 || p.tag == 7;
			for (size_t L = 0; L <= 64 && L < p.len; L++)
			{
				bool exempt = key && (sec || L <= 24);
				emit((exempt ? "x" : "") + pid + ":body" + str(L), "body-truncate",
					pre + std::string(1, (char)(0xC0 | p.tag)) + std::string(1, (char)L) + body.substr(0, L) + post);
				if (thorough || exempt)
					emit((exempt ? "x" : "") + pid + ":bodylast" + str(L), "body-truncate",
						pre + std::string(1, (char)(0xC0 | p.tag)) + std::string(1, (char)L) + body.substr(0, L));
			}
		}
		// algorithm octets of key and signature packets set to unknown / other values (never thinned)
		{
			static const unsigned char av[] = { 0, 1, 16, 17, 18, 19, 22, 99, 255 };
			size_t pos[2] = { std::string::npos, std::string::npos };
			if ((p.tag == 5 || p.tag == 6 || p.tag == 7 || p.tag == 14) && p.len > 5) pos[0] = 5;          // pkalgo
			if (p.tag == 2 && p.len > 3 && (body[0] == 4 || body[0] == 5)) pos[0] = 2, pos[1] = 3;         // pkalgo, hashalgo
			for (int w = 0; w < 2; w++)
				for (size_t a = 0; pos[w] != std::string::npos && a < sizeof av; a++)
				{
					std::string b2 = body;
					b2[pos[w]] = (char)av[a];
					emit("x" + pid + (w ? ":hashalgo" : ":pkalgo") + str((unsigned)av[a]), "algorithm", pre + seed.substr(p.hdr, p.body - p.hdr) + b2 + post);
				}
		}
		// every tag value with this body
		for (unsigned t = 0; t < 64; t++)
			if (t != p.tag && (thorough || t < 21 || t >= 60))
				emit(pid + ":tag" + str(t), "packet-tag", pre + std::string(1, (char)(0xC0 | t)) + seed.substr(p.hdr + 1, p.body + p.len - p.hdr - 1) + post);
		// length field rewritten (body kept): new format one/two/five octets, partial, old format 1/2/4/indeterminate
		static const size_t lens[] = { 0, 1, 2, 191, 192, 193, 8383, 8384, 65535, 65536, 0x7fffffff, 0x80000000UL, 0xfffffffeUL, 0xffffffffUL };
		std::vector<size_t> L(lens, lens + sizeof lens / sizeof lens[0]);
		if (p.len > 0) L.push_back(p.len - 1);
		L.push_back(p.len + 1);
		L.push_back(p.len + 64);
		for (size_t k = 0; k < L.size(); k++)
		{
			size_t l = L[k];
			std::string ntag(1, (char)(0xC0 | p.tag)), lid = pid + ":len" + str(l);
			if (l < 192) emit(lid + "n1", "length", pre + ntag + be(l, 1) + body + post);
			if (l >= 192 && l <= 8383) emit(lid + "n2", "length", pre + ntag + std::string(1, (char)(((l - 192) >> 8) + 192)) + std::string(1, (char)((l - 192) & 0xff)) + body + post);
			// off-by-one lengths are the structure-aware core of the catalogue: never thinned by --stride (id prefix "x")
			emit(((l + 1 == p.len || l == p.len + 1) ? "x" : "") + lid + "n5", "length", pre + ntag + "\xff" + be(l, 4) + body + post);
			if (p.tag < 16)
			{
				if (l < 256) emit(lid + "o1", "length", pre + std::string(1, (char)(0x80 | (p.tag << 2) | 0)) + be(l, 1) + body + post);
				if (l < 65536) emit(lid + "o2", "length", pre + std::string(1, (char)(0x80 | (p.tag << 2) | 1)) + be(l, 2) + body + post);
				emit(lid + "o4", "length", pre + std::string(1, (char)(0x80 | (p.tag << 2) | 2)) + be(l, 4) + body + post);
			}
		}
		if (p.tag < 16)
			emit(pid + ":indet", "length", pre + std::string(1, (char)(0x80 | (p.tag << 2) | 3)) + body + post);
		for (unsigned pl = 224; pl < 255; pl += (thorough ? 1 : 6))
			emit(pid + ":partial" + str(pl), "length-partial", pre + std::string(1, (char)(0xC0 | p.tag)) + std::string(1, (char)pl) + body + post);
		// partial length chain that is well formed: 2^k chunk + rest
		if (p.len > 512)
		{
			std::string chain = std::string(1, (char)(0xC0 | p.tag)) + std::string(1, (char)(224 + 9)) + body.substr(0, 512);
			size_t rest = p.len - 512;
			chain += (rest < 192) ? be(rest, 1) : (rest <= 8383 ? std::string(1, (char)(((rest - 192) >> 8) + 192)) + std::string(1, (char)((rest - 192) & 0xff)) : "\xff" + be(rest, 4));
			chain += body.substr(512);
			emit(pid + ":partialchain", "length-partial", pre + chain + post);
		}
		// MPI headers inside key / signature / session-key packets: walk the body for plausible MPI positions
		if (p.tag == 6 || p.tag == 14 || p.tag == 5 || p.tag == 7 || p.tag == 2 || p.tag == 1)
		{
			size_t off = (p.tag == 2) ? std::string::npos : (p.tag == 1 ? 10 : 6);
			if (p.tag == 2 && body.size() > 6 && body[0] == 4)
			{
				size_t hl = ((unsigned char)body[4] << 8) | (unsigned char)body[5];
				if (6 + hl + 2 <= body.size())
				{
					size_t ul = ((unsigned char)body[6 + hl] << 8) | (unsigned char)body[7 + hl];
					off = 6 + hl + 2 + ul + 2;
					// subpacket area lengths
					static const size_t al[] = { 0, 1, 0xffff, 0x7fff };
					for (size_t a = 0; a < 4; a++)
					{
						std::string b2 = body;
						b2[4] = (char)(al[a] >> 8), b2[5] = (char)(al[a] & 0xff);
						emit(pid + ":hashedlen" + str(al[a]), "subpacket-area-length", pre + seed.substr(p.hdr, p.body - p.hdr) + b2 + post);
						b2 = body;
						b2[6 + hl] = (char)(al[a] >> 8), b2[7 + hl] = (char)(al[a] & 0xff);
						emit(pid + ":unhashedlen" + str(al[a]), "subpacket-area-length", pre + seed.substr(p.hdr, p.body - p.hdr) + b2 + post);
					}
				}
			}
			int nm = 0;
			while (off != std::string::npos && off + 2 <= body.size() && nm < 8)
			{
				size_t bits = ((unsigned char)body[off] << 8) | (unsigned char)body[off + 1], bytes = (bits + 7) / 8;
				if (off + 2 + bytes > body.size()) break;
				static const size_t mb[] = { 0, 1, 7, 8, 9, 0xffff, 0x8000, 0x4000 };
				for (size_t a = 0; a < 8; a++)
				{
					std::string b2 = body;
					b2[off] = (char)(mb[a] >> 8), b2[off + 1] = (char)(mb[a] & 0xff);
					emit(pid + ":mpi" + str(nm) + "bits" + str(mb[a]), "mpi-length", pre + seed.substr(p.hdr, p.body - p.hdr) + b2 + post);
				}
				if (bits + 8 <= 0xffff)
				{
					std::string b2 = body;   // the MPI claims one byte more than it has (never thinned)
					b2[off] = (char)((bits + 8) >> 8), b2[off + 1] = (char)((bits + 8) & 0xff);
					emit("x" + pid + ":mpi" + str(nm) + "bitsplus8", "mpi-length", pre + seed.substr(p.hdr, p.body - p.hdr) + b2 + post);
				}
				{
					std::string b2 = body;   // value zero with the same length
					for (size_t z = 0; z < bytes; z++) b2[off + 2 + z] = 0;
					emit(pid + ":mpi" + str(nm) + "zero", "mpi-value", pre + seed.substr(p.hdr, p.body - p.hdr) + b2 + post);
					b2 = body;
					for (size_t z = 0; z < bytes; z++) b2[off + 2 + z] = (char)0xff;
					emit(pid + ":mpi" + str(nm) + "ones", "mpi-value", pre + seed.substr(p.hdr, p.body - p.hdr) + b2 + post);
				}
				off += 2 + bytes;
				nm++;
			}
		}
	}
}

// ------------------------------------------------------------------------------------------------ length-field catalogue
// Every length field of an artefact is located by a small structural scan (packet lengths in new / old / partial form, hashed and
// unhashed area scalars, signature and user-attribute SUBPACKET lengths, notation name / value lengths, embedded signatures
// (recursively), MPI bit counts, v5 key material counts, OID / KDF / file name length octets) together with the chain of enclosing
// length fields.  Each field is then rewritten to each value of a boundary set in every form that can encode it, with and without
// fixing up the enclosing lengths for the changed width of the encoding.
enum { E_NEW, E_OLD, E_SUB, E_U8, E_U16, E_U32, E_MPI };
struct LF {
	std::string name;
	size_t pos, width;          // E_OLD: pos is the tag octet (the length type lives there); all others: the length octets only
	int enc;
	uint64_t actual, remaining; // remaining: octets that follow the field inside its container
	std::vector<int> parents;   // enclosing length fields, innermost first
	unsigned char tagoctet;     // E_OLD
	bool partial;               // E_NEW: the seed uses a partial length octet here
};

static uint64_t rd(const std::string &b, size_t p, int n) { uint64_t v = 0; for (int i = 0; i < n; i++) v = (v << 8) | (unsigned char)b[p + i]; return v; }

static std::string enc_len(int enc, const std::string &form, uint64_t v, unsigned char tagoctet)
{
	if (form == "n1" || form == "s1") return v < 192 ? be(v, 1) : "";
	if (form == "n2") return (v >= 192 && v <= 8383) ? std::string(1, (char)(((v - 192) >> 8) + 192)) + std::string(1, (char)((v - 192) & 0xff)) : "";
	if (form == "s2") return (v >= 192 && v <= 16319) ? std::string(1, (char)(((v - 192) >> 8) + 192)) + std::string(1, (char)((v - 192) & 0xff)) : "";
	if (form == "n5" || form == "s5") return v <= 0xffffffffULL ? "\xff" + be(v, 4) : "";
	if (form == "p") { for (int k = 0; k < 31; k++) if (v == ((uint64_t)1 << k)) return std::string(1, (char)(224 + k)); return ""; }
	if (form == "o1") return v < 256 ? std::string(1, (char)((tagoctet & 0xfc) | 0)) + be(v, 1) : "";
	if (form == "o2") return v < 65536 ? std::string(1, (char)((tagoctet & 0xfc) | 1)) + be(v, 2) : "";
	if (form == "o4") return v <= 0xffffffffULL ? std::string(1, (char)((tagoctet & 0xfc) | 2)) + be(v, 4) : "";
	if (form == "u8") return v < 256 ? be(v, 1) : "";
	if (form == "u16") return v < 65536 ? be(v, 2) : "";
	if (form == "u32") return v <= 0xffffffffULL ? be(v, 4) : "";
	if (form == "bits") return v < 65536 ? be(v, 2) : "";
	if (form == "bytes") return v * 8 < 65536 ? be(v * 8, 2) : "";
	(void)enc;
	return "";
}
static std::vector<std::string> forms_of(int enc)
{
	std::vector<std::string> f;
	switch (enc)
	{
		case E_NEW: f.push_back("n1"), f.push_back("n2"), f.push_back("n5"), f.push_back("p"); break;
		case E_OLD: f.push_back("o1"), f.push_back("o2"), f.push_back("o4"); break;
		case E_SUB: f.push_back("s1"), f.push_back("s2"), f.push_back("s5"); break;
		case E_U8: f.push_back("u8"); break;
		case E_U16: f.push_back("u16"); break;
		case E_U32: f.push_back("u32"); break;
		case E_MPI: f.push_back("bits"), f.push_back("bytes"); break;
	}
	return f;
}
// same-width re-encoding of an enclosing length (falls back to the widest form)
static std::string reenc_parent(const LF &p, uint64_t v)
{
	std::vector<std::string> f = forms_of(p.enc);
	for (size_t i = 0; i < f.size(); i++)
	{
		if (f[i] == "p" || f[i] == "bytes") continue;
		std::string e = enc_len(p.enc, f[i], v, p.tagoctet);
		if (!e.empty() && e.size() == p.width) return e;
	}
	for (size_t i = f.size(); i-- > 0;)
	{
		if (f[i] == "p" || f[i] == "bytes") continue;
		std::string e = enc_len(p.enc, f[i], v, p.tagoctet);
		if (!e.empty()) return e;
	}
	return "";
}

struct LenScan {
	const std::string &b;
	std::vector<LF> F;
	explicit LenScan(const std::string &blob) : b(blob) {}
	int add(const std::string &name, size_t pos, size_t width, int enc, uint64_t actual, uint64_t remaining, const std::vector<int> &parents,
		unsigned char tagoctet = 0, bool partial = false)
	{
		LF f;
		f.name = name, f.pos = pos, f.width = width, f.enc = enc, f.actual = actual, f.remaining = remaining, f.parents = parents;
		f.tagoctet = tagoctet, f.partial = partial;
		F.push_back(f);
		return (int)F.size() - 1;
	}
	static std::vector<int> with(int idx, const std::vector<int> &parents) { std::vector<int> v(1, idx); v.insert(v.end(), parents.begin(), parents.end()); return v; }
	size_t mpis(const std::string &nm, size_t pos, size_t end, const std::vector<int> &par, int maxn)
	{
		for (int n = 0; n < maxn && pos + 2 <= end; n++)
		{
			size_t bits = rd(b, pos, 2), bytes = (bits + 7) / 8;
			if (pos + 2 + bytes > end) break;
			add(nm + ".mpi" + str(n), pos, 2, E_MPI, bytes, end - pos - 2, par);
			pos += 2 + bytes;
		}
		return pos;
	}
	void subpackets(const std::string &nm, size_t start, size_t alen, const std::vector<int> &par, bool sig, int depth)
	{
		size_t o = start, end = start + alen;
		for (int n = 0; o < end && n < 64; n++)
		{
			unsigned char l0 = b[o];
			size_t w;
			uint64_t len;
			if (l0 < 192) w = 1, len = l0;
			else if (l0 < 255) { if (o + 2 > end) break; w = 2, len = ((l0 - 192) << 8) + (unsigned char)b[o + 1] + 192; }
			else { if (o + 5 > end) break; w = 5, len = rd(b, o + 1, 4); }
			if (len < 1 || o + w + len > end) break;
			std::string sn = nm + ".sp" + str(n);
			int me = add(sn + ".len", o, w, E_SUB, len, end - o - w, par);
			unsigned type = (unsigned char)b[o + w] & 0x7f;
			size_t data = o + w + 1, dlen = len - 1;
			std::vector<int> inner = with(me, par);
			if (sig && type == 20 && dlen >= 8)
			{
				uint64_t nl = rd(b, data + 4, 2), vl = rd(b, data + 6, 2);
				add(sn + ".notation-name-len", data + 4, 2, E_U16, nl, dlen - 8, inner);
				add(sn + ".notation-value-len", data + 6, 2, E_U16, vl, dlen - 8 > nl ? dlen - 8 - nl : 0, inner);
			}
			if (sig && type == 32 && depth < 2)
				sigbody(sn + ".embedded", data, dlen, inner, depth + 1);
			if (!sig && type == 1 && dlen >= 16)   // user attribute image: 2-octet little-endian header length
				add(sn + ".image-header-len", data, 1, E_U8, (unsigned char)b[data], dlen - 1, inner);
			o += w + len;
		}
	}
	void sigbody(const std::string &nm, size_t body, size_t len, const std::vector<int> &par, int depth)
	{
		if (len < 1) return;
		unsigned ver = (unsigned char)b[body];
		if (ver == 3 && len >= 19)
		{
			add(nm + ".v3-hashed-len", body + 1, 1, E_U8, (unsigned char)b[body + 1], len - 2, par);
			mpis(nm, body + 19, body + len, par, 2);
			return;
		}
		if ((ver != 4 && ver != 5) || len < 8) return;
		uint64_t hl = rd(b, body + 4, 2);
		add(nm + ".hashed-area-len", body + 4, 2, E_U16, hl, len - 6, par);
		if (6 + hl + 2 > len) return;
		int hi = (int)F.size() - 1;
		subpackets(nm + ".hashed", body + 6, hl, with(hi, par), true, depth);
		uint64_t ul = rd(b, body + 6 + hl, 2);
		int ui = add(nm + ".unhashed-area-len", body + 6 + hl, 2, E_U16, ul, len - 8 - hl, par);
		if (8 + hl + ul > len) return;
		subpackets(nm + ".unhashed", body + 8 + hl, ul, with(ui, par), true, depth);
		if (10 + hl + ul <= len)
			mpis(nm, body + 10 + hl + ul, body + len, par, 2);
	}
	void keybody(const std::string &nm, unsigned tag, size_t body, size_t len, const std::vector<int> &par)
	{
		if (len < 6) return;
		unsigned ver = (unsigned char)b[body], algo = (unsigned char)b[body + 5];
		size_t off = body + 6, end = body + len;
		if (ver == 5)
		{
			if (len < 10) return;
			add(nm + ".v5-keymaterial-len", body + 6, 4, E_U32, rd(b, body + 6, 4), len - 10, par);
			off = body + 10;
		}
		else if (ver != 4) return;
		size_t p = off;
		if (algo == 18 || algo == 19 || algo == 22)
		{
			if (p >= end) return;
			unsigned ol = (unsigned char)b[p];
			add(nm + ".oid-len", p, 1, E_U8, ol, end - p - 1, par);
			if (p + 1 + ol > end) return;
			p = mpis(nm + ".pub", p + 1 + ol, end, par, 1);
			if (algo == 18 && p < end)
			{
				add(nm + ".kdf-len", p, 1, E_U8, (unsigned char)b[p], end - p - 1, par);
				p += 1 + (unsigned char)b[p];
			}
		}
		else
			p = mpis(nm + ".pub", p, end, par, (algo >= 1 && algo <= 3) ? 2 : (algo == 16 ? 3 : (algo == 17 ? 4 : 0)));
		if (tag != 5 && tag != 7) return;
		if (p >= end) return;
		unsigned conv = (unsigned char)b[p];
		p++;
		if (ver == 5 && p < end)
		{
			add(nm + ".v5-s2k-params-len", p, 1, E_U8, (unsigned char)b[p], end - p - 1, par);
			p += 1 + (conv == 0 ? 0 : (unsigned char)b[p]);
		}
		else if (conv != 0)
			return;   // v4 protected key: S2K specifier and IV have fixed sizes, the rest is ciphertext
		if (ver == 5 && p + 4 <= end)
		{
			add(nm + ".v5-secretmaterial-len", p, 4, E_U32, rd(b, p, 4), end - p - 4, par);
			p += 4;
		}
		if (conv == 0)
			mpis(nm + ".sec", p, end >= 2 ? end - 2 : end, par, 6);
	}
	void scan()
	{
		size_t i = 0;
		for (int n = 0; i < b.size() && n < 64; n++)
		{
			unsigned char t = b[i];
			if (!(t & 0x80)) break;
			std::string nm = "k" + str(n);
			std::vector<int> none;
			unsigned tag;
			size_t body, len;
			int me;
			if (t & 0x40)
			{
				tag = t & 0x3f;
				if (i + 1 >= b.size()) break;
				unsigned char l = b[i + 1];
				if (l >= 224 && l < 255)
				{
					// partial body lengths: every chunk header is a length field of its own; the body is not contiguous
					size_t o = i + 1;
					for (int c = 0; o < b.size() && c < 64; c++)
					{
						unsigned char q = b[o];
						if (q >= 224 && q < 255)
						{
							uint64_t cl = (uint64_t)1 << (q & 0x1f);
							add(nm + ".chunk" + str(c) + ".partial-len", o, 1, E_NEW, cl, b.size() - o - 1, none, 0, true);
							o += 1 + cl;
							continue;
						}
						size_t w;
						uint64_t fl;
						if (q < 192) w = 1, fl = q;
						else if (q < 224) { if (o + 2 > b.size()) break; w = 2, fl = ((q - 192) << 8) + (unsigned char)b[o + 1] + 192; }
						else { if (o + 5 > b.size()) break; w = 5, fl = rd(b, o + 1, 4); }
						add(nm + ".chunk" + str(c) + ".final-len", o, w, E_NEW, fl, b.size() - o - w, none);
						o += w + fl;
						break;
					}
					i = o;
					continue;
				}
				size_t w;
				if (l < 192) w = 1, len = l;
				else if (l < 224) { if (i + 3 > b.size()) break; w = 2, len = ((l - 192) << 8) + (unsigned char)b[i + 2] + 192; }
				else { if (i + 6 > b.size()) break; w = 5, len = rd(b, i + 2, 4); }
				body = i + 1 + w;
				me = add(nm + ".packet-len", i + 1, w, E_NEW, len, b.size() - body, none);
			}
			else
			{
				tag = (t >> 2) & 15;
				unsigned lt = t & 3;
				size_t w = lt == 0 ? 1 : (lt == 1 ? 2 : (lt == 2 ? 4 : 0));
				if (!w || i + 1 + w > b.size()) break;
				len = rd(b, i + 1, w);
				body = i + 1 + w;
				me = add(nm + ".packet-len", i, 1 + w, E_OLD, len, b.size() - body, none, t);
			}
			if (body + len > b.size()) break;
			std::vector<int> par(1, me);
			nm += ".tag" + str(tag);
			if (tag == 2) sigbody(nm, body, len, par, 0);
			else if (tag == 5 || tag == 6 || tag == 7 || tag == 14) keybody(nm, tag, body, len, par);
			else if (tag == 1 && len > 10) mpis(nm, body + 10, body + len, par, 2);
			else if (tag == 11 && len >= 2) add(nm + ".filename-len", body + 1, 1, E_U8, (unsigned char)b[body + 1], len - 2, par);
			else if (tag == 17) subpackets(nm + ".uat", body, len, par, false, 0);
			else if (tag == 3 && len >= 4 && (unsigned char)b[body] == 5)
				add(nm + ".v5-skesk-count", body + 1, 1, E_U8, (unsigned char)b[body + 1], len - 2, par);
			i = body + len;
		}
	}
};

static void length_mutations(const std::string &seed, bool full, const std::function<void(const Mutation &)> &f)
{
	LenScan S(seed);
	S.scan();
	std::unordered_set<uint64_t> seen;
	seen.insert(SeedHash::hash_ready(seed));
	Mutation m;
	m.have_ready = true;
	for (size_t fi = 0; fi < S.F.size(); fi++)
	{
		const LF &L = S.F[fi];
		std::vector<std::pair<std::string, uint64_t> > vals;
		auto val = [&](const char *n, uint64_t v, bool core) { if (full || core) vals.push_back(std::make_pair(std::string(n), v)); };
		val("0", 0, true), val("1", 1, false);
		if (L.actual > 0) val("a-1", L.actual - 1, true);
		val("a+1", L.actual + 1, true);
		if (L.remaining > 0) val("r-1", L.remaining - 1, false);
		val("r", L.remaining, false), val("r+1", L.remaining + 1, true);
		val("7f", 0x7f, false), val("80", 0x80, false), val("bf", 0xbf, false), val("c0", 0xc0, false), val("ff", 0xff, true);
		val("191", 191, false), val("192", 192, false), val("8383", 8383, false), val("8384", 8384, false), val("16319", 16319, false), val("16320", 16320, false);
		val("ffff", 0xffff, true), val("7fffffff", 0x7fffffffULL, true), val("80000000", 0x80000000ULL, true);
		for (unsigned k = 0; k < 16; k++)
		{
			char nm[16];
			snprintf(nm, sizeof nm, "%08x", 0xfffffff0u + k);
			val(nm, 0xfffffff0ULL + k, k == 0 || k == 11 || k == 15);
		}
		std::vector<std::string> forms = forms_of(L.enc);
		for (size_t vi = 0; vi < vals.size(); vi++)
		for (size_t fo = 0; fo < forms.size(); fo++)
		{
			uint64_t v = vals[vi].second;
			std::string e = enc_len(L.enc, forms[fo], v, L.tagoctet);
			if (e.empty()) continue;
			long wdelta = (long)e.size() - (long)L.width;
			// modes: 0 = only this field; 1 = enclosing lengths follow the changed width; 2 = enclosing inner lengths also follow the value (a-1 / a+1)
			for (int mode = 0; mode < 3; mode++)
			{
				if (mode == 1 && (wdelta == 0 || L.parents.empty())) continue;
				if (mode == 2 && (L.parents.empty() || !(vals[vi].first == "a-1" || vals[vi].first == "a+1"))) continue;
				std::vector<std::pair<size_t, std::pair<size_t, std::string> > > edits;   // pos -> (width, replacement)
				edits.push_back(std::make_pair(L.pos, std::make_pair(L.width, e)));
				bool okm = true;
				if (mode >= 1)
				{
					long acc = wdelta, vd = mode == 2 ? (long)v - (long)L.actual : 0;
					for (size_t pi = 0; pi < L.parents.size(); pi++)
					{
						const LF &Pf = S.F[L.parents[pi]];
						bool outer = Pf.enc == E_NEW || Pf.enc == E_OLD;
						long nv = (long)Pf.actual + acc + (outer ? 0 : vd);
						if (nv < 0) { okm = false; break; }
						std::string pe = reenc_parent(Pf, (uint64_t)nv);
						if (pe.empty()) { okm = false; break; }
						edits.push_back(std::make_pair(Pf.pos, std::make_pair(Pf.width, pe)));
						acc += (long)pe.size() - (long)Pf.width;
					}
				}
				if (!okm) continue;
				std::sort(edits.begin(), edits.end());
				std::string out = seed;
				for (size_t k = edits.size(); k-- > 0;)
					out.replace(edits[k].first, edits[k].second.first, edits[k].second.second);
				if (!seen.insert(SeedHash::hash_ready(out)).second) continue;
				m.id = "L" + str(fi) + ":" + forms[fo] + "=" + vals[vi].first + (mode == 1 ? ":fixw" : (mode == 2 ? ":fixv" : ""));
				m.cls = "length-field " + L.name + " " + forms[fo] + "=" + vals[vi].first + (mode ? " (enclosing lengths adjusted)" : "");
				m.ready = out;
				f(m);
			}
		}
	}
}

// every public (sub)key packet of a blob rewritten as a version 5 packet (same key material, 4-octet key material count)
static std::string to_v5(const std::string &blob, int force_algo = -1)
{
	std::vector<Pkt> P = packets(blob);
	std::string o;
	for (size_t i = 0; i < P.size(); i++)
	{
		const Pkt &p = P[i];
		std::string body = blob.substr(p.body, p.len);
		if ((p.tag == 6 || p.tag == 14) && p.len > 6 && body[0] == 4)
		{
			std::string b5 = std::string(1, (char)5) + body.substr(1, 5) + be(p.len - 6, 4) + body.substr(6);
			if (force_algo >= 0) b5[5] = (char)force_algo;
			o += std::string(1, (char)(0xC0 | p.tag)) + "\xff" + be(b5.size(), 4) + b5;
		}
		else
			o += blob.substr(p.hdr, p.body + p.len - p.hdr);
	}
	return o;
}

// ------------------------------------------------------------------------------------------------ targets
struct PTarget {
	Target t;
	bool binary, own_custom;
	PTarget() : binary(false), own_custom(false) {}
};
static std::vector<PTarget> V;
static std::string lenpart = "all", lenlevel;   // --family length: --part decode|parse|all, --lenlevel core|full

static void add_bin(const std::string &name, const std::string &seedname, const std::string &seed, const std::function<int(const std::string &)> &run,
	bool expect = true)
{
	PTarget p;
	p.binary = true;
	p.t.name = name, p.t.seedname = seedname, p.t.seed = seed, p.t.run = run, p.t.expect_accept = expect;
	p.t.keyname = "openpgp";    // the crash sites are inside the shared packet decoder: key by site, not by entry point
	p.t.mode = Target::BINARY;
	p.t.cat.thorough = thorough;
	std::vector<Pkt> P = packets(seed);
	if (thorough && seed.size() <= 8192)
		p.t.ranges.push_back(std::make_pair((size_t)0, seed.size()));
	else
		for (size_t i = 0; i < P.size(); i++)
			p.t.ranges.push_back(std::make_pair(P[i].hdr, std::min(P[i].body + 64, P[i].body + P[i].len)));
	V.push_back(p);
}
static void add_txt(const std::string &name, const std::string &seedname, const std::string &seed, const std::function<int(const std::string &)> &run,
	bool expect = true)
{
	PTarget p;
	p.binary = false;
	p.t.name = name, p.t.seedname = seedname, p.t.seed = seed, p.t.run = run, p.t.expect_accept = expect;
	p.t.keyname = "openpgp";
	p.t.mode = Target::TEXT;
	p.t.delims = "\n";
	p.t.cat.thorough = thorough;
	p.t.cat.byte_limit = 1u << 20;
	V.push_back(p);
}

static int run_packet_loop(const std::string &in, int overload)
{
	tmcg_openpgp_octets_t pkts = oct(in);
	int n = 0;
	while (pkts.size())
	{
		tmcg_openpgp_packet_ctx_t ctx;
		tmcg_openpgp_octets_t current;
		std::vector<gcry_mpi_t> qual, xq, v_i;
		std::vector<std::string> capl;
		std::vector<std::vector<gcry_mpi_t> > c_ik;
		tmcg_openpgp_notations_t notations;
		tmcg_openpgp_multiple_octets_t esigs, rfprs;
		tmcg_openpgp_byte_t tag;
		if (overload == 0) tag = PGP::PacketDecode(pkts, 0, ctx, current, notations, esigs, rfprs);
		else if (overload == 1) tag = PGP::PacketDecode(pkts, 0, ctx, current, qual, capl, v_i, c_ik, notations, esigs, rfprs);
		else tag = PGP::PacketDecode(pkts, 0, ctx, current, qual, xq, capl, v_i, c_ik, notations, esigs, rfprs);
		PGP::PacketContextRelease(ctx);
		for (size_t i = 0; i < qual.size(); i++) gcry_mpi_release(qual[i]);
		for (size_t i = 0; i < xq.size(); i++) gcry_mpi_release(xq[i]);
		for (size_t i = 0; i < v_i.size(); i++) gcry_mpi_release(v_i[i]);
		for (size_t i = 0; i < c_ik.size(); i++) for (size_t j = 0; j < c_ik[i].size(); j++) gcry_mpi_release(c_ik[i][j]);
		if (tag == 0x00 || tag == 0xFF) return 0;
		if (++n > 100000) throw std::logic_error("packet loop does not make progress");
	}
	return n > 0;
}

static int use_pubkey(TMCG_OpenPGP_Pubkey *pub)
{
	TMCG_OpenPGP_Keyring ring;
	bool ok = pub->CheckSelfSignatures(&ring, 0);
	bool ok2 = pub->CheckSubkeys(&ring, 0);
	(void)pub->Weak(0), (void)pub->Good(), (void)pub->AccumulateFlags(), (void)pub->AccumulateFeatures();
	tmcg_openpgp_octets_t ex;
	pub->Export(ex);
	ex.clear();
	pub->Export(ex, TMCG_OPENPGP_EXPORT_MINIMAL);
	for (size_t i = 0; i < pub->userids.size(); i++)
	{
		(void)pub->userids[i]->AccumulateAttestations(pub, 0);
		(void)pub->userids[i]->CheckAttestations(pub, 0);
	}
	return (ok && ok2) ? 1 : 0;
}

// consumer of a received keyring: parse, list, check, reduce, then look up every identifier the ring ever knew
static int run_ring(const std::string &in)
{
	TMCG_OpenPGP_Keyring *r = NULL;
	bool ok = PGP::PublicKeyringParse(oct(in), 0, r);
	if (!ok) return 0;
	size_t n = r->Size();
	// every fingerprint and key ID (primary keys and subkeys) a reader of the ring could look up afterwards
	std::vector<std::string> fprs, kids;
	for (std::map<std::string, TMCG_OpenPGP_Pubkey*>::const_iterator it = r->keys.begin(); it != r->keys.end(); ++it)
	{
		std::string f, k;
		PGP::FingerprintConvertPlain(it->second->fingerprint, f), PGP::KeyidConvert(it->second->id, k);
		fprs.push_back(f), kids.push_back(k), kids.push_back(f);
		for (size_t j = 0; j < it->second->subkeys.size(); j++)
		{
			PGP::FingerprintConvertPlain(it->second->subkeys[j]->fingerprint, f), PGP::KeyidConvert(it->second->subkeys[j]->id, k);
			fprs.push_back(f), kids.push_back(k), kids.push_back(f);
		}
	}
	(void)r->List(""), (void)r->Check(0);
	r->Reduce();
	(void)r->Find("0123456789ABCDEF0123456789ABCDEF01234567"), (void)r->FindByKeyid("0123456789ABCDEF");
	// whatever a lookup returns after Reduce must be a live key of the ring
	size_t touched = 0;
	for (size_t i = 0; i < fprs.size(); i++)
	{
		const TMCG_OpenPGP_Pubkey *k = r->Find(fprs[i]);
		if (k) touched += k->userids.size() + k->subkeys.size() + (size_t)k->pkalgo;
	}
	for (size_t i = 0; i < kids.size(); i++)
	{
		const TMCG_OpenPGP_Pubkey *k = r->FindByKeyid(kids[i]);
		if (k) touched += k->userids.size() + k->subkeys.size() + (size_t)k->pkalgo;
		k = r->FindByKeyid("0x" + kids[i]);
		if (k) touched += k->userids.size() + k->subkeys.size() + (size_t)k->pkalgo;
	}
	delete r;
	return (n > 0 ? 1 : 0) + (touched == (size_t)-1 ? 2 : 0);
}

static void build_targets(const std::string &family)
{
#ifdef C12_HAVE_PGP_SEEDS
	std::string pubblock = unhex(SEED_PUBBLOCK), prvblock = unhex(SEED_PRVBLOCK), ringb = unhex(SEED_RING), sig = unhex(SEED_SIG),
		msg = unhex(SEED_MSG), msg_sed = unhex(SEED_MSG_SED), lit = unhex(SEED_LIT), data = SEED_DATA;
	std::string a_pub, a_prv, a_sig, a_msg, a_ring;
	PGP::ArmorEncode(TMCG_OPENPGP_ARMOR_PUBLIC_KEY_BLOCK, oct(pubblock), a_pub);
	PGP::ArmorEncode(TMCG_OPENPGP_ARMOR_PRIVATE_KEY_BLOCK, oct(prvblock), a_prv);
	PGP::ArmorEncode(TMCG_OPENPGP_ARMOR_SIGNATURE, oct(sig), a_sig);
	PGP::ArmorEncode(TMCG_OPENPGP_ARMOR_MESSAGE, oct(msg), a_msg);
	PGP::ArmorEncode(TMCG_OPENPGP_ARMOR_PUBLIC_KEY_BLOCK, oct(ringb), a_ring);
	std::vector<std::pair<std::string, std::string> > ext;   // externally generated artefacts embedded in tests/t-rfc4880.cc
	ext.push_back(std::make_pair("mallory-ed25519", std::string(EXT_MALLORY)));
	ext.push_back(std::make_pair("davey-attested", std::string(EXT_DAVEY)));
	ext.push_back(std::make_pair("alice-eddsa", std::string(EXT_ALICE)));

	if (family == "armor")
	{
		auto run_armor = [](const std::string &in) {
			tmcg_openpgp_octets_t out;
			tmcg_openpgp_armor_t t = PGP::ArmorDecode(in, out);
			return t != TMCG_OPENPGP_ARMOR_UNKNOWN ? 1 : 0;
		};
		add_txt("armor.decode", "sig", a_sig, run_armor);
		add_txt("armor.decode", "pubblock", a_pub, run_armor);
		if (thorough)
		{
			add_txt("armor.decode", "msg", a_msg, run_armor);
			add_txt("armor.decode", "alice-sig", EXT_ALICE_SIG, run_armor);
			add_txt("armor.decode", "emma-v5-prv", EXT_EMMA, run_armor);
		}
		add_txt("armor.radix64", "line", "VGhpcyBpcyBhIHNpbXBsZSB0ZXN0IG1lc3NhZ2UuIE9rYXksIGxldCdzIHN0YXJ0Lg==", [](const std::string &in) {
			tmcg_openpgp_octets_t out;
			PGP::Radix64Decode(in, out);
			return out.size() > 0 ? 1 : 0;
		});
		// the string overloads (armor + parser)
		add_txt("armor.SignatureParse", "sig", a_sig, [](const std::string &in) {
			TMCG_OpenPGP_Signature *s = NULL;
			bool ok = PGP::SignatureParse(in, 0, s);
			if (ok) { (void)s->Good(); delete s; }
			return ok ? 1 : 0;
		});
		add_txt("armor.PublicKeyBlockParse", "mallory-ed25519", EXT_MALLORY, [](const std::string &in) {
			TMCG_OpenPGP_Pubkey *p = NULL;
			bool ok = PGP::PublicKeyBlockParse(in, 0, p);
			int r = 0;
			if (ok) { r = use_pubkey(p); delete p; }
			return r;
		});
	}
	else if (family == "packet")
	{
		std::vector<std::pair<std::string, std::string> > blobs;
		blobs.push_back(std::make_pair("pubblock", pubblock)), blobs.push_back(std::make_pair("prvblock", prvblock));
		blobs.push_back(std::make_pair("sig", sig)), blobs.push_back(std::make_pair("msg", msg)), blobs.push_back(std::make_pair("lit", lit));
		for (size_t i = 0; i < ext.size(); i++)
		{
			tmcg_openpgp_octets_t o;
			PGP::ArmorDecode(ext[i].second, o);
			blobs.push_back(std::make_pair(ext[i].first, strof(o)));
		}
		{
			tmcg_openpgp_octets_t o;
			PGP::ArmorDecode(EXT_EMMA, o);
			blobs.push_back(std::make_pair("emma-v5-prv", strof(o)));
			o.clear();
			PGP::ArmorDecode(EXT_ALICE_SIG, o);
			blobs.push_back(std::make_pair("alice-sig", strof(o)));
		}
		size_t nbase = blobs.size();
		// version 5 public key packets for every algorithm of the seeds (DSA, ElGamal, EdDSA, ECDH, RSA) and ECDSA (retagged EdDSA)
		blobs.push_back(std::make_pair("pubblock-v5", to_v5(pubblock)));
		blobs.push_back(std::make_pair("mallory-ed25519-v5", to_v5(blobs[5].second)));
		blobs.push_back(std::make_pair("mallory-as-ecdsa-v5", to_v5(blobs[5].second, 19)));
		blobs.push_back(std::make_pair("davey-v5", to_v5(blobs[6].second)));
		for (size_t i = 0; i < blobs.size(); i++)
		{
			if (!thorough && i >= 6 && i != 8 && i < nbase) continue;   // quick: own artefacts, one external key, the V5 secret key, the v5 public keys
			if (!thorough && i == nbase + 3) continue;
			add_bin("packet.decode", blobs[i].first, blobs[i].second, [](const std::string &in) { return run_packet_loop(in, 0); });
			if (i < 1 || thorough)
			{
				add_bin("packet.decode-dkg", blobs[i].first, blobs[i].second, [](const std::string &in) { return run_packet_loop(in, 1); });
				add_bin("packet.decode-dkg2", blobs[i].first, blobs[i].second, [](const std::string &in) { return run_packet_loop(in, 2); });
			}
		}
	}
	else if (family == "key")
	{
		auto run_pub = [](const std::string &in) {
			TMCG_OpenPGP_Pubkey *p = NULL;
			bool ok = PGP::PublicKeyBlockParse(oct(in), 0, p);
			int r = 0;
			if (ok) { r = use_pubkey(p); delete p; }
			return r;
		};
		add_bin("pgp.PublicKeyBlockParse", "dsa-elg", pubblock, run_pub);
		for (size_t i = 0; i < ext.size() && (thorough || i < 2); i++)   // quick: Ed25519 key and the key with attested certifications (0x16)
		{
			tmcg_openpgp_octets_t o;
			PGP::ArmorDecode(ext[i].second, o);
			add_bin("pgp.PublicKeyBlockParse", ext[i].first, strof(o), run_pub);
			if (i == 0)
				add_bin("pgp.PublicKeyBlockParse", ext[i].first + "-v5", to_v5(strof(o)), run_pub, false);
		}
		{
			// primary key, user ID, valid subkey, then a subkey packet with an unsupported algorithm (99) and a second primary key
			std::vector<Pkt> P = packets(pubblock);
			if (P.size() >= 5)
			{
				std::string sub = pubblock.substr(P[3].hdr, P[3].body + P[3].len - P[3].hdr), sub99 = sub;
				sub99[P[3].body - P[3].hdr + 5] = (char)99;
				std::string prim = pubblock.substr(P[0].hdr, P[0].body + P[0].len - P[0].hdr);
				std::string seedx = pubblock + sub99 + prim;
				add_bin("pgp.PublicKeyBlockParse", "dsa-elg-unknownsub-2ndprimary", seedx, run_pub, false);
				add_bin("pgp.PublicKeyBlockParse", "dsa-elg-unknownsub", pubblock + sub99 + pubblock.substr(P[4].hdr), run_pub, false);
			}
		}
		auto run_prv = [](const std::string &in, const char *pw) {
			TMCG_OpenPGP_Prvkey *p = NULL;
			bool ok = PGP::PrivateKeyBlockParse(oct(in), 0, pw, p);
			if (!ok) return 0;
			TMCG_OpenPGP_Keyring ring;
			p->RelinkPublicSubkeys();
			bool c = p->pub->CheckSelfSignatures(&ring, 0);
			(void)p->pub->CheckSubkeys(&ring, 0);
			p->RelinkPrivateSubkeys();
			tmcg_openpgp_octets_t ex;
			p->Export(ex);
			(void)p->Weak(0);
			delete p;
			return c ? 1 : 0;
		};
		add_bin("pgp.PrivateKeyBlockParse", "dsa-elg", prvblock, [run_prv](const std::string &in) { return run_prv(in, "FCK!NSA"); });
		if (thorough)
			add_bin("pgp.PrivateKeyBlockParse", "dsa-elg-wrongpw", prvblock, [run_prv](const std::string &in) { return run_prv(in, "wrong"); }, false);
		if (thorough)
		{
			tmcg_openpgp_octets_t o;
			PGP::ArmorDecode(EXT_EMMA, o);
			add_bin("pgp.PrivateKeyBlockParse", "emma-v5", strof(o), [run_prv](const std::string &in) { return run_prv(in, ""); });
		}
		add_bin("pgp.PublicKeyringParse", "two-keys", ringb, run_ring);
#ifdef C12_HAVE_PGP_REVSEEDS
		{
			// ALL designated-revoker graphs over one, two and three keys: every key names no key or any key of the ring (itself
			// included) as its designated revoker through a valid direct-key signature, and every subset of the named revokers
			// has issued a key revocation signature: (n+1)^n graphs x 2^(keys with a revoker) rings.  Cycles (mutual revokers,
			// three-cycles, self-designation) make the validity check of one key depend on the check of another (added after
			// seeded change C12-5).  Consumer: run_ring (parse, list, check, reduce, look-ups).
			const char *PUBS[3] = { REVSEED_PUB0, REVSEED_PUB1, REVSEED_PUB2 }, *UIDS[3] = { REVSEED_UID0, REVSEED_UID1, REVSEED_UID2 };
			const char *DIRS[3][3] = { { REVSEED_DIR00, REVSEED_DIR01, REVSEED_DIR02 }, { REVSEED_DIR10, REVSEED_DIR11, REVSEED_DIR12 }, { REVSEED_DIR20, REVSEED_DIR21, REVSEED_DIR22 } };
			const char *REVS[3][3] = { { REVSEED_REV00, REVSEED_REV01, REVSEED_REV02 }, { REVSEED_REV10, REVSEED_REV11, REVSEED_REV12 }, { REVSEED_REV20, REVSEED_REV21, REVSEED_REV22 } };
			std::string pubs[3], uids[3], dirs[3][3], revs[3][3];
			for (int x = 0; x < 3; x++)
			{
				pubs[x] = unhex(PUBS[x]), uids[x] = unhex(UIDS[x]);
				for (int y = 0; y < 3; y++) dirs[x][y] = unhex(DIRS[x][y]), revs[x][y] = unhex(REVS[x][y]);
			}
			struct RG { std::string pubs[3], uids[3], dirs[3][3], revs[3][3]; };
			std::shared_ptr<RG> G(new RG);
			for (int x = 0; x < 3; x++)
			{
				G->pubs[x] = pubs[x], G->uids[x] = uids[x];
				for (int y = 0; y < 3; y++) G->dirs[x][y] = dirs[x][y], G->revs[x][y] = revs[x][y];
			}
			PTarget T;
			T.binary = true, T.own_custom = true;
			T.t.name = "pgp.PublicKeyringParse", T.t.seedname = "revoker-graph", T.t.run = run_ring, T.t.expect_accept = true;
			T.t.seed = pubs[0] + uids[0] + pubs[1] + uids[1] + pubs[2] + uids[2];
			T.t.keyname = "openpgp", T.t.mode = Target::BINARY, T.t.cat.thorough = thorough;
			T.t.custom = [G](const std::function<void(const Mutation &)> &f) {
				for (int n = 1; n <= 3; n++)
				{
					int graphs = 1;
					for (int i = 0; i < n; i++) graphs *= (n + 1);
					for (int gi = 0; gi < graphs; gi++)
					{
						int d[3], v = gi, named = 0;
						for (int i = 0; i < n; i++) { d[i] = v % (n + 1) - 1; v /= (n + 1); if (d[i] >= 0) named++; }
						for (int rs = 0; rs < (1 << named); rs++)
						{
							std::string ring, id = "xG" + str(n) + ":";
							int bit = 0;
							for (int i = 0; i < n; i++)
							{
								bool rev = false;
								if (d[i] >= 0) rev = (rs >> bit++) & 1;
								ring += G->pubs[i];
								if (rev) ring += G->revs[i][d[i]];
								if (d[i] >= 0) ring += G->dirs[i][d[i]];
								ring += G->uids[i];
								id += (d[i] < 0 ? std::string("-") : str(d[i])) + (rev ? "r" : "");
							}
							Mutation m;
							m.id = id, m.cls = "designated-revoker graph", m.ready = ring, m.have_ready = true;
							f(m);
						}
					}
				}
			};
			V.push_back(T);
		}
#endif
		{
			// a third key block whose PRIMARY key packet body equals the SUBKEY body of the first key (same fingerprint / key ID)
			std::vector<Pkt> P = packets(pubblock);
			if (P.size() >= 5)
			{
				std::string subbody = pubblock.substr(P[3].body, P[3].len), uidp = pubblock.substr(P[1].hdr, P[1].body + P[1].len - P[1].hdr);
				std::string prim = std::string(1, (char)(0xC0 | 6)) + "\xff" + be(subbody.size(), 4) + subbody;
				add_bin("pgp.PublicKeyringParse", "primary-equals-earlier-subkey", ringb + prim + uidp + pubblock.substr(P[2].hdr, P[2].body + P[2].len - P[2].hdr), run_ring, false);
				add_bin("pgp.PublicKeyringParse", "subkey-then-same-primary-first", pubblock + prim + uidp, run_ring, false);
			}
		}
		auto run_sig = [pubblock, data](const std::string &in) {
			TMCG_OpenPGP_Signature *s = NULL;
			bool ok = PGP::SignatureParse(oct(in), 0, s);
			if (!ok) return 0;
			TMCG_OpenPGP_Signature s2 = *s;
			bool good = s->Good();
			(void)s->CheckValidity(1699990000, 0);
			s2.PrintInfo();
			TMCG_OpenPGP_Pubkey *p = NULL;
			int r = 0;
			if (PGP::PublicKeyBlockParse(oct(pubblock), 0, p))
			{
				r = (good && s->VerifyData(p->key, oct(data), 0)) ? 1 : 0;
				delete p;
			}
			delete s;
			return r;
		};
		add_bin("pgp.SignatureParse", "dsa-detached", sig, run_sig);
		if (thorough)
		{
			tmcg_openpgp_octets_t o;
			PGP::ArmorDecode(EXT_ALICE_SIG, o);
			add_bin("pgp.SignatureParse", "alice-eddsa", strof(o), run_sig, false);
		}
		add_bin("pgp.SignaturesParse", "dsa-detached-x2", sig + sig, [](const std::string &in) {
			TMCG_OpenPGP_Signatures sigs;
			bool ok = PGP::SignaturesParse(oct(in), 0, sigs);
			for (size_t i = 0; i < sigs.size(); i++) delete sigs[i];
			return ok ? 1 : 0;
		});
	}
	else if (family == "message")
	{
		auto run_msg = [prvblock](const std::string &in) {
			TMCG_OpenPGP_Message *m = NULL;
			if (!PGP::MessageParse(oct(in), 0, m)) return 0;
			m->PrintInfo();
			int r = 0;
			TMCG_OpenPGP_Prvkey *prv = NULL;
			if (PGP::PrivateKeyBlockParse(oct(prvblock), 0, "FCK!NSA", prv))
			{
				tmcg_openpgp_secure_octets_t seskey;
				for (size_t i = 0; i < m->PKESKs.size() && seskey.empty(); i++)
					for (size_t j = 0; j < prv->private_subkeys.size(); j++)
						if (prv->private_subkeys[j]->Decrypt(m->PKESKs[i], 0, seskey)) break;
				tmcg_openpgp_octets_t dec;
				if (!seskey.empty() && m->Decrypt(seskey, 0, dec))
				{
					TMCG_OpenPGP_Message *m2 = NULL;
					if (PGP::MessageParse(dec, 0, m2))
					{
						r = m2->literal_data.size() > 0 ? 1 : 0;
						delete m2;
					}
				}
				delete prv;
			}
			delete m;
			return r;
		};
		add_bin("pgp.MessageParse-Decrypt", "pkesk-seipd", msg, run_msg);
		if (thorough)
			add_bin("pgp.MessageParse-Decrypt", "pkesk-sed", msg_sed, run_msg, false);
		// AEAD encrypted data (tag 20) decrypted with the session key the receiver really has
		{
			tmcg_openpgp_secure_octets_t seskey;
			auto build = [&seskey, data](tmcg_openpgp_byte_t c, size_t len) {
				tmcg_openpgp_octets_t pt, litp, ad, iv, enc, aead;
				for (size_t i = 0; i < len; i++) pt.push_back((tmcg_openpgp_byte_t)data[i % data.size()]);
				PGP::PacketLitEncode(pt, litp);
				ad.push_back(0xD4), ad.push_back(1), ad.push_back(TMCG_OPENPGP_SKALGO_AES256), ad.push_back(TMCG_OPENPGP_AEADALGO_OCB), ad.push_back(c);
				for (int i = 0; i < 8; i++) ad.push_back(0);
				if (PGP::SymmetricEncryptAEAD(litp, seskey, TMCG_OPENPGP_SKALGO_AES256, TMCG_OPENPGP_AEADALGO_OCB, c, ad, 0, iv, enc))
					{ fprintf(stderr, "harness: AEAD encryption failed\n"); exit(2); }
				PGP::PacketAeadEncode(TMCG_OPENPGP_SKALGO_AES256, TMCG_OPENPGP_AEADALGO_OCB, c, iv, enc, aead);
				return strof(aead);
			};
			std::string small0 = build(0, 150), small10 = build(10, 3000), big = build(4, thorough ? 9000000 : 5000000);
			auto run_aead = [seskey](const std::string &in) {
				TMCG_OpenPGP_Message *m = NULL;
				if (!PGP::MessageParse(oct(in), 0, m)) return 0;
				int r = 0;
				tmcg_openpgp_octets_t dec;
				if (m->Decrypt(seskey, 0, dec))
				{
					TMCG_OpenPGP_Message *m2 = NULL;
					if (PGP::MessageParse(dec, 0, m2)) { r = m2->literal_data.size() > 0 ? 1 : 0; delete m2; }
				}
				delete m;
				return r;
			};
			add_bin("pgp.MessageParse-DecryptAEAD", "ocb-chunk0", small0, run_aead);
			add_bin("pgp.MessageParse-DecryptAEAD", "ocb-chunk10", small10, run_aead);
			// several MiB of AEAD data: only the chunk size octet is varied (a received message may name any chunk size)
			add_bin("pgp.MessageParse-DecryptAEAD", "ocb-5MiB-chunkoctet", big, run_aead);
			PTarget &B = V.back();
			std::vector<Pkt> P = packets(big);
			size_t coff = P.empty() ? 0 : P[0].body + 3;
			bool th = thorough;
			B.t.custom = [big, coff, th](const std::function<void(const Mutation &)> &f) {
				static const unsigned char cv[] = { 10, 16, 21, 255, 0, 6, 14, 15, 17, 20, 22, 56, 57 };
				Mutation m;
				m.have_ready = true;
				for (size_t i = 0; i < (th ? sizeof cv : 4); i++)
				{
					if ((unsigned char)big[coff] == cv[i]) continue;
					m.id = "xchunk" + str((unsigned)cv[i]), m.cls = "chunk-size-octet", m.ready = big;
					m.ready[coff] = (char)cv[i];
					f(m);
				}
			};
			B.own_custom = true;
		}
		add_bin("pgp.MessageParse", "literal", lit, [](const std::string &in) {
			TMCG_OpenPGP_Message *m = NULL;
			if (!PGP::MessageParse(oct(in), 0, m)) return 0;
			int r = m->literal_data.size() > 0;
			delete m;
			return r;
		});
	}
	else if (family == "length")
	{
		// ---- artefacts (binary), incl. hand-assembled ones that carry the length fields the encoders' defaults lack
		std::vector<std::pair<std::string, std::string> > B;
		auto dearmor = [](const char *a) { tmcg_openpgp_octets_t o; PGP::ArmorDecode(a, o); return strof(o); };
		std::string mallory = dearmor(EXT_MALLORY), davey = dearmor(EXT_DAVEY), alice = dearmor(EXT_ALICE), emma = dearmor(EXT_EMMA),
			alicesig = dearmor(EXT_ALICE_SIG);
		auto newhdr = [](unsigned tag, size_t len) {
			std::string h(1, (char)(0xC0 | tag));
			if (len < 192) h += be(len, 1);
			else if (len <= 8383) h += std::string(1, (char)(((len - 192) >> 8) + 192)) + std::string(1, (char)((len - 192) & 0xff));
			else h += "\xff" + be(len, 4);
			return h;
		};
		// detached signature with notation data, policy URI and an embedded signature in the unhashed area (signature stays valid)
		std::string sigrich;
		{
			std::vector<Pkt> P = packets(sig);
			if (P.size() == 1 && P[0].len > 10)
			{
				std::string body = sig.substr(P[0].body, P[0].len);
				size_t hl = rd(body, 4, 2), ul = rd(body, 6 + hl, 2);
				tmcg_openpgp_octets_t nd, sp1, sp2, sp3;
				nd.push_back(0x80), nd.push_back(0), nd.push_back(0), nd.push_back(0), nd.push_back(0), nd.push_back(3), nd.push_back(0), nd.push_back(3);
				for (const char *c = "a@bxyz"; *c; c++) nd.push_back(*c);
				PGP::SubpacketEncode(20, false, nd, sp1);
				PGP::SubpacketEncode(26, false, oct("http://example.org/policy"), sp2);
				PGP::SubpacketEncode(32, false, oct(body), sp3);
				std::string extra = strof(sp1) + strof(sp2) + strof(sp3);
				std::string nb = body.substr(0, 6 + hl) + be(ul + extra.size(), 2) + body.substr(8 + hl, ul) + extra + body.substr(8 + hl + ul);
				sigrich = newhdr(2, nb.size()) + nb;
			}
		}
		// literal data packet as a partial-length chain (512 + rest) and a user attribute packet
		std::string litpartial, uat, msgbig;
		{
			tmcg_openpgp_octets_t pt, lp;
			for (size_t i = 0; i < 700; i++) pt.push_back((tmcg_openpgp_byte_t)data[i % data.size()]);
			PGP::PacketLitEncode(pt, lp);
			std::string l = strof(lp);
			std::vector<Pkt> P = packets(l);
			if (P.size() == 1 && P[0].len > 512)
			{
				std::string body = l.substr(P[0].body, P[0].len);
				litpartial = std::string(1, (char)(0xC0 | 11)) + std::string(1, (char)(224 + 9)) + body.substr(0, 512) + newhdr(0, body.size() - 512).substr(1) + body.substr(512);
			}
			std::string img = std::string("\x10\x00\x01\x01", 4) + std::string(12, '\0') + "\xff\xd8\xff\xe0JFIF-not-really";
			tmcg_openpgp_octets_t sp;
			PGP::SubpacketEncode(1, false, oct(img), sp);
			uat = newhdr(17, sp.size()) + strof(sp);
		}
		B.push_back(std::make_pair("sig", sig)), B.push_back(std::make_pair("sig-rich", sigrich)), B.push_back(std::make_pair("pubblock", pubblock));
		B.push_back(std::make_pair("msg", msg)), B.push_back(std::make_pair("lit", lit)), B.push_back(std::make_pair("lit-partial", litpartial));
		B.push_back(std::make_pair("emma-v5-prv", emma)), B.push_back(std::make_pair("mallory-ed25519", mallory));
		B.push_back(std::make_pair("mallory-ed25519-v5", to_v5(mallory))), B.push_back(std::make_pair("uat", uat));
		B.push_back(std::make_pair("prvblock", prvblock)), B.push_back(std::make_pair("davey-attested", davey)), B.push_back(std::make_pair("alice-eddsa", alice));
		B.push_back(std::make_pair("alice-sig", alicesig)), B.push_back(std::make_pair("pubblock-v5", to_v5(pubblock))), B.push_back(std::make_pair("ring", ringb));
		std::string part = lenpart;
		bool full = lenlevel == "full" || (lenlevel.empty() && thorough);
		auto add_len = [full](const std::string &name, const std::string &seedname, const std::string &seed,
			const std::function<int(const std::string &)> &run, bool expect) {
			if (seed.empty()) return;
			add_bin(name, seedname, seed, run, expect);
			PTarget &T = V.back();
			std::string sd = seed;
			T.t.custom = [sd, full](const std::function<void(const Mutation &)> &f) { length_mutations(sd, full, f); };
			T.own_custom = true;
		};
		if (part == "all" || part == "decode")
			for (size_t i = 0; i < B.size(); i++)
			{
				add_len("len.packet.decode", B[i].first, B[i].second, [](const std::string &in) { return run_packet_loop(in, 0); }, B[i].first != "lit-partial" || true);
				if (thorough && (B[i].first == "prvblock" || B[i].first == "emma-v5-prv"))
					add_len("len.packet.decode-dkg2", B[i].first, B[i].second, [](const std::string &in) { return run_packet_loop(in, 2); }, true);
			}
		if (part == "all" || part == "parse")
		{
			auto run_pub = [](const std::string &in) {
				TMCG_OpenPGP_Pubkey *p = NULL;
				bool ok = PGP::PublicKeyBlockParse(oct(in), 0, p);
				int r = 0;
				if (ok) { r = use_pubkey(p); delete p; }
				return r;
			};
			auto run_prv = [](const std::string &in, const char *pw) {
				TMCG_OpenPGP_Prvkey *p = NULL;
				if (!PGP::PrivateKeyBlockParse(oct(in), 0, pw, p)) return 0;
				TMCG_OpenPGP_Keyring ring;
				p->RelinkPublicSubkeys();
				bool c = p->pub->CheckSelfSignatures(&ring, 0);
				(void)p->pub->CheckSubkeys(&ring, 0);
				p->RelinkPrivateSubkeys();
				tmcg_openpgp_octets_t ex;
				p->Export(ex);
				delete p;
				return c ? 1 : 0;
			};
			auto run_sig = [pubblock, data](const std::string &in) {
				TMCG_OpenPGP_Signature *s = NULL;
				if (!PGP::SignatureParse(oct(in), 0, s)) return 0;
				TMCG_OpenPGP_Signature s2 = *s;
				bool good = s->Good();
				(void)s->CheckValidity(1699990000, 0);
				s2.PrintInfo();
				TMCG_OpenPGP_Pubkey *p = NULL;
				int r = 0;
				if (PGP::PublicKeyBlockParse(oct(pubblock), 0, p)) { r = (good && s->VerifyData(p->key, oct(data), 0)) ? 1 : 0; delete p; }
				delete s;
				return r;
			};
			auto run_msg = [prvblock](const std::string &in) {
				TMCG_OpenPGP_Message *m = NULL;
				if (!PGP::MessageParse(oct(in), 0, m)) return 0;
				int r = m->literal_data.size() > 0 ? 1 : 0;
				TMCG_OpenPGP_Prvkey *prv = NULL;
				if (m->PKESKs.size() && PGP::PrivateKeyBlockParse(oct(prvblock), 0, "FCK!NSA", prv))
				{
					tmcg_openpgp_secure_octets_t seskey;
					for (size_t i = 0; i < m->PKESKs.size() && seskey.empty(); i++)
						for (size_t j = 0; j < prv->private_subkeys.size(); j++)
							if (prv->private_subkeys[j]->Decrypt(m->PKESKs[i], 0, seskey)) break;
					tmcg_openpgp_octets_t dec;
					if (!seskey.empty() && m->Decrypt(seskey, 0, dec))
					{
						TMCG_OpenPGP_Message *m2 = NULL;
						if (PGP::MessageParse(dec, 0, m2)) { r = m2->literal_data.size() > 0 ? 1 : 0; delete m2; }
					}
					delete prv;
				}
				delete m;
				return r;
			};
			add_len("len.SignatureParse", "sig", sig, run_sig, true);
			add_len("len.SignatureParse", "sig-rich", sigrich, run_sig, false);
			add_len("len.PublicKeyBlockParse", "pubblock", pubblock, run_pub, true);
			add_len("len.PublicKeyBlockParse", "mallory-ed25519", mallory, run_pub, true);
			add_len("len.MessageParse", "lit", lit, run_msg, true);
			add_len("len.MessageParse", "lit-partial", litpartial, run_msg, false);
			add_len("len.MessageParse", "msg", msg, run_msg, true);
			add_len("len.PrivateKeyBlockParse", "emma-v5-prv", emma, [run_prv](const std::string &in) { return run_prv(in, ""); }, true);
			if (thorough)
			{
				add_len("len.SignatureParse", "alice-sig", alicesig, run_sig, false);
				add_len("len.PublicKeyBlockParse", "davey-attested", davey, run_pub, true);
				add_len("len.PublicKeyBlockParse", "alice-eddsa", alice, run_pub, true);
				add_len("len.PublicKeyBlockParse", "mallory-ed25519-v5", to_v5(mallory), run_pub, false);
				add_len("len.PrivateKeyBlockParse", "prvblock", prvblock, [run_prv](const std::string &in) { return run_prv(in, "FCK!NSA"); }, true);
				add_len("len.PublicKeyringParse", "ring", ringb, run_ring, true);
			}
		}
	}
#else
	(void)family;
#endif
}

int main(int argc, char **argv)
{
	Args A = parse(argc, argv);
	Report rep(A);
	thorough = A.tier == "thorough";
	if (!init_libTMCG()) { fprintf(stderr, "init_libTMCG failed\n"); return 2; }
	mcenv::set_clock(1700000000);
	if (A.has("gen-revseeds"))
		return gen_revseeds();
	if (A.has("gen-seeds"))
		return gen_seeds();
#ifndef C12_HAVE_PGP_SEEDS
	fprintf(stderr, "c12_pgp_seeds.hh has no generated seeds: run c12_pgp --gen-seeds\n");
	return 2;
#endif
	mcenv::CoinSource cs(mcenv::env_seed(), 99);
	mcenv::cur = &cs;
	Runner run(rep);
	run.F.prologue = [&cs]() { cs.reset(mcenv::env_seed(), 99); mcenv::cur = &cs; mcenv::set_clock(1700000000); };
	std::string family = A.get("family", "packet");
	lenpart = A.get("part", "all"), lenlevel = A.get("lenlevel", "");
	{
		MuteCerr mute;
		build_targets(family);
	}
	std::string only_target = A.get("target", "");
	for (size_t i = 0; i < V.size(); i++)
	{
		Target &T = V[i].t;
		if (!only_target.empty() && T.name != only_target) continue;
		if (!A.only.empty() && A.only.compare(0, T.name.size() + 1, T.name + "/") != 0) continue;
		if (V[i].own_custom)
			run.run_target(T);
		else if (V[i].binary)
		{
			// byte catalogue on the header / first-64 ranges, then the structure-aware packet catalogue (shared de-duplication)
			Target B = T;
			B.mode = Target::TEXT;   // route through a custom enumerator below
			std::string seed = T.seed;
			std::vector<std::pair<size_t, size_t> > ranges = T.ranges;
			Catalogue C = T.cat;
			B.custom = [seed, ranges, C](const std::function<void(const Mutation &)> &f) {
				std::unordered_set<uint64_t> seen;
				seen.insert(SeedHash::hash_ready(seed));
				C.bytes(seed, f, &seen, true, &ranges);
				packet_mutations(seed, f, seen);
			};
			run.run_target(B);
		}
		else
			run.run_target(T);
		if (rep.out_of_time()) break;
	}
	rep.bound = "family " + family + ": " + str(V.size()) + " (target, artefact) pairs" + (thorough ? " (thorough)" : " (quick)");
	rep.counters["targets"] = rep.args.shard == 0 ? V.size() : 0;
	rep.finish();
	return run.machinery_errors ? 2 : 0;
}
