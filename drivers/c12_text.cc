// C12 (part 1 of 3) — importers, iostream operators, Rabin keys / signatures / ciphertexts and stream ("group" and
// "state") constructors fed with structure-aware mutations of valid exports.  ASan+UBSan flavour, fork per case.
//
// Enumerated (families, --family):
//   import : TMCG_Card, TMCG_CardSecret, VTMF_Card, VTMF_CardSecret, TMCG_Stack<both>, TMCG_StackSecret<both> through
//            import(string) and operator>> (fresh object and a *used* object of another shape), mpz_ptr >>, TMCG_Bigint >>.
//            Shapes (k,w) in {(1,1),(2,3),(3,2)} quick, + (32,10),(1,10),(32,1) thorough; stacks of 3 (quick) / 3,8 (thorough).
//   key    : TMCG_PublicKey / TMCG_SecretKey import + check() (+ sign/verify/encrypt/decrypt when accepted), operator>>,
//            PublicKey::verify on mutated signatures, SecretKey::decrypt on mutated ciphertexts, and the
//            "re-signed" variants in which the harness repairs the self-signature after the mutation so that the NIZK
//            parser behind the signature check is reached (704-bit moduli; negated-modulus key as an extra seed).
//   ctor   : stream constructors + CheckGroup(): BarnettSmartVTMF_dlog, _GroupQR, PedersenCommitmentScheme(n), GrothSKC(n),
//            GrothVSSHE(n), HooghSchoenmakersSkoricVillegasVRHE, NaorPinkasEOTP, PedersenTrapdoorCommitmentScheme,
//            JareckiLysyanskayaEDCF/RVSS, PedersenVSS, GennaroJareckiKrawczykRabinDKG (+NewDKG/RVSS/ZVSS/DKG/DSS of CGJKR)
//            state constructors; for every group stream additionally the sign-flipped-but-consistent seed (q -> -q, k -> -k).
// Mutations: c12_common.hh (every field position: delete, duplicate, empty, non-digit, negated, 0, 1, count limits and
//   limit+1, 2^31, 2^64-1, modulus, 20000-bit value, over-long token; truncation at every field; byte level (truncate,
//   flip bit 0 / bit 7) at every offset of inputs <= 600 bytes (quick) / 4096 bytes (thorough)).
// Oracle: outcome of the forked child in {refused, accepted, std::exception}; anything else is a violation
//   (signal, sanitizer report incl. the GMP/libgcrypt write bridge, assert, non-standard exception, hang, > 1 GiB RSS).
#include "c12_common.hh"
#include <libTMCG.hh>
#include <fstream>

using namespace drv;
using namespace c12;

static Report *R;
static Runner *RUN;
static bool thorough;
static mcenv::CoinSource *CS;

static std::string b62(mpz_srcptr z) { std::ostringstream o; o << z; return o.str(); }
template<class T> static std::string exp_str(const T &x) { std::ostringstream o; o << x; return o.str(); }
static void rnd(mpz_ptr z, unsigned bits) { tmcg_mpz_wrandomb(z, bits); }

static Catalogue cat(const std::vector<std::string> &specials, size_t byte_quick = 600, size_t byte_thorough = 4096)
{
	Catalogue c;
	c.thorough = thorough;
	c.specials = specials;
	c.byte_limit = thorough ? byte_thorough : byte_quick;
	return c;
}

static void add(std::vector<Target> &V, const std::string &name, const std::string &seedname, const std::string &seed,
	const Catalogue &c, const std::function<int(const std::string &)> &run, bool expect_accept = true)
{
	Target t;
	t.name = name, t.seedname = seedname, t.seed = seed, t.cat = c, t.run = run, t.expect_accept = expect_accept;
	// TMCG_Stack / TMCG_StackSecret operator>> allocate TMCG_MAX_STACK_CHARS (671 MB) per call: a thinned catalogue
	if (name.find("stack") == 0 && name.find(".istream") != std::string::npos)
		t.heavy = true;
	// a key whose self-signature verifies is checked through all 272 NIZK rounds, each hashing the growing transcript
	// (about 1 s of CPU for a full check): a thinned catalogue
	if (name == "pubkey.import-check-resigned")
		t.stride = thorough ? 16 : 256;
	V.push_back(t);
}

// ------------------------------------------------------------------------------------------------ exercising accepted objects
template<class C> static void use_export(const C &c)
{
	std::ostringstream o;
	o << c;
	C d(c);
	std::ostringstream o2;
	o2 << d;
	if (o.str() != o2.str()) throw std::logic_error("copy differs");
}

// ------------------------------------------------------------------------------------------------ family: import
static void fam_import(std::vector<Target> &V)
{
	mpz_t x;
	mpz_init(x);
	std::vector<std::pair<size_t, size_t> > shapes;
	shapes.push_back(std::make_pair(1, 1)), shapes.push_back(std::make_pair(2, 3)), shapes.push_back(std::make_pair(3, 2));
	if (thorough)
		shapes.push_back(std::make_pair(TMCG_MAX_PLAYERS, TMCG_MAX_TYPEBITS)), shapes.push_back(std::make_pair(1, TMCG_MAX_TYPEBITS)),
			shapes.push_back(std::make_pair(TMCG_MAX_PLAYERS, 1));
	std::vector<std::string> sp;
	rnd(x, 704);
	sp.push_back(b62(x));
	for (size_t si = 0; si < shapes.size(); si++)
	{
		size_t k = shapes[si].first, w = shapes[si].second;
		bool bigshape = k * w > 12;
		std::string sn = "k" + str(k) + "w" + str(w);
		TMCG_Card c(k, w);
		TMCG_CardSecret cs(k, w);
		for (size_t i = 0; i < k; i++)
			for (size_t j = 0; j < w; j++)
			{
				rnd(&c.z[i][j], bigshape ? 64 : 200);
				rnd(&cs.r[i][j], bigshape ? 64 : 200);
				rnd(&cs.b[i][j], 1);
			}
		Catalogue C = cat(sp, bigshape ? 0 : 600, bigshape ? 0 : 4096);
		add(V, "card.import", sn, exp_str(c), C, [](const std::string &in) {
			TMCG_Card a;
			if (!a.import(in)) return 0;
			use_export(a);
			return 1;
		});
		add(V, "cardsecret.import", sn, exp_str(cs), C, [](const std::string &in) {
			TMCG_CardSecret a;
			if (!a.import(in)) return 0;
			use_export(a);
			return 1;
		});
		if (si < 3)
		{
			// import into a used object of another shape (cards and card secrets reset on import)
			add(V, "card.import-reuse", sn, exp_str(c), C, [](const std::string &in) {
				TMCG_Card a(3, 4);
				for (size_t i = 0; i < 3; i++) for (size_t j = 0; j < 4; j++) mpz_set_ui(&a.z[i][j], 77 + i + j);
				if (!a.import(in)) return 0;
				use_export(a);
				return 1;
			});
			add(V, "cardsecret.import-reuse", sn, exp_str(cs), C, [](const std::string &in) {
				TMCG_CardSecret a(3, 4);
				if (!a.import(in)) return 0;
				use_export(a);
				return 1;
			});
		}
		if (si == 1 || (thorough && si < 3))
		{
			Catalogue Cs = cat(sp, 0, 0);
			Cs.thorough = false;   // the iostream operators allocate TMCG_MAX_CARD_CHARS per call: reduced catalogue
			add(V, "card.istream", sn, exp_str(c) + "\n", Cs, [](const std::string &in) {
				std::istringstream is(in);
				TMCG_Card a;
				is >> a;
				if (is.fail()) return 0;
				use_export(a);
				return 1;
			});
			add(V, "cardsecret.istream", sn, exp_str(cs) + "\n", Cs, [](const std::string &in) {
				std::istringstream is(in);
				TMCG_CardSecret a;
				is >> a;
				if (is.fail()) return 0;
				use_export(a);
				return 1;
			});
		}
		// stacks of QR cards / secrets
		std::vector<size_t> sizes;
		if (si == 1) sizes.push_back(3);
		if (thorough && si == 0) sizes.push_back(8);
		if (thorough && si == 3) sizes.push_back(2);
		for (size_t zi = 0; zi < sizes.size(); zi++)
		{
			size_t n = sizes[zi];
			TMCG_Stack<TMCG_Card> s;
			TMCG_StackSecret<TMCG_CardSecret> ss;
			for (size_t i = 0; i < n; i++)
			{
				for (size_t a = 0; a < k; a++) for (size_t b = 0; b < w; b++) rnd(&c.z[a][b], 96), rnd(&cs.r[a][b], 96);
				s.push(c);
				ss.push((i + 1) % n, cs);
			}
			std::string zn = sn + "n" + str(n);
			Catalogue Cn = cat(sp, 400, bigshape ? 0 : 2048);
			add(V, "stack-qr.import", zn, exp_str(s), Cn, [](const std::string &in) {
				TMCG_Stack<TMCG_Card> a;
				if (!a.import(in)) return 0;
				use_export(a);
				for (size_t i = 0; i < a.size(); i++) use_export(a[i]);
				return 1;
			});
			add(V, "stacksecret-qr.import", zn, exp_str(ss), Cn, [](const std::string &in) {
				TMCG_StackSecret<TMCG_CardSecret> a;
				if (!a.import(in)) return 0;
				use_export(a);
				for (size_t i = 0; i < a.size(); i++) { if (a[i].first >= a.size()) throw std::logic_error("index"); (void)a.find_position(i); }
				return 1;
			});
			if (si == 1)
			{
				add(V, "stack-qr.import-append", zn, exp_str(s), Cn, [s](const std::string &in) {
					TMCG_Stack<TMCG_Card> a(s);   // import appends to a non-empty stack
					if (!a.import(in)) return 0;
					use_export(a);
					return 1;
				});
				Catalogue Cs = cat(sp, 0, 0);
				Cs.thorough = false;
				add(V, "stack-qr.istream", zn, exp_str(s) + "\n", Cs, [](const std::string &in) {
					std::istringstream is(in);
					TMCG_Stack<TMCG_Card> a;
					is >> a;
					if (is.fail()) return 0;
					use_export(a);
					return 1;
				});
				add(V, "stacksecret-qr.istream", zn, exp_str(ss) + "\n", Cs, [](const std::string &in) {
					std::istringstream is(in);
					TMCG_StackSecret<TMCG_CardSecret> a;
					is >> a;
					if (is.fail()) return 0;
					use_export(a);
					return 1;
				});
			}
		}
	}
	// discrete-log encoding
	{
		VTMF_Card c;
		VTMF_CardSecret cs;
		rnd(c.c_1, 300), rnd(c.c_2, 300), rnd(cs.r, 160);
		Catalogue C = cat(sp);
		add(V, "vtmfcard.import", "v", exp_str(c), C, [](const std::string &in) {
			VTMF_Card a;
			if (!a.import(in)) return 0;
			use_export(a);
			return 1;
		});
		add(V, "vtmfcardsecret.import", "v", exp_str(cs), C, [](const std::string &in) {
			VTMF_CardSecret a;
			if (!a.import(in)) return 0;
			use_export(a);
			return 1;
		});
		Catalogue Cs = cat(sp, 200, 600);
		Cs.thorough = false;
		add(V, "vtmfcard.istream", "v", exp_str(c) + "\n", Cs, [](const std::string &in) {
			std::istringstream is(in);
			VTMF_Card a;
			is >> a;
			if (is.fail()) return 0;
			use_export(a);
			return 1;
		});
		add(V, "vtmfcardsecret.istream", "v", exp_str(cs) + "\n", Cs, [](const std::string &in) {
			std::istringstream is(in);
			VTMF_CardSecret a;
			is >> a;
			if (is.fail()) return 0;
			use_export(a);
			return 1;
		});
		std::vector<size_t> sizes;
		sizes.push_back(3);
		if (thorough) sizes.push_back(16);
		for (size_t zi = 0; zi < sizes.size(); zi++)
		{
			size_t n = sizes[zi];
			TMCG_Stack<VTMF_Card> s;
			TMCG_StackSecret<VTMF_CardSecret> ss;
			for (size_t i = 0; i < n; i++)
			{
				rnd(c.c_1, 200), rnd(c.c_2, 200), rnd(cs.r, 128);
				s.push(c);
				ss.push((i + n - 1) % n, cs);
			}
			std::string zn = "n" + str(n);
			Catalogue Cn = cat(sp, 500, 3000);
			add(V, "stack-vtmf.import", zn, exp_str(s), Cn, [](const std::string &in) {
				TMCG_Stack<VTMF_Card> a;
				if (!a.import(in)) return 0;
				use_export(a);
				return 1;
			});
			add(V, "stacksecret-vtmf.import", zn, exp_str(ss), Cn, [](const std::string &in) {
				TMCG_StackSecret<VTMF_CardSecret> a;
				if (!a.import(in)) return 0;
				use_export(a);
				for (size_t i = 0; i < a.size(); i++) { if (a[i].first >= a.size()) throw std::logic_error("index"); (void)a.find_position(i); }
				return 1;
			});
			if (zi == 0)
			{
				add(V, "stacksecret-vtmf.import-append", zn, exp_str(ss), Cn, [ss](const std::string &in) {
					TMCG_StackSecret<VTMF_CardSecret> a(ss);   // import appends: indices are checked against the new size only
					if (!a.import(in)) return 0;
					use_export(a);
					return 1;
				});
				Catalogue Cs2 = cat(sp, 0, 0);
				Cs2.thorough = false;
				add(V, "stack-vtmf.istream", zn, exp_str(s) + "\n", Cs2, [](const std::string &in) {
					std::istringstream is(in);
					TMCG_Stack<VTMF_Card> a;
					is >> a;
					if (is.fail()) return 0;
					use_export(a);
					return 1;
				});
				add(V, "stacksecret-vtmf.istream", zn, exp_str(ss) + "\n", Cs2, [](const std::string &in) {
					std::istringstream is(in);
					TMCG_StackSecret<VTMF_CardSecret> a;
					is >> a;
					if (is.fail()) return 0;
					use_export(a);
					return 1;
				});
			}
		}
	}
	// plain integers
	{
		rnd(x, 300);
		Catalogue C = cat(sp);
		add(V, "mpz.istream", "v300", b62(x) + "\n", C, [](const std::string &in) {
			std::istringstream is(in);
			mpz_t a;
			mpz_init(a);
			is >> a;
			std::string s = b62(a);
			mpz_clear(a);
			return is.fail() ? 0 : 1;
		});
		add(V, "mpz.istream-two", "v300", b62(x) + "\n" + b62(x) + "\n", C, [](const std::string &in) {
			std::istringstream is(in);
			mpz_t a, b;
			mpz_init(a), mpz_init(b);
			is >> a >> b;
			std::string s = b62(a) + b62(b);
			mpz_clear(a), mpz_clear(b);
			return is.fail() ? 0 : 1;
		});
		add(V, "bigint.istream", "v300", b62(x) + "\n", C, [](const std::string &in) {
			std::istringstream is(in);
			TMCG_Bigint a;
			is >> a;
			std::ostringstream o;
			o << a;
			return is.fail() ? 0 : 1;
		});
	}
	mpz_clear(x);
}

// ------------------------------------------------------------------------------------------------ family: key
static std::string resign_key(const TMCG_SecretKey &sec, const std::string &prefix)
{
	// what TMCG_SecretKey::generate does for the self-signature: sign with an empty sig (key id "SELFSIG"), then
	// patch the key id derived from the signature itself
	TMCG_SecretKey tmp(sec);
	tmp.sig = "";
	std::string sig = tmp.sign(prefix);
	tmp.sig = sig;
	std::ostringstream repl;
	repl << "ID" << TMCG_KEYID_SIZE << "^";
	size_t at = sig.find(repl.str());
	if (at != std::string::npos)
		sig.replace(at, repl.str().length() + TMCG_KEYID_SIZE, tmp.keyid());
	return sig;
}

// take "pub|name|email|type|m|y|nizk|<anything>" and replace <anything> by a fresh valid self-signature (if it has that many fields)
static std::string repair_pub(const TMCG_SecretKey &sec, const std::string &in)
{
	size_t pos = 0;
	for (int i = 0; i < 7; i++)
	{
		pos = in.find('|', pos);
		if (pos == std::string::npos) return in;
		pos++;
	}
	size_t first = in.find('|') + 1;
	std::string prefix = in.substr(first, pos - first);
	return in.substr(0, pos) + resign_key(sec, prefix);
}

static int use_public(TMCG_PublicKey &pub)
{
	if (!pub.check()) return 0;
	(void)pub.fingerprint(), (void)pub.selfid(), (void)pub.keyid(), (void)pub.keyid(5);
	unsigned char msg[TMCG_SAEP_S0];
	memset(msg, 0x5a, sizeof msg);
	std::string e = pub.encrypt(msg);
	use_export(pub);
	return 1;
}

static void fam_key(std::vector<Target> &V)
{
	unsigned long bits = 704;
	TMCG_SecretKey sec("Alice", "alice@example.org", bits, true);
	TMCG_SecretKey sec0("Bob", "bob@example.org", bits, false);     // non-NIZK key: check() stops after the signature
	TMCG_PublicKey pub(sec), pub0(sec0);
	std::vector<std::string> sp;
	sp.push_back(b62(sec.m)), sp.push_back(b62(sec.p));
	Catalogue C = cat(sp, 0, 0);
	std::string pubs = exp_str(pub), secs = exp_str(sec), pub0s = exp_str(pub0), sec0s = exp_str(sec0);

	auto run_pub = [](const std::string &in) {
		TMCG_PublicKey k;
		if (!k.import(in)) return 0;
		return use_public(k);
	};
	auto run_sec = [](const std::string &in) {
		TMCG_SecretKey k;
		if (!k.import(in)) return 0;
		if (!k.check()) return 0;
		(void)k.fingerprint(), (void)k.keyid();
		use_export(k);
		// TMCG_SecretKey::check() validates the public part only: a file with p*q != m passes.  Signing with such a key is
		// outside C12 (and with a 70000-digit "p" it takes minutes), so the private operations are exercised only on
		// consistent keys.
		{
			mpz_t pq;
			mpz_init(pq);
			mpz_mul(pq, k.p, k.q);
			bool consistent = !mpz_cmp(pq, k.m) && mpz_sizeinbase(k.p, 2) <= TMCG_MAX_KEYBITS && mpz_sizeinbase(k.q, 2) <= TMCG_MAX_KEYBITS;
			mpz_clear(pq);
			if (!consistent) return 1;
		}
		std::string sig = k.sign("data to sign");
		if (!k.verify("data to sign", sig)) throw std::logic_error("own signature does not verify");
		unsigned char msg[TMCG_SAEP_S0], out[TMCG_SAEP_S0];
		memset(msg, 0x33, sizeof msg);
		std::string e = k.encrypt(msg);
		if (!k.decrypt(out, e)) throw std::logic_error("own ciphertext does not decrypt");
		use_export(k);
		return 1;
	};
	add(V, "pubkey.import-check", "nizk704", pubs, C, run_pub);
	add(V, "pubkey.import-check", "plain704", pub0s, cat(sp, 300, 2048), run_pub);
	add(V, "seckey.import-check", "nizk704", secs, C, run_sec);
	add(V, "seckey.import-check", "plain704", sec0s, cat(sp, 300, 2048), run_sec);
	{
		// a consistent key with negated modulus: m' = -m (self-signature valid because squaring is done mod |m|)
		std::string negm = "-" + b62(sec.m);
		std::string prefix = sec.name + "|" + sec.email + "|" + sec.type + "|" + negm + "|" + b62(sec.y) + "|" + sec.nizk + "|";
		std::string seed = "pub|" + prefix + resign_key(sec, prefix);
		// the fields up to the first STAGE1 proofs with the whole catalogue (cheap: the check stops in STAGE1) ...
		Catalogue Cf = C;
		Cf.field_limit = 14;
		add(V, "pubkey.import-check-resigned-head", "nizk704-negm", seed, Cf, [sec](const std::string &in) {
			TMCG_PublicKey k;
			if (!k.import(repair_pub(sec, in))) return 0;
			return use_public(k);
		}, false);
		V.back().keyname = "pubkey.import-check-resigned";
		// ... and every field, thinned
		add(V, "pubkey.import-check-resigned", "nizk704-negm", seed, C, [sec](const std::string &in) {
			TMCG_PublicKey k;
			if (!k.import(repair_pub(sec, in))) return 0;
			return use_public(k);
		}, false);
	}
	// the self-signature is repaired after the mutation, so the NIZK parser is reached with mutated proofs / fields
	add(V, "pubkey.import-check-resigned", "nizk704", pubs, C, [sec](const std::string &in) {
		TMCG_PublicKey k;
		if (!k.import(repair_pub(sec, in))) return 0;
		return use_public(k);
	});
	{
		Catalogue Cs = cat(sp, 0, 0);
		Cs.thorough = false;
		add(V, "pubkey.istream", "plain704", pub0s + "\n", Cs, [](const std::string &in) {
			std::istringstream is(in);
			TMCG_PublicKey k;
			is >> k;
			if (is.fail()) return 0;
			return use_public(k);
		});
		add(V, "seckey.istream", "plain704", sec0s + "\n", Cs, [](const std::string &in) {
			std::istringstream is(in);
			TMCG_SecretKey k;
			is >> k;
			if (is.fail()) return 0;
			return k.check() ? 1 : 0;
		});
	}
	// signatures and ciphertexts against valid keys
	{
		std::string data = "the signed data";
		std::string sig = sec.sign(data);
		unsigned char msg[TMCG_SAEP_S0];
		memset(msg, 0x42, sizeof msg);
		std::string enc = pub.encrypt(msg);
		Catalogue Cb = cat(sp, 400, 1024);
		add(V, "pubkey.verify", "sig704", sig, Cb, [pub, data](const std::string &in) {
			TMCG_PublicKey k(pub);
			(void)k.sigid(in);
			return k.verify(data, in) ? 1 : 0;
		});
		add(V, "seckey.decrypt", "enc704", enc, Cb, [sec](const std::string &in) {
			unsigned char out[TMCG_SAEP_S0];
			return sec.decrypt(out, in) ? 1 : 0;
		});
	}
}

// ------------------------------------------------------------------------------------------------ family: ctor
struct Grp { std::string p, q, g, k, h; };

template<class F> static void add_ctor(std::vector<Target> &V, const std::string &name, const std::string &seedname, const std::string &seed,
	const std::vector<std::string> &sp, F f, bool expect = true)
{
	add(V, name, seedname, seed, cat(sp, 300, 1500), f, expect);
}

static void fam_ctor(std::vector<Target> &V)
{
	const unsigned long FS = 192, GS = 128;
	BarnettSmartVTMF_dlog vtmf(FS, GS, true, true);
	if (!vtmf.CheckGroup()) { fprintf(stderr, "group generation failed\n"); exit(2); }
	vtmf.KeyGenerationProtocol_GenerateKey();
	vtmf.KeyGenerationProtocol_Finalize();
	mpz_t h, t;
	mpz_init(h), mpz_init(t);
	mpz_set(h, vtmf.h);
	Grp G;
	G.p = b62(vtmf.p), G.q = b62(vtmf.q), G.g = b62(vtmf.g), G.k = b62(vtmf.k), G.h = b62(h);
	std::vector<std::string> sp;
	sp.push_back(G.p), sp.push_back(G.q);
	mpz_sub_ui(t, vtmf.p, 1);
	sp.push_back(b62(t));
	const std::string nl = "\n";
	std::string negq = "-" + G.q, negk = "-" + G.k;

	// BarnettSmartVTMF_dlog: p q g k
	auto run_vtmf = [FS, GS](const std::string &in) {
		std::istringstream is(in);
		BarnettSmartVTMF_dlog v(is, FS, GS, true);
		if (!v.CheckGroup()) return 0;
		mpz_t a;
		mpz_init(a);
		v.RandomElement(a);
		int ok = v.CheckElement(a);
		v.IndexElement(a, 3);
		std::ostringstream o;
		v.PublishGroup(o);
		mpz_clear(a);
		return ok;
	};
	add_ctor(V, "vtmf.ctor", "g192", G.p + nl + G.q + nl + G.g + nl + G.k + nl, sp, run_vtmf);
	add_ctor(V, "vtmf.ctor", "g192-negqk", G.p + nl + negq + nl + G.g + nl + negk + nl, sp, run_vtmf, false);
	auto run_vtmf_nc = [FS, GS](const std::string &in) {
		std::istringstream is(in);
		BarnettSmartVTMF_dlog v(is, FS, GS, false, false);   // non-canonical g, no precomputation
		return v.CheckGroup() ? 1 : 0;
	};
	add_ctor(V, "vtmf.ctor-noprecomp", "g192", G.p + nl + G.q + nl + G.g + nl + G.k + nl, sp, run_vtmf_nc);
	{
		BarnettSmartVTMF_dlog_GroupQR qr(FS, GS);
		if (!qr.CheckGroup()) { fprintf(stderr, "QR group generation failed\n"); exit(2); }
		std::ostringstream o;
		qr.PublishGroup(o);
		std::vector<std::string> sq;
		sq.push_back(b62(qr.p)), sq.push_back(b62(qr.q));
		auto run_qr = [FS, GS](const std::string &in) {
			std::istringstream is(in);
			BarnettSmartVTMF_dlog_GroupQR v(is, FS, GS);
			if (!v.CheckGroup()) return 0;
			mpz_t a;
			mpz_init(a);
			v.RandomElement(a);
			int ok = v.CheckElement(a);
			v.MaskingValue(a);
			mpz_clear(a);
			return ok;
		};
		add_ctor(V, "vtmfqr.ctor", "g192", o.str(), sq, run_qr);
		add_ctor(V, "vtmfqr.ctor", "g192-negqk", b62(qr.p) + nl + "-" + b62(qr.q) + nl + b62(qr.g) + nl + "-" + b62(qr.k) + nl, sq, run_qr, false);
		// exponent size larger than the field (the GroupQR null-pointer defect F4 lived on this path)
		add_ctor(V, "vtmfqr.ctor-bigexp", "g192", o.str(), sq, [FS](const std::string &in) {
			std::istringstream is(in);
			BarnettSmartVTMF_dlog_GroupQR v(is, FS, 256);
			return v.CheckGroup() ? 1 : 0;
		}, false);
	}
	// Pedersen commitment (n generators): p q k h g_1..g_n
	const size_t N = 3;
	PedersenCommitmentScheme com(N, vtmf.p, vtmf.q, vtmf.k, h, FS, GS);
	std::ostringstream comgrp;
	com.PublishGroup(comgrp);
	std::string comgens;
	for (size_t i = 0; i < N; i++) comgens += b62(com.g[i]) + nl;
	std::string comneg = G.p + nl + negq + nl + negk + nl + G.h + nl + comgens;
	auto run_com = [N, FS, GS](const std::string &in) {
		std::istringstream is(in);
		PedersenCommitmentScheme c(N, is, FS, GS);
		if (!c.CheckGroup()) return 0;
		mpz_t a, b;
		mpz_init(a), mpz_init(b);
		std::vector<mpz_ptr> m;
		for (size_t i = 0; i < N; i++) { mpz_ptr t = new mpz_t(); mpz_init_set_ui(t, i + 5); m.push_back(t); }
		c.Commit(a, b, m);
		int ok = c.Verify(a, b, m) && c.TestMembership(a);
		mpz_clear(a), mpz_clear(b);
		return ok;
	};
	add_ctor(V, "pedcom.ctor", "n3", comgrp.str(), sp, run_com);
	add_ctor(V, "pedcom.ctor", "n3-negqk", comneg, sp, run_com, false);
	auto run_skc = [N, FS, GS](const std::string &in) {
		std::istringstream is(in);
		GrothSKC s(N, is, 32, FS, GS);
		if (!s.CheckGroup()) return 0;
		std::ostringstream o;
		s.PublishGroup(o);
		return 1;
	};
	add_ctor(V, "skc.ctor", "n3", comgrp.str(), sp, run_skc);
	add_ctor(V, "skc.ctor", "n3-negqk", comneg, sp, run_skc, false);
	auto run_vsshe = [N, FS, GS](const std::string &in) {
		std::istringstream is(in);
		GrothVSSHE s(N, is, 32, FS, GS);
		if (!s.CheckGroup()) return 0;
		std::ostringstream o;
		s.PublishGroup(o);
		return 1;
	};
	add_ctor(V, "vsshe.ctor", "n3", G.p + nl + G.q + nl + G.g + nl + G.h + nl + comgrp.str(), sp, run_vsshe);
	add_ctor(V, "vsshe.ctor", "n3-negqk", G.p + nl + negq + nl + G.g + nl + G.h + nl + comneg, sp, run_vsshe, false);
	auto run_vrhe = [FS, GS](const std::string &in) {
		std::istringstream is(in);
		HooghSchoenmakersSkoricVillegasVRHE s(is, FS, GS);
		if (!s.CheckGroup()) return 0;
		std::ostringstream o;
		s.PublishGroup(o);
		return s.CheckElement(s.g) ? 1 : 0;
	};
	add_ctor(V, "vrhe.ctor", "g192", G.p + nl + G.q + nl + G.g + nl + G.h + nl, sp, run_vrhe);
	add_ctor(V, "vrhe.ctor", "g192-negq", G.p + nl + negq + nl + G.g + nl + G.h + nl, sp, run_vrhe, false);
	auto run_eotp = [FS, GS](const std::string &in) {
		std::istringstream is(in);
		NaorPinkasEOTP s(is, FS, GS);
		if (!s.CheckGroup()) return 0;
		std::ostringstream o;
		s.PublishGroup(o);
		return s.CheckElement(s.g) ? 1 : 0;
	};
	add_ctor(V, "eotp.ctor", "g192", G.p + nl + G.q + nl + G.g + nl, sp, run_eotp);
	add_ctor(V, "eotp.ctor", "g192-negq", G.p + nl + negq + nl + G.g + nl, sp, run_eotp, false);
	{
		PedersenTrapdoorCommitmentScheme td(vtmf.p, vtmf.q, vtmf.k, vtmf.g, FS, GS);
		std::ostringstream o;
		td.PublishGroup(o);
		auto run_td = [FS, GS](const std::string &in) {
			std::istringstream is(in);
			PedersenTrapdoorCommitmentScheme s(is, FS, GS);
			if (!s.CheckGroup()) return 0;
			mpz_t c, r, m;
			mpz_init(c), mpz_init(r), mpz_init_set_ui(m, 42);
			s.Commit(c, r, m);
			int ok = s.Verify(c, r, m);
			mpz_clear(c), mpz_clear(r), mpz_clear(m);
			return ok;
		};
		add_ctor(V, "tdcom.ctor", "g192", o.str(), sp, run_td);
		std::vector<Field> F = split_fields(o.str(), "\n");
		if (F.size() >= 3)
		{
			// p q k ... : negate q and k consistently
			std::string s = o.str(), neg;
			for (size_t i = 0; i < F.size(); i++)
				neg += ((i == 1 || i == 2) ? "-" : "") + s.substr(F[i].beg, F[i].len) + nl;
			add_ctor(V, "tdcom.ctor", "g192-negqk", neg, sp, run_td, false);
		}
	}
	// state constructors (threshold protocols): fresh states published by the library itself
	{
		const size_t n = 3, tt = 1;
		PedersenVSS vss(n, tt, 0, vtmf.p, vtmf.q, vtmf.g, h, FS, GS, false);
		std::ostringstream o;
		vss.PublishState(o);
		add_ctor(V, "vss.ctor", "n3t1", o.str(), sp, [FS, GS](const std::string &in) {
			std::istringstream is(in);
			PedersenVSS s(is, FS, GS, false);
			if (!s.CheckGroup()) return 0;
			std::ostringstream o;
			s.PublishState(o);
			return 1;
		});
		GennaroJareckiKrawczykRabinDKG dkg(n, tt, 0, vtmf.p, vtmf.q, vtmf.g, h, FS, GS, true, false);
		std::ostringstream o2;
		dkg.PublishState(o2);
		add_ctor(V, "gjkr-dkg.ctor", "n3t1", o2.str(), sp, [FS, GS](const std::string &in) {
			std::istringstream is(in);
			GennaroJareckiKrawczykRabinDKG s(is, FS, GS, true, false);
			if (!s.CheckGroup()) return 0;
			std::ostringstream o;
			s.PublishState(o);
			std::ostringstream o3;
			s.PublishVerificationKeys(o3);
			return 1;
		});
		std::ostringstream o3;
		dkg.PublishVerificationKeys(o3);
		add_ctor(V, "gjkr-dkg.ctor", "n3t1-verificationkeys", o3.str(), sp, [FS, GS](const std::string &in) {
			std::istringstream is(in);
			GennaroJareckiKrawczykRabinDKG s(is, FS, GS, true, false);
			return s.CheckGroup() ? 1 : 0;
		});
		CanettiGennaroJareckiKrawczykRabinRVSS rvss(n, tt, 0, tt, vtmf.p, vtmf.q, vtmf.g, h, FS, GS, true, false);
		std::ostringstream o4;
		rvss.PublishState(o4);
		add_ctor(V, "cgjkr-rvss.ctor", "n3t1", o4.str(), sp, [FS, GS](const std::string &in) {
			std::istringstream is(in);
			CanettiGennaroJareckiKrawczykRabinRVSS s(is, FS, GS, true, false);
			if (!s.CheckGroup()) return 0;
			std::ostringstream o;
			s.PublishState(o);
			return 1;
		});
		CanettiGennaroJareckiKrawczykRabinZVSS zvss(n, tt, 0, tt, vtmf.p, vtmf.q, vtmf.g, h, FS, GS, true, false);
		std::ostringstream o5;
		zvss.PublishState(o5);
		add_ctor(V, "cgjkr-zvss.ctor", "n3t1", o5.str(), sp, [FS, GS](const std::string &in) {
			std::istringstream is(in);
			CanettiGennaroJareckiKrawczykRabinZVSS s(is, FS, GS, true, false);
			if (!s.CheckGroup()) return 0;
			std::ostringstream o;
			s.PublishState(o);
			return 1;
		});
		CanettiGennaroJareckiKrawczykRabinDKG cdkg(n, tt, 0, vtmf.p, vtmf.q, vtmf.g, h, FS, GS, true, false);
		std::ostringstream o6;
		cdkg.PublishState(o6);
		add_ctor(V, "cgjkr-dkg.ctor", "n3t1", o6.str(), sp, [FS, GS](const std::string &in) {
			std::istringstream is(in);
			CanettiGennaroJareckiKrawczykRabinDKG s(is, FS, GS, true, false);
			if (!s.CheckGroup()) return 0;
			std::ostringstream o;
			s.PublishState(o);
			return 1;
		});
		CanettiGennaroJareckiKrawczykRabinDSS dss(n, tt, 0, vtmf.p, vtmf.q, vtmf.g, h, FS, GS, true, false);
		std::ostringstream o7;
		dss.PublishState(o7);
		add_ctor(V, "cgjkr-dss.ctor", "n3t1", o7.str(), sp, [FS, GS](const std::string &in) {
			std::istringstream is(in);
			CanettiGennaroJareckiKrawczykRabinDSS s(is, FS, GS, true, false);
			if (!s.CheckGroup()) return 0;
			std::ostringstream o;
			s.PublishState(o);
			return 1;
		});
	}
	if (thorough)
	{
		// one default-size group (2048/256) so that size dependent paths (table length, buffer sizes) are inside the explored space
		BarnettSmartVTMF_dlog big(TMCG_DDH_SIZE, TMCG_DLSE_SIZE, false, true);
		std::ostringstream o;
		big.PublishGroup(o);
		std::vector<std::string> sb;
		sb.push_back(b62(big.p)), sb.push_back(b62(big.q));
		Catalogue Cb = cat(sb, 0, 0);
		add(V, "vtmf.ctor", "g2048", o.str(), Cb, [](const std::string &in) {
			std::istringstream is(in);
			BarnettSmartVTMF_dlog v(is);
			return v.CheckGroup() ? 1 : 0;
		});
	}
	mpz_clear(h), mpz_clear(t);
}

int main(int argc, char **argv)
{
	Args A = parse(argc, argv);
	Report rep(A);
	R = &rep;
	thorough = A.tier == "thorough";
	if (!init_libTMCG()) { fprintf(stderr, "init_libTMCG failed\n"); return 2; }
	mcenv::CoinSource cs(mcenv::env_seed(), 12);
	CS = &cs;
	mcenv::cur = &cs;
	Runner run(rep);
	RUN = &run;
	// every case starts from the same coin state and clock, whether it runs alone or inside a batch
	run.F.prologue = [&cs]() { cs.reset(mcenv::env_seed(), 99); mcenv::cur = &cs; mcenv::set_clock(1700000000); };
	std::string family = A.get("family", "import");
	std::vector<Target> V;
	{
		MuteCerr mute;
		if (family == "import") fam_import(V);
		else if (family == "key") fam_key(V);
		else if (family == "ctor") fam_ctor(V);
		else { fprintf(stderr, "unknown family %s\n", family.c_str()); return 2; }
	}
	std::string only_target = A.get("target", "");
	for (size_t i = 0; i < V.size(); i++)
	{
		if (!only_target.empty() && V[i].name != only_target) continue;
		if (!A.only.empty() && A.only.compare(0, V[i].name.size() + 1, V[i].name + "/") != 0) continue;
		run.run_target(V[i]);
		if (rep.out_of_time()) break;
	}
	rep.bound = "family " + family + ": " + str(V.size()) + " (target, seed) pairs, every field position x catalogue" + (thorough ? " (thorough)" : " (quick)");
	rep.counters["targets"] = rep.args.shard == 0 ? V.size() : 0;
	rep.finish();
	return run.machinery_errors ? 2 : 0;
}
