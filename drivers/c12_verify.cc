// C12 (part 2 of 3) — the receiving side of every verifier, fed with structure-aware mutations of an accepted
// prover transcript.  ASan+UBSan flavour, cases run in forked children (c12_common.hh).
//
// How a transcript is obtained: prover and verifier run the real protocol once over mc/wire (two threads); the lines the
// prover wrote are the seed.  The verifier's coins come from CoinSource(VERIF_SEED, 99), and every case starts from
// exactly that coin state, so replaying the unmutated lines into the verifier (a plain std::istringstream, its answers
// go to a std::ostringstream) reproduces the recorded challenges and is ACCEPTED — checked for every seed before its
// mutations are run.  All verifier-side objects are built fresh inside every case from published group/key strings.
//
// Enumerated (families, --family):
//   vtmf   : KeyGenerationProtocol_UpdateKey (NIZK), _RemoveKey, _VerifyKey_interactive, _VerifyKey_interactive_publiccoin,
//            VerifiableMaskingProtocol_Verify (CP), VerifiableRemaskingProtocol_Verify (CP), OR_Verify (both branches),
//            VerifiableDecryptionProtocol_Verify_Update, JareckiLysyanskayaEDCF::Flip_twoparty (both roles),
//            PedersenCommitmentScheme::Verify/TestMembership on wire values, NaorPinkasEOTP Send/Choose (1-of-2, 1-of-N, optimized)
//   tmcg   : SchindelhauerTMCG::TMCG_VerifyMaskCard, TMCG_VerifyCardSecret, TMCG_VerifyStackEquality (cut and choose,
//            cyclic and not) for both encodings (QR: k=2, w=3, 448-bit moduli; discrete log: 192/128-bit group)
//   shuffle: GrothSKC / GrothVSSHE Verify_interactive, _interactive_publiccoin, _noninteractive; Hoogh et al. VRHE the
//            same three; the SchindelhauerTMCG wrappers TMCG_VerifyStackEquality_Groth / _Groth_noninteractive / _Hoogh /
//            _Hoogh_noninteractive; and "with-statement" variants where (e, E) precede the proof on the same stream
//            (as in tests/t-vsshe.cc, t-vrhe.cc)
// Bounds: quick kappa=2, stacks of 3 cards, n=3 (shuffle); thorough adds kappa=4, stacks of 5, n=5.
// Mutations: every line / inner field: delete, duplicate, empty, non-digit, negated, 0, 1, count limits, p, q, 20000-bit,
//   over-long; truncation at every field; pairs of fields set to {0, 1, negated, p, q, p-1} within a window of 4 fields (the
//   combinations (0|1|p|q|p-1) x negated are never thinned);
//   byte level (truncate, flip bit 0/7) at every offset of transcripts <= 600 bytes (quick) / 4096 bytes (thorough).
// Oracle: outcome in {refused, accepted, std::exception}; anything else is a violation (see c12_common.hh).
#include "c12_common.hh"
#include "wire.hh"
#include <libTMCG.hh>
#include <memory>

using namespace drv;
using namespace c12;

static bool thorough;
static uint64_t SEED;
static const unsigned long FS = 192, GS = 128, LE = 32;

static std::string b62(mpz_srcptr z) { std::ostringstream o; o << z; return o.str(); }
template<class T> static std::string exp_str(const T &x) { std::ostringstream o; o << x; return o.str(); }

// run f with its own deterministic coin stream, then restore the caller's
template<class F> static void with_coins(uint64_t party, F f)
{
	mcenv::CoinSource c(SEED, party);
	mcenv::CoinSource *old = mcenv::cur;
	mcenv::cur = &c;
	f();
	mcenv::cur = old;
}

typedef std::function<bool(std::istream &, std::ostream &)> Role;

struct World {
	std::string grp;                 // p q g k lines
	std::string pubkey[2];           // KeyGenerationProtocol_PublishKey output of prover (0) / verifier (1)
	std::string p, q, g, k, h;
	std::vector<std::string> specials;
	std::string vsshe_grp, vrhe_grp; // stream constructor input for n generators
	size_t n;
};
static World W;

static BarnettSmartVTMF_dlog *mk_vtmf_nokeys()
{
	std::istringstream is(W.grp);
	return new BarnettSmartVTMF_dlog(is, FS, GS, true);
}
// role 0: prover, 1: verifier; `other` = add the other party's key (common key h = h_0 * h_1)
static BarnettSmartVTMF_dlog *mk_vtmf(int who, bool other = true)
{
	BarnettSmartVTMF_dlog *v = mk_vtmf_nokeys();
	with_coins(500 + who, [&]() { v->KeyGenerationProtocol_GenerateKey(); });
	if (other)
	{
		std::istringstream pk(W.pubkey[1 - who]);
		if (!v->KeyGenerationProtocol_UpdateKey(pk)) { fprintf(stderr, "harness: UpdateKey failed\n"); exit(2); }
	}
	v->KeyGenerationProtocol_Finalize();
	return v;
}

static void build_world(size_t n)
{
	with_coins(7, [&]() {
		BarnettSmartVTMF_dlog v(FS, GS, true, true);
		if (!v.CheckGroup()) { fprintf(stderr, "harness: group generation failed\n"); exit(2); }
		std::ostringstream o;
		v.PublishGroup(o);
		W.grp = o.str();
		W.p = b62(v.p), W.q = b62(v.q), W.g = b62(v.g), W.k = b62(v.k);
	});
	for (int who = 0; who < 2; who++)
	{
		std::unique_ptr<BarnettSmartVTMF_dlog> v(mk_vtmf(who, false));
		std::ostringstream o;
		with_coins(600 + who, [&]() { v->KeyGenerationProtocol_PublishKey(o); });
		W.pubkey[who] = o.str();
	}
	std::unique_ptr<BarnettSmartVTMF_dlog> v(mk_vtmf(1));
	W.h = b62(v->h);
	W.specials.clear();
	W.specials.push_back(W.p), W.specials.push_back(W.q);
	{
		mpz_t t;
		mpz_init(t);
		mpz_sub_ui(t, v->p, 1);
		W.specials.push_back(b62(t));   // p-1: the element of order 2
		mpz_clear(t);
	}
	W.n = n;
	with_coins(8, [&]() {
		GrothVSSHE vs(n, v->p, v->q, v->k, v->g, v->h, LE, FS, GS);
		if (!vs.CheckGroup()) { fprintf(stderr, "harness: VSSHE group failed\n"); exit(2); }
		std::ostringstream o;
		vs.PublishGroup(o);
		W.vsshe_grp = o.str();
		HooghSchoenmakersSkoricVillegasVRHE vr(v->p, v->q, v->g, v->h, FS, GS);
		if (!vr.CheckGroup()) { fprintf(stderr, "harness: VRHE group failed\n"); exit(2); }
		std::ostringstream o2;
		vr.PublishGroup(o2);
		W.vrhe_grp = o2.str();
	});
}
static GrothVSSHE *mk_vsshe()
{
	std::istringstream is(W.vsshe_grp);
	return new GrothVSSHE(W.n, is, LE, FS, GS);
}
static HooghSchoenmakersSkoricVillegasVRHE *mk_vrhe()
{
	std::istringstream is(W.vrhe_grp);
	return new HooghSchoenmakersSkoricVillegasVRHE(is, FS, GS);
}

// ------------------------------------------------------------------------------------------------ recording
static std::vector<Target> V;
static uint64_t harness_errors = 0;

static Catalogue cat(size_t byte_quick = 600, size_t byte_thorough = 4096)
{
	Catalogue c;
	c.thorough = thorough;
	c.specials = W.specials;
	c.byte_limit = thorough ? byte_thorough : byte_quick;
	c.pair_window = 4;
	c.pair_max_fields = thorough ? 400 : 40;
	return c;
}

// prover: role A; verifier: role B.  The verifier role is what every case re-runs on the mutated lines.
static std::string want_target, want_case, want_part, heavy_mode;
static bool wanted(const std::string &name)
{
	if (!want_target.empty() && name != want_target) return false;
	if (!want_case.empty() && want_case.compare(0, name.size() + 1, name + "/") != 0) return false;
	if (!want_part.empty() && name.compare(0, want_part.size(), want_part) != 0) return false;
	return true;
}

// structure-aware extras: every line of the transcript that carries a stack secret ("sts^...") is replaced by each of these
// well-formed secrets of another size / other card dimensions (what a malicious prover would send)
static std::vector<std::pair<std::string, std::string> > secret_extras;

static void add_protocol(const std::string &name, const std::string &seedname, const Role &prover, const Role &verifier,
	const std::string &prefix = "", const Catalogue *cp = NULL)
{
	if (!wanted(name))
		return;
	// the cut-and-choose verifiers read a stack secret with operator>> in every round (671 MB line buffer per call)
	bool heavy = name.find("VerifyStackEquality") != std::string::npos && name.find("Groth") == std::string::npos && name.find("Hoogh") == std::string::npos;
	if ((heavy && heavy_mode == "skip") || (!heavy && heavy_mode == "only"))
		return;
	wire::Duplex d;
	d.sh.wait_limit = 900.0;
	mcenv::CoinSource csA(SEED, 98), csB(SEED, 99);
	wire::Outcome o = wire::run2(d, [&](std::iostream &s) { return prover(s, s); }, [&](std::iostream &s) { return verifier(s, s); }, SEED, &csA, &csB);
	if (!o.b_ok || o.timeout || o.a_threw || o.b_threw)
	{
		printf("{\"t\":\"error\",\"what\":\"%s\"}\n", jesc("recording " + name + "/" + seedname + " failed: verifier=" + str(o.b_ok) + " timeout=" + str(o.timeout) +
			" threw=" + o.a_what + "/" + o.b_what).c_str());
		harness_errors++;
		return;
	}
	std::string seed = prefix;
	for (size_t i = 0; i < d.ab.sent.size(); i++) seed += d.ab.sent[i] + "\n";
	Target t;
	t.name = name, t.seedname = seedname, t.seed = seed, t.cat = cp ? *cp : cat();
	t.heavy = heavy;
	if (!secret_extras.empty() && seed.find("sts^") != std::string::npos)
	{
		std::vector<std::pair<std::string, std::string> > ex = secret_extras;
		Catalogue C = t.cat;
		std::string sd = seed;
		t.custom = [sd, ex, C](const std::function<void(const Mutation &)> &f) {
			// extras first (they are few and must not be thinned away by --stride: ids start with "x")
			std::vector<Field> L = split_fields(sd, "\n");
			Mutation m;
			m.have_ready = true;
			for (size_t i = 0; i < L.size(); i++)
			{
				if (sd.compare(L[i].beg, 4, "sts^") != 0) continue;
				for (size_t k = 0; k < ex.size(); k++)
				{
					m.id = "x" + str(i) + ":" + ex[k].first, m.cls = "secret-" + ex[k].first;
					m.ready = sd.substr(0, L[i].beg) + ex[k].second + sd.substr(L[i].beg + L[i].len);
					f(m);
				}
			}
			C.text(sd, f);
		};
	}
	t.run = [verifier](const std::string &in) {
		std::istringstream is(in);
		std::ostringstream os;
		return verifier(is, os) ? 1 : 0;
	};
	V.push_back(t);
}

static mpz_ptr mk(unsigned long v = 0) { mpz_ptr z = new mpz_t(); mpz_init_set_ui(z, v); return z; }
static void rd(std::istream &in, mpz_ptr z) { in >> z; }

// ------------------------------------------------------------------------------------------------ family: vtmf
static void fam_vtmf()
{
	// NIZK of the key: the verifier has only its own key so far
	add_protocol("vtmf.UpdateKey", "g192",
		[](std::istream &, std::ostream &out) { out << W.pubkey[0]; return true; },
		[](std::istream &in, std::ostream &) {
			std::unique_ptr<BarnettSmartVTMF_dlog> v(mk_vtmf(1, false));
			if (!v->KeyGenerationProtocol_UpdateKey(in)) return false;
			v->KeyGenerationProtocol_Finalize();
			return v->KeyGenerationProtocol_NumberOfKeys() == 1;
		});
	add_protocol("vtmf.RemoveKey", "g192",
		[](std::istream &, std::ostream &out) { out << W.pubkey[0]; return true; },
		[](std::istream &in, std::ostream &) {
			std::unique_ptr<BarnettSmartVTMF_dlog> v(mk_vtmf(1));
			if (!v->KeyGenerationProtocol_RemoveKey(in)) return false;
			return v->KeyGenerationProtocol_NumberOfKeys() == 0;
		});
	add_protocol("vtmf.VerifyKey_interactive", "g192",
		[](std::istream &in, std::ostream &out) {
			std::unique_ptr<BarnettSmartVTMF_dlog> v(mk_vtmf(0));
			return v->KeyGenerationProtocol_ProveKey_interactive(in, out);
		},
		[](std::istream &in, std::ostream &out) {
			std::unique_ptr<BarnettSmartVTMF_dlog> v(mk_vtmf(1)), pr(mk_vtmf(0));
			return v->KeyGenerationProtocol_VerifyKey_interactive(pr->h_i, in, out);
		});
	add_protocol("vtmf.VerifyKey_interactive_publiccoin", "g192",
		[](std::istream &in, std::ostream &out) {
			std::unique_ptr<BarnettSmartVTMF_dlog> v(mk_vtmf(0));
			JareckiLysyanskayaEDCF edcf(2, 0, v->p, v->q, v->g, v->h, FS, GS);
			return v->KeyGenerationProtocol_ProveKey_interactive_publiccoin(&edcf, in, out);
		},
		[](std::istream &in, std::ostream &out) {
			std::unique_ptr<BarnettSmartVTMF_dlog> v(mk_vtmf(1)), pr(mk_vtmf(0));
			JareckiLysyanskayaEDCF edcf(2, 0, v->p, v->q, v->g, v->h, FS, GS);
			return v->KeyGenerationProtocol_VerifyKey_interactive_publiccoin(pr->h_i, &edcf, in, out);
		});
	// coin flip on its own, both roles (party 0 speaks first)
	for (int role = 0; role < 2; role++)
	{
		Role a = [role](std::istream &in, std::ostream &out) {
			std::unique_ptr<BarnettSmartVTMF_dlog> v(mk_vtmf(0));
			JareckiLysyanskayaEDCF edcf(2, 0, v->p, v->q, v->g, v->h, FS, GS);
			mpz_t c;
			mpz_init(c);
			std::stringstream err;
			bool ok = edcf.Flip_twoparty(1 - role, c, in, out, err);
			mpz_clear(c);
			return ok;
		};
		Role b = [role](std::istream &in, std::ostream &out) {
			std::unique_ptr<BarnettSmartVTMF_dlog> v(mk_vtmf(1));
			JareckiLysyanskayaEDCF edcf(2, 0, v->p, v->q, v->g, v->h, FS, GS);
			if (!edcf.CheckGroup()) return false;
			mpz_t c;
			mpz_init(c);
			std::stringstream err;
			bool ok = edcf.Flip_twoparty(role, c, in, out, err);
			mpz_clear(c);
			return ok;
		};
		add_protocol("edcf.Flip_twoparty", "role" + str(role), a, b);
	}
	// masking / re-masking / decryption proofs (Chaum-Pedersen), OR proof
	{
		// statement values are computed once with the prover's coins and shared by both roles
		std::string m_s, c1_s, c2_s, r_s, cc1_s, cc2_s, rr_s;
		with_coins(20, [&]() {
			std::unique_ptr<BarnettSmartVTMF_dlog> v(mk_vtmf(0));
			mpz_t m, c1, c2, r, cc1, cc2, rr;
			mpz_init(m), mpz_init(c1), mpz_init(c2), mpz_init(r), mpz_init(cc1), mpz_init(cc2), mpz_init(rr);
			v->IndexElement(m, 5);
			v->VerifiableMaskingProtocol_Mask(m, c1, c2, r);
			v->VerifiableRemaskingProtocol_Mask(c1, c2, cc1, cc2, rr);
			m_s = b62(m), c1_s = b62(c1), c2_s = b62(c2), r_s = b62(r), cc1_s = b62(cc1), cc2_s = b62(cc2), rr_s = b62(rr);
			mpz_clear(m), mpz_clear(c1), mpz_clear(c2), mpz_clear(r), mpz_clear(cc1), mpz_clear(cc2), mpz_clear(rr);
		});
		auto set = [](mpz_ptr z, const std::string &s) { mpz_set_str(z, s.c_str(), TMCG_MPZ_IO_BASE); };
		add_protocol("vtmf.Masking_Verify", "g192",
			[=](std::istream &, std::ostream &out) {
				std::unique_ptr<BarnettSmartVTMF_dlog> v(mk_vtmf(0));
				mpz_t m, c1, c2, r;
				mpz_init(m), mpz_init(c1), mpz_init(c2), mpz_init(r);
				set(m, m_s), set(c1, c1_s), set(c2, c2_s), set(r, r_s);
				v->VerifiableMaskingProtocol_Prove(m, c1, c2, r, out);
				mpz_clear(m), mpz_clear(c1), mpz_clear(c2), mpz_clear(r);
				return true;
			},
			[=](std::istream &in, std::ostream &) {
				std::unique_ptr<BarnettSmartVTMF_dlog> v(mk_vtmf(1));
				mpz_t m, c1, c2;
				mpz_init(m), mpz_init(c1), mpz_init(c2);
				set(m, m_s), set(c1, c1_s), set(c2, c2_s);
				bool ok = v->VerifiableMaskingProtocol_Verify(m, c1, c2, in);
				mpz_clear(m), mpz_clear(c1), mpz_clear(c2);
				return ok;
			});
		add_protocol("vtmf.Remasking_Verify", "g192",
			[=](std::istream &, std::ostream &out) {
				std::unique_ptr<BarnettSmartVTMF_dlog> v(mk_vtmf(0));
				mpz_t c1, c2, cc1, cc2, rr;
				mpz_init(c1), mpz_init(c2), mpz_init(cc1), mpz_init(cc2), mpz_init(rr);
				set(c1, c1_s), set(c2, c2_s), set(cc1, cc1_s), set(cc2, cc2_s), set(rr, rr_s);
				v->VerifiableRemaskingProtocol_Prove(c1, c2, cc1, cc2, rr, out);
				mpz_clear(c1), mpz_clear(c2), mpz_clear(cc1), mpz_clear(cc2), mpz_clear(rr);
				return true;
			},
			[=](std::istream &in, std::ostream &) {
				std::unique_ptr<BarnettSmartVTMF_dlog> v(mk_vtmf(1));
				mpz_t c1, c2, cc1, cc2;
				mpz_init(c1), mpz_init(c2), mpz_init(cc1), mpz_init(cc2);
				set(c1, c1_s), set(c2, c2_s), set(cc1, cc1_s), set(cc2, cc2_s);
				bool ok = v->VerifiableRemaskingProtocol_Verify(c1, c2, cc1, cc2, in);
				mpz_clear(c1), mpz_clear(c2), mpz_clear(cc1), mpz_clear(cc2);
				return ok;
			});
		add_protocol("vtmf.Decryption_Verify_Update", "g192",
			[=](std::istream &, std::ostream &out) {
				std::unique_ptr<BarnettSmartVTMF_dlog> v(mk_vtmf(0));
				mpz_t c1;
				mpz_init(c1);
				set(c1, c1_s);
				v->VerifiableDecryptionProtocol_Prove(c1, out);
				mpz_clear(c1);
				return true;
			},
			[=](std::istream &in, std::ostream &) {
				std::unique_ptr<BarnettSmartVTMF_dlog> v(mk_vtmf(1));
				mpz_t c1, c2, m, m0;
				mpz_init(c1), mpz_init(c2), mpz_init(m), mpz_init(m0);
				set(c1, c1_s), set(c2, c2_s), set(m0, m_s);
				v->VerifiableDecryptionProtocol_Verify_Initialize(c1);
				bool ok = v->VerifiableDecryptionProtocol_Verify_Update(c1, in);
				if (ok)
				{
					v->VerifiableDecryptionProtocol_Verify_Finalize(c2, m);
					if (mpz_cmp(m, m0)) ok = false;
				}
				mpz_clear(c1), mpz_clear(c2), mpz_clear(m), mpz_clear(m0);
				return ok;
			});
		for (int branch = 0; branch < 2; branch++)
		{
			// y_1 = g^a or y_2 = h^a
			std::string y1_s, y2_s, a_s;
			with_coins(30 + branch, [&]() {
				std::unique_ptr<BarnettSmartVTMF_dlog> v(mk_vtmf(0));
				mpz_t a, y1, y2;
				mpz_init(a), mpz_init(y1), mpz_init(y2);
				tmcg_mpz_wrandomm(a, v->q);
				if (branch == 0) { mpz_powm(y1, v->g, a, v->p); mpz_powm_ui(y2, v->h, 42, v->p); }
				else { mpz_powm_ui(y1, v->g, 42, v->p); mpz_powm(y2, v->h, a, v->p); }
				a_s = b62(a), y1_s = b62(y1), y2_s = b62(y2);
				mpz_clear(a), mpz_clear(y1), mpz_clear(y2);
			});
			add_protocol("vtmf.OR_Verify", branch ? "second" : "first",
				[=](std::istream &, std::ostream &out) {
					std::unique_ptr<BarnettSmartVTMF_dlog> v(mk_vtmf(0));
					mpz_t a, y1, y2;
					mpz_init(a), mpz_init(y1), mpz_init(y2);
					set(a, a_s), set(y1, y1_s), set(y2, y2_s);
					if (branch == 0) v->OR_ProveFirst(y1, y2, v->g, v->h, a, out);
					else v->OR_ProveSecond(y1, y2, v->g, v->h, a, out);
					mpz_clear(a), mpz_clear(y1), mpz_clear(y2);
					return true;
				},
				[=](std::istream &in, std::ostream &) {
					std::unique_ptr<BarnettSmartVTMF_dlog> v(mk_vtmf(1));
					mpz_t y1, y2;
					mpz_init(y1), mpz_init(y2);
					set(y1, y1_s), set(y2, y2_s);
					bool ok = v->OR_Verify(y1, y2, v->g, v->h, in);
					mpz_clear(y1), mpz_clear(y2);
					return ok;
				});
		}
	}
	// Pedersen commitment opened over the wire: c, r, m_1..m_n
	{
		const size_t n = W.n;
		add_protocol("pedcom.Verify", "n" + str(n),
			[n](std::istream &, std::ostream &out) {
				std::unique_ptr<GrothVSSHE> vs(mk_vsshe());
				mpz_t c, r;
				mpz_init(c), mpz_init(r);
				std::vector<mpz_ptr> m;
				for (size_t i = 0; i < n; i++) m.push_back(mk(i + 3));
				vs->com->Commit(c, r, m);
				out << c << std::endl << r << std::endl;
				for (size_t i = 0; i < n; i++) out << m[i] << std::endl;
				mpz_clear(c), mpz_clear(r);
				return true;
			},
			[n](std::istream &in, std::ostream &) {
				std::unique_ptr<GrothVSSHE> vs(mk_vsshe());
				mpz_t c, r;
				mpz_init(c), mpz_init(r);
				std::vector<mpz_ptr> m;
				for (size_t i = 0; i < n; i++) m.push_back(mk());
				in >> c >> r;
				for (size_t i = 0; i < n; i++) rd(in, m[i]);
				bool ok = in.good() && vs->com->TestMembership(c) && vs->com->Verify(c, r, m);
				mpz_clear(c), mpz_clear(r);
				return ok;
			});
	}
	// oblivious transfer: both parties consume the other's messages
	{
		std::string eotp_grp = W.p + "\n" + W.q + "\n" + W.g + "\n";
		auto mk_eotp = [eotp_grp]() { std::istringstream is(eotp_grp); return new NaorPinkasEOTP(is, FS, GS); };
		auto sender2 = [mk_eotp](std::istream &in, std::ostream &out) {
			std::unique_ptr<NaorPinkasEOTP> e(mk_eotp());
			mpz_t m0, m1;
			mpz_init_set_ui(m0, 1234567), mpz_init_set_ui(m1, 7654321);
			bool ok = e->Send_interactive_OneOutOfTwo(m0, m1, in, out);
			mpz_clear(m0), mpz_clear(m1);
			return ok;
		};
		auto chooser2 = [mk_eotp](std::istream &in, std::ostream &out) {
			std::unique_ptr<NaorPinkasEOTP> e(mk_eotp());
			if (!e->CheckGroup()) return false;
			mpz_t m;
			mpz_init(m);
			bool ok = e->Choose_interactive_OneOutOfTwo(1, m, in, out) && !mpz_cmp_ui(m, 7654321);
			mpz_clear(m);
			return ok;
		};
		add_protocol("eotp.Choose_OneOutOfTwo", "g192", sender2, chooser2);
		add_protocol("eotp.Send_OneOutOfTwo", "g192", chooser2, sender2);
		for (int opt = 0; opt < 2; opt++)
		{
			auto senderN = [mk_eotp, opt](std::istream &in, std::ostream &out) {
				std::unique_ptr<NaorPinkasEOTP> e(mk_eotp());
				std::vector<mpz_ptr> M;
				for (size_t i = 0; i < 4; i++) M.push_back(mk(1000 + i));
				return opt ? e->Send_interactive_OneOutOfN_optimized(M, in, out) : e->Send_interactive_OneOutOfN(M, in, out);
			};
			auto chooserN = [mk_eotp, opt](std::istream &in, std::ostream &out) {
				std::unique_ptr<NaorPinkasEOTP> e(mk_eotp());
				mpz_t m;
				mpz_init(m);
				bool ok = (opt ? e->Choose_interactive_OneOutOfN_optimized(2, 4, m, in, out) : e->Choose_interactive_OneOutOfN(2, 4, m, in, out)) &&
					!mpz_cmp_ui(m, 1002);
				mpz_clear(m);
				return ok;
			};
			add_protocol(std::string("eotp.Choose_OneOutOfN") + (opt ? "_optimized" : ""), "N4", senderN, chooserN);
			add_protocol(std::string("eotp.Send_OneOutOfN") + (opt ? "_optimized" : ""), "N4", chooserN, senderN);
		}
	}
}

// ------------------------------------------------------------------------------------------------ family: tmcg
struct QRWorld {
	std::string sec[2], pub[2];
};
static QRWorld Q;

static void fam_tmcg()
{
	std::vector<unsigned long> kappas;
	kappas.push_back(2);
	if (thorough) kappas.push_back(4);
	const size_t K = 2, Wb = 3;
	with_coins(40, [&]() {
		for (int i = 0; i < 2; i++)
		{
			TMCG_SecretKey s(i ? "Bob" : "Alice", i ? "bob@example.org" : "alice@example.org", 448, false);
			TMCG_PublicKey p(s);
			Q.sec[i] = exp_str(s), Q.pub[i] = exp_str(p);
		}
	});
	auto ring = []() {
		TMCG_PublicKeyRing *r = new TMCG_PublicKeyRing(2);
		for (int i = 0; i < 2; i++) if (!r->keys[i].import(Q.pub[i])) { fprintf(stderr, "harness: key import\n"); exit(2); }
		return r;
	};
	for (size_t ki = 0; ki < kappas.size(); ki++)
	{
		unsigned long kappa = kappas[ki];
		std::string kn = "kappa" + str(kappa);
		std::vector<size_t> sizes;
		sizes.push_back(3);
		if (thorough && ki == 0) sizes.push_back(5);
		// ---------------- quadratic residuosity encoding
		{
			// one private card of player 0 (prover) and a masked copy
			std::string c_s, cs_s, cc_s, ccs_s;
			with_coins(41, [&]() {
				std::unique_ptr<TMCG_PublicKeyRing> r(ring());
				SchindelhauerTMCG t(kappa, K, Wb);
				TMCG_Card c(K, Wb), cc(K, Wb);
				TMCG_CardSecret cs(K, Wb), ccs(K, Wb);
				t.TMCG_CreatePrivateCard(c, cs, *r, 0, 5);
				t.TMCG_CreateCardSecret(ccs, *r, 0);
				t.TMCG_MaskCard(c, cc, ccs, *r);
				c_s = exp_str(c), cs_s = exp_str(cs), cc_s = exp_str(cc), ccs_s = exp_str(ccs);
			});
			add_protocol("tmcg-qr.VerifyMaskCard", kn,
				[=](std::istream &in, std::ostream &out) {
					std::unique_ptr<TMCG_PublicKeyRing> r(ring());
					SchindelhauerTMCG t(kappa, K, Wb);
					TMCG_Card c, cc;
					TMCG_CardSecret ccs;
					c.import(c_s), cc.import(cc_s), ccs.import(ccs_s);
					t.TMCG_ProveMaskCard(c, cc, ccs, *r, in, out);
					return true;
				},
				[=](std::istream &in, std::ostream &out) {
					std::unique_ptr<TMCG_PublicKeyRing> r(ring());
					SchindelhauerTMCG t(kappa, K, Wb);
					TMCG_Card c, cc;
					c.import(c_s), cc.import(cc_s);
					return t.TMCG_VerifyMaskCard(c, cc, *r, in, out);
				});
			add_protocol("tmcg-qr.VerifyCardSecret", kn,
				[=](std::istream &in, std::ostream &out) {
					SchindelhauerTMCG t(kappa, K, Wb);
					TMCG_SecretKey sk;
					sk.import(Q.sec[0]);
					TMCG_Card cc;
					cc.import(cc_s);
					t.TMCG_ProveCardSecret(cc, sk, 0, in, out);
					return true;
				},
				[=](std::istream &in, std::ostream &out) {
					std::unique_ptr<TMCG_PublicKeyRing> r(ring());
					SchindelhauerTMCG t(kappa, K, Wb);
					TMCG_Card cc;
					cc.import(cc_s);
					TMCG_CardSecret cs(K, Wb);
					TMCG_SecretKey sk;
					sk.import(Q.sec[1]);
					t.TMCG_SelfCardSecret(cc, cs, sk, 1);
					if (!t.TMCG_VerifyCardSecret(cc, cs, r->keys[0], 0, in, out)) return false;
					return t.TMCG_TypeOfCard(cs) == 5;
				});
			secret_extras.clear();
			with_coins(49, [&]() {
				std::unique_ptr<TMCG_PublicKeyRing> r(ring());
				SchindelhauerTMCG t(kappa, K, Wb);
				size_t alt[] = { 1, 2, 4, 6 };
				for (size_t a = 0; a < 4; a++)
				{
					TMCG_StackSecret<TMCG_CardSecret> x;
					t.TMCG_CreateStackSecret(x, false, *r, 0, alt[a]);
					secret_extras.push_back(std::make_pair("size" + str(alt[a]), exp_str(x)));
				}
				// right size (3), wrong card dimensions
				TMCG_StackSecret<TMCG_CardSecret> y, z;
				for (size_t i = 0; i < 3; i++)
				{
					TMCG_CardSecret c1(K + 1, Wb), c2(K, Wb + 1), c3(1, 1);
					y.push(i, i == 1 ? c1 : c3), z.push(i, c2);
				}
				secret_extras.push_back(std::make_pair("dim-mixed", exp_str(y)));
				secret_extras.push_back(std::make_pair("dim-w+1", exp_str(z)));
			});
			for (size_t zi = 0; zi < sizes.size(); zi++)
			for (int cyclic = 0; cyclic < 2; cyclic++)
			{
				size_t n = sizes[zi];
				std::string s_s, s2_s, ss_s;
				with_coins(42 + cyclic, [&]() {
					std::unique_ptr<TMCG_PublicKeyRing> r(ring());
					SchindelhauerTMCG t(kappa, K, Wb);
					TMCG_Stack<TMCG_Card> s, s2;
					TMCG_StackSecret<TMCG_CardSecret> ss;
					for (size_t i = 0; i < n; i++)
					{
						TMCG_Card c(K, Wb);
						t.TMCG_CreateOpenCard(c, *r, i);
						s.push(c);
					}
					t.TMCG_CreateStackSecret(ss, cyclic != 0, *r, 0, n);
					t.TMCG_MixStack(s, s2, ss, *r);
					s_s = exp_str(s), s2_s = exp_str(s2), ss_s = exp_str(ss);
				});
				std::string sn = kn + "n" + str(n) + (cyclic ? "cyclic" : "");
				Role prover = [=](std::istream &in, std::ostream &out) {
					std::unique_ptr<TMCG_PublicKeyRing> r(ring());
					SchindelhauerTMCG t(kappa, K, Wb);
					TMCG_Stack<TMCG_Card> s, s2;
					TMCG_StackSecret<TMCG_CardSecret> ss;
					s.import(s_s), s2.import(s2_s), ss.import(ss_s);
					t.TMCG_ProveStackEquality(s, s2, ss, cyclic != 0, *r, 0, in, out);
					return true;
				};
				add_protocol("tmcg-qr.VerifyStackEquality", sn, prover,
					[=](std::istream &in, std::ostream &out) {
						std::unique_ptr<TMCG_PublicKeyRing> r(ring());
						SchindelhauerTMCG t(kappa, K, Wb);
						TMCG_Stack<TMCG_Card> s, s2;
						s.import(s_s), s2.import(s2_s);
						return t.TMCG_VerifyStackEquality(s, s2, cyclic != 0, *r, in, out);
					});
				if (zi == 0 && cyclic == 0)
				{
					// the call sequence of tests/t-tmcg.cc: the shuffled stack arrives on the same stream, then the proof
					Catalogue C = cat(0, 0);
					add_protocol("tmcg-qr.flow-stack-then-VerifyStackEquality", sn,
						[=](std::istream &in, std::ostream &out) { out << s2_s << std::endl; return prover(in, out); },
						[=](std::istream &in, std::ostream &out) {
							std::unique_ptr<TMCG_PublicKeyRing> r(ring());
							SchindelhauerTMCG t(kappa, K, Wb);
							TMCG_Stack<TMCG_Card> s, s2;
							s.import(s_s);
							std::string line;   // operator>> would allocate a 671 MB line buffer per call; same parser
							if (!std::getline(in, line) || !s2.import(line)) return false;
							return t.TMCG_VerifyStackEquality(s, s2, false, *r, in, out);
						}, "", &C);
				}
			}
		}
		// ---------------- discrete logarithm encoding
		{
			std::string c_s, cc_s, ccs_s;
			with_coins(45, [&]() {
				std::unique_ptr<BarnettSmartVTMF_dlog> v(mk_vtmf(0));
				SchindelhauerTMCG t(kappa, K, Wb);
				VTMF_Card c, cc;
				VTMF_CardSecret cs, ccs;
				t.TMCG_CreatePrivateCard(c, cs, v.get(), 5);
				t.TMCG_CreateCardSecret(ccs, v.get());
				t.TMCG_MaskCard(c, cc, ccs, v.get());
				c_s = exp_str(c), cc_s = exp_str(cc), ccs_s = exp_str(ccs);
			});
			if (ki == 0)
			{
				add_protocol("tmcg-vtmf.VerifyMaskCard", kn,
					[=](std::istream &in, std::ostream &out) {
						std::unique_ptr<BarnettSmartVTMF_dlog> v(mk_vtmf(0));
						SchindelhauerTMCG t(kappa, K, Wb);
						VTMF_Card c, cc;
						VTMF_CardSecret ccs;
						c.import(c_s), cc.import(cc_s), ccs.import(ccs_s);
						t.TMCG_ProveMaskCard(c, cc, ccs, v.get(), in, out);
						return true;
					},
					[=](std::istream &in, std::ostream &out) {
						std::unique_ptr<BarnettSmartVTMF_dlog> v(mk_vtmf(1));
						SchindelhauerTMCG t(kappa, K, Wb);
						VTMF_Card c, cc;
						c.import(c_s), cc.import(cc_s);
						return t.TMCG_VerifyMaskCard(c, cc, v.get(), in, out);
					});
				add_protocol("tmcg-vtmf.VerifyCardSecret", kn,
					[=](std::istream &in, std::ostream &out) {
						std::unique_ptr<BarnettSmartVTMF_dlog> v(mk_vtmf(0));
						SchindelhauerTMCG t(kappa, K, Wb);
						VTMF_Card cc;
						cc.import(cc_s);
						t.TMCG_ProveCardSecret(cc, v.get(), in, out);
						return true;
					},
					[=](std::istream &in, std::ostream &out) {
						std::unique_ptr<BarnettSmartVTMF_dlog> v(mk_vtmf(1));
						SchindelhauerTMCG t(kappa, K, Wb);
						VTMF_Card cc;
						cc.import(cc_s);
						t.TMCG_SelfCardSecret(cc, v.get());
						if (!t.TMCG_VerifyCardSecret(cc, v.get(), in, out)) return false;
						return t.TMCG_TypeOfCard(cc, v.get()) == 5;
					});
			}
			secret_extras.clear();
			with_coins(50, [&]() {
				std::unique_ptr<BarnettSmartVTMF_dlog> v(mk_vtmf(0));
				SchindelhauerTMCG t(kappa, K, Wb);
				size_t alt[] = { 1, 2, 4, 6 };
				for (size_t a = 0; a < 4; a++)
				{
					TMCG_StackSecret<VTMF_CardSecret> x;
					t.TMCG_CreateStackSecret(x, false, alt[a], v.get());
					secret_extras.push_back(std::make_pair("size" + str(alt[a]), exp_str(x)));
				}
			});
			for (size_t zi = 0; zi < sizes.size(); zi++)
			for (int cyclic = 0; cyclic < 2; cyclic++)
			{
				size_t n = sizes[zi];
				std::string s_s, s2_s, ss_s;
				with_coins(46 + cyclic, [&]() {
					std::unique_ptr<BarnettSmartVTMF_dlog> v(mk_vtmf(0));
					SchindelhauerTMCG t(kappa, K, Wb);
					TMCG_Stack<VTMF_Card> s, s2;
					TMCG_StackSecret<VTMF_CardSecret> ss;
					for (size_t i = 0; i < n; i++)
					{
						VTMF_Card c;
						t.TMCG_CreateOpenCard(c, v.get(), i);
						s.push(c);
					}
					t.TMCG_CreateStackSecret(ss, cyclic != 0, n, v.get());
					t.TMCG_MixStack(s, s2, ss, v.get());
					s_s = exp_str(s), s2_s = exp_str(s2), ss_s = exp_str(ss);
				});
				std::string sn = kn + "n" + str(n) + (cyclic ? "cyclic" : "");
				Role prover = [=](std::istream &in, std::ostream &out) {
					std::unique_ptr<BarnettSmartVTMF_dlog> v(mk_vtmf(0));
					SchindelhauerTMCG t(kappa, K, Wb);
					TMCG_Stack<VTMF_Card> s, s2;
					TMCG_StackSecret<VTMF_CardSecret> ss;
					s.import(s_s), s2.import(s2_s), ss.import(ss_s);
					t.TMCG_ProveStackEquality(s, s2, ss, cyclic != 0, v.get(), in, out);
					return true;
				};
				add_protocol("tmcg-vtmf.VerifyStackEquality", sn, prover,
					[=](std::istream &in, std::ostream &out) {
						std::unique_ptr<BarnettSmartVTMF_dlog> v(mk_vtmf(1));
						SchindelhauerTMCG t(kappa, K, Wb);
						TMCG_Stack<VTMF_Card> s, s2;
						s.import(s_s), s2.import(s2_s);
						return t.TMCG_VerifyStackEquality(s, s2, cyclic != 0, v.get(), in, out);
					});
				if (zi == 0 && cyclic == 0)
				{
					Catalogue C = cat(0, 0);
					add_protocol("tmcg-vtmf.flow-stack-then-VerifyStackEquality", sn,
						[=](std::istream &in, std::ostream &out) { out << s2_s << std::endl; return prover(in, out); },
						[=](std::istream &in, std::ostream &out) {
							std::unique_ptr<BarnettSmartVTMF_dlog> v(mk_vtmf(1));
							SchindelhauerTMCG t(kappa, K, Wb);
							TMCG_Stack<VTMF_Card> s, s2;
							s.import(s_s);
							std::string line;
							if (!std::getline(in, line) || !s2.import(line)) return false;
							return t.TMCG_VerifyStackEquality(s, s2, false, v.get(), in, out);
						}, "", &C);
				}
			}
		}
	}
}

// ------------------------------------------------------------------------------------------------ family: shuffle
struct Stmt {   // a shuffle / rotation statement in the discrete-log encoding
	std::vector<std::string> e1, e2, E1, E2, R;
	std::vector<size_t> pi;
	size_t r;
};

static void make_stmt(Stmt &S, size_t n, bool rotation, uint64_t coins)
{
	with_coins(coins, [&]() {
		std::unique_ptr<BarnettSmartVTMF_dlog> v(mk_vtmf(0));
		S.pi.clear();
		S.r = 0;
		if (rotation)
		{
			size_t r = (size_t)tmcg_mpz_srandom_mod(n);
			for (size_t i = 0; i < n; i++) S.pi.push_back((r + i) % n);
			S.r = (n - r) % n;
		}
		else
		{
			for (size_t i = 0; i < n; i++) S.pi.push_back(i);
			for (size_t i = 0; i + 1 < n; i++) std::swap(S.pi[i], S.pi[i + (size_t)tmcg_mpz_srandom_mod(n - i)]);
		}
		std::vector<mpz_ptr> e1, e2;
		mpz_t R, a, b;
		mpz_init(R), mpz_init(a), mpz_init(b);
		for (size_t i = 0; i < n; i++)
		{
			e1.push_back(mk(1)), e2.push_back(mk());
			mpz_powm_ui(e2[i], v->h, i + 1, v->p);
			S.e1.push_back(b62(e1[i])), S.e2.push_back(b62(e2[i]));
		}
		for (size_t i = 0; i < n; i++)
		{
			tmcg_mpz_srandomm(R, v->q);
			mpz_powm(a, v->g, R, v->p), mpz_mul(a, a, e1[S.pi[i]]), mpz_mod(a, a, v->p);
			mpz_powm(b, v->h, R, v->p), mpz_mul(b, b, e2[S.pi[i]]), mpz_mod(b, b, v->p);
			S.E1.push_back(b62(a)), S.E2.push_back(b62(b)), S.R.push_back(b62(R));
		}
		mpz_clear(R), mpz_clear(a), mpz_clear(b);
	});
}
typedef std::vector<std::pair<mpz_ptr, mpz_ptr> > PairVec;
static void load_pairs(const std::vector<std::string> &a, const std::vector<std::string> &b, PairVec &out)
{
	for (size_t i = 0; i < a.size(); i++)
	{
		mpz_ptr x = mk(), y = mk();
		mpz_set_str(x, a[i].c_str(), TMCG_MPZ_IO_BASE), mpz_set_str(y, b[i].c_str(), TMCG_MPZ_IO_BASE);
		out.push_back(std::make_pair(x, y));
	}
}
static void load_vec(const std::vector<std::string> &a, std::vector<mpz_ptr> &out)
{
	for (size_t i = 0; i < a.size(); i++)
	{
		mpz_ptr x = mk();
		mpz_set_str(x, a[i].c_str(), TMCG_MPZ_IO_BASE);
		out.push_back(x);
	}
}
static std::string stmt_lines(const Stmt &S)
{
	std::string s;
	for (size_t i = 0; i < S.e1.size(); i++) s += S.e1[i] + "\n" + S.e2[i] + "\n" + S.E1[i] + "\n" + S.E2[i] + "\n";
	return s;
}
static bool read_pairs(std::istream &in, size_t n, PairVec &e, PairVec &E)
{
	for (size_t i = 0; i < n; i++)
	{
		mpz_ptr a = mk(), b = mk(), c = mk(), d = mk();
		e.push_back(std::make_pair(a, b)), E.push_back(std::make_pair(c, d));
		in >> a >> b >> c >> d;
	}
	return in.good();
}

static void fam_shuffle()
{
	secret_extras.clear();
	const size_t n = W.n;
	std::string nn = "n" + str(n);
	// ---- SKC: commitment to a permutation of known messages
	{
		std::vector<size_t> pi;
		std::string c_s, r_s;
		with_coins(60, [&]() {
			std::unique_ptr<GrothVSSHE> vs(mk_vsshe());
			for (size_t i = 0; i < n; i++) pi.push_back((i + 1) % n);
			std::vector<mpz_ptr> m_pi;
			for (size_t i = 0; i < n; i++) m_pi.push_back(mk(pi[i] + 10));
			mpz_t c, r;
			mpz_init(c), mpz_init(r);
			vs->com->Commit(c, r, m_pi);
			c_s = b62(c), r_s = b62(r);
			mpz_clear(c), mpz_clear(r);
		});
		for (int mode = 0; mode < 3; mode++)
		for (int opt = 0; opt < 2; opt++)
		{
			if (opt == 0 && mode != 2 && !thorough) continue;
			static const char *mn[] = { "interactive", "interactive_publiccoin", "noninteractive" };
			add_protocol(std::string("skc.Verify_") + mn[mode], nn + (opt ? "" : "-noopt"),
				[=](std::istream &in, std::ostream &out) {
					std::unique_ptr<GrothVSSHE> vs(mk_vsshe());
					GrothSKC *skc = vs->skc;
					std::vector<mpz_ptr> m;
					for (size_t i = 0; i < n; i++) m.push_back(mk(i + 10));
					mpz_t r;
					mpz_init(r);
					mpz_set_str(r, r_s.c_str(), TMCG_MPZ_IO_BASE);
					if (mode == 0) skc->Prove_interactive(pi, r, m, in, out);
					else if (mode == 1)
					{
						JareckiLysyanskayaEDCF edcf(2, 0, vs->p, vs->q, vs->g, vs->h, FS, GS);
						skc->Prove_interactive_publiccoin(pi, r, m, &edcf, in, out);
					}
					else skc->Prove_noninteractive(pi, r, m, out);
					mpz_clear(r);
					return true;
				},
				[=](std::istream &in, std::ostream &out) {
					std::unique_ptr<GrothVSSHE> vs(mk_vsshe());
					GrothSKC *skc = vs->skc;
					std::vector<mpz_ptr> m;
					for (size_t i = 0; i < n; i++) m.push_back(mk(i + 10));
					mpz_t c;
					mpz_init(c);
					mpz_set_str(c, c_s.c_str(), TMCG_MPZ_IO_BASE);
					bool ok;
					if (mode == 0) ok = skc->Verify_interactive(c, m, in, out, opt != 0);
					else if (mode == 1)
					{
						JareckiLysyanskayaEDCF edcf(2, 0, vs->p, vs->q, vs->g, vs->h, FS, GS);
						ok = skc->Verify_interactive_publiccoin(c, m, &edcf, in, out, opt != 0);
					}
					else ok = skc->Verify_noninteractive(c, m, in, opt != 0);
					mpz_clear(c);
					return ok;
				});
		}
	}
	// ---- VSSHE and VRHE on a statement (e, E)
	Stmt SH, RO;
	make_stmt(SH, n, false, 61);
	make_stmt(RO, n, true, 62);
	for (int mode = 0; mode < 3; mode++)
	{
		static const char *mn[] = { "interactive", "interactive_publiccoin", "noninteractive" };
		Role pv = [=](std::istream &in, std::ostream &out) {
			std::unique_ptr<GrothVSSHE> vs(mk_vsshe());
			PairVec e, E;
			std::vector<mpz_ptr> R;
			load_pairs(SH.e1, SH.e2, e), load_pairs(SH.E1, SH.E2, E), load_vec(SH.R, R);
			if (mode == 0) vs->Prove_interactive(SH.pi, R, e, E, in, out);
			else if (mode == 1)
			{
				JareckiLysyanskayaEDCF edcf(2, 0, vs->p, vs->q, vs->g, vs->h, FS, GS);
				vs->Prove_interactive_publiccoin(SH.pi, R, e, E, &edcf, in, out);
			}
			else vs->Prove_noninteractive(SH.pi, R, e, E, out);
			return true;
		};
		auto vv = [=](PairVec &e, PairVec &E, std::istream &in, std::ostream &out) {
			std::unique_ptr<GrothVSSHE> vs(mk_vsshe());
			if (mode == 0) return vs->Verify_interactive(e, E, in, out);
			if (mode == 1)
			{
				JareckiLysyanskayaEDCF edcf(2, 0, vs->p, vs->q, vs->g, vs->h, FS, GS);
				return vs->Verify_interactive_publiccoin(e, E, &edcf, in, out);
			}
			return vs->Verify_noninteractive(e, E, in);
		};
		add_protocol(std::string("vsshe.Verify_") + mn[mode], nn, pv,
			[=](std::istream &in, std::ostream &out) {
				PairVec e, E;
				load_pairs(SH.e1, SH.e2, e), load_pairs(SH.E1, SH.E2, E);
				return vv(e, E, in, out);
			});
		if (mode == 2)
			add_protocol("vsshe.Verify_noninteractive-with-statement", nn,
				[=](std::istream &in, std::ostream &out) { out << stmt_lines(SH); return pv(in, out); },
				[=](std::istream &in, std::ostream &out) {
					PairVec e, E;
					if (!read_pairs(in, n, e, E)) return false;
					return vv(e, E, in, out);
				});
		Role pr = [=](std::istream &in, std::ostream &out) {
			std::unique_ptr<HooghSchoenmakersSkoricVillegasVRHE> vr(mk_vrhe());
			PairVec e, E;
			std::vector<mpz_ptr> R;
			load_pairs(RO.e1, RO.e2, e), load_pairs(RO.E1, RO.E2, E), load_vec(RO.R, R);
			if (mode == 0) vr->Prove_interactive(RO.r, R, e, E, in, out);
			else if (mode == 1)
			{
				JareckiLysyanskayaEDCF edcf(2, 0, vr->p, vr->q, vr->g, vr->h, FS, GS);
				vr->Prove_interactive_publiccoin(RO.r, R, e, E, &edcf, in, out);
			}
			else vr->Prove_noninteractive(RO.r, R, e, E, out);
			return true;
		};
		auto vr_verify = [=](PairVec &e, PairVec &E, std::istream &in, std::ostream &out) {
			std::unique_ptr<HooghSchoenmakersSkoricVillegasVRHE> vr(mk_vrhe());
			if (mode == 0) return vr->Verify_interactive(e, E, in, out);
			if (mode == 1)
			{
				JareckiLysyanskayaEDCF edcf(2, 0, vr->p, vr->q, vr->g, vr->h, FS, GS);
				return vr->Verify_interactive_publiccoin(e, E, &edcf, in, out);
			}
			return vr->Verify_noninteractive(e, E, in);
		};
		add_protocol(std::string("vrhe.Verify_") + mn[mode], nn, pr,
			[=](std::istream &in, std::ostream &out) {
				PairVec e, E;
				load_pairs(RO.e1, RO.e2, e), load_pairs(RO.E1, RO.E2, E);
				return vr_verify(e, E, in, out);
			});
		if (mode == 2)
			add_protocol("vrhe.Verify_noninteractive-with-statement", nn,
				[=](std::istream &in, std::ostream &out) { out << stmt_lines(RO); return pr(in, out); },
				[=](std::istream &in, std::ostream &out) {
					PairVec e, E;
					if (!read_pairs(in, n, e, E)) return false;
					return vr_verify(e, E, in, out);
				});
	}
	// ---- the SchindelhauerTMCG wrappers (stacks of VTMF cards)
	for (int rot = 0; rot < 2; rot++)
	for (int ni = 0; ni < 2; ni++)
	{
		std::string s_s, s2_s, ss_s;
		with_coins(70 + rot, [&]() {
			std::unique_ptr<BarnettSmartVTMF_dlog> v(mk_vtmf(0));
			SchindelhauerTMCG t(16, 2, 3);
			TMCG_Stack<VTMF_Card> s, s2;
			TMCG_StackSecret<VTMF_CardSecret> ss;
			for (size_t i = 0; i < n; i++)
			{
				VTMF_Card c;
				t.TMCG_CreateOpenCard(c, v.get(), i);
				s.push(c);
			}
			t.TMCG_CreateStackSecret(ss, rot != 0, n, v.get());
			t.TMCG_MixStack(s, s2, ss, v.get());
			s_s = exp_str(s), s2_s = exp_str(s2), ss_s = exp_str(ss);
		});
		std::string name = std::string("tmcg-vtmf.VerifyStackEquality_") + (rot ? "Hoogh" : "Groth") + (ni ? "_noninteractive" : "");
		add_protocol(name, nn,
			[=](std::istream &in, std::ostream &out) {
				std::unique_ptr<BarnettSmartVTMF_dlog> v(mk_vtmf(0));
				std::unique_ptr<GrothVSSHE> vs(mk_vsshe());
				std::unique_ptr<HooghSchoenmakersSkoricVillegasVRHE> vr(mk_vrhe());
				SchindelhauerTMCG t(16, 2, 3);
				TMCG_Stack<VTMF_Card> s, s2;
				TMCG_StackSecret<VTMF_CardSecret> ss;
				s.import(s_s), s2.import(s2_s), ss.import(ss_s);
				if (!rot && !ni) t.TMCG_ProveStackEquality_Groth(s, s2, ss, v.get(), vs.get(), in, out);
				if (!rot && ni) t.TMCG_ProveStackEquality_Groth_noninteractive(s, s2, ss, v.get(), vs.get(), out);
				if (rot && !ni) t.TMCG_ProveStackEquality_Hoogh(s, s2, ss, v.get(), vr.get(), in, out);
				if (rot && ni) t.TMCG_ProveStackEquality_Hoogh_noninteractive(s, s2, ss, v.get(), vr.get(), out);
				return true;
			},
			[=](std::istream &in, std::ostream &out) {
				std::unique_ptr<BarnettSmartVTMF_dlog> v(mk_vtmf(1));
				std::unique_ptr<GrothVSSHE> vs(mk_vsshe());
				std::unique_ptr<HooghSchoenmakersSkoricVillegasVRHE> vr(mk_vrhe());
				SchindelhauerTMCG t(16, 2, 3);
				TMCG_Stack<VTMF_Card> s, s2;
				s.import(s_s), s2.import(s2_s);
				if (!rot && !ni) return t.TMCG_VerifyStackEquality_Groth(s, s2, v.get(), vs.get(), in, out);
				if (!rot && ni) return t.TMCG_VerifyStackEquality_Groth_noninteractive(s, s2, v.get(), vs.get(), in);
				if (rot && !ni) return t.TMCG_VerifyStackEquality_Hoogh(s, s2, v.get(), vr.get(), in, out);
				return t.TMCG_VerifyStackEquality_Hoogh_noninteractive(s, s2, v.get(), vr.get(), in);
			});
	}
}

int main(int argc, char **argv)
{
	Args A = parse(argc, argv);
	Report rep(A);
	thorough = A.tier == "thorough";
	SEED = mcenv::env_seed();
	if (!init_libTMCG()) { fprintf(stderr, "init_libTMCG failed\n"); return 2; }
	mcenv::CoinSource cs(SEED, 99);
	mcenv::cur = &cs;
	Runner run(rep);
	run.F.prologue = [&cs]() { cs.reset(SEED, 99); mcenv::cur = &cs; mcenv::set_clock(1700000000); };
	std::string family = A.get("family", "vtmf");
	size_t n = (size_t)A.geti("n", 3);
	heavy_mode = run.heavy_mode;
	want_target = A.get("target", ""), want_case = A.only, want_part = A.get("part", "");   // --part: target name prefix
	{
		MuteCerr mute;
		build_world(n);
		if (family == "vtmf") fam_vtmf();
		else if (family == "tmcg") fam_tmcg();
		else if (family == "shuffle") fam_shuffle();
		else { fprintf(stderr, "unknown family %s\n", family.c_str()); return 2; }
	}
	std::string only_target = A.get("target", "");
	for (size_t i = 0; i < V.size(); i++)
	{
		if (!only_target.empty() && V[i].name != only_target) continue;
		if (!A.only.empty() && A.only.compare(0, V[i].name.size() + 1, V[i].name + "/") != 0) continue;
		run.run_target(V[i]);
		if (rep.out_of_time()) break;
	}
	rep.bound = "family " + family + " n=" + str(n) + ": " + str(V.size()) + " recorded transcripts, every field position x catalogue" + (thorough ? " (thorough)" : " (quick)");
	rep.counters["targets"] = rep.args.shard == 0 ? V.size() : 0;
	rep.finish();
	return (run.machinery_errors || harness_errors) ? 2 : 0;
}
