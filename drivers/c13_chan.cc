// C13 — point-to-point channels (aiounicast_select / aiounicast_nonblock) deliver intact, in order, exactly once.
//
// Harness (DESIGN.md C13): sender and receiver objects of the REAL classes, each wired to real kernel pipes whose far
// ends this driver holds.  Send() is synchronous and every message is far smaller than a pipe buffer, so the sender's
// complete wire image is captured from its pipe; the driver then acts as the relay and decides how those bytes reach
// the receiver's pipe.  Receive(.., timeout 0) performs one pass; "until quiescence" = until QK consecutive calls
// return false without changing the receiver's state (bounded horizon).  select() is interposed to a zero time-out,
// sleep()/time() are virtual, PBKDF2 is clamped to 1 iteration (mcenv::kdf_iter_clamp = 1; stated as an assumption).
//
// Parts (--part):
//  frag   (a) n = 2, one link.  For every class x mode x exchange x scheduler cell: the unsplit wire, EVERY single cut
//         and (depth 2) EVERY pair of cuts of the wire image, each under three poll policies between fragments
//         (p1 = exactly one Receive call, p2 = two calls, pq = until quiescence; always quiescence after the last
//         fragment); plus regular chunkings with many cuts: chunk sizes {1,2,3,5,8,15,16,17,31,32,33} x every phase.
//         Oracle: delivered sequence == sent sequence (values, array shapes, sender index), each exactly
//         once, nothing before its last byte was relayed, nothing spurious afterwards.
//         The receiver's private state (buf_ptr, buf_flag, iv_flag_in, mac_sqn_in, chunk_in, buffered bytes, buf_mpz,
//         scheduler cursors, bytes pending in the pipe, #delivered) is hashed with the remaining wire length at every
//         choice point: distinct pairs = "states", relay steps = "transitions".
//  n3     n = 3, receiver 2, one message on each of the links 0->2 and 1->2: full cross product of single cuts on both
//         links x both arrival orders; oracle as above per link incl. the reported sender index.
//  fault  (b) wire faults on a 2 (quick) / 3 (thorough) message wire image: at EVERY byte offset flip bit 0 / bit 7,
//         delete the byte, insert '\n' / 'A' / 0x00; truncate at every offset; duplicate / drop / swap / replay whole
//         messages.  Relayed whole, cut at the fault offset, and (thorough) one byte at a time.
//         Authenticated modes: every delivered integer is the payload of a sent message whose bytes are intact on the
//         wire, in sending order, at most once, reported sender correct.  Non-chunked mode and a WHOLE-MESSAGE fault
//         (the mutated wire is exactly IV + a sequence of complete original messages: insert/remove/replay/reorder)
//         additionally: the delivered sequence is a prefix of the sent sequence.  After a byte-level modification later
//         intact messages MAY still be delivered (observed, not judged: a flipped IV bit loses message 1 only; see
//         findings/obs_aiounicast_iv_unauthenticated.cc).  Unauthenticated modes: must not crash (ASan/UBSan flavour).
//  conf   (c) encrypted modes: the same integer twice on one link and once on a second instance with another nonce:
//         three pairwise different wire messages, none containing the base-62 digits of v or v + 2^256 (>= 24 digits);
//         control: the unencrypted wire does contain the digits.
//
//  wenv   WRITE side of the environment.  write(2) is defined in this executable (link-time interposition; forwarded
//         with syscall(SYS_write) for every fd that is not the sender's channel fd or when no script is active).  For
//         every class x mode and exchanges of 1 and 2 integers, the answer of the environment at EVERY write call the
//         sender makes on the channel fd is enumerated, deviation-bounded: default = full write; deviations = short write
//         of k in {1, 2, len/2, len-1} bytes (k bytes are really written), EAGAIN, EINTR, EWOULDBLOCK (nothing written).
//         Both tiers (the space is small): every single deviation at every write index and every ordered pair (the
//         second index ranges over the write calls of the run with the first deviation); --wsingle: singles only; plus the patterns "every write is cut to 1 byte"
//         and "every second write call answers EAGAIN".  Oracle: if every Send returned true, the wire captured at
//         the far end equals the wire of the deviation-free run byte for byte and a fresh receiver (whole relay, until
//         quiescence) delivers exactly the sent integers in order; if a Send returned false, what is delivered is a
//         prefix of the sent integers that contains every integer whose Send returned true (nothing spurious).
//         time()/sleep() are virtual: the polling class sleeps 1 virtual second per EAGAIN; Send is given 30 s.
// Bounds: quick = single cuts for every exchange, pairs for the 1- and 2-message exchanges; thorough = pairs for
// every exchange except the maximal-size value (single cuts only, ~2.8 kB wire).  Everything enumerated, nothing sampled.
// Maximal size: per (class, mode) the largest digit count k for which Send accepts 62^k-1 in exactly that mode is found
// by binary search; [62^k-1, 1] is relayed uncut, with every single cut and every chunking, and [62^(k-d)-1, 1] for
// d = 1, 10, 100 uncut and with every chunking: accepted => delivered, and the link must still carry the next message.
#include "drv.hh"
#include <libTMCG.hh>
#include <aiounicast_select.hh>
#include <aiounicast_nonblock.hh>
#include <gmp.h>
#include <fcntl.h>
#include <signal.h>
#include <sys/ioctl.h>
#include <sys/syscall.h>
#include <errno.h>
#include <set>
#include <algorithm>
#include <unordered_set>
#include <deque>
#include <functional>

using namespace drv;

static Report *R;
static uint64_t SEED;
static bool DUP = false;     // --dup: this run repeats cases of another run of the tier (other flavour): not counted as distinct
static int MAXDEPTH = 2;   // --maxdepth 1: single cuts only (ASan pass of the thorough tier)

// ------------------------------------------------------------------------------------------------ utilities
static void die(const std::string &what)
{
	printf("{\"t\":\"error\",\"what\":\"%s\"}\n", jesc(what).c_str());
	fflush(stdout);
	fprintf(stderr, "c13_chan: %s\n", what.c_str());
	exit(2);
}

struct Hs {
	uint64_t h;
	Hs() : h(0xcbf29ce484222325ULL) {}
	void b(const void *p, size_t n) { const unsigned char *c = (const unsigned char *)p; for (size_t i = 0; i < n; i++) h = (h ^ c[i]) * 0x100000001b3ULL; }
	void u(uint64_t v) { b(&v, 8); }
	void s(const std::string &x) { u(x.size()); b(x.data(), x.size()); }
	uint64_t fin() const { uint64_t z = h; z = (z ^ (z >> 30)) * 0xbf58476d1ce4e5b9ULL; z = (z ^ (z >> 27)) * 0x94d049bb133111ebULL; return z ^ (z >> 31); }
};

static std::string hex(const std::string &s, size_t maxb = 400)
{
	static const char *d = "0123456789abcdef";
	std::string o;
	for (size_t i = 0; i < s.size() && i < maxb; i++) o += d[(unsigned char)s[i] >> 4], o += d[(unsigned char)s[i] & 15];
	if (s.size() > maxb) o += "..";
	return o;
}
static std::string zdec(mpz_srcptr z) { char *s = mpz_get_str(NULL, 10, z); std::string r(s); free(s); return r; }
static std::string z62(mpz_srcptr z) { char *s = mpz_get_str(NULL, 62, z); std::string r(s); free(s); return r; }
static std::string brief(const std::string &dec) { return dec.size() <= 24 ? dec : dec.substr(0, 10) + ".." + dec.substr(dec.size() - 6) + "(" + str(dec.size()) + "d)"; }

// ------------------------------------------------------------------------------------------------ pipes
struct Pool { int cap_r[2], cap_w[2], del_r[2], del_w[2], idle_r, idle_w, sink_r, sink_w; };
static Pool pools[2];   // [0] blocking pipes (select class, as in t-aio), [1] O_NONBLOCK pipes (polling class)

static void mkpipe(bool nb, int &r, int &w)
{
	int fd[2];
	if ((nb ? pipe2(fd, O_NONBLOCK) : pipe(fd)) < 0) die("pipe() failed");
	r = fd[0], w = fd[1];
	if (r >= FD_SETSIZE || w >= FD_SETSIZE) die("fd >= FD_SETSIZE");
}
static void setup_pools()
{
	for (int p = 0; p < 2; p++)
	{
		for (int i = 0; i < 2; i++)
			mkpipe(p == 1, pools[p].cap_r[i], pools[p].cap_w[i]), mkpipe(p == 1, pools[p].del_r[i], pools[p].del_w[i]);
		mkpipe(p == 1, pools[p].idle_r, pools[p].idle_w);
		mkpipe(p == 1, pools[p].sink_r, pools[p].sink_w);
	}
}
static size_t pending(int fd) { int n = 0; if (ioctl(fd, FIONREAD, &n) < 0) die("FIONREAD failed"); return (size_t)n; }
static std::string slurp(int fd)
{
	std::string out;
	size_t n;
	while ((n = pending(fd)) > 0)
	{
		std::string b(n, '\0');
		ssize_t k = read(fd, &b[0], n);
		if (k <= 0) die("slurp read failed");
		out.append(b, 0, (size_t)k);
	}
	return out;
}
static void put(int fd, const char *p, size_t n)
{
	while (n > 0)
	{
		ssize_t k = write(fd, p, n);
		if (k <= 0) die("relay write failed");
		p += k, n -= (size_t)k;
	}
}

// ------------------------------------------------------------------------------------------------ write-side environment
// write(2) as seen by the statically linked library objects (and by this driver).  Only calls on WS.fd while a script is
// active are answered by the script; everything else goes straight to the kernel.
enum { W_FULL = 0, W_S1, W_S2, W_SHALF, W_SLM1, W_EAGAIN, W_EINTR, W_EWOULDBLOCK, W_NDEV };
static const char *WDEV_NAME[] = { "full", "s1", "s2", "shalf", "slm1", "eagain", "eintr", "ewouldblock" };
struct WScript {
	bool active;
	int fd, pattern;                 // pattern 0: deviations by call index; 1: every write cut to 1 byte; 2: every second call EAGAIN
	std::map<size_t, int> dev;
	size_t calls, applied;
	bool runaway;
	std::vector<size_t> lens;        // requested length of every call
	Hs trace;                        // realized (requested length, answer) sequence
	// pattern 3 (part allwrite): answers by call index: k > 0 = k octets taken (k >= request: all), -1 EAGAIN, -2 EINTR; then full writes
	std::vector<long> script;
	std::vector<uint64_t> obs;       // per call: hash of (requested length, requested octets)
	std::vector<size_t> taken_before;   // per call: octets taken by the environment so far
	size_t taken;
	WScript() : active(false), fd(-1), pattern(0), calls(0), applied(0), runaway(false), taken(0) {}
};
static WScript WS;
// the byte count a short-write deviation returns for a request of n bytes (0 = not applicable)
static size_t wdev_k(int d, size_t n)
{
	size_t k = d == W_S1 ? 1 : d == W_S2 ? 2 : d == W_SHALF ? n / 2 : d == W_SLM1 ? n - 1 : 0;
	return (k > 0 && k < n) ? k : 0;
}
extern "C" ssize_t write(int fd, const void *buf, size_t n)
{
	if (!WS.active || fd != WS.fd)
		return syscall(SYS_write, fd, buf, n);
	size_t idx = WS.calls++;
	if (WS.calls > 5000) { WS.runaway = true; errno = EPIPE; return -1; }   // a write loop that does not terminate
	WS.lens.push_back(n);
	if (WS.pattern == 3)
	{
		{ Hs h; h.u(n), h.b(buf, n); WS.obs.push_back(h.fin()); }
		WS.taken_before.push_back(WS.taken);
		long a = idx < WS.script.size() ? WS.script[idx] : (long)n;
		if (a < 0) { WS.applied++; WS.trace.u(n), WS.trace.u(100000 + (size_t)(-a)); errno = a == -1 ? EAGAIN : EINTR; return -1; }
		size_t k = (size_t)a >= n ? n : (size_t)a;
		if (k < n) WS.applied++;
		WS.trace.u(n), WS.trace.u(k);
		WS.taken += k;
		return syscall(SYS_write, fd, buf, k);
	}
	int d = W_FULL;
	if (WS.pattern == 1) d = W_S1;
	else if (WS.pattern == 2) d = (idx & 1) ? W_EAGAIN : W_FULL;
	else { std::map<size_t, int>::iterator it = WS.dev.find(idx); if (it != WS.dev.end()) d = it->second; }
	int err = d == W_EAGAIN ? EAGAIN : d == W_EINTR ? EINTR : d == W_EWOULDBLOCK ? EWOULDBLOCK : 0;
	size_t k = n;
	if (!err && d != W_FULL) { k = wdev_k(d, n); if (k == 0) k = n, d = W_FULL; }
	if (d != W_FULL) WS.applied++;
	WS.trace.u(n), WS.trace.u(err ? 100000 + err : k);
	if (err) { errno = err; return -1; }
	return syscall(SYS_write, fd, buf, k);
}

// ------------------------------------------------------------------------------------------------ configuration space
struct Mode { bool auth, enc, chunk; const char *name; };
static const Mode MODES_SELECT[] = { {false, false, false, "plain"}, {true, false, false, "a"}, {false, true, false, "e"}, {true, true, false, "ae"},
	{false, true, true, "ec"}, {true, true, true, "aec"} };
static const Mode MODES_NONBLOCK[] = { {false, false, false, "plain"}, {true, false, false, "a"}, {false, true, false, "e"}, {true, true, false, "ae"} };
static const char *SCHED_NAME[] = { "none", "rr", "rand", "direct" };

struct Item { bool array; std::vector<std::string> vals; };      // values as decimal strings
typedef std::vector<Item> Exchange;
struct Msg { size_t start, end; };                               // span of one wire message (line + '\n' + tag)
struct WireImg {
	std::string bytes;
	size_t ivlen, maclen;
	std::vector<Msg> msg;
	std::vector<size_t> item_end;   // per item of the exchange: offset at which its last byte (incl. array delimiter message) is on the wire
};

template<class T> struct Tr;
template<> struct Tr<aiounicast_select> {
	static const char *name() { return "select"; }
	static int pool() { return 0; }
	static uint64_t chunk_in(aiounicast_select *o, size_t l) { return (o->aio_is_encrypted && o->aio_is_chunked) ? mpz_get_ui(o->chunk_in[l]) : 0; }
};
template<> struct Tr<aiounicast_nonblock> {
	static const char *name() { return "nonblock"; }
	static int pool() { return 1; }
	static uint64_t chunk_in(aiounicast_nonblock *, size_t) { return 0; }
};

static std::string keyname(size_t a) { return "c13::P_" + str(a); }

// party j of n; receiver is party n-1, every other party is a sender with one outgoing link to the receiver
template<class AIO> static AIO *make(size_t n, size_t j, const Mode &m, size_t sched, mcenv::CoinSource *cs)
{
	Pool &P = pools[Tr<AIO>::pool()];
	size_t r = n - 1;
	std::vector<int> in, out;
	std::vector<std::string> key;
	for (size_t i = 0; i < n; i++)
	{
		key.push_back(keyname(i + j));
		if (j != r)
			in.push_back(P.idle_r), out.push_back(i == r ? P.cap_w[j] : P.sink_w);
		else
			in.push_back(i < r ? P.del_r[i] : P.idle_r), out.push_back(P.sink_w);
	}
	mcenv::cur = cs;
	AIO *o = NULL;
	try { o = new AIO(n, j, in, out, key, sched, aiounicast::aio_timeout_very_short, m.auth, m.enc, m.chunk); }
	catch (std::exception &e) { die(std::string("constructor threw: ") + e.what()); }
	return o;
}

// run the real sender over the exchange and capture + parse its wire image
template<class AIO> static bool build_wire(size_t n, size_t j, const Mode &m, const Exchange &ex, uint64_t coin_party, WireImg &w, bool must = true)
{
	Pool &P = pools[Tr<AIO>::pool()];
	mcenv::CoinSource cs(SEED, coin_party);
	slurp(P.cap_r[j]);
	AIO *s = make<AIO>(n, j, m, aiounicast::aio_scheduler_roundrobin, &cs);
	w.bytes.clear(), w.msg.clear(), w.item_end.clear();
	w.ivlen = m.enc ? s->blklen : 0, w.maclen = s->maclen;
	bool ok = true;
	std::vector<size_t> seg_end;
	for (size_t it = 0; it < ex.size() && ok; it++)
	{
		std::vector<mpz_ptr> own;
		std::vector<mpz_srcptr> v;
		for (size_t k = 0; k < ex[it].vals.size(); k++)
		{
			mpz_ptr z = new mpz_t();
			mpz_init_set_str(z, ex[it].vals[k].c_str(), 10);
			own.push_back(z), v.push_back(z);
		}
		if (ex[it].array) ok = s->Send(v, n - 1, 1);
		else ok = s->Send(v[0], n - 1, 1);
		for (size_t k = 0; k < own.size(); k++) { mpz_clear(own[k]); delete [] own[k]; }
		w.bytes += slurp(P.cap_r[j]);
		seg_end.push_back(w.bytes.size());
	}
	delete s;
	mcenv::cur = NULL;
	if (!ok)
	{
		if (must) die("Send refused a value of the alphabet");
		return false;
	}
	// parse: [IV] then repeated (line without '\n') '\n' tag[maclen]
	size_t pos = w.ivlen;
	while (pos < w.bytes.size())
	{
		size_t nl = w.bytes.find('\n', pos);
		if (nl == std::string::npos || nl + 1 + w.maclen > w.bytes.size()) die("captured wire does not parse");
		Msg mm; mm.start = pos, mm.end = nl + 1 + w.maclen;
		w.msg.push_back(mm), pos = mm.end;
	}
	size_t want = 0;
	for (size_t it = 0; it < ex.size(); it++) want += ex[it].vals.size() + ((ex[it].array && m.chunk) ? 1 : 0);
	if (w.msg.size() != want) die("captured wire has an unexpected number of messages");
	w.item_end = seg_end;
	return true;
}

// ------------------------------------------------------------------------------------------------ the receiver under a relay
struct Del { bool array; std::vector<std::string> vals; size_t from; size_t at_written[2]; };

template<class AIO> struct Rx {
	AIO *o;
	size_t n, sched;
	Mode mode;
	const Exchange *shape;             // n = 2: shapes of the items the receiver expects (array sizes); NULL: single integers
	mcenv::CoinSource cs;
	std::vector<Del> got;
	size_t calls, written[2];
	Rx(size_t n_, const Mode &m, size_t sched_, const Exchange *shape_) : n(n_), sched(sched_), mode(m), shape(shape_), cs(SEED, 1000), calls(0)
	{
		Pool &P = pools[Tr<AIO>::pool()];
		written[0] = written[1] = 0;
		for (size_t l = 0; l + 1 < n; l++) if (pending(P.del_r[l])) slurp(P.del_r[l]);
		o = make<AIO>(n, n - 1, m, sched, &cs);
	}
	~Rx()
	{
		Pool &P = pools[Tr<AIO>::pool()];
		delete o;
		mcenv::cur = NULL;
		for (size_t l = 0; l + 1 < n; l++) if (pending(P.del_r[l])) slurp(P.del_r[l]);
	}
	void relay(size_t link, const char *p, size_t len)
	{
		if (len) put(pools[Tr<AIO>::pool()].del_w[link], p, len);
		written[link] += len;
	}
	// canonical receiver state; with_cursor adds the scheduler cursors (they change on every call)
	uint64_t state(bool with_cursor)
	{
		Pool &P = pools[Tr<AIO>::pool()];
		Hs h;
		for (size_t l = 0; l + 1 < n; l++)
		{
			h.u(o->buf_ptr[l]), h.u(o->buf_flag[l] ? 1 : 0);
			h.u(mode.enc ? (o->iv_flag_in[l] ? 1 : 0) : 2);
			h.u(mode.auth ? mpz_get_ui(o->mac_sqn_in[l]) : 0);
			h.u(mode.auth ? (o->bad_auth[l] ? 1 : 0) : 2);
			h.u(Tr<AIO>::chunk_in(o, l));
			h.b(o->buf_in[l], o->buf_ptr[l]);
			h.u(o->buf_mpz[l].size());
			h.u(o->fd_in.count(l));
			// bytes relayed but not yet read by the receiver (n = 2: computed from the receiver's own read counter, saves a syscall)
			h.u(n == 2 ? written[0] - o->numRead : pending(P.del_r[l]));
		}
		h.u(o->aio_is_initialized ? 1 : 0);
		h.u(got.size());
		if (with_cursor) h.u(o->aio_schedule_current), h.u(o->aio_schedule_buffer);
		return h.fin();
	}
	bool poll_once()
	{
		mcenv::cur = &cs;
		calls++;
		bool arr = false;
		size_t k = 1;
		if (shape && !shape->empty())
		{
			const Item &it = (*shape)[std::min(got.size(), shape->size() - 1)];
			arr = it.array, k = it.vals.size();
		}
		size_t from = (sched == aiounicast::aio_scheduler_direct) ? 0 : n;
		Del d; d.array = arr, d.at_written[0] = written[0], d.at_written[1] = written[1];
		bool ok;
		if (!arr)
		{
			mpz_t m; mpz_init(m);
			ok = o->Receive(m, from, sched, 0);
			if (ok) d.vals.push_back(zdec(m));
			mpz_clear(m);
		}
		else
		{
			std::vector<mpz_ptr> v;
			for (size_t i = 0; i < k; i++) { mpz_ptr z = new mpz_t(); mpz_init(z); v.push_back(z); }
			ok = o->Receive(v, from, sched, 0);
			for (size_t i = 0; i < k; i++) { if (ok) d.vals.push_back(zdec(v[i])); mpz_clear(v[i]); delete [] v[i]; }
		}
		if (ok) d.from = from, got.push_back(d);
		return ok;
	}
	// until QK consecutive calls return false and leave the state unchanged.  Round-robin / direct: the receiver is
	// deterministic and its scheduler cursors have period <= n calls, so n idle calls in a row prove a fixpoint (n+1 used).
	// Random: P[some link is never drawn in 40 calls of n draws] <= 2 (2/3)^120.
	void quiesce()
	{
		size_t qk = (sched == aiounicast::aio_scheduler_random) ? 40 : n + 1;
		size_t horizon = calls + 64 * qk + 64, idle = 0;
		uint64_t h0 = state(false);
		while (idle < qk && calls < horizon)
		{
			bool ok = poll_once();
			uint64_t h1 = state(false);
			idle = (!ok && h1 == h0) ? idle + 1 : 0;
			h0 = h1;
		}
	}
};

static std::string show(const std::vector<Del> &g)
{
	std::string o = "[";
	for (size_t i = 0; i < g.size(); i++)
	{
		o += i ? " " : "";
		if (g[i].array) o += "{";
		for (size_t k = 0; k < g[i].vals.size(); k++) o += (k ? "," : "") + brief(g[i].vals[k]);
		if (g[i].array) o += "}";
		o += "<" + str(g[i].from);
	}
	return o + "]";
}
static std::string show(const Exchange &e)
{
	std::string o = "[";
	for (size_t i = 0; i < e.size(); i++)
	{
		o += i ? " " : "";
		if (e[i].array) o += "{";
		for (size_t k = 0; k < e[i].vals.size(); k++) o += (k ? "," : "") + brief(e[i].vals[k]);
		if (e[i].array) o += "}";
	}
	return o + "]";
}

// ------------------------------------------------------------------------------------------------ value alphabet
static std::string V_A, V_B, V_D = "4242424242", V_F1, V_F2, V_F3, V_C1, V_C2;
static void init_values()
{
	mpz_t z; mpz_init(z);
	mpz_set_ui(z, 1), mpz_mul_2exp(z, z, 256), V_B = zdec(z);
	mpz_sub_ui(z, z, 1), V_A = zdec(z);
	V_F1 = "123456789012345678901234567890";
	mpz_set_ui(z, 1), mpz_mul_2exp(z, z, 200), mpz_add_ui(z, z, 12345), V_F2 = zdec(z);
	mpz_ui_pow_ui(z, 62, 30), mpz_add_ui(z, z, 5), V_F3 = zdec(z);
	mpz_ui_pow_ui(z, 62, 30), mpz_add_ui(z, z, 987654321), V_C1 = zdec(z);
	mpz_set_ui(z, 1), mpz_mul_2exp(z, z, 255), mpz_add_ui(z, z, 19), V_C2 = zdec(z);
	mpz_clear(z);
}
static Item one(const std::string &v) { Item i; i.array = false; i.vals.push_back(v); return i; }
static Item arr(const std::vector<std::string> &v) { Item i; i.array = true; i.vals = v; return i; }
static Exchange singles(const std::vector<std::string> &v) { Exchange e; for (size_t i = 0; i < v.size(); i++) e.push_back(one(v[i])); return e; }

// the largest k for which Send accepts 62^k - 1 in EXACTLY this class/mode (binary search over the digit count; Send's
// guard is a threshold on the digit count).  The oracle is "accepted => delivered", whatever the limit is per mode.
static std::string pow62m1(unsigned long k)
{
	mpz_t z; mpz_init(z);
	mpz_ui_pow_ui(z, 62, k), mpz_sub_ui(z, z, 1);
	std::string r = zdec(z);
	mpz_clear(z);
	return r;
}
template<class AIO> static bool accepted(const Mode &m, unsigned long k)
{
	WireImg w;
	Exchange e; e.push_back(one(pow62m1(k)));
	return build_wire<AIO>(2, 0, m, e, 50, w, false);
}
template<class AIO> static unsigned long max_digits(const Mode &m)
{
	unsigned long lo = 1, hi = 4 * TMCG_MAX_VALUE_CHARS;   // lo accepted, hi refused
	if (!accepted<AIO>(m, lo)) die("Send refuses a one-digit value");
	if (accepted<AIO>(m, hi)) die("Send accepts a value of 4*TMCG_MAX_VALUE_CHARS digits; probe range too small");
	while (hi - lo > 1)
	{
		unsigned long mid = lo + (hi - lo) / 2;
		if (accepted<AIO>(m, mid)) lo = mid; else hi = mid;
	}
	return lo;
}

// ------------------------------------------------------------------------------------------------ cells
struct Cell {
	std::string id;
	double cost;
	std::function<void(const Cell &)> run;
};
static std::vector<Cell> cells;

struct StateSet {
	std::unordered_set<uint64_t> seen;
	uint64_t transitions;
	StateSet() : transitions(0) {}
};
static uint64_t TOTAL_STATES = 0, TOTAL_TRANS = 0;

static std::map<std::string, unsigned> viol_printed;   // per cell and key: print at most 3 violations (all are counted)
static void report(const std::string &key, const std::string &what, const std::string &caseid)
{
	if (viol_printed[key]++ < 3) R->viol(key, what, caseid);
	else R->violations++, R->counters["violations_not_printed"]++;
}

// ---------------------------------------------------------------- part frag (a), n = 2
static const char *POLL_NAME[] = { "p1", "p2", "pq" };

template<class AIO> static void frag_case(const std::string &cid, const Mode &m, size_t sched, const Exchange &ex, const WireImg &w,
	const std::vector<size_t> &cuts, int poll, StateSet &S, uint64_t cellh)
{
	Rx<AIO> rx(2, m, sched, &ex);
	size_t prev = 0, len = w.bytes.size();
	bool early = false;
	for (size_t f = 0; f <= cuts.size(); f++)
	{
		size_t to = f < cuts.size() ? cuts[f] : len;
		{ Hs h; h.u(cellh), h.u(rx.state(true)), h.u(len - prev); S.seen.insert(h.fin()); }
		rx.relay(0, w.bytes.data() + prev, to - prev);
		S.transitions++;
		prev = to;
		if (to < len && poll < 2)
			for (int c = 0; c <= poll; c++) rx.poll_once();
		else
			rx.quiesce();
	}
	{ Hs h; h.u(cellh), h.u(rx.state(true)), h.u(0); S.seen.insert(h.fin()); }
	// non-trivial: some cut leaves a message (or the IV) partially relayed
	bool nontriv = false;
	for (size_t c = 0; c < cuts.size(); c++)
	{
		bool boundary = (cuts[c] == w.ivlen);
		for (size_t k = 0; k < w.msg.size(); k++) if (cuts[c] == w.msg[k].end) boundary = true;
		if (!boundary) nontriv = true;
	}
	R->ok(nontriv && !DUP);
	const std::string kbase = std::string("/") + Tr<AIO>::name() + "/" + m.name;
	// oracle
	for (size_t i = 0; i < rx.got.size() && i < ex.size(); i++)
		if (rx.got[i].at_written[0] < w.item_end[i]) early = true;
	std::string what;
	std::string kind;
	if (early) kind = "frag-early";
	else if (rx.got.size() > ex.size()) kind = "frag-spurious";
	else
	{
		for (size_t i = 0; i < rx.got.size() && kind.empty(); i++)
		{
			if (rx.got[i].vals != ex[i].vals) kind = "frag-changed";
			else if (rx.got[i].from != 0) kind = "frag-sender-index";
		}
		if (kind.empty() && rx.got.size() < ex.size()) kind = "frag-lost";
	}
	if (!kind.empty())
		report("c13/" + kind + kbase, "sent " + show(ex) + " delivered " + show(rx.got) + " after " + str(rx.calls) + " Receive calls; wire(" + str(len) + ")=" + hex(w.bytes, 160), cid);
}

template<class AIO> static void frag_cell(const Cell &C, const Mode &m, size_t sched, const Exchange &ex, const WireImg &w, int depth)
{
	StateSet S;
	Hs ch; ch.s(C.id);
	uint64_t cellh = ch.fin();
	size_t len = w.bytes.size();
	std::vector<size_t> cuts;
	for (int poll = 0; poll < 3; poll++)
	{
		std::string pid = C.id + "/" + POLL_NAME[poll];
		if (poll == 2)
		{
			std::string cid = pid + "/-";
			if (R->selected(cid)) { cuts.clear(); frag_case<AIO>(cid, m, sched, ex, w, cuts, poll, S, cellh); }
		}
		for (size_t s1 = 1; s1 < len && depth >= 1; s1++)
		{
			std::string cid = pid + "/" + str(s1);
			if (R->selected(cid)) { cuts.assign(1, s1); frag_case<AIO>(cid, m, sched, ex, w, cuts, poll, S, cellh); }
			if (depth < 2) continue;
			if (!R->args.only.empty() && R->args.only.compare(0, cid.size() + 1, cid + ",") != 0) continue;
			for (size_t s2 = s1 + 1; s2 < len; s2++)
			{
				std::string cid2 = cid + "," + str(s2);
				if (!R->selected(cid2)) continue;
				cuts.resize(2); cuts[0] = s1, cuts[1] = s2;
				frag_case<AIO>(cid2, m, sched, ex, w, cuts, poll, S, cellh);
			}
		}
	}
	// regular chunkings (more than two cuts): every chunk size k of the list x every phase 1..k: first fragment phase bytes,
	// then k bytes each — includes the byte-at-a-time relay (k = 1) and sizes around the IV (16) and tag (32) lengths
	static const size_t CHUNKS[] = { 1, 2, 3, 5, 8, 15, 16, 17, 31, 32, 33 };
	for (int poll = 0; poll < 3; poll++)
		for (size_t ci = 0; ci < sizeof(CHUNKS) / sizeof(CHUNKS[0]); ci++)
			for (size_t phase = 1; phase <= CHUNKS[ci]; phase++)
			{
				std::string cid = C.id + "/" + POLL_NAME[poll] + "/ck" + str(CHUNKS[ci]) + "+" + str(phase);
				if (!R->selected(cid)) continue;
				cuts.clear();
				for (size_t c = phase; c < len; c += CHUNKS[ci]) cuts.push_back(c);
				if (cuts.size() < 3) continue;   // already covered by the cut pairs / single cuts
				frag_case<AIO>(cid, m, sched, ex, w, cuts, poll, S, cellh);
			}
	TOTAL_STATES += S.seen.size(), TOTAL_TRANS += S.transitions;
	R->sample(C.id + "/pq/" + str(len / 2), "sent " + show(ex) + " wire " + str(len) + " bytes (iv " + str(w.ivlen) + ", " + str(w.msg.size()) + " messages, tag " + str(w.maclen) +
		"): " + (depth > 1 ? "every cut and pair of cuts, " : depth == 1 ? "every cut, " : "uncut, ") + "regular chunkings x {p1,p2,pq}; " + str(S.seen.size()) + " distinct (state,remaining) pairs");
}

template<class AIO> static void add_frag_cells(const Mode *modes, size_t nmodes, bool thorough)
{
	for (size_t mi = 0; mi < nmodes; mi++)
	{
		const Mode m = modes[mi];
		unsigned long kmax = max_digits<AIO>(m);
		if (R->args.shard == 0 && !DUP)   // counters are summed over shards and runs: report the limit once
			R->counters[std::string("max_accepted_digits_") + Tr<AIO>::name() + "_" + m.name] = kmax;
		struct Ex { const char *name; Exchange e; int dq, dt; bool allsched; };   // depth in quick / thorough
		std::vector<Ex> exs;
		const char *sv[] = { "0", "1", "61", "62", V_A.c_str(), V_B.c_str(), V_D.c_str() };
		const char *sn[] = { "v0", "v1", "v61", "v62", "vA", "vB", "vD" };
		for (int i = 0; i < 7; i++) { Ex x; x.name = sn[i]; x.e = singles(std::vector<std::string>(1, sv[i])); x.dq = 2, x.dt = 2, x.allsched = (i == 0 || i == 5); exs.push_back(x); }
		// the largest value accepted in this mode and values 1, 10, 100 digits below it, each followed by a small message on
		// the same link (so a link wedged by an oversized line shows as a lost second message as well)
		{ Ex x; x.name = "vMAX"; x.e = singles({ pow62m1(kmax), "1" }); x.dq = 1, x.dt = 1, x.allsched = false; exs.push_back(x); }
		{ Ex x; x.name = "vMAXm1"; x.e = singles({ pow62m1(kmax - 1), "1" }); x.dq = 0, x.dt = 0, x.allsched = false; exs.push_back(x); }
		{ Ex x; x.name = "vMAXm10"; x.e = singles({ pow62m1(kmax - 10), "1" }); x.dq = 0, x.dt = 0, x.allsched = false; exs.push_back(x); }
		{ Ex x; x.name = "vMAXm100"; x.e = singles({ pow62m1(kmax - 100), "1" }); x.dq = 0, x.dt = 0, x.allsched = false; exs.push_back(x); }
		{ Ex x; x.name = "s2a"; x.e = singles({ "0", V_B }); x.dq = 2, x.dt = 2, x.allsched = true; exs.push_back(x); }
		{ Ex x; x.name = "s2b"; x.e = singles({ "61", V_D }); x.dq = 1, x.dt = 2, x.allsched = false; exs.push_back(x); }
		{ Ex x; x.name = "s2c"; x.e = singles({ V_A, "1" }); x.dq = 1, x.dt = 2, x.allsched = false; exs.push_back(x); }
		{ Ex x; x.name = "s3a"; x.e = singles({ "0", "62", V_A }); x.dq = 1, x.dt = 2, x.allsched = true; exs.push_back(x); }
		{ Ex x; x.name = "s3b"; x.e = singles({ V_D, "1", V_B }); x.dq = 1, x.dt = 2, x.allsched = false; exs.push_back(x); }
		{ Ex x; x.name = "a1"; x.e = Exchange(1, arr({ V_D })); x.dq = 2, x.dt = 2, x.allsched = true; exs.push_back(x); }
		{ Ex x; x.name = "a2"; x.e = Exchange(1, arr({ "0", V_D })); x.dq = 1, x.dt = 2, x.allsched = false; exs.push_back(x); }
		{ Ex x; x.name = "a3"; x.e = Exchange(1, arr({ "1", "62", V_A })); x.dq = 1, x.dt = 2, x.allsched = false; exs.push_back(x); }
		{ Ex x; x.name = "a12"; x.e = Exchange(1, arr({ V_D })); x.e.push_back(arr({ V_B, "0" })); x.dq = 1, x.dt = 2, x.allsched = true; exs.push_back(x); }
		{ Ex x; x.name = "a111"; x.e = Exchange(1, arr({ V_A })); x.e.push_back(arr({ V_D })); x.e.push_back(arr({ "61" })); x.dq = 1, x.dt = 1, x.allsched = false; exs.push_back(x); }
		for (size_t xi = 0; xi < exs.size(); xi++)
		{
			WireImg w;
			build_wire<AIO>(2, 0, m, exs[xi].e, 10 + xi, w);
			for (size_t sched = 1; sched <= 3; sched++)
			{
				if (sched != aiounicast::aio_scheduler_roundrobin && !exs[xi].allsched) continue;
				int depth = thorough ? exs[xi].dt : exs[xi].dq;
				depth = std::min(depth, MAXDEPTH);
				if (sched != aiounicast::aio_scheduler_roundrobin) depth = std::min(depth, (thorough && exs[xi].e.size() <= 2 && w.bytes.size() < 260) ? 2 : 1);
				Cell C;
				C.id = std::string("a/") + Tr<AIO>::name() + "/" + m.name + "/" + exs[xi].name + "/" + SCHED_NAME[sched];
				double L = (double)w.bytes.size();
				C.cost = (depth > 1 ? L * L / 2 : depth == 1 ? L + 160 : 160) * 3 * (1.0 + L / 600.0) * (sched == 2 ? 4 : 1);
				Exchange ex = exs[xi].e;
				C.run = [m, sched, ex, w, depth](const Cell &c) { frag_cell<AIO>(c, m, sched, ex, w, depth); };
				cells.push_back(C);
			}
		}
	}
}


// ---------------------------------------------------------------- part allfrag: ALL fragmentations, explicit-state search
// Events on the receiver of one link: F k = the relay hands over the next k octets of the wire (any k from 1 to all that is
// left) and the receiver makes ONE Receive call; P = one Receive call without new octets.  Consecutive hand-overs without a
// call in between only add up in the pipe, so every schedule of "the transport splits, coalesces or delays the byte stream"
// against "the application polls" is a word over {F k, P}.  Breadth-first search over the reachable (receiver state, offset)
// pairs; the receiver is not copyable, so a state is the shortest event history that reaches it, replayed on a fresh
// receiver and fresh pipes; states are merged by the canonical dump of the receiver's private fields (Rx::state, including
// the scheduler cursors and the number of octets waiting in the pipe) plus the offset.  Merging is sound as long as that dump
// determines the future behaviour (cipher and MAC handles advance with the number of octets consumed, which the dump fixes
// together with the offset); a missed field could only lose coverage, never raise an alarm.  Every transition is one
// execution of the real Receive; the oracle is evaluated after every transition (nothing delivered early, changed, spurious
// or with a wrong sender index) and, once the wire is used up, after quiescence (nothing lost).
template<class AIO> static void allfrag_cell(const Cell &C, const Mode &m, size_t sched, const Exchange &ex, const WireImg &w)
{
	const size_t len = w.bytes.size();
	const std::string kbase = std::string("/") + Tr<AIO>::name() + "/" + m.name;
	struct Node { std::vector<uint32_t> hist; size_t off; };
	std::unordered_set<uint64_t> seen;
	std::deque<Node> frontier;
	uint64_t transitions = 0, terminals = 0, maxhist = 0;
	bool complete = true;
	auto histstr = [](const std::vector<uint32_t> &h) { std::string o; for (size_t i = 0; i < h.size(); i++) o += (i ? " " : "") + (h[i] ? "F" + str(h[i]) : std::string("P")); return o; };
	auto judge = [&](Rx<AIO> &rx, const std::vector<uint32_t> &hist, bool final) {
		std::string kind;
		for (size_t i = 0; i < rx.got.size() && i < ex.size(); i++)
			if (rx.got[i].at_written[0] < w.item_end[i]) kind = "frag-early";
		if (kind.empty() && rx.got.size() > ex.size()) kind = "frag-spurious";
		for (size_t i = 0; i < rx.got.size() && i < ex.size() && kind.empty(); i++)
		{
			if (rx.got[i].vals != ex[i].vals) kind = "frag-changed";
			else if (rx.got[i].from != 0) kind = "frag-sender-index";
		}
		if (kind.empty() && final && rx.got.size() < ex.size()) kind = "frag-lost";
		if (!kind.empty())
			report("c13/" + kind + kbase, "sent " + show(ex) + " delivered " + show(rx.got) + " after the events [" + histstr(hist) + "]" + (final ? " and quiescence" : "") +
				"; wire(" + str(len) + ")=" + hex(w.bytes, 160), C.id + "/" + histstr(hist));
		return kind.empty();
	};
	auto key_of = [&](Rx<AIO> &rx, size_t off) { Hs h; h.u(rx.state(true)), h.u(off); return h.fin(); };
	{
		Rx<AIO> rx(2, m, sched, &ex);
		seen.insert(key_of(rx, 0));
		Node n0; n0.off = 0;
		frontier.push_back(n0);
	}
	while (!frontier.empty())
	{
		if (R->out_of_time()) { complete = false; break; }
		Node nd = frontier.front();
		frontier.pop_front();
		maxhist = std::max<uint64_t>(maxhist, nd.hist.size());
		for (size_t ev = 0; ev <= len - nd.off; ev++)
		{
			Rx<AIO> rx(2, m, sched, &ex);
			size_t off = 0;
			for (size_t i = 0; i < nd.hist.size(); i++)
			{
				if (nd.hist[i]) rx.relay(0, w.bytes.data() + off, nd.hist[i]), off += nd.hist[i];
				rx.poll_once();
			}
			if (off != nd.off) die("allfrag: replay diverged");
			if (ev) rx.relay(0, w.bytes.data() + off, ev), off += ev;
			rx.poll_once();
			transitions++;
			R->ok(!DUP);
			std::vector<uint32_t> h2(nd.hist);
			h2.push_back((uint32_t)ev);
			bool fine = judge(rx, h2, false);
			if (!seen.insert(key_of(rx, off)).second || !fine) continue;
			if (off == len)
			{
				// only Receive calls are left: a deterministic tail
				rx.quiesce();
				judge(rx, h2, true);
				terminals++;
				continue;
			}
			Node nn; nn.hist = h2, nn.off = off;
			frontier.push_back(nn);
		}
	}
	TOTAL_STATES += seen.size(), TOTAL_TRANS += transitions;
	R->counters["allfrag_states"] += seen.size(), R->counters["allfrag_transitions"] += transitions, R->counters["allfrag_terminal_states"] += terminals;
	if (!complete) R->counters["allfrag_cells_incomplete"]++, R->caps.insert("allfrag cell " + C.id + " stopped at the deadline");
	else R->counters["allfrag_cells_complete"]++;
	R->sample(C.id, "sent " + show(ex) + " wire " + str(len) + " octets: " + str(seen.size()) + " states, " + str(transitions) + " transitions, " + str(terminals) +
		" terminal states judged after quiescence, longest shortest history " + str(maxhist) + " events, complete=" + str(complete ? 1 : 0));
}

template<class AIO> static void add_allfrag_cells(const Mode *modes, size_t nmodes, bool thorough)
{
	for (size_t mi = 0; mi < nmodes; mi++)
	{
		const Mode m = modes[mi];
		struct Ex { const char *name; Exchange e; bool quick; bool allsched; };
		std::vector<Ex> exs;
		{ Ex x; x.name = "v0"; x.e = singles({ "0" }); x.quick = true, x.allsched = true; exs.push_back(x); }
		{ Ex x; x.name = "vB"; x.e = singles({ V_B }); x.quick = true, x.allsched = false; exs.push_back(x); }
		{ Ex x; x.name = "vD"; x.e = singles({ V_D }); x.quick = false, x.allsched = false; exs.push_back(x); }
		{ Ex x; x.name = "s2"; x.e = singles({ "61", V_D }); x.quick = true, x.allsched = false; exs.push_back(x); }
		{ Ex x; x.name = "s2a"; x.e = singles({ "0", V_B }); x.quick = false, x.allsched = false; exs.push_back(x); }
		{ Ex x; x.name = "s3"; x.e = singles({ "0", "62", "1" }); x.quick = true, x.allsched = false; exs.push_back(x); }
		{ Ex x; x.name = "s3a"; x.e = singles({ V_D, "1", V_B }); x.quick = false, x.allsched = false; exs.push_back(x); }
		{ Ex x; x.name = "a2"; x.e = Exchange(1, arr({ "0", V_D })); x.quick = true, x.allsched = false; exs.push_back(x); }
		{ Ex x; x.name = "a12"; x.e = Exchange(1, arr({ V_D })); x.e.push_back(arr({ "62", "0" })); x.quick = false, x.allsched = false; exs.push_back(x); }
		for (size_t xi = 0; xi < exs.size(); xi++)
		{
			if (!thorough && !exs[xi].quick) continue;
			WireImg w;
			build_wire<AIO>(2, 0, m, exs[xi].e, 40 + xi, w);
			// the state space is quadratic and the transition count cubic in the wire length (octets waiting in the pipe are a
			// dimension of their own): the quick tier keeps the wire images of at most 200 octets
			if (!thorough && w.bytes.size() > 200) continue;
			if (w.bytes.size() > 340) continue;   // thorough: up to 340 octets (3.4 M transitions, ~5 min per cell)
			for (size_t sched = 1; sched <= 3; sched++)
			{
				if (sched != aiounicast::aio_scheduler_roundrobin && !(exs[xi].allsched && thorough)) continue;
				Cell C;
				C.id = std::string("f/") + Tr<AIO>::name() + "/" + m.name + "/" + exs[xi].name + "/" + SCHED_NAME[sched];
				double L = (double)w.bytes.size();
				C.cost = L * L * L / 40;
				Exchange ex = exs[xi].e;
				C.run = [m, sched, ex, w](const Cell &c) { allfrag_cell<AIO>(c, m, sched, ex, w); };
				cells.push_back(C);
			}
		}
	}
}

// ---------------------------------------------------------------- part n3: two links into one receiver
template<class AIO> static void n3_cell(const Cell &C, const Mode &m, size_t sched, const std::string v[2], const WireImg w[2])
{
	StateSet S;
	Hs ch; ch.s(C.id);
	uint64_t cellh = ch.fin();
	const std::string kbase = std::string("/") + Tr<AIO>::name() + "/" + m.name;
	for (int order = 0; order < 2; order++)
	for (size_t a = 0; a <= w[0].bytes.size(); a++)
	for (size_t b = 0; b <= w[1].bytes.size(); b++)
	{
		std::string cid = C.id + "/o" + str(order) + "/" + str(a) + "," + str(b);
		if (!R->selected(cid)) continue;
		Rx<AIO> rx(3, m, sched, NULL);
		size_t cut[2] = { a, b };
		for (int step = 0; step < 4; step++)
		{
			int l = (step & 1) ^ order, half = step >> 1;
			size_t from = half ? cut[l] : 0, to = half ? w[l].bytes.size() : cut[l];
			{ Hs h; h.u(cellh), h.u(rx.state(true)), h.u(w[0].bytes.size() - rx.written[0]), h.u(w[1].bytes.size() - rx.written[1]); S.seen.insert(h.fin()); }
			rx.relay(l, w[l].bytes.data() + from, to - from);
			S.transitions++;
			rx.quiesce();
		}
		{ Hs h; h.u(cellh), h.u(rx.state(true)), h.u(0), h.u(0); S.seen.insert(h.fin()); }
		bool nontriv = (a > 0 && a < w[0].bytes.size()) || (b > 0 && b < w[1].bytes.size());
		R->ok(nontriv);
		std::string kind;
		int seen[2] = { 0, 0 };
		for (size_t i = 0; i < rx.got.size() && kind.empty(); i++)
		{
			size_t f = rx.got[i].from;
			if (f > 1) kind = "n3-sender-index";
			else if (rx.got[i].vals.size() != 1 || rx.got[i].vals[0] != v[f]) kind = (rx.got[i].vals.size() == 1 && rx.got[i].vals[0] == v[1 - f]) ? "n3-sender-index" : "n3-changed";
			else if (rx.got[i].at_written[f] < w[f].bytes.size()) kind = "n3-early";
			else if (++seen[f] > 1) kind = "n3-duplicate";
		}
		if (kind.empty() && (seen[0] != 1 || seen[1] != 1)) kind = "n3-lost";
		if (!kind.empty())
			report("c13/" + kind + kbase, "sent " + brief(v[0]) + "<0 " + brief(v[1]) + "<1 delivered " + show(rx.got), cid);
	}
	TOTAL_STATES += S.seen.size(), TOTAL_TRANS += S.transitions;
	R->sample(C.id + "/o0/1,1", "n=3: links 0->2 (" + str(w[0].bytes.size()) + " bytes) and 1->2 (" + str(w[1].bytes.size()) + " bytes), every cut pair x both arrival orders; " +
		str(S.seen.size()) + " distinct states");
}

template<class AIO> static void add_n3_cells(const Mode *modes, size_t nmodes, bool thorough)
{
	for (size_t mi = 0; mi < nmodes; mi++)
	{
		const Mode m = modes[mi];
		bool big = m.enc || m.auth;
		if (!thorough && big && !(m.auth && m.enc && !m.chunk)) continue;   // quick: plain and ae only
		std::string v[2] = { big && !thorough ? "0" : V_B, "61" };
		WireImg w[2];
		for (size_t l = 0; l < 2; l++)
			build_wire<AIO>(3, l, m, singles(std::vector<std::string>(1, v[l])), 20 + l, w[l]);
		for (size_t sched = 1; sched <= 2; sched++)
		{
			if (sched == 2 && !(thorough && m.auth && m.enc) && big) continue;
			Cell C;
			C.id = std::string("n3/") + Tr<AIO>::name() + "/" + m.name + "/" + SCHED_NAME[sched];
			C.cost = 2.0 * (w[0].bytes.size() + 1) * (w[1].bytes.size() + 1) * 4 * (sched == 2 ? 6 : 1);
			std::string v0 = v[0], v1 = v[1];
			WireImg w0 = w[0], w1 = w[1];
			C.run = [m, sched, v0, v1, w0, w1](const Cell &c) { std::string vv[2] = { v0, v1 }; WireImg ww[2] = { w0, w1 }; n3_cell<AIO>(c, m, sched, vv, ww); };
			cells.push_back(C);
		}
	}
}

// ---------------------------------------------------------------- part fault (b)
struct Mut { std::string name; std::string bytes; std::vector<bool> intact; size_t off; bool in_iv; bool whole; };

static void gen_mutations(const WireImg &w, std::vector<Mut> &out)
{
	const std::string &W = w.bytes;
	size_t len = W.size(), nm = w.msg.size();
	auto base = [&](const std::string &name, size_t off) { Mut m; m.name = name, m.off = off, m.intact.assign(nm, true), m.in_iv = off < w.ivlen, m.whole = false; return m; };
	for (size_t o = 0; o < len; o++)
	{
		for (int bit = 0; bit < 8; bit += 7)
		{
			Mut m = base(std::string("flip") + (bit ? "7" : "0") + ":" + str(o), o);
			m.bytes = W, m.bytes[o] = (char)(m.bytes[o] ^ (1 << bit));
			for (size_t k = 0; k < nm; k++) if (w.msg[k].start <= o && o < w.msg[k].end) m.intact[k] = false;
			out.push_back(m);
		}
		{
			Mut m = base("del:" + str(o), o);
			m.bytes = W.substr(0, o) + W.substr(o + 1);
			for (size_t k = 0; k < nm; k++) if (w.msg[k].start <= o && o < w.msg[k].end) m.intact[k] = false;
			out.push_back(m);
		}
		if (o > 0)
		{
			Mut m = base("trunc:" + str(o), o);
			m.bytes = W.substr(0, o);
			for (size_t k = 0; k < nm; k++) if (w.msg[k].end > o) m.intact[k] = false;
			out.push_back(m);
		}
	}
	for (size_t o = 0; o <= len; o++)
	{
		const char ins[3] = { '\n', 'A', '\0' };
		const char *insn[3] = { "insNL", "insA", "ins00" };
		for (int c = 0; c < 3; c++)
		{
			Mut m = base(std::string(insn[c]) + ":" + str(o), o);
			m.in_iv = o < w.ivlen;
			m.bytes = W.substr(0, o) + std::string(1, ins[c]) + W.substr(o);
			for (size_t k = 0; k < nm; k++) if (w.msg[k].start < o && o < w.msg[k].end) m.intact[k] = false;
			out.push_back(m);
		}
	}
	auto seg = [&](size_t k) { return W.substr(w.msg[k].start, w.msg[k].end - w.msg[k].start); };
	std::string head = W.substr(0, w.ivlen);
	for (size_t k = 0; k < nm; k++)
	{
		{	// duplicate message k in place
			Mut m = base("dup:" + str(k), w.msg[k].end);
			m.bytes = W.substr(0, w.msg[k].end) + seg(k) + W.substr(w.msg[k].end);
			out.push_back(m);
		}
		{	// drop message k
			Mut m = base("drop:" + str(k), w.msg[k].start);
			m.bytes = W.substr(0, w.msg[k].start) + W.substr(w.msg[k].end);
			m.intact[k] = false;
			out.push_back(m);
		}
		for (size_t after = 0; after < nm; after++)
		{	// replay message k after message `after` (k <= after; k == after is dup)
			if (k >= after) continue;
			Mut m = base("replay:" + str(k) + "after" + str(after), w.msg[after].end);
			m.bytes = W.substr(0, w.msg[after].end) + seg(k) + W.substr(w.msg[after].end);
			out.push_back(m);
		}
		if (k + 1 < nm)
		{	// swap messages k and k+1
			Mut m = base("swap:" + str(k), w.msg[k].start);
			m.bytes = W.substr(0, w.msg[k].start) + seg(k + 1) + seg(k) + W.substr(w.msg[k + 1].end);
			out.push_back(m);
		}
	}
	// "intact" is decided on the bytes, not on the edit: message k is intact iff its complete byte string (line, '\n', tag)
	// still occurs in the mutated wire (e.g. inserting 'A' in front of an 'A' that ends a tag equals appending 'A')
	// A fault is a WHOLE-MESSAGE fault (insert / remove / replay / reorder of messages) iff the mutated wire is exactly the
	// original IV followed by a sequence of complete original messages; everything else is a byte-level modification.
	for (size_t i = 0; i < out.size(); i++)
	{
		for (size_t k = 0; k < nm; k++)
			out[i].intact[k] = out[i].bytes.find(seg(k)) != std::string::npos;
		const std::string &B = out[i].bytes;
		bool whole = B.compare(0, w.ivlen, head) == 0 && B.size() >= w.ivlen;
		size_t pos = w.ivlen;
		while (whole && pos < B.size())
		{
			size_t k = 0;
			while (k < nm && B.compare(pos, w.msg[k].end - w.msg[k].start, seg(k)) != 0) k++;
			if (k == nm) whole = false;
			else pos += w.msg[k].end - w.msg[k].start;
		}
		out[i].whole = whole;
	}
}

static const char *STYLE_NAME[] = { "whole", "cut", "bytewise" };

template<class AIO> static void fault_cell(const Cell &C, const Mode &m, size_t sched, const std::vector<std::string> &vals, const WireImg &w, int nstyles)
{
	std::vector<Mut> muts;
	gen_mutations(w, muts);
	std::unordered_set<uint64_t> distinct;
	const std::string kbase = std::string("/") + Tr<AIO>::name() + "/" + m.name;
	uint64_t delivered_some = 0, delivered_none = 0, delivered_all = 0;
	for (int style = 0; style < nstyles; style++)
	for (size_t mi = 0; mi < muts.size(); mi++)
	{
		const Mut &mu = muts[mi];
		std::string cid = C.id + "/" + STYLE_NAME[style] + "/" + mu.name;
		if (!R->selected(cid)) continue;
		size_t len = mu.bytes.size();
		if (style == 1 && (mu.off == 0 || mu.off >= len)) continue;   // no interior cut
		Rx<AIO> rx(2, m, sched, NULL);
		if (style == 0) rx.relay(0, mu.bytes.data(), len), rx.quiesce();
		else if (style == 1)
		{
			rx.relay(0, mu.bytes.data(), mu.off), rx.quiesce();
			rx.relay(0, mu.bytes.data() + mu.off, len - mu.off), rx.quiesce();
		}
		else
		{
			for (size_t i = 0; i < len; i++) { rx.relay(0, mu.bytes.data() + i, 1); rx.poll_once(); }
			rx.quiesce();
		}
		TOTAL_TRANS += (style == 0 ? 1 : style == 1 ? 2 : len);
		{ Hs h; h.s(mu.bytes), h.u(style); R->ok(distinct.insert(h.fin()).second && mu.bytes != w.bytes); }
		if (mu.whole) R->counters["fault_runs_whole_message_fault"]++;
		(rx.got.empty() ? delivered_none : rx.got.size() == vals.size() ? delivered_all : delivered_some)++;
		if (!m.auth) continue;   // unauthenticated: surviving the input is all that is required
		std::string kind;
		size_t idx = 0;   // next candidate index in the sent sequence
		for (size_t i = 0; i < rx.got.size() && kind.empty(); i++)
		{
			if (rx.got[i].from != 0) { kind = "fault-sender-index"; break; }
			size_t k = idx;
			while (k < vals.size() && !(mu.intact[k] && vals[k] == rx.got[i].vals[0])) k++;
			if (k == vals.size()) kind = "fault-delivered-forged-or-replayed";
			idx = k + 1;
		}
		if (kind.empty() && !m.chunk && mu.whole)
			for (size_t i = 0; i < rx.got.size() && kind.empty(); i++)
				if (i >= vals.size() || rx.got[i].vals[0] != vals[i]) kind = "fault-not-a-prefix";
		if (kind.empty() && !m.chunk && !mu.whole)
		{
			bool prefix = true;
			for (size_t i = 0; i < rx.got.size(); i++) if (i >= vals.size() || rx.got[i].vals[0] != vals[i]) prefix = false;
			if (!prefix) R->counters[mu.in_iv ? "obs_iv_fault_first_message_lost_later_delivered" : "obs_modification_not_prefix"]++;
		}
		if (!kind.empty())
		{
			std::string key = "c13/" + kind + kbase;
			report(key, "sent " + show(singles(vals)) + " delivered " + show(rx.got) + " under " + mu.name + " (" + STYLE_NAME[style] + "); wire'(" + str(len) + ")=" + hex(mu.bytes, 200), cid);
		}
	}
	R->counters["fault_runs_delivered_none"] += delivered_none;
	R->counters["fault_runs_delivered_some"] += delivered_some;
	R->counters["fault_runs_delivered_all"] += delivered_all;
	R->sample(C.id + "/whole/flip0:" + str(w.bytes.size() / 2), "sent " + show(singles(vals)) + ", wire " + str(w.bytes.size()) + " bytes; " + str(muts.size()) +
		" wire faults x " + str(nstyles) + " relay styles; oracle " + (m.auth ? (m.chunk ? "intact-subsequence" : "intact-prefix") : "no crash"));
}

template<class AIO> static void add_fault_cells(const Mode *modes, size_t nmodes, bool thorough)
{
	for (size_t mi = 0; mi < nmodes; mi++)
	{
		const Mode m = modes[mi];
		std::vector<std::string> vals = { V_F1, V_F2 };
		if (thorough) vals.push_back(V_F3);
		WireImg w;
		build_wire<AIO>(2, 0, m, singles(vals), 30, w);
		for (size_t sched = 1; sched <= 3; sched++)
		{
			if (sched != 1 && !(thorough && m.auth && m.enc)) continue;
			Cell C;
			C.id = std::string("b/") + Tr<AIO>::name() + "/" + m.name + "/" + SCHED_NAME[sched];
			int nstyles = thorough ? 3 : 2;
			double L = (double)w.bytes.size();
			C.cost = L * 10 * (nstyles == 3 ? 2 + L / 8 : 2) * (sched == 2 ? 4 : 1);
			C.run = [m, sched, vals, w, nstyles](const Cell &c) { fault_cell<AIO>(c, m, sched, vals, w, nstyles); };
			cells.push_back(C);
		}
	}
}

// ---------------------------------------------------------------- part conf (c)
static bool contains_digits(const std::string &wire, const std::string &dec)
{
	mpz_t z; mpz_init_set_str(z, dec.c_str(), 10);
	std::string d1 = z62(z);
	mpz_t h; mpz_init_set_ui(h, 1); mpz_mul_2exp(h, h, TMCG_AIO_HIDE_SIZE); mpz_add(z, z, h);
	std::string d2 = z62(z);
	mpz_clear(z), mpz_clear(h);
	if (d1.size() < 24) die("confidentiality value too short");
	return wire.find(d1) != std::string::npos || wire.find(d2) != std::string::npos;
}

template<class AIO> static void conf_cell(const Cell &C, const Mode &m)
{
	const std::string kbase = std::string("/") + Tr<AIO>::name() + "/" + m.name;
	const std::string vs[2] = { V_C1, V_C2 };
	for (int vi = 0; vi < 2; vi++)
	{
		std::string cid = C.id + "/v" + str(vi);
		if (!R->selected(cid)) continue;
		const std::string &v = vs[vi];
		WireImg w1, w2;
		build_wire<AIO>(2, 0, m, singles({ v, v }), 40, w1);
		int64_t clk = mcenv::vclock;
		if (m.chunk) mcenv::set_clock(clk + 40 * 86400);   // chunked mode: the CTR nonce is a function of key and UTC month
		build_wire<AIO>(2, 0, m, singles({ v }), 41, w2);
		mcenv::set_clock(clk);
		R->ok(true);
		std::string a = w1.bytes.substr(w1.msg[0].start, w1.msg[0].end - w1.msg[0].start);
		std::string b = w1.bytes.substr(w1.msg[1].start, w1.msg[1].end - w1.msg[1].start);
		std::string c = w2.bytes.substr(w2.msg[0].start, w2.msg[0].end - w2.msg[0].start);
		// compare the lines (without tag) too: the tag alone differs because of the sequence number
		auto line = [](const std::string &s) { return s.substr(0, s.find('\n')); };
		if (m.enc)
		{
			if (line(a) == line(b) || line(a) == line(c) || line(b) == line(c))
				report("c13/conf-equal-ciphertexts" + kbase, "equal integers gave equal wire lines: " + line(a) + " | " + line(b) + " | " + line(c), cid);
			if (contains_digits(w1.bytes, v) || contains_digits(w2.bytes, v))
				report("c13/conf-digits-on-wire" + kbase, "wire exposes the base-62 digits of " + brief(v), cid);
			// receiver still decrypts (guards against "encrypts with garbage")
			Rx<AIO> rx(2, m, aiounicast::aio_scheduler_roundrobin, NULL);
			rx.relay(0, w1.bytes.data(), w1.bytes.size()), rx.quiesce();
			if (rx.got.size() != 2 || rx.got[0].vals[0] != v || rx.got[1].vals[0] != v)
				report("c13/conf-roundtrip" + kbase, "delivered " + show(rx.got), cid);
		}
		else if (!contains_digits(w1.bytes, v))
			report("c13/conf-control" + kbase, "control failed: unencrypted wire does not contain the digits (oracle vacuous)", cid);
		R->sample(cid, std::string(m.enc ? "encrypted" : "control") + ": v=" + brief(v) + " lines " + line(a).substr(0, 20) + ".. " + line(b).substr(0, 20) + ".. " + line(c).substr(0, 20) + "..");
	}
}

template<class AIO> static void add_conf_cells(const Mode *modes, size_t nmodes)
{
	for (size_t mi = 0; mi < nmodes; mi++)
	{
		const Mode m = modes[mi];
		Cell C;
		C.id = std::string("c/") + Tr<AIO>::name() + "/" + m.name;
		C.cost = 1;
		C.run = [m](const Cell &c) { conf_cell<AIO>(c, m); };
		cells.push_back(C);
	}
}

// ---------------------------------------------------------------- part wenv: the environment's answers to the sender's writes
static int64_t CLOCK0;
struct WRun { std::vector<bool> ok; std::string wire; size_t calls, applied; bool runaway; std::vector<size_t> lens; uint64_t trace; std::vector<uint64_t> obs; std::vector<size_t> taken_before; };

template<class AIO> static WRun wenv_send(const Mode &m, const Exchange &ex, int pattern, const std::map<size_t, int> &dev, const std::vector<long> *script = NULL)
{
	Pool &P = pools[Tr<AIO>::pool()];
	mcenv::set_clock(CLOCK0);
	mcenv::CoinSource cs(SEED, 60);
	slurp(P.cap_r[0]);
	AIO *s = make<AIO>(2, 0, m, aiounicast::aio_scheduler_roundrobin, &cs);
	WS = WScript();
	WS.fd = P.cap_w[0], WS.pattern = pattern, WS.dev = dev;
	if (script) WS.script = *script;
	WS.active = true;
	WRun r;
	for (size_t it = 0; it < ex.size(); it++)
	{
		mpz_t z;
		mpz_init_set_str(z, ex[it].vals[0].c_str(), 10);
		bool ok = s->Send(z, 1, aiounicast::aio_timeout_middle);
		mpz_clear(z);
		r.ok.push_back(ok);
		if (!ok) break;   // the application stops using the link after a failed Send
	}
	WS.active = false;
	r.wire = slurp(P.cap_r[0]);
	r.calls = WS.calls, r.applied = WS.applied, r.runaway = WS.runaway, r.lens = WS.lens, r.trace = WS.trace.fin();
	r.obs = WS.obs, r.taken_before = WS.taken_before;
	delete s;
	mcenv::cur = NULL;
	mcenv::set_clock(CLOCK0);
	return r;
}

static std::vector<int> wdevs_for(size_t len)
{
	std::vector<int> out;
	std::set<size_t> ks;
	for (int d = W_S1; d <= W_SLM1; d++)
	{
		size_t k = wdev_k(d, len);
		if (k && ks.insert(k).second) out.push_back(d);
	}
	out.push_back(W_EAGAIN), out.push_back(W_EINTR), out.push_back(W_EWOULDBLOCK);
	return out;
}

template<class AIO> static void wenv_cell(const Cell &C, const Mode &m, const Exchange &ex, bool pairs)
{
	const std::string kbase = std::string("c13/wenv/") + Tr<AIO>::name() + "/" + m.name + "/";
	std::map<size_t, int> none;
	WRun base = wenv_send<AIO>(m, ex, 0, none);
	std::set<std::string> images;
	std::unordered_set<uint64_t> traces;
	uint64_t schedules = 0, calls = 0, send_false = 0;
	auto judge = [&](const std::string &cid, const WRun &r, const std::string &what)
	{
		schedules++, calls += r.calls, TOTAL_TRANS += r.calls;
		R->ok(r.applied > 0 && traces.insert(r.trace).second && !DUP);
		bool allok = r.ok.size() == ex.size();
		size_t nsucc = 0;
		for (size_t i = 0; i < r.ok.size(); i++) if (r.ok[i]) nsucc++; else allok = false;
		std::string ctx = "sent " + show(ex) + " under write schedule " + what + " (" + str(r.calls) + " write calls, Send returned";
		for (size_t i = 0; i < r.ok.size(); i++) ctx += r.ok[i] ? " true" : " false";
		ctx += ")";
		if (r.runaway)
			report(kbase + "runaway-write-loop", ctx + ": more than 5000 write calls", cid);
		if (allok)
		{
			images.insert(r.wire);
			if (r.wire != base.wire)
			{
				size_t o = 0;
				while (o < r.wire.size() && o < base.wire.size() && r.wire[o] == base.wire[o]) o++;
				report(kbase + "wire-differs", ctx + ": wire has " + str(r.wire.size()) + " bytes, deviation-free wire " + str(base.wire.size()) + ", first difference at offset " + str(o) +
					"; wire=" + hex(r.wire, 120) + " expected=" + hex(base.wire, 120), cid);
			}
		}
		else send_false++;
		Rx<AIO> rx(2, m, aiounicast::aio_scheduler_roundrobin, &ex);
		rx.relay(0, r.wire.data(), r.wire.size()), rx.quiesce();
		bool prefix = rx.got.size() <= ex.size();
		for (size_t i = 0; i < rx.got.size() && prefix; i++) if (rx.got[i].vals != ex[i].vals || rx.got[i].from != 0) prefix = false;
		if (!prefix)
			report(kbase + "delivered-changed-or-spurious", ctx + ": delivered " + show(rx.got), cid);
		else if (rx.got.size() < nsucc)
			report(kbase + "accepted-not-delivered", ctx + ": delivered " + show(rx.got), cid);
	};
	if (base.applied != 0 || base.ok.size() != ex.size()) die("wenv: deviation-free run is not deviation free");
	if (R->selected(C.id + "/-")) judge(C.id + "/-", base, "default");
	const std::string &only = R->args.only;
	for (size_t i = 0; i < base.lens.size(); i++)
	{
		std::vector<int> d1s = wdevs_for(base.lens[i]);
		for (size_t a = 0; a < d1s.size(); a++)
		{
			std::string id1 = C.id + "/" + str(i) + ":" + WDEV_NAME[d1s[a]];
			bool want_pairs = pairs && (only.empty() || only.compare(0, id1.size() + 1, id1 + ",") == 0);
			if (!R->selected(id1) && !want_pairs) continue;
			std::map<size_t, int> dv; dv[i] = d1s[a];
			WRun r1 = wenv_send<AIO>(m, ex, 0, dv);
			if (R->selected(id1)) judge(id1, r1, str(i) + ":" + WDEV_NAME[d1s[a]]);
			if (!want_pairs) continue;
			for (size_t j = i + 1; j < r1.lens.size(); j++)
			{
				std::vector<int> d2s = wdevs_for(r1.lens[j]);
				for (size_t b = 0; b < d2s.size(); b++)
				{
					std::string id2 = id1 + "," + str(j) + ":" + WDEV_NAME[d2s[b]];
					if (!R->selected(id2)) continue;
					std::map<size_t, int> dv2 = dv; dv2[j] = d2s[b];
					WRun r2 = wenv_send<AIO>(m, ex, 0, dv2);
					judge(id2, r2, str(i) + ":" + WDEV_NAME[d1s[a]] + "," + str(j) + ":" + WDEV_NAME[d2s[b]]);
				}
			}
		}
	}
	const char *pn[] = { "", "all1", "alt-eagain" };
	for (int pat = 1; pat <= 2; pat++)
		if (R->selected(C.id + "/" + pn[pat])) { WRun r = wenv_send<AIO>(m, ex, pat, none); judge(C.id + "/" + pn[pat], r, pn[pat]); }
	R->counters["wenv_exchanges"]++;
	R->counters["wenv_distinct_wire_images"] += images.size();
	R->counters["wenv_schedules"] += schedules;
	R->counters["wenv_write_calls_seen"] += calls;
	R->counters["wenv_runs_with_a_send_returning_false"] += send_false;
	std::string lens;
	for (size_t i = 0; i < base.lens.size(); i++) lens += (i ? "+" : "") + str(base.lens[i]);
	R->sample(C.id + "/0:s1", "sent " + show(ex) + ": " + str(base.lens.size()) + " write calls (" + lens + " bytes) in the deviation-free run; " + str(schedules) +
		" write schedules (" + (pairs ? "pairs" : "single deviations") + " + 2 patterns), " + str(images.size()) + " distinct wire image(s)");
}

template<class AIO> static void add_wenv_cells(const Mode *modes, size_t nmodes, bool thorough)
{
	for (size_t mi = 0; mi < nmodes; mi++)
	{
		const Mode m = modes[mi];
		const char *names[2] = { "w1", "w2" };
		Exchange exs[2] = { singles({ V_B }), singles({ "61", V_A }) };
		for (int xi = 0; xi < 2; xi++)
		{
			Cell C;
			C.id = std::string("w/") + Tr<AIO>::name() + "/" + m.name + "/" + names[xi];
			size_t nw = (xi + 1) * (1 + (m.auth ? 1 : 0)) + (m.enc ? 1 : 0);
			C.cost = 49.0 * nw * nw / 2;
			Exchange ex = exs[xi];
			bool pairs = !R->args.has("wsingle");
			C.run = [m, ex, pairs](const Cell &c) { wenv_cell<AIO>(c, m, ex, pairs); };
			cells.push_back(C);
		}
	}
}


// ---------------------------------------------------------------- part allwrite: ALL answer sequences of the write side
// The environment answers every write call of the sender with "k octets taken" for ANY k from 1 to the requested length, or
// with EAGAIN / EINTR (at most two error answers in a row, otherwise the space is infinite).  A history is the list of
// answers given so far (afterwards every write is taken completely).  What the sender does next depends on the history only
// through (octets taken so far, length of the current error streak): that is the canonical state, and the assumption is
// CHECKED on the fly - the request the sender makes in a state (length and octets) is recorded per state and must be the same
// whenever the state is reached again (a difference is reported as a machinery error and the state is not merged).
// Breadth-first search over the states; every transition is one complete real run of Send under the history + one answer,
// judged like the wenv runs: every Send returned true => the wire equals the deviation-free wire octet for octet and a fresh
// receiver delivers exactly the sent integers; otherwise what is delivered is a prefix containing every accepted integer.
template<class AIO> static void allwrite_cell(const Cell &C, const Mode &m, const Exchange &ex)
{
	const std::string kbase = std::string("c13/wenv/") + Tr<AIO>::name() + "/" + m.name + "/";
	std::map<size_t, int> none;
	std::vector<long> empty;
	WRun base = wenv_send<AIO>(m, ex, 3, none, &empty);
	if (base.applied != 0 || base.ok.size() != ex.size()) die("allwrite: deviation-free run is not deviation free");
	uint64_t runs = 0, calls = 0, send_false = 0, merged = 0;
	bool complete = true;
	auto histstr = [](const std::vector<long> &h) { std::string o; for (size_t i = 0; i < h.size(); i++) o += (i ? " " : "") + (h[i] == -1 ? std::string("EAGAIN") : h[i] == -2 ? std::string("EINTR") : str((size_t)h[i])); return o; };
	auto judge = [&](const std::vector<long> &hist, const WRun &r)
	{
		runs++, calls += r.calls, TOTAL_TRANS++;
		R->ok(!DUP);
		std::string cid = C.id + "/" + histstr(hist);
		bool allok = r.ok.size() == ex.size();
		size_t nsucc = 0;
		for (size_t i = 0; i < r.ok.size(); i++) if (r.ok[i]) nsucc++; else allok = false;
		std::string ctx = "sent " + show(ex) + " under the write answers [" + histstr(hist) + "] (" + str(r.calls) + " write calls, Send returned";
		for (size_t i = 0; i < r.ok.size(); i++) ctx += r.ok[i] ? " true" : " false";
		ctx += ")";
		if (r.runaway) report(kbase + "runaway-write-loop", ctx + ": more than 5000 write calls", cid);
		if (allok)
		{
			if (r.wire != base.wire)
			{
				size_t o = 0;
				while (o < r.wire.size() && o < base.wire.size() && r.wire[o] == base.wire[o]) o++;
				report(kbase + "wire-differs", ctx + ": wire has " + str(r.wire.size()) + " bytes, deviation-free wire " + str(base.wire.size()) + ", first difference at offset " + str(o) +
					"; wire=" + hex(r.wire, 120) + " expected=" + hex(base.wire, 120), cid);
			}
			else return;   // the receiver's behaviour on this wire image is the business of the other parts
		}
		else send_false++;
		Rx<AIO> rx(2, m, aiounicast::aio_scheduler_roundrobin, &ex);
		rx.relay(0, r.wire.data(), r.wire.size()), rx.quiesce();
		bool prefix = rx.got.size() <= ex.size();
		for (size_t i = 0; i < rx.got.size() && prefix; i++) if (rx.got[i].vals != ex[i].vals || rx.got[i].from != 0) prefix = false;
		if (!prefix) report(kbase + "delivered-changed-or-spurious", ctx + ": delivered " + show(rx.got), cid);
		else if (rx.got.size() < nsucc) report(kbase + "accepted-not-delivered", ctx + ": delivered " + show(rx.got), cid);
	};
	// canonical state -> observed request; frontier of histories
	std::map<std::pair<size_t, int>, uint64_t> request_of;
	std::set<std::pair<size_t, int> > seen;
	std::deque<std::vector<long> > frontier;
	frontier.push_back(empty);
	seen.insert(std::make_pair((size_t)0, 0));
	while (!frontier.empty())
	{
		if (R->out_of_time()) { complete = false; break; }
		std::vector<long> h = frontier.front();
		frontier.pop_front();
		// the request the sender makes after this history (call number h.size()) is known from the run of the history itself
		WRun here = wenv_send<AIO>(m, ex, 3, none, &h);
		if (here.lens.size() <= h.size()) continue;               // no further write call: the exchange is over (or Send gave up)
		const size_t n = here.lens[h.size()];
		int streak = 0;
		for (size_t i = h.size(); i-- > 0 && h[i] < 0;) streak++;
		{
			std::pair<size_t, int> st(here.taken_before[h.size()], streak);
			std::map<std::pair<size_t, int>, uint64_t>::iterator it = request_of.find(st);
			if (it == request_of.end()) request_of[st] = here.obs[h.size()];
			else if (it->second != here.obs[h.size()]) die("allwrite: the request of the sender is not a function of (octets taken, error streak) in " + C.id + " after [" + histstr(h) + "]");
		}
		std::vector<long> answers;
		for (size_t k = 1; k < n; k++) answers.push_back((long)k);
		answers.push_back((long)n);
		if (streak < 2) answers.push_back(-1), answers.push_back(-2);
		for (size_t a = 0; a < answers.size(); a++)
		{
			std::vector<long> h2(h);
			h2.push_back(answers[a]);
			if (!R->selected(C.id + "/" + histstr(h2)) && !R->args.only.empty()) continue;
			WRun r = wenv_send<AIO>(m, ex, 3, none, &h2);
			judge(h2, r);
			size_t taken = here.taken_before[h.size()] + (answers[a] > 0 ? (size_t)answers[a] : 0);
			std::pair<size_t, int> st(taken, answers[a] < 0 ? streak + 1 : 0);
			if (r.lens.size() > h2.size())
			{
				// on-the-fly check of the merge assumption for the successor as well
				std::map<std::pair<size_t, int>, uint64_t>::iterator it = request_of.find(st);
				if (it == request_of.end()) request_of[st] = r.obs[h2.size()];
				else if (it->second != r.obs[h2.size()]) die("allwrite: the request of the sender is not a function of (octets taken, error streak) in " + C.id + " after [" + histstr(h2) + "]");
			}
			if (seen.insert(st).second) frontier.push_back(h2);
			else merged++;
		}
	}
	TOTAL_STATES += seen.size();
	R->counters["allwrite_states"] += seen.size(), R->counters["allwrite_runs"] += runs, R->counters["allwrite_write_calls_seen"] += calls;
	R->counters["allwrite_runs_with_a_send_returning_false"] += send_false, R->counters["allwrite_merged_successors"] += merged;
	if (!complete) R->counters["allwrite_cells_incomplete"]++, R->caps.insert("allwrite cell " + C.id + " stopped at the deadline");
	else R->counters["allwrite_cells_complete"]++;
	R->sample(C.id, "sent " + show(ex) + " wire " + str(base.wire.size()) + " octets in " + str(base.lens.size()) + " write calls: " + str(seen.size()) + " states (octets taken, error streak), " +
		str(runs) + " complete runs of Send (one per state and answer), complete=" + str(complete ? 1 : 0));
}

template<class AIO> static void add_allwrite_cells(const Mode *modes, size_t nmodes, bool thorough)
{
	for (size_t mi = 0; mi < nmodes; mi++)
	{
		const Mode m = modes[mi];
		const char *names[3] = { "w1", "w2", "w3" };
		Exchange exs[3] = { singles({ V_B }), singles({ "61", V_A }), singles({ "0", V_D, "62" }) };
		for (int xi = 0; xi < (thorough ? 3 : 2); xi++)
		{
			Cell C;
			C.id = std::string("aw/") + Tr<AIO>::name() + "/" + m.name + "/" + names[xi];
			C.cost = 1000.0 * (xi + 1) * (xi + 1) * (1 + (m.auth ? 1 : 0) + (m.enc ? 1 : 0));
			Exchange ex = exs[xi];
			C.run = [m, ex](const Cell &c) { allwrite_cell<AIO>(c, m, ex); };
			cells.push_back(C);
		}
	}
}

// ------------------------------------------------------------------------------------------------ main
int main(int argc, char **argv)
{
	Args A = parse(argc, argv);
	Report rep(A);
	R = &rep;
	R->max_samples = 6;
	if (!init_libTMCG()) return 2;
	signal(SIGPIPE, SIG_IGN);
	mcenv::kdf_iter_clamp = 1;
	SEED = mcenv::env_seed();
	CLOCK0 = mcenv::vclock;
	MuteCerr mute;
	setup_pools();
	init_values();
	bool thorough = (A.tier == "thorough");
	if (A.has("depth1")) thorough = false;   // re-run the quick bounds inside the thorough tier
	MAXDEPTH = (int)A.geti("maxdepth", 2);
	DUP = A.has("dup");
	std::string part = A.get("part", "all");
	const size_t NS = sizeof(MODES_SELECT) / sizeof(Mode), NN = sizeof(MODES_NONBLOCK) / sizeof(Mode);
	if (part == "frag" || part == "all") add_frag_cells<aiounicast_select>(MODES_SELECT, NS, thorough), add_frag_cells<aiounicast_nonblock>(MODES_NONBLOCK, NN, thorough);
	if (part == "allfrag" || part == "all") add_allfrag_cells<aiounicast_select>(MODES_SELECT, NS, thorough), add_allfrag_cells<aiounicast_nonblock>(MODES_NONBLOCK, NN, thorough);
	if (part == "n3" || part == "all") add_n3_cells<aiounicast_select>(MODES_SELECT, NS, thorough), add_n3_cells<aiounicast_nonblock>(MODES_NONBLOCK, NN, thorough);
	if (part == "fault" || part == "all") add_fault_cells<aiounicast_select>(MODES_SELECT, NS, thorough), add_fault_cells<aiounicast_nonblock>(MODES_NONBLOCK, NN, thorough);
	if (part == "allwrite" || part == "all") add_allwrite_cells<aiounicast_select>(MODES_SELECT, NS, thorough), add_allwrite_cells<aiounicast_nonblock>(MODES_NONBLOCK, NN, thorough);
	if (part == "wenv" || part == "all") add_wenv_cells<aiounicast_select>(MODES_SELECT, NS, thorough), add_wenv_cells<aiounicast_nonblock>(MODES_NONBLOCK, NN, thorough);
	if (part == "conf" || part == "all") add_conf_cells<aiounicast_select>(MODES_SELECT, NS), add_conf_cells<aiounicast_nonblock>(MODES_NONBLOCK, NN);

	// deterministic longest-processing-time assignment of cells to shards (same in every shard)
	std::vector<size_t> order(cells.size());
	for (size_t i = 0; i < order.size(); i++) order[i] = i;
	std::stable_sort(order.begin(), order.end(), [](size_t a, size_t b) { return cells[a].cost > cells[b].cost; });
	std::vector<double> load(A.nshards, 0.0);
	std::vector<unsigned> owner(cells.size(), 0);
	for (size_t i = 0; i < order.size(); i++)
	{
		unsigned best = 0;
		for (unsigned s = 1; s < A.nshards; s++) if (load[s] < load[best]) best = s;
		owner[order[i]] = best, load[best] += cells[order[i]].cost;
	}
	for (size_t i = 0; i < order.size(); i++)
	{
		const Cell &C = cells[order[i]];
		if (owner[order[i]] != A.shard) continue;
		if (!A.only.empty() && A.only.compare(0, C.id.size() + 1, C.id + "/") != 0) continue;
		if (A.has("cell") && C.id.find(A.get("cell")) == std::string::npos) continue;   // debugging aid
		if (R->out_of_time()) break;
		printf("{\"t\":\"at\",\"case\":\"%s\"}\n", jesc(C.id).c_str());
		fflush(stdout);
		viol_printed.clear();
		double t0 = now();
		C.run(C);
		if (A.has("timing")) fprintf(stderr, "%-40s cost %.0f secs %.2f\n", C.id.c_str(), C.cost, now() - t0);
	}
	R->counters["states"] = TOTAL_STATES;
	R->counters["transitions"] = TOTAL_TRANS;
	R->counters["traces_validated_against_impl"] = TOTAL_TRANS;
	R->counters["cells"] = 0;
	for (size_t i = 0; i < cells.size(); i++) if (owner[i] == A.shard) R->counters["cells"]++;
	R->bound = thorough ? "all single cuts and all pairs of cuts (max-size value: single cuts); faults at every offset of a 3-message wire"
		: "all single cuts; pairs for 1-2 message exchanges; faults at every offset of a 2-message wire";
	if (part == "allfrag") R->bound = "ALL fragmentations and poll interleavings of the wire image of each listed exchange (explicit-state search over the real receiver, complete unless a cap is listed)";
	if (part == "allwrite") R->bound = "ALL sequences of write answers (any number of octets taken, EAGAIN, EINTR; error streaks <= 2) for exchanges of 1, 2 (and 3) integers, by state-space search over (octets taken, error streak)";
	if (part == "wenv") R->bound = "every single and every ordered pair of write-environment deviations at every write call, exchanges of 1 and 2 integers";
	R->finish();
	return 0;
}
