// C14 — binding of the Promela model (models/rbc.pml) to the implementation.
//
// For each bounded configuration the labelled transition system of the MODEL (printed by pan through c_code, compiled
// with -DCONF -DNOREDUCE) and of the REAL CODE (breadth-first search on the real RBC objects, c14_world.hh) are compared
// as sets of triples  (projected pre-state, label, projected post-state)  under the common projection
// (dump_state in the model == World::project in the harness).  Configurations that are exhaustible are compared
// completely (n=2, n=3, t=0); n=4,t=1 (honest and with Byzantine scripts) up to DMAX events, where both sides print every
// transition out of every state whose minimal depth is < DMAX.  A difference is a MODEL DIVERGENCE (the model no longer
// speaks about this code): it is reported as such, never as a property verdict.
// The thorough tier additionally runs the large model-checking jobs on the model alone (n=4,t=1 all interleavings; Byzantine
// scripts) and reports Spin's states/transitions/errors.
#include "c14_world.hh"
#include <unordered_set>
#include <sys/stat.h>

using namespace drv;
using namespace c14;

static Report *R;

struct Conf {
	int n, t, fifo, sender, byz, dmax;
	int sc[12];      // BS0..2, BE0..2, BR0..2, BA0..2
	std::string id() const
	{
		std::string s = "conf:n=" + str(n) + ",t=" + str(t) + ",fifo=" + str(fifo) + ",sender=" + str(sender) + ",byz=" + str(byz) + ",dmax=" + str(dmax) + ",script=";
		for (int i = 0; i < 12; i++) s += str(sc[i]);
		return s;
	}
};

static Cfg make_cfg(const Conf &c)
{
	Cfg cfg;
	cfg.n = c.n, cfg.t = c.t, cfg.fifo = c.fifo != 0, cfg.byz = c.byz;
	cfg.honest.assign(c.n, true);
	if (c.byz >= 0) cfg.honest[c.byz] = false;
	cfg.prog.resize(c.n);
	cfg.script_sequential = true;
	cfg.cls1 = 1000, cfg.cls2 = 7002;
	if (c.sender != c.byz) cfg.prog[c.sender].push_back(Ev{'B', 1000, 0, 0});
	if (c.byz >= 0)
	{
		std::vector<int> hon;
		for (int i = 0; i < c.n; i++) if (cfg.honest[i]) hon.push_back(i);
		std::string id = chan_id(cfg);
		std::string slot = first_slot(cfg, c.sender);
		unsigned long val[3] = {0, 1000, 7002};
		const int act[4] = {1, 2, 3, 5};
		for (int ph = 0; ph < 4; ph++)
			for (int k = 0; k < 3 && k < (int)hon.size(); k++)
			{
				int v = c.sc[ph * 3 + k];
				if (!v) continue;
				BMsg b;
				b.to = hon[k];
				mpz_t t; mpz_init(t);
				b.f[0] = id;
				mpz_set_ui(t, c.sender), b.f[1] = zstr(t);
				b.f[2] = slot;
				mpz_set_ui(t, act[ph]), b.f[3] = zstr(t);
				if (ph == 0 || ph == 3) { mpz_set_ui(t, val[v]); b.f[4] = zstr(t); }
				else b.f[4] = digest_of(val[v]);
				mpz_clear(t);
				cfg.script.push_back(b);
			}
	}
	return cfg;
}

static std::string label_of(const Ev &e)
{
	if (e.k == 'M') return "M" + str(e.a) + "." + str(e.b);
	if (e.k == 'G') return "G" + str(e.a) + ".0";
	if (e.k == 'Z') return "Z" + str(e.a);
	return ev_str(e);
}

static uint64_t g_states = 0, g_transitions = 0;

static bool code_side(const Conf &c, std::set<std::string> &triples, std::string &viol)
{
	Cfg cfg = make_cfg(c);
	std::unordered_set<std::string> seen;
	std::deque<Hist> frontier;
	{
		World *w0 = build(cfg, Hist());
		seen.insert(w0->canon(true, false));
		delete w0;
	}
	frontier.push_back(Hist());
	while (!frontier.empty())
	{
		Hist h = frontier.front();
		frontier.pop_front();
		if ((int)h.size() >= c.dmax) continue;
		World *w = build(cfg, h);
		w->init_projection(c.sender);
		std::string pre = w->project();
		std::vector<Ev> en = w->enabled(true);
		delete w;
		for (size_t i = 0; i < en.size(); i++)
		{
			World *x = build(cfg, h);
			x->init_projection(c.sender);
			x->apply(en[i]);
			g_transitions++;
			if (!x->viol_key.empty() && viol.empty()) viol = x->viol_key + ": " + x->viol_what;
			triples.insert(pre + "| " + label_of(en[i]) + " | " + x->project());
			std::string k = x->canon(true, false);
			Hist h2 = h;
			h2.push_back(en[i]);
			delete x;
			if (seen.insert(k).second) frontier.push_back(h2);
		}
		if ((seen.size() & 255) == 0 && R->out_of_time()) return false;
	}
	g_states += seen.size();
	return true;
}

static std::string abs_root()
{
	if (getenv("VERIF_ROOT")) return getenv("VERIF_ROOT");
	char buf[4096];
	return getcwd(buf, sizeof buf) ? std::string(buf) : std::string("/verif");
}

static std::string spin_dir(const std::string &tag)
{
	std::string d = std::string(getenv("VERIF_SPIN_DIR") ? getenv("VERIF_SPIN_DIR") : (abs_root() + "/build/spin")) + "/" + tag;
	std::string cmd = "mkdir -p " + d;
	if (system(cmd.c_str())) {}
	return d;
}

static std::string defs_of(const Conf &c)
{
	std::string d = " -DN=" + str(c.n) + " -DT=" + str(c.t) + " -DFIFO=" + str(c.fifo) + " -DSENDER=" + str(c.sender) + " -DBYZ=" + str(c.byz < 0 ? 255 : c.byz);
	const char *nm[12] = {"BS0", "BS1", "BS2", "BE0", "BE1", "BE2", "BR0", "BR1", "BR2", "BA0", "BA1", "BA2"};
	for (int i = 0; i < 12; i++) if (c.sc[i]) d += std::string(" -D") + nm[i] + "=" + str(c.sc[i]);
	return d;
}

static bool model_side(const Conf &c, std::set<std::string> &triples, std::string &err, uint64_t &mstates)
{
	char tag[64];
	snprintf(tag, sizeof tag, "c%016llx", (unsigned long long)World::hash64(c.id(), 7));
	std::string d = spin_dir(tag);
	std::string defs = defs_of(c) + " -DCONF" + (c.dmax < 1000 ? " -DDMAX=" + str(c.dmax) : std::string(""));
	std::string root = abs_root();
	std::string cmd = "cd " + d + " && spin -a" + defs + " " + root + "/models/rbc.pml > spin.log 2>&1 && gcc -O1 -w -DSAFETY -DNOREDUCE -DMEMLIM=8000 -o pan pan.c > gcc.log 2>&1";
	if (system(cmd.c_str())) { err = "spin/gcc failed for " + c.id() + " (see " + d + ")"; return false; }
	cmd = "cd " + d + " && timeout 900 ./pan -E -m1000000 -w22 2>&1";
	FILE *f = popen(cmd.c_str(), "r");
	if (!f) { err = "cannot run pan"; return false; }
	char *line = NULL;
	size_t cap = 0;
	ssize_t len;
	bool errors0 = false;
	while ((len = getline(&line, &cap, f)) > 0)
	{
		if (len > 2 && line[0] == 'T' && line[1] == ' ')
		{
			std::string s(line + 2, len - 2);
			while (!s.empty() && (s[s.size() - 1] == '\n' || s[s.size() - 1] == ' ')) s.erase(s.size() - 1);
			// normalise: the harness prints "pre| label | post" with a trailing blank inside the states
			triples.insert(s);
		}
		else if (strstr(line, "errors: 0")) errors0 = true;
		else if (strstr(line, "states, stored")) mstates = strtoull(line, NULL, 10);
	}
	free(line);
	int rc = pclose(f);
	if (!errors0) { err = "pan reported errors or did not finish for " + c.id() + " rc=" + str(rc); return false; }
	return true;
}

static std::string norm(const std::string &s)
{
	// collapse runs of blanks and trim, so both printers only need to agree on tokens
	std::string o;
	bool sp = false;
	for (size_t i = 0; i < s.size(); i++)
	{
		if (s[i] == ' ') { sp = true; continue; }
		if (sp && !o.empty()) o += ' ';
		sp = false;
		o += s[i];
	}
	return o;
}

static void run_conf(const Conf &c)
{
	std::string cell = c.id();
	std::set<std::string> code_raw, model_raw, code, model;
	std::string viol, err;
	uint64_t mstates = 0;
	if (!code_side(c, code_raw, viol)) { R->exhaustive = false; R->caps.insert("incomplete:" + cell); return; }
	if (!model_side(c, model_raw, err, mstates))
	{
		printf("{\"t\":\"error\",\"what\":\"%s\"}\n", jesc(err).c_str());
		R->counters["model_runs_failed"]++;
		return;
	}
	for (std::set<std::string>::iterator i = code_raw.begin(); i != code_raw.end(); ++i) code.insert(norm(*i));
	for (std::set<std::string>::iterator i = model_raw.begin(); i != model_raw.end(); ++i) model.insert(norm(*i));
	size_t common = 0, only_code = 0, only_model = 0;
	std::string ex_code, ex_model;
	for (std::set<std::string>::iterator i = code.begin(); i != code.end(); ++i)
		if (model.count(*i)) common++; else { only_code++; if (ex_code.empty()) ex_code = *i; }
	for (std::set<std::string>::iterator i = model.begin(); i != model.end(); ++i)
		if (!code.count(*i)) { only_model++; if (ex_model.empty()) ex_model = *i; }
	R->ok();
	R->counters["conf_triples_common"] += common;
	R->counters["conf_triples_only_code"] += only_code;
	R->counters["conf_triples_only_model"] += only_model;
	R->counters["traces_validated_against_impl"] += common;
	R->counters["model_states_conf"] += mstates;
	if (only_code || only_model)
	{
		R->counters["model_divergent_cells"]++;
		printf("{\"t\":\"divergence\",\"case\":\"%s\",\"only_code\":%zu,\"only_model\":%zu,\"example_code\":\"%s\",\"example_model\":\"%s\"}\n",
			jesc(cell).c_str(), only_code, only_model, jesc(ex_code).c_str(), jesc(ex_model).c_str());
	}
	if (!viol.empty())
		R->viol("rbc/" + viol.substr(0, viol.find(':')), viol + " (found while enumerating the conformance fragment)", cell);
	R->sample(cell, "model triples=" + str(model.size()) + " code triples=" + str(code.size()) + " common=" + str(common) + " model states=" + str(mstates));
}

// large property run on the model alone
static void run_model_job(const Conf &c, int memlim_mb, int tlimit_s)
{
	char tag[64];
	snprintf(tag, sizeof tag, "m%016llx", (unsigned long long)World::hash64(c.id(), 11));
	std::string d = spin_dir(tag), root = abs_root();
	std::string cmd = "cd " + d + " && spin -a" + defs_of(c) + " " + root + "/models/rbc.pml > spin.log 2>&1 && gcc -O2 -w -DSAFETY -DCOLLAPSE -DMEMLIM=" + str(memlim_mb) + " -o pan pan.c > gcc.log 2>&1 && timeout " + str(tlimit_s) + " ./pan -m400000 -w26 2>&1";
	FILE *f = popen(cmd.c_str(), "r");
	if (!f) return;
	char *line = NULL;
	size_t cap = 0;
	ssize_t len;
	uint64_t states = 0, trans = 0;
	int errors = -1;
	bool incomplete = false;
	while ((len = getline(&line, &cap, f)) > 0)
	{
		if (strstr(line, "states, stored")) states = strtoull(line, NULL, 10);
		else if (strstr(line, "transitions (=")) trans = (uint64_t)strtod(line, NULL);
		else if (strstr(line, "errors:")) errors = atoi(strstr(line, "errors:") + 7);
		else if (strstr(line, "Search not completed") || strstr(line, "exceeds")) incomplete = true;
	}
	free(line);
	pclose(f);
	R->ok();
	std::string cell = "model:" + c.id();
	R->counters["model_states"] += states;
	R->counters["model_transitions"] += trans;
	if (errors != 0 || incomplete)
	{
		if (errors > 0)
		{
			R->counters["model_counterexamples_unconfirmed"]++;
			printf("{\"t\":\"divergence\",\"case\":\"%s\",\"only_code\":0,\"only_model\":0,\"example_code\":\"\",\"example_model\":\"pan reported %d error(s): trail in %s\"}\n", jesc(cell).c_str(), errors, d.c_str());
		}
		R->exhaustive = false;
		R->caps.insert("model-incomplete:" + cell);
	}
	R->sample(cell, "spin states=" + str(states) + " transitions=" + str(trans) + " errors=" + str(errors) + (incomplete ? " INCOMPLETE" : ""));
}

int main(int argc, char **argv)
{
	Args A = parse(argc, argv);
	Report rep(A);
	R = &rep;
	if (!init_libTMCG()) return 2;
	mcenv::hash_cache = true;
	MuteCerr mute;
	bool th = A.tier == "thorough";
	std::vector<Conf> confs;
	Conf z; memset(&z, 0, sizeof z);
	for (int f = 1; f >= 0; f--)
	{
		Conf c = z; c.n = 2, c.t = 0, c.fifo = f, c.sender = 0, c.byz = -1, c.dmax = 100000; confs.push_back(c);
		c.n = 3; confs.push_back(c);
		c.sender = 1; confs.push_back(c);
		c.n = 4, c.t = 1, c.sender = 0, c.dmax = th ? 9 : 7; confs.push_back(c);
	}
	// Byzantine fragments, n=4,t=1: a few scripts that reach request/answer and conflicting digests
	const int scripts[][12] = {
		{1, 2, 0, 1, 2, 0, 1, 2, 0, 0, 0, 0},   // equivocating sender (byz = sender 0): m1 to A, m2 to B, nothing to C
		{1, 1, 2, 0, 0, 0, 1, 1, 1, 0, 0, 0},
		{0, 0, 0, 2, 2, 2, 2, 2, 2, 2, 2, 2},   // relay (byz = 3, honest sender 0): fake echoes, readys, answers
		{0, 0, 0, 1, 1, 1, 1, 1, 1, 1, 1, 1},
	};
	for (int f = 1; f >= 0; f--)
		for (int s = 0; s < 4; s++)
		{
			Conf c = z; c.n = 4, c.t = 1, c.fifo = f, c.dmax = th ? 8 : 6;
			if (s < 2) c.sender = 0, c.byz = 0; else c.sender = 0, c.byz = 3;
			for (int i = 0; i < 12; i++) c.sc[i] = scripts[s][i];
			confs.push_back(c);
		}
	std::string part = A.get("part", "conf");
	if (part == "conf")
	{
		for (size_t i = 0; i < confs.size(); i++)
		{
			if (!rep.mine() || !rep.selected(confs[i].id())) continue;
			if (rep.out_of_time()) break;
			run_conf(confs[i]);
		}
	}
	else if (part == "model")
	{
		// exhaustive runs on the model alone (thorough tier): n=4,t=1 honest in both modes, and Byzantine scripts
		std::vector<Conf> jobs;
		for (int f = 1; f >= 0; f--) { Conf c = z; c.n = 4, c.t = 1, c.fifo = f, c.sender = 0, c.byz = -1, c.dmax = 100000; jobs.push_back(c); }
		for (int f = 1; f >= 0; f--)
			for (int s = 0; s < 4; s++)
			{
				Conf c = z; c.n = 4, c.t = 1, c.fifo = f, c.dmax = 100000;
				if (s < 2) c.sender = 0, c.byz = 0; else c.sender = 0, c.byz = 3;
				for (int i = 0; i < 12; i++) c.sc[i] = scripts[s][i];
				jobs.push_back(c);
			}
		for (size_t i = 0; i < jobs.size(); i++)
		{
			if (!rep.mine() || !rep.selected("model:" + jobs[i].id())) continue;
			run_model_job(jobs[i], 12000, (int)(A.deadline > 0 ? A.deadline : 1200));
		}
	}
	rep.counters["states"] = g_states;
	rep.counters["transitions"] = g_transitions;
	rep.nontrivial = g_states;
	rep.evaluations = g_transitions;
	rep.bound = th ? "conformance: n=2,3 complete; n=4 depth 9 (honest) / 8 (Byzantine)" : "conformance: n=2,3 complete; n=4 depth 7 (honest) / 6 (Byzantine)";
	rep.finish();
	return 0;
}
