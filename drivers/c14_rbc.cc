// C14 — reliable broadcast: agreement, integrity, no duplication, FIFO order, channel isolation, validity, totality.
//
// The real CachinKursawePetzoldShoupRBC objects are driven one message at a time (c14_world.hh).  Explorers:
//   bfs   explicit-state search over ALL interleavings of program steps (Broadcast / setID / unsetID / recoverID /
//         DeliverFrom waits), message hand-overs and Byzantine script messages; state = event history replayed on fresh
//         objects, deduplicated by a canonical dump of all protocol fields + network + oracle log.
//   dfs   deviation-bounded stateless search for n >= 4: default = hand over the globally oldest message; a deviation =
//         any other enabled event; all executions with <= d deviations, pruned by (canonical state, remaining budget);
//         optionally under a link-priority schedule (demoted links are served only when nothing else is pending).
// Oracle: c14_world.hh on_delivery (every state) + liveness at quiescent states / leaves.
// Scenario cells are enumerated in a fixed order and sharded by cell.
#include "c14_world.hh"
#include <unordered_set>
#include <queue>

using namespace drv;
using namespace c14;

static Report *R;
static uint64_t g_states = 0, g_transitions = 0, g_execs = 0, g_quiescent = 0, g_maxdepth = 0, g_pruned = 0;
static std::set<std::string> g_outcomes;   // distinct delivery outcomes observed (vacuity guard)

struct H128 { uint64_t a, b; bool operator==(const H128 &o) const { return a == o.a && b == o.b; } };
struct H128h { size_t operator()(const H128 &h) const { return (size_t)(h.a ^ (h.b * 0x9e3779b97f4a7c15ULL)); } };
static H128 h128(const std::string &s) { H128 h; h.a = World::hash64(s, 1), h.b = World::hash64(s, 0x1234567); return h; }

static std::string outcome_of(const World &w)
{
	std::string o;
	for (int p = 0; p < w.cfg.n; p++)
	{
		o += "|";
		for (size_t i = 0; i < w.delivered[p].size(); i++) o += str(w.delivered[p][i].sender) + "=" + w.delivered[p][i].value + ",";
	}
	return o;
}

static bool report_if_violated(World &w, const Hist &h, const std::string &cell)
{
	if (w.starved > 0 && w.viol_key.empty())
		w.fail("rbc/deliverfrom-starvation", "DeliverFrom(timeout 0) neither consumed the offered message nor returned a value: the party can never make progress while messages pile up");
	if (w.viol_key.empty()) return false;
	R->viol(w.viol_key, w.viol_what + " ; history: " + hist_str(h), cell + ";hist=" + hist_str(h));
	return true;
}

// leaf / quiescence judgement on a throw-away world
// leaf oracle, shared by BFS and DFS: parties that read through Deliver are judged by check_quiescent; parties that read through
// DeliverFrom must not be stuck in a wait although the sender's broadcast exists in their channel and nothing is in flight
static void judge_world(World *w, const Cfg &cfg)
{
	bool any_from = false;
	for (int p = 0; p < cfg.n; p++) if (cfg.honest[p] && w->uses_deliverfrom(p)) any_from = true;
	if (!any_from)
		w->check_quiescent(false);
	else
	{
		for (int p = 0; p < cfg.n && w->viol_key.empty(); p++)
		{
			for (int rep = 0; rep < 3 && cfg.honest[p] && w->waits(p); rep++) w->apply(Ev{'F', p, w->prog[p][w->pc[p]].a, cfg.n});
			if (!cfg.honest[p] || !w->waits(p)) continue;
			int s = w->prog[p][w->pc[p]].a;
			if (!cfg.honest[s]) continue;
			std::string c = w->cur_chan(p);
			size_t want = 0, got = 0;
			for (size_t i = 0; i < w->bcasts[s].size(); i++) if (w->bcasts[s][i].chan == c) want++;
			for (size_t i = 0; i < w->delivered[p].size(); i++) if (w->delivered[p][i].sender == s && w->delivered[p][i].chan == c) got++;
			if (got < want)
				w->fail("rbc/validity/deliverfrom", "nothing left to hand over, party " + str(p) + " still waits in DeliverFrom(" + str(s) + ") for broadcast #" + str(got + 1) + " of channel " + c);
		}
	}
}

static void judge_leaf(const Cfg &cfg, const Hist &h, const std::string &cell)
{
	World *w = build(cfg, h);
	g_quiescent++;
	judge_world(w, cfg);
	g_outcomes.insert(outcome_of(*w));
	report_if_violated(*w, h, cell);
	delete w;
}

// ------------------------------------------------------------------------------------------------ BFS
static bool bfs(const Cfg &cfg, const std::string &cell, size_t max_states, size_t max_depth)
{
	std::unordered_set<H128, H128h> seen;
	std::deque<Hist> frontier;
	{
		World *w0 = build(cfg, Hist());
		seen.insert(h128(w0->canon(true, false)));
		delete w0;
	}
	frontier.push_back(Hist());
	bool complete = true;
	size_t local_states = 1;
	while (!frontier.empty())
	{
		Hist h = frontier.front();
		frontier.pop_front();
		if (h.size() > g_maxdepth) g_maxdepth = h.size();
		World *w = build(cfg, h);
		std::vector<Ev> en = w->enabled(true);
		delete w;
		{
			// judged on a throw-away copy: (a) true leaves (nothing enabled at all); (b) for parties that read through Deliver,
			// every state with nothing in flight (validity must hold for the broadcasts made so far)
			bool inflight = false, any_from = false;
			for (size_t i = 0; i < en.size(); i++) if (en[i].k == 'M' || en[i].k == 'F') inflight = true;
			for (int p = 0; p < cfg.n; p++) if (cfg.honest[p]) for (size_t i = 0; i < cfg.prog[p].size(); i++) if (cfg.prog[p][i].k == 'W') any_from = true;
			if (en.empty() || (!any_from && !inflight)) judge_leaf(cfg, h, cell);
		}
		if (h.size() >= max_depth) { if (!en.empty()) complete = false; continue; }
		for (size_t i = 0; i < en.size(); i++)
		{
			World *x = build(cfg, h);
			x->apply(en[i]);
			g_transitions++;
			Hist h2 = h;
			h2.push_back(en[i]);
			if (report_if_violated(*x, h2, cell)) { delete x; return complete; }
			H128 k = h128(x->canon(true, false));
			delete x;
			if (seen.insert(k).second)
			{
				local_states++;
				if (local_states > max_states) { complete = false; R->caps.insert("bfs-state-cap:" + cell); return false; }
				frontier.push_back(h2);
			}
		}
		if ((local_states & 1023) == 0 && R->out_of_time()) return false;
	}
	g_states += local_states;
	return complete;
}

// ------------------------------------------------------------------------------------------------ DFS (deviation bounded)
struct DfsCtx {
	const Cfg *cfg;
	std::string cell;
	int bound;
	std::vector<std::pair<int, int> > demoted;   // links (from,to) served only when nothing else is pending
	std::pair<int, int> promoted;                // link served first whenever non-empty (-1: none)
	std::vector<std::pair<size_t, int> > inject; // (step index, script message index): Byzantine messages put on the wire at fixed points
	int late_party;                              // program steps of this party are taken only when nothing else is enabled (-1: none)
	std::unordered_set<H128, H128h> seen;        // (canon, remaining budget)
	bool stop;
};

// order enabled events by the schedule family: promoted link first, demoted links last, else canonical order
static std::vector<Ev> order_events(const DfsCtx &C, const std::vector<Ev> &en)
{
	std::vector<Ev> first, mid, last;
	for (size_t i = 0; i < en.size(); i++)
	{
		const Ev &e = en[i];
		if (e.k == 'G' && e.a == C.late_party) { last.push_back(e); continue; }
		bool isl = (e.k == 'M' || e.k == 'F');
		int from = e.k == 'M' ? e.b : e.c, to = e.a;
		if (isl && C.promoted.first == from && C.promoted.second == to) { first.push_back(e); continue; }
		bool dem = false;
		for (size_t k = 0; k < C.demoted.size(); k++) if (isl && C.demoted[k].first == from && C.demoted[k].second == to) dem = true;
		(dem ? last : mid).push_back(e);
	}
	first.insert(first.end(), mid.begin(), mid.end());
	first.insert(first.end(), last.begin(), last.end());
	return first;
}

// runs one execution: replays `prefix` (indices into the ordered enabled list at each choice point), then default (index 0)
// to completion.  Records the number of alternatives at each point; returns false on violation.
struct ExecTrace { std::vector<int> choices; std::vector<int> nalts; Hist hist; bool violated; bool pruned; };

static void run_exec(DfsCtx &C, const std::vector<int> &prefix, ExecTrace &T)
{
	World *w = new World(*C.cfg);
	T.choices.clear(), T.nalts.clear(), T.hist.clear(), T.violated = false, T.pruned = false;
	size_t inj = 0;
	int dev = 0;
	for (size_t step = 0; step < 4000; step++)
	{
		while (inj < C.inject.size() && C.inject[inj].first <= step)
		{
			Ev z = Ev{'Z', C.inject[inj].second, 0, 0};
			w->apply(z), T.hist.push_back(z);
			inj++;
		}
		std::vector<Ev> en = order_events(C, w->enabled(false));
		if (en.empty())
		{
			if (inj < C.inject.size()) { // nothing to do but injections pending: flush them
				Ev z = Ev{'Z', C.inject[inj].second, 0, 0};
				w->apply(z), T.hist.push_back(z);
				inj++;
				continue;
			}
			break;
		}
		size_t cp = T.choices.size();
		int ch = cp < prefix.size() ? prefix[cp] : 0;
		if (ch >= (int)en.size()) { fprintf(stderr, "replay divergence at choice point %zu\n", cp); exit(2); }
		if (ch != 0) dev++;
		// prune: beyond the forced prefix, a (state, remaining budget) pair seen before has the same explored futures
		if (cp >= prefix.size())
		{
			std::string key = w->canon() + "#" + str(C.bound - dev) + "#" + str(inj);
			if (!C.seen.insert(h128(key)).second) { T.pruned = true; g_pruned++; break; }
			g_states++;
		}
		T.choices.push_back(ch), T.nalts.push_back((int)en.size());
		w->apply(en[ch]);
		g_transitions++;
		T.hist.push_back(en[ch]);
		if (report_if_violated(*w, T.hist, C.cell)) { T.violated = true; break; }
	}
	if (T.hist.size() > g_maxdepth) g_maxdepth = T.hist.size();
	g_execs++;
	if (!T.violated && !T.pruned)
	{
		// leaf: everything handed over
		g_quiescent++;
		judge_world(w, *C.cfg);
		g_outcomes.insert(outcome_of(*w));
		if (report_if_violated(*w, T.hist, C.cell)) T.violated = true;
	}
	delete w;
}

static void dfs_explore(DfsCtx &C, const std::vector<int> &prefix, int used)
{
	if (C.stop) return;
	ExecTrace T;
	run_exec(C, prefix, T);
	if (T.violated) { C.stop = true; return; }
	if ((g_execs & 255) == 0 && R->out_of_time()) { C.stop = true; return; }
	for (size_t i = prefix.size(); i < T.choices.size(); i++)
	{
		if (used + 1 > C.bound) break;
		for (int alt = 1; alt < T.nalts[i]; alt++)
		{
			std::vector<int> p2(T.choices.begin(), T.choices.begin() + i);
			p2.push_back(alt);
			dfs_explore(C, p2, used + 1);
			if (C.stop) return;
		}
	}
}

static bool dfs(const Cfg &cfg, const std::string &cell, int bound, const std::vector<std::pair<int, int> > &demoted,
	std::pair<int, int> promoted, const std::vector<std::pair<size_t, int> > &inject, int late_party = -1)
{
	DfsCtx C;
	C.cfg = &cfg, C.cell = cell, C.bound = bound, C.demoted = demoted, C.promoted = promoted, C.inject = inject, C.stop = false;
	C.late_party = late_party;
	dfs_explore(C, std::vector<int>(), 0);
	return !C.stop;
}

// ------------------------------------------------------------------------------------------------ scenarios
static Cfg base_cfg(int n, int t, bool fifo, int byz)
{
	Cfg c;
	c.n = n, c.t = t, c.fifo = fifo, c.byz = byz;
	c.honest.assign(n, true);
	if (byz >= 0) c.honest[byz] = false;
	c.prog.resize(n);
	return c;
}
static unsigned long val_of(int party, int k) { return 1000UL * (party + 1) + k; }

static BMsg bmsg(int to, const std::string &id, int sender, const std::string &slot, int action, const std::string &payload)
{
	BMsg b;
	b.to = to;
	mpz_t t;
	mpz_init(t);
	b.f[0] = id;
	mpz_set_ui(t, sender), b.f[1] = zstr(t);
	b.f[2] = slot;
	mpz_set_ui(t, action), b.f[3] = zstr(t);
	b.f[4] = payload;
	mpz_clear(t);
	return b;
}
static std::string num(unsigned long v) { mpz_t t; mpz_init_set_ui(t, v); std::string r = zstr(t); mpz_clear(t); return r; }


struct Cell { std::string id; std::function<bool()> run; };
static std::vector<Cell> cells;

static void add_plain_bfs(int n, int t, bool fifo, const std::vector<int> &bc, size_t cap)
{
	std::string id = "bfs:n=" + str(n) + ",t=" + str(t) + ",fifo=" + str(fifo) + ",bc=";
	for (size_t i = 0; i < bc.size(); i++) id += str(bc[i]);
	cells.push_back(Cell{id, [=]() {
		Cfg c = base_cfg(n, t, fifo, -1);
		for (int p = 0; p < n; p++) for (int k = 0; k < bc[p]; k++) c.prog[p].push_back(Ev{'B', (int)val_of(p, k), 0, 0});
		return bfs(c, id, cap, 10000);
	}});
}

// channel programs for n=3,t=0 (variant index -> programs)
static Cfg chan_cfg(int variant, bool fifo)
{
	Cfg c = base_cfg(2, 0, fifo, -1);
	switch (variant)
	{
		case 0: // everybody: broadcast in base, enter inner, broadcast in inner, leave, broadcast in base (party 0 only broadcasts)
			c.prog[0] = {Ev{'B', 1001, 0, 0}, Ev{'S', 1, 1, 0}, Ev{'B', 1101, 0, 0}, Ev{'U', 0, 0, 0}};
			c.prog[1] = {Ev{'S', 1, 1, 0}, Ev{'U', 0, 0, 0}};
			break;
		case 1: // two senders in different channels at the same time
			c.prog[0] = {Ev{'S', 1, 1, 0}, Ev{'B', 1101, 0, 0}, Ev{'U', 0, 0, 0}};
			c.prog[1] = {Ev{'B', 2001, 0, 0}, Ev{'S', 1, 1, 0}, Ev{'U', 0, 0, 0}};
			break;
		case 2: // leave and recover the inner channel: counters must continue
			c.prog[0] = {Ev{'S', 1, 1, 0}, Ev{'B', 1101, 0, 0}, Ev{'U', 0, 0, 0}, Ev{'R', 1, 1, 0}, Ev{'B', 1102, 0, 0}, Ev{'U', 0, 0, 0}};
			c.prog[1] = {Ev{'S', 1, 1, 0}, Ev{'U', 0, 0, 0}, Ev{'R', 1, 1, 0}, Ev{'U', 0, 0, 0}};
			break;
		case 3: // nested to depth 2
			c.prog[0] = {Ev{'S', 1, 1, 0}, Ev{'S', 2, 1, 0}, Ev{'B', 1201, 0, 0}, Ev{'U', 0, 0, 0}, Ev{'B', 1101, 0, 0}, Ev{'U', 0, 0, 0}};
			c.prog[1] = {Ev{'S', 1, 1, 0}, Ev{'S', 2, 1, 0}, Ev{'U', 0, 0, 0}, Ev{'U', 0, 0, 0}};
			break;
		case 4: // two different sibling channels
			c.prog[0] = {Ev{'S', 1, 1, 0}, Ev{'B', 1101, 0, 0}, Ev{'U', 0, 0, 0}, Ev{'S', 2, 1, 0}, Ev{'B', 1201, 0, 0}, Ev{'U', 0, 0, 0}};
			c.prog[1] = {Ev{'S', 1, 1, 0}, Ev{'U', 0, 0, 0}, Ev{'S', 2, 1, 0}, Ev{'U', 0, 0, 0}};
			break;
		case 5: // leave and recover the inner channel TWICE, collecting the sender's value in every visit (DeliverFrom, as the
			// DKG/VSS protocols do): the record saved by unsetID must be refreshed at every leave
			c.prog[0] = {Ev{'S', 1, 1, 0}, Ev{'B', 1101, 0, 0}, Ev{'W', 0, 0, 0}, Ev{'U', 0, 0, 0},
			             Ev{'R', 1, 1, 0}, Ev{'B', 1102, 0, 0}, Ev{'W', 0, 0, 0}, Ev{'U', 0, 0, 0},
			             Ev{'R', 1, 1, 0}, Ev{'B', 1103, 0, 0}, Ev{'W', 0, 0, 0}, Ev{'U', 0, 0, 0}};
			c.prog[1] = {Ev{'S', 1, 1, 0}, Ev{'W', 0, 0, 0}, Ev{'U', 0, 0, 0}, Ev{'R', 1, 1, 0}, Ev{'W', 0, 0, 0}, Ev{'U', 0, 0, 0},
			             Ev{'R', 1, 1, 0}, Ev{'W', 0, 0, 0}, Ev{'U', 0, 0, 0}};
			break;
		case 6: // two recover cycles; only party 1 leaves and comes back, the sender stays inside
			c.prog[0] = {Ev{'S', 1, 1, 0}, Ev{'B', 1101, 0, 0}, Ev{'W', 0, 0, 0}, Ev{'B', 1102, 0, 0}, Ev{'W', 0, 0, 0},
			             Ev{'B', 1103, 0, 0}, Ev{'W', 0, 0, 0}, Ev{'U', 0, 0, 0}};
			c.prog[1] = {Ev{'S', 1, 1, 0}, Ev{'W', 0, 0, 0}, Ev{'U', 0, 0, 0}, Ev{'R', 1, 1, 0}, Ev{'W', 0, 0, 0}, Ev{'U', 0, 0, 0},
			             Ev{'R', 1, 1, 0}, Ev{'W', 0, 0, 0}, Ev{'U', 0, 0, 0}};
			break;
	}
	return c;
}
static const int NCHAN = 7;

// channel programs with THREE parties (t = 0): with n = 2 a party always sees the r-send before any r-ready of the slot (same
// link), so the r-request / r-answer path is unreachable there; with n = 3 party 2 can collect the r-ready of party 1 first, ask
// for the payload, and LEAVE or CHANGE the channel before the answer arrives (added after seeded change C14-5)
static Cfg chan3_cfg(int variant, bool fifo)
{
	Cfg c = base_cfg(3, 0, fifo, -1);
	switch (variant)
	{
		case 0: // everybody enters the inner channel, party 0 broadcasts there; party 2 leaves without waiting
			c.prog[0] = {Ev{'S', 1, 1, 0}, Ev{'B', 1101, 0, 0}, Ev{'U', 0, 0, 0}};
			c.prog[1] = {Ev{'S', 1, 1, 0}, Ev{'U', 0, 0, 0}};
			c.prog[2] = {Ev{'S', 1, 1, 0}, Ev{'U', 0, 0, 0}};
			break;
		case 1: // party 2 moves on to a sibling channel, where party 1 broadcasts later
			c.prog[0] = {Ev{'S', 1, 1, 0}, Ev{'B', 1101, 0, 0}, Ev{'U', 0, 0, 0}, Ev{'S', 2, 1, 0}, Ev{'U', 0, 0, 0}};
			c.prog[1] = {Ev{'S', 1, 1, 0}, Ev{'U', 0, 0, 0}, Ev{'S', 2, 1, 0}, Ev{'B', 2201, 0, 0}, Ev{'U', 0, 0, 0}};
			c.prog[2] = {Ev{'S', 1, 1, 0}, Ev{'U', 0, 0, 0}, Ev{'S', 2, 1, 0}, Ev{'U', 0, 0, 0}};
			break;
		case 2: // a broadcast in the base channel and one in the inner channel, party 2 enters late and leaves early
			c.prog[0] = {Ev{'B', 1001, 0, 0}, Ev{'S', 1, 1, 0}, Ev{'B', 1101, 0, 0}, Ev{'U', 0, 0, 0}};
			c.prog[1] = {Ev{'S', 1, 1, 0}, Ev{'U', 0, 0, 0}};
			c.prog[2] = {Ev{'S', 1, 1, 0}, Ev{'U', 0, 0, 0}};
			break;
	}
	return c;
}
static const int NCHAN3 = 3;

// DeliverFrom programs (n=3,t=0): 'W i' = wait for the next value of sender i
static Cfg from_cfg(int variant)
{
	Cfg c = base_cfg(2, 0, true, -1);
	switch (variant)
	{
		case 0: // the DKG pattern: everybody broadcasts once and collects from everybody in index order
			for (int p = 0; p < 2; p++)
			{
				c.prog[p].push_back(Ev{'B', (int)val_of(p, 0), 0, 0});
				for (int i = 0; i < 2; i++) c.prog[p].push_back(Ev{'W', i, 0, 0});
			}
			break;
		case 1: // reversed collection order: the other sender's value is buffered while waiting
			c.prog[0] = {Ev{'B', 1001, 0, 0}, Ev{'W', 1, 0, 0}, Ev{'W', 0, 0, 0}};
			c.prog[1] = {Ev{'B', 2001, 0, 0}, Ev{'W', 0, 0, 0}, Ev{'W', 1, 0, 0}};
			break;
		case 2: // a value of sender 0 may get buffered at party 1 in the inner channel and is never asked for there; after leaving,
			// sender 0's base-channel broadcast must still be obtainable (stale buffer entry tagged with another channel)
			c.prog[0] = {Ev{'S', 1, 1, 0}, Ev{'B', 1101, 0, 0}, Ev{'U', 0, 0, 0}, Ev{'B', 1001, 0, 0}};
			c.prog[1] = {Ev{'S', 1, 1, 0}, Ev{'B', 2101, 0, 0}, Ev{'W', 1, 0, 0}, Ev{'U', 0, 0, 0}, Ev{'W', 0, 0, 0}};
			break;
		case 3: // two values from one sender, collected one by one
			c.prog[0] = {Ev{'B', 1001, 0, 0}, Ev{'B', 1002, 0, 0}, Ev{'W', 0, 0, 0}, Ev{'W', 0, 0, 0}};
			c.prog[1] = {Ev{'W', 0, 0, 0}, Ev{'W', 0, 0, 0}};
			break;
	}
	return c;
}
static const int NFROM = 4;

// Byzantine sender (equivocation) scripts for n=4,t=1: sender index b; per honest recipient r: r-send value in {m1,m2,none};
// echo pattern and ready pattern in {none, same as send, d1 to all, d2 to all, opposite of send}
static void byz_sender_script(Cfg &c, int code)
{
	int b = c.byz;
	std::vector<int> hon;
	for (int i = 0; i < c.n; i++) if (c.honest[i]) hon.push_back(i);
	std::string id = chan_id(c), slot = num(1);
	unsigned long m[3] = {0, 7001, 7002};
	int sendv[3];
	int x = code;
	for (int k = 0; k < 3; k++) sendv[k] = x % 3, x /= 3;
	int ep = x % 5; x /= 5;
	int rp = x % 5; x /= 5;
	for (int k = 0; k < 3; k++)
		if (sendv[k]) c.script.push_back(bmsg(hon[k], id, b, slot, 1, num(m[sendv[k]])));
	for (int phase = 0; phase < 2; phase++)
	{
		int pat = phase ? rp : ep;
		for (int k = 0; k < 3; k++)
		{
			int dv = 0;
			switch (pat)
			{
				case 0: dv = 0; break;
				case 1: dv = sendv[k]; break;
				case 2: dv = 1; break;
				case 3: dv = 2; break;
				case 4: dv = sendv[k] ? 3 - sendv[k] : 1; break;
			}
			if (dv) c.script.push_back(bmsg(hon[k], id, b, slot, phase ? 3 : 2, digest_of(m[dv])));
		}
	}
}
static const int NBYZSEND = 27 * 25;

// Byzantine relay for an honest sender's slot (n=4,t=1): echo / ready digest per recipient in {true, fake, none};
// unsolicited answers {none, fake to all, true to all}; plus an unsolicited l-deliver
static void byz_relay_script(Cfg &c, int sender, unsigned long true_val, int code)
{
	int b = c.byz;
	std::vector<int> hon;
	for (int i = 0; i < c.n; i++) if (c.honest[i]) hon.push_back(i);
	std::string id = chan_id(c), slot = first_slot(c, sender);
	unsigned long fake = 7777;
	int x = code;
	int e[3], r[3];
	for (int k = 0; k < 3; k++) e[k] = x % 3, x /= 3;
	for (int k = 0; k < 3; k++) r[k] = x % 3, x /= 3;
	int ans = x % 3; x /= 3;
	for (int k = 0; k < 3; k++) if (e[k]) c.script.push_back(bmsg(hon[k], id, sender, slot, 2, digest_of(e[k] == 1 ? true_val : fake)));
	for (int k = 0; k < 3; k++) if (r[k]) c.script.push_back(bmsg(hon[k], id, sender, slot, 3, digest_of(r[k] == 1 ? true_val : fake)));
	if (ans) for (int k = 0; k < 3; k++) c.script.push_back(bmsg(hon[k], id, sender, slot, 5, num(ans == 1 ? fake : true_val)));
	// a fake r-send claiming to come from the honest sender, and an unsolicited l-deliver
	c.script.push_back(bmsg(hon[0], id, sender, slot, 1, num(fake)));
	c.script.push_back(bmsg(hon[1], id, sender, slot, 7, num(fake)));
}
static const int NBYZRELAY = 27 * 27 * 3;

static std::vector<std::pair<size_t, int> > inject_all_at(const Cfg &c, size_t step)
{
	std::vector<std::pair<size_t, int> > v;
	for (size_t k = 0; k < c.script.size(); k++) v.push_back(std::make_pair(step, (int)k));
	return v;
}

static void build_cells(bool thorough)
{
	// 1. full BFS, honest, small systems
	for (int f = 1; f >= 0; f--)
	{
		add_plain_bfs(2, 0, f != 0, {1, 0}, 2000000);
		add_plain_bfs(2, 0, f != 0, {1, 1}, 2000000);
		add_plain_bfs(2, 0, f != 0, {2, 0}, 2000000);
		add_plain_bfs(3, 0, f != 0, {1, 0, 0}, 2000000);
	}
	if (thorough)
	{
		add_plain_bfs(2, 0, true, {2, 1}, 4000000);
		add_plain_bfs(3, 0, true, {2, 0, 0}, 4000000);
		add_plain_bfs(3, 0, true, {1, 1, 0}, 4000000);
	}
	// 2. channel switching, n=3: full BFS over programs x hand-overs (n=2: channel semantics do not depend on n)
	for (int v = 0; v < NCHAN; v++)
		for (int f = 1; f >= (thorough ? 0 : 1); f--)
		{
			if (v >= 5)
			{	// long programs (two leave/recover cycles): deviation-bounded instead of the full BFS
				int bound = thorough ? 5 : 3;
				std::string id = "chan:variant=" + str(v) + ",fifo=" + str(f) + ",d<=" + str(bound);
				cells.push_back(Cell{id, [=]() { Cfg c = chan_cfg(v, f != 0); return dfs(c, id, bound, {}, std::make_pair(-1, -1), {}); }});
				continue;
			}
			std::string id = "chan:variant=" + str(v) + ",fifo=" + str(f);
			cells.push_back(Cell{id, [=]() { Cfg c = chan_cfg(v, f != 0); return bfs(c, id, 3000000, 10000); }});
		}
	// 2b. channel switching with three parties (r-request / r-answer path reachable), FIFO on and off.  The full BFS is feasible
	//     for program 0 only (110 k states, 600 k transitions; thorough); all programs are explored deviation-bounded under every
	//     single and ordered pair of demoted links (served only when nothing else is pending - this is what makes a party ask for the payload), d <= 2 (3) for single links and d <= 1 (3) for pairs
	for (int v = 0; v < NCHAN3; v++)
		for (int f = 1; f >= 0; f--)
		{
			if (v == 0 && thorough)
			{
				std::string id = "chan3:variant=" + str(v) + ",fifo=" + str(f);
				cells.push_back(Cell{id, [=]() { Cfg c = chan3_cfg(v, f != 0); return bfs(c, id, 6000000, 10000); }});
			}
			int bound = thorough ? 3 : 2;
			std::string id = "chan3prio:variant=" + str(v) + ",fifo=" + str(f) + ",d<=" + str(bound);
			cells.push_back(Cell{id, [=]() {
				bool ok = true;
				for (int d1 = -1; d1 < 9 && ok; d1++)
					for (int d2 = -1; d2 < 9 && ok; d2++)
					{
						if (d1 >= 0 && d1 / 3 == d1 % 3) continue;
						if (d2 >= 0 && (d1 < 0 || d2 == d1 || d2 / 3 == d2 % 3)) continue;
						Cfg c = chan3_cfg(v, f != 0);
						std::vector<std::pair<int, int> > dem;
						if (d1 >= 0) dem.push_back(std::make_pair(d1 / 3, d1 % 3));
						if (d2 >= 0) dem.push_back(std::make_pair(d2 / 3, d2 % 3));
						// pairs of demoted links with a smaller budget: quick d <= 1, thorough d <= 3
						int b = d2 >= 0 ? (thorough ? 3 : 1) : bound;
						ok = dfs(c, id + ",demote1=" + str(d1) + ",demote2=" + str(d2), b, dem, std::make_pair(-1, -1), {});
					}
				return ok;
			}});
		}
	// 3. DeliverFrom programs
	for (int v = 0; v < NFROM; v++)
	{
		std::string id = "from:variant=" + str(v);
		cells.push_back(Cell{id, [=]() { Cfg c = from_cfg(v); return bfs(c, id, 3000000, 10000); }});
	}
	// 4. n=4,t=1 honest: deviation-bounded, plain and under link priorities
	for (int f = 1; f >= 0; f--)
		for (int nb = 1; nb <= 2; nb++)
		{
			int bound = thorough ? (nb == 1 ? 3 : 2) : (nb == 1 ? 2 : 1);
			std::string id = "dfs:n=4,t=1,fifo=" + str(f) + ",bc=" + str(nb) + ",d<=" + str(bound);
			cells.push_back(Cell{id, [=]() {
				Cfg c = base_cfg(4, 1, f != 0, -1);
				for (int k = 0; k < nb; k++) c.prog[0].push_back(Ev{'B', (int)val_of(0, k), 0, 0});
				return dfs(c, id, bound, {}, std::make_pair(-1, -1), {});
			}});
		}
	// link priorities: every ordered pair of demoted links (incl. single), optional promoted link, d <= 0 (quick) / 1 (thorough)
	for (int f = 1; f >= 0; f--)
	{
		int nl = 16;
		for (int d1 = 0; d1 < nl; d1++)
		{
			std::string id = "prio:n=4,t=1,fifo=" + str(f) + ",demote1=" + str(d1);
			cells.push_back(Cell{id, [=]() {
				bool ok = true;
				for (int d2 = -1; d2 < nl && ok; d2++)
				{
					if (d2 == d1) continue;
					for (int pr = -1; pr < (thorough ? nl : 0) && ok; pr++)
					{
						if (pr == d1 || pr == d2) continue;
						Cfg c = base_cfg(4, 1, f != 0, -1);
						c.prog[0].push_back(Ev{'B', (int)val_of(0, 0), 0, 0});
						std::vector<std::pair<int, int> > dem;
						dem.push_back(std::make_pair(d1 / 4, d1 % 4));
						if (d2 >= 0) dem.push_back(std::make_pair(d2 / 4, d2 % 4));
						std::string sub = id + ",demote2=" + str(d2) + ",promote=" + str(pr);
						ok = dfs(c, sub, thorough ? 1 : 0, dem, pr >= 0 ? std::make_pair(pr / 4, pr % 4) : std::make_pair(-1, -1), {});
					}
				}
				return ok;
			}});
		}
	}
	// 4c. enter and leave at every point (n = 4, t = 1; added after seeded change C14-5): everybody enters the inner channel (FIFO
	//     on / off) and party 0 broadcasts there; one party L has the program "enter, leave" and its program steps are served last
	//     by default, so with a budget of two deviations L enters at EVERY point of the default schedule and leaves at EVERY later
	//     point - in particular while an r-request of L is outstanding (the links into L are demoted one at a time, which is what
	//     makes L ask for the payload).  With t = 0 a party never has to ask (n - t echoes need every party's r-send first), so
	//     this needs four parties.
	for (int f = 1; f >= 0; f--)
		for (int late = (thorough ? 1 : 3); late < 4; late++)
		{
			// what L does after entering: 0 leaves to the base channel, 1 enters a nested channel, 2 leaves and enters a sibling
			// channel (thorough; three program steps, d <= 3).  All channels of a cell, the base channel included, have the same
			// FIFO setting, so that with FIFO off L is in a non-FIFO channel wherever the answer reaches it.
			for (int after = 0; after < (thorough ? 3 : 2); after++)
			{
			int bound = after == 2 ? 3 : 2;
			std::string id = "enterleave:n=4,t=1,fifo=" + str(f) + ",party=" + str(late) + ",then=" + str(after) + ",d<=" + str(bound);
			cells.push_back(Cell{id, [=]() {
				bool ok = true;
				for (int from = -1; from < 4 && ok; from++)
				{
					if (from == late) continue;
					Cfg c = base_cfg(4, 1, f != 0, -1);
					for (int p = 0; p < 4; p++) c.prog[p].push_back(Ev{'S', 1, f, 0});
					c.prog[0].push_back(Ev{'B', (int)val_of(0, 0), 0, 0});
					if (after == 0 || after == 2) c.prog[late].push_back(Ev{'U', 0, 0, 0});
					if (after >= 1) c.prog[late].push_back(Ev{'S', 2, f, 0});
					std::vector<std::pair<int, int> > dem;
					if (from >= 0) dem.push_back(std::make_pair(from, late));
					ok = dfs(c, id + ",demote=" + str(from), bound, dem, std::make_pair(-1, -1), {}, late);
				}
				return ok;
			}});
			}
		}
	// 4b. late join: the broadcast happens in an inner channel (FIFO on/off) while one party is still on the parent channel
	//     and enters only when nothing else is left to do; every demoted link (so that payloads have to be fetched by
	//     r-request / r-answer and deliveries are buffered under a foreign channel ID)
	for (int f = 1; f >= 0; f--)
		for (int late = 1; late < 4; late++)
		{
			int bound = thorough ? 1 : 0;
			std::string id = "latejoin:n=4,t=1,innerfifo=" + str(f) + ",late=" + str(late) + ",d<=" + str(bound);
			cells.push_back(Cell{id, [=]() {
				bool ok = true;
				for (int d1 = -1; d1 < 16 && ok; d1++)
					for (int d2 = -1; d2 < (thorough ? 16 : 0) && ok; d2++)
					{
						if (d2 >= 0 && (d2 == d1 || d1 < 0)) continue;
						Cfg c = base_cfg(4, 1, true, -1);
						for (int p = 0; p < 4; p++) c.prog[p].push_back(Ev{'S', 1, f, 0});
						c.prog[0].push_back(Ev{'B', (int)val_of(0, 0), 0, 0});
						c.prog[0].push_back(Ev{'B', (int)val_of(0, 1), 0, 0});
						std::vector<std::pair<int, int> > dem;
						if (d1 >= 0) dem.push_back(std::make_pair(d1 / 4, d1 % 4));
						if (d2 >= 0) dem.push_back(std::make_pair(d2 / 4, d2 % 4));
						std::string sub = id + ",demote1=" + str(d1) + ",demote2=" + str(d2);
						ok = dfs(c, sub, bound, dem, std::make_pair(-1, -1), {}, late);
					}
				return ok;
			}});
		}
	// 5. Byzantine sender (equivocation), all scripts, injected at start or after the echo phase
	for (int f = 1; f >= 0; f--)
		for (int b = 0; b < 4; b += 3)
			for (int blk = 0; blk < 27; blk++)
			{
				int bound = thorough ? 2 : 1;
				std::string id = "byzsend:n=4,t=1,fifo=" + str(f) + ",byz=" + str(b) + ",send=" + str(blk) + ",d<=" + str(bound);
				cells.push_back(Cell{id, [=]() {
					bool ok = true;
					for (int pat = 0; pat < 25 && ok; pat++)
					{
						Cfg c = base_cfg(4, 1, f != 0, b);
						byz_sender_script(c, blk + 27 * pat);
						std::string sub = id + ",pat=" + str(pat);
						ok = dfs(c, sub, bound, {}, std::make_pair(-1, -1), inject_all_at(c, 0));
					}
					return ok;
				}});
			}
	// 6. Byzantine relay against an honest sender (party 0 broadcasts; party 3 resp. 1 is Byzantine)
	for (int f = 1; f >= 0; f--)
		for (int b = 3; b >= 1; b -= 2)
			for (int blk = 0; blk < 27; blk++)
			{
				int bound = thorough ? 1 : 0;
				std::string id = "byzrelay:n=4,t=1,fifo=" + str(f) + ",byz=" + str(b) + ",echo=" + str(blk) + ",d<=" + str(bound);
				cells.push_back(Cell{id, [=]() {
					bool ok = true;
					for (int rest = 0; rest < 27 * 3 && ok; rest++)
					{
						if (!thorough && (rest % 27) % 4 != 0 && rest % 27 != 13 && rest % 27 != 26) continue;   // quick: a third of the ready patterns
						for (int when = 0; when < 2 && ok; when++)
						{
							Cfg c = base_cfg(4, 1, f != 0, b);
							c.prog[0].push_back(Ev{'B', (int)val_of(0, 0), 0, 0});
							byz_relay_script(c, 0, val_of(0, 0), blk + 27 * rest);
							std::string sub = id + ",rest=" + str(rest) + ",when=" + str(when);
							ok = dfs(c, sub, bound, {}, std::make_pair(-1, -1), inject_all_at(c, when ? 6 : 0));
						}
					}
					return ok;
				}});
			}
	// 7. the library's own faulty broadcaster, all steerings of one victim
	for (int f = 1; f >= 0; f--)
		for (int victim = 0; victim < 4; victim++)
		{
			std::string id = "xfault:n=4,t=1,fifo=" + str(f) + ",victim=" + str(victim);
			cells.push_back(Cell{id, [=]() {
				bool ok = true;
				for (int flags = 0; flags < 16 && ok; flags++)
					for (int extra = 0; extra < (thorough ? 5 : 2) && ok; extra++)
					{
						Cfg c = base_cfg(4, 1, f != 0, -1);
						c.prog[0].push_back(Ev{'X', (int)val_of(0, 0), victim + 16 * flags + 256 * extra, 0});
						c.prog[0].push_back(Ev{'B', 1500, 0, 0});
						c.byz_slots = 2;
						std::string sub = id + ",flags=" + str(flags) + ",extra=" + str(extra);
						ok = dfs(c, sub, thorough ? 1 : 0, {}, std::make_pair(-1, -1), {});
					}
				return ok;
			}});
		}
	// 8. larger systems, honest, d <= 1
	if (thorough)
		for (int n = 5; n <= 7; n++)
		{
			int t = (n - 1) / 3;
			std::string id = "dfs:n=" + str(n) + ",t=" + str(t) + ",fifo=1,bc=1,d<=1";
			cells.push_back(Cell{id, [=]() {
				Cfg c = base_cfg(n, t, true, -1);
				c.prog[0].push_back(Ev{'B', (int)val_of(0, 0), 0, 0});
				return dfs(c, id, 1, {}, std::make_pair(-1, -1), {});
			}});
		}
}

int main(int argc, char **argv)
{
	Args A = parse(argc, argv);
	Report rep(A);
	R = &rep;
	if (!init_libTMCG()) return 2;
	mcenv::hash_cache = true;
	MuteCerr mute;
	bool th = A.tier == "thorough";
	build_cells(th);
	std::string group = A.get("group", "");   // restrict to cells whose id starts with this prefix
	std::string only = A.only;
	std::string only_cell = only.substr(0, only.find(";hist="));
	for (size_t i = 0; i < cells.size(); i++)
	{
		if (!group.empty() && cells[i].id.compare(0, group.size(), group) != 0) continue;
		if (!rep.mine()) continue;
		if (!only_cell.empty() && only_cell.compare(0, cells[i].id.size(), cells[i].id) != 0) continue;
		if (rep.out_of_time()) break;
		printf("{\"t\":\"at\",\"case\":\"%s\"}\n", jesc(cells[i].id).c_str());
		fflush(stdout);
		uint64_t s0 = g_states, t0 = g_transitions;
		bool complete = cells[i].run();
		rep.ok();
		if (!complete) rep.exhaustive = false, rep.caps.insert("incomplete:" + cells[i].id);
		rep.sample(cells[i].id, "states=" + str(g_states - s0) + " transitions=" + str(g_transitions - t0) + " complete=" + str(complete));
	}
	rep.counters["states"] = g_states;
	rep.counters["transitions"] = g_transitions;
	rep.counters["traces_validated_against_impl"] = g_transitions;   // every transition is an execution of the real class
	rep.counters["executions"] = g_execs;
	rep.counters["quiescent_states_judged"] = g_quiescent;
	rep.counters["max_depth"] = g_maxdepth;
	rep.counters["pruned_by_state_hash"] = g_pruned;
	rep.counters["distinct_delivery_outcomes"] = g_outcomes.size();
	rep.evaluations = g_transitions + g_quiescent;
	rep.nontrivial = g_states;
	rep.bound = th ? "thorough cell list" : "quick cell list";
	rep.finish();
	return 0;
}
