// C14 — reliable broadcast: the real CachinKursawePetzoldShoupRBC class driven one message at a time.
// World = n parties (honest ones are real RBC objects on a step-driven in-memory aiounicast; Byzantine ones are
// scripts that put messages on their outgoing links), an event history, and the step oracle.
#ifndef C14_WORLD_HH
#define C14_WORLD_HH
#include "drv.hh"
#include <libTMCG.hh>
#include <aiounicast.hh>
#include <CachinKursawePetzoldShoupSEABP.hh>
#include <deque>
#include <algorithm>

namespace c14 {

static inline std::string zstr(mpz_srcptr z) { char *s = mpz_get_str(NULL, 62, z); std::string r(s); free(s); return r; }

struct NMsg { std::string f[5]; uint64_t seq; };

struct Net {
	int n;
	std::vector<std::vector<std::deque<NMsg> > > q;   // q[from][to]
	uint64_t seq;
	std::vector<bool> honest;
	explicit Net(int n_) : n(n_), q(n_, std::vector<std::deque<NMsg> >(n_)), seq(0), honest(n_, true) {}
	bool empty() const
	{
		for (int a = 0; a < n; a++) for (int b = 0; b < n; b++) if (honest[b] && !q[a][b].empty()) return false;
		return true;
	}
};

// step-driven aiounicast: Receive hands out the head of the one link selected by the explorer (want), else nothing
class StepAiou : public aiounicast {
public:
	Net *net;
	long want;
	uint64_t consumed;
	StepAiou(size_t n_in, size_t j_in, Net *net_in)
		: aiounicast(n_in, j_in, aio_scheduler_roundrobin, aio_timeout_very_short, false, false, false), net(net_in), want(-1), consumed(0) {}
	bool Send(mpz_srcptr m, const size_t i_in, const time_t timeout = aio_timeout_default) override { return false; }
	bool Send(const std::vector<mpz_srcptr> &m, const size_t i_in, const time_t timeout = aio_timeout_default) override
	{
		if (i_in >= n || m.size() != 5) return false;
		if (!net->honest[i_in]) return true;   // messages to a Byzantine party vanish (its behaviour is scripted)
		NMsg x;
		for (int k = 0; k < 5; k++) x.f[k] = zstr(m[k]);
		x.seq = net->seq++;
		net->q[j][i_in].push_back(x);
		return true;
	}
	bool Receive(mpz_ptr m, size_t &i_out, const size_t scheduler = aio_scheduler_default, const time_t timeout = aio_timeout_default) override
	{ i_out = n; return false; }
	bool Receive(std::vector<mpz_ptr> &m, size_t &i_out, const size_t scheduler = aio_scheduler_default, const time_t timeout = aio_timeout_default) override
	{
		if (want < 0 || net->q[want][j].empty() || m.size() != 5) { i_out = n; return false; }
		NMsg &x = net->q[want][j].front();
		for (int k = 0; k < 5; k++) mpz_set_str(m[k], x.f[k].c_str(), 62);
		net->q[want][j].pop_front();
		i_out = want;
		want = -1;
		consumed++;
		return true;
	}
	void Reset(const size_t i_in, const bool input) override {}
};

// ---- events ----------------------------------------------------------------------------------------------
// 'B' p v      broadcast value v by honest party p (in its current channel)
// 'X' p v      faulty broadcast (library's own simulate_faulty_behaviour) by party p; coins steered by code c
// 'M' p l      party p consumes the head of link l->p through Deliver(timeout 0), then polls while deliveries come
// 'P' p        poll: Deliver with nothing to receive
// 'F' p i l    party p calls DeliverFrom(i, timeout 0) with link l offered (l = n: nothing offered)
// 'S' p c f    setID(channel name index c, fifo f)      'R' p c f   recoverID      'U' p f  unsetID(fifo f)
// 'Q' p i v    QueueFrom(v, i)
// 'Z' k        Byzantine script message k is put on its link
struct Ev { char k; int a, b, c; };
static inline std::string ev_str(const Ev &e)
{
	char buf[64];
	snprintf(buf, sizeof buf, "%c%d.%d.%d", e.k, e.a, e.b, e.c);
	return buf;
}
static inline bool ev_parse(const std::string &s, Ev &e)
{
	if (s.size() < 2) return false;
	e.k = s[0];
	return sscanf(s.c_str() + 1, "%d.%d.%d", &e.a, &e.b, &e.c) == 3;
}
typedef std::vector<Ev> Hist;
static inline std::string hist_str(const Hist &h)
{
	std::string r;
	for (size_t i = 0; i < h.size(); i++) r += (i ? " " : "") + ev_str(h[i]);
	return r;
}
static inline Hist hist_parse(const std::string &s)
{
	Hist h;
	std::istringstream is(s);
	std::string tok;
	while (is >> tok) { Ev e; if (ev_parse(tok, e)) h.push_back(e); }
	return h;
}

struct BMsg { int to; std::string f[5]; };   // a scripted Byzantine message (from = the Byzantine party)

struct Cfg {
	int n, t;
	bool fifo;                 // FIFO flag of the base channel
	std::vector<bool> honest;
	int byz;                   // index of the Byzantine party or -1
	int byz_slots;             // number of slots a faulty sender uses (agreement bound without FIFO)
	std::vector<BMsg> script;  // messages the Byzantine party may emit (event Z k emits script[k])
	std::vector<std::vector<Ev> > prog;   // per party program
	bool script_sequential;    // Byzantine script messages are emitted in script order only (conformance runs)
	unsigned long cls1, cls2;  // payload values of class 1 / class 2 for the model projection
	Cfg() : n(3), t(0), fifo(true), byz(-1), byz_slots(1), script_sequential(false), cls1(1000), cls2(7002) {}
};

struct Deliv { int sender; std::string value; std::string chan; };
struct Bcast { std::string chan; std::string value; bool fifo; };

static const char *CHAN_NAMES[] = {"base", "inner", "other", "third"};

struct World {
	Cfg cfg;
	Net net;
	std::vector<StepAiou *> aiou;
	std::vector<CachinKursawePetzoldShoupRBC *> rbc;
	std::vector<mcenv::CoinSource *> coins;
	std::vector<int> nbcast;                          // broadcasts done per party (steers the non-FIFO slot value)
	std::vector<std::vector<Deliv> > delivered;       // per honest party
	std::vector<std::vector<Bcast> > bcasts;          // per party
	std::vector<std::vector<std::string> > chan;      // per party: stack of channel names
	std::vector<std::vector<bool> > chan_fifo;        // fifo flag per stack level
	std::vector<bool> script_used;
	std::vector<bool> faulty_sender;                  // used the library's own fault injector: judged like a Byzantine sender
	std::vector<std::vector<Ev> > prog;               // per party: API calls in program order ('B','X','S','R','U','W','Q')
	std::vector<size_t> pc;
	uint64_t starved;                                 // DeliverFrom calls that refused an offered message and returned nothing
	std::string viol_key, viol_what;                  // first oracle violation
	uint64_t steps;

	explicit World(const Cfg &c) : cfg(c), net(c.n), steps(0)
	{
		faulty_sender.assign(c.n, false);
		prog = c.prog, pc.assign(c.n, 0), starved = 0;
		prog.resize(c.n);
		net.honest = c.honest;
		nbcast.assign(c.n, 0);
		delivered.resize(c.n), bcasts.resize(c.n), chan.resize(c.n), chan_fifo.resize(c.n);
		script_used.assign(c.script.size(), false);
		for (int i = 0; i < c.n; i++)
		{
			aiou.push_back(NULL), rbc.push_back(NULL), coins.push_back(NULL);
			if (!c.honest[i]) continue;
			coins[i] = new mcenv::CoinSource(1, 500 + i);
			World *self = this;
			int me = i;
			// deterministic non-FIFO slot numbers: a 32-byte request is the slot draw of Broadcast(); make it a
			// function of (party, number of broadcasts so far) so that slots do not depend on the history
			coins[i]->steer = [self, me](unsigned char *buf, size_t len, int, uint64_t) -> bool {
				if (len != 32) return false;
				memset(buf, 0, len);
				buf[0] = 0x5a, buf[1] = (unsigned char)me, buf[31] = (unsigned char)(self->nbcast[me] + 1);
				return true;
			};
			mcenv::cur = coins[i];
			aiou[i] = new StepAiou(c.n, i, &net);
			rbc[i] = new CachinKursawePetzoldShoupRBC(c.n, c.t, i, aiou[i], aiounicast::aio_scheduler_roundrobin, 0);
			rbc[i]->setID(CHAN_NAMES[0], c.fifo);
			chan[i].push_back(CHAN_NAMES[0]), chan_fifo[i].push_back(c.fifo);
			mcenv::cur = nullptr;
		}
	}
	~World()
	{
		for (int i = 0; i < cfg.n; i++) { delete rbc[i]; delete aiou[i]; delete coins[i]; }
	}
	World(const World &) = delete;

	std::string cur_chan(int p) const
	{
		std::string r;
		for (size_t k = 0; k < chan[p].size(); k++) r += "/" + chan[p][k];
		return r;
	}
	bool cur_fifo(int p) const { return chan_fifo[p].empty() ? true : chan_fifo[p].back(); }
	void fail(const std::string &key, const std::string &what)
	{
		if (viol_key.empty()) viol_key = key, viol_what = what;
	}

	// ---- the step oracle: every delivery is judged when it happens -------------------------------------
	void on_delivery(int p, size_t sender, mpz_srcptr m)
	{
		std::string v = zstr(m), c = cur_chan(p);
		if (sender >= (size_t)cfg.n) { fail("rbc/sender-range", "party " + drv::str(p) + " got sender index " + drv::str(sender)); return; }
		int s = (int)sender;
		// previous deliveries at p from s in this channel
		std::vector<std::string> prev;
		for (size_t i = 0; i < delivered[p].size(); i++)
			if (delivered[p][i].sender == s && delivered[p][i].chan == c) prev.push_back(delivered[p][i].value);
		Deliv d; d.sender = s, d.value = v, d.chan = c;
		delivered[p].push_back(d);
		if (cfg.honest[s] && !faulty_sender[s])
		{
			// what did s broadcast in channel c?
			std::vector<std::string> B;
			bool fifo = true;
			for (size_t i = 0; i < bcasts[s].size(); i++)
				if (bcasts[s][i].chan == c) { B.push_back(bcasts[s][i].value); fifo = bcasts[s][i].fifo; }
			if (std::find(prev.begin(), prev.end(), v) != prev.end())
			{ fail(fifo ? "rbc/duplicate-delivery/fifo" : "rbc/duplicate-delivery/nofifo", "party " + drv::str(p) + " delivered value " + v + " of honest sender " + drv::str(s) + " twice in channel " + c); return; }
			if (std::find(B.begin(), B.end(), v) == B.end())
			{
				// broadcast in another channel? -> channel isolation; never broadcast -> integrity
				bool elsewhere = false;
				for (size_t i = 0; i < bcasts[s].size(); i++) if (bcasts[s][i].value == v) elsewhere = true;
				fail(elsewhere ? "rbc/channel-crossing" : "rbc/integrity", "party " + drv::str(p) + " delivered " + v + " from honest sender " + drv::str(s) + " in channel " + c + (elsewhere ? " but it was broadcast in another channel" : " which was never broadcast"));
				return;
			}
			if (fifo && (prev.size() >= B.size() || B[prev.size()] != v))
			{ fail("rbc/fifo-order", "party " + drv::str(p) + " delivered " + v + " from sender " + drv::str(s) + " as delivery #" + drv::str(prev.size() + 1) + " in channel " + c); return; }
		}
		else
		{
			// Byzantine (or library-faulty) sender.  FIFO channel: the k-th delivery is slot k, so all honest parties must agree
			// on it.  Without FIFO the slot of a delivery is not observable: then the number of distinct values delivered by
			// anybody is bounded by the number of slots the sender used (cfg.byz_slots).
			size_t k = prev.size();
			if (cur_fifo(p))
			{
				for (int o = 0; o < cfg.n; o++)
				{
					if (o == p || !cfg.honest[o]) continue;
					std::vector<std::string> ov;
					for (size_t i = 0; i < delivered[o].size(); i++)
						if (delivered[o][i].sender == s && delivered[o][i].chan == c) ov.push_back(delivered[o][i].value);
					if (ov.size() > k && ov[k] != v)
					{ fail("rbc/agreement", "parties " + drv::str(p) + " and " + drv::str(o) + " delivered different values (" + v + " vs " + ov[k] + ") for delivery #" + drv::str(k + 1) + " of faulty sender " + drv::str(s)); return; }
				}
			}
			else
			{
				std::set<std::string> vals;
				for (int o = 0; o < cfg.n; o++)
					for (size_t i = 0; cfg.honest[o] && i < delivered[o].size(); i++)
						if (delivered[o][i].sender == s && delivered[o][i].chan == c) vals.insert(delivered[o][i].value);
				if (vals.size() > (size_t)cfg.byz_slots)
				{ fail("rbc/agreement", drv::str(vals.size()) + " different values were delivered for the " + drv::str(cfg.byz_slots) + " slot(s) of faulty sender " + drv::str(s)); return; }
			}
			if (std::find(prev.begin(), prev.end(), v) != prev.end())
			{ fail("rbc/duplicate-delivery/byz", "party " + drv::str(p) + " delivered value " + v + " of Byzantine sender twice"); return; }
		}
	}

	// one Deliver call with link `from` offered (-1: none); returns true if something was delivered
	bool deliver_call(int p, long from)
	{
		mpz_t m;
		mpz_init(m);
		size_t who = cfg.n;
		bool got = false;
		aiou[p]->want = from;
		mcenv::cur = coins[p];
		try { got = rbc[p]->Deliver(m, who, aiounicast::aio_scheduler_roundrobin, 0); }
		catch (std::exception &e) { fail("rbc/exception", std::string("Deliver threw: ") + e.what() + " at party " + drv::str(p)); }
		mcenv::cur = nullptr;
		aiou[p]->want = -1;
		if (got) on_delivery(p, who, m);
		mpz_clear(m);
		return got;
	}
	void drain_polls(int p)
	{
		for (int guard = 0; guard < 64; guard++)
			if (!deliver_call(p, -1)) return;
		fail("rbc/poll-livelock", "party " + drv::str(p) + " keeps delivering without input");
	}

	bool apply(const Ev &e)
	{
		steps++;
		switch (e.k)
		{
			case 'B': case 'X':
			{
				int p = e.a;
				if (!cfg.honest[p]) return false;
				mpz_t m;
				mpz_init_set_ui(m, (unsigned long)e.b);
				Bcast b; b.chan = cur_chan(p), b.value = zstr(m), b.fifo = cur_fifo(p);
				bcasts[p].push_back(b);
				mcenv::cur = coins[p];
				if (e.k == 'X')
				{
					faulty_sender[p] = true;
					// steer the library's own fault injector: e.c encodes (victim recipient, flag nibble, extra)
					int victim = e.c % 16, flags = (e.c / 16) % 16, extra = (e.c / 256) % 8;
					int *cnt = new int(0);
					int nn = cfg.n;
					std::function<bool(unsigned char *, size_t, int, uint64_t)> saved = coins[p]->steer;
					coins[p]->steer = [=](unsigned char *buf, size_t len, int lv, uint64_t idx) -> bool {
						if (len == 32) return saved(buf, len, lv, idx);
						if (len != 8) return false;
						// per recipient i: 5 draws (randomizer, r1..r4) + conditional extra draws; we only need values
						// draw layout is discovered dynamically: answer "randomizer==0" only for the victim's first draw
						int c = (*cnt)++;
						unsigned long val = 1;
						(void)nn;
						// layout per loop iteration without extras: 5 draws.  Extras shift later iterations; to stay exact the
						// victim is handled by position: draws 5*victim .. 5*victim+4 are the victim's when no earlier extras happened
						if (c / 5 == victim && c < 5 * (victim + 1))
						{
							int w = c % 5;
							val = (w == 0) ? 0UL : (unsigned long)((flags >> (w - 1)) & 1);
						}
						else if (c >= 5 * (victim + 1) && c < 5 * (victim + 1) + 3)
							val = (unsigned long)extra + 1;   // extra draws of the victim iteration (sender shift / seq shift / random recipient)
						else
							val = 1;                            // randomizer != 0: no fault for the others
						memset(buf, 0, len);
						memcpy(buf, &val, sizeof(val) < len ? sizeof(val) : len);
						return true;
					};
					try { rbc[p]->Broadcast(m, true); } catch (std::exception &ex) { fail("rbc/exception", std::string("Broadcast threw: ") + ex.what()); }
					coins[p]->steer = saved;
					delete cnt;
				}
				else
				{
					try { rbc[p]->Broadcast(m, false); } catch (std::exception &ex) { fail("rbc/exception", std::string("Broadcast threw: ") + ex.what()); }
				}
				mcenv::cur = nullptr;
				nbcast[p]++;
				mpz_clear(m);
				return true;
			}
			case 'M':
			{
				int p = e.a, l = e.b;
				if (!cfg.honest[p] || net.q[l][p].empty()) return false;
				deliver_call(p, l);
				drain_polls(p);
				return true;
			}
			case 'P':
				if (!cfg.honest[e.a]) return false;
				drain_polls(e.a);
				return true;
			case 'F':
			{
				int p = e.a, i = e.b, l = e.c;
				if (!cfg.honest[p]) return false;
				if (l < cfg.n && net.q[l][p].empty()) return false;
				uint64_t before = aiou[p]->consumed;
				mpz_t m;
				mpz_init(m);
				aiou[p]->want = (l < cfg.n) ? l : -1;
				mcenv::cur = coins[p];
				bool got = false;
				// DeliverFrom calls Deliver internally; deliveries that Deliver hands to DeliverFrom are buffered per sender,
				// so the oracle judges what DeliverFrom *returns*
				try
				{
					got = rbc[p]->DeliverFrom(m, (size_t)i, aiounicast::aio_scheduler_roundrobin, 0);
					// a DeliverFrom with a real time-out loops: what the first pass buffered is returned by the next pass
					if (!got) { aiou[p]->want = -1; got = rbc[p]->DeliverFrom(m, (size_t)i, aiounicast::aio_scheduler_roundrobin, 0); }
				}
				catch (std::exception &ex) { fail("rbc/exception", std::string("DeliverFrom threw: ") + ex.what()); }
				mcenv::cur = nullptr;
				aiou[p]->want = -1;
				if (got) on_delivery(p, (size_t)i, m);
				mpz_clear(m);
				if (!got && l < cfg.n && before == aiou[p]->consumed)
				{
					// DeliverFrom neither took the offered message nor returned a value: nothing changed, so every later
					// call behaves the same and the messages on this party's links can never be handed over
					starved++;
				}
				if (got && pc[p] < prog[p].size() && prog[p][pc[p]].k == 'W' && prog[p][pc[p]].a == i)
				{
					pc[p]++;
					enter_step(p);
				}
				return true;
			}
			case 'G':
			{
				int p = e.a;
				if (!cfg.honest[p] || pc[p] >= prog[p].size() || prog[p][pc[p]].k == 'W') return false;
				Ev st = prog[p][pc[p]];
				pc[p]++;
				Ev call;
				call.k = st.k, call.a = p, call.b = st.a, call.c = st.b;
				if (st.k == 'U') call.b = 0, call.c = 0;
				apply(call);
				steps--;
				enter_step(p);
				return true;
			}
			case 'Q':
			{
				int p = e.a;
				mpz_t m;
				mpz_init_set_ui(m, (unsigned long)e.c);
				rbc[p]->QueueFrom(m, (size_t)e.b);
				mpz_clear(m);
				return true;
			}
			case 'S': case 'R':
			{
				int p = e.a;
				if (!cfg.honest[p]) return false;
				mcenv::cur = coins[p];
				if (e.k == 'S') rbc[p]->setID(CHAN_NAMES[e.b], e.c != 0); else rbc[p]->recoverID(CHAN_NAMES[e.b], e.c != 0);
				mcenv::cur = nullptr;
				chan[p].push_back(CHAN_NAMES[e.b]), chan_fifo[p].push_back(e.c != 0);
				return true;
			}
			case 'U':
			{
				int p = e.a;
				if (!cfg.honest[p] || chan[p].size() <= 1) return false;
				mcenv::cur = coins[p];
				// unsetID(fifo_in) sets the FIFO flag for the channel that becomes current again: pass that channel's own flag
				rbc[p]->unsetID(chan_fifo[p][chan_fifo[p].size() - 2]);
				mcenv::cur = nullptr;
				chan[p].pop_back(), chan_fifo[p].pop_back();
				return true;
			}
			case 'Z':
			{
				int k = e.a;
				if (k < 0 || (size_t)k >= cfg.script.size() || script_used[k]) return false;
				script_used[k] = true;
				const BMsg &b = cfg.script[k];
				NMsg x;
				for (int i = 0; i < 5; i++) x.f[i] = b.f[i];
				x.seq = net.seq++;
				net.q[cfg.byz][b.to].push_back(x);
				return true;
			}
		}
		return false;
	}

	// when a party reaches a 'W i' step it first looks into what is already buffered for sender i
	void enter_step(int p)
	{
		for (int guard = 0; guard < 8 && pc[p] < prog[p].size() && prog[p][pc[p]].k == 'W'; guard++)
		{
			size_t at = pc[p];
			apply(Ev{'F', p, prog[p][pc[p]].a, cfg.n});
			steps--;
			if (pc[p] == at) break;
		}
	}
	bool waits(int p) const { return pc[p] < prog[p].size() && prog[p][pc[p]].k == 'W'; }
	bool uses_deliverfrom(int p) const { for (size_t i = 0; i < prog[p].size(); i++) if (prog[p][i].k == 'W') return true; return false; }
	// all enabled events in canonical order: program steps first (ascending party), then message hand-overs oldest first,
	// then unused Byzantine script messages (if script_as_events)
	std::vector<Ev> enabled(bool script_as_events) const
	{
		std::vector<Ev> r;
		for (int p = 0; p < cfg.n; p++)
			if (cfg.honest[p] && pc[p] < prog[p].size() && prog[p][pc[p]].k != 'W') r.push_back(Ev{'G', p, 0, 0});
		std::vector<Ev> m = enabled_msgs();
		for (size_t i = 0; i < m.size(); i++)
		{
			int p = m[i].a, l = m[i].b;
			if (uses_deliverfrom(p))
			{
				if (waits(p)) r.push_back(Ev{'F', p, prog[p][pc[p]].a, l});
				// a party that only ever uses DeliverFrom does not read while it is not waiting
			}
			else
				r.push_back(m[i]);
		}
		if (script_as_events)
			for (size_t k = 0; k < cfg.script.size(); k++)
				if (!script_used[k]) { r.push_back(Ev{'Z', (int)k, 0, 0}); if (cfg.script_sequential) break; }
		return r;
	}

	// ---- liveness at quiescence (call on a world you are about to discard) ------------------------------
	// All queues are empty.  Every honest party polls once more; then: validity (every broadcast of an honest sender in
	// the channel everybody is in was delivered by all honest parties) and totality (delivered by one => by all).
	void check_quiescent(bool use_deliver_from)
	{
		if (!viol_key.empty()) return;
		for (int round = 0; round < 4; round++)
			for (int p = 0; p < cfg.n; p++)
			{
				if (!cfg.honest[p]) continue;
				if (use_deliver_from)
				{
					for (int i = 0; i < cfg.n; i++) for (int rep = 0; rep < 3; rep++) apply(Ev{'F', p, i, cfg.n});
				}
				else
					drain_polls(p);
			}
		if (!net.empty()) return;   // polling produced new messages (out-of-order handler): not quiescent after all
		if (!viol_key.empty()) return;
		for (int p = 0; p < cfg.n; p++)
		{
			if (!cfg.honest[p]) continue;
			std::string c = cur_chan(p);
			for (int s = 0; s < cfg.n; s++)
			{
				size_t got = 0;
				for (size_t i = 0; i < delivered[p].size(); i++) if (delivered[p][i].sender == s && delivered[p][i].chan == c) got++;
				if (cfg.honest[s] && !faulty_sender[s])
				{
					size_t want = 0;
					for (size_t i = 0; i < bcasts[s].size(); i++) if (bcasts[s][i].chan == c) want++;
					// only judged if the sender is still in (or back in) that channel's world: broadcasts were made in c
					if (got < want)
					{ fail(use_deliver_from ? "rbc/validity/deliverfrom" : "rbc/validity", "all messages handed over, but party " + drv::str(p) + " delivered only " + drv::str(got) + " of " + drv::str(want) + " broadcasts of honest sender " + drv::str(s) + " in channel " + c); return; }
				}
				else
				{
					for (int o = 0; o < cfg.n; o++)
					{
						if (!cfg.honest[o] || o == p || cur_chan(o) != c) continue;
						size_t og = 0;
						for (size_t i = 0; i < delivered[o].size(); i++) if (delivered[o][i].sender == s && delivered[o][i].chan == c) og++;
						if (og != got)
						{ fail("rbc/totality", "all messages handed over, but party " + drv::str(p) + " delivered " + drv::str(got) + " and party " + drv::str(o) + " delivered " + drv::str(og) + " values of Byzantine sender " + drv::str(s)); return; }
					}
				}
			}
		}
	}

	// ---- canonical state ---------------------------------------------------------------------------------
	// members added by later library versions are included when present (SFINAE), so the harness builds against both
	template<class T> static auto dump_acked(std::string &o, const T &r, int) -> decltype((void)r.acked, void())
	{ for (RBC_TagCheck::const_iterator k = r.acked.begin(); k != r.acked.end(); ++k) o += k->first + ","; o += ";"; }
	template<class T> static void dump_acked(std::string &o, const T &, long) { o += ";"; }
	static void dump_list(std::string &o, const RBC_BufferList &l) { for (RBC_BufferList::const_iterator i = l.begin(); i != l.end(); ++i) o += zstr(*i) + ","; o += ";"; }
	static void dump_tc(std::string &o, const std::vector<RBC_TagCheck> &v)
	{
		for (size_t i = 0; i < v.size(); i++) { for (RBC_TagCheck::const_iterator k = v[i].begin(); k != v[i].end(); ++k) o += k->first + ","; o += "|"; }
		o += ";";
	}
	std::string canon(bool with_log = true, bool with_rank = true) const
	{
		std::string o;
		for (int p = 0; p < cfg.n; p++)
		{
			if (!cfg.honest[p]) { o += "#byz\n"; continue; }
			const CachinKursawePetzoldShoupRBC &r = *rbc[p];
			o += "#" + zstr(r.ID) + ":" + zstr(r.s) + ":" + (r.fifo ? "f" : "u") + ":";
			dump_list(o, r.last_IDs), dump_list(o, r.last_s);
			for (RBC_VectorList::const_iterator i = r.last_deliver_s.begin(); i != r.last_deliver_s.end(); ++i) { for (size_t k = 0; k < i->size(); k++) o += zstr((*i)[k]) + ","; o += "/"; }
			o += ";";
			for (RBC_BufferMap::const_iterator i = r.recover_s.begin(); i != r.recover_s.end(); ++i) o += i->first + "=" + zstr(i->second) + ",";
			o += ";";
			for (RBC_VectorMap::const_iterator i = r.recover_deliver_s.begin(); i != r.recover_deliver_s.end(); ++i) { o += i->first + "="; for (size_t k = 0; k < i->second.size(); k++) o += zstr(i->second[k]) + ","; o += "/"; }
			o += ";";
			dump_tc(o, r.send), dump_tc(o, r.echo), dump_tc(o, r.ready), dump_tc(o, r.request), dump_tc(o, r.answer), dump_tc(o, r.retrieve), dump_tc(o, r.deliver);
			for (RBC_VectorMap::const_iterator i = r.retrieve_buf.begin(); i != r.retrieve_buf.end(); ++i) { o += i->first + "="; for (size_t k = 0; k < i->second.size(); k++) o += zstr(i->second[k]) + ","; o += "/"; }
			o += ";";
			for (RBC_TagMpz::const_iterator i = r.mbar.begin(); i != r.mbar.end(); ++i) o += i->first + "=" + zstr(i->second) + ",";
			o += ";";
			for (RBC_TagMpz::const_iterator i = r.dbar.begin(); i != r.dbar.end(); ++i) o += i->first + "=" + zstr(i->second) + ",";
			o += ";";
			dump_acked(o, r, 0);
			for (std::map<std::string, RBC_TagCount>::const_iterator i = r.e_d.begin(); i != r.e_d.end(); ++i) { o += i->first + "="; for (RBC_TagCount::const_iterator k = i->second.begin(); k != i->second.end(); ++k) o += k->first + ":" + drv::str(k->second) + ","; o += "/"; }
			o += ";";
			for (std::map<std::string, RBC_TagCount>::const_iterator i = r.r_d.begin(); i != r.r_d.end(); ++i) { o += i->first + "="; for (RBC_TagCount::const_iterator k = i->second.begin(); k != i->second.end(); ++k) o += k->first + ":" + drv::str(k->second) + ","; o += "/"; }
			o += ";";
			for (size_t i = 0; i < r.buf_mpz.size(); i++) { dump_list(o, r.buf_mpz[i]); dump_list(o, r.buf_id[i]); dump_list(o, r.buf_msg[i]); }
			for (RBC_VectorList::const_iterator i = r.deliver_buf.begin(); i != r.deliver_buf.end(); ++i) { for (size_t k = 0; k < i->size(); k++) o += zstr((*i)[k]) + ","; o += "/"; }
			o += ";";
			for (size_t i = 0; i < r.deliver_s.size(); i++) o += zstr(r.deliver_s[i]) + ",";
			for (size_t i = 0; i < r.deliver_error.size(); i++) o += r.deliver_error[i] ? "E" : "-";
			o += "\n";
		}
		// network: per link the message sequence, with the global arrival order rank-normalised
		std::vector<uint64_t> seqs;
		for (int a = 0; a < cfg.n; a++) for (int b = 0; b < cfg.n; b++) for (size_t i = 0; i < net.q[a][b].size(); i++) seqs.push_back(net.q[a][b][i].seq);
		std::sort(seqs.begin(), seqs.end());
		for (int a = 0; a < cfg.n; a++)
			for (int b = 0; b < cfg.n; b++)
			{
				if (net.q[a][b].empty()) continue;
				o += "L" + drv::str(a) + ">" + drv::str(b) + ":";
				for (size_t i = 0; i < net.q[a][b].size(); i++)
				{
					const NMsg &x = net.q[a][b][i];
					size_t rank = std::lower_bound(seqs.begin(), seqs.end(), x.seq) - seqs.begin();
					o += (with_rank ? drv::str(rank) : std::string("")) + "@" + x.f[0] + "." + x.f[1] + "." + x.f[2] + "." + x.f[3] + "." + x.f[4] + ",";
				}
				o += "\n";
			}
		if (with_log)
		{
			for (int p = 0; p < cfg.n; p++)
			{
				o += "D" + drv::str(p) + ":" + cur_chan(p) + ":";
				for (size_t i = 0; i < delivered[p].size(); i++) o += drv::str(delivered[p][i].sender) + "=" + delivered[p][i].value + "@" + delivered[p][i].chan + ",";
				o += "B:";
				for (size_t i = 0; i < bcasts[p].size(); i++) o += bcasts[p][i].value + "@" + bcasts[p][i].chan + ",";
				o += "\n";
			}
			o += "Z:";
			for (size_t i = 0; i < script_used.size(); i++) o += script_used[i] ? "1" : "0";
			o += " pc:";
			for (int p = 0; p < cfg.n; p++) o += drv::str(pc[p]) + ",";
		}
		return o;
	}
	// ---- projection shared with models/rbc.pml (dump_state): one slot (sender S, slot 1) of the base channel ------------
	template<class T> static auto has_acked(const T &r, const std::string &tag, int) -> decltype((void)r.acked, int()) { return r.acked.count(tag) ? 1 : 0; }
	template<class T> static int has_acked(const T &, const std::string &, long) { return 0; }
	int cls_of_value(const std::string &v) const { return v == num62(cfg.cls1) ? 1 : (v == num62(cfg.cls2) ? 2 : 9); }
	int cls_of_digest(const std::string &d) const { return d == dig1 ? 1 : (d == dig2 ? 2 : 9); }
	static std::string num62(unsigned long v) { mpz_t t; mpz_init_set_ui(t, v); std::string r = zstr(t); mpz_clear(t); return r; }
	std::string dig1, dig2, ptag;
	void init_projection(int sender)
	{
		mpz_t a, b, c, h;
		mpz_init(a), mpz_init(b), mpz_init(c), mpz_init(h);
		mpz_set_ui(a, cfg.cls1), tmcg_mpz_shash(h, 1, a), dig1 = zstr(h);
		mpz_set_ui(a, cfg.cls2), tmcg_mpz_shash(h, 1, a), dig2 = zstr(h);
		// tag of (ID, sender, slot 1) exactly as TagMessage computes it
		int hp = 0;
		while (!cfg.honest[hp]) hp++;
		mpz_set(a, rbc[hp]->ID), mpz_set_ui(b, sender), mpz_set_ui(c, 1);
		if (!cfg.fifo && cfg.honest[sender])
		{
			// without FIFO the slot number of an honest sender is the (steered) 256-bit draw of Broadcast()
			unsigned char sb[32];
			memset(sb, 0, sizeof sb);
			sb[0] = 0x5a, sb[1] = (unsigned char)sender, sb[31] = 1;
			mpz_import(c, 32, 1, 1, 1, 0, sb);
		}
		tmcg_mpz_shash(h, 3, a, b, c);
		std::stringstream ss;
		ss << h;
		ptag = ss.str();
		mpz_clear(a), mpz_clear(b), mpz_clear(c), mpz_clear(h);
	}
	std::string project() const
	{
		std::string o;
		char buf[128];
		for (int p = 0; p < cfg.n; p++)
		{
			if (!cfg.honest[p]) { o += "#byz "; continue; }
			const CachinKursawePetzoldShoupRBC &r = *rbc[p];
			const std::vector<RBC_TagCheck> *fl[5] = {&r.send, &r.echo, &r.ready, &r.request, &r.answer};
			const char *nm = "SERQA";
			o += "#";
			for (int f = 0; f < 5; f++)
			{
				o += nm[f];
				for (int l = 0; l < cfg.n; l++) o += (*fl[f])[l].count(ptag) ? "1" : "0";
			}
			int e[3] = {0, 0, 0}, rr[3] = {0, 0, 0};
			std::map<std::string, RBC_TagCount>::const_iterator ei = r.e_d.find(ptag), ri = r.r_d.find(ptag);
			if (ei != r.e_d.end()) for (RBC_TagCount::const_iterator k = ei->second.begin(); k != ei->second.end(); ++k) { int c = cls_of_digest(mpzstr_to62(k->first)); if (c < 3) e[c] += (int)k->second; }
			if (ri != r.r_d.end()) for (RBC_TagCount::const_iterator k = ri->second.begin(); k != ri->second.end(); ++k) { int c = cls_of_digest(mpzstr_to62(k->first)); if (c < 3) rr[c] += (int)k->second; }
			int mb = 0, db = 0;
			RBC_TagMpz::const_iterator mi = r.mbar.find(ptag), di = r.dbar.find(ptag);
			if (mi != r.mbar.end()) mb = cls_of_value(zstr(mi->second));
			if (di != r.dbar.end()) db = cls_of_digest(zstr(di->second));
			int nd = (int)delivered[p].size(), dv = nd ? cls_of_value(delivered[p][0].value) : 0;
			snprintf(buf, sizeof buf, "e%d,%dr%d,%dm%dd%dk%dc%dv%d ", e[1], e[2], rr[1], rr[2], mb, db, has_acked(r, ptag, 0), nd, dv);
			o += buf;
		}
		for (int a = 0; a < cfg.n; a++)
			for (int b = 0; b < cfg.n; b++)
			{
				if (net.q[a][b].empty()) continue;
				o += "L" + drv::str(a) + ">" + drv::str(b) + ":";
				for (size_t i = 0; i < net.q[a][b].size(); i++)
				{
					const NMsg &x = net.q[a][b][i];
					int act = atoi(x.f[3].c_str());   // actions 1..8 are single base-62 digits
					int c = (act == 1 || act == 5) ? cls_of_value(x.f[4]) : cls_of_digest(x.f[4]);
					o += drv::str(act) + "." + drv::str(c) + ",";
				}
				o += " ";
			}
		return o;
	}
	// keys of e_d / r_d are decimal-free strings produced by operator<< (base 62): already the zstr form
	static std::string mpzstr_to62(const std::string &s) { return s; }

	static uint64_t hash64(const std::string &s, uint64_t seed)
	{
		uint64_t h = 1469598103934665603ULL ^ seed;
		for (size_t i = 0; i < s.size(); i++) { h ^= (unsigned char)s[i]; h *= 1099511628211ULL; }
		h ^= h >> 29; h *= 0xbf58476d1ce4e5b9ULL; h ^= h >> 32;
		return h;
	}
	// enabled message-consumption events in canonical order: globally oldest message first
	std::vector<Ev> enabled_msgs() const
	{
		std::vector<std::pair<uint64_t, Ev> > v;
		for (int a = 0; a < cfg.n; a++)
			for (int b = 0; b < cfg.n; b++)
				if (cfg.honest[b] && !net.q[a][b].empty()) v.push_back(std::make_pair(net.q[a][b].front().seq, Ev{'M', b, a, 0}));
		std::sort(v.begin(), v.end(), [](const std::pair<uint64_t, Ev> &x, const std::pair<uint64_t, Ev> &y) { return x.first < y.first; });
		std::vector<Ev> r;
		for (size_t i = 0; i < v.size(); i++) r.push_back(v[i].second);
		return r;
	}
};

static inline World *build(const Cfg &cfg, const Hist &h)
{
	World *w = new World(cfg);
	for (size_t i = 0; i < h.size(); i++) w->apply(h[i]);
	return w;
}

// the identifying pieces a Byzantine script needs: channel ID and digests as the library computes them
static inline std::string chan_id(const Cfg &cfg)
{
	// replicate setID on a scratch instance to obtain the ID string of the base channel
	Net net(cfg.n);
	StepAiou a(cfg.n, 0, &net);
	CachinKursawePetzoldShoupRBC r(cfg.n, cfg.t, 0, &a, aiounicast::aio_scheduler_roundrobin, 0);
	r.setID(CHAN_NAMES[0], cfg.fifo);
	return zstr(r.ID);
}
// slot number (base-62 string) of the first broadcast of `sender` in the base channel as the harness steers it
static inline std::string first_slot(const Cfg &cfg, int sender)
{
	mpz_t c;
	mpz_init_set_ui(c, 1);
	if (!cfg.fifo && cfg.honest[sender])
	{
		unsigned char sb[32];
		memset(sb, 0, sizeof sb);
		sb[0] = 0x5a, sb[1] = (unsigned char)sender, sb[31] = 1;
		mpz_import(c, 32, 1, 1, 1, 0, sb);
	}
	std::string r = zstr(c);
	mpz_clear(c);
	return r;
}
static inline std::string digest_of(unsigned long value)
{
	mpz_t m, d;
	mpz_init_set_ui(m, value), mpz_init(d);
	tmcg_mpz_shash(d, 1, m);
	std::string r = zstr(d);
	mpz_clear(m), mpz_clear(d);
	return r;
}

}
#endif
