// C15 — shared harness for the secret-sharing / DKG consistency drivers (see c15_dkg.cc for the enumeration).
//
// A "world" is one run of a multi-party protocol on mc/sched: n parties, two in-memory networks (unicast for the private
// shares, broadcast network under the REAL CachinKursawePetzoldShoupRBC), deterministic coins, virtual clock.  Faulty
// parties run the same library code, but either with the library's own `simulate_faulty_behaviour` switch (its coins are
// steered) or with a scripted deviation applied to what they put on the wire (sched::Net::on_send).  After the run the
// parent reads every honest party's object (private members via -fno-access-control) and judges it with plain GMP.
#ifndef C15_COMMON_HH
#define C15_COMMON_HH
#include "drv.hh"
#include "sched.hh"
#include <libTMCG.hh>
#include <climits>
#include <memory>

namespace c15 {

// ---------------------------------------------------------------------------------------------------------------------
// small GMP value wrapper
struct Mpz {
	mpz_t v;
	Mpz() { mpz_init(v); }
	Mpz(const Mpz &o) { mpz_init_set(v, o.v); }
	explicit Mpz(mpz_srcptr o) { mpz_init_set(v, o); }
	explicit Mpz(unsigned long u) { mpz_init_set_ui(v, u); }
	Mpz &operator=(const Mpz &o) { if (this != &o) mpz_set(v, o.v); return *this; }
	~Mpz() { mpz_clear(v); }
	operator mpz_ptr() { return v; }
	operator mpz_srcptr() const { return v; }
	std::string s() const { return sched::mpz_s(v); }
	bool operator==(const Mpz &o) const { return mpz_cmp(v, o.v) == 0; }
	bool operator!=(const Mpz &o) const { return mpz_cmp(v, o.v) != 0; }
};

struct Group {
	Mpz p, q, g, h, k;           // h = g^k, k chosen by the harness (the library only sees h)
	unsigned long psize, qsize;
};

// a fresh Schnorr group with the library's own generator (canonical, verifiable g) — accepted by every CheckGroup
inline void make_group(Group &G, uint64_t seed, unsigned long psize, unsigned long qsize)
{
	mcenv::CoinSource gs(seed, 7);
	mcenv::CoinSource *saved = mcenv::cur;
	mcenv::cur = &gs;
	BarnettSmartVTMF_dlog vtmf(psize, qsize, true, true);
	G.p = Mpz(vtmf.p), G.q = Mpz(vtmf.q), G.g = Mpz(vtmf.g);
	G.psize = psize, G.qsize = qsize;
	do
	{
		tmcg_mpz_srandomm(G.k, G.q);
		mpz_powm(G.h, G.g, G.k, G.p);
	}
	while (mpz_cmp_ui(G.k.v, 2) < 0 || !mpz_cmp(G.h, G.g) || !mpz_cmp_ui(G.h.v, 1));
	mcenv::cur = saved;
}

// ---------------------------------------------------------------------------------------------------------------------
// deviations of one faulty party
//  B  library switch simulate_faulty_behaviour=true; bits[ph] = values of the first coins (8-byte weak requests) the
//     party draws in phase ph, `rest` = value of every later such coin
//  W  a,b: the b-th private (unicast) scalar sent to party a is replaced by value+1 mod q   (wrong share)
//  Q  a,b: ... by value+q                                                                   (share out of range)
//  N  a,b: ... by value-q                                                                   (negative, congruent)
//  D  a  : every private message to party a is dropped
//  C  a  : crash (silence for ever) at the party's a-th application event; events = its private sends and the
//          starts of its own reliable broadcasts, counted from 0
//  c  a,b: crash inside its a-th own broadcast after the r-send to parties 0..b-1 went out   (partial broadcast)
//  M  a,b: the payload of its a-th own broadcast is replaced, the same for all recipients: b=0 value+1, 1 zero,
//          2 p-1 (order two), 3 value+q
//  I  a,b: one additional reliable broadcast with payload b is made just before its a-th own broadcast (a false or
//          duplicated complaint, a stray end marker ...); the sequence numbers of its later broadcasts are shifted
//  J  a,b: three additional broadcasts b, 1, 1 before its a-th own broadcast (a complaint with two values)
//  U  a,b: dealer that does not answer complaints.  a = bit mask of victims V; b = variant + 10*sharing + 100*flavour.
//          In joint sharing number `sharing` of the protocol (Proto::sharing) the private pair (s, s') for every victim
//          goes out with s+1 (flavour 1), s'+1 (flavour 2) or both (3); in the answer phase (the broadcasts after its
//          own complaint list) variant 0 = no answer at all (only the end marker), 1 = the answer to the first
//          complainer is left out, 2 = instead of the answers one valid triple (w, s_bw, s'_bw) for the lowest party w
//          that did not complain, 3 = every complaint is answered correctly (only the private pairs are wrong).  Left-out
//          broadcasts are removed from the sequence numbering.
//  Z  a,b: Byzantine dealer of a ZERO sharing (phase Proto::zero_phase()): with delta = {1, q-1, 42}[b], delta' = 7
//          a=0 a CONSISTENT Pedersen sharing of a polynomial with constant term delta: the first commitment of the phase
//              (C_b0 = 1) is broadcast as g^delta h^delta', every private pair (s, s') goes out as (s+delta, s'+delta')
//          a=1 only the commitment is rewritten (shares of a zero polynomial under a non-zero commitment)
//          a=2 only the shares are rewritten (C_b0 = 1, shares of a non-zero polynomial)
struct Dev {
	char kind;
	int a, b;
	std::vector<std::string> bits;
	int rest;
	Dev() : kind('H'), a(0), b(0), rest(0) {}
	static Dev mk(char k, int a_ = 0, int b_ = 0) { Dev d; d.kind = k, d.a = a_, d.b = b_; return d; }
	std::string id() const
	{
		std::ostringstream o;
		o << kind;
		if (kind == 'B')
		{
			for (size_t i = 0; i < bits.size(); i++) o << (i ? "/" : "") << (bits[i].empty() ? "-" : bits[i]);
			o << "r" << rest;
		}
		else if (kind == 'D' || kind == 'C') o << a;
		else if (kind != 'H') o << a << "." << b;
		return o.str();
	}
};

struct Crash {};   // thrown from the network hook through the library code of a crashing party

struct PartyState {
	bool faulty;
	Dev dev;
	// wire counters (kept for every party: the fault-free reference run measures the alphabet)
	int events, bcasts, cur_batch;
	std::string evkind;        // per event: 'u' private send, 'b' start of an own broadcast
	std::vector<int> ucount;
	bool fired, crashed;
	int ins_off;               // sequence number shift after an inserted / left-out broadcast, valid in channel ins_id
	int u_state, u_pos;        // 'U': 0 commitments, 1 own complaint list, 2 answers, 3 done; position inside the answers
	bool drop_batch;
	std::string u_answer;
	std::vector<std::vector<std::string> > u_sent;   // 'U': the private pair dealt to each party in the target sharing
	std::string ins_id;
	// coins
	int phase, weak8;
	int phase_bcast0;           // own broadcasts / private messages sent before the current phase began
	std::vector<int> phase_ucount0;
	// results
	int phase_done;
	std::vector<int> ret;      // -1 not run, 0 false, 1 true
	PartyState() : faulty(false), events(0), bcasts(0), cur_batch(-1), fired(false), crashed(false), ins_off(0), u_state(0), u_pos(0), drop_batch(false), phase(0), weak8(0), phase_bcast0(0), phase_done(-1) {}
};

struct Cfg {
	std::string proto;
	int n, t, variant;
	int dealer, sigma_kind;     // dealer based sharing only
	int sched;                  // 0 round robin, 1 reverse round robin, 2 seeded pseudo-random choice of the next party
	Cfg() : n(0), t(0), variant(0), dealer(-1), sigma_kind(0), sched(0) {}
	std::string id() const
	{
		std::ostringstream o;
		o << proto << ";n=" << n << ";t=" << t << ";v=" << variant;
		if (dealer >= 0) o << ";d=" << dealer << ";s=" << sigma_kind;
		if (sched) o << ";sch=" << sched;
		return o.str();
	}
};

struct World;

struct Proto {
	World *W;
	Proto() : W(nullptr) {}
	virtual ~Proto() {}
	virtual int phases() const = 0;
	virtual void make(int i) = 0;                                                         // in the party's thread
	virtual bool run(int ph, int i, aiounicast *au, CachinKursawePetzoldShoupRBC *rbc, bool sim) = 0;
	virtual bool wants(int ph, int i) { return true; }                                    // does honest party i run phase ph
	virtual void after_phase(int ph, int i) {}                                            // snapshots, in the thread
	virtual void judge() = 0;                                                             // in the parent
	virtual std::vector<int> coin_layout(int party) const = 0;                           // leading coins per phase
	virtual bool rest_matters(int party) const { return false; }
	virtual int zero_phase() const { return -1; }
	// joint sharings with a complaint / answer round: how many, and where number k starts (phase, offset of its private
	// pair among the private messages of the phase, offset of its first commitment among the own broadcasts of the phase)
	virtual int sharings() const { return 0; }
	virtual void sharing(int k, int &ph, int &uoff, int &boff) const { ph = 0, uoff = 0, boff = 0; }
	virtual bool deals(int party) const { return true; }
	virtual bool answers_have_markers() const { return true; }                                         // phase that is a zero sharing
};

struct Viol { std::string key, what; };

struct World {
	Cfg cfg;
	const Group *G;
	std::vector<PartyState> ps;
	std::vector<Viol> viols;
	std::set<std::string> viol_keys;
	bool livelock;
	int64_t vsecs;
	uint64_t handoffs, msgs;
	double secs;
	time_t t_unicast, t_bcast;
	std::vector<std::string> logs;     // the library's err stream per party (kept even if the party crashes)
	std::set<int> bad_share;           // honest parties whose share does not match the commitments (judge_joint)
	std::map<std::string, int> notes;  // counted, not alarmed: liveness failures and the like

	World(const Cfg &c, const Group *g) : cfg(c), G(g), ps(c.n), livelock(false), vsecs(0), handoffs(0), msgs(0), secs(0),
		t_unicast(aiounicast::aio_timeout_short), t_bcast(aiounicast::aio_timeout_long)
	{
		for (int i = 0; i < c.n; i++) ps[i].ucount.assign(c.n, 0);
		logs.assign(c.n, "");
	}
	void set_fault(int party, const Dev &d) { ps[party].faulty = true, ps[party].dev = d; }
	bool honest(int i) const { return !ps[i].faulty; }
	std::vector<int> honest_list() const { std::vector<int> h; for (int i = 0; i < cfg.n; i++) if (honest(i)) h.push_back(i); return h; }
	std::string fault_id() const
	{
		std::string s;
		for (int i = 0; i < cfg.n; i++)
			if (ps[i].faulty) s += (s.empty() ? "" : "+") + drv::str(i) + ":" + ps[i].dev.id();
		return s.empty() ? "-" : s;
	}
	std::string id() const { return cfg.id() + ";F=" + fault_id(); }
	void viol(const std::string &key, const std::string &what)
	{
		if (viol_keys.insert(key).second)      // one report per key and run
			viols.push_back(Viol{key, what});
	}
	bool all_effective() const { for (int i = 0; i < cfg.n; i++) if (ps[i].faulty && !ps[i].fired) return false; return true; }
};

// err stream of one protocol call; its text is appended to the world's log when the call ends (also by exception)
struct Log {
	World *W;
	int i;
	std::stringstream s;
	Log(World *w, int i_) : W(w), i(i_) {}
	~Log() { W->logs[i] += s.str(); }
};

// MemAiou whose receive cannot spin once the scheduler has given up (livelock): the library's polling loops are bounded
// by time(), so let the clock run away instead of yielding
class Aiou : public sched::MemAiou {
public:
	Aiou(size_t n_in, size_t j_in, sched::Net *net_in, sched::Sched *S_in, time_t timeout)
		: sched::MemAiou(n_in, j_in, net_in, S_in, aiounicast::aio_scheduler_roundrobin, timeout) {}
	bool Receive(mpz_ptr m, size_t &i_out, const size_t scheduler = aio_scheduler_default, const time_t timeout = aio_timeout_default) override
	{
		if (S && S->livelock) { mcenv::vclock += 100000; if (scheduler != aio_scheduler_direct) i_out = n; return false; }
		return sched::MemAiou::Receive(m, i_out, scheduler, timeout);
	}
	bool Receive(std::vector<mpz_ptr> &m, size_t &i_out, const size_t scheduler = aio_scheduler_default, const time_t timeout = aio_timeout_default) override
	{
		if (S && S->livelock) { mcenv::vclock += 100000; if (scheduler != aio_scheduler_direct) i_out = n; return false; }
		return sched::MemAiou::Receive(m, i_out, scheduler, timeout);
	}
};

inline void commit(mpz_ptr out, const Group &G, mpz_srcptr a, mpz_srcptr b);

inline void zdelta(mpz_ptr delta, mpz_ptr deltap, int which, const Group &G)
{
	if (which == 0) mpz_set_ui(delta, 1);
	else if (which == 1) mpz_sub_ui(delta, G.q, 1);
	else mpz_set_ui(delta, 42);
	mpz_set_ui(deltap, 7);
}

inline void apply_payload(std::string &dec, int how, const Group &G)
{
	Mpz v;
	mpz_set_str(v, dec.c_str(), 10);
	switch (how)
	{
		case 0: mpz_add_ui(v, v, 1); break;
		case 1: mpz_set_ui(v, 0); break;
		case 2: mpz_sub_ui(v, G.p, 1); break;
		default: mpz_add(v, v, G.q); break;
	}
	dec = v.s();
}

// Run one world.  Returns false if the scheduler's horizon was exceeded.
inline bool run_world(World &W, Proto &P, uint64_t seed)
{
	const int n = W.cfg.n, t = W.cfg.t;
	const Group &G = *W.G;
	P.W = &W;
	mcenv::set_clock(1700000000);
	sched::Sched S(n);
	S.horizon = 50000;
	uint64_t pick_state = seed * 0x9e3779b97f4a7c15ULL + 12345;
	// the candidate list of Sched::next_after ends with the yielding party itself: never choose that one
	if (W.cfg.sched == 1)
		S.pick = [](int, const std::vector<int> &c) -> size_t { return c.size() >= 2 ? c.size() - 2 : 0; };
	else if (W.cfg.sched == 2)
		S.pick = [&pick_state](int, const std::vector<int> &c) -> size_t { return c.size() >= 2 ? (size_t)(mcenv::splitmix(pick_state) % (c.size() - 1)) : 0; };
	sched::Net ucast(n), bcast(n);
	const int NPH = P.phases();
	for (int i = 0; i < n; i++) W.ps[i].ret.assign(NPH, -1);

	ucast.on_send = [&](int from, int to, sched::Msg &m) -> bool {
		PartyState &ps = W.ps[from];
		int ev = ps.events++;
		int idx = ps.ucount[to]++;
		ps.evkind += 'u';
		if (getenv("C15_TRACE")) fprintf(stderr, "t=%ld ucast %d->%d #%d\n", (long)(mcenv::vclock - 1700000000), from, to, idx);
		if (!ps.faulty) return true;
		const Dev &d = ps.dev;
		switch (d.kind)
		{
			case 'C':
				if (ev >= d.a) { ps.fired = true; throw Crash(); }
				break;
			case 'W': case 'Q': case 'N':
				if (to == d.a && idx == d.b && !m.is_array && m.v.size() == 1)
				{
					Mpz v;
					mpz_set_str(v, m.v[0].c_str(), 10);
					if (d.kind == 'W') { mpz_add_ui(v, v, 1); mpz_mod(v, v, G.q); }
					else if (d.kind == 'Q') mpz_add(v, v, G.q);
					else mpz_sub(v, v, G.q);
					m.v[0] = v.s();
					ps.fired = true;
				}
				break;
			case 'D':
				if (to == d.a) { ps.fired = true; return false; }
				break;
			case 'U':
			{
				int ph, uoff, boff;
				P.sharing((d.b / 10) % 10, ph, uoff, boff);
				if (ps.phase != ph || m.is_array || m.v.size() != 1) break;
				int rel = idx - ((size_t)to < ps.phase_ucount0.size() ? ps.phase_ucount0[to] : 0) - uoff;
				if (rel != 0 && rel != 1) break;
				if (ps.u_sent.empty()) ps.u_sent.assign(n, std::vector<std::string>(2, "0"));
				ps.u_sent[to][rel] = m.v[0];
				int flavour = d.b / 100;
				if (((d.a >> to) & 1) && ((rel == 0 && (flavour & 1)) || (rel == 1 && (flavour & 2))))
				{
					Mpz v;
					mpz_set_str(v, m.v[0].c_str(), 10);
					mpz_add_ui(v, v, 1), mpz_mod(v, v, G.q);
					m.v[0] = v.s();
				}
				break;
			}
			case 'Z':
				if (ps.phase == P.zero_phase() && (d.a == 0 || d.a == 2) && !m.is_array && m.v.size() == 1)
				{
					int rel = idx - ((size_t)to < ps.phase_ucount0.size() ? ps.phase_ucount0[to] : 0);
					if (rel == 0 || rel == 1)
					{
						Mpz v, dl, dlp;
						zdelta(dl, dlp, d.b, G);
						mpz_set_str(v, m.v[0].c_str(), 10);
						mpz_add(v, v, rel == 0 ? dl : dlp), mpz_mod(v, v, G.q);
						m.v[0] = v.s();
						ps.fired = true;
					}
				}
				break;
			default: break;
		}
		return true;
	};
	bcast.on_send = [&](int from, int to, sched::Msg &m) -> bool {
		PartyState &ps = W.ps[from];
		bool own_rsend = m.is_array && m.v.size() == 5 && m.v[3] == "1";
		if (!own_rsend) return true;
		const Dev &d = ps.dev;
		if (to == 0)
		{
			ps.cur_batch = ps.bcasts++;
			int ev = ps.events++;
			ps.evkind += 'b';
			if (getenv("C15_TRACE")) fprintf(stderr, "t=%ld bcast %d #%d payload %s\n", (long)(mcenv::vclock - 1700000000), from, ps.cur_batch, m.v[4].substr(0, 12).c_str());
			if (ps.faulty && d.kind == 'C' && ev >= d.a) { ps.fired = true; throw Crash(); }
		}
		if (!ps.faulty) return true;
		if (d.kind == 'U')
		{
			if (to == 0)
			{
				ps.drop_batch = false;
				ps.u_answer.clear();
				int ph, uoff, boff;
				P.sharing((d.b / 10) % 10, ph, uoff, boff);
				int r = ps.cur_batch - ps.phase_bcast0 - boff;
				const int variant = d.b % 10;
				const bool is_n = m.v[4] == drv::str(n);
				if (ps.phase == ph && r > t && ps.u_state < 3)
				{
					if (ps.u_state == 0) ps.u_state = P.answers_have_markers() ? 1 : 2;
					if (ps.u_state == 1)
					{
						if (is_n) ps.u_state = 2, ps.u_pos = 0;      // end of its own complaint list
					}
					else if (P.answers_have_markers() && ps.u_pos % 3 == 0 && is_n)
						ps.u_state = 3;                                 // end marker of the answers: goes out
					else
					{
						int ti = ps.u_pos / 3, within = ps.u_pos % 3;
						ps.u_pos++;
						ps.fired = true;
						if (variant == 0 || (variant == 1 && ti == 0) || (variant == 2 && ti > 0)) ps.drop_batch = true;
						else if (variant == 2)
						{
							int w = -1;
							for (int x = 0; x < n; x++) if (x != from && !((d.a >> x) & 1)) { w = x; break; }
							if (w < 0 || ps.u_sent.empty()) ps.drop_batch = true;
							else ps.u_answer = within == 0 ? drv::str(w) : ps.u_sent[w][within - 1];
						}
						if (ps.drop_batch) ps.ins_off -= 1, ps.ins_id = m.v[0];
					}
				}
			}
			if (ps.drop_batch) return false;
			if (!ps.u_answer.empty()) m.v[4] = ps.u_answer;
		}
		if ((d.kind == 'I' || d.kind == 'J') && to == 0 && ps.cur_batch == d.a && !ps.fired)
		{
			std::vector<std::string> pay;
			pay.push_back(drv::str(d.b));
			if (d.kind == 'J') pay.push_back("1"), pay.push_back("1");
			Mpz seq;
			mpz_set_str(seq, m.v[2].c_str(), 10);
			for (size_t x = 0; x < pay.size(); x++)
			{
				sched::Msg extra;
				extra.is_array = true;
				extra.v.push_back(m.v[0]), extra.v.push_back(m.v[1]), extra.v.push_back(seq.s()), extra.v.push_back("1"), extra.v.push_back(pay[x]);
				for (int r = 0; r < n; r++) bcast.q[from][r].push_back(extra), bcast.sent++;
				mpz_add_ui(seq, seq, 1);
			}
			ps.ins_off = (int)pay.size(), ps.ins_id = m.v[0], ps.fired = true;
		}
		if (ps.ins_off && m.v[0] == ps.ins_id)
		{
			Mpz seq;
			mpz_set_str(seq, m.v[2].c_str(), 10);
			if (ps.ins_off > 0) mpz_add_ui(seq, seq, (unsigned long)ps.ins_off);
			else mpz_sub_ui(seq, seq, (unsigned long)(-ps.ins_off));
			m.v[2] = seq.s();
		}
		if (d.kind == 'c' && ps.cur_batch == d.a && to >= d.b) { ps.fired = true; throw Crash(); }
		if (d.kind == 'M' && ps.cur_batch == d.a) { apply_payload(m.v[4], d.b, G); ps.fired = true; }
		if (d.kind == 'Z' && ps.phase == P.zero_phase() && (d.a == 0 || d.a == 1) && ps.cur_batch == ps.phase_bcast0)
		{
			Mpz dl, dlp, c;
			zdelta(dl, dlp, d.b, G);
			commit(c, G, dl, dlp);
			m.v[4] = c.s();
			ps.fired = true;
		}
		return true;
	};

	std::vector<mcenv::CoinSource> coins;
	for (int i = 0; i < n; i++) coins.push_back(mcenv::CoinSource(seed, 1000 + i));
	for (int i = 0; i < n; i++)
	{
		PartyState *ps = &W.ps[i];
		if (ps->faulty && ps->dev.kind == 'B')
		{
			ps->fired = false;
			coins[i].steer = [ps](unsigned char *buf, size_t len, int level, uint64_t) -> bool {
				if (len != 8 || level != 0) return false;
				int k = ps->weak8++;
				const Dev &d = ps->dev;
				int v = d.rest;
				if (ps->phase < (int)d.bits.size() && k < (int)d.bits[ps->phase].size()) v = d.bits[ps->phase][k] - '0';
				memset(buf, 0, len);
				buf[0] = (unsigned char)v;      // host order: the value is v, so v % 2 == v
				if (v) ps->fired = true;
				return true;
			};
		}
	}

	auto all_reached = [&](int ph) {
		for (int i = 0; i < n; i++) if (W.ps[i].phase_done < ph) return false;
		return true;
	};
	double t0 = drv::now();
	bool ok = sched::run_parties(S, [&](int i) {
		PartyState &ps = W.ps[i];
		try
		{
			Aiou au(n, i, &ucast, &S, W.t_unicast);
			Aiou ab(n, i, &bcast, &S, W.t_bcast);
			// resilience of the broadcast layer: the largest t' <= t with 3t' < n (differs from t only in the 2t < n <= 3t configurations)
			size_t trbc = t;
			while (trbc > 0 && 3 * trbc >= (size_t)n) trbc--;
			CachinKursawePetzoldShoupRBC rbc(n, trbc, i, &ab, aiounicast::aio_scheduler_roundrobin, W.t_bcast);
			rbc.setID("c15");
			P.make(i);
			Mpz tmp;
			for (int ph = 0; ph < NPH; ph++)
			{
				ps.phase = ph, ps.weak8 = 0;
				ps.phase_bcast0 = ps.bcasts, ps.phase_ucount0 = ps.ucount;
				if (ps.faulty || P.wants(ph, i))
				{
					bool r = P.run(ph, i, &au, &rbc, ps.faulty && ps.dev.kind == 'B');
					ps.ret[ph] = r ? 1 : 0;
					P.after_phase(ph, i);
				}
				// stay alive for the others (what rbc->Sync does in the library's tests): serve the broadcast layer
				// until every living party has finished this phase
				ps.phase_done = ph;
				while (!all_reached(ph) && !S.livelock)
				{
					size_t l = 0;
					rbc.Deliver(tmp, l, aiounicast::aio_scheduler_roundrobin, 0);
				}
			}
		}
		catch (Crash &)
		{
			ps.crashed = true;
			ps.phase_done = INT_MAX;
		}
	}, seed, &coins);
	W.secs = drv::now() - t0;
	W.livelock = !ok;
	W.vsecs = mcenv::vclock - S.start_clock;
	W.handoffs = S.handoffs;
	W.msgs = ucast.sent + bcast.sent;
	return ok;
}

// ---------------------------------------------------------------------------------------------------------------------
// oracle helpers (plain GMP, written for this harness)

// value at 0 of the polynomial through (idx[a]+1, val[a]) over Z_q
inline void lagrange0(mpz_ptr out, const std::vector<int> &idx, const std::vector<const Mpz *> &val, mpz_srcptr q)
{
	Mpz num, den, term, d;
	mpz_set_ui(out, 0);
	for (size_t a = 0; a < idx.size(); a++)
	{
		mpz_set_ui(num, 1), mpz_set_ui(den, 1);
		for (size_t b = 0; b < idx.size(); b++)
		{
			if (b == a) continue;
			mpz_mul_ui(num, num, (unsigned long)(idx[b] + 1));
			mpz_set_si(d, (long)(idx[b] + 1) - (long)(idx[a] + 1));
			mpz_mul(den, den, d);
		}
		mpz_mod(den, den, q);
		mpz_invert(den, den, q);
		mpz_mul(term, num, den);
		mpz_mul(term, term, *val[a]);
		mpz_add(out, out, term);
		mpz_mod(out, out, q);
	}
}

// g^a h^b mod p with exponents reduced mod q first (a share may be stored as a negative representative)
inline void commit(mpz_ptr out, const Group &G, mpz_srcptr a, mpz_srcptr b)
{
	Mpz ea, eb, x, y;
	mpz_mod(ea, a, G.q), mpz_mod(eb, b, G.q);
	mpz_powm(x, G.g, ea, G.p), mpz_powm(y, G.h, eb, G.p);
	mpz_mul(out, x, y), mpz_mod(out, out, G.p);
}

// prod_k C[k]^{(i+1)^k} mod p
inline void eval_commitments(mpz_ptr out, const Group &G, const std::vector<Mpz> &C, int i)
{
	Mpz e, b;
	mpz_set_ui(out, 1);
	for (size_t k = 0; k < C.size(); k++)
	{
		mpz_ui_pow_ui(e, (unsigned long)(i + 1), (unsigned long)k);
		mpz_powm(b, C[k], e, G.p);
		mpz_mul(out, out, b), mpz_mod(out, out, G.p);
	}
}

inline std::string set_str(const std::vector<size_t> &v)
{
	std::string s = "{";
	for (size_t i = 0; i < v.size(); i++) s += (i ? "," : "") + drv::str(v[i]);
	return s + "}";
}

inline std::vector<Mpz> copy_row(const std::vector<mpz_ptr> &r)
{
	std::vector<Mpz> o;
	for (size_t k = 0; k < r.size(); k++) o.push_back(Mpz(r[k]));
	return o;
}

// what one honest party holds after a joint sharing (each party is dealer and receiver)
struct JView {
	int party;
	bool ret;
	std::vector<size_t> qual;              // the set the share is summed over / the commitments are multiplied over
	bool has_fqual;
	std::vector<size_t> fqual;             // the final set of qualified parties, if the class keeps a second one (CGJKR DKG)
	Mpz x, xp;
	std::vector<std::vector<Mpz> > C;      // [dealer][k]
	bool has_y;
	Mpz y;
	std::vector<Mpz> vkeys;                // Feldman verification keys g^{x_j} (GJKR), empty otherwise
	bool has_z;
	Mpz z;                                 // own contribution f_i(0), if the class keeps it
	JView() : party(-1), ret(false), has_fqual(false), has_y(false), has_z(false) {}
};

struct JResult { bool have_x; Mpz x, xp; JResult() : have_x(false) {} };

// the consistency oracle for joint sharings; `views` are the honest parties only
inline JResult judge_joint(World &W, const std::string &tag, std::vector<JView> &all_views, int deg, bool expect_zero)
{
	JResult res;
	const Group &G = *W.G;
	// The property speaks about the state the honest parties END UP WITH: judged are the honest parties whose call
	// succeeded.  No honest party succeeding is a (counted) liveness failure, not an inconsistency.
	std::vector<JView> views;
	for (size_t a = 0; a < all_views.size(); a++) if (all_views[a].ret) views.push_back(all_views[a]);
	if (views.empty())
	{
		if (!all_views.empty()) W.notes[tag + ".all_honest_failed"]++;
		return res;
	}
	bool structural_ok = true;
	for (size_t a = 0; a < all_views.size(); a++)
	{
		if (all_views[a].ret) continue;
		// an honest party that failed: consistent only if the successful ones agree that it is not qualified
		bool in_some = false;
		for (size_t b = 0; b < views.size(); b++)
		{
			const std::vector<size_t> &fq = views[b].has_fqual ? views[b].fqual : views[b].qual;
			if (std::find(fq.begin(), fq.end(), (size_t)all_views[a].party) != fq.end()) in_some = true;
		}
		if (in_some)
		{
			W.viol(tag + "/honest-outcomes-differ", "honest party " + drv::str(all_views[a].party) + " ended with failure while honest party " + drv::str(views[0].party) + " succeeded with QUAL " + set_str(views[0].has_fqual ? views[0].fqual : views[0].qual) + " that contains it");
			structural_ok = false;
		}
		else
			W.notes[tag + ".honest_disqualified"]++;
	}
	for (size_t a = 1; a < views.size(); a++)
		if (views[a].qual != views[0].qual)
		{
			W.viol(tag + "/qual-disagree", "honest parties " + drv::str(views[0].party) + " and " + drv::str(views[a].party) + " hold different QUAL: " + set_str(views[0].qual) + " vs " + set_str(views[a].qual));
			structural_ok = false;
		}
	// public verification values agree
	for (size_t a = 1; a < views.size(); a++)
		for (size_t qi = 0; qi < views[a].qual.size(); qi++)
		{
			size_t j = views[a].qual[qi];
			if (j >= views[0].C.size() || j >= views[a].C.size()) continue;
			for (size_t k = 0; k < views[a].C[j].size() && k < views[0].C[j].size(); k++)
				if (views[a].C[j][k] != views[0].C[j][k])
				{
					W.viol(tag + "/commitments-disagree", "commitment C[" + drv::str(j) + "][" + drv::str(k) + "] differs between honest parties " + drv::str(views[0].party) + " and " + drv::str(views[a].party));
					structural_ok = false;
				}
		}
	// every honest share matches the public verification values
	Mpz lhs, rhs, e;
	for (size_t a = 0; a < views.size(); a++)
	{
		JView &v = views[a];
		commit(lhs, G, v.x, v.xp);
		mpz_set_ui(rhs, 1);
		for (size_t qi = 0; qi < v.qual.size(); qi++)
		{
			size_t j = v.qual[qi];
			if (j >= v.C.size()) continue;
			eval_commitments(e, G, v.C[j], v.party);
			mpz_mul(rhs, rhs, e), mpz_mod(rhs, rhs, G.p);
		}
		if (mpz_cmp(lhs, rhs))
			W.bad_share.insert(v.party);
		if (mpz_cmp(lhs, rhs))
			W.viol(tag + "/share-vs-commitments", "g^x_i h^x'_i of honest party " + drv::str(v.party) + " differs from prod_{j in QUAL} prod_k C_jk^{(i+1)^k}, QUAL=" + set_str(v.qual));
	}
	// every (deg+1)-subset of the honest shares interpolates to the same secret
	const size_t m = views.size();
	if ((int)m < deg + 1) return res;
	bool first = true, consistent = true;
	Mpz x0, xp0, x, xp;
	for (unsigned mask = 0; mask < (1u << m); mask++)
	{
		if (__builtin_popcount(mask) != deg + 1) continue;
		std::vector<int> idx;
		std::vector<const Mpz *> vx, vxp;
		for (size_t a = 0; a < m; a++)
			if (mask & (1u << a)) idx.push_back(views[a].party), vx.push_back(&views[a].x), vxp.push_back(&views[a].xp);
		lagrange0(x, idx, vx, G.q), lagrange0(xp, idx, vxp, G.q);
		if (first) x0 = x, xp0 = xp, first = false;
		else if (x != x0 || xp != xp0)
		{
			std::string sub;
			for (size_t a = 0; a < idx.size(); a++) sub += (a ? "," : "") + drv::str(idx[a]);
			W.viol(tag + "/interpolation-inconsistent", "honest shares {" + sub + "} interpolate to " + x.s() + " (companion " + xp.s() + "), the first subset to " + x0.s() + " (companion " + xp0.s() + ")");
			consistent = false;
			break;
		}
	}
	if (!consistent) return res;
	res.have_x = true, res.x = x0, res.xp = xp0;
	// the interpolated pair opens the product of the constant commitments
	{
		JView &v = views[0];
		commit(lhs, G, x0, xp0);
		mpz_set_ui(rhs, 1);
		for (size_t qi = 0; qi < v.qual.size(); qi++)
			if (v.qual[qi] < v.C.size() && !v.C[v.qual[qi]].empty())
				mpz_mul(rhs, rhs, v.C[v.qual[qi]][0]), mpz_mod(rhs, rhs, G.p);
		if (mpz_cmp(lhs, rhs))
			W.viol(tag + "/secret-vs-commitments", "the secret interpolated from the honest shares does not open prod_{j in QUAL} C_j0, QUAL=" + set_str(v.qual));
	}
	if (expect_zero && (mpz_sgn(x0.v) != 0 || mpz_sgn(xp0.v) != 0))
		W.viol(tag + "/nonzero-secret", "zero sharing interpolates to " + x0.s() + " / " + xp0.s());
	// public key
	bool have_y = true;
	for (size_t a = 0; a < m; a++) if (!views[a].has_y) have_y = false;
	if (have_y)
	{
		for (size_t a = 1; a < m; a++)
			if (views[a].y != views[0].y)
				W.viol(tag + "/key-disagree", "honest parties " + drv::str(views[0].party) + " and " + drv::str(views[a].party) + " hold different public keys y");
		mpz_powm(lhs, G.g, x0, G.p);
		for (size_t a = 0; a < m; a++)
			if (mpz_cmp(lhs, views[a].y))
			{
				W.viol(tag + "/secret-vs-key", "g^x for the secret x interpolated from the honest shares differs from the public key y held by honest party " + drv::str(views[a].party) + " (QUAL=" + set_str(views[a].qual) + ")");
				break;
			}
	}
	// Feldman verification keys
	for (size_t a = 0; a < m; a++)
	{
		if (views[a].vkeys.empty()) continue;
		for (size_t b = 0; b < m; b++)
		{
			size_t j = views[b].party;
			if (j >= views[a].vkeys.size()) continue;
			Mpz ex;
			mpz_mod(ex, views[b].x, G.q);
			mpz_powm(lhs, G.g, ex, G.p);
			if (mpz_cmp(lhs, views[a].vkeys[j]))
				W.viol(tag + "/verification-key", "g^x_j of honest party " + drv::str(j) + " differs from the verification key v_j held by honest party " + drv::str(views[a].party));
		}
	}
	// if only honest parties are qualified the secret is the sum of their contributions
	bool all_z = structural_ok;
	Mpz sum;
	for (size_t qi = 0; qi < views[0].qual.size() && all_z; qi++)
	{
		bool found = false;
		for (size_t a = 0; a < m; a++)
			if ((size_t)views[a].party == views[0].qual[qi] && views[a].has_z)
				mpz_add(sum, sum, views[a].z), found = true;
		if (!found) all_z = false;
	}
	if (all_z)
	{
		mpz_mod(sum, sum, G.q);
		if (sum != x0)
			W.viol(tag + "/secret-vs-contributions", "the interpolated secret differs from the sum of the qualified dealers' contributions");
	}
	return res;
}

}
#endif
